(* driver.ml — executes case scripts against the OCaml extraction of the Coq model (Model) and
   prints the same observation lines as harness/harness.c.
   usage: driver <scriptfile> [swp] [cap]      swp: 0|1 (default 0), cap: bytes or "none" *)
open Model

let rec pos_of_int n = if n = 1 then XH else if n land 1 = 0 then XO (pos_of_int (n lsr 1)) else XI (pos_of_int (n lsr 1))
let z_of_int n = if n = 0 then Z0 else if n > 0 then Zpos (pos_of_int n) else Zneg (pos_of_int (-n))
let rec int_of_pos = function XH -> 1 | XO p -> 2 * int_of_pos p | XI p -> 2 * int_of_pos p + 1
let int_of_z = function Z0 -> 0 | Zpos p -> int_of_pos p | Zneg p -> - (int_of_pos p)
let byte_tab = Array.init 256 z_of_int
let zb n = byte_tab.(n land 255)

let hexv c = if c <= '9' then Char.code c - 48 else (Char.code c lor 32) - 87
let unhex (s : string) : z list =
  if s = "-" || s = "~" then [] else begin
    let n = String.length s / 2 in
    let r = ref [] in
    for i = n - 1 downto 0 do r := zb (hexv s.[2 * i] * 16 + hexv s.[2 * i + 1]) :: !r done;
    !r
  end
let hexbuf = Buffer.create 65536
let hextab = Array.init 256 (fun i -> Printf.sprintf "%02x" i)
(* bytes are small non-negative Z values: decode without building an OCaml int the slow way *)
let rec small_pos p acc w = match p with XH -> acc + w | XO q -> small_pos q acc (2 * w) | XI q -> small_pos q (acc + w) (2 * w)
let byte_of_z = function Z0 -> 0 | Zpos p -> (small_pos p 0 1) land 255 | Zneg p -> (- (small_pos p 0 1)) land 255
let hex_of (l : z list) : string =
  match l with [] -> "-" | _ ->
    Buffer.clear hexbuf;
    List.iter (fun b -> Buffer.add_string hexbuf hextab.(byte_of_z b)) l;
    Buffer.contents hexbuf

let swp = ref false
let cap : z option ref = ref (Some (z_of_int (1 lsl 26)))

(* ---- driver-level state: mutable cells so that borrowed aliases see updates ---- *)
type vah = va ref
type csh = { mutable vals : vah option; mutable props : (z list * vah) list; mutable owned : bool }
type tsh = { mutable cols : csh option list; mutable towned : bool }
type outs = { mutable st : wst }
type ins = { mutable rest : z list; total : int }
type tmh = { tmd : md ref; mutable tc : md ref list }

let objs : (int, obj) Hashtbl.t = Hashtbl.create 64
let vas : (int, vah * bool) Hashtbl.t = Hashtbl.create 64       (* cell, script-owned *)
let mds : (int, md ref) Hashtbl.t = Hashtbl.create 64
let tms : (int, tmh) Hashtbl.t = Hashtbl.create 64
let css : (int, csh) Hashtbl.t = Hashtbl.create 64
let tss : (int, tsh) Hashtbl.t = Hashtbl.create 64
let outsT : (int, outs) Hashtbl.t = Hashtbl.create 64
let insT : (int, ins) Hashtbl.t = Hashtbl.create 64

let reset () =
  Hashtbl.reset objs; Hashtbl.reset vas; Hashtbl.reset mds; Hashtbl.reset tms; Hashtbl.reset css;
  Hashtbl.reset tss; Hashtbl.reset outsT; Hashtbl.reset insT

exception Bad of string
let get t h = try Hashtbl.find t h with Not_found -> raise (Bad "null handle")

let tm_of (t : tmh) : tm = { tmeta = !(t.tmd); tcols = List.map (fun r -> !r) t.tc }
let tmh_of (t : tm) : tmh = { tmd = ref t.tmeta; tc = List.map (fun m -> ref m) t.tcols }

let cs_val (c : csh) : va cs =
  { csvals = (match c.vals with Some v -> !v | None -> raise (Bad "cs without values"));
    csprops = List.map (fun (n, v) -> (n, !v)) c.props; csowned = c.owned }
let csh_of (c : va cs) : csh =
  { vals = Some (ref c.csvals); props = List.map (fun (n, v) -> (n, ref v)) c.csprops; owned = c.csowned }
let ts_val (t : tsh) : va cs ts =
  { tscols = List.map (function Some c -> Some (cs_val c) | None -> None) t.cols; tsowned = t.towned }
let tsh_of (t : va cs ts) : tsh =
  { cols = List.map (function Some c -> Some (csh_of c) | None -> None) t.tscols; towned = t.tsowned }

(* ---- dumps (must match harness.c byte for byte) ---- *)
let b = Buffer.create 65536
let add = Buffer.add_string b
let dump_obj (o : obj option) =
  match o with None -> add "null" | Some o ->
    add (Printf.sprintf "{%d %d" (int_of_z o.oty) (List.length o.oelems));
    let fixed_bad = (not (is_arr o.oty)) && int_of_z (usize o.oty) <= 0 in
    if not fixed_bad then List.iter (fun e -> add " "; add (hex_of e)) o.oelems;
    add "}"
let run_w (w : unit w) (budget : z) : int * z list =
  match w (wstart budget) with
  | (Ok _, s) -> (0, wbytes s)
  | (Err e, s) -> (int_of_z e, wbytes s)
let unlimited = z_of_int (1 lsl 60)
let dump_va (v : va) =
  let (e, bs) = run_w (va_write !swp v) unlimited in
  add (Printf.sprintf "<%d:%s>" e (hex_of bs))
let dump_md (m : md) =
  add (Printf.sprintf "[mod=%d" (if m.mmod then 1 else 0));
  List.iter (fun e -> add " ("; add (hex_of e.ename); add " "; dump_obj e.evalue; add " "; dump_obj e.edflt; add ")") m.ments;
  add "]"
let dump_tm (t : tm) =
  add "TM "; dump_md t.tmeta; add (Printf.sprintf " cols=%d" (List.length t.tcols));
  List.iter (fun m -> add " "; dump_md m) t.tcols
let dump_cs (c : csh option) =
  match c with None -> add "absent" | Some c ->
    add (Printf.sprintf "CS(own=%d " (if c.owned then 1 else 0));
    (match c.vals with Some v -> dump_va !v | None -> add "null");
    add (Printf.sprintf " props=%d" (List.length c.props));
    List.iter (fun (n, v) -> add " "; add (hex_of n); add "="; dump_va !v) c.props;
    add ")"
let dump_ts (t : tsh) =
  add (Printf.sprintf "TS(own=%d cols=%d" (if t.towned then 1 else 0) (List.length t.cols));
  List.iter (fun c -> add " "; dump_cs c) t.cols;
  add ")"

(* the decode buffers are allocated outside the reader monad: the allocation cap is applied here,
   with the size expression of sbdf_get_rle_values (calloc(rows, element size)) and
   sbdf_get_bitarray_values (malloc(rows)) *)
let va_get_values_capped (v : va) : obj res =
  let over n = match !cap with Some c -> n > int_of_z c | None -> false in
  let enc = int_of_z v.venc in
  if enc = int_of_z sBDF_RUNLENGTHENCODINGTYPEID then begin
    let esz = if is_arr v.vty then 8 else int_of_z (usize v.vty) in
    match va_get_values v with
    | Ok o when esz > 0 && over (esz * int_of_z v.value1) -> ignore o; Err sBDF_ERROR_OUT_OF_MEMORY
    | r -> r
  end else if enc = int_of_z sBDF_BITARRAYENCODINGTYPEID && over (int_of_z v.value1) then Err sBDF_ERROR_OUT_OF_MEMORY
  else va_get_values v

let dec_va (v : va) =
  add (Printf.sprintf "%d:" (int_of_z (va_row_cnt v)));
  (match va_get_values_capped v with
   | Ok o -> add "0:"; dump_obj (Some o)
   | Err e -> add (Printf.sprintf "%d:" (int_of_z e)))
let dec_cs (c : csh option) =
  match c with None -> add "absent" | Some c ->
    let vals = (match c.vals with Some v -> !v | None -> raise (Bad "cs without values")) in
    add (Printf.sprintf "CSD(rows=%d " (int_of_z (va_row_cnt vals))); dec_va vals;
    let snap : vah cs = { csvals = (match c.vals with Some x -> x | None -> raise (Bad "cs")); csprops = c.props; csowned = c.owned } in
    List.iter (fun (n, _) ->
        add " "; add (hex_of n);
        (match cs_get_property snap n with
         | Ok v -> add "=0:"; dec_va !v
         | Err e -> add (Printf.sprintf "=%d:null" (int_of_z e)))) c.props;
    add ")"
let dec_ts (t : tsh) =
  add "TSD(";
  List.iteri (fun i c -> if i > 0 then add " "; dec_cs c) t.cols;
  add ")"

let status_of = function Ok _ -> 0 | Err e -> int_of_z e

let subset_of (t : string) (n : int) : z list option =
  if t = "*" then None else
    Some (List.init n (fun i -> if i < String.length t && t.[i] <> '0' then zb 1 else zb 0))

let rows_of (v : vah) : z = va_row_cnt !v

(* ---- L2 ledger mode: the resource model (coq/Mem.v) follows the same script ---- *)
let ledger = ref false
let lst : mst ref = ref (mst0 None)
let lobj : (int, positive option) Hashtbl.t = Hashtbl.create 64
let lva : (int, positive option) Hashtbl.t = Hashtbl.create 64
exception LFault of string
let rec nat_of_int n = if n <= 0 then O else S (nat_of_int (n - 1))
let rec int_of_nat = function O -> 0 | S n -> 1 + int_of_nat n
let lrun : 'a. 'a m -> 'a = fun m ->
  match m !lst with
  | Val (a, s') -> lst := s'; a
  | Flt f -> raise (LFault (match f with NullDeref -> "null-dereference" | UseAfterFree -> "use-after-free" | BadFree -> "invalid-free" | OutOfBounds -> "out-of-bounds"))
let ledger_line (tok : string array) : bool =
  let h i = int_of_string tok.(i) in
  let getp t i = try Hashtbl.find t (h i) with Not_found -> None in
  match tok.(0) with
  | "obj" | "objs" ->
    let (st, p) = lrun (obj_build (z_of_int (h 2)) (nat_of_int (h 3))) in
    Hashtbl.replace lobj (h 1) p; add (Printf.sprintf "%d %s" (int_of_z st) (if p = None then "null" else "set")); true
  | "ocopy" ->
    let (st, p) = lrun (obj_copy_m (getp lobj 2)) in Hashtbl.replace lobj (h 1) p; add (string_of_int (int_of_z st)); true
  | "odel" -> lrun (obj_destroy (getp lobj 1)); Hashtbl.remove lobj (h 1); add "0"; true
  | "va" when h 2 = -2 ->
    let (st, p) = lrun (va_create_plain_m (getp lobj 3)) in Hashtbl.replace lva (h 1) p; add (string_of_int (int_of_z st)); true
  | "va" when h 2 = -4 ->
    let (st, p) = lrun (va_create_bit_m (getp lobj 3)) in Hashtbl.replace lva (h 1) p; add (string_of_int (int_of_z st)); true
  | "vaget" ->
    let (st, p) = lrun (va_get_values_plain_m (getp lva 2)) in Hashtbl.replace lobj (h 1) p; add (string_of_int (int_of_z st)); true
  | "vadel" -> lrun (va_destroy (getp lva 1)); Hashtbl.remove lva (h 1); add "0"; true
  | "allocfail" -> lst := { !lst with mfail = Some (nat_of_int (int_of_nat (!lst).mallocs + h 1)) }; add "0"; true
  | "nallocs" -> add (string_of_int (int_of_nat (!lst).mallocs)); true
  | "nlive" -> add (string_of_int (PositiveMap.cardinal (!lst).mlive |> int_of_nat)); true
  | _ -> false

let run_line (lineno : int) (tok : string array) =
  let op = tok.(0) in
  let ntok = Array.length tok in
  let h i = int_of_string tok.(i) in
  let zi i = z_of_int (int_of_string tok.(i)) in
  add (Printf.sprintf "%d %s " lineno op);
  let st e = add (string_of_int e) in
  let wr i (w : unit w) =
    let o = get outsT (h i) in
    let (r, s') = w o.st in o.st <- s'; st (status_of r) in
  let rd : 'a. int -> 'a r -> ('a -> unit) -> unit = fun i m k ->
    let s = get insT (h i) in
    match m s.rest with
    | Ok (a, rest') -> s.rest <- rest'; st 0; k a
    | Err e ->
      (* the end-of-table marker is consumed by the call that reports it *)
      if int_of_z e = int_of_z sBDF_TABLEEND then s.rest <- (match s.rest with _ :: _ :: _ :: r -> r | _ -> []);
      st (int_of_z e) in
  if !ledger && (try ledger_line tok with LFault w -> add ("FAULT " ^ w); true) then add "\n" else begin
  (match op with
   | "ledger" -> ledger := true; lst := mst0 None; Hashtbl.reset lobj; Hashtbl.reset lva; st 0
   | "obj" | "objs" ->
     let n = h 3 in
     let elems = List.init n (fun i -> unhex tok.(4 + i)) in
     (match obj_create_arr (zi 2) elems (op = "obj") with
      | Ok o -> Hashtbl.replace objs (h 1) o; add "0 set"
      | Err e -> Hashtbl.remove objs (h 1); add (Printf.sprintf "%d null" (int_of_z e)))
   | "ocopy" ->
     (match obj_copy (get objs (h 2)) with
      | Ok o -> Hashtbl.replace objs (h 1) o; st 0 | Err e -> Hashtbl.remove objs (h 1); st (int_of_z e))
   | "oeq" -> st (int_of_z (obj_eq (get objs (h 1)) (get objs (h 2))))
   | "odump" -> dump_obj (Hashtbl.find_opt objs (h 1))
   | "odel" -> Hashtbl.remove objs (h 1); st 0
   | "scribble" -> st 0        (* the model's values are immutable: a copy is never affected *)
   | "scmp" | "bcmp" -> st (int_of_z (str_cmp (unhex tok.(1)) (unhex tok.(2))))
   | "strrt" ->
     let s = unhex tok.(1) in let n = List.length s in
     add (Printf.sprintf "%d %s 0 %d %s 0" n (hex_of s) n (hex_of s))
   | "bart" -> let s = unhex tok.(1) in add (Printf.sprintf "%d %s" (List.length s) (hex_of s))
   | "va" ->
     let k = h 2 in let o = get objs (h 3) in
     let r = if k = -1 then va_create_dflt o else if k = -2 then va_create_plain o
       else if k = -3 then va_create_rle o else if k = -4 then va_create_bit o else va_create (z_of_int k) o in
     (match r with
      | Ok v -> Hashtbl.replace vas (h 1) (ref v, true); st 0
      | Err e -> Hashtbl.remove vas (h 1); st (int_of_z e))
   | "vaget" ->
     (match va_get_values_capped !(fst (get vas (h 2))) with
      | Ok o -> Hashtbl.replace objs (h 1) o; st 0 | Err e -> Hashtbl.remove objs (h 1); st (int_of_z e))
   | "varows" -> st (int_of_z (va_row_cnt !(fst (get vas (h 1)))))
   | "vadump" -> (match Hashtbl.find_opt vas (h 1) with Some (v, _) -> dump_va !v | None -> add "null")
   | "vadel" -> Hashtbl.remove vas (h 1); st 0
   | "mdnew" -> Hashtbl.replace mds (h 1) (ref md_create); st 0
   | "mdadd" ->
     let m = get mds (h 1) in
     let d = if tok.(4) = "~" then None else Some (get objs (h 4)) in
     (match md_add (unhex tok.(2)) (get objs (h 3)) d !m with Ok m' -> m := m'; st 0 | Err e -> st (int_of_z e))
   | "mdaddstr" ->
     let m = get mds (h 1) in
     let d = if tok.(4) = "~" then None else Some (unhex tok.(4)) in
     (match md_add_str (unhex tok.(2)) (unhex tok.(3)) d !m with Ok m' -> m := m'; st 0 | Err e -> st (int_of_z e))
   | "mdaddint" ->
     let m = get mds (h 1) in
     (match md_add_int (unhex tok.(2)) (zi 3) (zi 4) !m with Ok m' -> m := m'; st 0 | Err e -> st (int_of_z e))
   | "mdrm" ->
     let m = get mds (h 1) in
     (match md_remove (unhex tok.(2)) !m with Ok m' -> m := m'; st 0 | Err e -> st (int_of_z e))
   | "mdget" ->
     (match md_get (unhex tok.(3)) !(get mds (h 2)) with
      | Ok o -> Hashtbl.replace objs (h 1) o; add "0 "; dump_obj (Some o)
      | Err e -> Hashtbl.remove objs (h 1); add (Printf.sprintf "%d " (int_of_z e)))
   | "mddflt" ->
     (match md_get_dflt (unhex tok.(3)) !(get mds (h 2)) with
      | Ok o -> (match o with Some x -> Hashtbl.replace objs (h 1) x | None -> Hashtbl.remove objs (h 1)); add "0 "; dump_obj o
      | Err e -> Hashtbl.remove objs (h 1); add (Printf.sprintf "%d " (int_of_z e)))
   | "mdexists" -> st (int_of_z (md_exists (unhex tok.(2)) !(get mds (h 1))))
   | "mdcnt" -> st (int_of_z (md_cnt !(get mds (h 1))))
   | "mdcopy" ->
     let src = get mds (h 1) and dst = get mds (h 2) in
     let (e, d') = md_copy !src !dst in dst := d'; st (int_of_z e)
   | "mdfreeze" -> let m = get mds (h 1) in m := md_set_immutable !m; st 0
   | "mddel" -> Hashtbl.remove mds (h 1); st 0
   | "mddump" -> (match Hashtbl.find_opt mds (h 1) with Some m -> dump_md !m | None -> add "null")
   | "cmset" ->
     let m = get mds (h 1) in
     let (e, m') = cm_set_values (unhex tok.(2)) (zi 3) !m in m := m'; st (int_of_z e)
   | "cmname" ->
     (match cm_get_name !(get mds (h 1)) with Ok s -> add "0 "; add (hex_of s) | Err e -> add (Printf.sprintf "%d " (int_of_z e)))
   | "cmtype" ->
     (match cm_get_type !(get mds (h 1)) with Ok t -> add (Printf.sprintf "0 %d" (int_of_z t)) | Err e -> st (int_of_z e))
   | "tmnew" ->
     (match tm_create !(get mds (h 2)) with
      | Ok t -> Hashtbl.replace tms (h 1) (tmh_of t); st 0 | Err e -> Hashtbl.remove tms (h 1); st (int_of_z e))
   | "tmadd" ->
     let t = get tms (h 1) in
     (match tm_add !(get mds (h 2)) (tm_of t) with
      | Ok t' ->
        let added = List.nth t'.tcols (List.length t'.tcols - 1) in
        t.tc <- t.tc @ [ref added]; st 0
      | Err e -> st (int_of_z e))
   | "tmdel" -> Hashtbl.remove tms (h 1); st 0
   | "tmdump" -> (match Hashtbl.find_opt tms (h 1) with Some t -> dump_tm (tm_of t) | None -> add "null")
   | "tmmd" ->
     let i = h 3 in
     (match Hashtbl.find_opt tms (h 2) with
      | None -> Hashtbl.remove mds (h 1); st (-1)
      | Some t ->
        if i < 0 then (Hashtbl.replace mds (h 1) t.tmd; st 0)
        else if i < List.length t.tc then (Hashtbl.replace mds (h 1) (List.nth t.tc i); st 0)
        else (Hashtbl.remove mds (h 1); st (-1)))
   | "csnew" ->
     let v = (match Hashtbl.find_opt vas (h 2) with Some (v, _) -> Some v | None -> None) in
     Hashtbl.replace css (h 1) { vals = v; props = []; owned = false }; st 0
   | "csadd" ->
     let c = get css (h 1) in let (v, _) = get vas (h 3) in
     let snap : vah cs = { csvals = (match c.vals with Some x -> x | None -> raise (Bad "cs null values")); csprops = c.props; csowned = c.owned } in
     (match cs_add_property rows_of snap (unhex tok.(2)) v with
      | Ok c' -> c.props <- c'.csprops; st 0 | Err e -> st (int_of_z e))
   | "csget" ->
     let c = get css (h 2) in
     let snap : vah cs = { csvals = (match c.vals with Some x -> x | None -> raise (Bad "cs null values")); csprops = c.props; csowned = c.owned } in
     (match cs_get_property snap (unhex tok.(3)) with
      | Ok v ->
        let same = ref (-1) in
        Hashtbl.iter (fun id (cell, own) -> if own && cell == v && (!same < 0 || id < !same) then same := id) vas;
        Hashtbl.replace vas (h 1) (v, false);
        add (if !same >= 0 then Printf.sprintf "0 same=%d" !same else "0 same=-")
      | Err e -> st (int_of_z e))
   | "csvals" ->
     (match Hashtbl.find_opt css (h 2) with
      | Some { vals = Some v; _ } -> Hashtbl.replace vas (h 1) (v, false); st 0
      | _ -> Hashtbl.remove vas (h 1); st (-1))
   | "csrows" -> let c = get css (h 1) in st (int_of_z (match c.vals with Some v -> va_row_cnt !v | None -> sBDF_ERROR_ARGUMENT_NULL))
   | "csdel" | "csforget" -> Hashtbl.remove css (h 1); st 0
   | "csdump" -> dump_cs (Hashtbl.find_opt css (h 1))
   | "tsnew" -> Hashtbl.replace tss (h 1) { cols = []; towned = false }; st 0
   | "tsadd" -> let t = get tss (h 1) in t.cols <- t.cols @ [Some (get css (h 2))]; st 0
   | "tscol" ->
     let i = h 3 in
     (match Hashtbl.find_opt tss (h 2) with
      | Some t when i >= 0 && i < List.length t.cols ->
        (match List.nth t.cols i with Some c -> Hashtbl.replace css (h 1) c; st 0 | None -> Hashtbl.remove css (h 1); add "absent")
      | _ -> Hashtbl.remove css (h 1); add "absent")
   | "tsdel" -> Hashtbl.remove tss (h 1); st 0
   | "tsdump" -> (match Hashtbl.find_opt tss (h 1) with Some t -> dump_ts t | None -> add "null")
   | "out" ->
     let bud = if ntok > 2 && int_of_string tok.(2) >= 0 then zi 2 else unlimited in
     Hashtbl.replace outsT (h 1) { st = wstart bud }; st 0
   | "wfh" -> wr 1 fh_write_cur
   | "wtm" -> wr 1 (tm_write !swp (tm_of (get tms (h 2))))
   | "wts" -> wr 1 (ts_write !swp (ts_val (get tss (h 2))))
   | "wend" -> wr 1 ts_write_end
   | "wcs" -> wr 1 (cs_write !swp (cs_val (get css (h 2))))
   | "wva" -> wr 1 (va_write !swp !(fst (get vas (h 2))))
   | "wobj" -> wr 1 (obj_write !swp (get objs (h 2)))
   | "wobja" -> wr 1 (obj_write_arr !swp (get objs (h 2)))
   | "wstr" -> wr 1 (write_string !swp (unhex tok.(2)))
   | "wi32" -> wr 1 (write_int32 !swp (zi 2))
   | "wi8" -> wr 1 (write_int8 (zi 2))
   | "w7" -> wr 1 (write_7bit (zi 2))
   | "wsec" -> wr 1 (sec_write (zi 2))
   | "wvt" -> wr 1 (vt_write (zi 2))
   | "bytes" -> let bs = wbytes (get outsT (h 1)).st in add (Printf.sprintf "%d %s" (List.length bs) (hex_of bs))
   | "in" | "inpipe" -> let bs = unhex tok.(2) in Hashtbl.replace insT (h 1) { rest = bs; total = List.length bs }; st 0
   | "inw" | "intrunc" | "inpatch" | "inapp" | "pinw" | "pinapp" ->
     (* pinw / pinapp: the same bytes behind a stream that cannot seek - no difference for the model *)
     let op = if op = "pinw" then "inw" else if op = "pinapp" then "inapp" else op in
     let bs = wbytes (get outsT (h 2)).st in
     let n = List.length bs in
     let bs' =
       if op = "intrunc" then (let k = h 3 in if k < n then List.filteri (fun i _ -> i < k) bs else bs)
       else if op = "inpatch" then
         (let off = h 3 in let p = Array.of_list (unhex tok.(4)) in
          if off + Array.length p <= n then List.mapi (fun i x -> if i >= off && i < off + Array.length p then p.(i - off) else x) bs else bs)
       else if op = "inapp" then bs @ unhex tok.(3)
       else bs in
     Hashtbl.replace insT (h 1) { rest = bs'; total = List.length bs' }; st (List.length bs')
   | "rfh" -> rd 1 fh_read (fun (ma, mi) -> add (Printf.sprintf " %d %d" (int_of_z ma) (int_of_z mi)))
   | "rtm" -> Hashtbl.remove tms (h 2); rd 1 (tm_read !swp !cap) (fun t -> Hashtbl.replace tms (h 2) (tmh_of t))
   | "rts" ->
     let t = get tms (h 3) in let n = List.length t.tc in
     let sub = subset_of (if ntok > 4 then tok.(4) else "*") n in
     Hashtbl.remove tss (h 2);
     rd 1 (ts_read !swp !cap (z_of_int n) sub) (fun s -> Hashtbl.replace tss (h 2) (tsh_of s))
   | "skts" -> let t = get tms (h 2) in rd 1 (ts_skip !swp !cap (z_of_int (List.length t.tc))) (fun () -> ())
   | "rslices" ->
     let t = get tms (h 2) in let n = List.length t.tc in
     let sub = subset_of (if ntok > 3 then tok.(3) else "*") n in
     let s = get insT (h 1) in
     let ((l, e), rest') = read_slices !swp !cap s.rest (z_of_int n) sub s.rest in
     s.rest <- (if int_of_z e = int_of_z sBDF_TABLEEND then (match rest' with _ :: _ :: _ :: r -> r | _ -> []) else rest');
     List.iter (fun x -> dump_ts (tsh_of x); add " "; dec_ts (tsh_of x); add " ") l;
     add (Printf.sprintf "end=%d n=%d" (int_of_z e) (List.length l))
   | "rcs" -> Hashtbl.remove css (h 2); rd 1 (cs_read !swp !cap) (fun c -> Hashtbl.replace css (h 2) (csh_of c))
   | "skcs" -> rd 1 (cs_skip !swp) (fun () -> ())
   | "rva" -> Hashtbl.remove vas (h 2); rd 1 (va_read !swp !cap) (fun v -> Hashtbl.replace vas (h 2) (ref v, true))
   | "skva" -> rd 1 (va_skip !swp) (fun () -> ())
   | "robj" -> Hashtbl.remove objs (h 2); rd 1 (obj_read !swp !cap (zi 3)) (fun o -> Hashtbl.replace objs (h 2) o)
   | "robja" -> Hashtbl.remove objs (h 2); rd 1 (obj_read_arr !swp !cap (zi 3)) (fun o -> Hashtbl.replace objs (h 2) o)
   | "skobj" -> rd 1 (obj_skip !swp (zi 2)) (fun () -> ())
   | "skobja" -> rd 1 (obj_skip_arr !swp (zi 2)) (fun () -> ())
   | "rstr" ->
     let s = get insT (h 1) in
     (match read_string !swp !cap s.rest with
      | Ok (a, rest') -> s.rest <- rest'; add "0 "; add (hex_of a)
      | Err e -> add (Printf.sprintf "%d " (int_of_z e)))
   | "skstr" -> rd 1 (skip_string !swp) (fun () -> ())
   | "ri32" -> rd 1 (read_int32 !swp) (fun v -> add (Printf.sprintf " %d" (int_of_z v)))
   | "ri8" -> rd 1 read_int8 (fun v -> add (Printf.sprintf " %d" (int_of_z v)))
   | "r7" -> rd 1 read_7bit (fun v -> add (Printf.sprintf " %d" (int_of_z v)))
   | "rsec" -> rd 1 sec_read (fun v -> add (Printf.sprintf " %d" (int_of_z v)))
   | "rvt" -> rd 1 vt_read (fun v -> add (Printf.sprintf " %d" (int_of_z v)))
   | "pos" -> let s = get insT (h 1) in st (s.total - List.length s.rest)
   | "len7" -> st (int_of_z (len7 (zi 1)))
   | "cap" -> st (int_of_z (array_capacity (zi 1)))
   | "usize" -> let v = int_of_z (usize (zi 1)) in add (Printf.sprintf "%d %d" v v)
   | "isarr" -> st (if is_arr (zi 1) then 1 else 0)
   | "vtcmp" -> let d = h 1 - h 2 in st (compare d 0)
   | "u2i" | "i2u" ->
     let s = unhex tok.(1) in
     let r = if op = "u2i" then utf8_to_iso s else iso_to_utf8 s in
     let n = List.length r + 1 in
     add (Printf.sprintf "%d %d %s" n n (hex_of (r @ [zb 0])))
   | "strict" -> st 0
   | "epilogue" -> st 0
   | "tsdec" -> (match Hashtbl.find_opt tss (h 1) with Some t -> dec_ts t | None -> add "null")
   | "csdec" -> dec_cs (Hashtbl.find_opt css (h 1))
   | "session" ->
     let s = get insT (h 1) in
     let mode = if ntok > 2 then tok.(2) else "*" in
     (match fh_read s.rest with
      | Err e -> add (Printf.sprintf "fh=%d" (int_of_z e))
      | Ok ((ma, mi), r1) ->
        add (Printf.sprintf "fh=0:%d.%d" (int_of_z ma) (int_of_z mi));
        (match tm_read !swp !cap r1 with
         | Err e -> s.rest <- r1; add (Printf.sprintf " tm=%d" (int_of_z e))
         | Ok (t, r2) ->
           add " tm=0 "; dump_tm t;
           List.iteri (fun i m ->
               if i < 64 then begin
                 add (Printf.sprintf " c%d=" i);
                 (match cm_get_name m with Ok nm -> add "0:"; add (hex_of nm) | Err e -> add (Printf.sprintf "%d:" (int_of_z e)));
                 (match cm_get_type m with Ok ty -> add (Printf.sprintf ":0:%d" (int_of_z ty)) | Err e -> add (Printf.sprintf ":%d:0" (int_of_z e)))
               end) t.tcols;
           let ncols = List.length t.tcols in
           let sub = if mode = "skip" then Some (List.init ncols (fun _ -> zb 0)) else subset_of mode ncols in
           let ((l, e), r3) = read_slices !swp !cap r2 (z_of_int ncols) sub r2 in
           let e = int_of_z e in
           let r3 = if e = int_of_z sBDF_TABLEEND then (match r3 with _ :: _ :: _ :: r -> r | _ -> []) else r3 in
           s.rest <- r3;
           if mode <> "skip" then List.iter (fun x -> add " "; dump_ts (tsh_of x); add " "; dec_ts (tsh_of x)) l;
           add (Printf.sprintf " end=%d n=%d" e (List.length l));
           if e = int_of_z sBDF_TABLEEND then add (Printf.sprintf " pos=%d" (s.total - List.length r3));
           let kept = if mode = "skip" then [] else List.filteri (fun i _ -> i < 64) l in
           let (rw, bs) = run_w (write_table !swp { t_meta = t; t_slices = kept }) unlimited in
           add (Printf.sprintf " rw=%d:%s" rw (hex_of bs))))
   | "allocfail" -> st 0
   | "allocs" | "live" -> ()
   | "noise" -> st 0
   | _ -> raise (Bad ("unknown op " ^ op)));
  add "\n" end

let strict = ref false
let status_ops = ["obj"; "objs"; "ocopy"; "va"; "vaget"; "mdnew"; "mdadd"; "mdaddstr"; "mdaddint"; "mdrm"; "mdget"; "mddflt";
  "mdcopy"; "mdfreeze"; "cmset"; "cmname"; "cmtype"; "tmnew"; "tmadd"; "csnew"; "csadd"; "csget"; "tsnew"; "tsadd"; "wfh"; "wtm"; "wts";
  "wend"; "wcs"; "wva"; "wobj"; "wobja"; "wstr"; "wi32"; "wi8"; "w7"; "wsec"; "wvt"; "rfh"; "rtm"; "rts"; "skts"; "rcs"; "skcs"; "rva";
  "skva"; "robj"; "robja"; "skobj"; "skobja"; "rstr"; "skstr"; "ri32"; "ri8"; "r7"; "rsec"; "rvt"]

let () =
  let file = Sys.argv.(1) in
  if Array.length Sys.argv > 2 then swp := (Sys.argv.(2) = "1");
  if Array.length Sys.argv > 3 then cap := (if Sys.argv.(3) = "none" then None else Some (z_of_int (int_of_string Sys.argv.(3))));
  let ic = open_in file in
  let lineno = ref 0 in
  let dead = ref false in
  (try
     while true do
       let line = input_line ic in
       incr lineno;
       if String.length line >= 5 && String.sub line 0 5 = "case " then begin
         reset (); dead := false; strict := false; ledger := false;
         print_string (Buffer.contents b); Buffer.clear b;
         print_string (line ^ "\n")
       end else begin
         let toks = List.filter (fun s -> s <> "") (String.split_on_char ' ' line) in
         match toks with
         | [] -> ()
         | t :: _ when String.length t > 0 && t.[0] = '#' -> ()
         | _ ->
           if not !dead then begin
             let mark = Buffer.length b in
             try
               run_line !lineno (Array.of_list toks);
               if List.hd toks = "strict" then strict := true;
               if !strict && List.mem (List.hd toks) status_ops then begin
                 (* "<lineno> <op> <status>..." *)
                 let line = Buffer.sub b mark (Buffer.length b - mark) in
                 match String.split_on_char ' ' (String.trim line) with
                 | _ :: _ :: stt :: _ -> (match int_of_string_opt stt with Some n when n <> 0 -> dead := true | _ -> ())
                 | _ -> ()
               end
             with
             | Bad m -> Buffer.truncate b mark; add (Printf.sprintf "%d %s MODEL-UNDEFINED %s\n" !lineno (List.hd toks) m); dead := true
             | Stack_overflow -> Buffer.truncate b mark; add (Printf.sprintf "%d %s MODEL-STACK\n" !lineno (List.hd toks)); dead := true
           end
       end;
       if Buffer.length b > 1 lsl 20 then (print_string (Buffer.contents b); Buffer.clear b)
     done
   with End_of_file -> ());
  print_string (Buffer.contents b)
