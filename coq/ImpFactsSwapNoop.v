(* ImpFactsSwapNoop.v - a call of the default configuration's sbdf_swap (an empty body) changes nothing. *)
From Sbdf Require Import ImpCall Gen.Prog Gen.Consts Base Prim BaseFacts ImpBase.
From Coq Require Import ZifyBool.
Local Open Scope Z_scope.
Ltac Zify.zify_post_hook ::= Z.div_mod_to_equations.

Lemma swap_noop_call ret args s vals cells s1 :
  eval_args args s = Some (vals, cells, s1) -> List.length vals = 3%nat ->
  finish_call ret prog_sbdf_swap_le cells s1 (callee_init prog_sbdf_swap_le vals cells s1) VUndef = Some s1 ->
  bsE prog_env (SCall ret "sbdf_swap" args) s (ONormal s1).
Proof.
  intros Ha Hl Hf. eapply bsE_call_void; [reflexivity|exact Ha|exact Hl|apply bsE_skip|exact Hf].
Qed.
