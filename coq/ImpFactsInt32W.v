(* ImpFactsInt32W.v - sbdf_write_int32 (default configuration) from the source. *)
From Sbdf Require Import ImpCall Gen.Prog Gen.Consts Base Prim BaseFacts ImpBase ImpFactsSwapNoop.
From Coq Require Import ZifyBool.
Local Open Scope Z_scope.
Ltac Zify.zify_post_hook ::= Z.div_mod_to_equations.

Ltac evci := cbn [prog_env eval_args callee_init finish_call copy_in copy_out try_update update lookup combine map app String.append
                 String.eqb Ascii.eqb Bool.eqb fparams flocals fbody vars inb outb budget_var fail_var cell_token List.length Nat.eqb eval set_var cast
                 prog_sbdf_swap_le prog_sbdf_write_int32].

Definition wi (fr : region) (fo v B : Z) (m o : list Z) : state :=
  {| vars := [("f"%string, VPtr fr fo); ("v"%string, VInt v); (budget_var, VInt B)]; inb := m; outb := o |}.

Lemma write_int32_bs fr fo v B m o : int_min <= v <= int_max -> 0 <= B ->
  bsE prog_env (fbody prog_sbdf_write_int32) (wi fr fo v B m o)
    (OReturn (VInt (if 4 <=? B then SBDF_OK else SBDF_ERROR_IO)) (wi fr fo v (B - zlen (ztake B (le32 v))) m (o ++ ztake B (le32 v)))).
Proof.
  intros Hv HB. cbn [fbody prog_sbdf_write_int32]. unfold wi.
  eapply bsE_seq; [eapply bsE_if; [evi; reflexivity|reflexivity|apply bsE_skip]|].
  eapply bsE_seq; [eapply swap_noop_call; [evci; chk7; reflexivity|reflexivity|evci; reflexivity]|].
  destruct (4 <=? B) eqn:EB.
  - eapply bsE_seq; [eapply bsE_if; [evi; rewrite EB; evi; reflexivity|reflexivity|apply bsE_skip]|].
    eapply bsE_cast_o; [eapply bsE_return; evi; chk7; reflexivity|].
    rewrite (ztake_all (le32 v) B) by (cbn; lia). change (zlen (le32 v)) with 4. reflexivity.
  - eapply bsE_seq_ret. eapply bsE_if; [evi; rewrite EB; evi; reflexivity|reflexivity|].
    eapply bsE_cast_o; [eapply bsE_return; evi; chk7; reflexivity|].
    assert (C : B = 0 \/ B = 1 \/ B = 2 \/ B = 3) by lia. destruct C as [->|[->|[->| ->]]]; reflexivity.
Qed.

Theorem write_int32_source v B : int_min <= v <= int_max -> 0 <= B ->
  exists f0, forall f, (f0 <= f)%nat -> exists fin,
    callE prog_env f prog_sbdf_write_int32 [tok; VInt v] [] B = OReturn (VInt (if 4 <=? B then SBDF_OK else SBDF_ERROR_IO)) fin /\
    outb fin = ztake B (le32 v).
Proof.
  intros Hv HB. pose proof (write_int32_bs ROut 0 v B [] [] Hv HB) as Bs.
  destruct (bsE_sound _ _ _ _ Bs) as (f0 & F). exists f0. intros f Hf. eexists. split; [apply F; exact Hf|]. reflexivity.
Qed.
