(* LeafTie.v — the pure integer leaf functions as tools/c2gallina.py translates them from /repo's
   source on every run (Gen/Leaf.v) are, for ALL integer arguments, the specification functions the
   model uses.  The proofs are case analyses on the comparisons that occur: they do not depend on
   the order of the cases or on how a constant is spelt (1 << 7, 0x80, 128) in the source. *)
From Sbdf Require Import Prim.
From Sbdf.Gen Require Import Leaf.
From Coq Require Import ZifyBool.

Ltac eval_closed :=
  repeat match goal with
  | |- context [Z.shiftl ?a ?b] => let v := eval vm_compute in (Z.shiftl a b) in change (Z.shiftl a b) with v
  | |- context [?a * ?b] => let v := eval vm_compute in (a * b) in
                            match v with Z0 => idtac | Zpos _ => idtac | Zneg _ => idtac end; change (a * b) with v
  end.

Ltac tie_eq :=
  repeat match goal with
  | |- context [?x =? ?c] =>
    let E := fresh "E" in destruct (x =? c) eqn:E; [apply Z.eqb_eq in E; subst; vm_compute; reflexivity|]
  end; try reflexivity.

Ltac tie_lt :=
  repeat match goal with
  | |- context [?a <? ?b] => let E := fresh "E" in destruct (a <? b) eqn:E
  | |- context [?a <=? ?b] => let E := fresh "E" in destruct (a <=? b) eqn:E
  | |- context [?a >? ?b] => let E := fresh "E" in destruct (a >? b) eqn:E
  | |- context [?a >=? ?b] => let E := fresh "E" in destruct (a >=? b) eqn:E
  | |- context [?a =? ?b] => let E := fresh "E" in destruct (a =? b) eqn:E
  end; cbn [negb andb orb]; try reflexivity; try lia.

Theorem tie_unpacked_size : forall id, gen_sbdf_get_unpacked_size id = usize id.
Proof.
  intros id. unfold gen_sbdf_get_unpacked_size, usize.
  unfold SBDF_BYTETYPEID, SBDF_FLOATTYPEID, SBDF_DOUBLETYPEID, SBDF_DATETIMETYPEID, SBDF_DATETYPEID, SBDF_TIMETYPEID,
         SBDF_TIMESPANTYPEID, SBDF_STRINGTYPEID, SBDF_BINARYTYPEID, SBDF_DECIMALTYPEID, SBDF_BOOLTYPEID, SBDF_INTTYPEID,
         SBDF_LONGTYPEID, SBDF_ERROR_UNKNOWN_TYPEID.
  eval_closed. tie_eq.
Qed.

Theorem tie_packed_size : forall id, gen_sbdf_get_packed_size id = usize id.
Proof. intros id. unfold gen_sbdf_get_packed_size. apply tie_unpacked_size. Qed.

Theorem tie_is_arr : forall id, gen_sbdf_ti_is_arr id = if is_arr id then 1 else 0.
Proof.
  intros id. unfold gen_sbdf_ti_is_arr, is_arr, SBDF_STRINGTYPEID, SBDF_BINARYTYPEID. tie_eq.
Qed.

Theorem tie_len7 : forall v, gen_sbdf_get_7bitpacked_len v = len7 v.
Proof. intros v. unfold gen_sbdf_get_7bitpacked_len, len7. eval_closed. tie_lt. Qed.

Theorem tie_vt_cmp : forall a b, gen_sbdf_vt_cmp a b = a - b.
Proof. intros. reflexivity. Qed.
