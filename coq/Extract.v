(* Extract.v — OCaml extraction of the executable model (ExtrOcamlBasic only; Z, positive and nat
   stay the extracted inductives). Run from the directory that should receive model.ml. *)
From Sbdf Require Import File Charset Mem.
Require Extraction.
Require Import ExtrOcamlBasic.
Extraction "model.ml"
  cstr lex_cmp le32 de32 usize is_arr len7 enc7 array_capacity
  wstart wbytes put
  read_int8 read_int32 read_7bit write_int8 write_int32 write_7bit write_string read_string skip_string
  sec_write sec_read sec_expect fh_write_cur fh_read vt_write vt_read
  obj_create_arr obj_copy obj_eq str_cmp valuetype_to_object
  obj_write obj_write_arr obj_read obj_read_arr obj_skip obj_skip_arr
  va_create va_create_plain va_create_rle va_create_bit va_create_dflt va_get_values va_row_cnt
  va_write va_read va_skip
  md_create md_add md_add_str md_add_int md_remove md_get md_get_dflt md_exists md_cnt md_copy md_set_immutable
  cm_set_values cm_get_type cm_get_name
  tm_create tm_add tm_write tm_read
  cs_create cs_add_property cs_get_property cs_row_cnt cs_write cs_read cs_skip
  ts_create ts_add ts_write ts_write_end ts_read ts_skip
  write_table read_slices read_table
  utf8_to_iso iso_to_utf8
  mst0 obj_build obj_copy_m obj_destroy va_create_plain_m va_create_bit_m va_destroy va_get_values_plain_m.
