(* VaFacts.v — value arrays: every encoding is lossless (C02), the writer emits the wire form,
   the reader inverts it and fails on every strict prefix (C06), skipping ends where reading
   ends (C07). *)
From Sbdf Require Import Va BaseFacts PrimFacts SevenBit ObjFacts.
From Coq Require Import ZifyBool.
Ltac Zify.zify_post_hook ::= Z.div_mod_to_equations.

(* ------------------------------------------------------------------ run-length encoding *)
Lemma rle_expand_app runs vals r v :
  length runs = length vals ->
  rle_expand (runs ++ [r]) (vals ++ [v]) = rle_expand runs vals ++ repeat v (Z.to_nat (r + 1)).
Proof.
  revert vals. induction runs as [|x runs IH]; intros [|y vals] H; cbn in H; try discriminate.
  - cbn. now rewrite app_nil_r.
  - cbn [app rle_expand]. rewrite IH by lia. now rewrite app_assoc.
Qed.

Lemma rle_total_app runs r : rle_total (runs ++ [r]) = rle_total runs + (r + 1).
Proof. unfold rle_total. rewrite fold_left_app. reflexivity. Qed.

Lemma repeat_snoc {A} (x : A) n : repeat x (S n) = repeat x n ++ [x].
Proof. induction n as [|n IH]; [reflexivity|]. cbn [repeat app] in *. now rewrite <- IH. Qed.

Definition runs_ok (runs : list Z) : Prop := forall r, In r runs -> 0 <= r <= 255.

Lemma rle_loop_spec elems : forall run prev runs vals,
  0 <= run <= 256 -> length runs = length vals -> runs_ok runs ->
  let '(rs, vs) := rle_loop elems run prev runs vals in
  rle_expand rs vs = rle_expand (rev runs) (rev vals) ++ repeat prev (Z.to_nat run) ++ elems /\
  rle_total rs = rle_total (rev runs) + run + zlen elems /\
  length rs = length vs /\ runs_ok rs.
Proof.
  induction elems as [|cur rest IH]; intros run prev runs vals Hrun Hlen Hok; cbn [rle_loop].
  - destruct (run =? 0) eqn:C.
    + assert (run = 0) by lia. subst run. cbn [Z.to_nat repeat app]. rewrite !app_nil_r.
      refine (conj _ (conj _ (conj _ _))).
      * reflexivity.
      * cbn. lia.
      * now rewrite !rev_length.
      * intros r Hr. apply Hok. now apply in_rev.
    + cbn [rev]. rewrite rle_expand_app by (now rewrite !rev_length).
      rewrite rle_total_app. rewrite app_nil_r. replace (run - 1 + 1) with run by lia.
      refine (conj _ (conj _ (conj _ _))).
      * reflexivity.
      * cbn. lia.
      * rewrite !app_length, !rev_length. cbn. lia.
      * intros r Hr. apply in_app_or in Hr. destruct Hr as [Hr|[<-|[]]]; [apply Hok; now apply in_rev|lia].
  - destruct ((run =? 256) || (negb (run =? 0) && negb (bytes_eqb prev cur))) eqn:C.
    + (* flush the pending run, start a new one *)
      assert (Hr1 : 1 <= run) by (destruct (run =? 256) eqn:E1; destruct (run =? 0) eqn:E2; cbn in C; try discriminate; lia).
      specialize (IH 1 cur ((run - 1) :: runs) (prev :: vals)).
      destruct (rle_loop rest 1 cur ((run - 1) :: runs) (prev :: vals)) as [rs vs].
      destruct IH as (E & T & L & K); [lia|cbn; lia| |].
      { intros r [<-|Hr]; [lia|now apply Hok]. }
      cbn [rev] in E, T. rewrite rle_expand_app in E by (now rewrite !rev_length).
      rewrite rle_total_app in T. replace (run - 1 + 1) with run in * by lia.
      rewrite zlen_cons. refine (conj _ (conj _ (conj L K))); [|lia].
      rewrite E. change (Z.to_nat 1) with 1%nat. cbn [repeat]. now rewrite <- !app_assoc.
    + (* the element extends the pending run *)
      apply orb_false_iff in C. destruct C as [C1 C2].
      specialize (IH (run + 1) cur runs vals).
      destruct (rle_loop rest (run + 1) cur runs vals) as [rs vs].
      destruct IH as (E & T & L & K); [lia|assumption|assumption|].
      rewrite zlen_cons. refine (conj _ (conj _ (conj L K))); [|lia].
      rewrite E. f_equal.
      replace (Z.to_nat (run + 1)) with (S (Z.to_nat run)) by lia. rewrite repeat_snoc, <- app_assoc. cbn [app].
      destruct (run =? 0) eqn:E0.
      * assert (run = 0) by lia. subst run. reflexivity.
      * cbn in C2. apply negb_false_iff in C2. apply bytes_eqb_eq in C2. now subst cur.
Qed.

Lemma rle_encode_spec elems :
  let '(rs, vs) := rle_encode elems in
  rle_expand rs vs = elems /\ rle_total rs = zlen elems /\ length rs = length vs /\ runs_ok rs.
Proof.
  unfold rle_encode. pose proof (rle_loop_spec elems 0 [] [] []) as H.
  destruct (rle_loop elems 0 [] [] []) as [rs vs].
  destruct H as (E & T & L & K); [lia|reflexivity|intros r []|].
  cbn in E, T. refine (conj E (conj _ (conj L K))). lia.
Qed.

Lemma map_run_of_byte_obj runs : map run_of (oelems (byte_obj runs)) = runs.
Proof. unfold byte_obj. cbn [oelems]. rewrite map_map. cbn. apply map_id. Qed.

(* ------------------------------------------------------------------ bit packing *)
Definition bit_elem (b : bool) : list Z := [if b then 1 else 0].

Lemma unpack_pack : forall f bits, (length bits <= f)%nat ->
  unpack_bits (length bits) 0 (pack_bits f bits) = map bit_elem bits.
Proof.
  induction f as [|f IH]; intros bits H.
  - destruct bits; [reflexivity|cbn in H; lia].
  - destruct bits as [|b0 [|b1 [|b2 [|b3 [|b4 [|b5 [|b6 [|b7 rest]]]]]]]].
    + reflexivity.
    + destruct b0; reflexivity.
    + destruct b0, b1; reflexivity.
    + destruct b0, b1, b2; reflexivity.
    + destruct b0, b1, b2, b3; reflexivity.
    + destruct b0, b1, b2, b3, b4; reflexivity.
    + destruct b0, b1, b2, b3, b4, b5; reflexivity.
    + destruct b0, b1, b2, b3, b4, b5, b6; reflexivity.
    + assert (Hr : (length rest <= f)%nat) by (cbn in H; lia).
      specialize (IH rest Hr).
      destruct b0, b1, b2, b3, b4, b5, b6, b7;
        cbn [pack_bits bits_byte length unpack_bits map bit_elem Z.eqb Z.add Z.mul Pos.eqb Pos.add Pos.mul Pos.succ];
        unfold bit_of; cbn [Z.sub Z.pow Z.div Z.modulo Z.pow_pos Pos.iter Z.mul Pos.mul Z.opp Z.add Z.pos_sub Z.succ_double Z.pred_double Z.double Pos.pred_double];
        rewrite <- IH; reflexivity.
Qed.

(* ------------------------------------------------------------------ C02: create / decode *)
Definition obj_ok (o : obj) : Prop := is_arr (oty o) = true \/ 0 < usize (oty o).

Lemma obj_copy_ok o : obj_ok o -> obj_copy o = Ok o.
Proof.
  intros H. unfold obj_copy. destruct (is_arr (oty o)) eqn:A; [reflexivity|].
  destruct H as [H|H]; [congruence|].
  destruct (usize (oty o) <? 0) eqn:C1; [lia|]. destruct (usize (oty o) =? 0) eqn:C2; [lia|reflexivity].
Qed.

Lemma elem_size_ok o : obj_ok o ->
  ((if is_arr (oty o) then 8 else usize (oty o)) <? 0) = false /\ ((if is_arr (oty o) then 8 else usize (oty o)) =? 0) = false.
Proof. intros [H|H]; [rewrite H; split; reflexivity|]. destruct (is_arr (oty o)); split; lia. Qed.

Theorem va_plain_lossless o : obj_ok o ->
  exists v, va_create_plain o = Ok v /\ va_get_values v = Ok o /\ va_row_cnt v = ocount o.
Proof.
  intros H. unfold va_create_plain. rewrite (obj_copy_ok o H). cbn [rbind]. eexists. split; [reflexivity|].
  unfold va_get_values, va_row_cnt. cbn [venc o1 obj_copy_opt]. rewrite Z.eqb_refl. split; [now apply obj_copy_ok|reflexivity].
Qed.

Theorem va_rle_lossless o : obj_ok o ->
  exists v, va_create_rle o = Ok v /\ va_get_values v = Ok o /\ va_row_cnt v = ocount o.
Proof.
  intros H. unfold va_create_rle. destruct (elem_size_ok o H) as [S1 S2]. rewrite S1, S2.
  pose proof (rle_encode_spec (oelems o)) as R. destruct (rle_encode (oelems o)) as [runs vals].
  destruct R as (E & T & L & K).
  eexists. split; [reflexivity|]. split.
  - unfold va_get_values. cbn [venc].
    change (SBDF_RUNLENGTHENCODINGTYPEID =? SBDF_PLAINARRAYENCODINGTYPEID) with false. cbn iota.
    rewrite Z.eqb_refl. unfold get_rle_values. cbn [o1 o2 vty value1 oty]. rewrite S1, S2.
    rewrite map_run_of_byte_obj. unfold ocount. cbn [oelems byte_obj]. rewrite zlen_map.
    assert (zlen runs = zlen vals) by (unfold zlen; now rewrite L).
    rewrite H0, Z.eqb_refl. cbn [negb]. rewrite T. unfold ocount. rewrite Z.eqb_refl. cbn [negb].
    rewrite E. destruct o; reflexivity.
  - unfold va_row_cnt. cbn [venc value1].
    change (SBDF_RUNLENGTHENCODINGTYPEID =? SBDF_PLAINARRAYENCODINGTYPEID) with false. cbn iota.
    now rewrite Z.eqb_refl.
Qed.

Definition bools_of (o : obj) : obj :=
  {| oty := SBDF_BOOLTYPEID; oelems := map (fun e => bit_elem (elem_nonzero (oty o) e)) (oelems o) |}.

Theorem va_bit_lossless o : obj_ok o ->
  exists v, va_create_bit o = Ok v /\ va_get_values v = Ok (bools_of o) /\ va_row_cnt v = ocount o.
Proof.
  intros H. unfold va_create_bit. destruct (elem_size_ok o H) as [S1 S2]. rewrite S1, S2.
  eexists. split; [reflexivity|]. split.
  - unfold va_get_values. cbn [venc].
    change (SBDF_BITARRAYENCODINGTYPEID =? SBDF_PLAINARRAYENCODINGTYPEID) with false.
    change (SBDF_BITARRAYENCODINGTYPEID =? SBDF_RUNLENGTHENCODINGTYPEID) with false. cbn iota.
    rewrite Z.eqb_refl. unfold get_bit_values. cbn [o1 value1]. unfold bools_of, ocount. f_equal. f_equal.
    set (bits := map (elem_nonzero (oty o)) (oelems o)).
    assert (Hl : Z.to_nat (zlen (oelems o)) = length bits) by (subst bits; unfold zlen; now rewrite Nat2Z.id, map_length).
    rewrite Hl, unpack_pack by lia. subst bits. now rewrite map_map.
  - unfold va_row_cnt. cbn [venc value1].
    change (SBDF_BITARRAYENCODINGTYPEID =? SBDF_PLAINARRAYENCODINGTYPEID) with false.
    change (SBDF_BITARRAYENCODINGTYPEID =? SBDF_RUNLENGTHENCODINGTYPEID) with false. cbn iota.
    now rewrite Z.eqb_refl.
Qed.

Theorem va_unknown_encoding_refused enc o :
  enc <> SBDF_PLAINARRAYENCODINGTYPEID -> enc <> SBDF_RUNLENGTHENCODINGTYPEID -> enc <> SBDF_BITARRAYENCODINGTYPEID ->
  va_create enc o = Err SBDF_ERROR_UNKNOWN_VALUEARRAY_ENCODING.
Proof.
  intros H1 H2 H3. unfold va_create.
  destruct (enc =? SBDF_PLAINARRAYENCODINGTYPEID) eqn:C1; [lia|].
  destruct (enc =? SBDF_RUNLENGTHENCODINGTYPEID) eqn:C2; [lia|].
  destruct (enc =? SBDF_BITARRAYENCODINGTYPEID) eqn:C3; [lia|reflexivity].
Qed.

(* ------------------------------------------------------------------ wire form *)
Section VaIO.
Variable swp : bool.
Notation cap0 := (@None Z).

(* a value array as the readers and constructors produce it *)
Inductive wf_va : va -> Prop :=
| wf_plain ty ob : oty ob = ty -> wf_obj ob ->
    wf_va {| vty := ty; venc := SBDF_PLAINARRAYENCODINGTYPEID; value1 := 0; o1 := Some ob; o2 := None |}
| wf_rle ty n ob1 ob2 : 0 <= n < 2147483648 -> oty ob1 = SBDF_BYTETYPEID -> oty ob2 = ty -> wf_obj ob1 -> wf_obj ob2 ->
    wf_va {| vty := ty; venc := SBDF_RUNLENGTHENCODINGTYPEID; value1 := n; o1 := Some ob1; o2 := Some ob2 |}
| wf_bit ty n bytes : 0 <= n < 2147483648 -> zlen bytes = bit_packed_size n ->
    wf_va {| vty := ty; venc := SBDF_BITARRAYENCODINGTYPEID; value1 := n;
             o1 := Some {| oty := SBDF_BINARYTYPEID; oelems := [bytes] |}; o2 := None |}.

Definition enc_va (v : va) : list Z :=
  [venc v mod 256; vty v mod 256] ++
  if venc v =? SBDF_PLAINARRAYENCODINGTYPEID then match o1 v with Some ob => enc_obj_arr swp ob | None => [] end
  else if venc v =? SBDF_RUNLENGTHENCODINGTYPEID then
    enc32 swp (value1 v) ++ match o1 v with Some ob => enc_obj_arr swp ob | None => [] end
                         ++ match o2 v with Some ob => enc_obj_arr swp ob | None => [] end
  else enc32 swp (value1 v) ++ match o1 v with Some {| oty := _; oelems := bytes :: _ |} => bytes | _ => [] end.

Lemma wf_obj_ok ob : wf_obj ob -> is_arr (oty ob) = true \/ 0 < usize (oty ob).
Proof. intros [_ W]. destruct (is_arr (oty ob)); [now left|right; tauto]. Qed.

Lemma wspec_va v : wf_va v -> wspec (va_write swp v) (Ok tt) (enc_va v).
Proof.
  intros W. unfold va_write, enc_va.
  change ([venc v mod 256; vty v mod 256]) with ([venc v mod 256] ++ [vty v mod 256]). rewrite <- app_assoc.
  eapply wspec_bind; [apply wspec_int8|]. eapply wspec_bind; [apply wspec_int8|].
  destruct W as [ty ob Ht Wo | ty n ob1 ob2 Hn H1 H2 W1 W2 | ty n bytes Hn Hb]; cbn [venc o1 o2 value1].
  - rewrite Z.eqb_refl. cbn [wobj_arr_opt]. apply wspec_obj_write_arr. now apply wf_obj_ok.
  - change (SBDF_RUNLENGTHENCODINGTYPEID =? SBDF_PLAINARRAYENCODINGTYPEID) with false. cbn iota. rewrite Z.eqb_refl.
    eapply wspec_bind; [apply wspec_int32|]. eapply wspec_bind; cbn [wobj_arr_opt]; apply wspec_obj_write_arr; now apply wf_obj_ok.
  - change (SBDF_BITARRAYENCODINGTYPEID =? SBDF_PLAINARRAYENCODINGTYPEID) with false.
    change (SBDF_BITARRAYENCODINGTYPEID =? SBDF_RUNLENGTHENCODINGTYPEID) with false. cbn iota. rewrite Z.eqb_refl.
    eapply wspec_bind; [apply wspec_int32|]. apply wspec_put. discriminate.
Qed.

Definition byte_ok (b : Z) : Prop := 0 <= b < 256.

Lemma rspec_va v : wf_va v -> byte_ok (vty v) -> rspec (va_read swp cap0) (enc_va v) v.
Proof.
  intros W Hty. unfold va_read, enc_va. unfold byte_ok in Hty.
  change ([venc v mod 256; vty v mod 256]) with ([venc v mod 256] ++ [vty v mod 256]). rewrite <- app_assoc.
  eapply rspec_bind; [apply rspec_int8|]. eapply rspec_bind; [apply rspec_int8|].
  rewrite (Z.mod_small (vty v)) by lia.
  destruct W as [ty ob Ht Wo | ty n ob1 ob2 Hn H1 H2 W1 W2 | ty n bytes Hn Hb]; cbn [venc o1 o2 value1 vty] in *.
  - change (SBDF_PLAINARRAYENCODINGTYPEID mod 256) with SBDF_PLAINARRAYENCODINGTYPEID. rewrite Z.eqb_refl.
    eapply rspec_ext; [apply app_nil_r|]. eapply rspec_bind; [rewrite <- Ht; now apply rspec_obj_read_arr|]. apply rspec_ret.
  - change (SBDF_RUNLENGTHENCODINGTYPEID mod 256) with SBDF_RUNLENGTHENCODINGTYPEID.
    change (SBDF_RUNLENGTHENCODINGTYPEID =? SBDF_PLAINARRAYENCODINGTYPEID) with false. cbn iota. rewrite Z.eqb_refl.
    eapply rspec_bind; [apply rspec_int32; unfold i32_range; lia|].
    destruct (n <? 0) eqn:C; [lia|].
    eapply rspec_bind; [rewrite <- H1; now apply rspec_obj_read_arr|].
    eapply rspec_ext; [apply app_nil_r|]. eapply rspec_bind; [rewrite <- H2; now apply rspec_obj_read_arr|]. apply rspec_ret.
  - change (SBDF_BITARRAYENCODINGTYPEID mod 256) with SBDF_BITARRAYENCODINGTYPEID.
    change (SBDF_BITARRAYENCODINGTYPEID =? SBDF_PLAINARRAYENCODINGTYPEID) with false.
    change (SBDF_BITARRAYENCODINGTYPEID =? SBDF_RUNLENGTHENCODINGTYPEID) with false. cbn iota. rewrite Z.eqb_refl.
    eapply rspec_bind; [apply rspec_int32; unfold i32_range; lia|].
    destruct (n <? 0) eqn:C; [lia|].
    eapply rspec_ext; [apply app_nil_l|]. eapply rspec_bind; [unfold ralloc, alloc_ok; apply rspec_ret|].
    eapply rspec_ext; [apply app_nil_r|]. eapply rspec_bind; [rewrite <- Hb; apply rspec_fread|]. apply rspec_ret.
Qed.

(* C07: the skip ends where the read ends, with the same status, whatever follows *)
Lemma va_skip_exact v tail : wf_va v -> byte_ok (vty v) -> va_skip swp (enc_va v ++ tail) = Ok (tt, tail).
Proof.
  intros W Hty. unfold va_skip, enc_va, rd_bind. unfold byte_ok in Hty. cbn [app read_int8 vt_read].
  rewrite (Z.mod_small (vty v)) by lia.
  destruct W as [ty ob Ht Wo | ty n ob1 ob2 Hn H1 H2 W1 W2 | ty n bytes Hn Hb]; cbn [venc o1 o2 value1 vty] in *.
  - change (SBDF_PLAINARRAYENCODINGTYPEID mod 256) with SBDF_PLAINARRAYENCODINGTYPEID. rewrite Z.eqb_refl.
    rewrite <- Ht. now apply obj_skip_arr_exact.
  - change (SBDF_RUNLENGTHENCODINGTYPEID mod 256) with SBDF_RUNLENGTHENCODINGTYPEID.
    change (SBDF_RUNLENGTHENCODINGTYPEID =? SBDF_PLAINARRAYENCODINGTYPEID) with false. cbn iota. rewrite Z.eqb_refl.
    rewrite <- !app_assoc. destruct (rspec_int32 swp n) as [E _]; [unfold i32_range; lia|]. rewrite E.
    destruct (n <? 0) eqn:C; [lia|].
    rewrite <- H1, obj_skip_arr_exact by assumption. rewrite <- H2. now apply obj_skip_arr_exact.
  - change (SBDF_BITARRAYENCODINGTYPEID mod 256) with SBDF_BITARRAYENCODINGTYPEID.
    change (SBDF_BITARRAYENCODINGTYPEID =? SBDF_PLAINARRAYENCODINGTYPEID) with false.
    change (SBDF_BITARRAYENCODINGTYPEID =? SBDF_RUNLENGTHENCODINGTYPEID) with false. cbn iota. rewrite Z.eqb_refl.
    rewrite <- !app_assoc. destruct (rspec_int32 swp n) as [E _]; [unfold i32_range; lia|]. rewrite E.
    destruct (n <? 0) eqn:C; [lia|]. unfold fseek_cur.
    assert (P : 0 <= bit_packed_size n) by (rewrite <- Hb; apply zlen_nonneg).
    destruct (bit_packed_size n <? 0) eqn:C2; [lia|]. rewrite <- Hb. now rewrite drop_z_app.
Qed.

End VaIO.
