(* File.v — whole-file sessions: what a caller does with the section writers and readers. *)
From Sbdf Require Export Slice.

Record table := { t_meta : tm; t_slices : list (ts (cs va)) }.

Section FileIO.
Variable swp : bool.
Variable cap : option Z.

Definition write_table (T : table) : W unit :=
  fh_write_cur ;;w
  tm_write swp (t_meta T) ;;w
  wfor (t_slices T) (ts_write swp) ;;w
  ts_write_end.

(* read slices until a non-OK status; SBDF_TABLEEND ends the table normally.  Returns the
   slices read, the final status and the unread input at the point of the last successful call. *)
Fixpoint read_slices (fuel : list Z) (ncols : Z) (subset : option (list Z)) (s : ist)
  : list (ts (cs va)) * Z * ist :=
  match ts_read swp cap ncols subset s with
  | Err st => ([], st, s)
  | Ok (t, s') =>
    match fuel with
    | [] => ([t], SBDF_ERROR_IO, s')
    | _ :: fuel' => let '(l, st, s'') := read_slices fuel' ncols subset s' in (t :: l, st, s'')
    end
  end.

(* header, table metadata, then slices: the table read so far (if the metadata was read), the
   status that ended the session, the unread input *)
Definition read_table (subset : option (list Z)) (s : ist) : option table * Z * ist :=
  match fh_read s with
  | Err st => (None, st, s)
  | Ok (_, s1) =>
    match tm_read swp cap s1 with
    | Err st => (None, st, s1)
    | Ok (m, s2) =>
      let '(l, st, s3) := read_slices s2 (zlen (tcols m)) subset s2 in
      (Some {| t_meta := m; t_slices := l |}, st, s3)
    end
  end.

End FileIO.
