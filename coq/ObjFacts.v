(* ObjFacts.v — objects: the writers emit the wire form under every budget, the readers invert it
   whatever follows, fail on every strict prefix, and the skippers end where the readers end. *)
From Sbdf Require Import Obj BaseFacts PrimFacts SevenBit.
From Coq Require Import ZifyBool.
Ltac Zify.zify_post_hook ::= Z.div_mod_to_equations.

(* ---- repetition ---- *)
Section Rep.
Context {A : Type}.
Variable one : R A.
Variable enc : A -> list Z.

Lemma rrep_exact (l : list A) : forall fuel tail,
  (forall x, In x l -> rspec one (enc x) x) ->
  (forall x, In x l -> enc x <> []) ->
  (length l <= length fuel)%nat ->
  rrep fuel (zlen l) one (concat (map enc l) ++ tail) = Ok (l, tail).
Proof.
  induction l as [|x l IH]; intros fuel tail Hs Hne Hf.
  - destruct fuel; reflexivity.
  - cbn [length] in Hf. destruct fuel as [|b fuel]; [cbn in Hf; lia|].
    cbn [rrep]. rewrite zlen_cons. pose proof (zlen_nonneg l) as N.
    destruct (1 + zlen l <=? 0) eqn:C; [lia|].
    cbn [map concat]. rewrite <- app_assoc.
    destruct (Hs x (or_introl eq_refl)) as [E _]. rewrite E.
    replace (1 + zlen l - 1) with (zlen l) by lia.
    rewrite IH; [reflexivity| | |cbn in Hf; lia]; intros y Hy; [apply Hs|apply Hne]; now right.
Qed.

Lemma length_concat_ge (l : list A) : (forall x, In x l -> enc x <> []) -> (length l <= length (concat (map enc l)))%nat.
Proof.
  induction l as [|x l IH]; intros H; cbn [map concat length]; [lia|].
  rewrite app_length. assert (enc x <> []) by (apply H; now left).
  destruct (enc x) eqn:E; [contradiction|]. cbn [length].
  assert (length l <= length (concat (map enc l)))%nat by (apply IH; intros y Hy; apply H; now right). lia.
Qed.

Lemma rrep_trunc (l : list A) : forall fuel k,
  (forall x, In x l -> rspec one (enc x) x) ->
  (forall x, In x l -> enc x <> []) ->
  0 <= k < zlen (concat (map enc l)) ->
  exists e, rrep fuel (zlen l) one (ztake k (concat (map enc l))) = Err e /\ hard e.
Proof.
  induction l as [|x l IH]; intros fuel k Hs Hne Hk.
  - cbn in Hk. lia.
  - cbn [map concat] in *. rewrite zlen_app in Hk. rewrite zlen_cons. pose proof (zlen_nonneg l) as N.
    destruct (Hs x (or_introl eq_refl)) as [E T].
    assert (Hstep : forall fuel0, exists e, rrep fuel0 (1 + zlen l) one (ztake k (enc x ++ concat (map enc l))) = Err e /\ hard e).
    { intros fuel0. destruct (Z_lt_le_dec k (zlen (enc x))) as [L|L].
      - rewrite ztake_app_le by lia. destruct (T k) as (e & Ee & He); [lia|].
        destruct fuel0; cbn [rrep]; (destruct (1 + zlen l <=? 0) eqn:C; [lia|]); rewrite Ee; eauto.
      - rewrite ztake_app_ge by lia.
        destruct fuel0 as [|b fuel0]; cbn [rrep]; (destruct (1 + zlen l <=? 0) eqn:C; [lia|]); rewrite E.
        + exists SBDF_ERROR_IO. split; [reflexivity|apply hard_io].
        + replace (1 + zlen l - 1) with (zlen l) by lia.
          destruct (IH fuel0 (k - zlen (enc x))) as (e & Ee & He); try lia.
          * intros y Hy. apply Hs. now right.
          * intros y Hy. apply Hne. now right.
          * rewrite Ee. eauto. }
    apply Hstep.
Qed.

Lemma rspec_rrepeat (l : list A) :
  (forall x, In x l -> rspec one (enc x) x) ->
  (forall x, In x l -> enc x <> []) ->
  rspec (rrepeat (zlen l) one) (concat (map enc l)) l.
Proof.
  intros Hs Hne. split.
  - intros tail. unfold rrepeat. apply rrep_exact; try assumption.
    rewrite app_length. pose proof (length_concat_ge l Hne). lia.
  - intros k Hk. unfold rrepeat. apply rrep_trunc; assumption.
Qed.
End Rep.

(* the same with a view: the reader returns `view x` for the encoding of x *)
Section RepView.
Context {A B : Type}.
Variable one : R B.
Variable enc : A -> list Z.
Variable view : A -> B.

Lemma rrep_exact_view (l : list A) : forall fuel tail,
  (forall x, In x l -> rspec one (enc x) (view x)) -> (length l <= length fuel)%nat ->
  rrep fuel (zlen l) one (concat (map enc l) ++ tail) = Ok (map view l, tail).
Proof.
  induction l as [|x l IH]; intros fuel tail Hs Hf.
  - destruct fuel; reflexivity.
  - cbn [length] in Hf. destruct fuel as [|b fuel]; [cbn in Hf; lia|].
    cbn [rrep]. rewrite zlen_cons. pose proof (zlen_nonneg l) as N.
    destruct (1 + zlen l <=? 0) eqn:C; [lia|]. cbn [map concat]. rewrite <- app_assoc.
    destruct (Hs x (or_introl eq_refl)) as [E _]. rewrite E.
    replace (1 + zlen l - 1) with (zlen l) by lia.
    rewrite IH; [reflexivity| |cbn in Hf; lia]. intros y Hy. apply Hs. now right.
Qed.

Lemma rrep_trunc_view (l : list A) : forall fuel k,
  (forall x, In x l -> rspec one (enc x) (view x)) -> 0 <= k < zlen (concat (map enc l)) ->
  exists e, rrep fuel (zlen l) one (ztake k (concat (map enc l))) = Err e /\ hard e.
Proof.
  induction l as [|x l IH]; intros fuel k Hs Hk.
  - cbn in Hk. lia.
  - cbn [map concat] in *. rewrite zlen_app in Hk. rewrite zlen_cons. pose proof (zlen_nonneg l) as N.
    destruct (Hs x (or_introl eq_refl)) as [E T].
    destruct (Z_lt_le_dec k (zlen (enc x))) as [L|L].
    + rewrite ztake_app_le by lia. destruct (T k) as (e & Ee & He); [lia|].
      destruct fuel; cbn [rrep]; (destruct (1 + zlen l <=? 0) eqn:C; [lia|]); rewrite Ee; eauto.
    + rewrite ztake_app_ge by lia.
      destruct fuel as [|b fuel]; cbn [rrep]; (destruct (1 + zlen l <=? 0) eqn:C; [lia|]); rewrite E.
      * exists SBDF_ERROR_IO. split; [reflexivity|apply hard_io].
      * replace (1 + zlen l - 1) with (zlen l) by lia.
        destruct (IH fuel (k - zlen (enc x))) as (e & Ee & He); try lia.
        -- intros y Hy. apply Hs. now right.
        -- rewrite Ee. eauto.
Qed.

Lemma rspec_rrepeat_view (l : list A) :
  (forall x, In x l -> rspec one (enc x) (view x)) -> (forall x, In x l -> enc x <> []) ->
  rspec (rrepeat (zlen l) one) (concat (map enc l)) (map view l).
Proof.
  intros Hs Hne. split.
  - intros tail. unfold rrepeat. apply rrep_exact_view; [exact Hs|].
    rewrite app_length. pose proof (length_concat_ge enc l Hne). lia.
  - intros k Hk. unfold rrepeat. now apply rrep_trunc_view.
Qed.
End RepView.

(* ---- chunks ---- *)
Lemma chunks_concat (sz : Z) (l : list (list Z)) :
  (forall e, In e l -> zlen e = sz) -> chunks (length l) sz (concat l) = l.
Proof.
  induction l as [|e l IH]; intros H; cbn [length chunks concat]; [reflexivity|].
  assert (He : zlen e = sz) by (apply H; now left). rewrite <- He.
  rewrite ztake_app_exact, zdrop_app_exact. f_equal. rewrite He. apply IH. intros y Hy. apply H. now right.
Qed.

Lemma zlen_concat_const (sz : Z) (l : list (list Z)) :
  (forall e, In e l -> zlen e = sz) -> zlen (concat l) = sz * zlen l.
Proof.
  induction l as [|e l IH]; intros H; cbn [concat]; [cbn; lia|].
  rewrite zlen_app, zlen_cons, IH by (intros y Hy; apply H; now right).
  rewrite (H e (or_introl eq_refl)). lia.
Qed.

Lemma packed_byte_size_nonneg l : 0 <= packed_byte_size l.
Proof.
  unfold packed_byte_size.
  assert (G : forall a, 0 <= a -> 0 <= fold_left (fun acc e => acc + (len7 (zlen e) + zlen e)) l a).
  { induction l as [|e l IH]; intros a Ha; cbn [fold_left]; [lia|].
    apply IH. pose proof (len7_bounds (zlen e)). pose proof (zlen_nonneg e). lia. }
  apply G. lia.
Qed.

Section ObjFacts.
Variable swp : bool.
Notation cap0 := (@None Z).

Definition enc_elem (packed : bool) (e : list Z) : list Z :=
  (if packed then enc7 (zlen e) else enc32 swp (zlen e)) ++ e.

Definition enc_objects (o : obj) (packed : bool) : list Z :=
  if is_arr (oty o) then
    (if packed then enc32 swp (packed_byte_size (oelems o)) else []) ++ concat (map (enc_elem packed) (oelems o))
  else concat (map (swapb swp) (oelems o)).

Definition enc_obj_arr (o : obj) : list Z := enc32 swp (ocount o) ++ enc_objects o true.

(* well-formed object: what the constructors and readers produce *)
Definition wf_obj (o : obj) : Prop :=
  ocount o < 2147483648 /\
  if is_arr (oty o) then
    (forall e, In e (oelems o) -> zlen e < 2147483647) /\ packed_byte_size (oelems o) < 2147483648
  else 0 < usize (oty o) /\ (forall e, In e (oelems o) -> zlen e = usize (oty o)).

Lemma enc_elem_nonempty packed e : zlen e < 2147483647 -> enc_elem packed e <> [].
Proof.
  intros H. unfold enc_elem. destruct packed.
  - pose proof (zlen_enc7 (zlen e)) as L. pose proof (len7_bounds (zlen e)). pose proof (zlen_nonneg e).
    destruct (enc7 (zlen e)) eqn:E; [cbn in L; unfold len_range in L; lia|discriminate].
  - unfold enc32. destruct swp; cbn; discriminate.
Qed.

(* ---- writers ---- *)
Lemma wspec_elem (packed : bool) (e : list Z) :
  wspec ((if packed then write_7bit (zlen e) else write_int32 swp (zlen e)) ;;w
         (if zlen e =? 0 then wret tt else put e SBDF_ERROR_OUT_OF_MEMORY)) (Ok tt) (enc_elem packed e).
Proof.
  unfold enc_elem. eapply wspec_bind.
  - destruct packed; [apply wspec_7bit|apply wspec_int32].
  - destruct (zlen e =? 0) eqn:C.
    + apply Z.eqb_eq in C. apply zlen_zero_nil in C. subst e. apply wspec_ret.
    + apply wspec_put. discriminate.
Qed.

Lemma wspec_write_objects o packed :
  (is_arr (oty o) = true \/ 0 < usize (oty o)) ->
  wspec (write_objects swp o packed) (Ok tt) (enc_objects o packed).
Proof.
  intros H. unfold write_objects, enc_objects. destruct (is_arr (oty o)) eqn:A.
  - eapply wspec_bind.
    + destruct packed; [apply wspec_int32|apply wspec_ret].
    + apply wspec_wfor. intros e _. apply wspec_elem.
  - destruct H as [H|H]; [discriminate|].
    destruct (usize (oty o) <? 0) eqn:C1; [lia|]. destruct (usize (oty o) =? 0) eqn:C2; [lia|].
    apply wspec_put. discriminate.
Qed.

Lemma wspec_obj_write_arr o :
  (is_arr (oty o) = true \/ 0 < usize (oty o)) -> wspec (obj_write_arr swp o) (Ok tt) (enc_obj_arr o).
Proof.
  intros H. unfold obj_write_arr, enc_obj_arr. eapply wspec_bind; [apply wspec_int32|]. now apply wspec_write_objects.
Qed.

(* an unknown type id is refused before anything is written *)
Lemma wspec_write_objects_bad o packed :
  is_arr (oty o) = false -> usize (oty o) <= 0 ->
  exists e, e <> SBDF_OK /\ wspec (write_objects swp o packed) (Err e) [].
Proof.
  intros A H. unfold write_objects. rewrite A.
  destruct (usize (oty o) <? 0) eqn:C1.
  - exists (usize (oty o)). split; [unfold SBDF_OK; lia|apply wspec_fail].
  - destruct (usize (oty o) =? 0) eqn:C2; [|lia]. exists SBDF_ERROR_UNKNOWN_TYPEID. split; [discriminate|apply wspec_fail].
Qed.

(* ---- readers ---- *)
Lemma rspec_elem ty packed e :
  zlen e < 2147483647 -> rspec (read_elem swp cap0 ty packed) (enc_elem packed e) e.
Proof.
  intros H. pose proof (zlen_nonneg e) as N. unfold read_elem, enc_elem.
  eapply rspec_bind.
  - destruct packed; [apply rspec_7bit; unfold len_range; lia|apply rspec_int32; unfold i32_range; lia].
  - destruct (zlen e <? 0) eqn:C; [lia|]. unfold INT_MAX.
    destruct ((ty =? SBDF_STRINGTYPEID) && (zlen e =? 2147483647)) eqn:C1; [lia|].
    eapply rspec_ext; [apply app_nil_l|]. eapply rspec_bind; [unfold ralloc, alloc_ok; apply rspec_ret|].
    apply rspec_fread.
Qed.

Lemma rspec_read_objects o packed :
  wf_obj o -> rspec (read_objects swp cap0 (oty o) (ocount o) packed) (enc_objects o packed) o.
Proof.
  intros [Hc W]. unfold read_objects, enc_objects. pose proof (zlen_nonneg (oelems o)) as N. unfold ocount in *.
  destruct (zlen (oelems o) <? 0) eqn:C0; [lia|].
  destruct (is_arr (oty o)) eqn:A.
  - destruct W as [We Wt].
    eapply rspec_ext; [apply app_nil_l|]. eapply rspec_bind; [unfold ralloc, alloc_ok; apply rspec_ret|].
    eapply rspec_bind.
    + destruct packed.
      * eapply rspec_ext; [apply app_nil_r|]. eapply rspec_bind; [apply rspec_int32|apply rspec_ret].
        unfold i32_range. pose proof (packed_byte_size_nonneg (oelems o)). lia.
      * apply rspec_ret.
    + eapply rspec_ext; [apply app_nil_r|]. eapply rspec_bind.
      * apply rspec_rrepeat.
        -- intros e He. apply rspec_elem. now apply We.
        -- intros e He. apply enc_elem_nonempty. now apply We.
      * destruct o as [ty els]. cbn [oty oelems]. apply rspec_ret.
  - destruct W as [Hsz We].
    destruct (usize (oty o) <? 0) eqn:C1; [lia|]. destruct (usize (oty o) =? 0) eqn:C2; [lia|].
    eapply rspec_ext; [apply app_nil_l|]. eapply rspec_bind; [unfold ralloc, alloc_ok; apply rspec_ret|].
    eapply rspec_ext; [apply app_nil_r|]. eapply rspec_bind.
    + assert (L : zlen (concat (map (swapb swp) (oelems o))) = usize (oty o) * zlen (oelems o)).
      { rewrite (zlen_concat_const (usize (oty o))), zlen_map; [reflexivity|].
        intros e He. apply in_map_iff in He. destruct He as (e' & <- & He'). rewrite zlen_swapb. now apply We. }
      rewrite <- L. apply rspec_fread.
    + assert (Hn : Z.to_nat (zlen (oelems o)) = length (map (swapb swp) (oelems o))).
      { unfold zlen. rewrite Nat2Z.id, map_length. reflexivity. }
      rewrite Hn, (chunks_concat (usize (oty o))).
      * rewrite map_map.
        assert (E : map (fun x => swapb swp (swapb swp x)) (oelems o) = oelems o).
        { rewrite <- (map_id (oelems o)) at 2. apply map_ext. intros e. apply swapb_involutive. }
        rewrite E. destruct o as [ty els]. apply rspec_ret.
      * intros e He. apply in_map_iff in He. destruct He as (e' & <- & He'). rewrite zlen_swapb. now apply We.
Qed.

Lemma rspec_obj_read_arr o :
  wf_obj o -> rspec (obj_read_arr swp cap0 (oty o)) (enc_obj_arr o) o.
Proof.
  intros W. unfold obj_read_arr, enc_obj_arr. eapply rspec_bind.
  - apply rspec_int32. destruct W as [Hc _]. unfold i32_range, ocount in *. pose proof (zlen_nonneg (oelems o)). lia.
  - now apply rspec_read_objects.
Qed.

(* ---- skipping ends where reading ends (C07), for arrays ---- *)
Lemma zlen_concat_elems_packed l :
  (forall e, In e l -> zlen e < 2147483647) ->
  zlen (concat (map (enc_elem true) l)) = packed_byte_size l.
Proof.
  intros H. unfold packed_byte_size.
  assert (G : forall a, fold_left (fun acc e => acc + (len7 (zlen e) + zlen e)) l a = a + zlen (concat (map (enc_elem true) l))).
  { induction l as [|e l IH]; intros a; cbn [fold_left map concat]; [cbn; lia|].
    rewrite IH by (intros y Hy; apply H; now right). rewrite zlen_app. unfold enc_elem at 2. rewrite zlen_app.
    rewrite zlen_enc7; [lia|]. unfold len_range. pose proof (zlen_nonneg e). pose proof (H e (or_introl eq_refl)). lia. }
  rewrite G. lia.
Qed.

Lemma obj_skip_arr_exact o tail :
  wf_obj o -> obj_skip_arr swp (oty o) (enc_obj_arr o ++ tail) = Ok (tt, tail).
Proof.
  intros [Hc W]. unfold obj_skip_arr, enc_obj_arr, rd_bind. pose proof (zlen_nonneg (oelems o)) as N. unfold ocount in *.
  rewrite <- app_assoc. destruct (rspec_int32 swp (zlen (oelems o))) as [E _]; [unfold i32_range; lia|]. rewrite E.
  unfold skip_objects, enc_objects. destruct (zlen (oelems o) <? 0) eqn:C0; [lia|].
  destruct (is_arr (oty o)) eqn:A.
  - destruct W as [We Wt]. unfold skip_one_unpacked, rd_bind. rewrite <- app_assoc.
    assert (P : 0 <= packed_byte_size (oelems o)).
    { rewrite <- zlen_concat_elems_packed by exact We. apply zlen_nonneg. }
    destruct (rspec_int32 swp (packed_byte_size (oelems o))) as [E2 _]; [unfold i32_range; lia|]. rewrite E2.
    destruct (packed_byte_size (oelems o) <? 0) eqn:C1; [lia|].
    unfold fseek_cur. rewrite C1. rewrite <- (zlen_concat_elems_packed _ We). now rewrite drop_z_app.
  - destruct W as [Hsz We].
    destruct (usize (oty o) <? 0) eqn:C1; [lia|]. destruct (usize (oty o) =? 0) eqn:C2; [lia|].
    unfold fseek_cur. destruct (zlen (oelems o) * usize (oty o) <? 0) eqn:C3; [lia|].
    assert (L : zlen (concat (map (swapb swp) (oelems o))) = zlen (oelems o) * usize (oty o)).
    { rewrite (zlen_concat_const (usize (oty o))), zlen_map; [lia|].
      intros e He. apply in_map_iff in He. destruct He as (e' & <- & He'). rewrite zlen_swapb. now apply We. }
    rewrite <- L. now rewrite drop_z_app.
Qed.

End ObjFacts.
