(* Slice.v — columnslice.c, tableslice.c.  Column and table slices hold references; the payload
   type is a parameter (a handle for caller-built slices, the array itself for I/O). *)
From Sbdf Require Export Tm.

Record cs (V : Type) := { csvals : V; csprops : list (list Z * V); csowned : bool }.
Arguments csvals {V} c.
Arguments csprops {V} c.
Arguments csowned {V} c.

Definition cs_create {V} (values : V) : cs V := {| csvals := values; csprops := []; csowned := false |}.

Definition cs_find {V} (name : list Z) (c : cs V) : option (list Z * V) :=
  find_first (fun p => name_eqb name (fst p)) (csprops c).

(* sbdf_cs_add_property; rows = sbdf_va_row_cnt of whatever a payload refers to *)
Definition cs_add_property {V} (rows : V -> Z) (c : cs V) (name : list Z) (v : V) : res (cs V) :=
  if negb (rows (csvals c) =? rows v) then Err SBDF_ERROR_ROW_COUNT_MISMATCH else
  match cs_find name c with
  | Some _ => Err SBDF_ERROR_PROPERTY_ALREADY_EXISTS
  | None => Ok {| csvals := csvals c; csprops := csprops c ++ [(cstr name, v)]; csowned := csowned c |}
  end.

Definition cs_get_property {V} (c : cs V) (name : list Z) : res V :=
  match cs_find name c with
  | Some p => Ok (snd p)
  | None => Err SBDF_ERROR_PROPERTY_NOT_FOUND
  end.

Definition cs_row_cnt {V} (rows : V -> Z) (c : cs V) : Z := rows (csvals c).

Record ts (C : Type) := { tscols : list (option C); tsowned : bool }.
Arguments tscols {C} t.
Arguments tsowned {C} t.

Definition ts_create {C} : ts C := {| tscols := []; tsowned := false |}.
Definition ts_add {C} (c : C) (t : ts C) : ts C := {| tscols := tscols t ++ [Some c]; tsowned := tsowned t |}.

Section SliceIO.
Variable swp : bool.
Variable cap : option Z.

Definition cs_write (c : cs va) : W unit :=
  sec_write SBDF_COLUMNSLICE_SECTIONID ;;w
  va_write swp (csvals c) ;;w
  write_int32 swp (zlen (csprops c)) ;;w
  wfor (csprops c) (fun p => write_string swp (fst p) ;;w va_write swp (snd p)).

Definition read_prop : R (list Z * va) :=
  name <-r read_string swp cap ;;
  v <-r va_read swp cap ;;
  rret (name, v).

Definition cs_read : R (cs va) :=
  sec_expect SBDF_COLUMNSLICE_SECTIONID ;;r
  values <-r va_read swp cap ;;
  v <-r read_int32 swp ;;
  if v <? 0 then rfail SBDF_ERROR_INVALID_SIZE else
  if INT_MAX / 16 <? v then rfail SBDF_ERROR_OUT_OF_MEMORY else
  ralloc cap (array_capacity v * 8) ;;r
  props <-r rrepeat v read_prop ;;
  rret {| csvals := values; csprops := props; csowned := true |}.

Definition skip_prop : R unit := skip_string swp ;;r va_skip swp.

Definition cs_skip : R unit :=
  sec_expect SBDF_COLUMNSLICE_SECTIONID ;;r
  va_skip swp ;;r
  v <-r read_int32 swp ;;
  if v <? 0 then rfail SBDF_ERROR_INVALID_SIZE else
  (_ <-r rrepeat v skip_prop ;; rret tt).

Definition ts_write (t : ts (cs va)) : W unit :=
  sec_write SBDF_TABLESLICE_SECTIONID ;;w
  write_int32 swp (zlen (tscols t)) ;;w
  wfor (tscols t) (fun c =>
    match c with Some c => cs_write c | None => wfail SBDF_ERROR_ARGUMENT_NULL end).

Definition ts_write_end : W unit := sec_write SBDF_TABLEEND_SECTIONID.

(* the columns of one slice; subset = None reads everything, Some l reads column i iff the
   i-th entry of l is non-zero (the caller's array has one entry per column) *)
Fixpoint read_cols (n : nat) (subset : option (list Z)) : R (list (option (cs va))) :=
  match n with
  | O => rret []
  | S n' =>
    let sel := match subset with None => true | Some l => negb (hd 0 l =? 0) end in
    c <-r (if sel then (c <-r cs_read ;; rret (Some c)) else (cs_skip ;;r rret None)) ;;
    rest <-r read_cols n' (option_map (@tl Z) subset) ;;
    rret (c :: rest)
  end.

(* sbdf_ts_read; SBDF_TABLEEND is reported as an Err status like every non-OK return *)
Definition ts_read (ncols : Z) (subset : option (list Z)) : R (ts (cs va)) :=
  v <-r sec_read ;;
  if v =? SBDF_TABLEEND_SECTIONID then rfail SBDF_TABLEEND else
  if negb (v =? SBDF_TABLESLICE_SECTIONID) then rfail SBDF_ERROR_UNEXPECTED_SECTION_ID else
  cc <-r read_int32 swp ;;
  if cc <? 0 then rfail SBDF_ERROR_INVALID_SIZE else
  if negb (cc =? ncols) then rfail SBDF_ERROR_COLUMN_COUNT_MISMATCH else
  ralloc cap (array_capacity cc * 8) ;;r
  cols <-r read_cols (Z.to_nat cc) subset ;;
  rret {| tscols := cols; tsowned := true |}.

Definition ts_skip (ncols : Z) : R unit :=
  ralloc cap ncols ;;r
  _ <-r ts_read ncols (Some (repeat 0 (Z.to_nat ncols))) ;;
  rret tt.

End SliceIO.
