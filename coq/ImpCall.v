(* ImpCall.v — calls between translated functions.  execE is exec of Imp.v plus SCall: the callee
   runs in a frame of its own (its parameters and locals), on the caller's streams (input, output,
   byte budget); int* arguments are passed by copy-in / copy-out of the cell they point to (the
   translator refuses calls that pass one cell twice, so this is what pointers do); a pointer
   argument that the caller itself received is handed on with its value, so a null pointer stays
   null.  A callee that falls off its end returns no value. *)
From Sbdf Require Export Imp.
Local Open Scope Z_scope.

Definition fenv := string -> option func.

Definition cell_token : val := VPtr ROut 0.    (* a non-null pointer to an int cell *)

Fixpoint eval_args (args : list carg) (s : state) : option (list val * list (option string) * state) :=
  match args with
  | [] => Some ([], [], s)
  | a :: r =>
    match a with
    | AVal e =>
      match eval e s with
      | Some (v, s1) => match eval_args r s1 with Some (vs, cs, s2) => Some (v :: vs, None :: cs, s2) | None => None end
      | None => None
      end
    | AAddr x =>
      match lookup x (vars s) with
      | Some _ => match eval_args r s with Some (vs, cs, s2) => Some (cell_token :: vs, Some x :: cs, s2) | None => None end
      | None => None
      end
    | AFwd p =>
      match lookup p (vars s) with
      | Some VUndef | None => None
      | Some v => match eval_args r s with Some (vs, cs, s2) => Some (v :: vs, Some ("*" ++ p)%string :: cs, s2) | None => None end
      end
    end
  end.

Definition try_update (x : string) (v : val) (l : list (string * val)) : list (string * val) :=
  match update x v l with Some l' => l' | None => l end.

(* copy the cells in: the callee's "*q" starts as the caller's cell *)
Fixpoint copy_in (params : list string) (cells : list (option string)) (caller : list (string * val)) (frame : list (string * val)) : list (string * val) :=
  match params, cells with
  | q :: ps, Some c :: cs =>
    copy_in ps cs caller (match lookup c caller with Some v => try_update ("*" ++ q)%string v frame | None => frame end)
  | _ :: ps, None :: cs => copy_in ps cs caller frame
  | _, _ => frame
  end.

Fixpoint copy_out (params : list string) (cells : list (option string)) (callee : list (string * val)) (caller : list (string * val)) : list (string * val) :=
  match params, cells with
  | q :: ps, Some c :: cs =>
    copy_out ps cs callee (match lookup ("*" ++ q)%string callee with Some v => try_update c v caller | None => caller end)
  | _ :: ps, None :: cs => copy_out ps cs callee caller
  | _, _ => caller
  end.

Definition callee_init (fn : func) (vals : list val) (cells : list (option string)) (s : state) : state :=
  let frame := combine (fparams fn) vals ++ map (fun x => (x, VUndef)) (flocals fn)
               ++ match lookup budget_var (vars s) with Some b => [(budget_var, b)] | None => [] end
               ++ match lookup fail_var (vars s) with Some b => [(fail_var, b)] | None => [] end
               ++ match lookup strm_var (vars s) with Some b => [(strm_var, b)] | None => [] end
               ++ match lookup cells_var (vars s) with Some b => [(cells_var, b)] | None => [] end in
  {| vars := copy_in (fparams fn) cells (vars s) frame; inb := inb s; outb := outb s |}.

Definition finish_call (ret : option string) (fn : func) (cells : list (option string)) (s st' : state) (v : val) : option state :=
  let vs1 := copy_out (fparams fn) cells (vars st') (vars s) in
  let vs2a := match lookup budget_var (vars st') with Some b => try_update budget_var b vs1 | None => vs1 end in
  let vs2b := match lookup fail_var (vars st') with Some b => try_update fail_var b vs2a | None => vs2a end in
  let vs2c := match lookup strm_var (vars st') with Some b => try_update strm_var b vs2b | None => vs2b end in
  let vs2 := match lookup cells_var (vars st') with Some b => try_update cells_var b vs2c | None => vs2c end in
  match ret with
  | Some x => match update x v vs2 with Some vs3 => Some {| vars := vs3; inb := inb st'; outb := outb st' |} | None => None end
  | None => Some {| vars := vs2; inb := inb st'; outb := outb st' |}
  end.

Fixpoint execE (env : fenv) (fuel : nat) (st : stmt) (s : state) : outcome :=
  match fuel with
  | O => OFuel
  | S f =>
    match st with
    | SSkip => ONormal s
    | SExpr e => match eval e s with Some (_, s1) => ONormal s1 | None => OFault end
    | SDecl x None => match set_var x VUndef s with Some s1 => ONormal s1 | None => OFault end
    | SDecl x (Some e) =>
      match eval e s with
      | Some (v, s1) => match set_var x v s1 with Some s2 => ONormal s2 | None => OFault end
      | None => OFault
      end
    | SSeq a b => match execE env f a s with ONormal s1 => execE env f b s1 | o => o end
    | SIf c a b =>
      match eval c s with
      | Some (vc, s1) => match truth vc with Some true => execE env f a s1 | Some false => execE env f b s1 | None => OFault end
      | None => OFault
      end
    | SWhile c body =>
      match eval c s with
      | Some (vc, s1) =>
        match truth vc with
        | Some true => match execE env f body s1 with
                       | ONormal s2 => execE env f (SWhile c body) s2
                       | OBreak s2 => ONormal s2
                       | o => o end
        | Some false => ONormal s1
        | None => OFault
        end
      | None => OFault
      end
    | SReturn e => match eval e s with Some (v, s1) => OReturn v s1 | None => OFault end
    | SBreak => OBreak s
    | SCall ret g args =>
      match env g, eval_args args s with
      | Some fn, Some (vals, cells, s1) =>
        if negb (Nat.eqb (List.length vals) (List.length (fparams fn))) then OFault else
        match execE env f (fbody fn) (callee_init fn vals cells s1) with
        | OReturn v st' => match finish_call ret fn cells s1 st' v with Some s2 => ONormal s2 | None => OFault end
        | ONormal st' => match finish_call ret fn cells s1 st' VUndef with Some s2 => ONormal s2 | None => OFault end
        | OBreak _ => OFault
        | o => o
        end
      | _, _ => OFault
      end
    | SFault _ => OFault
    end
  end.

(* a top-level call of a function that allocates: memory = the caller's memory (the arguments point into it),
   fail = which allocation attempt returns NULL (0 = the first; negative = none), strm = the unread bytes
   of the input stream (separate from the memory) *)
Definition callH (env : fenv) (fuel : nat) (f : func) (args : list val) (memory : list Z) (fail : Z) (strm : list Z) : outcome :=
  execE env fuel (fbody f) {| vars := combine (fparams f) args ++ map (fun x => (x, VUndef)) (flocals f) ++ [(budget_var, VInt 0); (fail_var, VInt fail); (strm_var, VBytes strm)];
                              inb := memory; outb := [] |}.

(* a top-level call of a function that works on structs: cells = the cell heap *)
Definition callC (env : fenv) (fuel : nat) (f : func) (args : list val) (memory : list Z) (fail : Z) (strm : list Z) (cells : list (option (list val))) : outcome :=
  execE env fuel (fbody f) {| vars := combine (fparams f) args ++ map (fun x => (x, VUndef)) (flocals f) ++ [(budget_var, VInt 0); (fail_var, VInt fail); (strm_var, VBytes strm); (cells_var, VHeap cells)];
                              inb := memory; outb := [] |}.

(* a top-level call of a function that works on streams *)
Definition callE (env : fenv) (fuel : nat) (f : func) (args : list val) (input : list Z) (budget : Z) : outcome :=
  execE env fuel (fbody f) {| vars := combine (fparams f) args ++ map (fun x => (x, VUndef)) (flocals f) ++ [(budget_var, VInt budget)];
                              inb := input; outb := [] |}.

(* ---- big-step presentation and soundness ---- *)
Inductive bsE (env : fenv) : stmt -> state -> outcome -> Prop :=
| bsE_skip s : bsE env SSkip s (ONormal s)
| bsE_expr e s v s1 : eval e s = Some (v, s1) -> bsE env (SExpr e) s (ONormal s1)
| bsE_decl0 x s s1 : set_var x VUndef s = Some s1 -> bsE env (SDecl x None) s (ONormal s1)
| bsE_decl1 x e s v s1 s2 : eval e s = Some (v, s1) -> set_var x v s1 = Some s2 -> bsE env (SDecl x (Some e)) s (ONormal s2)
| bsE_seq a b s s1 o : bsE env a s (ONormal s1) -> bsE env b s1 o -> bsE env (SSeq a b) s o
| bsE_seq_ret a b s v s1 : bsE env a s (OReturn v s1) -> bsE env (SSeq a b) s (OReturn v s1)
| bsE_if c a b s vc s1 t o : eval c s = Some (vc, s1) -> truth vc = Some t -> bsE env (if t then a else b) s1 o -> bsE env (SIf c a b) s o
| bsE_return e s v s1 : eval e s = Some (v, s1) -> bsE env (SReturn e) s (OReturn v s1)
| bsE_while_f c body s vc s1 : eval c s = Some (vc, s1) -> truth vc = Some false -> bsE env (SWhile c body) s (ONormal s1)
| bsE_while_t c body s vc s1 s2 o : eval c s = Some (vc, s1) -> truth vc = Some true ->
    bsE env body s1 (ONormal s2) -> bsE env (SWhile c body) s2 o -> bsE env (SWhile c body) s o
| bsE_while_ret c body s vc s1 v s2 : eval c s = Some (vc, s1) -> truth vc = Some true ->
    bsE env body s1 (OReturn v s2) -> bsE env (SWhile c body) s (OReturn v s2)
| bsE_break s : bsE env SBreak s (OBreak s)
| bsE_seq_brk a b s s1 : bsE env a s (OBreak s1) -> bsE env (SSeq a b) s (OBreak s1)
| bsE_while_brk c body s vc s1 s2 : eval c s = Some (vc, s1) -> truth vc = Some true ->
    bsE env body s1 (OBreak s2) -> bsE env (SWhile c body) s (ONormal s2)
| bsE_call ret g args s fn vals cells s1 v st' s2 :
    env g = Some fn -> eval_args args s = Some (vals, cells, s1) -> List.length vals = List.length (fparams fn) ->
    bsE env (fbody fn) (callee_init fn vals cells s1) (OReturn v st') ->
    finish_call ret fn cells s1 st' v = Some s2 ->
    bsE env (SCall ret g args) s (ONormal s2)
| bsE_call_void ret g args s fn vals cells s1 st' s2 :     (* the callee falls off its end: no value *)
    env g = Some fn -> eval_args args s = Some (vals, cells, s1) -> List.length vals = List.length (fparams fn) ->
    bsE env (fbody fn) (callee_init fn vals cells s1) (ONormal st') ->
    finish_call ret fn cells s1 st' VUndef = Some s2 ->
    bsE env (SCall ret g args) s (ONormal s2).

Definition fromE (env : fenv) (f0 : nat) (st : stmt) (s : state) (o : outcome) : Prop := forall f, (f0 <= f)%nat -> execE env f st s = o.

Theorem bsE_sound env st s o : bsE env st s o -> exists f0, fromE env f0 st s o.
Proof.
  induction 1.
  - exists 1%nat. intros f Hf. destruct f; [lia|reflexivity].
  - exists 1%nat. intros f Hf. destruct f; [lia|]. cbn [execE]. now rewrite H.
  - exists 1%nat. intros f Hf. destruct f; [lia|]. cbn [execE]. now rewrite H.
  - exists 1%nat. intros f Hf. destruct f; [lia|]. cbn [execE]. now rewrite H, H0.
  - destruct IHbsE1 as (f1 & H1), IHbsE2 as (f2 & H2). exists (S (Nat.max f1 f2)). intros f Hf. destruct f; [lia|]. cbn [execE].
    rewrite H1 by lia. apply H2. lia.
  - destruct IHbsE as (f1 & H1). exists (S f1). intros f Hf. destruct f; [lia|]. cbn [execE]. rewrite H1 by lia. reflexivity.
  - destruct IHbsE as (f1 & H2). exists (S f1). intros f Hf. destruct f; [lia|]. cbn [execE]. rewrite H, H0.
    destruct t; apply H2; lia.
  - exists 1%nat. intros f Hf. destruct f; [lia|]. cbn [execE]. now rewrite H.
  - exists 1%nat. intros f Hf. destruct f; [lia|]. cbn [execE]. now rewrite H, H0.
  - destruct IHbsE1 as (f1 & H3), IHbsE2 as (f2 & H4). exists (S (Nat.max f1 f2)). intros f Hf. destruct f; [lia|]. cbn [execE].
    rewrite H, H0, H3 by lia. apply H4. lia.
  - destruct IHbsE as (f1 & H3). exists (S f1). intros f Hf. destruct f; [lia|]. cbn [execE]. rewrite H, H0, H3 by lia. reflexivity.
  - exists 1%nat. intros f Hf. destruct f; [lia|reflexivity].
  - destruct IHbsE as (f1 & H1). exists (S f1). intros f Hf. destruct f; [lia|]. cbn [execE]. rewrite H1 by lia. reflexivity.
  - destruct IHbsE as (f1 & H3). exists (S f1). intros f Hf. destruct f; [lia|]. cbn [execE]. rewrite H, H0, H3 by lia. reflexivity.
  - destruct IHbsE as (f1 & H4). exists (S f1). intros f Hf. destruct f; [lia|]. cbn [execE]. rewrite H, H0.
    rewrite H1, Nat.eqb_refl. cbn [negb]. rewrite H4 by lia. now rewrite H3.
  - destruct IHbsE as (f1 & H4). exists (S f1). intros f Hf. destruct f; [lia|]. cbn [execE]. rewrite H, H0.
    rewrite H1, Nat.eqb_refl. cbn [negb]. rewrite H4 by lia. now rewrite H3.
Qed.
