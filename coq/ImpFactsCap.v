(* ImpFactsCap.v - the growth function sbdf_calculate_array_capacity from the source. *)
From Sbdf Require Import ImpCall Gen.Prog Gen.Consts Base Prim BaseFacts ImpBase.
From Coq Require Import ZifyBool.
Local Open Scope Z_scope.
Ltac Zify.zify_post_hook ::= Z.div_mod_to_equations.

(* ---- sbdf_calculate_array_capacity ---- *)
(* the frame: the function's two variables, then whatever pseudo-variables the caller's kind of call carries (tl);
   the function touches neither them nor the memory *)
Definition cap_st (tl : list (string * val)) (m o : list Z) (size c : Z) : state :=
  {| vars := ("size"%string, VInt size) :: ("cap"%string, VInt c) :: tl; inb := m; outb := o |}.

Definition cap_step (c : Z) : Z := 1 + c * 3 / 2.

Fixpoint cap_iter (f : nat) (c : Z) : Z := match f with O => c | S f' => cap_iter f' (cap_step c) end.

Lemma cap_loop_or_iter f : forall c size, size <= cap_loop f c size \/ cap_loop f c size = cap_iter f c.
Proof.
  induction f as [|f IH]; intros c size; cbn [cap_loop cap_iter]; [now right|].
  destruct (c <? size) eqn:E; [apply IH|left; lia].
Qed.

Lemma cap_loop_enough size : size <= 715827882 -> size <= array_capacity size.
Proof.
  intros H. unfold array_capacity. destruct (cap_loop_or_iter 64 0 size) as [G|G]; [exact G|].
  rewrite G. assert (E : 715827882 <= cap_iter 64 0) by (vm_compute; discriminate). lia.
Qed.

Lemma cap_loop_prog tl m o f : forall c size, 0 <= c -> size <= 715827882 -> size <= cap_loop f c size ->
  bsE prog_env (loop2 (fbody prog_sbdf_calculate_array_capacity)) (cap_st tl m o size c) (ONormal (cap_st tl m o size (cap_loop f c size))).
Proof.
  cbn [loop2 fbody prog_sbdf_calculate_array_capacity].
  induction f as [|f IH]; intros c size Hc Hs Hen; cbn [cap_loop] in *.
  - unfold cap_st. eapply bsE_while_f; [evi; reflexivity|]. cbn [truth b2z]. replace (c <? size) with false by lia. reflexivity.
  - destruct (c <? size) eqn:E.
    + assert (Hq : Z.quot (c * 3) 2 = c * 3 / 2) by (apply Z.quot_div_nonneg; lia).
      eapply bsE_while_t.
      * unfold cap_st. evi. reflexivity.
      * cbn [truth b2z]. rewrite E. reflexivity.
      * eapply bsE_expr. unfold cap_st. evi. chk7. evi. chk7. evi. change (2 =? 0) with false. cbv iota. rewrite Hq. chk7. evi. chk7. reflexivity.
      * apply IH; [unfold cap_step; lia|exact Hs|exact Hen].
    + unfold cap_st. eapply bsE_while_f; [evi; reflexivity|]. cbn [truth b2z]. rewrite E. reflexivity.
Qed.

Lemma capacity_bs tl m o size c0 : int_min <= size <= 715827882 ->
  bsE prog_env (fbody prog_sbdf_calculate_array_capacity)
     {| vars := ("size"%string, VInt size) :: ("cap"%string, c0) :: tl; inb := m; outb := o |}
     (OReturn (VInt (array_capacity size)) (cap_st tl m o size (array_capacity size))).
Proof.
  intros Hs. pose proof (cap_loop_enough size ltac:(lia)) as En. unfold array_capacity in *.
  pose proof (cap_loop_prog tl m o 64 0 size ltac:(lia) ltac:(lia) En) as L. cbn [loop2 fbody prog_sbdf_calculate_array_capacity] in L.
  cbn [fbody prog_sbdf_calculate_array_capacity].
  eapply bsE_seq; [eapply bsE_decl1; [evi; chk7; reflexivity|evi; reflexivity]|].
  eapply bsE_seq; [exact L|]. eapply bsE_return. unfold cap_st. evi. reflexivity.
Qed.

Theorem capacity_source size : int_min <= size <= 715827882 ->
  exists f0, forall f, (f0 <= f)%nat -> exists fin,
    callE prog_env f prog_sbdf_calculate_array_capacity [VInt size] [] 0 = OReturn (VInt (array_capacity size)) fin.
Proof.
  intros Hs. destruct (bsE_sound _ _ _ _ (capacity_bs [(budget_var, VInt 0)] [] [] size VUndef Hs)) as (f0 & F).
  exists f0. intros f Hf. eexists. apply F. exact Hf.
Qed.
