(* MemFacts.v — theorems over the ledger model (Mem.v): for EVERY failure oracle (no allocation
   fails, or any single attempt k fails) the object and value-array constructors never fault,
   a failed call leaves the heap exactly as it found it and returns a null pointer, a successful
   call adds only fresh blocks, and destroying the result releases exactly those blocks. *)
From Sbdf Require Import Mem BaseFacts.
From Coq Require Import ZifyBool.

Definition find (id : positive) (s : mst) : option node := PM.find id (mlive s).
Definition fresh_inv (s : mst) : Prop := forall id, (mnext s <= id)%positive -> find id s = None.
Definition mem (id : positive) (l : list positive) : bool := existsb (Pos.eqb id) l.
(* s' is s with the blocks `ids` released *)
Definition released (ids : list positive) (s s' : mst) : Prop :=
  forall id, find id s' = if mem id ids then None else find id s.
Definition same_heap (s s' : mst) : Prop := forall id, find id s' = find id s.

Lemma mem_in id l : mem id l = true <-> In id l.
Proof.
  unfold mem. rewrite existsb_exists. split.
  - intros (x & Hx & E). apply Pos.eqb_eq in E. now subst.
  - intros H. exists id. split; [exact H|apply Pos.eqb_refl].
Qed.

Lemma mem_false id l : mem id l = false <-> ~ In id l.
Proof. rewrite <- mem_in. destruct (mem id l); split; congruence. Qed.

(* ---- primitives ---- *)
Lemma alloc_spec n s : fresh_inv s ->
  (exists s', alloc n s = Val None s' /\ same_heap s s' /\ fresh_inv s' /\ mnext s' = mnext s /\ mfail s' = mfail s) \/
  (exists s', alloc n s = Val (Some (mnext s)) s' /\ find (mnext s) s' = Some n /\
              (forall id, id <> mnext s -> find id s' = find id s) /\ fresh_inv s' /\ mnext s' = Pos.succ (mnext s) /\ mfail s' = mfail s).
Proof.
  intros F. unfold alloc. destruct (match mfail s with Some k => Nat.eqb k (mallocs s) | None => false end).
  - left. eexists. split; [reflexivity|]. repeat split. exact F.
  - right. eexists. split; [reflexivity|]. unfold find. cbn [mlive mnext mfail]. split; [apply PM.gss|]. split.
    + intros id Hne. now apply PM.gso.
    + split; [|split; reflexivity]. unfold fresh_inv, find in *. cbn [mlive mnext]. intros id Hid. rewrite PM.gso by lia. apply F. lia.
Qed.

Lemma mfree_spec id s n : find id s = Some n -> fresh_inv s ->
  exists s', mfree (Some id) s = Val tt s' /\ released [id] s s' /\ fresh_inv s' /\ mnext s' = mnext s /\ mfail s' = mfail s.
Proof.
  intros H F. unfold mfree, lookup. unfold find in H. rewrite H. eexists. split; [reflexivity|]. split.
  - intros x. unfold find, remove. cbn [mlive mem existsb]. destruct (Pos.eqb x id) eqn:E.
    + apply Pos.eqb_eq in E. subst. cbn. apply PM.grs.
    + cbn. apply PM.gro. apply Pos.eqb_neq in E. exact E.
  - split; [|split; reflexivity]. unfold fresh_inv, find, remove in *. cbn [mlive mnext] in *. intros x Hx.
    destruct (Pos.eq_dec x id) as [->|Ne]; [apply PM.grs|rewrite PM.gro by exact Ne; now apply F].
Qed.

Lemma load_spec id s n : find id s = Some n -> load (Some id) s = Val n s.
Proof. intros H. unfold load, lookup. unfold find in H. now rewrite H. Qed.

Lemma store_spec id s n n' : find id s = Some n -> fresh_inv s ->
  exists s', store (Some id) n' s = Val tt s' /\ find id s' = Some n' /\ (forall x, x <> id -> find x s' = find x s) /\
             fresh_inv s' /\ mnext s' = mnext s /\ mfail s' = mfail s.
Proof.
  intros H F. unfold store, lookup. unfold find in H. rewrite H. eexists. split; [reflexivity|].
  unfold find, update. cbn [mlive mnext mfail]. split; [apply PM.gss|]. split; [intros x Hx; now apply PM.gso|].
  split; [|split; reflexivity]. unfold fresh_inv, find in *. cbn [mlive mnext]. intros x Hx. destruct (Pos.eq_dec x id) as [->|Ne].
  - specialize (F id Hx). congruence.
  - rewrite PM.gso by exact Ne. now apply F.
Qed.

(* ---- releasing the elements of an object ---- *)
Lemma destroy_elems_nulls k : forall n s, destroy_elems n (repeat None k) s = Val tt s.
Proof. induction n as [|n IH]; intros s; cbn [destroy_elems]; [reflexivity|]. destruct k; cbn [repeat]; apply IH. Qed.

Lemma released_trans a b s s1 s2 : released a s s1 -> released b s1 s2 -> released (a ++ b) s s2.
Proof.
  intros H1 H2 id. rewrite H2, H1. unfold mem. rewrite existsb_app.
  destruct (existsb (Pos.eqb id) b); [now rewrite orb_true_r|now rewrite orb_false_r].
Qed.

Lemma released_nil s : released [] s s.
Proof. intros id. reflexivity. Qed.

Lemma destroy_elems_spec ids : forall k s,
  fresh_inv s -> NoDup ids -> (forall e, In e ids -> find e s = Some NBytes) ->
  exists s', destroy_elems (length ids + k) (map Some ids ++ repeat None k) s = Val tt s' /\
             released ids s s' /\ fresh_inv s' /\ mnext s' = mnext s /\ mfail s' = mfail s.
Proof.
  induction ids as [|e ids IH]; intros k s F Hnd Hl.
  - cbn [length map app Nat.add]. rewrite destroy_elems_nulls. exists s. split; [reflexivity|]. split; [apply released_nil|]. split; [exact F|split; reflexivity].
  - cbn [length map app Nat.add destroy_elems]. inversion Hnd as [|? ? Hnin Hnd']. subst.
    destruct (mfree_spec e s NBytes (Hl e (or_introl eq_refl)) F) as (s1 & E1 & R1 & F1 & N1 & M1).
    unfold mbind. rewrite E1.
    destruct (IH k s1 F1 Hnd') as (s2 & E2 & R2 & F2 & N2 & M2).
    + intros x Hx. rewrite R1. cbn [mem existsb]. destruct (Pos.eqb x e) eqn:E; [apply Pos.eqb_eq in E; subst; contradiction|].
      cbn. apply Hl. now right.
    + exists s2. split; [exact E2|]. split; [apply (released_trans [e] ids s s1 s2 R1 R2)|]. split; [exact F2|split; congruence].
Qed.

(* ---- a well-formed object in the heap ---- *)
Definition obj_at (s : mst) (t : positive) (ty : Z) (count : nat) (blocks : list positive) : Prop :=
  if is_arr ty then
    exists d elems, blocks = t :: d :: elems /\ length elems = count /\ NoDup blocks /\
      find t s = Some (NObj ty count (Some d)) /\ find d s = Some (NPtrs (map Some elems)) /\
      (forall e, In e elems -> find e s = Some NBytes)
  else
    exists d, blocks = [t; d] /\ t <> d /\ find t s = Some (NObj ty count (Some d)) /\ find d s = Some NBytes.

(* the struct with no data yet: what obj_destroy meets on the early failure paths *)
Lemma obj_destroy_bare t ty count s : fresh_inv s -> find t s = Some (NObj ty count None) ->
  exists s', obj_destroy (Some t) s = Val tt s' /\ released [t] s s' /\ fresh_inv s' /\ mnext s' = mnext s /\ mfail s' = mfail s.
Proof.
  intros F H. unfold obj_destroy, mbind. rewrite (load_spec t s _ H). unfold mret.
  now apply mfree_spec with (n := NObj ty count None).
Qed.

Lemma released_find_other ids s s' x : released ids s s' -> ~ In x ids -> find x s' = find x s.
Proof. intros R H. rewrite R. apply mem_false in H. now rewrite H. Qed.

(* destroying a string/binary object under construction: `done` elements filled, k cells still null *)
Lemma obj_destroy_partial t d ty done k s :
  is_arr ty = true -> fresh_inv s -> NoDup (t :: d :: done) ->
  find t s = Some (NObj ty (length done + k) (Some d)) -> find d s = Some (NPtrs (map Some done ++ repeat None k)) ->
  (forall e, In e done -> find e s = Some NBytes) ->
  exists s', obj_destroy (Some t) s = Val tt s' /\ released (t :: d :: done) s s' /\ fresh_inv s' /\ mnext s' = mnext s /\ mfail s' = mfail s.
Proof.
  intros A F Hnd Ht Hd Hl. unfold obj_destroy, mbind. rewrite (load_spec t s _ Ht). rewrite A.
  rewrite (load_spec d s _ Hd).
  inversion Hnd as [|? ? Hnt Hnd1]. inversion Hnd1 as [|? ? Hndd Hnd2]. subst.
  destruct (destroy_elems_spec done k s F Hnd2 Hl) as (s1 & E1 & R1 & F1 & N1 & M1). rewrite E1.
  assert (Hd1 : find d s1 = Some (NPtrs (map Some done ++ repeat None k))) by (rewrite (released_find_other done s s1 d R1 Hndd); exact Hd).
  destruct (mfree_spec d s1 _ Hd1 F1) as (s2 & E2 & R2 & F2 & N2 & M2). rewrite E2.
  assert (Ht2 : find t s2 = Some (NObj ty (length done + k) (Some d))).
  { rewrite (released_find_other [d] s1 s2 t R2) by (intros [H|[]]; subst; apply Hnt; now left).
    rewrite (released_find_other done s s1 t R1) by (intros H; apply Hnt; now right). exact Ht. }
  destruct (mfree_spec t s2 _ Ht2 F2) as (s3 & E3 & R3 & F3 & N3 & M3). rewrite E3.
  exists s3. split; [reflexivity|]. split.
  - intros id. rewrite R3, R2, R1. cbn [mem existsb].
    destruct (Pos.eqb id t); [reflexivity|]. destruct (Pos.eqb id d); [reflexivity|]. cbn [orb]. reflexivity.
  - split; [exact F3|split; congruence].
Qed.

Lemma set_nth_app {A} (l : list A) x y r : set_nth (length l) x (l ++ y :: r) = Some (l ++ x :: r).
Proof. induction l as [|a l IH]; cbn [length app set_nth]; [reflexivity|]. now rewrite IH. Qed.

(* ---- filling the elements: success, or failure at any allocation with everything released ---- *)
Lemma fill_elems_spec n : forall i t d ty done s,
  is_arr ty = true -> fresh_inv s -> NoDup (t :: d :: done) -> length done = i ->
  find t s = Some (NObj ty (i + n) (Some d)) -> find d s = Some (NPtrs (map Some done ++ repeat None n)) ->
  (forall e, In e done -> find e s = Some NBytes) ->
  (forall e, In e (t :: d :: done) -> (e < mnext s)%positive) ->
  match fill_elems (Some t) (Some d) i n s with
  | Flt _ => False
  | Val st s' =>
    fresh_inv s' /\ mfail s' = mfail s /\
    ((st = SBDF_OK /\ exists new, length new = n /\ NoDup (t :: d :: done ++ new) /\
        find t s' = Some (NObj ty (i + n) (Some d)) /\ find d s' = Some (NPtrs (map Some (done ++ new))) /\
        (forall e, In e (done ++ new) -> find e s' = Some NBytes) /\
        (forall e, In e new -> (mnext s <= e)%positive) /\
        (forall x, x <> d -> ~ In x new -> find x s' = find x s)) \/
     (st = SBDF_ERROR_OUT_OF_MEMORY /\ released (t :: d :: done) s s'))
  end.
Proof.
  induction n as [|n IH]; intros i t d ty done s A F Hnd Hi Ht Hd Hl Hlt; cbn [fill_elems].
  - unfold mret. split; [exact F|]. split; [reflexivity|]. left. split; [reflexivity|]. exists [].
    cbn [repeat] in Hd. rewrite !app_nil_r in *.
    split; [reflexivity|]. split; [exact Hnd|]. split; [exact Ht|]. split; [exact Hd|]. split; [exact Hl|].
    split; [intros e []|intros x _ _; reflexivity].
  - unfold mbind. destruct (alloc_spec NBytes s F) as [(s1 & E1 & S1 & F1 & N1 & M1)|(s1 & E1 & G1 & O1 & F1 & N1 & M1)]; rewrite E1.
    + (* this allocation fails: destroy what exists *)
      assert (Ht1 : find t s1 = Some (NObj ty (length done + S n) (Some d))) by (rewrite S1, Hi; exact Ht).
      assert (Hd1 : find d s1 = Some (NPtrs (map Some done ++ repeat None (S n)))) by (rewrite S1; exact Hd).
      destruct (obj_destroy_partial t d ty done (S n) s1 A F1 Hnd Ht1 Hd1) as (s2 & E2 & R2 & F2 & N2 & M2).
      { intros e He. rewrite S1. now apply Hl. }
      rewrite E2. unfold mret. split; [exact F2|]. split; [congruence|]. right. split; [reflexivity|].
      intros id. rewrite R2, S1. reflexivity.
    + (* allocated: store it in cell i and go on *)
      set (e := mnext s) in *.
      assert (Hne_t : e <> t) by (specialize (Hlt t (or_introl eq_refl)); lia).
      assert (Hne_d : e <> d) by (specialize (Hlt d (or_intror (or_introl eq_refl))); lia).
      assert (Hnin : ~ In e done) by (intros H; specialize (Hlt e (or_intror (or_intror H))); lia).
      assert (Hd1 : find d s1 = Some (NPtrs (map Some done ++ repeat None (S n)))) by (rewrite O1 by congruence; exact Hd).
      rewrite (load_spec d s1 _ Hd1).
      assert (Hset : @set_nth ptr i (Some e) (map Some done ++ repeat None (S n)) = Some (map Some (done ++ [e]) ++ repeat None n)).
      { rewrite <- Hi, <- (map_length Some done). cbn [repeat]. rewrite set_nth_app. now rewrite map_app, <- app_assoc. }
      rewrite Hset.
      destruct (store_spec d s1 _ (NPtrs (map Some (done ++ [e]) ++ repeat None n)) Hd1 F1) as (s2 & E2 & G2 & O2 & F2 & N2 & M2).
      rewrite E2.
      specialize (IH (S i) t d ty (done ++ [e]) s2 A F2).
      assert (Hnd' : NoDup (t :: d :: done ++ [e])).
      { inversion Hnd as [|? ? Hnt Hnd1]. inversion Hnd1 as [|? ? Hndd Hnd2]. subst.
        constructor; [intros [H|H]; [subst; apply Hnt; now left|apply in_app_or in H; destruct H as [H|[H|[]]]; [apply Hnt; now right|congruence]]|].
        constructor; [intros H; apply in_app_or in H; destruct H as [H|[H|[]]]; [contradiction|congruence]|].
        apply NoDup_app_single; assumption. }
      destruct (fill_elems (Some t) (Some d) (S i) n s2) as [st s3|w] eqn:E3.
      * destruct IH as (F3 & M3 & IH); try assumption.
        -- rewrite app_length. cbn. lia.
        -- rewrite O2 by congruence. rewrite O1 by congruence. replace (S i + n)%nat with (i + S n)%nat by lia. exact Ht.
        -- intros x Hx. apply in_app_or in Hx. destruct Hx as [Hx|[<-|[]]].
           ++ rewrite O2 by (intros ->; inversion Hnd as [|? ? _ Hnd1]; inversion Hnd1; contradiction).
              rewrite O1 by (intros ->; contradiction). now apply Hl.
           ++ rewrite O2 by exact Hne_d. exact G1.
        -- intros x Hx. rewrite N2, N1. destruct Hx as [<-|[<-|Hx]]; [specialize (Hlt t (or_introl eq_refl)); lia|specialize (Hlt d (or_intror (or_introl eq_refl))); lia|].
           apply in_app_or in Hx. destruct Hx as [Hx|[<-|[]]]; [specialize (Hlt x (or_intror (or_intror Hx))); lia|unfold e; lia].
        -- split; [exact F3|]. split; [congruence|]. destruct IH as [(-> & new & L & Nd & T3 & D3 & B3 & Fr & Ot)|(-> & R3)].
           ++ left. split; [reflexivity|]. exists (e :: new). rewrite <- app_assoc in *. cbn [app] in *.
              split; [cbn; lia|]. split; [exact Nd|]. split; [replace (i + S n)%nat with (S i + n)%nat by lia; exact T3|].
              split; [exact D3|]. split; [exact B3|]. split.
              ** intros x [<-|Hx]; [unfold e; lia|]. specialize (Fr x Hx). rewrite N2, N1 in Fr. lia.
              ** intros x Hxd Hxn. rewrite Ot; [|exact Hxd|intros H; apply Hxn; now right].
                 rewrite O2 by exact Hxd. apply O1. intros ->. apply Hxn. now left.
           ++ right. split; [reflexivity|]. intros id. rewrite R3.
              cbn [mem existsb]. unfold mem. rewrite existsb_app. cbn [existsb].
              destruct (Pos.eqb id t) eqn:Et; [reflexivity|]. destruct (Pos.eqb id d) eqn:Ed; [reflexivity|]. cbn [orb].
              destruct (existsb (Pos.eqb id) done) eqn:Eo; [reflexivity|]. cbn [orb]. rewrite orb_false_r.
              destruct (Pos.eqb id e) eqn:Ee.
              ** apply Pos.eqb_eq in Ee. subst id. symmetry. apply F. unfold e. lia.
              ** apply Pos.eqb_neq in Ed. apply Pos.eqb_neq in Ee. rewrite O2 by exact Ed. now apply O1.
      * apply IH; try assumption.
        -- rewrite app_length. cbn. lia.
        -- rewrite O2 by congruence. rewrite O1 by congruence. replace (S i + n)%nat with (i + S n)%nat by lia. exact Ht.
        -- intros x Hx. apply in_app_or in Hx. destruct Hx as [Hx|[<-|[]]].
           ++ rewrite O2 by (intros ->; inversion Hnd as [|? ? _ Hnd1]; inversion Hnd1; contradiction).
              rewrite O1 by (intros ->; contradiction). now apply Hl.
           ++ rewrite O2 by exact Hne_d. exact G1.
        -- intros x Hx. rewrite N2, N1. destruct Hx as [<-|[<-|Hx]]; [specialize (Hlt t (or_introl eq_refl)); lia|specialize (Hlt d (or_intror (or_introl eq_refl))); lia|].
           apply in_app_or in Hx. destruct Hx as [Hx|[<-|[]]]; [specialize (Hlt x (or_intror (or_intror Hx))); lia|unfold e; lia].
Qed.

(* ---- sbdf_obj_destroy releases exactly the blocks of a well-formed object ---- *)
Theorem obj_destroy_spec s t ty count blocks : fresh_inv s -> obj_at s t ty count blocks ->
  exists s', obj_destroy (Some t) s = Val tt s' /\ released blocks s s' /\ fresh_inv s' /\ mnext s' = mnext s /\ mfail s' = mfail s.
Proof.
  intros F H. unfold obj_at in H. destruct (is_arr ty) eqn:A.
  - destruct H as (d & elems & -> & L & Hnd & Ht & Hd & Hl).
    apply (obj_destroy_partial t d ty elems 0 s A F Hnd); [rewrite Nat.add_0_r, L; exact Ht|cbn [repeat]; rewrite app_nil_r; exact Hd|exact Hl].
  - destruct H as (d & -> & Hne & Ht & Hd).
    unfold obj_destroy, mbind. rewrite (load_spec t s _ Ht). rewrite A. unfold mret.
    destruct (mfree_spec d s _ Hd F) as (s1 & E1 & R1 & F1 & N1 & M1). rewrite E1.
    assert (Ht1 : find t s1 = Some (NObj ty count (Some d))) by (rewrite (released_find_other [d] s s1 t R1) by (intros [H|[]]; congruence); exact Ht).
    destruct (mfree_spec t s1 _ Ht1 F1) as (s2 & E2 & R2 & F2 & N2 & M2). rewrite E2.
    exists s2. split; [reflexivity|]. split.
    + intros id. rewrite R2, R1. cbn [mem existsb]. destruct (Pos.eqb id t); [reflexivity|]. destruct (Pos.eqb id d); reflexivity.
    + split; [exact F2|split; congruence].
Qed.

Definition all_fresh (s : mst) (blocks : list positive) : Prop := forall b, In b blocks -> (mnext s <= b)%positive.

(* ---- the constructor skeleton (sbdf_obj_create_arr, sbdf_obj_copy, sbdf_read_objects) ---- *)
Theorem obj_build_spec ty count s : fresh_inv s ->
  match obj_build ty count s with
  | Flt _ => False
  | Val (st, p) s' =>
    fresh_inv s' /\ mfail s' = mfail s /\
    ((st = SBDF_OK /\ exists t blocks, p = Some t /\ obj_at s' t ty count blocks /\ all_fresh s blocks /\
        (forall x, ~ In x blocks -> find x s' = find x s)) \/
     (st <> SBDF_OK /\ p = None /\ same_heap s s'))
  end.
Proof.
  intros F. unfold obj_build, mbind.
  destruct (alloc_spec (NObj ty count None) s F) as [(s1 & E1 & S1 & F1 & N1 & M1)|(s1 & E1 & G1 & O1 & F1 & N1 & M1)]; rewrite E1.
  { unfold mret. split; [exact F1|]. split; [exact M1|]. right. split; [discriminate|]. split; [reflexivity|exact S1]. }
  set (t := mnext s) in *.
  destruct (is_arr ty) eqn:A.
  - destruct (alloc_spec (NPtrs (repeat None count)) s1 F1) as [(s2 & E2 & S2 & F2 & N2 & M2)|(s2 & E2 & G2 & O2 & F2 & N2 & M2)]; rewrite E2.
    + assert (Ht2 : find t s2 = Some (NObj ty count None)) by (rewrite S2; exact G1).
      destruct (obj_destroy_bare t ty count s2 F2 Ht2) as (s3 & E3 & R3 & F3 & N3 & M3). rewrite E3. unfold mret.
      split; [exact F3|]. split; [congruence|]. right. split; [discriminate|]. split; [reflexivity|].
      intros id. rewrite R3, S2. cbn [mem existsb]. destruct (Pos.eqb id t) eqn:Et.
      * apply Pos.eqb_eq in Et. subst id. cbn. symmetry. apply F. unfold t. lia.
      * cbn. apply O1. now apply Pos.eqb_neq.
    + set (d := mnext s1) in *. assert (Hdt : d <> t) by (unfold d, t; lia).
      assert (Ht2 : find t s2 = Some (NObj ty count None)) by (rewrite O2 by congruence; exact G1).
      destruct (store_spec t s2 _ (NObj ty count (Some d)) Ht2 F2) as (s3 & E3 & G3 & O3 & F3 & N3 & M3). rewrite E3.
      pose proof (fill_elems_spec count 0 t d ty [] s3 A F3) as FE.
      destruct (fill_elems (Some t) (Some d) 0 count s3) as [st s4|w] eqn:E4.
      * destruct FE as (F4 & M4 & FE).
        -- constructor; [intros [H|[]]; congruence|constructor; [intros []|constructor]].
        -- reflexivity.
        -- exact G3.
        -- rewrite O3 by exact Hdt. exact G2.
        -- intros e [].
        -- intros e He. rewrite N3, N2. destruct He as [He|[He|[]]]; rewrite <- He; [rewrite N1; unfold t; lia|lia].
        -- destruct FE as [(-> & new & L & Nd & T4 & D4 & B4 & Fr & Ot)|(-> & R4)].
           ++ rewrite Z.eqb_refl. unfold mret. split; [exact F4|]. split; [congruence|]. left. split; [reflexivity|].
              exists t, (t :: d :: new). split; [reflexivity|]. split.
              ** unfold obj_at. rewrite A. exists d, new. cbn [app] in *. repeat split; try assumption; try reflexivity.
              ** split.
                 --- intros b Hb. destruct Hb as [Hb|[Hb|Hb]]; [rewrite <- Hb; unfold t; lia|rewrite <- Hb; rewrite N1; unfold t; lia|].
                     specialize (Fr b Hb). rewrite N3, N2, N1 in Fr. lia.
                 --- intros x Hx. assert (x <> t /\ x <> d /\ ~ In x new) by (repeat split; intros H; apply Hx; [now left|right; now left|right; now right]).
                     destruct H as (H1 & H2 & H3). rewrite Ot by assumption. rewrite O3 by exact H1. rewrite O2 by exact H2. now apply O1.
           ++ change (SBDF_ERROR_OUT_OF_MEMORY =? SBDF_OK) with false. unfold mret.
              split; [exact F4|]. split; [congruence|]. right. split; [discriminate|]. split; [reflexivity|].
              intros id. rewrite R4. cbn [mem existsb]. destruct (Pos.eqb id t) eqn:Et.
              ** apply Pos.eqb_eq in Et. subst id. symmetry. apply F. unfold t. lia.
              ** destruct (Pos.eqb id d) eqn:Ed.
                 --- apply Pos.eqb_eq in Ed. subst id. cbn. symmetry. apply F. rewrite N1. unfold t. lia.
                 --- cbn. apply Pos.eqb_neq in Et. apply Pos.eqb_neq in Ed. rewrite O3 by exact Et. rewrite O2 by exact Ed. now apply O1.
      * apply FE.
        -- constructor; [intros [H|[]]; congruence|constructor; [intros []|constructor]].
        -- reflexivity.
        -- exact G3.
        -- rewrite O3 by exact Hdt. exact G2.
        -- intros e [].
        -- intros e He. rewrite N3, N2. destruct He as [He|[He|[]]]; rewrite <- He; [rewrite N1; unfold t; lia|lia].
  - assert (Bare : forall stx, stx <> SBDF_OK ->
        match (obj_destroy (Some t);;m mret (stx, @None positive)) s1 with
        | Flt _ => False
        | Val (st, p) s' => fresh_inv s' /\ mfail s' = mfail s /\
            ((st = SBDF_OK /\ exists t0 blocks, p = Some t0 /\ obj_at s' t0 ty count blocks /\ all_fresh s blocks /\ (forall x, ~ In x blocks -> find x s' = find x s)) \/
             (st <> SBDF_OK /\ p = None /\ same_heap s s'))
        end).
    { intros stx Hst. unfold mbind. destruct (obj_destroy_bare t ty count s1 F1 G1) as (s3 & E3 & R3 & F3 & N3 & M3). rewrite E3. unfold mret.
      split; [exact F3|]. split; [congruence|]. right. split; [exact Hst|]. split; [reflexivity|].
      intros id. rewrite R3. cbn [mem existsb]. destruct (Pos.eqb id t) eqn:Et.
      - apply Pos.eqb_eq in Et. subst id. cbn. symmetry. apply F. unfold t. lia.
      - cbn. apply O1. now apply Pos.eqb_neq. }
    destruct (usize ty <? 0) eqn:C1; [apply Bare; unfold SBDF_OK; lia|].
    destruct (usize ty =? 0) eqn:C2; [apply Bare; discriminate|].
    destruct (alloc_spec NBytes s1 F1) as [(s2 & E2 & S2 & F2 & N2 & M2)|(s2 & E2 & G2 & O2 & F2 & N2 & M2)]; rewrite E2.
    + assert (Ht2 : find t s2 = Some (NObj ty count None)) by (rewrite S2; exact G1).
      destruct (obj_destroy_bare t ty count s2 F2 Ht2) as (s3 & E3 & R3 & F3 & N3 & M3). rewrite E3. unfold mret.
      split; [exact F3|]. split; [congruence|]. right. split; [discriminate|]. split; [reflexivity|].
      intros id. rewrite R3, S2. cbn [mem existsb]. destruct (Pos.eqb id t) eqn:Et.
      * apply Pos.eqb_eq in Et. subst id. cbn. symmetry. apply F. unfold t. lia.
      * cbn. apply O1. now apply Pos.eqb_neq.
    + set (d := mnext s1) in *. assert (Hdt : d <> t) by (unfold d, t; lia).
      assert (Ht2 : find t s2 = Some (NObj ty count None)) by (rewrite O2 by congruence; exact G1).
      destruct (store_spec t s2 _ (NObj ty count (Some d)) Ht2 F2) as (s3 & E3 & G3 & O3 & F3 & N3 & M3). rewrite E3. unfold mret.
      split; [exact F3|]. split; [congruence|]. left. split; [reflexivity|]. exists t, [t; d]. split; [reflexivity|]. split.
      * unfold obj_at. rewrite A. exists d. split; [reflexivity|]. split; [congruence|]. split; [exact G3|]. rewrite O3 by exact Hdt. exact G2.
      * split.
        -- intros b Hb. destruct Hb as [Hb|[Hb|[]]]; [rewrite <- Hb; unfold t; lia|rewrite <- Hb; rewrite N1; unfold t; lia].
        -- intros x Hx. assert (x <> t /\ x <> d) by (split; intros H; apply Hx; [now left|right; now left]).
           destruct H as (H1 & H2). rewrite O3 by exact H1. rewrite O2 by exact H2. now apply O1.
Qed.

(* C12/C14 for objects: whatever the oracle, construct-then-destroy leaves the heap as it was, and a
   failed construction leaves it as it was without anything to destroy *)
Corollary obj_build_destroy ty count s : fresh_inv s ->
  match obj_build ty count s with
  | Flt _ => False
  | Val (st, p) s1 =>
    match obj_destroy p s1 with
    | Flt _ => False
    | Val _ s2 => same_heap s s2 /\ (st <> SBDF_OK -> p = None /\ same_heap s s1)
    end
  end.
Proof.
  intros F. pose proof (obj_build_spec ty count s F) as H.
  destruct (obj_build ty count s) as [[st p] s1|w]; [|exact H].
  destruct H as (F1 & M1 & [(-> & t & blocks & -> & Hat & Hfr & Hoth)|(Hst & -> & S1)]).
  - destruct (obj_destroy_spec s1 t ty count blocks F1 Hat) as (s2 & E2 & R2 & F2 & N2 & M2). rewrite E2.
    split; [|intros H; contradiction]. intros id. rewrite R2. destruct (mem id blocks) eqn:Em.
    + apply mem_in in Em. symmetry. apply F. now apply Hfr.
    + apply mem_false in Em. now apply Hoth.
  - cbn [obj_destroy]. unfold mret. split; [exact S1|]. intros _. split; [reflexivity|exact S1].
Qed.

(* sbdf_obj_copy: the copy consists of fresh blocks only (storage independent of the source), and
   the source is untouched *)
Theorem obj_copy_spec s src ty count blocks : fresh_inv s -> obj_at s src ty count blocks ->
  match obj_copy_m (Some src) s with
  | Flt _ => False
  | Val (st, p) s' =>
    fresh_inv s' /\
    ((st = SBDF_OK /\ exists t cblocks, p = Some t /\ obj_at s' t ty count cblocks /\ all_fresh s cblocks /\
        (forall b, In b blocks -> ~ In b cblocks) /\ obj_at s' src ty count blocks /\
        (forall x, ~ In x cblocks -> find x s' = find x s)) \/
     (st <> SBDF_OK /\ p = None /\ same_heap s s'))
  end.
Proof.
  intros F H.
  assert (Hsrc : exists data, find src s = Some (NObj ty count data)).
  { unfold obj_at in H. destruct (is_arr ty); [destruct H as (d & el & _ & _ & _ & Ht & _)|destruct H as (d & _ & _ & Ht & _)]; eauto. }
  destruct Hsrc as (data & Hsrc). unfold obj_copy_m, mbind. rewrite (load_spec src s _ Hsrc).
  pose proof (obj_build_spec ty count s F) as B.
  destruct (obj_build ty count s) as [[st p] s'|w]; [|exact B].
  destruct B as (F' & M' & [(-> & t & cb & -> & Hat & Hfr & Hoth)|(Hst & -> & S')]).
  - split; [exact F'|]. left. split; [reflexivity|]. exists t, cb. split; [reflexivity|]. split; [exact Hat|]. split; [exact Hfr|].
    assert (Hold : forall b, In b blocks -> (b < mnext s)%positive).
    { intros b Hb. destruct (Pos.ltb b (mnext s)) eqn:E; [now apply Pos.ltb_lt|]. exfalso. apply Pos.ltb_ge in E.
      specialize (F b E). unfold obj_at in H. destruct (is_arr ty).
      - destruct H as (d & el & -> & _ & _ & Ht & Hd & Hl). destruct Hb as [<-|[<-|Hb]]; [congruence|congruence|]. rewrite (Hl b Hb) in F. discriminate.
      - destruct H as (d & -> & _ & Ht & Hd). destruct Hb as [<-|[<-|[]]]; congruence. }
    assert (Hdis : forall b, In b blocks -> ~ In b cb) by (intros b Hb Hc; specialize (Hold b Hb); specialize (Hfr b Hc); lia).
    split; [exact Hdis|]. split; [|exact Hoth].
    unfold obj_at in *. destruct (is_arr ty).
    + destruct H as (d & el & -> & L & Nd & Ht & Hd & Hl). exists d, el. repeat split; try assumption;
        try (rewrite Hoth; [assumption|apply Hdis; cbn; auto]).
      intros e He. rewrite Hoth; [now apply Hl|apply Hdis; right; right; exact He].
    + destruct H as (d & -> & Hne & Ht & Hd). exists d. repeat split; try assumption; rewrite Hoth; try assumption; apply Hdis; cbn; auto.
  - split; [exact F'|]. right. split; [exact Hst|]. split; [reflexivity|exact S'].
Qed.

(* ---- value arrays (plain encoding) ---- *)
Definition va_at (s : mst) (h : positive) (ty : Z) (count : nat) (blocks : list positive) : Prop :=
  exists o oblocks, blocks = h :: oblocks /\ ~ In h oblocks /\ find h s = Some (NVa (Some o) None) /\ obj_at s o ty count oblocks.

Lemma obj_at_preserved s s' t ty count blocks :
  (forall b, In b blocks -> find b s' = find b s) -> obj_at s t ty count blocks -> obj_at s' t ty count blocks.
Proof.
  intros H. unfold obj_at. destruct (is_arr ty).
  - intros (d & el & -> & L & Nd & Ht & Hd & Hl). exists d, el. repeat split; try assumption.
    + rewrite H by (now left). exact Ht.
    + rewrite H by (right; now left). exact Hd.
    + intros e He. rewrite H by (right; right; exact He). now apply Hl.
  - intros (d & -> & Hne & Ht & Hd). exists d. repeat split; try assumption; rewrite H; try assumption; cbn; auto.
Qed.

Lemma obj_at_blocks_live s t ty count blocks b : obj_at s t ty count blocks -> In b blocks -> find b s <> None.
Proof.
  unfold obj_at. destruct (is_arr ty).
  - intros (d & el & -> & _ & _ & Ht & Hd & Hl) [<-|[<-|Hb]]; [congruence|congruence|rewrite (Hl b Hb); discriminate].
  - intros (d & -> & _ & Ht & Hd) [<-|[<-|[]]]; congruence.
Qed.

Lemma blocks_below_next s t ty count blocks : fresh_inv s -> obj_at s t ty count blocks -> forall b, In b blocks -> (b < mnext s)%positive.
Proof.
  intros F H b Hb. destruct (Pos.ltb b (mnext s)) eqn:E; [now apply Pos.ltb_lt|]. exfalso. apply Pos.ltb_ge in E.
  apply (obj_at_blocks_live s t ty count blocks b H Hb). now apply F.
Qed.

(* sbdf_va_create_plain: for every oracle, either a value array made of fresh blocks only (it owns
   a copy: the source object is untouched and shares nothing with it), or an error with a null
   handle and the heap as before *)
Theorem va_create_plain_spec s src ty count blocks : fresh_inv s -> obj_at s src ty count blocks ->
  match va_create_plain_m (Some src) s with
  | Flt _ => False
  | Val (st, p) s' =>
    fresh_inv s' /\
    ((st = SBDF_OK /\ exists h vblocks, p = Some h /\ va_at s' h ty count vblocks /\ all_fresh s vblocks /\
        (forall b, In b blocks -> ~ In b vblocks) /\ obj_at s' src ty count blocks /\
        (forall x, ~ In x vblocks -> find x s' = find x s)) \/
     (st <> SBDF_OK /\ p = None /\ same_heap s s'))
  end.
Proof.
  intros F H. unfold va_create_plain_m, mbind.
  destruct (alloc_spec (NVa None None) s F) as [(s1 & E1 & S1 & F1 & N1 & M1)|(s1 & E1 & G1 & O1 & F1 & N1 & M1)]; rewrite E1.
  { unfold mret. split; [exact F1|]. right. split; [discriminate|]. split; [reflexivity|exact S1]. }
  set (h := mnext s) in *.
  pose proof (blocks_below_next s src ty count blocks F H) as Hold.
  assert (H1 : obj_at s1 src ty count blocks).
  { apply (obj_at_preserved s s1); [|exact H]. intros b Hb. apply O1. specialize (Hold b Hb). unfold h. lia. }
  pose proof (obj_copy_spec s1 src ty count blocks F1 H1) as C.
  destruct (obj_copy_m (Some src) s1) as [[st c] s2|w]; [|exact C].
  destruct C as (F2 & [(-> & t & cb & -> & Hat & Hfr & Hdis & Hsrc & Hfrm)|(Hst & -> & S2)]).
  - rewrite Z.eqb_refl.
    assert (Hhcb : ~ In h cb) by (intros Hin; specialize (Hfr h Hin); rewrite N1 in Hfr; unfold h in Hfr; lia).
    assert (Hh2 : find h s2 = Some (NVa None None)) by (rewrite Hfrm by exact Hhcb; exact G1).
    destruct (store_spec h s2 _ (NVa (Some t) None) Hh2 F2) as (s3 & E3 & G3 & O3 & F3 & N3 & M3). rewrite E3. unfold mret.
    split; [exact F3|]. left. split; [reflexivity|]. exists h, (h :: cb). split; [reflexivity|].
    assert (Keep : forall b, b <> h -> find b s3 = find b s2) by exact O3.
    split; [|split; [|split; [|split]]].
    + exists t, cb. split; [reflexivity|]. split; [exact Hhcb|]. split; [exact G3|].
      apply (obj_at_preserved s2 s3); [|exact Hat]. intros b Hb. apply Keep. intros ->. contradiction.
    + intros b [<-|Hb]; [unfold h; lia|]. specialize (Hfr b Hb). rewrite N1 in Hfr. unfold h. lia.
    + intros b Hb [<-|Hc]; [specialize (Hold h Hb); unfold h in Hold; lia|now apply (Hdis b Hb)].
    + apply (obj_at_preserved s2 s3); [|exact Hsrc]. intros b Hb. apply Keep. intros ->. specialize (Hold h Hb). unfold h in Hold. lia.
    + intros x Hx. assert (x <> h /\ ~ In x cb) by (split; intros Hc; apply Hx; [now left|now right]). destruct H0 as (Hxh & Hxc).
      rewrite Keep by exact Hxh. rewrite Hfrm by exact Hxc. now apply O1.
  - destruct (st =? SBDF_OK) eqn:E; [apply Z.eqb_eq in E; contradiction|].
    assert (Hh2 : find h s2 = Some (NVa None None)) by (rewrite S2; exact G1).
    destruct (mfree_spec h s2 _ Hh2 F2) as (s3 & E3 & R3 & F3 & N3 & M3). rewrite E3. unfold mret.
    split; [exact F3|]. right. split; [exact Hst|]. split; [reflexivity|].
    intros id. rewrite R3, S2. cbn [mem existsb]. destruct (Pos.eqb id h) eqn:Eh.
    + apply Pos.eqb_eq in Eh. subst id. cbn. symmetry. apply F. unfold h. lia.
    + cbn. apply O1. now apply Pos.eqb_neq.
Qed.

(* sbdf_va_destroy releases exactly the blocks of the value array *)
Theorem va_destroy_spec s h ty count blocks : fresh_inv s -> va_at s h ty count blocks ->
  exists s', va_destroy (Some h) s = Val tt s' /\ released blocks s s' /\ fresh_inv s'.
Proof.
  intros F (o & ob & -> & Hnin & Hh & Hat). unfold va_destroy, mbind. rewrite (load_spec h s _ Hh).
  destruct (obj_destroy_spec s o ty count ob F Hat) as (s1 & E1 & R1 & F1 & N1 & M1). rewrite E1.
  cbn [obj_destroy]. unfold mret.
  assert (Hh1 : find h s1 = Some (NVa (Some o) None)) by (rewrite (released_find_other ob s s1 h R1 Hnin); exact Hh).
  destruct (mfree_spec h s1 _ Hh1 F1) as (s2 & E2 & R2 & F2 & N2 & M2). rewrite E2.
  exists s2. split; [reflexivity|]. split; [|exact F2].
  intros id. rewrite R2, R1. cbn [mem existsb]. destruct (Pos.eqb id h); reflexivity.
Qed.

(* sbdf_va_get_values (plain): the result is a copy in fresh blocks; the array is untouched *)
Theorem va_get_values_plain_spec s h ty count blocks : fresh_inv s -> va_at s h ty count blocks ->
  match va_get_values_plain_m (Some h) s with
  | Flt _ => False
  | Val (st, p) s' =>
    fresh_inv s' /\
    ((st = SBDF_OK /\ exists t cb, p = Some t /\ obj_at s' t ty count cb /\ all_fresh s cb /\
        (forall b, In b blocks -> ~ In b cb) /\ va_at s' h ty count blocks) \/
     (st <> SBDF_OK /\ p = None /\ same_heap s s'))
  end.
Proof.
  intros F (o & ob & -> & Hnin & Hh & Hat). unfold va_get_values_plain_m, mbind. rewrite (load_spec h s _ Hh).
  pose proof (obj_copy_spec s o ty count ob F Hat) as C.
  destruct (obj_copy_m (Some o) s) as [[st c] s'|w]; [|exact C].
  destruct C as (F' & [(-> & t & cb & -> & Hat' & Hfr & Hdis & Hsrc & Hfrm)|(Hst & -> & S')]).
  - split; [exact F'|]. left. split; [reflexivity|]. exists t, cb. split; [reflexivity|]. split; [exact Hat'|]. split; [exact Hfr|].
    assert (Hhcb : ~ In h cb).
    { intros Hin. specialize (Hfr h Hin). assert (find h s = None) by (apply F; exact Hfr). congruence. }
    split.
    + intros b [<-|Hb]; [exact Hhcb|now apply Hdis].
    + exists o, ob. split; [reflexivity|]. split; [exact Hnin|]. split; [rewrite Hfrm by exact Hhcb; exact Hh|exact Hsrc].
  - split; [exact F'|]. right. split; [exact Hst|]. split; [reflexivity|exact S'].
Qed.

(* the initial heap satisfies the invariant *)
Lemma fresh_inv_init fail : fresh_inv (mst0 fail).
Proof. intros id _. unfold find, mst0. cbn [mlive]. apply PM.gempty. Qed.

(* ---- the primitives once more, as equations on `find` (convenient for straight-line code) ---- *)
Lemma alloc_eq n s : fresh_inv s ->
  (exists s', alloc n s = Val None s' /\ (forall id, find id s' = find id s) /\ fresh_inv s' /\ mnext s' = mnext s) \/
  (exists s', alloc n s = Val (Some (mnext s)) s' /\ (forall id, find id s' = if Pos.eqb id (mnext s) then Some n else find id s) /\
              fresh_inv s' /\ mnext s' = Pos.succ (mnext s)).
Proof.
  intros F. destruct (alloc_spec n s F) as [(s' & E & S & F' & N & _)|(s' & E & G & O & F' & N & _)].
  - left. exists s'. auto.
  - right. exists s'. split; [exact E|]. split; [|auto]. intros id. destruct (Pos.eqb_spec id (mnext s)) as [->|Ne]; [exact G|now apply O].
Qed.

Lemma mfree_eq x s n : find x s = Some n -> fresh_inv s ->
  exists s', mfree (Some x) s = Val tt s' /\ (forall id, find id s' = if Pos.eqb id x then None else find id s) /\ fresh_inv s' /\ mnext s' = mnext s.
Proof.
  intros H F. destruct (mfree_spec x s n H F) as (s' & E & R & F' & N & _). exists s'. split; [exact E|]. split; [|auto].
  intros id. rewrite R. cbn [mem existsb]. now rewrite orb_false_r.
Qed.

Lemma store_eq x s n n' : find x s = Some n -> fresh_inv s ->
  exists s', store (Some x) n' s = Val tt s' /\ (forall id, find id s' = if Pos.eqb id x then Some n' else find id s) /\ fresh_inv s' /\ mnext s' = mnext s.
Proof.
  intros H F. destruct (store_spec x s n n' H F) as (s' & E & G & O & F' & N & _). exists s'. split; [exact E|]. split; [|auto].
  intros id. destruct (Pos.eqb_spec id x) as [->|Ne]; [exact G|now apply O].
Qed.

Ltac peq := rewrite ?Pos.eqb_refl;
  repeat match goal with |- context [Pos.eqb ?a ?b] => destruct (Pos.eqb_spec a b); [try (exfalso; lia)|] end.

(* sbdf_va_create_bit: for every oracle, either a bit array made of fresh blocks only (handle, byte-array
   object, its data block, the bytes), the scratch buffer gone, the source untouched - or an error, a
   null handle and the heap as before *)
Theorem va_create_bit_spec s src ty count blocks : fresh_inv s -> obj_at s src ty count blocks ->
  match va_create_bit_m (Some src) s with
  | Flt _ => False
  | Val (st, p) s' =>
    fresh_inv s' /\
    ((st = SBDF_OK /\ exists h vblocks, p = Some h /\ va_at s' h SBDF_BINARYTYPEID 1 vblocks /\ all_fresh s vblocks /\
        (forall x, ~ In x vblocks -> find x s' = find x s)) \/
     (st <> SBDF_OK /\ p = None /\ same_heap s s'))
  end.
Proof.
  intros F H. unfold va_create_bit_m, mbind.
  assert (Hsrc : exists dd, find src s = Some (NObj ty count dd)).
  { unfold obj_at in H. destruct (is_arr ty); [destruct H as (d & el & _ & _ & _ & Ht & _)|destruct H as (d & _ & _ & Ht & _)]; eauto. }
  destruct Hsrc as (dd & Hsrc). rewrite (load_spec src s _ Hsrc).
  set (h := mnext s).
  assert (Fh : forall id, (h <= id)%positive -> find id s = None) by exact F.
  destruct (alloc_eq (NVa None None) s F) as [(s1 & E1 & Q1 & F1 & N1)|(s1 & E1 & Q1 & F1 & N1)]; rewrite E1.
  { unfold mret. split; [exact F1|]. right. split; [discriminate|]. split; [reflexivity|exact Q1]. }
  fold h in Q1, N1. fold h.
  assert (Hh1 : find h s1 = Some (NVa None None)) by (rewrite Q1, Pos.eqb_refl; reflexivity).
  (* the two early refusals *)
  assert (Early : forall st0, st0 <> SBDF_OK ->
    match (mfree (Some h) ;;m mret (st0, @None positive)) s1 with
    | Flt _ => False
    | Val (st, p) s' => fresh_inv s' /\ ((st = SBDF_OK /\ exists h0 vblocks, p = Some h0 /\ va_at s' h0 SBDF_BINARYTYPEID 1 vblocks /\ all_fresh s vblocks /\
        (forall x, ~ In x vblocks -> find x s' = find x s)) \/ (st <> SBDF_OK /\ p = None /\ same_heap s s'))
    end).
  { intros st0 Hst0. unfold mbind. destruct (mfree_eq h s1 _ Hh1 F1) as (s2 & E2 & Q2 & F2 & N2). rewrite E2. unfold mret.
    split; [exact F2|]. right. split; [exact Hst0|]. split; [reflexivity|]. intros id. rewrite Q2, Q1.
    destruct (Pos.eqb_spec id h) as [->|Ne]; [symmetry; apply Fh; lia|reflexivity]. }
  set (sz := if is_arr ty then 8 else usize ty).
  destruct (sz <? 0) eqn:Esz; [apply Early; unfold SBDF_OK; lia|].
  destruct (sz =? 0) eqn:Esz0; [apply Early; discriminate|].
  clear Early.
  (* the scratch buffer *)
  set (o := Pos.succ h) in *.
  destruct (alloc_eq NBytes s1 F1) as [(s2 & E2 & Q2 & F2 & N2)|(s2 & E2 & Q2 & F2 & N2)]; rewrite E2; cbv beta iota; rewrite N1 in *.
  { assert (Hh2 : find h s2 = Some (NVa None None)) by (rewrite Q2; exact Hh1).
    destruct (mfree_eq h s2 _ Hh2 F2) as (s3 & E3 & Q3 & F3 & N3). rewrite E3. unfold mret.
    split; [exact F3|]. right. split; [discriminate|]. split; [reflexivity|]. intros id. rewrite Q3, Q2, Q1.
    destruct (Pos.eqb_spec id h) as [->|Ne]; [symmetry; apply Fh; lia|reflexivity]. }
  fold o in Q2. fold o.
  (* the object struct *)
  set (t := Pos.succ o) in *.
  destruct (alloc_eq (NObj SBDF_BINARYTYPEID 0 None) s2 F2) as [(s3 & E3 & Q3 & F3 & N3)|(s3 & E3 & Q3 & F3 & N3)]; rewrite E3; cbv beta iota; rewrite N2 in *.
  { assert (Ho3 : find o s3 = Some NBytes) by (rewrite Q3, Q2, Pos.eqb_refl; reflexivity).
    destruct (mfree_eq o s3 _ Ho3 F3) as (s4 & E4 & Q4 & F4 & N4). rewrite E4.
    assert (Hh4 : find h s4 = Some (NVa None None)).
    { rewrite Q4, Q3, Q2, Q1. destruct (Pos.eqb_spec h o) as [Eq|_]; [unfold o in Eq; lia|]. now rewrite Pos.eqb_refl. }
    destruct (mfree_eq h s4 _ Hh4 F4) as (s5 & E5 & Q5 & F5 & N5). rewrite E5. unfold mret.
    split; [exact F5|]. right. split; [discriminate|]. split; [reflexivity|]. intros id. rewrite Q5, Q4, Q3, Q2, Q1.
    destruct (Pos.eqb_spec id h) as [->|Ne]; [symmetry; apply Fh; lia|]. destruct (Pos.eqb_spec id o) as [->|Ne2]; [symmetry; apply Fh; unfold o; lia|reflexivity]. }
  fold t in Q3. fold t.
  (* its data block *)
  set (d := Pos.succ t) in *.
  destruct (alloc_eq (NPtrs [None]) s3 F3) as [(s4 & E4 & Q4 & F4 & N4)|(s4 & E4 & Q4 & F4 & N4)]; rewrite E4; cbv beta iota; rewrite N3 in *.
  { assert (Ho : find o s4 = Some NBytes) by (rewrite Q4, Q3, Q2; unfold t, o; peq; reflexivity).
    destruct (mfree_eq o s4 _ Ho F4) as (s5 & E5 & Q5 & F5 & N5). rewrite E5.
    assert (Hh : find h s5 = Some (NVa None None)) by (rewrite Q5, Q4, Q3, Q2, Q1; unfold t, o; peq; reflexivity).
    destruct (mfree_eq h s5 _ Hh F5) as (s6 & E6 & Q6 & F6 & N6). rewrite E6.
    assert (Ht : find t s6 = Some (NObj SBDF_BINARYTYPEID 0 None)) by (rewrite Q6, Q5, Q4, Q3; unfold t, o; peq; reflexivity).
    destruct (mfree_eq t s6 _ Ht F6) as (s7 & E7 & Q7 & F7 & N7). rewrite E7. unfold mret.
    split; [exact F7|]. right. split; [discriminate|]. split; [reflexivity|]. intros id. rewrite Q7, Q6, Q5, Q4, Q3, Q2, Q1.
    destruct (Pos.eqb_spec id t) as [->|N1']; [symmetry; apply Fh; unfold t, o; lia|].
    destruct (Pos.eqb_spec id h) as [->|N2']; [symmetry; apply Fh; lia|].
    destruct (Pos.eqb_spec id o) as [->|N3']; [symmetry; apply Fh; unfold o; lia|reflexivity]. }
  fold d in Q4. fold d.
  assert (Ht4 : find t s4 = Some (NObj SBDF_BINARYTYPEID 0 None)) by (rewrite Q4, Q3; unfold d; peq; reflexivity).
  destruct (store_eq t s4 _ (NObj SBDF_BINARYTYPEID 0 (Some d)) Ht4 F4) as (s5 & E5 & Q5 & F5 & N5). rewrite E5; cbv beta iota. rewrite N4 in *.
  (* the byte array *)
  set (ba := Pos.succ d) in *.
  destruct (alloc_eq NBytes s5 F5) as [(s6 & E6 & Q6 & F6 & N6)|(s6 & E6 & Q6 & F6 & N6)]; rewrite E6; cbv beta iota; rewrite N5 in *.
  { assert (Ho : find o s6 = Some NBytes) by (rewrite Q6, Q5, Q4, Q3, Q2; unfold d, t, o; peq; reflexivity).
    destruct (mfree_eq o s6 _ Ho F6) as (s7 & E7 & Q7 & F7 & N7). rewrite E7.
    assert (Hh : find h s7 = Some (NVa None None)) by (rewrite Q7, Q6, Q5, Q4, Q3, Q2, Q1; unfold d, t, o; peq; reflexivity).
    destruct (mfree_eq h s7 _ Hh F7) as (s8 & E8 & Q8 & F8 & N8). rewrite E8.
    assert (Hd : find d s8 = Some (NPtrs [None])) by (rewrite Q8, Q7, Q6, Q5, Q4; unfold d, t, o; peq; reflexivity).
    destruct (mfree_eq d s8 _ Hd F8) as (s9 & E9 & Q9 & F9 & N9). rewrite E9.
    assert (Ht : find t s9 = Some (NObj SBDF_BINARYTYPEID 0 (Some d))) by (rewrite Q9, Q8, Q7, Q6, Q5; unfold d, t, o; peq; reflexivity).
    destruct (mfree_eq t s9 _ Ht F9) as (s10 & E10 & Q10 & F10 & N10). rewrite E10. unfold mret.
    split; [exact F10|]. right. split; [discriminate|]. split; [reflexivity|]. intros id. rewrite Q10, Q9, Q8, Q7, Q6, Q5, Q4, Q3, Q2, Q1.
    destruct (Pos.eqb_spec id t) as [->|N1']; [symmetry; apply Fh; unfold t, o; lia|].
    destruct (Pos.eqb_spec id d) as [->|N2']; [symmetry; apply Fh; unfold d, t, o; lia|].
    destruct (Pos.eqb_spec id h) as [->|N3']; [symmetry; apply Fh; lia|].
    destruct (Pos.eqb_spec id o) as [->|N4']; [symmetry; apply Fh; unfold o; lia|reflexivity]. }
  fold ba in Q6. fold ba.
  assert (Hd6 : find d s6 = Some (NPtrs [None])) by (rewrite Q6, Q5, Q4; unfold ba, d, t; peq; reflexivity).
  destruct (store_eq d s6 _ (NPtrs (@cons ptr (Some ba) (@nil ptr))) Hd6 F6) as (s7 & E7 & Q7 & F7 & N7). rewrite E7; cbv beta iota.
  assert (Ho7 : find o s7 = Some NBytes) by (rewrite Q7, Q6, Q5, Q4, Q3, Q2; unfold ba, d, t, o; peq; reflexivity).
  destruct (mfree_eq o s7 _ Ho7 F7) as (s8 & E8 & Q8 & F8 & N8). rewrite E8; cbv beta iota.
  assert (Ht8 : find t s8 = Some (NObj SBDF_BINARYTYPEID 0 (Some d))) by (rewrite Q8, Q7, Q6, Q5; unfold ba, d, t, o; peq; reflexivity).
  destruct (store_eq t s8 _ (NObj SBDF_BINARYTYPEID 1 (Some d)) Ht8 F8) as (s9 & E9 & Q9 & F9 & N9). rewrite E9; cbv beta iota.
  assert (Hh9 : find h s9 = Some (NVa None None)) by (rewrite Q9, Q8, Q7, Q6, Q5, Q4, Q3, Q2, Q1; unfold ba, d, t, o; peq; reflexivity).
  destruct (store_eq h s9 _ (NVa (Some t) None) Hh9 F9) as (s10 & E10 & Q10 & F10 & N10). rewrite E10; cbv beta iota. unfold mret.
  split; [exact F10|]. left. split; [reflexivity|]. exists h, [h; t; d; ba]. split; [reflexivity|]. split; [|split].
  - exists t, [t; d; ba]. split; [reflexivity|]. split; [intros [Eq|[Eq|[Eq|[]]]]; unfold ba, d, t, o in Eq; lia|].
    split; [rewrite Q10; peq; reflexivity|].
    unfold obj_at. change (is_arr SBDF_BINARYTYPEID) with true. cbv iota. exists d, [ba]. split; [reflexivity|]. split; [reflexivity|]. split.
    + repeat constructor; cbn; intros Hin; repeat destruct Hin as [Hin|Hin]; try contradiction; unfold ba, d, t, o in Hin; lia.
    + split; [rewrite Q10, Q9; unfold ba, d, t, o; peq; reflexivity|]. split; [rewrite Q10, Q9, Q8, Q7; unfold ba, d, t, o; peq; reflexivity|].
      intros e [<-|[]]. rewrite Q10, Q9, Q8, Q7, Q6. unfold ba, d, t, o. peq. reflexivity.
  - intros b [<-|[<-|[<-|[<-|[]]]]]; unfold ba, d, t, o, h; lia.
  - intros x Hx. rewrite Q10, Q9, Q8, Q7, Q6, Q5, Q4, Q3, Q2, Q1.
    assert (x <> h /\ x <> t /\ x <> d /\ x <> ba) as (X1 & X2 & X3 & X4) by (repeat split; intros ->; apply Hx; cbn; auto).
    destruct (Pos.eqb_spec x h); [contradiction|]. destruct (Pos.eqb_spec x t); [contradiction|]. destruct (Pos.eqb_spec x d); [contradiction|].
    destruct (Pos.eqb_spec x ba); [contradiction|]. destruct (Pos.eqb_spec x o) as [->|]; [symmetry; apply Fh; unfold o; lia|reflexivity].
Qed.
