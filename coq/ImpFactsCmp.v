(* ImpFactsCmp.v — the comparison helpers sbdf_str_cmp (src/sbdfstring.c) and sbdf_ba_memcmp
   (src/bytearray.c) as translated into Gen/Prog.v: on two stored strings / byte arrays the sign of
   the result is the model's lex_cmp (first differing unsigned byte, then the lengths).  memcmp is a
   primitive of the interpreter (-1 / 0 / 1 by the first differing byte; libc promises the sign). *)
From Sbdf Require Import ImpCall Gen.Prog Gen.Consts Base Prim BaseFacts ImpBase ImpFactsStr.
From Coq Require Import ZifyBool.
Local Open Scope Z_scope.
Ltac Zify.zify_post_hook ::= Z.div_mod_to_equations.



(* two stored strings one after the other in the caller's memory *)
Definition two_str (a b : list Z) : list Z := str_mem [] a (le32 (zlen b + 1) ++ b ++ [0]).
Lemma two_str_second a b : two_str a b = str_mem (le32 (zlen a + 1) ++ a ++ [0]) b [].
Proof. unfold two_str, str_mem. cbn [app]. rewrite <- !app_assoc. cbn [app]. reflexivity. Qed.

Definition sc (pa pb : Z) (ll mn r rl bv : val) (m o : list Z) : state :=
  {| vars := [("lhs"%string, VPtr RIn pa); ("rhs"%string, VPtr RIn pb); ("ll"%string, ll); ("min"%string, mn); ("r"%string, r); ("rl"%string, rl); (budget_var, bv)];
     inb := m; outb := o |}.

Ltac evcmp := cbn [prog_env eval_args callee_init finish_call copy_in copy_out try_update update lookup combine map app String.append
                 String.eqb Ascii.eqb Bool.eqb fparams flocals fbody vars inb outb budget_var fail_var cell_token List.length Nat.eqb eval set_var cast
                 prog_sbdf_str_len prog_sbdf_str_cmp truth binop_int b2z negb];
  change (0 =? 0) with true; change (1 =? 0) with false; cbn [negb b2z].

Theorem str_cmp_bs a b bv o : zlen a + 1 < 2147483648 -> zlen b + 1 < 2147483648 ->
  let pb := zlen a + 9 in
  exists v fin, bsE prog_env (fbody prog_sbdf_str_cmp) (sc 4 pb VUndef VUndef VUndef VUndef bv (two_str a b) o) (OReturn (VInt v) fin) /\
                Z.sgn v = lex_cmp a b /\ outb fin = o /\ inb fin = two_str a b.
Proof.
  intros Ha Hb pb. cbn [fbody prog_sbdf_str_cmp]. unfold sc. pose proof (zlen_nonneg a) as Pa. pose proof (zlen_nonneg b) as Pb.
  set (Q := le32 (zlen a + 1) ++ a ++ [0]).
  assert (HQ : zlen Q = zlen a + 5) by (unfold Q; rewrite !zlen_app; change (zlen (le32 (zlen a + 1))) with 4; change (zlen [0]) with 1; lia).
  assert (Hpb : pb = zlen Q + 4) by (unfold pb; lia).
  pose proof (str_len_bs [] a (le32 (zlen b + 1) ++ b ++ [0]) VUndef bv o Ha) as La. change (zlen (@nil Z) + 4) with 4 in La. fold (two_str a b) in La.
  pose proof (str_len_bs Q b [] VUndef bv o Hb) as Lb. rewrite <- Hpb in Lb. unfold Q in Lb. rewrite <- two_str_second in Lb.
  set (k := Z.min (zlen a) (zlen b)).
  set (c := memcmp_l (ztake k a) (ztake k b)).
  assert (Hlen : zlen (two_str a b) = zlen a + zlen b + 10).
  { unfold two_str, str_mem. rewrite !zlen_app. change (zlen (@nil Z)) with 0. change (zlen (le32 (zlen a + 1))) with 4. change (zlen (le32 (zlen b + 1))) with 4. change (zlen [0]) with 1. lia. }
  assert (Sa : skipn (Z.to_nat 4) (two_str a b) = a ++ [0] ++ le32 (zlen b + 1) ++ b ++ [0]).
  { unfold two_str, str_mem. cbn [app]. reflexivity. }
  assert (Sb : skipn (Z.to_nat pb) (two_str a b) = b ++ [0] ++ []).
  { rewrite two_str_second. unfold str_mem. rewrite app_assoc. rewrite Hpb. fold Q.
    replace (zlen Q + 4) with (zlen (Q ++ le32 (zlen b + 1))) by (rewrite zlen_app; reflexivity). apply skipn_app_zlen. }
  assert (Fa : firstn (Z.to_nat k) (a ++ [0] ++ le32 (zlen b + 1) ++ b ++ [0]) = ztake k a).
  { unfold ztake. rewrite firstn_app. replace (Z.to_nat k - List.length a)%nat with 0%nat by (unfold k, zlen in *; lia). cbn [firstn]. now rewrite app_nil_r. }
  assert (Fb : firstn (Z.to_nat k) (b ++ [0] ++ []) = ztake k b).
  { unfold ztake. rewrite firstn_app. replace (Z.to_nat k - List.length b)%nat with 0%nat by (unfold k, zlen in *; lia). cbn [firstn]. now rewrite app_nil_r. }
  assert (Hmin : (if zlen a <? zlen b then zlen a else zlen b) = k) by (unfold k; destruct (zlen a <? zlen b) eqn:E; lia).
  pose proof (memcmp_l_range (ztake k a) (ztake k b)) as Rc. fold c in Rc.
  pose proof (lex_cmp_memcmp a b) as LC. cbn zeta in LC. fold k c in LC.
  assert (ME : forall z ll rl r, z = k ->
    eval (EAssign "r" (EMemcmp (EVar "lhs") (EVar "rhs") (ECast TSizeT (EVar "min"))))
      {| vars := [("lhs"%string, VPtr RIn 4); ("rhs"%string, VPtr RIn pb); ("ll"%string, ll); ("min"%string, VInt z); ("r"%string, r); ("rl"%string, rl); (budget_var, bv)];
         inb := two_str a b; outb := o |}
    = Some (VInt c, {| vars := [("lhs"%string, VPtr RIn 4); ("rhs"%string, VPtr RIn pb); ("ll"%string, ll); ("min"%string, VInt z); ("r"%string, VInt c); ("rl"%string, rl); (budget_var, bv)];
         inb := two_str a b; outb := o |})).
  { intros z ll rl r ->. cbn [eval lookup String.eqb Ascii.eqb Bool.eqb vars cast inb].
    replace (0 <=? k) with true by (unfold k; lia). cbn [inb vars]. rewrite zlen_length, Hlen.
    replace ((0 <=? k) && (0 <=? 4) && (4 + k <=? zlen a + zlen b + 10) && (0 <=? pb) && (pb + k <=? zlen a + zlen b + 10)) with true by (unfold k, pb; lia).
    rewrite Sa, Sb, Fa, Fb. fold c. cbn [set_var update String.eqb Ascii.eqb Bool.eqb vars inb outb]. reflexivity. }
  destruct (zlen a <? zlen b) eqn:E; destruct (c =? 0) eqn:Ec.
  all: exists (if c =? 0 then zlen a - zlen b else c); eexists; rewrite Ec; (split; [|split; [|split]]);
    [ (eapply bsE_seq; [eapply bsE_decl0; evcmp; reflexivity|]); (eapply bsE_seq; [eapply bsE_decl0; evcmp; reflexivity|]);
      (eapply bsE_seq; [eapply bsE_decl0; evcmp; reflexivity|]); (eapply bsE_seq; [eapply bsE_decl0; evcmp; reflexivity|]);
      (eapply bsE_seq; [eapply bsE_call; [reflexivity|evcmp; reflexivity|reflexivity|exact La|unfold sl; evcmp; reflexivity]|]);
      (eapply bsE_seq; [eapply bsE_call; [reflexivity|evcmp; reflexivity|reflexivity|exact Lb|unfold sl; evcmp; reflexivity]|]);
      (eapply bsE_seq; [eapply bsE_expr; evcmp; rewrite E; evcmp; reflexivity|]);
      (eapply bsE_seq; [eapply bsE_expr; apply ME; exact Hmin|]);
      first [ (eapply bsE_seq; [eapply bsE_if; [evcmp; reflexivity|cbn [truth]; rewrite Ec; reflexivity|apply bsE_skip]|]);
              eapply bsE_return; evcmp; chk7; reflexivity
            | eapply bsE_seq_ret; (eapply bsE_if; [evcmp; reflexivity|cbn [truth]; rewrite Ec; reflexivity|]); eapply bsE_return; evcmp; reflexivity ]
    | rewrite LC; first [reflexivity | (assert (c = -1 \/ c = 1) as [-> | ->] by lia); reflexivity]
    | reflexivity | reflexivity ].
Qed.


(* ================================================================== byte arrays: header = length, no terminator *)

Lemma get_array_length_gen pre n rest bv o : 0 <= n < 2147483648 ->
  bsE prog_env (fbody prog_sbdf_get_array_length) (ga (zlen pre + 4) bv (pre ++ le32 n ++ rest) o)
      (OReturn (VInt n) (ga (zlen pre + 4) bv (pre ++ le32 n ++ rest) o)).
Proof.
  intros Hn. cbn [fbody prog_sbdf_get_array_length]. unfold ga. pose proof (zlen_nonneg pre) as Pp. pose proof (zlen_nonneg rest) as Pr.
  eapply bsE_return. cbn [eval lookup String.eqb Ascii.eqb Bool.eqb vars binop_int]. chk7. cbn [inb].
  replace (zlen pre + 4 + 4 * (0 - 1)) with (zlen pre) by lia. rewrite skipn_app_zlen.
  assert (Hlen : (0 <=? zlen pre) && (zlen pre + 4 <=? Z.of_nat (List.length (pre ++ le32 n ++ rest))) = true).
  { rewrite zlen_length, !zlen_app. change (zlen (le32 n)) with 4. lia. }
  rewrite Hlen. pose proof (le32_decode n Hn) as D. unfold le32 in *. cbv zeta in *. cbn [app]. rewrite D. reflexivity.
Qed.

Definition bl (p : Z) (r bv : val) (m o : list Z) : state :=
  {| vars := [("str"%string, VPtr RIn p); ("$ret"%string, r); (budget_var, bv)]; inb := m; outb := o |}.

Ltac evba := cbn [prog_env eval_args callee_init finish_call copy_in copy_out try_update update lookup combine map app String.append
                 String.eqb Ascii.eqb Bool.eqb fparams flocals fbody vars inb outb budget_var fail_var cell_token List.length Nat.eqb eval set_var cast
                 prog_sbdf_get_array_length prog_sbdf_ba_get_len prog_sbdf_ba_memcmp truth binop_int b2z negb];
  change (0 =? 0) with true; change (1 =? 0) with false; cbn [negb b2z].

Lemma ba_get_len_bs pre bytes post r bv o : zlen bytes < 2147483648 ->
  bsE prog_env (fbody prog_sbdf_ba_get_len) (bl (zlen pre + 4) r bv (ba_mem pre bytes post) o)
      (OReturn (VInt (zlen bytes)) (bl (zlen pre + 4) (VInt (zlen bytes)) bv (ba_mem pre bytes post) o)).
Proof.
  intros Hl. cbn [fbody prog_sbdf_ba_get_len]. unfold bl, ba_mem. pose proof (zlen_nonneg bytes) as Pb.
  eapply bsE_seq.
  - eapply bsE_call; [reflexivity|evba; reflexivity|reflexivity|apply (get_array_length_gen pre (zlen bytes) (bytes ++ post) bv o); lia|unfold ga; evba; reflexivity].
  - eapply bsE_return. evba. reflexivity.
Qed.

Definition two_ba (a b : list Z) : list Z := ba_mem [] a (le32 (zlen b) ++ b).
Lemma two_ba_second a b : two_ba a b = ba_mem (le32 (zlen a) ++ a) b [].
Proof. unfold two_ba, ba_mem. cbn [app]. rewrite <- !app_assoc. cbn [app]. now rewrite app_nil_r. Qed.

Theorem ba_memcmp_bs a b bv o : zlen a < 2147483648 -> zlen b < 2147483648 ->
  let pb := zlen a + 8 in
  exists v fin, bsE prog_env (fbody prog_sbdf_ba_memcmp) (sc 4 pb VUndef VUndef VUndef VUndef bv (two_ba a b) o) (OReturn (VInt v) fin) /\
                Z.sgn v = lex_cmp a b /\ outb fin = o /\ inb fin = two_ba a b.
Proof.
  intros Ha Hb pb. cbn [fbody prog_sbdf_ba_memcmp]. unfold sc. pose proof (zlen_nonneg a) as Pa. pose proof (zlen_nonneg b) as Pb.
  set (Q := le32 (zlen a) ++ a).
  assert (HQ : zlen Q = zlen a + 4) by (unfold Q; rewrite !zlen_app; change (zlen (le32 (zlen a))) with 4; lia).
  assert (Hpb : pb = zlen Q + 4) by (unfold pb; lia).
  pose proof (ba_get_len_bs [] a (le32 (zlen b) ++ b) VUndef bv o Ha) as La. change (zlen (@nil Z) + 4) with 4 in La. fold (two_ba a b) in La.
  pose proof (ba_get_len_bs Q b [] VUndef bv o Hb) as Lb. rewrite <- Hpb in Lb. unfold Q in Lb. rewrite <- two_ba_second in Lb.
  set (k := Z.min (zlen a) (zlen b)).
  set (c := memcmp_l (ztake k a) (ztake k b)).
  assert (Hlen : zlen (two_ba a b) = zlen a + zlen b + 8).
  { unfold two_ba, ba_mem. rewrite !zlen_app. change (zlen (@nil Z)) with 0. change (zlen (le32 (zlen a))) with 4. change (zlen (le32 (zlen b))) with 4. lia. }
  assert (Sa : skipn (Z.to_nat 4) (two_ba a b) = a ++ le32 (zlen b) ++ b) by (unfold two_ba, ba_mem; cbn [app]; reflexivity).
  assert (Sb : skipn (Z.to_nat pb) (two_ba a b) = b ++ []).
  { rewrite two_ba_second. unfold ba_mem. rewrite app_assoc. rewrite Hpb. fold Q.
    replace (zlen Q + 4) with (zlen (Q ++ le32 (zlen b))) by (rewrite zlen_app; reflexivity). apply skipn_app_zlen. }
  assert (Fa : firstn (Z.to_nat k) (a ++ le32 (zlen b) ++ b) = ztake k a).
  { unfold ztake. rewrite firstn_app. replace (Z.to_nat k - List.length a)%nat with 0%nat by (unfold k, zlen in *; lia). cbn [firstn]. now rewrite app_nil_r. }
  assert (Fb : firstn (Z.to_nat k) (b ++ []) = ztake k b) by (rewrite app_nil_r; reflexivity).
  assert (Hmin : (if zlen a <? zlen b then zlen a else zlen b) = k) by (unfold k; destruct (zlen a <? zlen b) eqn:E; lia).
  pose proof (memcmp_l_range (ztake k a) (ztake k b)) as Rc. fold c in Rc.
  pose proof (lex_cmp_memcmp a b) as LC. cbn zeta in LC. fold k c in LC.
  assert (ME : forall z ll rl r, z = k ->
    eval (EAssign "r" (EMemcmp (EVar "lhs") (EVar "rhs") (ECast TSizeT (EVar "min"))))
      {| vars := [("lhs"%string, VPtr RIn 4); ("rhs"%string, VPtr RIn pb); ("ll"%string, ll); ("min"%string, VInt z); ("r"%string, r); ("rl"%string, rl); (budget_var, bv)];
         inb := two_ba a b; outb := o |}
    = Some (VInt c, {| vars := [("lhs"%string, VPtr RIn 4); ("rhs"%string, VPtr RIn pb); ("ll"%string, ll); ("min"%string, VInt z); ("r"%string, VInt c); ("rl"%string, rl); (budget_var, bv)];
         inb := two_ba a b; outb := o |})).
  { intros z ll rl r ->. cbn [eval lookup String.eqb Ascii.eqb Bool.eqb vars cast inb].
    replace (0 <=? k) with true by (unfold k; lia). cbn [inb vars]. rewrite zlen_length, Hlen.
    replace ((0 <=? k) && (0 <=? 4) && (4 + k <=? zlen a + zlen b + 8) && (0 <=? pb) && (pb + k <=? zlen a + zlen b + 8)) with true by (unfold k, pb; lia).
    rewrite Sa, Sb, Fa, Fb. fold c. cbn [set_var update String.eqb Ascii.eqb Bool.eqb vars inb outb]. reflexivity. }
  destruct (zlen a <? zlen b) eqn:E; destruct (c =? 0) eqn:Ec.
  all: exists (if c =? 0 then zlen a - zlen b else c); eexists; rewrite Ec; (split; [|split; [|split]]);
    [ (eapply bsE_seq; [eapply bsE_decl0; evba; reflexivity|]); (eapply bsE_seq; [eapply bsE_decl0; evba; reflexivity|]);
      (eapply bsE_seq; [eapply bsE_decl0; evba; reflexivity|]); (eapply bsE_seq; [eapply bsE_decl0; evba; reflexivity|]);
      (eapply bsE_seq; [eapply bsE_call; [reflexivity|evba; reflexivity|reflexivity|exact La|unfold bl; evba; reflexivity]|]);
      (eapply bsE_seq; [eapply bsE_call; [reflexivity|evba; reflexivity|reflexivity|exact Lb|unfold bl; evba; reflexivity]|]);
      (eapply bsE_seq; [eapply bsE_expr; evba; rewrite E; evba; reflexivity|]);
      (eapply bsE_seq; [eapply bsE_expr; apply ME; exact Hmin|]);
      first [ (eapply bsE_seq; [eapply bsE_if; [evba; reflexivity|cbn [truth]; rewrite Ec; reflexivity|apply bsE_skip]|]);
              eapply bsE_return; evba; chk7; reflexivity
            | eapply bsE_seq_ret; (eapply bsE_if; [evba; reflexivity|cbn [truth]; rewrite Ec; reflexivity|]); eapply bsE_return; evba; reflexivity ]
    | rewrite LC; first [reflexivity | (assert (c = -1 \/ c = 1) as [-> | ->] by lia); reflexivity]
    | reflexivity | reflexivity ].
Qed.

(* ---- as calls ---- *)
Theorem str_cmp_source a b : zlen a + 1 < 2147483648 -> zlen b + 1 < 2147483648 ->
  exists f0, forall f, (f0 <= f)%nat -> exists v fin,
    callE prog_env f prog_sbdf_str_cmp [VPtr RIn 4; VPtr RIn (zlen a + 9)] (two_str a b) 0 = OReturn (VInt v) fin /\ Z.sgn v = lex_cmp a b.
Proof.
  intros Ha Hb. destruct (str_cmp_bs a b (VInt 0) [] Ha Hb) as (v & fin & Bs & Sg & _).
  destruct (bsE_sound _ _ _ _ Bs) as (f0 & F). exists f0. intros f Hf. exists v, fin. split; [apply F; exact Hf|exact Sg].
Qed.

Theorem ba_memcmp_source a b : zlen a < 2147483648 -> zlen b < 2147483648 ->
  exists f0, forall f, (f0 <= f)%nat -> exists v fin,
    callE prog_env f prog_sbdf_ba_memcmp [VPtr RIn 4; VPtr RIn (zlen a + 8)] (two_ba a b) 0 = OReturn (VInt v) fin /\ Z.sgn v = lex_cmp a b.
Proof.
  intros Ha Hb. destruct (ba_memcmp_bs a b (VInt 0) [] Ha Hb) as (v & fin & Bs & Sg & _).
  destruct (bsE_sound _ _ _ _ Bs) as (f0 & F). exists f0. intros f Hf. exists v, fin. split; [apply F; exact Hf|exact Sg].
Qed.
