(* ImpFactsSwap.v — sbdf_swap of src/bswap.c as translated into Gen/Prog.v under both build
   configurations: the default one does nothing, the big-endian one (-D__sparc) reverses every
   element in place.  This is what the parameter `swp` of the L1 model stands for. *)
From Sbdf Require Import Imp Gen.Prog Base BaseFacts ImpBase.
From Coq Require Import ZifyBool.
Local Open Scope Z_scope.
Ltac Zify.zify_post_hook ::= Z.div_mod_to_equations.

Definition sst (p sz c : Z) (bk fr iv tv : val) (buf : list Z) : state :=
  {| vars := [("inout"%string, VPtr RIn p); ("sz"%string, VInt sz); ("count"%string, VInt c);
              ("back"%string, bk); ("front"%string, fr); ("i"%string, iv); ("tmp"%string, tv)]; inb := buf; outb := [] |}.

Lemma sst_ext p sz c bk fr iv tv buf p' sz' c' bk' fr' iv' tv' buf' :
  p = p' -> sz = sz' -> c = c' -> bk = bk' -> fr = fr' -> iv = iv' -> tv = tv' -> buf = buf' ->
  sst p sz c bk fr iv tv buf = sst p' sz' c' bk' fr' iv' tv' buf'.
Proof. now intros -> -> -> -> -> -> -> ->. Qed.

(* ---- memory lemmas: the buffer's shape and the offset are given by equations ---- *)
Lemma load_at vs buf outp o A b C : buf = A ++ b :: C -> o = zlen A ->
  load (VPtr RIn o) {| vars := vs; inb := buf; outb := outp |} = Some (VInt (sgn b)).
Proof. intros -> ->. apply load_mid. Qed.

Lemma upd_nth_mid A b C z : upd_nth (Z.to_nat (zlen A)) z (A ++ b :: C) = A ++ z :: C.
Proof. unfold zlen. rewrite Nat2Z.id. induction A as [|a A IH]; cbn [List.length upd_nth app]; [reflexivity|]. now rewrite IH. Qed.

Lemma store_at vs buf outp o z A b C : buf = A ++ b :: C -> o = zlen A ->
  store (VPtr RIn o) (VInt z) {| vars := vs; inb := buf; outb := outp |}
  = Some {| vars := vs; inb := A ++ (z mod 256) :: C; outb := outp |}.
Proof.
  intros -> ->. cbn [store inb vars outb]. rewrite zlen_length, zlen_app, zlen_cons. pose proof (zlen_nonneg A). pose proof (zlen_nonneg C).
  replace ((0 <=? zlen A) && (zlen A <? zlen A + (1 + zlen C))) with true by lia. now rewrite upd_nth_mid.
Qed.

Lemma incr_at vs buf outp o : 0 <= o < zlen buf ->
  incr (VPtr RIn o) {| vars := vs; inb := buf; outb := outp |} = Some (VPtr RIn (o + 1)).
Proof. intros H. cbn [incr inb]. rewrite zlen_length. replace (o <? zlen buf) with true by lia. reflexivity. Qed.

Lemma decr_at vs buf outp o : 0 < o ->
  decr (VPtr RIn o) {| vars := vs; inb := buf; outb := outp |} = Some (VPtr RIn (o - 1)).
Proof. intros H. cbn [decr]. replace (0 <? o) with true by lia. reflexivity. Qed.

Lemma ptr_add_at vs buf outp o z : 0 <= o + z <= zlen buf ->
  ptr_add (VPtr RIn o) z {| vars := vs; inb := buf; outb := outp |} = Some (VPtr RIn (o + z)).
Proof. intros H. cbn [ptr_add inb]. rewrite zlen_length. replace ((0 <=? o + z) && (o + z <=? zlen buf)) with true by lia. reflexivity. Qed.

Ltac evw := cbn [eval lookup update set_var String.eqb Ascii.eqb Bool.eqb vars inb outb truth cast binop_int b2z fst snd negb];
  change (0 =? 0) with true; change (1 =? 0) with false; cbn [negb b2z].

(* a list with at least two elements has a first and a last one *)
Lemma ends_split {A} (l : list A) : (2 <= List.length l)%nat -> exists x m y, l = x :: m ++ [y].
Proof.
  intros H. destruct l as [|x l]; [cbn in H; lia|]. destruct (exists_last (l := l)) as (m & y & ->); [intros ->; cbn in H; lia|]. now exists x, m, y.
Qed.

Definition swap_outer (st : stmt) : stmt := st.
Definition swap_inner (st : stmt) : stmt :=
  match st with SWhile _ (SSeq _ (SSeq _ (SSeq _ (SSeq (SSeq _ w) _)))) => w | _ => SSkip end.

(* the inner loop reverses the bytes between front and back *)
Lemma swap_inner_bs n : forall mid pre post p sz c tv, List.length mid = n -> Forall byte mid -> zlen mid <= int_max ->
  exists tv', bs (swap_inner (fbody prog_sbdf_swap_be))
     (sst p sz c (VPtr RIn (zlen pre + zlen mid)) (VPtr RIn (zlen pre)) (VInt (zlen mid / 2)) tv (pre ++ mid ++ post))
     (ONormal (sst p sz c (VPtr RIn (zlen pre + zlen mid - zlen mid / 2)) (VPtr RIn (zlen pre + zlen mid / 2)) (VInt 0) tv' (pre ++ rev mid ++ post))).
Proof.
  cbn [swap_inner fbody prog_sbdf_swap_be].
  induction n as [n IH] using lt_wf_ind. intros mid pre post p sz c tv Hn Hb Hmax.
  destruct (le_lt_dec 2 n) as [L|L].
  2: { (* zero or one byte left: the loop stops, reversal is the identity *)
    assert (Hz : zlen mid / 2 = 0) by (unfold zlen; rewrite Hn; destruct n as [|[|]]; [reflexivity|reflexivity|lia]).
    assert (Hr : rev mid = mid) by (destruct mid as [|a [|b m]]; [reflexivity|reflexivity|cbn in Hn; lia]).
    rewrite Hz, Hr, Z.sub_0_r, Z.add_0_r. exists tv. eapply bs_while_f; [unfold sst; evw; chks; evw; reflexivity|reflexivity]. }
  destruct (ends_split mid ltac:(lia)) as (x & m & y & ->).
  assert (Hbx : byte x /\ Forall byte m /\ byte y).
  { inversion Hb as [|? ? Hx Hr]. subst. apply Forall_app in Hr. destruct Hr as (Hm & Hy). inversion Hy. subst. auto. }
  destruct Hbx as (Hx & Hm & Hy). unfold byte in Hx, Hy.
  assert (Zm : zlen (x :: m ++ [y]) = zlen m + 2) by (rewrite zlen_cons, zlen_app, zlen_cons; change (zlen (@nil Z)) with 0; lia).
  pose proof (zlen_nonneg m) as Pm. pose proof (zlen_nonneg pre) as Pp. pose proof (zlen_nonneg post) as Pq.
  rewrite Zm in *.
  destruct (IH (List.length m) ltac:(rewrite <- Hn, app_comm_cons, app_length; cbn; lia) m (pre ++ [y]) (x :: post) p sz c (VInt (sgn x)) eq_refl Hm ltac:(lia)) as (tv' & B).
  exists tv'.
  set (buf0 := pre ++ (x :: m ++ [y]) ++ post).
  assert (S1 : buf0 = pre ++ x :: (m ++ [y] ++ post)) by (unfold buf0; repeat (rewrite <- ?app_assoc; cbn [app]); reflexivity).
  assert (S2 : buf0 = (pre ++ x :: m) ++ y :: post) by (unfold buf0; repeat (rewrite <- ?app_assoc; cbn [app]); reflexivity).
  assert (Lb : zlen buf0 = zlen pre + zlen m + 2 + zlen post) by (rewrite S2, !zlen_app, !zlen_cons; lia).
  eapply bs_while_t.
  - unfold sst. evw. chks. evw. reflexivity.
  - cbn [truth b2z]. replace ((zlen m + 2) / 2 >? 0) with true by lia. reflexivity.
  - eapply bs_seq.
    + eapply bs_seq.
      * eapply bs_decl1; [unfold sst; evw; rewrite (load_at _ _ _ _ pre x (m ++ [y] ++ post) S1 eq_refl); reflexivity|evw; reflexivity].
      * eapply bs_seq.
        -- eapply bs_expr. evw. rewrite incr_at by lia. evw. rewrite decr_at by lia. evw.
           rewrite (load_at _ _ _ _ (pre ++ x :: m) y post S2) by (rewrite zlen_app, zlen_cons; lia).
           rewrite (store_at _ _ _ _ _ pre x (m ++ [y] ++ post) S1 eq_refl). rewrite sgn_mod by lia. reflexivity.
        -- eapply bs_expr. evw.
           rewrite (store_at _ _ _ _ _ (pre ++ y :: m) y post) by (first [now rewrite <- !app_assoc | rewrite zlen_app, zlen_cons; lia]).
           rewrite sgn_mod by lia. reflexivity.
    + eapply bs_expr. evw. unfold decr. chks. evw. reflexivity.
  - eapply bs_cast; [exact B| |].
    + apply sst_ext; try reflexivity; try (f_equal; rewrite ?zlen_app, ?zlen_cons; change (zlen (@nil Z)) with 0; lia).
      rewrite <- !app_assoc. reflexivity.
    + apply (f_equal ONormal). apply sst_ext; try reflexivity; try (f_equal; rewrite ?zlen_app, ?zlen_cons; change (zlen (@nil Z)) with 0; lia).
      cbn [rev]. rewrite rev_app_distr. cbn [rev app]. rewrite <- !app_assoc. reflexivity.
Qed.

Definition chunk_ok (sz : Z) (ch : list Z) : Prop := zlen ch = sz /\ Forall byte ch.

Lemma swap_outer_bs cs : forall done sz bk0 fr0 iv0 tv0, Forall (chunk_ok sz) cs -> 0 <= sz <= int_max -> zlen cs <= int_max ->
  exists bk fr iv tv,
    bs (fbody prog_sbdf_swap_be) (sst (zlen done) sz (zlen cs) bk0 fr0 iv0 tv0 (done ++ concat cs))
       (ONormal (sst (zlen done + sz * zlen cs) sz (-1) bk fr iv tv (done ++ concat (map (@rev Z) cs)))).
Proof.
  cbn [fbody prog_sbdf_swap_be].
  induction cs as [|ch cs IH]; intros done sz bk0 fr0 iv0 tv0 Hc Hsz Hn; unfold int_max in *.
  - exists bk0, fr0, iv0, tv0. change (zlen (@nil (list Z))) with 0. rewrite Z.mul_0_r, Z.add_0_r. cbn [concat map].
    eapply bs_while_f; [unfold sst; evw; unfold decr; chks; evw; reflexivity|reflexivity].
  - inversion Hc as [|? ? (Hl & Hb) Hc']. subst. rewrite zlen_cons in *. pose proof (zlen_nonneg cs) as Pc. pose proof (zlen_nonneg done) as Pd.
    pose proof (zlen_nonneg (concat cs)) as Pcc. cbn [concat map].
    destruct (swap_inner_bs (List.length ch) ch done (concat cs) (zlen done) (zlen ch) (zlen cs) tv0 eq_refl Hb ltac:(unfold int_max; lia)) as (tv1 & Bi).
    cbn [swap_inner fbody prog_sbdf_swap_be] in Bi.
    destruct (IH (done ++ rev ch) (zlen ch) (VPtr RIn (zlen done + zlen ch - zlen ch / 2)) (VPtr RIn (zlen done + zlen ch / 2)) (VInt 0) tv1 Hc' Hsz ltac:(lia))
      as (bk & fr & iv & tv & Bo).
    exists bk, fr, iv, tv.
    assert (Lb : zlen (done ++ ch ++ concat cs) = zlen done + zlen ch + zlen (concat cs)) by (rewrite !zlen_app; lia).
    eapply bs_while_t.
    + unfold sst. evw. unfold decr. chks. evw. reflexivity.
    + cbn [truth b2z]. replace (1 + zlen cs >? 0) with true by lia. reflexivity.
    + eapply bs_seq; [eapply bs_decl1; [evw; reflexivity|evw; reflexivity]|].
      eapply bs_seq; [eapply bs_decl1; [evw; rewrite ptr_add_at by lia; reflexivity|evw; reflexivity]|].
      eapply bs_seq; [eapply bs_decl0; evw; reflexivity|].
      eapply bs_seq.
      * eapply bs_seq.
        -- eapply bs_expr. evw. chks. evw. change (2 =? 0) with false. cbn match. rewrite Z.quot_div_nonneg by lia. chks. evw. reflexivity.
        -- eapply bs_cast; [exact Bi| |reflexivity]. apply sst_ext; try reflexivity; lia.
      * eapply bs_expr. unfold sst. evw. rewrite ptr_add_at by (rewrite !zlen_app, zlen_rev; lia). evw. reflexivity.
    + eapply bs_cast; [exact Bo| |].
      * apply sst_ext; try reflexivity; try (rewrite ?zlen_app, ?zlen_rev; lia). now rewrite <- app_assoc.
      * apply (f_equal ONormal). apply sst_ext; try reflexivity; try (rewrite ?zlen_app, ?zlen_rev; lia). now rewrite <- app_assoc.
Qed.

(* the big-endian configuration: every element of the buffer is reversed in place *)
Theorem swap_be_correct sz cs : Forall (chunk_ok sz) cs -> 0 <= sz <= int_max -> zlen cs <= int_max ->
  exists f0, forall f, (f0 <= f)%nat -> exists fin,
    call f prog_sbdf_swap_be [VPtr RIn 0; VInt sz; VInt (zlen cs)] (concat cs) = ONormal fin /\
    inb fin = concat (map (@rev Z) cs) /\ outb fin = [].
Proof.
  intros Hc Hsz Hn. destruct (swap_outer_bs cs [] sz VUndef VUndef VUndef VUndef Hc Hsz Hn) as (bk & fr & iv & tv & B).
  destruct (bs_sound _ _ _ B) as (f0 & F). exists f0. intros f Hf. eexists. split; [apply F; exact Hf|]. split; reflexivity.
Qed.

(* the default configuration: nothing is touched *)
Theorem swap_le_correct args buf f : (1 <= f)%nat -> exists fin, call f prog_sbdf_swap_le args buf = ONormal fin /\ inb fin = buf /\ outb fin = [].
Proof. intros Hf. destruct f; [lia|]. eexists. split; [reflexivity|]. split; reflexivity. Qed.
