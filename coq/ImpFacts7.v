(* ImpFacts7.v — the 7-bit packed-length reader and writer of src/internals.c, as translated into
   Gen/Prog.v on every run, compute the model's read_7bit / enc7 (Prim.v): for every byte stream
   (hostile ones included) and for every int and every output budget. *)
From Sbdf Require Import Imp Gen.Prog Gen.Consts Base Prim BaseFacts ImpFacts.
From Coq Require Import ZifyBool.
Local Open Scope Z_scope.
Ltac Zify.zify_post_hook ::= Z.div_mod_to_equations.

(* ---- bit facts ---- *)
Lemma testbit_small a n : 0 <= a < 2 ^ n -> 0 <= n -> Z.testbit a n = false.
Proof.
  intros Ha Hn. destruct (Z.eq_dec a 0) as [->|Ne]; [apply Z.bits_0|].
  apply Z.bits_above_log2; [lia|]. apply Z.log2_lt_pow2; lia.
Qed.

Lemma land_low_mul a c k : 0 <= a < 2 ^ k -> 0 <= k -> Z.land a (c * 2 ^ k) = 0.
Proof.
  intros Ha Hk. apply Z.bits_inj'. intros n Hn. rewrite Z.land_spec, Z.bits_0.
  destruct (Z_lt_le_dec n k) as [L|L].
  - rewrite Z.mul_pow2_bits_low by lia. apply andb_false_r.
  - rewrite (testbit_small a n); [reflexivity| |lia]. split; [lia|]. apply Z.lt_le_trans with (2 ^ k); [lia|]. apply Z.pow_le_mono_r; lia.
Qed.

Lemma lor_disjoint_add a c k : 0 <= a < 2 ^ k -> 0 <= k -> Z.lor a (c * 2 ^ k) = a + c * 2 ^ k.
Proof.
  intros Ha Hk. pose proof (land_low_mul a c k Ha Hk) as H.
  rewrite <- Z.lxor_lor by exact H. symmetry. now apply Z.add_nocarry_lxor.
Qed.

Definition byte7_ok (b : Z) : bool := (Z.land b 127 =? b mod 128) && Bool.eqb (Z.land b 128 =? 128) (128 <=? b) && (0 <=? Z.land b 128) && (Z.land b 128 <=? 128).
Lemma byte7_all : forallb byte7_ok (map Z.of_nat (seq 0 256)) = true.
Proof. vm_compute. reflexivity. Qed.
Lemma byte7 b : 0 <= b <= 255 -> Z.land b 127 = b mod 128 /\ (Z.land b 128 =? 128) = (128 <=? b) /\ 0 <= Z.land b 128 <= 128.
Proof.
  intros H. pose proof byte7_all as A. rewrite forallb_forall in A.
  assert (S : byte7_ok b = true) by (apply A; apply in_map_iff; exists (Z.to_nat b); split; [lia|apply in_seq; lia]).
  unfold byte7_ok in S. repeat (apply andb_true_iff in S; destruct S as [S ?]). match goal with H : Bool.eqb _ _ = true |- _ => apply Bool.eqb_prop in H end. repeat split; try assumption; lia.
Qed.

Definition byte (b : Z) : Prop := 0 <= b <= 255.

(* ================================================================== the reader *)
Definition rst (r k : Z) (u o : val) (B : Z) (s : list Z) : state :=
  {| vars := [("f"%string, VNull); ("v"%string, VNull); ("result"%string, VInt r); ("shl"%string, VInt k); ("uch"%string, u);
              ("*v"%string, o); (budget_var, VInt B)]; inb := s; outb := [] |}.

Ltac ev7 := cbn [eval lookup update set_var String.eqb Ascii.eqb Bool.eqb vars inb outb truth cast binop_int binop_uint is_shift b2z fst snd negb budget_var];
  change (0 =? 0) with true; change (1 =? 0) with false; cbn [negb b2z].
Ltac chk7 := rewrite ?chk_ok by (unfold int_min, int_max in *; lia); rewrite ?wrap_id by (unfold int_min, int_max in *; lia).
Ltac evs7 := ev7; chk7; ev7; chk7; ev7; chk7; ev7.

Lemma pow7_bounds j : (j <= 4)%nat -> 1 <= 2 ^ (7 * Z.of_nat j) <= 268435456.
Proof.
  intros H. assert (C : (j = 0 \/ j = 1 \/ j = 2 \/ j = 3 \/ j = 4)%nat) by lia.
  destruct C as [->|[->|[->|[->| ->]]]]; cbn; lia.
Qed.

Lemma guard_ok x y sh : 0 <= x < u32 -> (0 <= y < u32 \/ sh = true) ->
  (0 <=? x) && (x <? u32) && ((0 <=? y) && (y <? u32) || sh) = true.
Proof. intros Hx [Hy| ->]; [|rewrite orb_true_r]; lia. Qed.

Lemma shguard_ok k : 0 <= k < 32 -> (0 <=? k) && (k <? 32) = true.
Proof. lia. Qed.

Lemma r_next r k b : 0 <= k <= 28 -> 0 <= r < 2 ^ k -> 0 <= b <= 255 ->
  0 <= r + to_u32 (b mod 128 * 2 ^ k) < u32 /\ (k <= 21 -> r + to_u32 (b mod 128 * 2 ^ k) < 2 ^ (k + 7)).
Proof.
  intros Hk Hr Hb.
  assert (E : to_u32 (b mod 128 * 2 ^ k) = (b mod 128 mod 2 ^ (32 - k)) * 2 ^ k).
  { unfold to_u32. replace 4294967296 with (2 ^ (32 - k) * 2 ^ k) by (rewrite <- Z.pow_add_r by lia; replace (32 - k + k) with 32 by lia; reflexivity).
    rewrite Z.mul_mod_distr_r by lia. reflexivity. }
  assert (P32 : 2 ^ (32 - k) * 2 ^ k = u32) by (rewrite <- Z.pow_add_r by lia; replace (32 - k + k) with 32 by lia; reflexivity).
  assert (Py : 0 < 2 ^ (32 - k)) by (apply Z.pow_pos_nonneg; lia).
  assert (Pk : 0 < 2 ^ k) by (apply Z.pow_pos_nonneg; lia).
  rewrite E. set (y := b mod 128 mod 2 ^ (32 - k)) in *.
  assert (Hy : 0 <= y <= 2 ^ (32 - k) - 1) by (unfold y; lia).
  assert (Hy2 : 0 <= y <= 127).
  { unfold y. pose proof (Z.mod_pos_bound (b mod 128) (2 ^ (32 - k)) Py). pose proof (Z.mod_le (b mod 128) (2 ^ (32 - k)) ltac:(lia) Py). lia. }
  assert (M1 : y * 2 ^ k <= (2 ^ (32 - k) - 1) * 2 ^ k) by (apply Z.mul_le_mono_nonneg_r; lia).
  assert (M2 : y * 2 ^ k <= 127 * 2 ^ k) by (apply Z.mul_le_mono_nonneg_r; lia).
  assert (M0 : 0 <= y * 2 ^ k) by (apply Z.mul_nonneg_nonneg; lia).
  rewrite Z.mul_sub_distr_r, P32 in M1.
  split; [lia|]. intros _. rewrite Z.pow_add_r by lia. change (2 ^ 7) with 128. lia.
Qed.

Definition body_of (st : stmt) : stmt := match st with SWhile _ b => b | _ => SSkip end.

Lemma read7_step f r k b s : read7_loop (S f) r k (b :: s) =
  if 128 <=? b then (if 28 <? k + 7 then Err SBDF_ERROR_INVALID_SIZE else read7_loop f (r + to_u32 (b mod 128 * 2 ^ k)) (k + 7) s)
  else Ok (to_i32 (r + to_u32 (b mod 128 * 2 ^ k)), s).
Proof. reflexivity. Qed.

(* one iteration on a stream that has a next byte *)
Lemma read7_iter j r u o B b s : (j <= 4)%nat -> 0 <= r < 2 ^ (7 * Z.of_nat j) -> byte b ->
  let k := 7 * Z.of_nat j in
  let r' := r + to_u32 (b mod 128 * 2 ^ k) in
  bs (body_of (loop3 (fbody prog_sbdf_read_7bitpacked_int32))) (rst r k u o B (b :: s))
     (if 128 <=? b then (if 28 <? k + 7 then OReturn (VInt SBDF_ERROR_INVALID_SIZE) (rst r' (k + 7) (VInt b) o B s)
                         else ONormal (rst r' (k + 7) (VInt b) o B s))
      else OBreak (rst r' k (VInt b) o B s)).
Proof.
  intros Hj Hr Hb k r'. cbn [body_of loop3 fbody prog_sbdf_read_7bitpacked_int32].
  pose proof (pow7_bounds j Hj) as P. fold k in P, Hr. unfold byte in Hb. destruct (byte7 b Hb) as (B1 & B2 & Hb128).
  assert (Hk : 0 <= k <= 28) by (unfold k; lia).
  assert (E : to_u32 (b mod 128 * 2 ^ k) = (b mod 128 mod 2 ^ (32 - k)) * 2 ^ k).
  { unfold to_u32. replace 4294967296 with (2 ^ (32 - k) * 2 ^ k) by (rewrite <- Z.pow_add_r by lia; replace (32 - k + k) with 32 by lia; reflexivity).
    rewrite Z.mul_mod_distr_r by lia. reflexivity. }
  assert (P32 : 2 ^ (32 - k) * 2 ^ k = u32) by (rewrite <- Z.pow_add_r by lia; replace (32 - k + k) with 32 by lia; reflexivity).
  assert (Py : 0 < 2 ^ (32 - k)) by (apply Z.pow_pos_nonneg; lia).
  set (y := b mod 128 mod 2 ^ (32 - k)) in *.
  assert (Hy : 0 <= y <= 2 ^ (32 - k) - 1) by (unfold y; lia).
  assert (Hyk : 0 <= y * 2 ^ k <= u32 - 2 ^ k) by nia.
  assert (Er : Z.lor r (Z.shiftl (b mod 128) k mod u32) = r').
  { unfold r'. rewrite E. rewrite Z.shiftl_mul_pow2 by lia. change (b mod 128 * 2 ^ k mod u32) with (to_u32 (b mod 128 * 2 ^ k)). rewrite E.
    apply lor_disjoint_add; lia. }
  assert (Rr : 0 <= r' < u32) by (unfold r'; rewrite E; lia).
  eapply bs_seq; [eapply bs_decl0; unfold rst; ev7; reflexivity|].
  eapply bs_seq; [eapply bs_if; [ev7; reflexivity|reflexivity|apply bs_skip]|].
  eapply bs_seq.
  { eapply bs_expr. evs7. rewrite B1. rewrite (Z.mod_small (b mod 128) u32) by (unfold u32; lia).
    rewrite guard_ok by (unfold u32; lia). rewrite shguard_ok by lia. ev7.
    rewrite guard_ok by (rewrite ?Z.shiftl_mul_pow2 by lia; unfold u32 in *; lia). ev7. rewrite Er. reflexivity. }
  destruct (128 <=? b) eqn:Eb.
  - destruct (28 <? k + 7) eqn:Ek.
    + eapply bs_if; [evs7; rewrite B2; ev7; reflexivity|reflexivity|].
      eapply bs_seq; [eapply bs_expr; evs7; reflexivity|].
      eapply bs_if; [evs7; reflexivity|ev7; replace (k + 7 >? 28) with true by lia; reflexivity|].
      eapply bs_return. evs7. reflexivity.
    + eapply bs_if; [evs7; rewrite B2; ev7; reflexivity|reflexivity|].
      eapply bs_seq; [eapply bs_expr; evs7; reflexivity|].
      eapply bs_if; [evs7; reflexivity|ev7; replace (k + 7 >? 28) with false by lia; reflexivity|]. apply bs_skip.
  - eapply bs_if; [evs7; rewrite B2; ev7; reflexivity|reflexivity|]. apply bs_break.
Qed.

Lemma read7_loop_prog m : forall j r u o B s, (j + m = 4)%nat -> 0 <= r < 2 ^ (7 * Z.of_nat j) -> Forall byte s ->
  match read7_loop (6 - j) r (7 * Z.of_nat j) s with
  | Ok (v, s') => exists r' k' u', v = to_i32 r' /\ 0 <= r' < u32 /\
      bs (loop3 (fbody prog_sbdf_read_7bitpacked_int32)) (rst r (7 * Z.of_nat j) u o B s) (ONormal (rst r' k' u' o B s'))
  | Err e => exists st', bs (loop3 (fbody prog_sbdf_read_7bitpacked_int32)) (rst r (7 * Z.of_nat j) u o B s) (OReturn (VInt e) st')
  end.
Proof.
  induction m as [|m IH]; intros j r u o B s Hj Hr Hs.
  all: replace (6 - j)%nat with (S (5 - j))%nat by lia.
  all: destruct s as [|b s];
    [ cbn [read7_loop]; eexists; cbn [loop3 fbody prog_sbdf_read_7bitpacked_int32];
      eapply bs_while_ret; [ev7; reflexivity|reflexivity|];
      (eapply bs_seq; [eapply bs_decl0; unfold rst; ev7; reflexivity|]);
      eapply bs_seq_ret; (eapply bs_if; [ev7; reflexivity|reflexivity|]); eapply bs_return; evs7; reflexivity | ].
  all: inversion Hs as [|? ? Hb Hs']; subst; rewrite read7_step;
       pose proof (read7_iter j r u o B b s ltac:(lia) Hr Hb) as It; cbn zeta in It;
       pose proof (pow7_bounds j ltac:(lia)) as P;
       cbn [loop3 fbody prog_sbdf_read_7bitpacked_int32 body_of] in *.
  all: destruct (128 <=? b) eqn:Eb;
    [ | exists (r + to_u32 (b mod 128 * 2 ^ (7 * Z.of_nat j))), (7 * Z.of_nat j), (VInt b); split; [reflexivity|];
        split; [ apply r_next; unfold byte in *; lia | eapply bs_while_brk; [ev7; reflexivity|reflexivity|exact It] ] ].
  all: destruct (28 <? 7 * Z.of_nat j + 7) eqn:Ek;
    [ eexists; eapply bs_while_ret; [ev7; reflexivity|reflexivity|exact It] | ].
  - exfalso. assert (j = 4)%nat by lia. subst j. cbn in Ek. lia.
  - assert (Hk : 7 * Z.of_nat j <= 21) by lia. unfold byte in Hb.
    destruct (r_next r (7 * Z.of_nat j) b ltac:(lia) Hr Hb) as (R1 & R2). specialize (R2 Hk).
    set (r1 := r + to_u32 (b mod 128 * 2 ^ (7 * Z.of_nat j))) in *.
    replace (5 - j)%nat with (6 - S j)%nat by lia.
    replace (7 * Z.of_nat j + 7) with (7 * Z.of_nat (S j)) in * by lia.
    pose proof (IH (S j) r1 (VInt b) o B s ltac:(lia) ltac:(lia) Hs') as Q.
    cbn [loop3 fbody prog_sbdf_read_7bitpacked_int32] in Q.
    destruct (read7_loop (6 - S j) r1 (7 * Z.of_nat (S j)) s) as [[v s']|e].
    + destruct Q as (r' & k' & u' & Ev & Rr & Bs). exists r', k', u'. split; [exact Ev|]. split; [exact Rr|].
      eapply bs_while_t; [ev7; reflexivity|reflexivity|exact It|exact Bs].
    + destruct Q as (st' & Bs). exists st'. eapply bs_while_t; [ev7; reflexivity|reflexivity|exact It|exact Bs].
Qed.

Definition io_init (f : func) (args : list val) (input : list Z) (budget : Z) : state :=
  {| vars := combine (fparams f) args ++ map (fun x => (x, VUndef)) (flocals f) ++ [(budget_var, VInt budget)]; inb := input; outb := [] |}.

Theorem read7_bs s B : Forall byte s ->
  match read_7bit s with
  | Ok (v, s') => exists fin, bs (fbody prog_sbdf_read_7bitpacked_int32) (io_init prog_sbdf_read_7bitpacked_int32 [VNull; VNull] s B) (OReturn (VInt SBDF_OK) fin) /\
                              lookup "*v" (vars fin) = Some (VInt v) /\ inb fin = s' /\ outb fin = []
  | Err e => exists fin, bs (fbody prog_sbdf_read_7bitpacked_int32) (io_init prog_sbdf_read_7bitpacked_int32 [VNull; VNull] s B) (OReturn (VInt e) fin)
  end.
Proof.
  intros Hs. unfold read_7bit.
  pose proof (read7_loop_prog 4 0 0 VUndef VUndef B s eq_refl ltac:(cbn; lia) Hs) as L.
  change (6 - 0)%nat with 6%nat in L. change (7 * Z.of_nat 0) with 0 in L.
  cbn [loop3 fbody prog_sbdf_read_7bitpacked_int32] in L.
  unfold io_init. cbn [fbody fparams flocals prog_sbdf_read_7bitpacked_int32 combine map app].
  destruct (read7_loop 6 0 0 s) as [[v s']|e].
  - destruct L as (r' & k' & u' & Ev & Rr & Bs). eexists. split; [|split; [|split]].
    + eapply bs_seq; [eapply bs_decl1; [evs7; reflexivity|ev7; reflexivity]|].
      eapply bs_seq; [eapply bs_decl1; [evs7; reflexivity|ev7; reflexivity]|].
      eapply bs_seq; [exact Bs|].
      eapply bs_seq; [eapply bs_expr; unfold rst; evs7; reflexivity|].
      eapply bs_return. evs7. reflexivity.
    + cbn [vars lookup String.eqb Ascii.eqb Bool.eqb]. rewrite Ev. unfold to_i32, u32 in *. f_equal. f_equal. destruct (r' <? 2147483648) eqn:E; lia.
    + reflexivity.
    + reflexivity.
  - destruct L as (st' & Bs). exists st'.
    eapply bs_seq; [eapply bs_decl1; [evs7; reflexivity|ev7; reflexivity]|].
    eapply bs_seq; [eapply bs_decl1; [evs7; reflexivity|ev7; reflexivity]|].
    eapply bs_seq_ret. exact Bs.
Qed.

(* ================================================================== the writer *)
Definition wst (v x : Z) (u : Imp.val) (B : Z) (o : list Z) : state :=
  {| vars := [("f"%string, VNull); ("v"%string, VInt v); ("uch"%string, u); ("val"%string, VInt x); (budget_var, VInt B)]; inb := []; outb := o |}.

Definition loop2 (st : stmt) : stmt := match st with SSeq _ (SSeq w _) => w | _ => SSkip end.

Lemma enc7_step f x : enc7_loop (S f) x = if 127 <? x then (x mod 128 + 128) :: enc7_loop f (x / 128) else [x].
Proof. reflexivity. Qed.

Lemma land127 x : 0 <= x -> Z.land x 127 = x mod 128.
Proof. intros H. change 127 with (Z.ones 7). rewrite Z.land_ones by lia. reflexivity. Qed.

Lemma write7_iter v x u B o : 0 <= x < u32 -> 0 <= B ->
  let byte := if 127 <? x then x mod 128 + 128 else x in
  bs (body_of (loop2 (fbody prog_sbdf_write_7bitpacked_int32))) (wst v x u B o)
     (if 0 <? B then (if 127 <? x then ONormal (wst v (x / 128) (VInt byte) (B - 1) (o ++ [byte]))
                      else OBreak (wst v x (VInt byte) (B - 1) (o ++ [byte])))
      else OReturn (VInt SBDF_ERROR_IO) (wst v x (VInt byte) B o)).
Proof.
  intros Hx HB byte. cbn [body_of loop2 fbody prog_sbdf_write_7bitpacked_int32].
  pose proof (land127 x ltac:(lia)) as L7.
  assert (Hm : 0 <= x mod 128 < 128) by lia.
  assert (Lor : Z.lor (x mod 128) 128 = x mod 128 + 128).
  { change 128 with (1 * 2 ^ 7) at 2 3. apply lor_disjoint_add; [change (2 ^ 7) with 128; lia|lia]. }
  assert (G : (x >? 127) = (127 <? x)) by lia.
  unfold wst.
  eapply bs_seq.
  { eapply bs_decl1; [evs7; rewrite (Z.mod_small 127 u32) by (unfold u32; lia);
      rewrite guard_ok by (unfold u32 in *; lia); ev7; rewrite L7, (Z.mod_small (x mod 128) 256) by lia; reflexivity|ev7; reflexivity]. }
  destruct (127 <? x) eqn:E.
  - eapply bs_seq.
    { eapply bs_if; [evs7; rewrite (Z.mod_small 127 u32) by (unfold u32; lia); rewrite guard_ok by (unfold u32 in *; lia); ev7; rewrite G; reflexivity|reflexivity|].
      eapply bs_expr. evs7. rewrite Lor, (Z.mod_small (x mod 128 + 128) 256) by lia. reflexivity. }
    destruct (0 <? B) eqn:EB.
    + eapply bs_seq; [eapply bs_if; [evs7; rewrite EB; ev7; reflexivity|reflexivity|apply bs_skip]|].
      eapply bs_if; [evs7; rewrite (Z.mod_small 127 u32) by (unfold u32; lia); rewrite guard_ok by (unfold u32 in *; lia); ev7; rewrite G; reflexivity|reflexivity|].
      eapply bs_expr. evs7. rewrite guard_ok by (unfold u32 in *; lia). rewrite shguard_ok by lia. ev7.
      rewrite Z.shiftr_div_pow2 by lia. change (2 ^ 7) with 128. unfold byte. rewrite (Z.mod_small (x mod 128 + 128) 256) by lia. reflexivity.
    + eapply bs_seq_ret. eapply bs_if; [evs7; rewrite EB; ev7; reflexivity|reflexivity|]. eapply bs_return. evs7. reflexivity.
  - eapply bs_seq.
    { eapply bs_if; [evs7; rewrite (Z.mod_small 127 u32) by (unfold u32; lia); rewrite guard_ok by (unfold u32 in *; lia); ev7; rewrite G; reflexivity|reflexivity|]. apply bs_skip. }
    assert (Ex : x mod 128 = x) by lia. rewrite Ex.
    destruct (0 <? B) eqn:EB.
    + eapply bs_seq; [eapply bs_if; [evs7; rewrite EB; ev7; reflexivity|reflexivity|apply bs_skip]|].
      eapply bs_seq_brk || idtac.
      eapply bs_if; [evs7; rewrite (Z.mod_small 127 u32) by (unfold u32; lia); rewrite guard_ok by (unfold u32 in *; lia); ev7; rewrite G; reflexivity|reflexivity|].
      unfold byte. rewrite (Z.mod_small x 256) by lia. apply bs_break.
    + eapply bs_seq_ret. eapply bs_if; [evs7; rewrite EB; ev7; reflexivity|reflexivity|]. eapply bs_return. evs7. reflexivity.
Qed.

Lemma ztake_cons_pos {A} (b : A) l n : 0 < n -> ztake n (b :: l) = b :: ztake (n - 1) l.
Proof. intros H. unfold ztake. replace (Z.to_nat n) with (S (Z.to_nat (n - 1))) by lia. reflexivity. Qed.

Lemma wst_ext v x u B o v' x' u' B' o' : v = v' -> x = x' -> u = u' -> B = B' -> o = o' -> wst v x u B o = wst v' x' u' B' o'.
Proof. now intros -> -> -> -> ->. Qed.

Lemma write7_loop_prog n : forall v x u B o, 0 <= x < 2 ^ (7 * Z.of_nat (S n)) -> x < u32 -> 0 <= B ->
  let L := enc7_loop (S n) x in
  if zlen L <=? B
  then exists x' u', bs (loop2 (fbody prog_sbdf_write_7bitpacked_int32)) (wst v x u B o) (ONormal (wst v x' u' (B - zlen L) (o ++ L)))
  else exists st', bs (loop2 (fbody prog_sbdf_write_7bitpacked_int32)) (wst v x u B o) (OReturn (VInt SBDF_ERROR_IO) st') /\ outb st' = o ++ ztake B L.
Proof.
  induction n as [|n IH]; intros v x u B o Hx Hu HB; cbn zeta; rewrite enc7_step.
  all: pose proof (write7_iter v x u B o ltac:(lia) HB) as It; cbn zeta in It;
       cbn [body_of loop2 fbody prog_sbdf_write_7bitpacked_int32] in *.
  all: destruct (127 <? x) eqn:E.
  1: { exfalso. change (2 ^ (7 * Z.of_nat 1)) with 128 in Hx. lia. }
  1,3: change (zlen [x]) with 1; destruct (0 <? B) eqn:EB;
       [ replace (1 <=? B) with true by lia; eexists; eexists; eapply bs_while_brk; [ev7; reflexivity|reflexivity|exact It]
       | replace (1 <=? B) with false by lia; eexists; split; [eapply bs_while_ret; [ev7; reflexivity|reflexivity|exact It]|];
         cbn [outb wst]; assert (B = 0) by lia; subst B; cbn; now rewrite app_nil_r ].
  (* a continuation byte first *)
  set (b := x mod 128 + 128) in *. set (L' := enc7_loop (S n) (x / 128)) in *. rewrite zlen_cons.
  pose proof (zlen_nonneg L') as P0.
  destruct (0 <? B) eqn:EB.
  2: { replace (1 + zlen L' <=? B) with false by lia. eexists. split; [eapply bs_while_ret; [ev7; reflexivity|reflexivity|exact It]|].
       cbn [outb wst]. assert (B = 0) by lia. subst B. cbn. now rewrite app_nil_r. }
  assert (Hx' : 0 <= x / 128 < 2 ^ (7 * Z.of_nat (S n))).
  { replace (7 * Z.of_nat (S (S n))) with (7 * Z.of_nat (S n) + 7) in Hx by lia. rewrite Z.pow_add_r in Hx by lia. change (2 ^ 7) with 128 in Hx.
    split; [apply Z.div_pos; lia|]. apply Z.div_lt_upper_bound; lia. }
  pose proof (IH v (x / 128) (VInt b) (B - 1) (o ++ [b]) Hx' ltac:(unfold u32 in *; lia) ltac:(lia)) as Q. cbn zeta in Q. fold L' in Q.
  destruct (zlen L' <=? B - 1) eqn:EL.
  - replace (1 + zlen L' <=? B) with true by lia. destruct Q as (x' & u' & Bs). exists x', u'.
    eapply bs_while_t; [ev7; reflexivity|reflexivity|exact It|].
    eapply bs_cast; [exact Bs|reflexivity|]. apply (f_equal ONormal). apply wst_ext; try reflexivity; [lia|now rewrite <- app_assoc].
  - replace (1 + zlen L' <=? B) with false by lia. destruct Q as (st' & Bs & Eo). exists st'. split.
    + eapply bs_while_t; [ev7; reflexivity|reflexivity|exact It|exact Bs].
    + rewrite Eo, <- app_assoc. cbn [app]. now rewrite ztake_cons_pos by lia.
Qed.

Theorem write7_bs v B : int_min <= v <= int_max -> 0 <= B ->
  exists fin, bs (fbody prog_sbdf_write_7bitpacked_int32) (io_init prog_sbdf_write_7bitpacked_int32 [VNull; VInt v] [] B)
                 (OReturn (VInt (if zlen (enc7 v) <=? B then SBDF_OK else SBDF_ERROR_IO)) fin) /\
              outb fin = ztake B (enc7 v).
Proof.
  intros Hv HB. unfold enc7.
  assert (Hu : 0 <= to_u32 v < u32) by (unfold to_u32, u32; lia).
  pose proof (write7_loop_prog 4 v (to_u32 v) VUndef B [] ltac:(change (2 ^ (7 * Z.of_nat 5)) with 34359738368; unfold u32 in Hu; lia) ltac:(lia) HB) as L.
  cbn zeta in L. cbn [loop2 fbody prog_sbdf_write_7bitpacked_int32] in L.
  unfold io_init. cbn [fbody fparams flocals prog_sbdf_write_7bitpacked_int32 combine map app].
  destruct (zlen (enc7_loop 5 (to_u32 v)) <=? B) eqn:E.
  - destruct L as (x' & u' & Bs). eexists. split.
    + eapply bs_seq; [eapply bs_decl1; [evs7; reflexivity|ev7; reflexivity]|].
      eapply bs_seq; [exact Bs|]. eapply bs_return. unfold wst. evs7. reflexivity.
    + cbn [outb wst app]. rewrite ztake_all by lia. reflexivity.
  - destruct L as (st' & Bs & Eo). exists st'. split.
    + eapply bs_seq; [eapply bs_decl1; [evs7; reflexivity|ev7; reflexivity]|]. eapply bs_seq_ret. exact Bs.
    + rewrite Eo. reflexivity.
Qed.

(* ---- with the interpreter's fuel: for all large enough fuel the call returns exactly that ---- *)
Theorem read7_correct s B : Forall byte s ->
  exists f0, forall f, (f0 <= f)%nat ->
  match read_7bit s with
  | Ok (v, s') => exists fin, call_io f prog_sbdf_read_7bitpacked_int32 [VNull; VNull] s B = OReturn (VInt SBDF_OK) fin /\
                              lookup "*v" (vars fin) = Some (VInt v) /\ inb fin = s' /\ outb fin = []
  | Err e => exists fin, call_io f prog_sbdf_read_7bitpacked_int32 [VNull; VNull] s B = OReturn (VInt e) fin
  end.
Proof.
  intros Hs. pose proof (read7_bs s B Hs) as H. destruct (read_7bit s) as [[v s']|e].
  - destruct H as (fin & Bs & H1 & H2 & H3). destruct (bs_sound _ _ _ Bs) as (f0 & F). exists f0. intros f Hf. exists fin.
    split; [apply F; exact Hf|]. auto.
  - destruct H as (fin & Bs). destruct (bs_sound _ _ _ Bs) as (f0 & F). exists f0. intros f Hf. exists fin. apply F; exact Hf.
Qed.

Theorem write7_correct v B : int_min <= v <= int_max -> 0 <= B ->
  exists f0, forall f, (f0 <= f)%nat -> exists fin,
    call_io f prog_sbdf_write_7bitpacked_int32 [VNull; VInt v] [] B = OReturn (VInt (if zlen (enc7 v) <=? B then SBDF_OK else SBDF_ERROR_IO)) fin /\
    outb fin = ztake B (enc7 v).
Proof.
  intros Hv HB. destruct (write7_bs v B Hv HB) as (fin & Bs & Eo). destruct (bs_sound _ _ _ Bs) as (f0 & F).
  exists f0. intros f Hf. exists fin. split; [apply F; exact Hf|exact Eo].
Qed.
