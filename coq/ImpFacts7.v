(* ImpFacts7.v — the 7-bit packed-length reader and writer of src/internals.c, as translated into
   Gen/Prog.v on every run, compute the model's read_7bit / enc7 (Prim.v): for every byte stream
   (hostile ones included) and for every int and every output budget. *)
From Sbdf Require Import Imp Gen.Prog Gen.Consts Base Prim BaseFacts ImpBase.
From Coq Require Import ZifyBool.
Local Open Scope Z_scope.
Ltac Zify.zify_post_hook ::= Z.div_mod_to_equations.






(* ================================================================== the reader *)
Definition rst (r k : Z) (u o : val) (B : Z) (s : list Z) : state :=
  {| vars := [("f"%string, VNull); ("v"%string, VNull); ("result"%string, VInt r); ("shl"%string, VInt k); ("uch"%string, u);
              ("*v"%string, o); (budget_var, VInt B)]; inb := s; outb := [] |}.





Lemma r_next r k b : 0 <= k <= 28 -> 0 <= r < 2 ^ k -> 0 <= b <= 255 ->
  0 <= r + to_u32 (b mod 128 * 2 ^ k) < u32 /\ (k <= 21 -> r + to_u32 (b mod 128 * 2 ^ k) < 2 ^ (k + 7)).
Proof.
  intros Hk Hr Hb.
  assert (E : to_u32 (b mod 128 * 2 ^ k) = (b mod 128 mod 2 ^ (32 - k)) * 2 ^ k).
  { unfold to_u32. replace 4294967296 with (2 ^ (32 - k) * 2 ^ k) by (rewrite <- Z.pow_add_r by lia; replace (32 - k + k) with 32 by lia; reflexivity).
    rewrite Z.mul_mod_distr_r by lia. reflexivity. }
  assert (P32 : 2 ^ (32 - k) * 2 ^ k = u32) by (rewrite <- Z.pow_add_r by lia; replace (32 - k + k) with 32 by lia; reflexivity).
  assert (Py : 0 < 2 ^ (32 - k)) by (apply Z.pow_pos_nonneg; lia).
  assert (Pk : 0 < 2 ^ k) by (apply Z.pow_pos_nonneg; lia).
  rewrite E. set (y := b mod 128 mod 2 ^ (32 - k)) in *.
  assert (Hy : 0 <= y <= 2 ^ (32 - k) - 1) by (unfold y; lia).
  assert (Hy2 : 0 <= y <= 127).
  { unfold y. pose proof (Z.mod_pos_bound (b mod 128) (2 ^ (32 - k)) Py). pose proof (Z.mod_le (b mod 128) (2 ^ (32 - k)) ltac:(lia) Py). lia. }
  assert (M1 : y * 2 ^ k <= (2 ^ (32 - k) - 1) * 2 ^ k) by (apply Z.mul_le_mono_nonneg_r; lia).
  assert (M2 : y * 2 ^ k <= 127 * 2 ^ k) by (apply Z.mul_le_mono_nonneg_r; lia).
  assert (M0 : 0 <= y * 2 ^ k) by (apply Z.mul_nonneg_nonneg; lia).
  rewrite Z.mul_sub_distr_r, P32 in M1.
  split; [lia|]. intros _. rewrite Z.pow_add_r by lia. change (2 ^ 7) with 128. lia.
Qed.


Lemma read7_step f r k b s : read7_loop (S f) r k (b :: s) =
  if 128 <=? b then (if 28 <? k + 7 then Err SBDF_ERROR_INVALID_SIZE else read7_loop f (r + to_u32 (b mod 128 * 2 ^ k)) (k + 7) s)
  else Ok (to_i32 (r + to_u32 (b mod 128 * 2 ^ k)), s).
Proof. reflexivity. Qed.

(* one iteration on a stream that has a next byte *)
Lemma read7_iter j r u o B b s : (j <= 4)%nat -> 0 <= r < 2 ^ (7 * Z.of_nat j) -> byte b ->
  let k := 7 * Z.of_nat j in
  let r' := r + to_u32 (b mod 128 * 2 ^ k) in
  bs (body_of (loop3 (fbody prog_sbdf_read_7bitpacked_int32))) (rst r k u o B (b :: s))
     (if 128 <=? b then (if 28 <? k + 7 then OReturn (VInt SBDF_ERROR_INVALID_SIZE) (rst r' (k + 7) (VInt b) o B s)
                         else ONormal (rst r' (k + 7) (VInt b) o B s))
      else OBreak (rst r' k (VInt b) o B s)).
Proof.
  intros Hj Hr Hb k r'. cbn [body_of loop3 fbody prog_sbdf_read_7bitpacked_int32].
  pose proof (pow7_bounds j Hj) as P. fold k in P, Hr. unfold byte in Hb. destruct (byte7 b Hb) as (B1 & B2 & Hb128).
  assert (Hk : 0 <= k <= 28) by (unfold k; lia).
  assert (E : to_u32 (b mod 128 * 2 ^ k) = (b mod 128 mod 2 ^ (32 - k)) * 2 ^ k).
  { unfold to_u32. replace 4294967296 with (2 ^ (32 - k) * 2 ^ k) by (rewrite <- Z.pow_add_r by lia; replace (32 - k + k) with 32 by lia; reflexivity).
    rewrite Z.mul_mod_distr_r by lia. reflexivity. }
  assert (P32 : 2 ^ (32 - k) * 2 ^ k = u32) by (rewrite <- Z.pow_add_r by lia; replace (32 - k + k) with 32 by lia; reflexivity).
  assert (Py : 0 < 2 ^ (32 - k)) by (apply Z.pow_pos_nonneg; lia).
  set (y := b mod 128 mod 2 ^ (32 - k)) in *.
  assert (Hy : 0 <= y <= 2 ^ (32 - k) - 1) by (unfold y; lia).
  assert (Hyk : 0 <= y * 2 ^ k <= u32 - 2 ^ k) by nia.
  assert (Er : Z.lor r (Z.shiftl (b mod 128) k mod u32) = r').
  { unfold r'. rewrite E. rewrite Z.shiftl_mul_pow2 by lia. change (b mod 128 * 2 ^ k mod u32) with (to_u32 (b mod 128 * 2 ^ k)). rewrite E.
    apply lor_disjoint_add; lia. }
  assert (Rr : 0 <= r' < u32) by (unfold r'; rewrite E; lia).
  eapply bs_seq; [eapply bs_decl0; unfold rst; ev7; reflexivity|].
  eapply bs_seq; [eapply bs_if; [ev7; reflexivity|reflexivity|apply bs_skip]|].
  eapply bs_seq.
  { eapply bs_expr. evs7. rewrite B1. rewrite (Z.mod_small (b mod 128) u32) by (unfold u32; lia).
    rewrite guard_ok by (unfold u32; lia). rewrite shguard_ok by lia. ev7.
    rewrite guard_ok by (rewrite ?Z.shiftl_mul_pow2 by lia; unfold u32 in *; lia). ev7. rewrite Er. reflexivity. }
  destruct (128 <=? b) eqn:Eb.
  - destruct (28 <? k + 7) eqn:Ek.
    + eapply bs_if; [evs7; rewrite B2; ev7; reflexivity|reflexivity|].
      eapply bs_seq; [eapply bs_expr; evs7; reflexivity|].
      eapply bs_if; [evs7; reflexivity|ev7; replace (k + 7 >? 28) with true by lia; reflexivity|].
      eapply bs_return. evs7. reflexivity.
    + eapply bs_if; [evs7; rewrite B2; ev7; reflexivity|reflexivity|].
      eapply bs_seq; [eapply bs_expr; evs7; reflexivity|].
      eapply bs_if; [evs7; reflexivity|ev7; replace (k + 7 >? 28) with false by lia; reflexivity|]. apply bs_skip.
  - eapply bs_if; [evs7; rewrite B2; ev7; reflexivity|reflexivity|]. apply bs_break.
Qed.

Lemma read7_loop_prog m : forall j r u o B s, (j + m = 4)%nat -> 0 <= r < 2 ^ (7 * Z.of_nat j) -> Forall byte s ->
  match read7_loop (6 - j) r (7 * Z.of_nat j) s with
  | Ok (v, s') => exists r' k' u', v = to_i32 r' /\ 0 <= r' < u32 /\
      bs (loop3 (fbody prog_sbdf_read_7bitpacked_int32)) (rst r (7 * Z.of_nat j) u o B s) (ONormal (rst r' k' u' o B s'))
  | Err e => exists st', bs (loop3 (fbody prog_sbdf_read_7bitpacked_int32)) (rst r (7 * Z.of_nat j) u o B s) (OReturn (VInt e) st')
  end.
Proof.
  induction m as [|m IH]; intros j r u o B s Hj Hr Hs.
  all: replace (6 - j)%nat with (S (5 - j))%nat by lia.
  all: destruct s as [|b s];
    [ cbn [read7_loop]; eexists; cbn [loop3 fbody prog_sbdf_read_7bitpacked_int32];
      eapply bs_while_ret; [ev7; reflexivity|reflexivity|];
      (eapply bs_seq; [eapply bs_decl0; unfold rst; ev7; reflexivity|]);
      eapply bs_seq_ret; (eapply bs_if; [ev7; reflexivity|reflexivity|]); eapply bs_return; evs7; reflexivity | ].
  all: inversion Hs as [|? ? Hb Hs']; subst; rewrite read7_step;
       pose proof (read7_iter j r u o B b s ltac:(lia) Hr Hb) as It; cbn zeta in It;
       pose proof (pow7_bounds j ltac:(lia)) as P;
       cbn [loop3 fbody prog_sbdf_read_7bitpacked_int32 body_of] in *.
  all: destruct (128 <=? b) eqn:Eb;
    [ | exists (r + to_u32 (b mod 128 * 2 ^ (7 * Z.of_nat j))), (7 * Z.of_nat j), (VInt b); split; [reflexivity|];
        split; [ apply r_next; unfold byte in *; lia | eapply bs_while_brk; [ev7; reflexivity|reflexivity|exact It] ] ].
  all: destruct (28 <? 7 * Z.of_nat j + 7) eqn:Ek;
    [ eexists; eapply bs_while_ret; [ev7; reflexivity|reflexivity|exact It] | ].
  - exfalso. assert (j = 4)%nat by lia. subst j. cbn in Ek. lia.
  - assert (Hk : 7 * Z.of_nat j <= 21) by lia. unfold byte in Hb.
    destruct (r_next r (7 * Z.of_nat j) b ltac:(lia) Hr Hb) as (R1 & R2). specialize (R2 Hk).
    set (r1 := r + to_u32 (b mod 128 * 2 ^ (7 * Z.of_nat j))) in *.
    replace (5 - j)%nat with (6 - S j)%nat by lia.
    replace (7 * Z.of_nat j + 7) with (7 * Z.of_nat (S j)) in * by lia.
    pose proof (IH (S j) r1 (VInt b) o B s ltac:(lia) ltac:(lia) Hs') as Q.
    cbn [loop3 fbody prog_sbdf_read_7bitpacked_int32] in Q.
    destruct (read7_loop (6 - S j) r1 (7 * Z.of_nat (S j)) s) as [[v s']|e].
    + destruct Q as (r' & k' & u' & Ev & Rr & Bs). exists r', k', u'. split; [exact Ev|]. split; [exact Rr|].
      eapply bs_while_t; [ev7; reflexivity|reflexivity|exact It|exact Bs].
    + destruct Q as (st' & Bs). exists st'. eapply bs_while_t; [ev7; reflexivity|reflexivity|exact It|exact Bs].
Qed.


Theorem read7_bs s B : Forall byte s ->
  match read_7bit s with
  | Ok (v, s') => exists fin, bs (fbody prog_sbdf_read_7bitpacked_int32) (io_init prog_sbdf_read_7bitpacked_int32 [VNull; VNull] s B) (OReturn (VInt SBDF_OK) fin) /\
                              lookup "*v" (vars fin) = Some (VInt v) /\ inb fin = s' /\ outb fin = []
  | Err e => exists fin, bs (fbody prog_sbdf_read_7bitpacked_int32) (io_init prog_sbdf_read_7bitpacked_int32 [VNull; VNull] s B) (OReturn (VInt e) fin)
  end.
Proof.
  intros Hs. unfold read_7bit.
  pose proof (read7_loop_prog 4 0 0 VUndef VUndef B s eq_refl ltac:(cbn; lia) Hs) as L.
  change (6 - 0)%nat with 6%nat in L. change (7 * Z.of_nat 0) with 0 in L.
  cbn [loop3 fbody prog_sbdf_read_7bitpacked_int32] in L.
  unfold io_init. cbn [fbody fparams flocals prog_sbdf_read_7bitpacked_int32 combine map app].
  destruct (read7_loop 6 0 0 s) as [[v s']|e].
  - destruct L as (r' & k' & u' & Ev & Rr & Bs). eexists. split; [|split; [|split]].
    + eapply bs_seq; [eapply bs_decl1; [evs7; reflexivity|ev7; reflexivity]|].
      eapply bs_seq; [eapply bs_decl1; [evs7; reflexivity|ev7; reflexivity]|].
      eapply bs_seq; [exact Bs|].
      eapply bs_seq; [eapply bs_expr; unfold rst; evs7; reflexivity|].
      eapply bs_return. evs7. reflexivity.
    + cbn [vars lookup String.eqb Ascii.eqb Bool.eqb]. rewrite Ev. unfold to_i32, u32 in *. f_equal. f_equal. destruct (r' <? 2147483648) eqn:E; lia.
    + reflexivity.
    + reflexivity.
  - destruct L as (st' & Bs). exists st'.
    eapply bs_seq; [eapply bs_decl1; [evs7; reflexivity|ev7; reflexivity]|].
    eapply bs_seq; [eapply bs_decl1; [evs7; reflexivity|ev7; reflexivity]|].
    eapply bs_seq_ret. exact Bs.
Qed.

Theorem read7_correct s B : Forall byte s ->
  exists f0, forall f, (f0 <= f)%nat ->
  match read_7bit s with
  | Ok (v, s') => exists fin, call_io f prog_sbdf_read_7bitpacked_int32 [VNull; VNull] s B = OReturn (VInt SBDF_OK) fin /\
                              lookup "*v" (vars fin) = Some (VInt v) /\ inb fin = s' /\ outb fin = []
  | Err e => exists fin, call_io f prog_sbdf_read_7bitpacked_int32 [VNull; VNull] s B = OReturn (VInt e) fin
  end.
Proof.
  intros Hs. pose proof (read7_bs s B Hs) as H. destruct (read_7bit s) as [[v s']|e].
  - destruct H as (fin & Bs & H1 & H2 & H3). destruct (bs_sound _ _ _ Bs) as (f0 & F). exists f0. intros f Hf. exists fin.
    split; [apply F; exact Hf|]. auto.
  - destruct H as (fin & Bs). destruct (bs_sound _ _ _ Bs) as (f0 & F). exists f0. intros f Hf. exists fin. apply F; exact Hf.
Qed.
