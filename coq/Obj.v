(* Obj.v — object.c, sbdfstring.c (length-prefixed strings), bytearray.c as values.
   An element is the list of its bytes: exactly usize(type) bytes for fixed-size types (in the
   host's memory order), the content for strings and binaries (embedded NULs allowed; the
   terminating NUL of a string is implicit). *)
From Sbdf Require Export Prim.

Record obj := { oty : Z; oelems : list (list Z) }.

Definition ocount (o : obj) : Z := zlen (oelems o).

(* sbdf_str_cmp / sbdf_ba_memcmp: sign only (memcmp's magnitude is unspecified) *)
Definition str_cmp (a b : list Z) : Z := lex_cmp a b.

(* sbdf_init_array_int through sbdf_obj_create_arr; `lengths_given = false` is the strlen path *)
Definition obj_create_arr (ty : Z) (elems : list (list Z)) (lengths_given : bool) : res obj :=
  if is_arr ty then
    if negb lengths_given && (ty =? SBDF_BINARYTYPEID) then Err SBDF_ERROR_ARGUMENT_NULL
    else Ok {| oty := ty; oelems := if lengths_given then elems else map cstr elems |}
  else
    let sz := usize ty in
    if sz <? 0 then Err sz
    else if sz =? 0 then Err SBDF_ERROR_UNKNOWN_TYPEID
    else Ok {| oty := ty; oelems := elems |}.

Definition obj_copy (o : obj) : res obj :=
  let sz := if is_arr (oty o) then 8 else usize (oty o) in
  if sz <? 0 then Err sz
  else if sz =? 0 then Err SBDF_ERROR_UNKNOWN_TYPEID
  else Ok o.

Definition obj_copy_opt (o : option obj) : res obj :=
  match o with None => Err SBDF_ERROR_ARGUMENT_NULL | Some o => obj_copy o end.

(* sbdf_obj_eq on two distinct non-null objects *)
Definition obj_eq (a b : obj) : Z :=
  if negb (oty a =? oty b) then 0
  else if negb (ocount a =? ocount b) then 0
  else if is_arr (oty a) then
    (if list_eqb (fun x y => str_cmp x y =? 0) (oelems a) (oelems b) then 1 else 0)
  else
    let sz := usize (oty a) in
    if sz <? 0 then -1
    else if bytes_eqb (concat (oelems a)) (concat (oelems b)) then 1 else 0.

(* with the null / same-pointer cases (metadata defaults) *)
Definition obj_eq_opt (a b : option obj) : Z :=
  match a, b with
  | None, None => 1
  | Some x, Some y => obj_eq x y
  | _, _ => 0
  end.

(* sbdf_valuetype_to_object *)
Definition valuetype_to_object (id : Z) : obj :=
  {| oty := SBDF_BINARYTYPEID; oelems := [[id mod 256]] |}.

Section ObjIO.
Variable swp : bool.
Variable cap : option Z.

Definition packed_byte_size (elems : list (list Z)) : Z :=
  fold_left (fun acc e => acc + (len7 (zlen e) + zlen e)) elems 0.

(* sbdf_write_objects *)
Definition write_objects (o : obj) (packed : bool) : W unit :=
  if is_arr (oty o) then
    (if packed then write_int32 swp (packed_byte_size (oelems o)) else wret tt) ;;w
    wfor (oelems o) (fun e =>
      (if packed then write_7bit (zlen e) else write_int32 swp (zlen e)) ;;w
      if zlen e =? 0 then wret tt else put e SBDF_ERROR_OUT_OF_MEMORY)
  else
    let sz := usize (oty o) in
    if sz <? 0 then wfail sz
    else if sz =? 0 then wfail SBDF_ERROR_UNKNOWN_TYPEID
    else put (concat (map (swapb swp) (oelems o))) SBDF_ERROR_IO.

Definition obj_write_arr (o : obj) : W unit :=
  write_int32 swp (ocount o) ;;w write_objects o true.

Definition obj_write (o : obj) : W unit := write_objects o false.

(* one string/binary element of sbdf_read_objects *)
Definition read_elem (ty : Z) (packed : bool) : R (list Z) :=
  len <-r (if packed then read_7bit else read_int32 swp) ;;
  if len <? 0 then rfail SBDF_ERROR_INVALID_SIZE else
  if (ty =? SBDF_STRINGTYPEID) && (len =? INT_MAX) then rfail SBDF_ERROR_OUT_OF_MEMORY else
  ralloc cap (len + (if ty =? SBDF_STRINGTYPEID then 5 else 4)) ;;r
  fread_bytes len.

(* sbdf_read_objects *)
Definition read_objects (ty count : Z) (packed : bool) : R obj :=
  if count <? 0 then rfail SBDF_ERROR_INVALID_SIZE else
  if is_arr ty then
    ralloc cap (count * 8) ;;r
    (if packed then (_ <-r read_int32 swp ;; rret tt) else rret tt) ;;r
    elems <-r rrepeat count (read_elem ty packed) ;;
    rret {| oty := ty; oelems := elems |}
  else
    let sz := usize ty in
    if sz <? 0 then rfail sz
    else if sz =? 0 then rfail SBDF_ERROR_UNKNOWN_TYPEID
    else
      ralloc cap (sz * count) ;;r
      bs <-r fread_bytes (sz * count) ;;
      rret {| oty := ty; oelems := map (swapb swp) (chunks (Z.to_nat count) sz bs) |}.

Definition obj_read_arr (ty : Z) : R obj :=
  count <-r read_int32 swp ;; read_objects ty count true.

Definition obj_read (ty : Z) : R obj := read_objects ty 1 false.

Definition skip_one_unpacked : R unit :=
  skip <-r read_int32 swp ;;
  if skip <? 0 then rfail SBDF_ERROR_INVALID_SIZE else fseek_cur skip.

(* sbdf_skip_objects *)
Definition skip_objects (ty c : Z) (packed : bool) : R unit :=
  if c <? 0 then rfail SBDF_ERROR_INVALID_SIZE else
  if is_arr ty then
    if packed then skip_one_unpacked
    else (_ <-r rrepeat c skip_one_unpacked ;; rret tt)
  else
    let sz := usize ty in
    if sz <? 0 then rfail sz
    else if sz =? 0 then rfail SBDF_ERROR_UNKNOWN_TYPEID
    else fseek_cur (c * sz).

Definition obj_skip_arr (ty : Z) : R unit :=
  count <-r read_int32 swp ;; skip_objects ty count true.

Definition obj_skip (ty : Z) : R unit := skip_objects ty 1 false.

End ObjIO.
