(* ImpFactsTmDestroy.v - sbdf_tm_destroy of src/tablemetadata.c from the source: the table-level metadata, then the
   metadata of every column in order, go to sbdf_md_destroy exactly once; the column array and the struct are released. *)
From Sbdf Require Import ImpCall Gen.Prog Gen.Consts Base BaseFacts ImpBase ImpFactsCells ImpFactsStrDestroy ImpFactsDestroy ImpFactsMdDestroy.
From Coq Require Import ZifyBool.
Local Open Scope Z_scope.
Ltac Zify.zify_post_hook ::= Z.div_mod_to_equations.

Ltac evtm := cbn [prog_env eval_args callee_init finish_call copy_in copy_out try_update update lookup combine map app String.append
                 String.eqb Ascii.eqb Bool.eqb fparams flocals fbody vars inb outb budget_var fail_var strm_var cells_var cell_token List.length Nat.eqb eval set_var cast
                 prog_sbdf_md_destroy prog_sbdf_tm_destroy truth binop_int b2z negb heap_of as_ptr storable fst snd];
  change (0 =? 0) with true; change (1 =? 0) with false; cbn [negb b2z].

(* what sbdf_md_destroy does to the cell heap, for a pointer that may be null *)
Definition mdh_destroys (m : list Z) (h : heap) (v : val) (h' : heap) : Prop :=
  (as_ptr v = VNull /\ h' = h) \/
  (exists hb first modif h2, as_ptr v = VCell hb 0 /\ nth_error h hb = Some (Some [first; VInt modif]) /\ md_destroys m h (as_ptr first) h2 /\
                             nth_error h2 hb = Some (Some [first; VInt modif]) /\ h' = kill hb h2).
Fixpoint mdh_destroys_list (m : list Z) (keep : list nat) (h : heap) (cells : list val) (h' : heap) : Prop :=
  match cells with
  | [] => h' = h
  | c :: r => exists h1, mdh_destroys m h c h1 /\ (forall b, In b keep -> nth_error h1 b = nth_error h b) /\ mdh_destroys_list m keep h1 r h'
  end.

(* a table metadata struct at block tb: table-level metadata, number of columns, column metadata array *)
Definition tm_block (h : heap) (tb : nat) (tmd : val) (n : Z) (cm : val) : Prop :=
  nth_error h tb = Some (Some [tmd; VInt n; cm]).

Section TmDestroy.
Variables (bv : val) (k : Z) (sx : list Z) (m o : list Z).

Lemma md_destroy_opt_bs h v h' : mdh_destroys m h v h' ->
  exists hv nv, bsE prog_env (fbody prog_sbdf_md_destroy) (fr [("out"%string, as_ptr v); ("head"%string, VUndef); ("next"%string, VUndef)] bv k sx h m o)
    (ONormal (fr [("out"%string, as_ptr v); ("head"%string, hv); ("next"%string, nv)] bv k sx h' m o)).
Proof.
  intros [(N & ->)|(hb & first & modif & h2 & P & Hh & D & Hh2 & ->)].
  - rewrite N. exists VUndef, VUndef. cbn [fbody prog_sbdf_md_destroy]. unfold fr.
    eapply bsE_seq; [eapply bsE_decl0; evtm; reflexivity|]. eapply bsE_if; [evtm; reflexivity|reflexivity|apply bsE_skip].
  - rewrite P. destruct (md_destroy_bs bv k sx m o h hb first modif h2 VUndef VUndef Hh D Hh2) as (nv & B). exists VNull, nv. exact B.
Qed.

Lemma tm_cols_loop tb cmb n tmd cm ccells slack :
  forall rest done h h', ccells = done ++ rest ++ slack -> zlen done + zlen rest = n -> n < int_max ->
  tm_block h tb tmd n cm -> as_ptr cm = VCell cmb 0 -> nth_error h cmb = Some (Some ccells) ->
  mdh_destroys_list m [tb; cmb] h rest h' ->
  bsE prog_env
    (SWhile (EBin Lt (EVar "i") (ECellLoad (EVar "tmd") (EConst 1) false))
       (SSeq (SCall None "sbdf_md_destroy" [(AVal (ECellLoad (ECellLoad (EVar "tmd") (EConst 2) true) (EVar "i") true))]) (SExpr (EPreInc "i"))))
    (fr [("tmd"%string, VCell tb 0); ("i"%string, VInt (zlen done))] bv k sx h m o)
    (ONormal (fr [("tmd"%string, VCell tb 0); ("i"%string, VInt n)] bv k sx h' m o)).
Proof.
  induction rest as [|c rest IH]; intros done h h' Hp Hn Hmax Ht Hcm Hcb L; unfold fr; unfold tm_block in Ht; unfold int_max in Hmax.
  - cbn [mdh_destroys_list] in L. subst h'. change (zlen (@nil val)) with 0 in Hn. replace (zlen done) with n by lia.
    eapply bsE_while_f; [evtm; chk7; evtm; cellrw Ht; evtm; rewrite Z.ltb_irrefl; reflexivity|reflexivity].
  - cbn [mdh_destroys_list] in L. destruct L as (h1 & D & K & L).
    pose proof (zlen_nonneg done) as Pd. assert (Hz : zlen (c :: rest) = 1 + zlen rest) by (unfold zlen; cbn [List.length]; lia). pose proof (zlen_nonneg rest) as Pr.
    assert (Hd : zlen done < n) by lia.
    assert (Hnth : nth_error ccells (Z.to_nat (0 + zlen done)) = Some c).
    { rewrite Hp. replace (Z.to_nat (0 + zlen done)) with (List.length done) by (unfold zlen; lia). rewrite nth_error_app2 by lia. rewrite Nat.sub_diag. reflexivity. }
    destruct (md_destroy_opt_bs h c h1 D) as (hv & nv & MD). unfold fr in MD. cbn [app] in MD.
    eapply bsE_while_t; [evtm; chk7; evtm; cellrw Ht; evtm; replace (zlen done <? n) with true by lia; reflexivity|reflexivity| |].
    + eapply bsE_seq.
      * eapply bsE_call_void; [reflexivity
          |evtm; chk7; evtm; cellrw Ht; evtm; rewrite Hcm; evtm; unfold cell_get; rewrite Hcb; replace (0 <=? 0 + zlen done) with true by lia; rewrite Hnth; evtm; reflexivity
          |reflexivity|evtm; exact MD|evtm; reflexivity].
      * eapply bsE_expr. evtm. unfold incr. chk7. evtm. reflexivity.
    + replace (zlen done + 1) with (zlen (done ++ [c])) by (rewrite zlen_app; reflexivity).
      apply (IH (done ++ [c]) h1 h'); [rewrite <- app_assoc; exact Hp|rewrite zlen_app; change (zlen [c]) with 1; lia|unfold int_max; exact Hmax| | |  |exact L].
      * unfold tm_block. rewrite (K tb) by (left; reflexivity). exact Ht.
      * exact Hcm.
      * rewrite (K cmb) by (right; left; reflexivity). exact Hcb.
Qed.

Lemma tm_destroy_bs h tb tmd n cm cmb ccells cused cslack h1 h2 i0 : n < int_max ->
  tm_block h tb tmd n cm -> mdh_destroys m h tmd h1 -> (forall b, In b [tb; cmb] -> nth_error h1 b = nth_error h b) ->
  as_ptr cm = VCell cmb 0 -> nth_error h cmb = Some (Some ccells) -> ccells = cused ++ cslack -> zlen cused = n ->
  mdh_destroys_list m [tb; cmb] h1 cused h2 -> tb <> cmb ->
  bsE prog_env (fbody prog_sbdf_tm_destroy) (fr [("tmd"%string, VCell tb 0); ("i"%string, i0)] bv k sx h m o)
    (ONormal (fr [("tmd"%string, VCell tb 0); ("i"%string, VInt n)] bv k sx (kill tb (kill cmb h2)) m o)).
Proof.
  intros Hmax Ht D1 K1 Hcm Hcb Hsplit Hn L Hne.
  assert (Ht1 : tm_block h1 tb tmd n cm) by (unfold tm_block in *; rewrite (K1 tb) by (left; reflexivity); exact Ht).
  assert (Hcb1 : nth_error h1 cmb = Some (Some ccells)) by (rewrite (K1 cmb) by (right; left; reflexivity); exact Hcb).
  pose proof (tm_cols_loop tb cmb n tmd cm ccells cslack cused [] h1 h2 (eq_trans Hsplit eq_refl) ltac:(change (zlen (@nil val)) with 0; lia) Hmax Ht1 Hcm Hcb1 L) as LOOP.
  change (zlen (@nil val)) with 0 in LOOP. unfold fr in LOOP. cbn [app] in LOOP.
  assert (KEEP : forall cells hh hh', mdh_destroys_list m [tb; cmb] hh cells hh' -> nth_error hh' tb = nth_error hh tb /\ nth_error hh' cmb = nth_error hh cmb).
  { induction cells as [|c cells IH]; intros hh hh' LL; cbn [mdh_destroys_list] in LL; [subst; split; reflexivity|].
    destruct LL as (hx & _ & K & LL). destruct (IH hx hh' LL) as (A & B). rewrite A, B. split; apply K; [left|right; left]; reflexivity. }
  destruct (KEEP cused h1 h2 L) as (Kt & Kc).
  destruct (md_destroy_opt_bs h tmd h1 D1) as (hv & nv & MD). unfold fr in MD. cbn [app] in MD.
  unfold tm_block in Ht, Ht1. cbn [fbody prog_sbdf_tm_destroy]. unfold fr.
  assert (Ht2 : nth_error h2 tb = Some (Some [tmd; VInt n; cm])) by (rewrite Kt; exact Ht1).
  assert (Hcb2 : nth_error h2 cmb = Some (Some ccells)) by (rewrite Kc; exact Hcb1).
  destruct (set_nth_v_some h2 cmb _ None Hcb2) as (h3 & E3).
  assert (Ht3 : nth_error h3 tb = Some (Some [tmd; VInt n; cm])) by (rewrite (set_nth_v_other h2 cmb tb None h3 E3) by congruence; exact Ht2).
  destruct (set_nth_v_some h3 tb _ None Ht3) as (h4 & E4).
  assert (Hfin : kill tb (kill cmb h2) = h4) by (unfold kill; rewrite E3, E4; reflexivity). rewrite Hfin.
  eapply bsE_seq; [eapply bsE_decl0; evtm; reflexivity|].
  eapply bsE_if; [evtm; reflexivity|reflexivity|].
  eapply bsE_seq.
  { destruct D1 as [(N & Eh)|(hb & first & modif & hh2 & P & _)].
    - eapply bsE_if; [evtm; chk7; evtm; cellrw Ht; evtm; rewrite N; reflexivity|reflexivity|]. subst h1. rewrite N in MD.
      (* a null table-level pointer: the call is skipped; sbdf_md_destroy(NULL) would have done nothing either *)
      apply bsE_skip.
    - eapply bsE_if; [evtm; chk7; evtm; cellrw Ht; evtm; rewrite P; reflexivity|reflexivity|].
      eapply bsE_call_void; [reflexivity|evtm; chk7; evtm; cellrw Ht; evtm; reflexivity|reflexivity|evtm; exact MD|evtm; reflexivity]. }
  eapply bsE_seq.
  { eapply bsE_if; [evtm; chk7; evtm; cellrw Ht1; evtm; rewrite Hcm; reflexivity|reflexivity|].
    eapply bsE_seq; [eapply bsE_seq; [eapply bsE_expr; evtm; chk7; evtm; reflexivity|exact LOOP]|].
    eapply bsE_expr. evtm. chk7. evtm. cellrw Ht2. evtm. rewrite Hcm. evtm. rewrite Hcb2. evtm. rewrite E3. evtm. reflexivity. }
  eapply bsE_expr. evtm. rewrite Ht3. evtm. rewrite E4. evtm. reflexivity.
Qed.

End TmDestroy.

Theorem tm_destroy_source k sx m h tb tmd n cm cmb ccells cused cslack h1 h2 : n < int_max ->
  tm_block h tb tmd n cm -> mdh_destroys m h tmd h1 -> (forall b, In b [tb; cmb] -> nth_error h1 b = nth_error h b) ->
  as_ptr cm = VCell cmb 0 -> nth_error h cmb = Some (Some ccells) -> ccells = cused ++ cslack -> zlen cused = n ->
  mdh_destroys_list m [tb; cmb] h1 cused h2 -> tb <> cmb ->
  exists f0, forall f, (f0 <= f)%nat -> exists fin,
    callC prog_env f prog_sbdf_tm_destroy [VCell tb 0] m k sx h = ONormal fin /\ inb fin = m /\ lookup cells_var (vars fin) = Some (VHeap (kill tb (kill cmb h2))).
Proof.
  intros. destruct (bsE_sound _ _ _ _ (tm_destroy_bs (VInt 0) k sx m [] h tb tmd n cm cmb ccells cused cslack h1 h2 VUndef H H0 H1 H2 H3 H4 H5 H6 H7 H8)) as (f0 & F).
  exists f0. intros f Hf. eexists. split; [apply F; exact Hf|]. split; reflexivity.
Qed.
