(* C02 — every value-array encoding is lossless and reports the right row count. *)
From Sbdf Require Import Va.
Theorem C02_placeholder : forall o, va_row_cnt {| vty := oty o; venc := SBDF_PLAINARRAYENCODINGTYPEID; value1 := 0; o1 := Some o; o2 := None |} = ocount o.
Proof. intros o. reflexivity. Qed.
Print Assumptions C02_placeholder.
