(* C02 — every value-array encoding is lossless and reports the right row count.
   Only statements and `exact`; the proofs are in VaFacts.v. *)
From Sbdf Require Import Va VaFacts PrimFacts ObjFacts.

(* plain, run-length: decoding returns the original values, in order, bit for bit; the row count
   is the number of values.  `obj_ok` = the element type is one the constructors accept. *)
Theorem C02_plain_lossless : forall o, obj_ok o ->
  exists v, va_create_plain o = Ok v /\ va_get_values v = Ok o /\ va_row_cnt v = ocount o.
Proof. exact va_plain_lossless. Qed.
Print Assumptions C02_plain_lossless.

Theorem C02_rle_lossless : forall o, obj_ok o ->
  exists v, va_create_rle o = Ok v /\ va_get_values v = Ok o /\ va_row_cnt v = ocount o.
Proof. exact va_rle_lossless. Qed.
Print Assumptions C02_rle_lossless.

(* bit packing maps each element to zero / non-zero *)
Theorem C02_bit_lossless : forall o, obj_ok o ->
  exists v, va_create_bit o = Ok v /\ va_get_values v = Ok (bools_of o) /\ va_row_cnt v = ocount o.
Proof. exact va_bit_lossless. Qed.
Print Assumptions C02_bit_lossless.

(* the run-length encoder itself: runs expand to the input, add up to its length, pair up with
   the values and are stored as length-1 in a byte (so no run is longer than 256) *)
Theorem C02_rle_runs : forall elems,
  let '(rs, vs) := rle_encode elems in
  rle_expand rs vs = elems /\ rle_total rs = zlen elems /\ length rs = length vs /\ runs_ok rs.
Proof. exact rle_encode_spec. Qed.
Print Assumptions C02_rle_runs.

Theorem C02_unknown_encoding_refused : forall enc o,
  enc <> SBDF_PLAINARRAYENCODINGTYPEID -> enc <> SBDF_RUNLENGTHENCODINGTYPEID -> enc <> SBDF_BITARRAYENCODINGTYPEID ->
  va_create enc o = Err SBDF_ERROR_UNKNOWN_VALUEARRAY_ENCODING.
Proof. exact va_unknown_encoding_refused. Qed.
Print Assumptions C02_unknown_encoding_refused.

(* the same after the array has been written to a stream and read back (either byte order
   configuration): the reader returns the very array, whatever follows it in the stream, and the
   writer produced exactly those bytes under any sufficient budget *)
Theorem C02_write_read : forall swp v, wf_va v -> byte_ok (vty v) ->
  wspec (va_write swp v) (Ok tt) (enc_va swp v) /\ rspec (va_read swp None) (enc_va swp v) v.
Proof. intros swp v W B. split; [exact (wspec_va swp v W)|exact (rspec_va swp v W B)]. Qed.
Print Assumptions C02_write_read.

(* the hypotheses are satisfiable by a non-trivial value: an int array with a 257-run *)
Example C02_nonvacuous :
  let o := {| oty := SBDF_INTTYPEID; oelems := repeat [7; 0; 0; 0] 257 ++ [[8; 0; 0; 0]] |} in
  obj_ok o /\ fst (rle_encode (oelems o)) = [255; 0; 0].
Proof. split; [right; reflexivity|vm_compute; reflexivity]. Qed.
