(* C05 — hostile or corrupt input never breaks memory safety.
   What the model can carry of this property (the C pointer arithmetic itself is observed by
   ASan/UBSan and the allocator ledger in the correspondence run, not proved):
   - termination and totality: every reader of the model is a total Gallina function, defined by
     structural recursion on the unread input or on a count bounded by it; for EVERY byte string a
     call returns a value or a status, nothing else;
   - a failed read carries no value: `Err status` has no payload (output "unset" by construction);
   - only documented statuses are returned, by every reader and by the whole session;
   - the size and count fields that used to overflow or be trusted are refused.
   Statements only; proofs in DocFacts.v, StatusFacts.v, SevenBit.v. *)
From Sbdf Require Import File PrimFacts SevenBit VaFacts StatusFacts DocFacts.

Theorem C05_session_statuses_documented : forall swp cap subset bytes,
  let '(_, st, _) := read_table swp cap subset bytes in documented st.
Proof. exact read_table_status_documented. Qed.
Print Assumptions C05_session_statuses_documented.

Theorem C05_reader_statuses_documented : forall swp cap,
  errs_in fh_read /\ errs_in (tm_read swp cap) /\
  (forall ncols subset, errs_in (ts_read swp cap ncols subset)) /\ (forall ncols, errs_in (ts_skip swp cap ncols)) /\
  errs_in (cs_read swp cap) /\ errs_in (cs_skip swp) /\ errs_in (va_read swp cap) /\ errs_in (va_skip swp).
Proof.
  intros swp cap.
  exact (conj errs_fh (conj (errs_tm_read swp cap) (conj (errs_ts_read swp cap) (conj (errs_ts_skip swp cap)
        (conj (errs_cs_read swp cap) (conj (errs_cs_skip swp) (conj (errs_va_read swp cap) (errs_va_skip swp)))))))).
Qed.
Print Assumptions C05_reader_statuses_documented.

(* the documented set is the set of status macros of errors.h, regenerated on every run *)
Theorem C05_documented_is_errors_h : forall e, documented e <-> In e all_status_macros.
Proof.
  intros e. unfold documented. rewrite existsb_exists. split.
  - intros (x & Hx & E). apply Z.eqb_eq in E. now subst.
  - intros H. exists e. split; [exact H|apply Z.eqb_refl].
Qed.
Print Assumptions C05_documented_is_errors_h.

(* sizes and counts from the stream that must not be trusted *)
Theorem C05_hostile_sizes_refused : forall swp cap v tail ty ncols subset, i32_range v -> v < 0 ->
  obj_read_arr swp cap ty (enc32 swp v ++ tail) = Err SBDF_ERROR_INVALID_SIZE /\
  read_string swp cap (enc32 swp v ++ tail) = Err SBDF_ERROR_INVALID_SIZE /\
  ts_read swp cap ncols subset ([223; 91; 3] ++ enc32 swp v ++ tail) = Err SBDF_ERROR_INVALID_SIZE /\
  va_read swp cap (SBDF_RUNLENGTHENCODINGTYPEID :: ty :: enc32 swp v ++ tail) = Err SBDF_ERROR_INVALID_SIZE /\
  va_read swp cap (SBDF_BITARRAYENCODINGTYPEID :: ty :: enc32 swp v ++ tail) = Err SBDF_ERROR_INVALID_SIZE.
Proof.
  intros swp cap v tail ty ncols subset R H.
  split; [now apply obj_read_arr_negative_count|]. split; [now apply read_string_negative_length|].
  split; [now apply ts_read_negative_column_count|].
  split; apply va_read_negative_row_count; auto.
Qed.
Print Assumptions C05_hostile_sizes_refused.

Theorem C05_inconsistent_run_length_array_refused : forall ty n runs vals,
  (is_arr ty = true \/ 0 < usize ty) -> (length runs <> length vals \/ rle_total runs <> n) ->
  va_get_values {| vty := ty; venc := SBDF_RUNLENGTHENCODINGTYPEID; value1 := n;
                   o1 := Some (byte_obj runs); o2 := Some {| oty := ty; oelems := vals |} |} = Err SBDF_ERROR_INVALID_SIZE.
Proof. exact get_values_inconsistent_rows. Qed.
Print Assumptions C05_inconsistent_run_length_array_refused.

Theorem C05_overlong_packed_length_refused : forall b0 b1 b2 b3 b4 rest,
  128 <= b0 -> 128 <= b1 -> 128 <= b2 -> 128 <= b3 -> 128 <= b4 ->
  read_7bit (b0 :: b1 :: b2 :: b3 :: b4 :: rest) = Err SBDF_ERROR_INVALID_SIZE.
Proof. exact read7_overlong. Qed.
Print Assumptions C05_overlong_packed_length_refused.

(* allocations above what the system grants are reported as out-of-memory, not crashed on (the
   allocation cap of the model: used by the correspondence run with cap = 64 MiB) *)
Theorem C05_refused_allocation_reported : forall c n s, c < n -> ralloc (Some c) n s = Err SBDF_ERROR_OUT_OF_MEMORY.
Proof. intros c n s H. unfold ralloc, alloc_ok. destruct (n <=? c) eqn:E; [lia|reflexivity]. Qed.
Print Assumptions C05_refused_allocation_reported.

(* ---- the core of the reader from the source: sbdf_read_objects (src/object.c, translated on every run with its calls) ----
   For EVERY byte stream, count, memory, heap and allocation oracle the call returns a status and nothing else (it runs to
   completion in a semantics in which every out-of-bounds access, use of a released block, double free, unset local and
   signed overflow is a fault).  Elements of fixed size: the status is given by fixed_status; on success the header block,
   the data block holding exactly the bytes taken from the stream, the output argument; on every failure the output
   argument is null, no block of the cell heap stays allocated, and the caller's memory is a prefix of the memory. *)
From Sbdf Require Import Imp ImpCall Gen.Prog ImpBase ImpFactsCells ImpFactsReadObj ImpFactsReadArr.

Theorem C05_source_read_objects_fixed : forall rf rp fo po k sx m h v cnt pk, int_min <= cnt <= int_max -> is_arr v = false ->
  exists f0, forall f, (f0 <= f)%nat -> exists fin,
    callC prog_env f prog_sbdf_read_objects [VPtr rf fo; VInt v; VInt cnt; VPtr rp po; VInt pk] m k sx h = OReturn (VInt (fixed_status k sx v cnt)) fin /\
    (fixed_status k sx v cnt = SBDF_OK ->
       Imp.lookup "*object" (vars fin) = Some (VCell (List.length h) 0) /\
       Imp.lookup cells_var (vars fin) = Some (VHeap (h ++ [Some [VInt v; VInt cnt; VPtr RIn (zlen m)]])) /\
       inb fin = m ++ firstn (Z.to_nat (usize v * cnt)) sx /\
       Imp.lookup strm_var (vars fin) = Some (VBytes (skipn (Z.to_nat (usize v * cnt)) sx))) /\
    (fixed_status k sx v cnt <> SBDF_OK ->
       Imp.lookup "*object" (vars fin) = Some VNull /\
       (Imp.lookup cells_var (vars fin) = Some (VHeap h) \/ Imp.lookup cells_var (vars fin) = Some (VHeap (h ++ [None]))) /\
       exists m', inb fin = m ++ m').
Proof. exact read_objects_fixed_source. Qed.
Print Assumptions C05_source_read_objects_fixed.

(* without allocation failures that status is the model's, and the stream ends where the model's ends *)
Theorem C05_source_fixed_status_is_the_models : forall k sx v cnt p, k < 0 -> is_arr v = false ->
  match read_objects false None v cnt p sx with
  | Ok (ob, s') => fixed_status k sx v cnt = SBDF_OK /\ s' = skipn (Z.to_nat (usize v * cnt)) sx /\ oty ob = v
  | Err st => fixed_status k sx v cnt = st
  end.
Proof. exact fixed_status_model. Qed.
Print Assumptions C05_source_fixed_status_is_the_models.

(* ... and the data block then holds exactly the elements of the model's object, in order *)
Theorem C05_source_fixed_content_is_the_models : forall k sx v cnt p ob s', k < 0 -> is_arr v = false -> read_objects false None v cnt p sx = Ok (ob, s') ->
  List.concat (oelems ob) = firstn (Z.to_nat (usize v * cnt)) sx /\ oty ob = v.
Proof. exact fixed_content_model. Qed.
Print Assumptions C05_source_fixed_content_is_the_models.

(* string and binary elements: the outcome is given by arr_spec (a functional description with the allocation oracle:
   pointer array, optional byte-size header, then per element a length - 32-bit or 7-bit packed -, a fresh block and the
   bytes); whatever fails half-way - a length that cannot be read, a negative length, a string of INT_MAX bytes, an
   allocation, a stream that ends inside an element - everything built so far is released exactly once *)
Theorem C05_source_read_objects_arrays : forall rf rp fo po k sx m h v cnt pk, Forall byte sx -> int_min <= cnt <= int_max -> is_arr v = true ->
  exists f0, forall f, (f0 <= f)%nat ->
  match arr_spec k sx m v cnt pk with
  | EOk qs k' s' m' => exists fin,
      callC prog_env f prog_sbdf_read_objects [VPtr rf fo; VInt v; VInt cnt; VPtr rp po; VInt pk] m k sx h = OReturn (VInt SBDF_OK) fin /\
      Imp.lookup "*object" (vars fin) = Some (VCell (List.length h) 0) /\ Imp.lookup cells_var (vars fin) = Some (VHeap (arr_heap h v cnt qs [])) /\ zlen qs = cnt /\
      inb fin = m' /\ Imp.lookup strm_var (vars fin) = Some (VBytes s') /\ Imp.lookup fail_var (vars fin) = Some (VInt k')
  | EErr st => exists fin,
      callC prog_env f prog_sbdf_read_objects [VPtr rf fo; VInt v; VInt cnt; VPtr rp po; VInt pk] m k sx h = OReturn (VInt st) fin /\
      Imp.lookup "*object" (vars fin) = Some VNull /\
      (Imp.lookup cells_var (vars fin) = Some (VHeap h) \/ Imp.lookup cells_var (vars fin) = Some (VHeap (h ++ [None])) \/ Imp.lookup cells_var (vars fin) = Some (VHeap (h ++ [None; None]))) /\
      prefix_of m (inb fin)
  end.
Proof. exact read_objects_arr_source. Qed.
Print Assumptions C05_source_read_objects_arrays.

(* and that description is the model's read_objects when no allocation fails: same status, same stream position, and the
   memory has grown by exactly one block per element of the model's object, in order *)
Theorem C05_source_arr_spec_is_the_models : forall k sx m v cnt pk, k < 0 -> is_arr v = true -> Forall byte sx ->
  match read_objects false None v cnt (negb (pk =? 0)) sx with
  | Ok (ob, s') => exists qs, arr_spec k sx m v cnt pk = EOk qs k s' (blocks (v =? SBDF_STRINGTYPEID) m (oelems ob)) /\
                               List.length qs = List.length (oelems ob) /\ oty ob = v
  | Err st => arr_spec k sx m v cnt pk = EErr st
  end.
Proof. exact arr_spec_model. Qed.
Print Assumptions C05_source_arr_spec_is_the_models.

(* sbdf_va_read from the source (sbdf_read_valuearray_int with a handle, then the reset of the handle on failure), for every
   stream that does not start with the bit-array encoding byte (that branch calls sbdf_obj_create, which is not translated):
   plain and run-length arrays of every element type, unknown encodings, truncation anywhere, negative row counts, every
   allocation schedule.  The call returns a status and nothing else; on success the handle points at the new struct and
   everything that was allocated follows the caller's heap; on failure the handle is null and every block the call
   allocated has been released (the heap is the caller's followed by released blocks only); without allocation failures
   status and stream position are the model's va_read; with allocation failures, a read that still succeeds has consumed
   exactly what the model consumes (allocation failures never shift the stream position of a successful read). *)
From Sbdf Require Import ImpFactsReadVa.
Theorem C05_source_va_read : forall rf rp fo po k sx m h, Forall byte sx -> (forall t s2, sx <> 3 :: t :: s2) ->
  exists f0, forall f, (f0 <= f)%nat -> exists st fin,
    callC prog_env f prog_sbdf_va_read [VPtr rf fo; VPtr rp po] m k sx h = OReturn (VInt st) fin /\
    prefix_of m (inb fin) /\
    (k < 0 -> match Va.va_read false None sx with
              | Ok (_, sM) => st = SBDF_OK /\ Imp.lookup strm_var (vars fin) = Some (VBytes sM)
              | Err e => st = e end) /\
    ((st = SBDF_OK /\ Imp.lookup "*handle" (vars fin) = Some (VCell (List.length h) 0) /\
        exists blk newb, Imp.lookup cells_var (vars fin) = Some (VHeap (h ++ Some blk :: newb)) /\ va_rel (inb fin) (h ++ Some blk :: newb) (List.length h) (h ++ None :: nones (List.length newb))) \/
     (st < 0 /\ Imp.lookup "*handle" (vars fin) = Some VNull /\ exists j, Imp.lookup cells_var (vars fin) = Some (VHeap (h ++ nones j)))) /\
    (* under ANY allocation schedule: a read that succeeds has consumed exactly what the model's va_read consumes *)
    (st = SBDF_OK -> match Va.va_read false None sx with Ok (_, sM) => Imp.lookup strm_var (vars fin) = Some (VBytes sM) | Err _ => False end).
Proof. exact va_read_source. Qed.
Print Assumptions C05_source_va_read.

(* the translated programs run (interpreter of ImpCall.v on Gen/Prog.v, evaluated by the kernel's virtual machine): a plain array
   of two ints followed by one more byte, and a run-length array of strings - status, handle, cell heap, memory, rest of the
   stream; the hypotheses of the theorems above are met by concrete calls, and the outcomes are the ones they state *)
Definition c05_show (o : outcome) :=
  match o with
  | OReturn v s => (Some v, Imp.lookup "*handle" (vars s), Imp.lookup cells_var (vars s), inb s, Imp.lookup strm_var (vars s))
  | _ => (None, None, None, [], None)
  end.
Example C05_source_va_read_runs_plain :
  c05_show (callC prog_env 400 prog_sbdf_va_read [tok; tok] [] (-1) [1;2; 2;0;0;0; 5;0;0;0; 7;0;0;0; 99] []) =
  (Some (VInt 0), Some (VCell 0 0), Some (VHeap [Some [VInt 2; VInt 1; VInt 0; VCell 1 0; VInt 0]; Some [VInt 2; VInt 2; VPtr RIn 0]]),
   [5; 0; 0; 0; 7; 0; 0; 0], Some (VBytes [99])).
Proof. vm_compute. reflexivity. Qed.
Example C05_source_va_read_runs_rle :
  c05_show (callC prog_env 2000 prog_sbdf_va_read [tok; tok] [] (-1) [2;10; 3;0;0;0;  1;0;0;0; 2;  1;0;0;0; 3;0;0;0; 2;97;98; 77] []) =
  (Some (VInt 0), Some (VCell 0 0),
   Some (VHeap [Some [VInt 10; VInt 2; VInt 3; VCell 1 0; VCell 2 0]; Some [VInt 254; VInt 1; VPtr RIn 0]; Some [VInt 10; VInt 1; VCell 3 0]; Some [VPtr RIn 5]]),
   [2; 3; 0; 0; 0; 97; 98; 0], Some (VBytes [77])).
Proof. vm_compute. reflexivity. Qed.
(* truncated inside the second element of a packed string array: everything built is released *)
Example C05_source_va_read_runs_truncated :
  c05_show (callC prog_env 2000 prog_sbdf_va_read [tok; tok] [] (-1) [1;10; 2;0;0;0; 9;0;0;0; 2;97;98; 5;99] []) =
  (Some (VInt SBDF_ERROR_IO), Some VNull, Some (VHeap [None; None; None]), [3; 0; 0; 0; 97; 98; 0; 6; 0; 0; 0; 99; 205; 205; 205; 205; 0], Some (VBytes [])).
Proof. vm_compute. reflexivity. Qed.

(* the source's sbdf_cs_read against the L1 model (Slice.v): whenever the call succeeds - under ANY allocation schedule - on a
   stream the model's cs_read accepts (no bit arrays: that branch of the value-array reader is not translated), the stream
   stands exactly where the model leaves it.  (The full statement about the call - every failure releases everything, every
   success is releasable - is C12_source_cs_read_full.) *)
From Sbdf Require Import ImpFactsTsRead Slice.
Theorem C05_source_cs_read_position_is_the_models : forall rf rp fo po k sx m h c sM, Forall byte sx -> cs_nobit sx -> Slice.cs_read false None sx = Ok (c, sM) ->
  exists f0, forall f, (f0 <= f)%nat -> exists st fin,
    callC prog_env f prog_sbdf_cs_read [VPtr rf fo; VPtr rp po] m k sx h = OReturn (VInt st) fin /\
    (st = SBDF_OK -> Imp.lookup strm_var (vars fin) = Some (VBytes sM)).
Proof. exact cs_read_position_is_the_models. Qed.
Print Assumptions C05_source_cs_read_position_is_the_models.

(* ... and the table-slice reader: whenever the source's sbdf_ts_read - with any column subset, under ANY allocation schedule -
   succeeds on a stream the L1 model's ts_read accepts with that subset, the stream stands exactly where the model leaves it *)
Theorem C05_source_ts_read_position_is_the_models : forall rf rp fo po k sx m (h : ImpFactsCells.heap) tmb n sub t sM, Forall byte sx -> (0 <= n <= 715827882)%Z ->
  cell_get h tmb 1 = Some (VInt n) -> flags_in n sub m ->
  (forall s1 s2, sec_read sx = Ok (3%Z, s1) -> read_int32 false s1 = Ok (n, s2) -> colsf_nobit sub (Z.to_nat n) 0 s2) ->
  Slice.ts_read false None n (msub sub 0) sx = Ok (t, sM) ->
  exists f0, forall f, (f0 <= f)%nat -> exists st fin,
    callC prog_env f prog_sbdf_ts_read [VPtr rf fo; VCell tmb 0; sv sub; VPtr rp po] m k sx h = OReturn (VInt st) fin /\
    (st = SBDF_OK -> Imp.lookup strm_var (vars fin) = Some (VBytes sM)).
Proof. exact ts_read_position_is_the_models. Qed.
Print Assumptions C05_source_ts_read_position_is_the_models.

(* no stream is read successfully by the code that the model refuses: whatever the allocation schedule, if the source's
   sbdf_cs_read returns OK (on a stream without bit arrays), the L1 model's cs_read accepts that stream and ends exactly where the
   source ended.  With C09_source_cs_read_status_is_the_models (same status when nothing fails) this makes the model's reader
   and the code's column-slice reader the same function of the byte stream, up to allocation failures. *)
Theorem C05_source_cs_read_success_is_the_models : forall rf rp fo po k sx m h, Forall byte sx -> cs_nobit sx ->
  exists f0, forall f, (f0 <= f)%nat -> exists st fin,
    callC prog_env f prog_sbdf_cs_read [VPtr rf fo; VPtr rp po] m k sx h = OReturn (VInt st) fin /\
    (st = SBDF_OK -> exists c sM, Slice.cs_read false None sx = Ok (c, sM) /\ Imp.lookup strm_var (vars fin) = Some (VBytes sM)).
Proof. exact cs_read_success_is_the_models. Qed.
Print Assumptions C05_source_cs_read_success_is_the_models.

(* ... and the same for the table-slice reader with any column subset: an OK from the source's sbdf_ts_read means the L1 model's
   ts_read accepts the stream with that subset and ends where the source ended *)
Theorem C05_source_ts_read_success_is_the_models : forall rf rp fo po k sx m (h : ImpFactsCells.heap) tmb n sub, Forall byte sx -> (0 <= n <= 715827882)%Z ->
  cell_get h tmb 1 = Some (VInt n) -> flags_in n sub m ->
  (forall s1 s2, sec_read sx = Ok (3%Z, s1) -> read_int32 false s1 = Ok (n, s2) -> colsf_nobit sub (Z.to_nat n) 0 s2) ->
  exists f0, forall f, (f0 <= f)%nat -> exists st fin,
    callC prog_env f prog_sbdf_ts_read [VPtr rf fo; VCell tmb 0; sv sub; VPtr rp po] m k sx h = OReturn (VInt st) fin /\
    (st = SBDF_OK -> exists t sM, Slice.ts_read false None n (msub sub 0) sx = Ok (t, sM) /\ Imp.lookup strm_var (vars fin) = Some (VBytes sM)).
Proof. exact ts_read_success_is_the_models. Qed.
Print Assumptions C05_source_ts_read_success_is_the_models.
