(* C05 - statements only; proofs in the *Facts.v files. (grows) *)
From Sbdf Require Import Va VaFacts PrimFacts ObjFacts.
Theorem C05_value_array_wire : forall swp v, wf_va v -> byte_ok (vty v) ->
  wspec (va_write swp v) (Ok tt) (enc_va swp v) /\ rspec (va_read swp None) (enc_va swp v) v.
Proof. intros swp v W B. split; [exact (wspec_va swp v W)|exact (rspec_va swp v W B)]. Qed.
Print Assumptions C05_value_array_wire.
