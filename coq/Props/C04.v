(* C04 — reader decodes every well-formed SBDF 1.0 stream.
   wf_va / wf_cs / wf_ts describe every well-formed section, not only what this library's writer
   emits: a run-length array is ANY pair of a run array and a value array (non-maximal runs, runs of
   exactly 256, booleans, strings, binaries), any property names and counts, any encoding per
   column, per property and per slice.  The readers return exactly the encoded content, whatever
   follows, and the session reports end-of-table exactly at the end marker.  Statements only. *)
From Sbdf Require Import File PrimFacts SevenBit ObjFacts VaFacts SliceFacts MdFacts TmFacts FileFacts.

Theorem C04_value_array : forall swp v tail, wf_va v -> byte_ok (vty v) -> va_read swp None (enc_va swp v ++ tail) = Ok (v, tail).
Proof. intros swp v tail W B. destruct (rspec_va swp v W B) as [E _]. apply E. Qed.
Print Assumptions C04_value_array.

Theorem C04_column_slice : forall swp c tail, wf_cs c -> cs_read swp None (enc_cs swp c ++ tail) = Ok (owned_cs c, tail).
Proof. intros swp c tail W. destruct (rspec_cs swp c W) as [E _]. apply E. Qed.
Print Assumptions C04_column_slice.

Theorem C04_slices_until_end_marker : forall swp sls ncols fuel tail,
  slices_ok ncols sls -> (length sls <= length fuel)%nat ->
  read_slices swp None fuel ncols None (enc_slices swp sls ++ tail) = (map owned_ts sls, SBDF_TABLEEND, enc_end ++ tail).
Proof. exact read_slices_exact. Qed.
Print Assumptions C04_slices_until_end_marker.

(* the table-metadata section for ANY name list that covers the columns (any order, unused names,
   defaults present or absent), not only the one this library's writer would choose *)
Theorem C04_table_metadata_any_name_list : forall swp t names tail, tm_ok t ->
  (forall n, In n names -> tentry_ok n) -> zlen names < 2147483648 ->
  (forall c, In c (tcols t) -> names_ok names c) ->
  tm_read swp None (enc_tm swp t names ++ tail)
  = Ok ({| tmeta := {| ments := ments (tmeta t); mmod := false |}; tcols := map (norm names) (tcols t) |}, tail).
Proof. exact tm_read_exact. Qed.
Print Assumptions C04_table_metadata_any_name_list.

(* decoding what was read gives the logical values: a run-length array with arbitrary (valid)
   runs decodes to the expansion of its runs *)
Theorem C04_decode_any_runs : forall ty n runs vals,
  obj_ok {| oty := ty; oelems := vals |} -> length runs = length vals -> rle_total runs = n ->
  va_get_values {| vty := ty; venc := SBDF_RUNLENGTHENCODINGTYPEID; value1 := n;
                   o1 := Some (byte_obj runs); o2 := Some {| oty := ty; oelems := vals |} |}
  = Ok {| oty := ty; oelems := rle_expand runs vals |}.
Proof.
  intros ty n runs vals Hok Hl Ht. unfold va_get_values. cbn [venc].
  change (SBDF_RUNLENGTHENCODINGTYPEID =? SBDF_PLAINARRAYENCODINGTYPEID) with false. cbn iota. rewrite Z.eqb_refl.
  unfold get_rle_values. cbn [o1 o2 vty value1].
  destruct (elem_size_ok _ Hok) as [S1 S2]. cbn [oty] in S1, S2. rewrite S1, S2.
  rewrite map_run_of_byte_obj. unfold ocount. cbn [oelems byte_obj]. rewrite BaseFacts.zlen_map.
  assert (zlen runs = zlen vals) by (unfold zlen; now rewrite Hl). rewrite H, Z.eqb_refl. cbn [negb].
  rewrite Ht, Z.eqb_refl. reflexivity.
Qed.
Print Assumptions C04_decode_any_runs.

Example C04_nonmaximal_runs :
  rle_expand [0; 1; 255] [[7]; [7]; [9]] = [[7]; [7]; [7]] ++ repeat [9] 256.
Proof. reflexivity. Qed.
