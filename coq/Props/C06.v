(* C06 — a truncated file never reads as a complete table.
   rspec m bs a: the reader m returns a on bs whatever follows, and on EVERY strict prefix of bs
   it fails with a hard error (neither OK nor end-of-table).  Statements only. *)
From Sbdf Require Import File PrimFacts SevenBit ObjFacts VaFacts SliceFacts TmFacts FileFacts.

Theorem C06_meaning : forall A (m : R A) bs a, rspec m bs a ->
  forall n, 0 <= n < zlen bs -> exists e, m (ztake n bs) = Err e /\ e <> SBDF_OK /\ e <> SBDF_TABLEEND.
Proof. intros A m bs a [_ T] n Hn. destruct (T n Hn) as (e & E & H1 & H2). eauto. Qed.
Print Assumptions C06_meaning.

Theorem C06_header : rspec fh_read enc_header (1, 0).
Proof. exact rspec_fh. Qed.
Print Assumptions C06_header.

Theorem C06_value_array : forall swp v, wf_va v -> byte_ok (vty v) -> rspec (va_read swp None) (enc_va swp v) v.
Proof. exact rspec_va. Qed.
Print Assumptions C06_value_array.

Theorem C06_column_slice : forall swp c, wf_cs c -> rspec (cs_read swp None) (enc_cs swp c) (owned_cs c).
Proof. exact rspec_cs. Qed.
Print Assumptions C06_column_slice.

Theorem C06_table_slice : forall swp cols, wf_ts cols -> rspec (ts_read swp None (zlen cols) None) (enc_ts swp cols) (owned_ts cols).
Proof. exact rspec_ts. Qed.
Print Assumptions C06_table_slice.

(* the reading session over the slice stream (slices, end marker): the complete stream delivers
   all slices and then end-of-table; every strict prefix ends with a hard error, and what was
   delivered before it is a prefix of the full file's slices, unchanged *)
Theorem C06_session_complete : forall swp sls ncols fuel tail,
  slices_ok ncols sls -> (length sls <= length fuel)%nat ->
  read_slices swp None fuel ncols None (enc_slices swp sls ++ tail) = (map owned_ts sls, SBDF_TABLEEND, enc_end ++ tail).
Proof. exact read_slices_exact. Qed.
Print Assumptions C06_session_complete.

Theorem C06_session_truncated : forall swp sls ncols fuel n,
  slices_ok ncols sls -> 0 <= n < zlen (enc_slices swp sls) ->
  let '(l, st, _) := read_slices swp None fuel ncols None (ztake n (enc_slices swp sls)) in
  hard st /\ exists k, l = map owned_ts (firstn k sls).
Proof. exact read_slices_truncated. Qed.
Print Assumptions C06_session_truncated.

(* the table-metadata section: exact on the whole section, every strict prefix refused *)
Theorem C06_table_metadata : forall swp t names, tm_ok t ->
  (forall n, In n names -> tentry_ok n) -> zlen names < 2147483648 ->
  (forall c, In c (tcols t) -> names_ok names c) ->
  rspec (tm_read swp None) (enc_tm swp t names)
        {| tmeta := {| ments := ments (tmeta t); mmod := false |}; tcols := map (norm names) (tcols t) |}.
Proof. exact rspec_tm. Qed.
Print Assumptions C06_table_metadata.

(* the whole file (header, table metadata, slices, end marker) cut at ANY byte offset: the reading
   session ends with a hard error; the metadata it may have delivered is the full file's, and the
   slices delivered before the error are the first k slices of the full file, unchanged *)
Theorem C06_file_truncated : forall swp meta sls names n, wf_file meta sls names ->
  0 <= n < zlen (enc_file swp meta sls names) ->
  let '(t, st, _) := read_table swp None None (ztake n (enc_file swp meta sls names)) in
  (st <> SBDF_OK /\ st <> SBDF_TABLEEND) /\
  match t with
  | None => True
  | Some T => t_meta T = t_meta (read_back meta sls names) /\ exists k, t_slices T = map owned_ts (firstn k sls)
  end.
Proof. exact read_file_truncated. Qed.
Print Assumptions C06_file_truncated.

(* and only the complete file reaches end-of-table *)
Theorem C06_file_complete : forall swp meta sls names tail, wf_file meta sls names ->
  read_table swp None None (enc_file swp meta sls names ++ tail) = (Some (read_back meta sls names), SBDF_TABLEEND, enc_end ++ tail).
Proof. exact read_file_exact. Qed.
Print Assumptions C06_file_complete.
