(* C15 - statements only. (grows) *)
From Sbdf Require Import Base BaseFacts.
Theorem C15_cmp_zero_iff_equal : forall a b, lex_cmp a b = 0 <-> a = b.
Proof. exact lex_cmp_eq. Qed.
Print Assumptions C15_cmp_zero_iff_equal.
