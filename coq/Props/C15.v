(* C15 — equality and ordering helpers agree with content.  Statements only; proofs in EqFacts.v
   and BaseFacts.v.  Strings and byte arrays are modelled as the list of their bytes (embedded NULs
   included; the terminating NUL of a string is implicit), so create/copy are the identity on the
   content: that part of the property is tied by the correspondence run (strrt/bart observations). *)
From Sbdf Require Import Imp ImpCall Gen.Prog ImpBase ImpFactsCmp ImpFactsHeap ImpFactsHeap2 ImpFactsCells ImpFactsEq.
From Coq Require Import List.
From Sbdf Require Import Obj BaseFacts VaFacts EqFacts.

Theorem C15_obj_eq_iff_equal : forall a b, obj_wf a -> obj_wf b -> (obj_eq a b = 1 <-> a = b).
Proof. exact obj_eq_iff. Qed.
Print Assumptions C15_obj_eq_iff_equal.

Theorem C15_obj_eq_equivalence :
  (forall a, obj_wf a -> obj_eq a a = 1) /\
  (forall a b, obj_wf a -> obj_wf b -> obj_eq a b = 1 -> obj_eq b a = 1) /\
  (forall a b c, obj_wf a -> obj_wf b -> obj_wf c -> obj_eq a b = 1 -> obj_eq b c = 1 -> obj_eq a c = 1).
Proof. exact obj_eq_equivalence. Qed.
Print Assumptions C15_obj_eq_equivalence.

Theorem C15_obj_eq_boolean : forall a b, obj_wf a -> obj_eq a b = 0 \/ obj_eq a b = 1.
Proof. exact obj_eq_boolean. Qed.
Print Assumptions C15_obj_eq_boolean.

Theorem C15_copy_equal : forall o, obj_ok o -> obj_wf o -> exists c, obj_copy o = Ok c /\ obj_eq o c = 1.
Proof. exact obj_copy_equal. Qed.
Print Assumptions C15_copy_equal.

(* string / byte-array comparison: lexicographic byte order, a proper prefix first, antisymmetric,
   transitive, zero only for identical content *)
Theorem C15_cmp_zero_iff_equal : forall a b, str_cmp a b = 0 <-> a = b.
Proof. exact lex_cmp_eq. Qed.
Print Assumptions C15_cmp_zero_iff_equal.

Theorem C15_cmp_antisymmetric : forall a b, str_cmp b a = - str_cmp a b.
Proof. exact lex_cmp_antisym. Qed.
Print Assumptions C15_cmp_antisymmetric.

Theorem C15_cmp_prefix_first : forall a b, b <> [] -> str_cmp a (a ++ b) = -1.
Proof. exact lex_cmp_prefix. Qed.
Print Assumptions C15_cmp_prefix_first.

Theorem C15_cmp_transitive : forall a b c, str_cmp a b = -1 -> str_cmp b c = -1 -> str_cmp a c = -1.
Proof. exact lex_cmp_trans_lt. Qed.
Print Assumptions C15_cmp_transitive.

Theorem C15_cmp_sign : forall a b, str_cmp a b = -1 \/ str_cmp a b = 0 \/ str_cmp a b = 1.
Proof. exact lex_cmp_range. Qed.
Print Assumptions C15_cmp_sign.

Example C15_nonvacuous :
  obj_wf {| oty := SBDF_STRINGTYPEID; oelems := [[97; 98; 99]] |} /\
  obj_eq {| oty := SBDF_STRINGTYPEID; oelems := [[97; 98; 99]] |} {| oty := SBDF_STRINGTYPEID; oelems := [[97; 98; 100]] |} = 0 /\
  str_cmp [0; 128] [0; 127] = 1.
Proof. split; [left; reflexivity|split; reflexivity]. Qed.

(* ---- the comparison helpers from the source.  sbdf_str_cmp (src/sbdfstring.c) and sbdf_ba_memcmp
   (src/bytearray.c) with sbdf_str_len / sbdf_ba_get_len / sbdf_get_array_length, translated on every
   run; memcmp is a primitive of the interpreter (the sign of the first differing unsigned byte).
   For every two strings / byte arrays stored the way the library stores them (embedded NULs
   included - the stored length decides, not a terminator) the sign of the result is lex_cmp: zero
   exactly for equal content, a proper prefix first. *)
Theorem C15_source_str_cmp : forall a b, zlen a + 1 < 2147483648 -> zlen b + 1 < 2147483648 ->
  exists f0, forall f, (f0 <= f)%nat -> exists v fin,
    callE prog_env f prog_sbdf_str_cmp [VPtr RIn 4; VPtr RIn (zlen a + 9)] (two_str a b) 0 = OReturn (VInt v) fin /\ Z.sgn v = str_cmp a b.
Proof. exact str_cmp_source. Qed.
Print Assumptions C15_source_str_cmp.

Theorem C15_source_ba_memcmp : forall a b, zlen a < 2147483648 -> zlen b < 2147483648 ->
  exists f0, forall f, (f0 <= f)%nat -> exists v fin,
    callE prog_env f prog_sbdf_ba_memcmp [VPtr RIn 4; VPtr RIn (zlen a + 8)] (two_ba a b) 0 = OReturn (VInt v) fin /\ Z.sgn v = lex_cmp a b.
Proof. exact ba_memcmp_source. Qed.
Print Assumptions C15_source_ba_memcmp.

(* ---- constructors and copies from the source (src/internals.c, src/sbdfstring.c, src/bytearray.c,
   translated on every run; malloc is a primitive of the interpreter that appends a fresh block of
   unspecified bytes to the memory, or fails when the oracle k says so - see ImpFactsHeap.v; sx is the
   content of an input stream, which these functions do not touch).
   For every memory m, every content (embedded NULs included for the length-taking forms), every
   length up to INT_MAX-1 (strings) / INT_MAX (byte arrays) and every oracle k: on success the result
   points at a fresh block holding the stated length, then exactly the bytes, then (strings) the
   terminating NUL; nothing that existed before is changed. *)
Theorem C15_source_str_create_len : forall sx hc q n m k, 0 <= n -> n + 1 <= int_max -> 0 <= q -> q + n <= zlen m ->
  exists f0, forall f, (f0 <= f)%nat -> exists fin,
    callC prog_env f prog_sbdf_str_create_len [VPtr RIn q; VInt n] m k sx hc =
      OReturn (if k =? 0 then VNull else VPtr RIn (zlen m + 4)) fin /\
    inb fin = (if k =? 0 then m else str_mem m (firstn (Z.to_nat n) (skipn (Z.to_nat q) m)) []).
Proof. exact str_create_len_source. Qed.
Print Assumptions C15_source_str_create_len.

Theorem C15_source_str_create : forall sx hc pre bytes post k, Forall (fun b => b <> 0) bytes -> zlen bytes + 1 <= int_max ->
  let m := pre ++ bytes ++ 0 :: post in
  exists f0, forall f, (f0 <= f)%nat -> exists fin,
    callC prog_env f prog_sbdf_str_create [VPtr RIn (zlen pre)] m k sx hc = OReturn (if k =? 0 then VNull else VPtr RIn (zlen m + 4)) fin /\
    inb fin = (if k =? 0 then m else str_mem m bytes []).
Proof. exact str_create_source. Qed.
Print Assumptions C15_source_str_create.

Theorem C15_source_str_copy : forall sx hc pre bytes post k, zlen bytes + 1 <= int_max ->
  let m := str_mem pre bytes post in
  exists f0, forall f, (f0 <= f)%nat -> exists fin,
    callC prog_env f prog_sbdf_str_copy [VPtr RIn (zlen pre + 4)] m k sx hc = OReturn (if k =? 0 then VNull else VPtr RIn (zlen m + 4)) fin /\
    inb fin = (if k =? 0 then m else str_mem m bytes []).
Proof. exact str_copy_source. Qed.
Print Assumptions C15_source_str_copy.

Theorem C15_source_ba_create : forall sx hc q n m k, 0 <= n -> n <= int_max -> 0 <= q -> q + n <= zlen m ->
  exists f0, forall f, (f0 <= f)%nat -> exists fin,
    callC prog_env f prog_sbdf_ba_create [VPtr RIn q; VInt n] m k sx hc = OReturn (if k =? 0 then VNull else VPtr RIn (zlen m + 4)) fin /\
    inb fin = (if k =? 0 then m else ba_mem m (firstn (Z.to_nat n) (skipn (Z.to_nat q) m)) []).
Proof. exact ba_create_source. Qed.
Print Assumptions C15_source_ba_create.

Theorem C15_source_copy_array : forall sx hc pre payload post k, zlen payload <= int_max ->
  let m := pre ++ le32 (zlen payload) ++ payload ++ post in
  exists f0, forall f, (f0 <= f)%nat -> exists fin,
    callC prog_env f prog_sbdf_copy_array [VPtr RIn (zlen pre + 4)] m k sx hc = OReturn (if k =? 0 then VNull else VPtr RIn (zlen m + 4)) fin /\
    inb fin = (if k =? 0 then m else ba_mem m payload []).
Proof. exact copy_array_source. Qed.
Print Assumptions C15_source_copy_array.

(* ---- sbdf_obj_eq from the source (src/object.c; structs in the cell heap of Imp.v, elements in the byte
   memory; its helpers sbdf_str_cmp / sbdf_ba_memcmp re-proved for elements stored anywhere in the memory).
   Two distinct objects of the same type and count:
   - string / binary objects (elems_at: cell j of the pointer array points at the stored j-th element,
     embedded NULs included): the result is 1 exactly when every element has the same length and the
     same bytes (all_eq la lb = true <-> la = lb), else 0 - decided element by element, in order;
   - every other type: 1 exactly when the count * size bytes of the two data blocks coincide.
   Neither the byte memory nor any block of the cell heap is changed. *)
Theorem C15_source_obj_eq_arrays : forall k sx m h lo ro ldb rdb lcells rcells ty la lb ldata rdata, lo <> ro ->
  obj_block h lo ty (zlen la) ldata -> as_ptr ldata = VCell ldb 0 -> nth_error h ldb = Some (Some lcells) ->
  obj_block h ro ty (zlen la) rdata -> as_ptr rdata = VCell rdb 0 -> nth_error h rdb = Some (Some rcells) ->
  elems_at m (ty =? 10) lcells la -> elems_at m (ty =? 10) rcells lb -> zlen la = zlen lb -> zlen la < int_max ->
  Leaf.gen_sbdf_ti_is_arr ty <> 0 -> int_min <= ty <= int_max ->
  exists f0, forall f, (f0 <= f)%nat -> exists fin,
    callC prog_env f prog_sbdf_obj_eq [VCell lo 0; VCell ro 0] m k sx h = OReturn (VInt (b2z (all_eq la lb))) fin /\
    inb fin = m /\ Imp.lookup cells_var (vars fin) = Some (VHeap h).
Proof. exact obj_eq_arrays_source. Qed.
Print Assumptions C15_source_obj_eq_arrays.

Theorem C15_source_all_eq : forall la lb, all_eq la lb = true <-> la = lb.
Proof. exact all_eq_spec. Qed.
Print Assumptions C15_source_all_eq.

Theorem C15_source_obj_eq_fixed : forall k sx m h lo ro ty n pa pb, lo <> ro ->
  obj_block h lo ty n (VPtr RIn pa) -> obj_block h ro ty n (VPtr RIn pb) ->
  Leaf.gen_sbdf_ti_is_arr ty = 0 -> let sz := Leaf.gen_sbdf_get_unpacked_size ty in
  0 <= sz -> 0 <= n -> sz * n <= int_max -> 0 <= pa -> pa + sz * n <= zlen m -> 0 <= pb -> pb + sz * n <= zlen m -> int_min <= sz <= int_max ->
  exists f0, forall f, (f0 <= f)%nat -> exists fin,
    callC prog_env f prog_sbdf_obj_eq [VCell lo 0; VCell ro 0] m k sx h =
      OReturn (VInt (b2z (ImpFactsCells.list_eqb (firstn (Z.to_nat (sz * n)) (skipn (Z.to_nat pa) m)) (firstn (Z.to_nat (sz * n)) (skipn (Z.to_nat pb) m))))) fin /\
    inb fin = m /\ Imp.lookup cells_var (vars fin) = Some (VHeap h).
Proof. exact obj_eq_fixed_source. Qed.
Print Assumptions C15_source_obj_eq_fixed.

Example C15_source_obj_eq_runs :
  let mo := [1;0;0;0; 2;0;0;0;   1;0;0;0; 2;0;0;0;   3;0;0;0; 97;98;0;  2;0;0;0; 99;0 ; 3;0;0;0; 97;98;0;  2;0;0;0; 100;0] in
  let ho := [Some [VInt 2; VInt 2; VPtr RIn 0]; Some [VInt 2; VInt 2; VPtr RIn 8];
             Some [VInt 10; VInt 2; VCell 3 0]; Some [VPtr RIn 20; VPtr RIn 27]; Some [VInt 10; VInt 2; VCell 5 0]; Some [VPtr RIn 33; VPtr RIn 40]] in
  (match callC prog_env 300 prog_sbdf_obj_eq [VCell 0 0; VCell 1 0] mo (-1) [] ho with OReturn v _ => Some v | _ => None end) = Some (VInt 1) /\
  (match callC prog_env 300 prog_sbdf_obj_eq [VCell 2 0; VCell 4 0] mo (-1) [] ho with OReturn v _ => Some v | _ => None end) = Some (VInt 0) /\
  (match callC prog_env 300 prog_sbdf_obj_eq [VCell 2 0; VCell 2 0] mo (-1) [] ho with OReturn v _ => Some v | _ => None end) = Some (VInt 1).
Proof. repeat split; vm_compute; reflexivity. Qed.
