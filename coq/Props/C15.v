(* C15 — equality and ordering helpers agree with content.  Statements only; proofs in EqFacts.v
   and BaseFacts.v.  Strings and byte arrays are modelled as the list of their bytes (embedded NULs
   included; the terminating NUL of a string is implicit), so create/copy are the identity on the
   content: that part of the property is tied by the correspondence run (strrt/bart observations). *)
From Sbdf Require Import Imp ImpCall Gen.Prog ImpFacts ImpFacts7 ImpFactsFrame ImpFactsCmp ImpFactsHeap.
From Coq Require Import List.
From Sbdf Require Import Obj BaseFacts VaFacts EqFacts.

Theorem C15_obj_eq_iff_equal : forall a b, obj_wf a -> obj_wf b -> (obj_eq a b = 1 <-> a = b).
Proof. exact obj_eq_iff. Qed.
Print Assumptions C15_obj_eq_iff_equal.

Theorem C15_obj_eq_equivalence :
  (forall a, obj_wf a -> obj_eq a a = 1) /\
  (forall a b, obj_wf a -> obj_wf b -> obj_eq a b = 1 -> obj_eq b a = 1) /\
  (forall a b c, obj_wf a -> obj_wf b -> obj_wf c -> obj_eq a b = 1 -> obj_eq b c = 1 -> obj_eq a c = 1).
Proof. exact obj_eq_equivalence. Qed.
Print Assumptions C15_obj_eq_equivalence.

Theorem C15_obj_eq_boolean : forall a b, obj_wf a -> obj_eq a b = 0 \/ obj_eq a b = 1.
Proof. exact obj_eq_boolean. Qed.
Print Assumptions C15_obj_eq_boolean.

Theorem C15_copy_equal : forall o, obj_ok o -> obj_wf o -> exists c, obj_copy o = Ok c /\ obj_eq o c = 1.
Proof. exact obj_copy_equal. Qed.
Print Assumptions C15_copy_equal.

(* string / byte-array comparison: lexicographic byte order, a proper prefix first, antisymmetric,
   transitive, zero only for identical content *)
Theorem C15_cmp_zero_iff_equal : forall a b, str_cmp a b = 0 <-> a = b.
Proof. exact lex_cmp_eq. Qed.
Print Assumptions C15_cmp_zero_iff_equal.

Theorem C15_cmp_antisymmetric : forall a b, str_cmp b a = - str_cmp a b.
Proof. exact lex_cmp_antisym. Qed.
Print Assumptions C15_cmp_antisymmetric.

Theorem C15_cmp_prefix_first : forall a b, b <> [] -> str_cmp a (a ++ b) = -1.
Proof. exact lex_cmp_prefix. Qed.
Print Assumptions C15_cmp_prefix_first.

Theorem C15_cmp_transitive : forall a b c, str_cmp a b = -1 -> str_cmp b c = -1 -> str_cmp a c = -1.
Proof. exact lex_cmp_trans_lt. Qed.
Print Assumptions C15_cmp_transitive.

Theorem C15_cmp_sign : forall a b, str_cmp a b = -1 \/ str_cmp a b = 0 \/ str_cmp a b = 1.
Proof. exact lex_cmp_range. Qed.
Print Assumptions C15_cmp_sign.

Example C15_nonvacuous :
  obj_wf {| oty := SBDF_STRINGTYPEID; oelems := [[97; 98; 99]] |} /\
  obj_eq {| oty := SBDF_STRINGTYPEID; oelems := [[97; 98; 99]] |} {| oty := SBDF_STRINGTYPEID; oelems := [[97; 98; 100]] |} = 0 /\
  str_cmp [0; 128] [0; 127] = 1.
Proof. split; [left; reflexivity|split; reflexivity]. Qed.

(* ---- the comparison helpers from the source.  sbdf_str_cmp (src/sbdfstring.c) and sbdf_ba_memcmp
   (src/bytearray.c) with sbdf_str_len / sbdf_ba_get_len / sbdf_get_array_length, translated on every
   run; memcmp is a primitive of the interpreter (the sign of the first differing unsigned byte).
   For every two strings / byte arrays stored the way the library stores them (embedded NULs
   included - the stored length decides, not a terminator) the sign of the result is lex_cmp: zero
   exactly for equal content, a proper prefix first. *)
Theorem C15_source_str_cmp : forall a b, zlen a + 1 < 2147483648 -> zlen b + 1 < 2147483648 ->
  exists f0, forall f, (f0 <= f)%nat -> exists v fin,
    callE prog_env f prog_sbdf_str_cmp [VPtr RIn 4; VPtr RIn (zlen a + 9)] (two_str a b) 0 = OReturn (VInt v) fin /\ Z.sgn v = str_cmp a b.
Proof. exact str_cmp_source. Qed.
Print Assumptions C15_source_str_cmp.

Theorem C15_source_ba_memcmp : forall a b, zlen a < 2147483648 -> zlen b < 2147483648 ->
  exists f0, forall f, (f0 <= f)%nat -> exists v fin,
    callE prog_env f prog_sbdf_ba_memcmp [VPtr RIn 4; VPtr RIn (zlen a + 8)] (two_ba a b) 0 = OReturn (VInt v) fin /\ Z.sgn v = lex_cmp a b.
Proof. exact ba_memcmp_source. Qed.
Print Assumptions C15_source_ba_memcmp.

(* ---- constructors and copies from the source (src/internals.c, src/sbdfstring.c, src/bytearray.c,
   translated on every run; malloc is a primitive of the interpreter that appends a fresh block of
   unspecified bytes to the memory, or fails when the oracle k says so - see ImpFactsHeap.v; sx is the
   content of an input stream, which these functions do not touch).
   For every memory m, every content (embedded NULs included for the length-taking forms), every
   length up to INT_MAX-1 (strings) / INT_MAX (byte arrays) and every oracle k: on success the result
   points at a fresh block holding the stated length, then exactly the bytes, then (strings) the
   terminating NUL; nothing that existed before is changed. *)
Theorem C15_source_str_create_len : forall sx q n m k, 0 <= n -> n + 1 <= int_max -> 0 <= q -> q + n <= zlen m ->
  exists f0, forall f, (f0 <= f)%nat -> exists fin,
    callH prog_env f prog_sbdf_str_create_len [VPtr RIn q; VInt n] m k sx =
      OReturn (if k =? 0 then VNull else VPtr RIn (zlen m + 4)) fin /\
    inb fin = (if k =? 0 then m else str_mem m (firstn (Z.to_nat n) (skipn (Z.to_nat q) m)) []).
Proof. exact str_create_len_source. Qed.
Print Assumptions C15_source_str_create_len.

Theorem C15_source_str_create : forall sx pre bytes post k, Forall (fun b => b <> 0) bytes -> zlen bytes + 1 <= int_max ->
  let m := pre ++ bytes ++ 0 :: post in
  exists f0, forall f, (f0 <= f)%nat -> exists fin,
    callH prog_env f prog_sbdf_str_create [VPtr RIn (zlen pre)] m k sx = OReturn (if k =? 0 then VNull else VPtr RIn (zlen m + 4)) fin /\
    inb fin = (if k =? 0 then m else str_mem m bytes []).
Proof. exact str_create_source. Qed.
Print Assumptions C15_source_str_create.

Theorem C15_source_str_copy : forall sx pre bytes post k, zlen bytes + 1 <= int_max ->
  let m := str_mem pre bytes post in
  exists f0, forall f, (f0 <= f)%nat -> exists fin,
    callH prog_env f prog_sbdf_str_copy [VPtr RIn (zlen pre + 4)] m k sx = OReturn (if k =? 0 then VNull else VPtr RIn (zlen m + 4)) fin /\
    inb fin = (if k =? 0 then m else str_mem m bytes []).
Proof. exact str_copy_source. Qed.
Print Assumptions C15_source_str_copy.

Theorem C15_source_ba_create : forall sx q n m k, 0 <= n -> n <= int_max -> 0 <= q -> q + n <= zlen m ->
  exists f0, forall f, (f0 <= f)%nat -> exists fin,
    callH prog_env f prog_sbdf_ba_create [VPtr RIn q; VInt n] m k sx = OReturn (if k =? 0 then VNull else VPtr RIn (zlen m + 4)) fin /\
    inb fin = (if k =? 0 then m else ba_mem m (firstn (Z.to_nat n) (skipn (Z.to_nat q) m)) []).
Proof. exact ba_create_source. Qed.
Print Assumptions C15_source_ba_create.

Theorem C15_source_copy_array : forall sx pre payload post k, zlen payload <= int_max ->
  let m := pre ++ le32 (zlen payload) ++ payload ++ post in
  exists f0, forall f, (f0 <= f)%nat -> exists fin,
    callH prog_env f prog_sbdf_copy_array [VPtr RIn (zlen pre + 4)] m k sx = OReturn (if k =? 0 then VNull else VPtr RIn (zlen m + 4)) fin /\
    inb fin = (if k =? 0 then m else ba_mem m payload []).
Proof. exact copy_array_source. Qed.
Print Assumptions C15_source_copy_array.
