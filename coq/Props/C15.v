(* C15 — equality and ordering helpers agree with content.  Statements only; proofs in EqFacts.v
   and BaseFacts.v.  Strings and byte arrays are modelled as the list of their bytes (embedded NULs
   included; the terminating NUL of a string is implicit), so create/copy are the identity on the
   content: that part of the property is tied by the correspondence run (strrt/bart observations). *)
From Sbdf Require Import Obj BaseFacts VaFacts EqFacts.

Theorem C15_obj_eq_iff_equal : forall a b, obj_wf a -> obj_wf b -> (obj_eq a b = 1 <-> a = b).
Proof. exact obj_eq_iff. Qed.
Print Assumptions C15_obj_eq_iff_equal.

Theorem C15_obj_eq_equivalence :
  (forall a, obj_wf a -> obj_eq a a = 1) /\
  (forall a b, obj_wf a -> obj_wf b -> obj_eq a b = 1 -> obj_eq b a = 1) /\
  (forall a b c, obj_wf a -> obj_wf b -> obj_wf c -> obj_eq a b = 1 -> obj_eq b c = 1 -> obj_eq a c = 1).
Proof. exact obj_eq_equivalence. Qed.
Print Assumptions C15_obj_eq_equivalence.

Theorem C15_obj_eq_boolean : forall a b, obj_wf a -> obj_eq a b = 0 \/ obj_eq a b = 1.
Proof. exact obj_eq_boolean. Qed.
Print Assumptions C15_obj_eq_boolean.

Theorem C15_copy_equal : forall o, obj_ok o -> obj_wf o -> exists c, obj_copy o = Ok c /\ obj_eq o c = 1.
Proof. exact obj_copy_equal. Qed.
Print Assumptions C15_copy_equal.

(* string / byte-array comparison: lexicographic byte order, a proper prefix first, antisymmetric,
   transitive, zero only for identical content *)
Theorem C15_cmp_zero_iff_equal : forall a b, str_cmp a b = 0 <-> a = b.
Proof. exact lex_cmp_eq. Qed.
Print Assumptions C15_cmp_zero_iff_equal.

Theorem C15_cmp_antisymmetric : forall a b, str_cmp b a = - str_cmp a b.
Proof. exact lex_cmp_antisym. Qed.
Print Assumptions C15_cmp_antisymmetric.

Theorem C15_cmp_prefix_first : forall a b, b <> [] -> str_cmp a (a ++ b) = -1.
Proof. exact lex_cmp_prefix. Qed.
Print Assumptions C15_cmp_prefix_first.

Theorem C15_cmp_transitive : forall a b c, str_cmp a b = -1 -> str_cmp b c = -1 -> str_cmp a c = -1.
Proof. exact lex_cmp_trans_lt. Qed.
Print Assumptions C15_cmp_transitive.

Theorem C15_cmp_sign : forall a b, str_cmp a b = -1 \/ str_cmp a b = 0 \/ str_cmp a b = 1.
Proof. exact lex_cmp_range. Qed.
Print Assumptions C15_cmp_sign.

Example C15_nonvacuous :
  obj_wf {| oty := SBDF_STRINGTYPEID; oelems := [[97; 98; 99]] |} /\
  obj_eq {| oty := SBDF_STRINGTYPEID; oelems := [[97; 98; 99]] |} {| oty := SBDF_STRINGTYPEID; oelems := [[97; 98; 100]] |} = 0 /\
  str_cmp [0; 128] [0; 127] = 1.
Proof. split; [left; reflexivity|split; reflexivity]. Qed.
