(* C11 — column and table slices keep their structural invariants.  Statements only; proofs in
   CsFacts.v and SliceFacts.v.  The payload type V of a caller-built slice is the identity of a
   value array (a handle): "the very same array" is equality of payloads. *)
From Sbdf Require Import Imp ImpCall Gen.Prog ImpBase ImpFactsCap ImpFactsCells ImpFactsGrow ImpFactsSlice ImpFactsCsAdd ImpFactsCsAddFirst ImpFactsCsAddGrow ImpFactsRelease.
From Coq Require Import List.
From Sbdf Require Import Slice CsFacts SliceFacts MdFacts.

(* an addition is accepted exactly when the row counts agree and the name is new *)
Theorem C11_add : forall V (rows : V -> Z) (c : cs V) name v,
  (rows (csvals c) = rows v -> cs_find name c = None ->
     cs_add_property rows c name v = Ok {| csvals := csvals c; csprops := csprops c ++ [(cstr name, v)]; csowned := csowned c |}) /\
  (rows (csvals c) <> rows v -> cs_add_property rows c name v = Err SBDF_ERROR_ROW_COUNT_MISMATCH) /\
  (rows (csvals c) = rows v -> cs_find name c <> None -> cs_add_property rows c name v = Err SBDF_ERROR_PROPERTY_ALREADY_EXISTS).
Proof. intros V. exact cs_add_spec. Qed.
Print Assumptions C11_add.

(* names stay unique, every property has the row count of the values, order is insertion order *)
Theorem C11_invariant : forall V (rows : V -> Z) (c c' : cs V) name v, cs_inv rows c -> cs_add_property rows c name v = Ok c' ->
  cs_inv rows c' /\ csvals c' = csvals c /\ csprops c' = csprops c ++ [(cstr name, v)].
Proof. intros V. exact cs_add_preserves_inv. Qed.
Print Assumptions C11_invariant.

(* accepted properties are retrievable by name as the very same array; earlier ones are unaffected *)
Theorem C11_get : forall V (rows : V -> Z) (c c' : cs V) name v, cs_add_property rows c name v = Ok c' ->
  cs_get_property c' name = Ok v /\
  (forall other, name_eqb other name = false -> cs_get_property c' other = cs_get_property c other).
Proof. intros V rows c c' name v H. split; [eapply cs_get_after_add; eassumption|intros; eapply cs_get_other_after_add; eassumption]. Qed.
Print Assumptions C11_get.

Theorem C11_get_absent : forall V (c : cs V) name, cs_find name c = None -> cs_get_property c name = Err SBDF_ERROR_PROPERTY_NOT_FOUND.
Proof. intros V. exact cs_get_absent. Qed.
Print Assumptions C11_get_absent.

(* a table slice lists exactly the column slices added to it, in order *)
Theorem C11_table_slice_lists_columns : forall C (cols : list C),
  tscols (fold_left (fun t c => ts_add c t) cols ts_create) = map Some cols.
Proof. intros C. exact ts_add_lists_columns. Qed.
Print Assumptions C11_table_slice_lists_columns.

(* a slice obtained from a stream — any stream, any subset — has exactly as many columns as the
   metadata it was read against; a well-formed slice of another width is refused *)
Theorem C11_read_column_count : forall swp cap ncols subset s t s',
  ts_read swp cap ncols subset s = Ok (t, s') -> zlen (tscols t) = ncols /\ tsowned t = true.
Proof. exact ts_read_column_count. Qed.
Print Assumptions C11_read_column_count.

Theorem C11_read_count_mismatch : forall swp cols ncols subset tail, wf_ts cols -> ncols <> zlen cols ->
  ts_read swp None ncols subset (enc_ts swp cols ++ tail) = Err SBDF_ERROR_COLUMN_COUNT_MISMATCH.
Proof. exact ts_read_count_mismatch. Qed.
Print Assumptions C11_read_count_mismatch.

(* the growth function of the property and column arrays from the source: sbdf_calculate_array_capacity
   (translated on every run) returns the model's array_capacity - the smallest member of
   0, 1, 2, 4, 7, 11, 17, ... that is >= size - for every size up to 715 827 882 (beyond that
   cap * 3 would overflow an int: the interpreter would report it, the theorem excludes it) *)
Theorem C11_source_capacity : forall size, int_min <= size <= 715827882 ->
  exists f0, forall f, (f0 <= f)%nat -> exists fin,
    callE prog_env f prog_sbdf_calculate_array_capacity [VInt size] [] 0 = OReturn (VInt (array_capacity size)) fin.
Proof. exact capacity_source. Qed.
Print Assumptions C11_source_capacity.

(* ---- column slices from the source (src/columnslice.c, src/valuearray.c; cell heap of Imp.v):
   sbdf_cs_create hands out a fresh slice that refers to the caller's value array, with no
   properties and not owning; sbdf_cs_get_property returns the array stored with the FIRST
   property of that name and PROPERTY_NOT_FOUND when there is none, without touching the slice;
   sbdf_va_row_cnt / sbdf_cs_row_cnt answer from the encoding (plain: the object's count, run-length
   and bit: the stored row count, anything else: UNKNOWN_VALUEARRAY_ENCODING). *)
Theorem C11_source_cs_create : forall k sx m h vb,
  exists f0, forall f, (f0 <= f)%nat -> exists fin,
    callC prog_env f prog_sbdf_cs_create [tok; VCell vb 0] m k sx h =
      OReturn (VInt (if k =? 0 then SBDF_ERROR_OUT_OF_MEMORY else SBDF_OK)) fin /\ inb fin = m /\
    (if k =? 0 then Imp.lookup cells_var (vars fin) = Some (VHeap h)
     else Imp.lookup cells_var (vars fin) = Some (VHeap (h ++ [Some [VCell vb 0; VInt 0; VInt 0; VInt 0; VInt 0]])) /\
          Imp.lookup "*out"%string (vars fin) = Some (VCell (List.length h) 0)).
Proof. exact cs_create_source. Qed.
Print Assumptions C11_source_cs_create.

Theorem C11_source_cs_get_property : forall k sx m h cb values names props owned nb ncells pb pcells q name pn,
  cs_block h cb values (zlen pn) names props owned ->
  as_ptr names = VCell nb 0 -> nth_error h nb = Some (Some ncells) -> names_at m ncells pn ->
  as_ptr props = VCell pb 0 -> nth_error h pb = Some (Some pcells) -> (List.length pn <= List.length pcells)%nat ->
  cstr_at m q name -> zlen pn < int_max ->
  exists f0, forall f, (f0 <= f)%nat -> exists fin,
    callC prog_env f prog_sbdf_cs_get_property [VCell cb 0; VPtr RIn q; tok] m k sx h =
      OReturn (VInt (match find_name name pn 0 with Some _ => SBDF_OK | None => SBDF_ERROR_PROPERTY_NOT_FOUND end)) fin /\
    inb fin = m /\ Imp.lookup cells_var (vars fin) = Some (VHeap h) /\
    Imp.lookup "*out"%string (vars fin) = Some (match find_name name pn 0 with Some j => as_ptr (nth (Z.to_nat j) pcells VUndef) | None => VUndef end).
Proof. exact cs_get_property_source. Qed.
Print Assumptions C11_source_cs_get_property.

Theorem C11_source_row_counts : forall k sx m h cb values n names props owned vb ty enc v1 o1 o2 ob oty cnt data,
  cs_block h cb values n names props owned -> as_ptr values = VCell vb 0 ->
  va_block h vb ty enc v1 o1 o2 -> int_min <= enc <= int_max ->
  (enc = SBDF_PLAINARRAYENCODINGTYPEID -> as_ptr o1 = VCell ob 0 /\ obj_block h ob oty cnt data) ->
  (exists f0, forall f, (f0 <= f)%nat -> exists fin,
    callC prog_env f prog_sbdf_va_row_cnt [VCell vb 0] m k sx h = OReturn (VInt (row_cnt_of enc v1 cnt)) fin /\
    inb fin = m /\ Imp.lookup cells_var (vars fin) = Some (VHeap h)) /\
  (exists f0, forall f, (f0 <= f)%nat -> exists fin,
    callC prog_env f prog_sbdf_cs_row_cnt [VCell cb 0] m k sx h = OReturn (VInt (row_cnt_of enc v1 cnt)) fin /\
    inb fin = m /\ Imp.lookup cells_var (vars fin) = Some (VHeap h)).
Proof.
  intros. split; [eapply va_row_cnt_source; eassumption|eapply cs_row_cnt_source; eassumption].
Qed.
Print Assumptions C11_source_row_counts.

Theorem C11_source_ts_create : forall k sx m h hb,
  exists f0, forall f, (f0 <= f)%nat -> exists fin,
    callC prog_env f prog_sbdf_ts_create [VCell hb 0; tok] m k sx h =
      OReturn (VInt (if k =? 0 then SBDF_ERROR_OUT_OF_MEMORY else SBDF_OK)) fin /\ inb fin = m /\
    (if k =? 0 then Imp.lookup cells_var (vars fin) = Some (VHeap h)
     else Imp.lookup cells_var (vars fin) = Some (VHeap (h ++ [Some [VCell hb 0; VInt 0; VNull; VInt 0]])) /\
          Imp.lookup "*out"%string (vars fin) = Some (VCell (List.length h) 0)).
Proof. exact ts_create_source. Qed.
Print Assumptions C11_source_ts_create.

(* ---- sbdf_ts_add from the source (with sbdf_calculate_array_capacity and sbdf_alloc: malloc for an empty slot,
   realloc otherwise - the old array released, its cells carried over).  n = the number of columns so far.
   - room left (capacity(n) <> n): the column slice goes into slot n, the count becomes n + 1, every other block and
     every other slot is as before;
   - first column of a fresh slice, or a full array (capacity(n) = n): a new array of capacity(n + 1) slots holds the
     columns so far in order, the new one in slot n, unspecified slack behind; the old array (if any) is released;
     when the allocation fails (k = 0) the call reports OUT_OF_MEMORY and the heap is exactly as before.
   So a table slice lists exactly the column slices added to it, in order - for every heap, count and oracle. *)
Theorem C11_source_ts_add_room : forall k sx m h tb meta n cols owned colb ccells cb old, ts_block h tb meta n cols owned -> 0 <= n <= 715827881 ->
  array_capacity n <> n -> as_ptr cols = VCell colb 0 -> nth_error h colb = Some (Some ccells) -> nth_error ccells (Z.to_nat n) = Some old -> tb <> colb ->
  exists h2 ccells', set_nth_v (Z.to_nat n) (VCell cb 0) ccells = Some ccells' /\
    nth_error h2 tb = Some (Some [meta; VInt (n + 1); cols; VInt owned]) /\ nth_error h2 colb = Some (Some ccells') /\
    (forall c, c <> tb -> c <> colb -> nth_error h2 c = nth_error h c) /\
  exists f0, forall f, (f0 <= f)%nat -> exists fin,
    callC prog_env f prog_sbdf_ts_add [VCell cb 0; VCell tb 0] m k sx h = OReturn (VInt SBDF_OK) fin /\ inb fin = m /\ Imp.lookup cells_var (vars fin) = Some (VHeap h2).
Proof. exact ts_add_room_source. Qed.
Print Assumptions C11_source_ts_add_room.

Theorem C11_source_ts_add_first : forall k sx m h tb meta n cols owned cb, ts_block h tb meta n cols owned -> 0 <= n <= 715827881 ->
  array_capacity n = n -> array_capacity (n + 1) * 8 <= int_max -> as_ptr cols = VNull ->
  let L := List.length h in let c := Z.to_nat (array_capacity (n + 1)) in
  exists h2 blk', set_nth_v (Z.to_nat n) (VCell cb 0) (repeat VUndef c) = Some blk' /\
    nth_error h2 tb = Some (Some [meta; VInt (n + 1); VCell L 0; VInt owned]) /\ nth_error h2 L = Some (Some blk') /\
    (forall x, x <> tb -> x <> L -> nth_error h2 x = nth_error (h ++ [Some (repeat VUndef c)]) x) /\
  exists f0, forall f, (f0 <= f)%nat -> exists fin,
    callC prog_env f prog_sbdf_ts_add [VCell cb 0; VCell tb 0] m k sx h =
      OReturn (VInt (if k =? 0 then SBDF_ERROR_OUT_OF_MEMORY else SBDF_OK)) fin /\ inb fin = m /\
    Imp.lookup cells_var (vars fin) = Some (VHeap (if k =? 0 then h else h2)).
Proof. exact ts_add_first_source. Qed.
Print Assumptions C11_source_ts_add_first.

Theorem C11_source_ts_add_regrow : forall k sx m h tb meta n cols owned colb ccells cb, ts_block h tb meta n cols owned -> 0 <= n <= 715827881 ->
  array_capacity n = n -> array_capacity (n + 1) * 8 <= int_max -> as_ptr cols = VCell colb 0 -> nth_error h colb = Some (Some ccells) ->
  zlen ccells = n -> tb <> colb ->
  let L := List.length h in let c := Z.to_nat (array_capacity (n + 1)) in
  exists h2, nth_error h2 tb = Some (Some [meta; VInt (n + 1); VCell L 0; VInt owned]) /\
    nth_error h2 L = Some (Some (ccells ++ VCell cb 0 :: repeat VUndef (c - S (List.length ccells)))) /\ nth_error h2 colb = Some None /\
    (forall x, x <> tb -> x <> L -> x <> colb -> (x < L)%nat -> nth_error h2 x = nth_error h x) /\
  exists f0, forall f, (f0 <= f)%nat -> exists fin,
    callC prog_env f prog_sbdf_ts_add [VCell cb 0; VCell tb 0] m k sx h =
      OReturn (VInt (if k =? 0 then SBDF_ERROR_OUT_OF_MEMORY else SBDF_OK)) fin /\ inb fin = m /\
    Imp.lookup cells_var (vars fin) = Some (VHeap (if k =? 0 then h else h2)).
Proof. exact ts_add_regrow_source. Qed.
Print Assumptions C11_source_ts_add_regrow.

(* sbdf_cs_add_property from the source: the three ways a call that finds room can end.  The column and the new
   array are any value arrays (plain, run-length, bit-packed: row_cnt_of), the property list any list of names. *)
Section CsAdd.
Variables (k : Z) (sx m : list Z) (h : heap) (cb : nat) (values names props : val) (owned : Z) (vb : nat) (ty1 enc1 v11 : Z)
  (o11 o12 : val) (ob1 : nat) (oty1 cnt1 : Z) (data1 : val) (ab : nat) (ty2 enc2 v21 : Z) (o21 o22 : val) (ob2 : nat)
  (oty2 cnt2 : Z) (data2 : val) (pn : list (list Z)).
Hypothesis Hc : cs_block h cb values (zlen pn) names props owned.
Hypothesis Hvals : as_ptr values = VCell vb 0.
Hypothesis Hv1 : va_block h vb ty1 enc1 v11 o11 o12.
Hypothesis He1 : int_min <= enc1 <= int_max.
Hypothesis Hp1 : enc1 = SBDF_PLAINARRAYENCODINGTYPEID -> as_ptr o11 = VCell ob1 0 /\ obj_block h ob1 oty1 cnt1 data1.
Hypothesis Hv2 : va_block h ab ty2 enc2 v21 o21 o22.
Hypothesis He2 : int_min <= enc2 <= int_max.
Hypothesis Hp2 : enc2 = SBDF_PLAINARRAYENCODINGTYPEID -> as_ptr o21 = VCell ob2 0 /\ obj_block h ob2 oty2 cnt2 data2.
Hypothesis Hr1 : int_min <= row_cnt_of enc1 v11 cnt1 <= int_max.
Hypothesis Hr2 : int_min <= row_cnt_of enc2 v21 cnt2 <= int_max.

Theorem C11_source_cs_add_property_mismatch : forall q, row_cnt_of enc1 v11 cnt1 <> row_cnt_of enc2 v21 cnt2 ->
  exists f0, forall f, (f0 <= f)%nat -> exists fin,
    callC prog_env f prog_sbdf_cs_add_property [VCell cb 0; VPtr RIn q; VCell ab 0] m k sx h = OReturn (VInt SBDF_ERROR_ROW_COUNT_MISMATCH) fin /\
    inb fin = m /\ Imp.lookup cells_var (vars fin) = Some (VHeap h).
Proof. exact (cs_add_mismatch_source k sx m h cb values names props owned vb ty1 enc1 v11 o11 o12 ob1 oty1 cnt1 data1 ab ty2 enc2 v21 o21 o22 ob2 oty2 cnt2 data2 pn Hc Hvals Hv1 He1 Hp1 Hv2 He2 Hp2 Hr1 Hr2). Qed.

Theorem C11_source_cs_add_property_clash : forall q name nb ncells j, row_cnt_of enc1 v11 cnt1 = row_cnt_of enc2 v21 cnt2 ->
  as_ptr names = VCell nb 0 -> nth_error h nb = Some (Some ncells) -> names_at m ncells pn -> cstr_at m q name -> zlen pn < int_max ->
  find_name name pn 0 = Some j ->
  exists f0, forall f, (f0 <= f)%nat -> exists fin,
    callC prog_env f prog_sbdf_cs_add_property [VCell cb 0; VPtr RIn q; VCell ab 0] m k sx h = OReturn (VInt SBDF_ERROR_PROPERTY_ALREADY_EXISTS) fin /\
    inb fin = m /\ Imp.lookup cells_var (vars fin) = Some (VHeap h).
Proof. exact (cs_add_clash_source k sx m h cb values names props owned vb ty1 enc1 v11 o11 o12 ob1 oty1 cnt1 data1 ab ty2 enc2 v21 o21 o22 ob2 oty2 cnt2 data2 pn Hc Hvals Hv1 He1 Hp1 Hv2 He2 Hp2 Hr1 Hr2). Qed.

Theorem C11_source_cs_add_property_room : forall nb ncells pb pcells pre bytes post oldn oldp h1 h2 h3, row_cnt_of enc1 v11 cnt1 = row_cnt_of enc2 v21 cnt2 ->
  m = pre ++ bytes ++ 0 :: post ->
  as_ptr names = VCell nb 0 -> nth_error h nb = Some (Some ncells) -> names_at m ncells pn -> zlen pn <= 715827881 ->
  Forall (fun b => b <> 0) bytes -> zlen bytes + 1 <= int_max ->
  find_name bytes pn 0 = None -> array_capacity (zlen pn) <> zlen pn ->
  as_ptr props = VCell pb 0 -> nth_error h pb = Some (Some pcells) ->
  nth_error ncells (Z.to_nat (zlen pn)) = Some oldn -> nth_error pcells (Z.to_nat (zlen pn)) = Some oldp -> cb <> nb ->
  (k <> 0 -> cell_set h nb (zlen pn) (VPtr RIn (zlen m + 4)) = Some h1 /\ cell_set h1 cb 1 (VInt (zlen pn + 1)) = Some h2 /\ cell_set h2 pb (zlen pn) (VCell ab 0) = Some h3) ->
  exists f0, forall f, (f0 <= f)%nat -> exists fin,
    callC prog_env f prog_sbdf_cs_add_property [VCell cb 0; VPtr RIn (zlen pre); VCell ab 0] m k sx h =
      OReturn (VInt (if k =? 0 then SBDF_ERROR_OUT_OF_MEMORY else SBDF_OK)) fin /\
    inb fin = (if k =? 0 then m else str_mem m bytes []) /\ Imp.lookup cells_var (vars fin) = Some (VHeap (if k =? 0 then h else h3)).
Proof. exact (cs_add_room_source k sx m h cb values names props owned vb ty1 enc1 v11 o11 o12 ob1 oty1 cnt1 data1 ab ty2 enc2 v21 o21 o22 ob2 oty2 cnt2 data2 pn Hc Hvals Hv1 He1 Hp1 Hv2 He2 Hp2 Hr1 Hr2). Qed.
End CsAdd.
Print Assumptions C11_source_cs_add_property_mismatch.
Print Assumptions C11_source_cs_add_property_clash.
Print Assumptions C11_source_cs_add_property_room.

(* the first property of a slice: both pointer arrays are allocated through sbdf_alloc (one slot each), the name is copied,
   name and array go into slot 0 and the count becomes 1 - or the call stops at the first of the three allocations that fails
   (for every oracle), the count is still 0 and every other block of the heap is as before *)
Theorem C11_source_cs_add_property_first : forall k sx h cb values names0 props0 owned vb ty1 enc1 v11 o11 o12 ob1 oty1 cnt1 data1 ab ty2 enc2 v21 o21 o22 ob2 oty2 cnt2 data2 pre bytes post,
  let m := pre ++ bytes ++ 0 :: post in
  cs_block h cb values 0 names0 props0 owned -> as_ptr names0 = VNull -> as_ptr props0 = VNull ->
  as_ptr values = VCell vb 0 -> va_block h vb ty1 enc1 v11 o11 o12 -> int_min <= enc1 <= int_max ->
  (enc1 = SBDF_PLAINARRAYENCODINGTYPEID -> as_ptr o11 = VCell ob1 0 /\ obj_block h ob1 oty1 cnt1 data1) ->
  va_block h ab ty2 enc2 v21 o21 o22 -> int_min <= enc2 <= int_max ->
  (enc2 = SBDF_PLAINARRAYENCODINGTYPEID -> as_ptr o21 = VCell ob2 0 /\ obj_block h ob2 oty2 cnt2 data2) ->
  int_min <= row_cnt_of enc1 v11 cnt1 <= int_max -> int_min <= row_cnt_of enc2 v21 cnt2 <= int_max ->
  row_cnt_of enc1 v11 cnt1 = row_cnt_of enc2 v21 cnt2 ->
  Forall (fun b => b <> 0) bytes -> zlen bytes + 1 <= int_max ->
  let L := List.length h in let k1 := next_fail k in let k2 := next_fail k1 in
  exists f0, forall f, (f0 <= f)%nat -> exists fin,
    callC prog_env f prog_sbdf_cs_add_property [VCell cb 0; VPtr RIn (zlen pre); VCell ab 0] m k sx h =
      OReturn (VInt (if (k =? 0) || (k1 =? 0) || (k2 =? 0) then SBDF_ERROR_OUT_OF_MEMORY else SBDF_OK)) fin /\
    inb fin = (if (k =? 0) || (k1 =? 0) || (k2 =? 0) then m else str_mem m bytes []) /\
    exists hf, Imp.lookup cells_var (vars fin) = Some (VHeap hf) /\
      (if k =? 0 then hf = h
       else if k1 =? 0 then nth_error hf cb = Some (Some [values; VInt 0; names0; VCell L 0; VInt owned]) /\ List.length hf = S L
       else if k2 =? 0 then nth_error hf cb = Some (Some [values; VInt 0; VCell (S L) 0; VCell L 0; VInt owned]) /\ List.length hf = S (S L)
       else nth_error hf cb = Some (Some [values; VInt 1; VCell (S L) 0; VCell L 0; VInt owned]) /\
            nth_error hf L = Some (Some [VCell ab 0]) /\ nth_error hf (S L) = Some (Some [VPtr RIn (zlen m + 4)]) /\ List.length hf = S (S L)) /\
      (forall x, x <> cb -> (x < L)%nat -> nth_error hf x = nth_error h x).
Proof. exact cs_add_first_source. Qed.
Print Assumptions C11_source_cs_add_property_first.

(* a property added when both arrays are exactly full (1, 2, 4, 7, 11 ... properties): each array is re-grown to the next
   capacity with its cells kept and the old block released, then name and array go into slot n; the call stops at whichever
   of the three allocations fails, and what it leaves is a usable slice with the count unchanged *)
Theorem C11_source_cs_add_property_regrow : forall k sx h cb values names props owned nb ncells pb pcells vb ty1 enc1 v11 o11 o12 ob1 oty1 cnt1 data1 ab ty2 enc2 v21 o21 o22 ob2 oty2 cnt2 data2 pre bytes post pn,
  let m := pre ++ bytes ++ 0 :: post in
  let n := zlen pn in
  cs_block h cb values n names props owned ->
  as_ptr names = VCell nb 0 -> nth_error h nb = Some (Some ncells) -> names_at m ncells pn -> zlen ncells = n ->
  as_ptr props = VCell pb 0 -> nth_error h pb = Some (Some pcells) -> zlen pcells = n ->
  cb <> nb -> cb <> pb -> nb <> pb ->
  0 < n <= 715827881 -> array_capacity n = n -> array_capacity (n + 1) * 8 <= int_max ->
  as_ptr values = VCell vb 0 -> va_block h vb ty1 enc1 v11 o11 o12 -> int_min <= enc1 <= int_max ->
  (enc1 = SBDF_PLAINARRAYENCODINGTYPEID -> as_ptr o11 = VCell ob1 0 /\ obj_block h ob1 oty1 cnt1 data1) ->
  va_block h ab ty2 enc2 v21 o21 o22 -> int_min <= enc2 <= int_max ->
  (enc2 = SBDF_PLAINARRAYENCODINGTYPEID -> as_ptr o21 = VCell ob2 0 /\ obj_block h ob2 oty2 cnt2 data2) ->
  int_min <= row_cnt_of enc1 v11 cnt1 <= int_max -> int_min <= row_cnt_of enc2 v21 cnt2 <= int_max ->
  row_cnt_of enc1 v11 cnt1 = row_cnt_of enc2 v21 cnt2 ->
  Forall (fun b => b <> 0) bytes -> zlen bytes + 1 <= int_max -> find_name bytes pn 0 = None ->
  let L := List.length h in let c := Z.to_nat (array_capacity (n + 1)) in
  let k1 := next_fail k in let k2 := next_fail k1 in
  exists f0, forall f, (f0 <= f)%nat -> exists fin,
    callC prog_env f prog_sbdf_cs_add_property [VCell cb 0; VPtr RIn (zlen pre); VCell ab 0] m k sx h =
      OReturn (VInt (if (k =? 0) || (k1 =? 0) || (k2 =? 0) then SBDF_ERROR_OUT_OF_MEMORY else SBDF_OK)) fin /\
    inb fin = (if (k =? 0) || (k1 =? 0) || (k2 =? 0) then m else str_mem m bytes []) /\
    exists hf, Imp.lookup cells_var (vars fin) = Some (VHeap hf) /\
      (if k =? 0 then hf = h
       else if k1 =? 0 then nth_error hf cb = Some (Some [values; VInt n; names; VCell L 0; VInt owned]) /\ nth_error hf pb = Some None /\
                            nth_error hf L = Some (Some (pcells ++ repeat VUndef (c - List.length pcells))) /\ nth_error hf nb = Some (Some ncells)
       else if k2 =? 0 then nth_error hf cb = Some (Some [values; VInt n; VCell (S L) 0; VCell L 0; VInt owned]) /\ nth_error hf pb = Some None /\ nth_error hf nb = Some None /\
                            nth_error hf L = Some (Some (pcells ++ repeat VUndef (c - List.length pcells))) /\
                            nth_error hf (S L) = Some (Some (ncells ++ repeat VUndef (c - List.length ncells)))
       else nth_error hf cb = Some (Some [values; VInt (n + 1); VCell (S L) 0; VCell L 0; VInt owned]) /\ nth_error hf pb = Some None /\ nth_error hf nb = Some None /\
            nth_error hf L = Some (Some (pcells ++ VCell ab 0 :: repeat VUndef (c - S (List.length pcells)))) /\
            nth_error hf (S L) = Some (Some (ncells ++ VPtr RIn (zlen m + 4) :: repeat VUndef (c - S (List.length ncells))))) /\
      (forall x, x <> cb -> x <> nb -> x <> pb -> (x < L)%nat -> nth_error hf x = nth_error h x).
Proof. exact cs_add_regrow_source. Qed.
Print Assumptions C11_source_cs_add_property_regrow.

(* the capacity rule makes the cases exhaustive and the first numbers concrete *)
Example C11_capacity_values : map array_capacity [0; 1; 2; 3; 4; 5; 7; 8; 11; 12] = [0; 1; 2; 4; 4; 7; 7; 11; 11; 17].
Proof. vm_compute. reflexivity. Qed.
