(* C11 — column and table slices keep their structural invariants.  Statements only; proofs in
   CsFacts.v and SliceFacts.v.  The payload type V of a caller-built slice is the identity of a
   value array (a handle): "the very same array" is equality of payloads. *)
From Sbdf Require Import ImpCall Gen.Prog ImpFacts ImpFacts7 ImpFactsFrame.
From Coq Require Import List.
From Sbdf Require Import Slice CsFacts SliceFacts MdFacts.

(* an addition is accepted exactly when the row counts agree and the name is new *)
Theorem C11_add : forall V (rows : V -> Z) (c : cs V) name v,
  (rows (csvals c) = rows v -> cs_find name c = None ->
     cs_add_property rows c name v = Ok {| csvals := csvals c; csprops := csprops c ++ [(cstr name, v)]; csowned := csowned c |}) /\
  (rows (csvals c) <> rows v -> cs_add_property rows c name v = Err SBDF_ERROR_ROW_COUNT_MISMATCH) /\
  (rows (csvals c) = rows v -> cs_find name c <> None -> cs_add_property rows c name v = Err SBDF_ERROR_PROPERTY_ALREADY_EXISTS).
Proof. intros V. exact cs_add_spec. Qed.
Print Assumptions C11_add.

(* names stay unique, every property has the row count of the values, order is insertion order *)
Theorem C11_invariant : forall V (rows : V -> Z) (c c' : cs V) name v, cs_inv rows c -> cs_add_property rows c name v = Ok c' ->
  cs_inv rows c' /\ csvals c' = csvals c /\ csprops c' = csprops c ++ [(cstr name, v)].
Proof. intros V. exact cs_add_preserves_inv. Qed.
Print Assumptions C11_invariant.

(* accepted properties are retrievable by name as the very same array; earlier ones are unaffected *)
Theorem C11_get : forall V (rows : V -> Z) (c c' : cs V) name v, cs_add_property rows c name v = Ok c' ->
  cs_get_property c' name = Ok v /\
  (forall other, name_eqb other name = false -> cs_get_property c' other = cs_get_property c other).
Proof. intros V rows c c' name v H. split; [eapply cs_get_after_add; eassumption|intros; eapply cs_get_other_after_add; eassumption]. Qed.
Print Assumptions C11_get.

Theorem C11_get_absent : forall V (c : cs V) name, cs_find name c = None -> cs_get_property c name = Err SBDF_ERROR_PROPERTY_NOT_FOUND.
Proof. intros V. exact cs_get_absent. Qed.
Print Assumptions C11_get_absent.

(* a table slice lists exactly the column slices added to it, in order *)
Theorem C11_table_slice_lists_columns : forall C (cols : list C),
  tscols (fold_left (fun t c => ts_add c t) cols ts_create) = map Some cols.
Proof. intros C. exact ts_add_lists_columns. Qed.
Print Assumptions C11_table_slice_lists_columns.

(* a slice obtained from a stream — any stream, any subset — has exactly as many columns as the
   metadata it was read against; a well-formed slice of another width is refused *)
Theorem C11_read_column_count : forall swp cap ncols subset s t s',
  ts_read swp cap ncols subset s = Ok (t, s') -> zlen (tscols t) = ncols /\ tsowned t = true.
Proof. exact ts_read_column_count. Qed.
Print Assumptions C11_read_column_count.

Theorem C11_read_count_mismatch : forall swp cols ncols subset tail, wf_ts cols -> ncols <> zlen cols ->
  ts_read swp None ncols subset (enc_ts swp cols ++ tail) = Err SBDF_ERROR_COLUMN_COUNT_MISMATCH.
Proof. exact ts_read_count_mismatch. Qed.
Print Assumptions C11_read_count_mismatch.

(* the growth function of the property and column arrays from the source: sbdf_calculate_array_capacity
   (translated on every run) returns the model's array_capacity - the smallest member of
   0, 1, 2, 4, 7, 11, 17, ... that is >= size - for every size up to 715 827 882 (beyond that
   cap * 3 would overflow an int: the interpreter would report it, the theorem excludes it) *)
Theorem C11_source_capacity : forall size, int_min <= size <= 715827882 ->
  exists f0, forall f, (f0 <= f)%nat -> exists fin,
    callE prog_env f prog_sbdf_calculate_array_capacity [VInt size] [] 0 = OReturn (VInt (array_capacity size)) fin.
Proof. exact capacity_source. Qed.
Print Assumptions C11_source_capacity.
