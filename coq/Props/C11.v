(* C11 - statements only. (grows) *)
From Sbdf Require Import Base BaseFacts.
Theorem C11_names_compare_as_c_strings : forall s, cstr (cstr s) = cstr s.
Proof. exact cstr_idem. Qed.
Print Assumptions C11_names_compare_as_c_strings.
