(* C12 - statements only. (grows) *)
From Sbdf Require Import Obj Va VaFacts.
Theorem C12_copy_is_equal : forall o, obj_ok o -> obj_copy o = Ok o.
Proof. exact obj_copy_ok. Qed.
Print Assumptions C12_copy_is_equal.
