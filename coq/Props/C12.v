(* C12 — inputs are copied, outputs are independent, everything is released exactly once.
   Over the L2 ledger model (Mem.v), which retells sbdf_obj_create_arr / sbdf_obj_copy /
   sbdf_read_objects (one skeleton), sbdf_obj_destroy, sbdf_va_create_plain, sbdf_va_get_values
   (plain) and sbdf_va_destroy with the same allocations, stores and frees on every exit path.
   A Fault (null dereference, use after free, invalid or double free, out-of-bounds cell) is a
   possible outcome of the model; the theorems say it never occurs — for every state of the failure
   oracle.  "fresh" blocks are blocks that did not exist before the call: storage that nothing
   else can reach.  The metadata / slice containers are covered by the sanitizer run only.
   Statements only; proofs in MemFacts.v. *)
From Sbdf Require Import Imp ImpCall Gen.Prog ImpBase ImpFactsCells ImpFactsDestroy ImpFactsRelease ImpFactsReleaseAll ImpFactsReleaseTs ImpFactsMdDestroy ImpFactsTmDestroy.
From Coq Require Import List.
From Sbdf Require Import Mem MemFacts.

(* a constructor either returns an object made of fresh blocks only, leaving every other block
   untouched, or fails, returns null and leaves the heap exactly as it found it *)
Theorem C12_construct : forall ty count s, fresh_inv s ->
  match obj_build ty count s with
  | Flt _ => False
  | Val (st, p) s' =>
    fresh_inv s' /\ mfail s' = mfail s /\
    ((st = SBDF_OK /\ exists t blocks, p = Some t /\ obj_at s' t ty count blocks /\ all_fresh s blocks /\
        (forall x, ~ In x blocks -> find x s' = find x s)) \/
     (st <> SBDF_OK /\ p = None /\ same_heap s s'))
  end.
Proof. exact obj_build_spec. Qed.
Print Assumptions C12_construct.

(* a copy shares no block with its source, and the source is unchanged: later modification or
   release of either cannot reach the other *)
Theorem C12_copy_independent : forall s src ty count blocks, fresh_inv s -> obj_at s src ty count blocks ->
  match obj_copy_m (Some src) s with
  | Flt _ => False
  | Val (st, p) s' =>
    fresh_inv s' /\
    ((st = SBDF_OK /\ exists t cblocks, p = Some t /\ obj_at s' t ty count cblocks /\ all_fresh s cblocks /\
        (forall b, In b blocks -> ~ In b cblocks) /\ obj_at s' src ty count blocks /\
        (forall x, ~ In x cblocks -> find x s' = find x s)) \/
     (st <> SBDF_OK /\ p = None /\ same_heap s s'))
  end.
Proof. exact obj_copy_spec. Qed.
Print Assumptions C12_copy_independent.

(* the documented destroy function releases exactly the blocks of the object, each once *)
Theorem C12_destroy_releases_exactly : forall s t ty count blocks, fresh_inv s -> obj_at s t ty count blocks ->
  exists s', obj_destroy (Some t) s = Val tt s' /\ released blocks s s' /\ fresh_inv s' /\ mnext s' = mnext s /\ mfail s' = mfail s.
Proof. exact obj_destroy_spec. Qed.
Print Assumptions C12_destroy_releases_exactly.

Theorem C12_construct_then_destroy : forall ty count s, fresh_inv s ->
  match obj_build ty count s with
  | Flt _ => False
  | Val (st, p) s1 =>
    match obj_destroy p s1 with
    | Flt _ => False
    | Val _ s2 => same_heap s s2 /\ (st <> SBDF_OK -> p = None /\ same_heap s s1)
    end
  end.
Proof. exact obj_build_destroy. Qed.
Print Assumptions C12_construct_then_destroy.

(* value arrays own a copy of the array they were created from; extraction returns another copy *)
Theorem C12_value_array_owns_copy : forall s src ty count blocks, fresh_inv s -> obj_at s src ty count blocks ->
  match va_create_plain_m (Some src) s with
  | Flt _ => False
  | Val (st, p) s' =>
    fresh_inv s' /\
    ((st = SBDF_OK /\ exists h vblocks, p = Some h /\ va_at s' h ty count vblocks /\ all_fresh s vblocks /\
        (forall b, In b blocks -> ~ In b vblocks) /\ obj_at s' src ty count blocks /\
        (forall x, ~ In x vblocks -> find x s' = find x s)) \/
     (st <> SBDF_OK /\ p = None /\ same_heap s s'))
  end.
Proof. exact va_create_plain_spec. Qed.
Print Assumptions C12_value_array_owns_copy.

Theorem C12_value_extraction_independent : forall s h ty count blocks, fresh_inv s -> va_at s h ty count blocks ->
  match va_get_values_plain_m (Some h) s with
  | Flt _ => False
  | Val (st, p) s' =>
    fresh_inv s' /\
    ((st = SBDF_OK /\ exists t cb, p = Some t /\ obj_at s' t ty count cb /\ all_fresh s cb /\
        (forall b, In b blocks -> ~ In b cb) /\ va_at s' h ty count blocks) \/
     (st <> SBDF_OK /\ p = None /\ same_heap s s'))
  end.
Proof. exact va_get_values_plain_spec. Qed.
Print Assumptions C12_value_extraction_independent.

Theorem C12_value_array_destroy : forall s h ty count blocks, fresh_inv s -> va_at s h ty count blocks ->
  exists s', va_destroy (Some h) s = Val tt s' /\ released blocks s s' /\ fresh_inv s'.
Proof. exact va_destroy_spec. Qed.
Print Assumptions C12_value_array_destroy.

(* the hypotheses are met by the empty heap, under every oracle *)
Example C12_nonvacuous : forall fail, fresh_inv (mst0 fail).
Proof. exact fresh_inv_init. Qed.

(* sbdf_va_create_bit (the bit-packed encoding): handle, scratch buffer, byte-array object, data block,
   bytes - five allocation attempts.  For EVERY oracle: never a fault; on success only fresh blocks
   (the scratch buffer is gone again) and nothing else touched; on any failure a non-OK status, a
   null handle and the heap exactly as before. *)
Theorem C12_bit_array_create : forall s src ty count blocks, fresh_inv s -> obj_at s src ty count blocks ->
  match va_create_bit_m (Some src) s with
  | Flt _ => False
  | Val (st, p) s' =>
    fresh_inv s' /\
    ((st = SBDF_OK /\ exists h vblocks, p = Some h /\ va_at s' h SBDF_BINARYTYPEID 1 vblocks /\ all_fresh s vblocks /\
        (forall x, ~ In x vblocks -> find x s' = find x s)) \/
     (st <> SBDF_OK /\ p = None /\ same_heap s s'))
  end.
Proof. exact va_create_bit_spec. Qed.
Print Assumptions C12_bit_array_create.

(* ---- sbdf_obj_destroy and sbdf_va_destroy from the source (src/object.c, src/valuearray.c; translated on
   every run; structs live in the cell heap of Imp.v where free marks a block released and any later
   access to it - a second free included - is a fault of the interpreter).
   `destroys m h ob h'` describes an object at header block ob: for string / binary types a pointer
   array whose cells all point at stored elements (each handed to sbdf_dispose_array exactly once, in
   order), for the other types a data pointer into the byte memory.  The call runs to completion - so
   it touches no released block and frees nothing twice - and leaves exactly the object's own blocks
   released: h' = kill ob (kill db h) resp. kill ob h; every other block and the byte memory are as
   before.  (Release of the element blocks themselves happens in the byte memory, whose allocator is
   not tracked here: that part of C12 rests on the L2 ledger theorems above and the sanitizer runs.) *)
Theorem C12_source_obj_destroy : forall k sx m h ob h', destroys m h ob h' ->
  exists f0, forall f, (f0 <= f)%nat -> exists fin,
    callC prog_env f prog_sbdf_obj_destroy [VCell ob 0] m k sx h = ONormal fin /\ inb fin = m /\ Imp.lookup cells_var (vars fin) = Some (VHeap h').
Proof. exact obj_destroy_source. Qed.
Print Assumptions C12_source_obj_destroy.

Theorem C12_source_obj_destroy_effect : forall m h ob h', destroys m h ob h' ->
  nth_error h' ob = Some None /\
  ((exists db, h' = kill ob (kill db h) /\ ob <> db) \/ h' = kill ob h) /\
  (forall b c hh, b <> c -> nth_error (kill b hh) c = nth_error hh c).
Proof.
  intros m h ob h' D. split; [exact (destroys_released m h ob h' D)|]. split; [|intros; now apply kill_other].
  destruct D as [(db & ty & cells & data & _ & _ & H3 & _ & _ & _ & _ & ->)|(ty & cnt & dp & _ & _ & _ & ->)]; [left; exists db; split; [reflexivity|exact H3]|right; reflexivity].
Qed.
Print Assumptions C12_source_obj_destroy_effect.

Theorem C12_source_va_destroy : forall k sx m h vb ty enc v1 o1 o2 h1 h2,
  va_block h vb ty enc v1 o1 o2 -> destroys_opt m h o1 h1 -> destroys_opt m h1 o2 h2 ->
  nth_error h1 vb = nth_error h vb -> nth_error h2 vb = nth_error h vb ->
  exists f0, forall f, (f0 <= f)%nat -> exists fin,
    callC prog_env f prog_sbdf_va_destroy [VCell vb 0] m k sx h = ONormal fin /\ inb fin = m /\ Imp.lookup cells_var (vars fin) = Some (VHeap (kill vb h2)).
Proof. exact va_destroy_source. Qed.
Print Assumptions C12_source_va_destroy.

Example C12_source_nonvacuous :
  destroys [3; 0; 0; 0; 97; 98; 0; 2; 0; 0; 0; 99; 0] [Some [VInt 10; VInt 2; VCell 1 0]; Some [VPtr RIn 4; VPtr RIn 11]] 0 [None; None].
Proof.
  left. exists 1%nat, 10, [VPtr RIn 4; VPtr RIn 11], (VCell 1 0).
  split; [reflexivity|]. split; [reflexivity|]. split; [discriminate|]. split; [discriminate|]. split; [reflexivity|].
  split; [repeat constructor; eexists; (split; [reflexivity|cbn; lia])|]. split; [cbn; unfold int_max; lia|reflexivity].
Qed.

(* ---- containers that only refer to what they hold (slices built by the caller, owned = 0), from the source
   (src/columnslice.c, src/tableslice.c): sbdf_cs_destroy releases the property names, the two pointer
   arrays and the struct; sbdf_ts_destroy releases the columns array and the struct - and that is all:
   every other block of the cell heap (the value arrays, the column slices, the table metadata the
   container referred to) is exactly as before, still live, still the caller's to release. *)
Theorem C12_source_cs_destroy_not_owning : forall k sx m h cb values names props nb ncells used pb pcells,
  cs_block h cb values (zlen used) names props 0 -> as_ptr names = VCell nb 0 -> nth_error h nb = Some (Some ncells) ->
  ImpFactsRelease.elem_ptrs m used -> (exists slack, ncells = used ++ slack) -> zlen used < int_max ->
  as_ptr props = VCell pb 0 -> nth_error h pb = Some (Some pcells) -> cb <> nb -> cb <> pb -> nb <> pb ->
  exists f0, forall f, (f0 <= f)%nat -> exists fin,
    callC prog_env f prog_sbdf_cs_destroy [VCell cb 0] m k sx h = ONormal fin /\ inb fin = m /\
    Imp.lookup cells_var (vars fin) = Some (VHeap (kill cb (kill pb (kill nb h)))).
Proof. exact cs_destroy_source. Qed.
Print Assumptions C12_source_cs_destroy_not_owning.

Theorem C12_source_cs_destroy_fresh : forall k sx m h cb values, cs_block h cb values 0 (VInt 0) (VInt 0) 0 ->
  exists f0, forall f, (f0 <= f)%nat -> exists fin,
    callC prog_env f prog_sbdf_cs_destroy [VCell cb 0] m k sx h = ONormal fin /\ inb fin = m /\ Imp.lookup cells_var (vars fin) = Some (VHeap (kill cb h)).
Proof. exact cs_destroy_empty_source. Qed.
Print Assumptions C12_source_cs_destroy_fresh.

Theorem C12_source_ts_destroy_not_owning : forall k sx m h tb meta n cols colb ccells, ts_block h tb meta n cols 0 ->
  as_ptr cols = VCell colb 0 -> nth_error h colb = Some (Some ccells) -> tb <> colb ->
  exists f0, forall f, (f0 <= f)%nat -> exists fin,
    callC prog_env f prog_sbdf_ts_destroy [VCell tb 0] m k sx h = ONormal fin /\ inb fin = m /\ Imp.lookup cells_var (vars fin) = Some (VHeap (kill tb (kill colb h))).
Proof. exact ts_destroy_source. Qed.
Print Assumptions C12_source_ts_destroy_not_owning.

Theorem C12_source_release_leaves_others : forall b1 b2 b3 (h : heap) c, c <> b1 -> c <> b2 -> c <> b3 ->
  nth_error (kill b1 (kill b2 (kill b3 h))) c = nth_error h c.
Proof. exact release_leaves_others. Qed.
Print Assumptions C12_source_release_leaves_others.

(* ---- a column slice that owns its arrays (built by the reader), from the source: sbdf_cs_destroy goes through
   sbdf_cs_destroy_all: the values array (h1) and then every property array in order (h2: va_destroys_list -
   each handed to sbdf_va_destroy exactly once) are destroyed, the owned flag is cleared (h3), and the slice's
   own blocks - names, the two pointer arrays, the struct - are released.  The run completes, so no released
   block is touched again. *)
Theorem C12_source_cs_destroy_owning : forall k sx m h cb values n names props owned pb pcells pused pslack h1 h2 h3 nb ncells used, owned <> 0 ->
  cs_block h cb values n names props owned -> n < int_max ->
  va_destroys_opt m h values h1 -> (forall b, In b [cb; pb] -> nth_error h1 b = nth_error h b) ->
  as_ptr props = VCell pb 0 -> nth_error h pb = Some (Some pcells) -> pcells = pused ++ pslack -> zlen pused = n ->
  va_destroys_list m [cb; pb] h1 pused h2 ->
  cell_set h2 cb 4 (VInt 0) = Some h3 ->
  cs_block h3 cb values (zlen used) names props 0 -> as_ptr names = VCell nb 0 -> nth_error h3 nb = Some (Some ncells) ->
  ImpFactsRelease.elem_ptrs m used -> (exists slack, ncells = used ++ slack) -> zlen used < int_max ->
  nth_error h3 pb = Some (Some pcells) -> cb <> nb -> cb <> pb -> nb <> pb ->
  exists f0, forall f, (f0 <= f)%nat -> exists fin,
    callC prog_env f prog_sbdf_cs_destroy [VCell cb 0] m k sx h = OReturn (VInt 0) fin /\ inb fin = m /\
    Imp.lookup cells_var (vars fin) = Some (VHeap (kill cb (kill pb (kill nb h3)))).
Proof. exact cs_destroy_owned_source. Qed.
Print Assumptions C12_source_cs_destroy_owning.

(* ---- the rest of the destroy family from the source.
   sbdf_ts_destroy on a slice that owns its columns (built by the reader): every column slot, in order, goes to
   sbdf_cs_destroy exactly once - an empty slot left by a subset read is a no-op, an owning column slice goes
   through sbdf_cs_destroy_all (cs_destroys) - then the columns array and the struct are released.
   sbdf_md_destroy: every entry front to back (md_destroys: value and default destroyed, name handed to
   sbdf_str_destroy, block released, the next pointer read before the block goes), then the head.
   sbdf_tm_destroy: the table-level metadata, then every column's metadata in order, each to sbdf_md_destroy
   exactly once; then the column array and the struct.  Each call runs to completion: no released block is
   read, written or released again. *)
Theorem C12_source_ts_destroy_owning : forall k sx m h tb meta n cols owned colb ccells cused cslack h2, owned <> 0 -> n < int_max ->
  ts_block h tb meta n cols owned -> as_ptr cols = VCell colb 0 -> nth_error h colb = Some (Some ccells) ->
  ccells = cused ++ cslack -> zlen cused = n -> cs_destroys_list m [tb; colb] h cused h2 -> tb <> colb ->
  exists f0, forall f, (f0 <= f)%nat -> exists fin,
    callC prog_env f prog_sbdf_ts_destroy [VCell tb 0] m k sx h = ONormal fin /\ inb fin = m /\
    Imp.lookup cells_var (vars fin) = Some (VHeap (kill tb (kill colb h2))).
Proof. exact ts_destroy_owned_source. Qed.
Print Assumptions C12_source_ts_destroy_owning.

Theorem C12_source_md_destroy : forall k sx m h hb first modif h2, nth_error h hb = Some (Some [first; VInt modif]) ->
  md_destroys m h (as_ptr first) h2 -> nth_error h2 hb = Some (Some [first; VInt modif]) ->
  exists f0, forall f, (f0 <= f)%nat -> exists fin,
    callC prog_env f prog_sbdf_md_destroy [VCell hb 0] m k sx h = ONormal fin /\ inb fin = m /\ Imp.lookup cells_var (vars fin) = Some (VHeap (kill hb h2)).
Proof. exact md_destroy_source. Qed.
Print Assumptions C12_source_md_destroy.

Theorem C12_source_tm_destroy : forall k sx m h tb tmd n cm cmb ccells cused cslack h1 h2, n < int_max ->
  tm_block h tb tmd n cm -> mdh_destroys m h tmd h1 -> (forall b, In b [tb; cmb] -> nth_error h1 b = nth_error h b) ->
  as_ptr cm = VCell cmb 0 -> nth_error h cmb = Some (Some ccells) -> ccells = cused ++ cslack -> zlen cused = n ->
  mdh_destroys_list m [tb; cmb] h1 cused h2 -> tb <> cmb ->
  exists f0, forall f, (f0 <= f)%nat -> exists fin,
    callC prog_env f prog_sbdf_tm_destroy [VCell tb 0] m k sx h = ONormal fin /\ inb fin = m /\ Imp.lookup cells_var (vars fin) = Some (VHeap (kill tb (kill cmb h2))).
Proof. exact tm_destroy_source. Qed.
Print Assumptions C12_source_tm_destroy.

(* sbdf_obj_destroy on a string / binary object whose pointer array is filled only in front - what sbdf_read_objects hands
   to it when it fails half-way: the filled elements are released once each, the empty slots are looked at and left alone,
   the pointer array and the header are released; the call runs to completion (no released block touched, nothing twice) *)
From Sbdf Require Import ImpFactsDestroyPartial.
Theorem C12_source_obj_destroy_half_filled : forall k sx m h ob db ty filled nulls data,
  obj_block h ob ty (Base.zlen (filled ++ nulls)) data -> as_ptr data = VCell db 0 -> ob <> db ->
  Leaf.gen_sbdf_ti_is_arr ty <> 0%Z -> nth_error h db = Some (Some (filled ++ nulls)) -> ImpFactsDestroy.elem_ptrs m filled -> Forall (fun c => c = VInt 0 \/ c = VNull) nulls ->
  (Base.zlen (filled ++ nulls) <= int_max)%Z ->
  exists f0, forall f, (f0 <= f)%nat -> exists fin,
    callC prog_env f prog_sbdf_obj_destroy [VCell ob 0] m k sx h = ONormal fin /\ inb fin = m /\ Imp.lookup cells_var (vars fin) = Some (VHeap (kill ob (kill db h))).
Proof. exact obj_destroy_partial_source. Qed.
Print Assumptions C12_source_obj_destroy_half_filled.

(* reading, then releasing, both from the source: whatever sbdf_obj_read_arr builds (any element type, any count, any stream
   it accepts), one sbdf_obj_destroy on the result releases every block the read allocated and touches nothing else *)
From Sbdf Require Import ImpFactsReadObj ImpFactsReadArr ImpFactsReadVa.
Theorem C12_source_read_then_destroy : forall rf rp fo po v k sx h m, Forall byte sx ->
  exists f0, forall f, (f0 <= f)%nat -> exists st fin,
    execE prog_env f (fbody prog_sbdf_obj_read_arr) (ora (VPtr rf fo) v (VPtr rp po) VUndef VUndef VUndef VNull (VInt 0) k sx h m []) = OReturn (VInt st) fin /\
    (st = SBDF_OK ->
       Imp.lookup "*array" (vars fin) = Some (VCell (List.length h) 0) /\
       exists k' s' h' nb f1, Imp.lookup fail_var (vars fin) = Some (VInt k') /\ Imp.lookup strm_var (vars fin) = Some (VBytes s') /\ Imp.lookup cells_var (vars fin) = Some (VHeap h') /\
         (1 <= nb)%nat /\ List.length h' = (List.length h + nb)%nat /\
         forall g, (f1 <= g)%nat -> exists fin2,
           callC prog_env g prog_sbdf_obj_destroy [VCell (List.length h) 0] (inb fin) k' s' h' = ONormal fin2 /\
           inb fin2 = inb fin /\ Imp.lookup cells_var (vars fin2) = Some (VHeap (h ++ nones nb))).
Proof. exact obj_read_arr_then_destroy. Qed.
Print Assumptions C12_source_read_then_destroy.

(* the same one level up: whatever sbdf_va_read builds (plain and run-length arrays; the handle, one or two objects, their
   data) is released by one sbdf_va_destroy - every block the read allocated, once, and nothing else *)
Theorem C12_source_va_read_then_destroy : forall rf rp fo po k sx m h, Forall byte sx -> (forall t s2, sx <> 3 :: t :: s2) ->
  exists f0, forall f, (f0 <= f)%nat -> exists st fin,
    callC prog_env f prog_sbdf_va_read [VPtr rf fo; VPtr rp po] m k sx h = OReturn (VInt st) fin /\
    (st = SBDF_OK ->
       Imp.lookup "*handle" (vars fin) = Some (VCell (List.length h) 0) /\
       exists h' nb, Imp.lookup cells_var (vars fin) = Some (VHeap h') /\ List.length h' = (List.length h + S nb)%nat /\
         forall k' s', exists f1, forall g, (f1 <= g)%nat -> exists fin2,
           callC prog_env g prog_sbdf_va_destroy [VCell (List.length h) 0] (inb fin) k' s' h' = ONormal fin2 /\
           inb fin2 = inb fin /\ Imp.lookup cells_var (vars fin2) = Some (VHeap (h ++ nones (S nb)))).
Proof. exact va_read_then_destroy. Qed.
Print Assumptions C12_source_va_read_then_destroy.

(* one more level up: sbdf_cs_read from the source (its "goto end" translated as a loop that runs once), on every byte stream
   whose values are not a bit array and whose property count is not positive (the property loop is not covered), under
   EVERY allocation schedule.  The call returns a status.  On failure - wrong or missing section marker, the struct cannot be
   allocated, the values cannot be read (stream or allocation), the count is missing or negative - the out-cell is
   untouched and every block the call allocated has been released again by its sbdf_cs_destroy (the heap is the caller's,
   followed by released blocks only).  On success the stream stands where the model's readers leave it (section marker,
   va_read, a zero count), and ONE sbdf_cs_destroy on the result releases everything the read allocated, once. *)
From Sbdf Require Import ImpFactsCsRead Va.
Theorem C12_source_cs_read : forall rf rp fo po k sx m h, Forall byte sx ->
  (forall s1, sec_expect SBDF_COLUMNSLICE_SECTIONID sx = Ok (tt, s1) -> forall t s2, s1 <> 3 :: t :: s2) ->
  (forall s1 va s2 v s3, sec_expect SBDF_COLUMNSLICE_SECTIONID sx = Ok (tt, s1) -> Va.va_read false None s1 = Ok (va, s2) -> read_int32 false s2 = Ok (v, s3) -> v <= 0) ->
  exists f0, forall f, (f0 <= f)%nat -> exists st fin,
    callC prog_env f prog_sbdf_cs_read [VPtr rf fo; VPtr rp po] m k sx h = OReturn (VInt st) fin /\ prefix_of m (inb fin) /\
    ((st = SBDF_OK /\ Imp.lookup "*out" (vars fin) = Some (VCell (List.length h) 0) /\
        (exists s1 va s2 s3, sec_expect SBDF_COLUMNSLICE_SECTIONID sx = Ok (tt, s1) /\ Va.va_read false None s1 = Ok (va, s2) /\ read_int32 false s2 = Ok (0, s3) /\
                             Imp.lookup strm_var (vars fin) = Some (VBytes s3)) /\
        exists h' nb, Imp.lookup cells_var (vars fin) = Some (VHeap h') /\ List.length h' = (List.length h + S (S nb))%nat /\
          forall k' s', exists f1, forall g, (f1 <= g)%nat -> exists fin2,
            callC prog_env g prog_sbdf_cs_destroy [VCell (List.length h) 0] (inb fin) k' s' h' = OReturn (VInt 0) fin2 /\
            inb fin2 = inb fin /\ Imp.lookup cells_var (vars fin2) = Some (VHeap (h ++ nones (S (S nb)))))
     \/ (st < 0 /\ Imp.lookup "*out" (vars fin) = Some VUndef /\ exists j, Imp.lookup cells_var (vars fin) = Some (VHeap (h ++ nones j)))) /\
    (* without allocation failures the call succeeds whenever the model's readers get through marker, values and a zero count *)
    (k < 0 -> (exists s1 va s2 s3, sec_expect SBDF_COLUMNSLICE_SECTIONID sx = Ok (tt, s1) /\ Va.va_read false None s1 = Ok (va, s2) /\ read_int32 false s2 = Ok (0, s3)) -> st = SBDF_OK).
Proof. exact cs_read_source. Qed.
Print Assumptions C12_source_cs_read.

(* the translated sbdf_cs_read run by the interpreter: a column slice with two plain int values and no properties is read; with
   the fourth allocation failing (slice, handle, object header, DATA) everything is released again; a slice WITH one property
   is read as well (the property loop, not covered by the theorem above, runs) *)
Example C12_source_cs_read_runs :
  let stream := [223; 91; 4;  1; 2;  2;0;0;0;  5;0;0;0; 7;0;0;0;  0;0;0;0;  99] in
  (match callC prog_env 3000 prog_sbdf_cs_read [tok; tok] [] (-1) stream [] with
   | OReturn v s => (v, Imp.lookup "*out" (vars s), Imp.lookup strm_var (vars s)) = (VInt SBDF_OK, Some (VCell 0 0), Some (VBytes [99]))
   | _ => False end) /\
  (match callC prog_env 3000 prog_sbdf_cs_read [tok; tok] [] 3 stream [] with
   | OReturn v s => (v, Imp.lookup "*out" (vars s), Imp.lookup cells_var (vars s)) = (VInt SBDF_ERROR_OUT_OF_MEMORY, Some VUndef, Some (VHeap [None; None; None]))
   | _ => False end) /\
  (match callC prog_env 3000 prog_sbdf_cs_read [tok; tok] [] (-1) [223; 91; 4;  1; 2;  1;0;0;0;  5;0;0;0;  1;0;0;0;  1;0;0;0; 112;  1; 1;  1;0;0;0; 1;  98] [] with
   | OReturn v s => (v, Imp.lookup strm_var (vars s)) = (VInt SBDF_OK, Some (VBytes [98]))
   | _ => False end).
Proof. vm_compute. repeat split. Qed.

(* sbdf_cs_read as a whole - ANY property count, every byte stream without bit arrays (the values and each property's values
   are plain or run-length, unknown encodings included), EVERY allocation schedule.  props_nobit / props_end follow the model's
   readers through the properties (a name through read_string, a value array through va_read, count times).
   The call returns a status.  On every failure - in the section marker, the struct, the values, the count (missing, negative,
   too large for the arrays), either of the two pointer arrays, any name, any property's values, stream or allocation - the
   out-cell is untouched and everything the call allocated in the cell heap has been released again by its own
   sbdf_cs_destroy (values, the property arrays read so far, the two arrays, the struct: once each).  On success the stream
   stands where the model's readers leave it behind the last property, and ONE sbdf_cs_destroy on the result releases every
   block the read allocated, once.  (The translation turns "goto end" into a loop that runs once: tools/c2imp.py.) *)
From Sbdf Require Import ImpFactsCsReadProps.
Theorem C12_source_cs_read_full : forall rf rp fo po k sx m h, Forall byte sx ->
  (forall s1, sec_expect SBDF_COLUMNSLICE_SECTIONID sx = Ok (tt, s1) -> forall t s2, s1 <> 3 :: t :: s2) ->
  (forall s1 va s2 v s3, sec_expect SBDF_COLUMNSLICE_SECTIONID sx = Ok (tt, s1) -> Va.va_read false None s1 = Ok (va, s2) -> read_int32 false s2 = Ok (v, s3) -> props_nobit (Z.to_nat v) s3) ->
  exists f0, forall f, (f0 <= f)%nat -> exists st fin,
    callC prog_env f prog_sbdf_cs_read [VPtr rf fo; VPtr rp po] m k sx h = OReturn (VInt st) fin /\ prefix_of m (inb fin) /\
    ((st = SBDF_OK /\ Imp.lookup "*out" (vars fin) = Some (VCell (List.length h) 0) /\
        (exists s1 va s2 v s3 s', sec_expect SBDF_COLUMNSLICE_SECTIONID sx = Ok (tt, s1) /\ Va.va_read false None s1 = Ok (va, s2) /\ read_int32 false s2 = Ok (v, s3) /\ 0 <= v <= 134217727 /\
                                  props_end (Z.to_nat v) s3 = Some s' /\ Imp.lookup strm_var (vars fin) = Some (VBytes s')) /\
        exists hnew, Imp.lookup cells_var (vars fin) = Some (VHeap (h ++ hnew)) /\ (1 <= List.length hnew)%nat /\
          forall k' s', exists f1, forall g, (f1 <= g)%nat -> exists fin2,
            callC prog_env g prog_sbdf_cs_destroy [VCell (List.length h) 0] (inb fin) k' s' (h ++ hnew) = OReturn (VInt 0) fin2 /\
            inb fin2 = inb fin /\ Imp.lookup cells_var (vars fin2) = Some (VHeap (h ++ nones (List.length hnew))))
     \/ (st < 0 /\ Imp.lookup "*out" (vars fin) = Some VUndef /\ exists j, Imp.lookup cells_var (vars fin) = Some (VHeap (h ++ nones j)))) /\
    (* without allocation failures the status is the one the model's readers give (cs_st: C05_source_cs_read_status_is_the_models) *)
    (k < 0 -> st = cs_st sx).
Proof. exact cs_read_full_source. Qed.
Print Assumptions C12_source_cs_read_full.

(* the table-slice level: sbdf_ts_read from the source, for a read of ALL columns (no column subset; the branch that skips a
   column runs sbdf_cs_skip, which is proved only on the frame that keeps the stream in the input buffer), a table metadata
   struct with n columns, every byte stream without bit arrays, EVERY allocation schedule.  cols_nobit / cols_end follow the
   model's readers through the n column slices.  The call returns a status.  On every failure - no or another section
   marker (TABLEEND included), a missing / negative / different column count, the struct or the columns array not allocated,
   any column unreadable (stream or allocation, anywhere inside sbdf_cs_read) - the out-cell is untouched and everything the
   call allocated has been released again: sbdf_ts_destroy hands every column read so far to sbdf_cs_destroy once (empty
   slots are no-ops), then releases the array and the struct.  On success the stream stands behind the last column where
   the model's readers leave it, and ONE sbdf_ts_destroy on the result releases every block the read allocated. *)
From Sbdf Require Import ImpFactsTsRead.
Theorem C12_source_ts_read : forall rf rp fo po k sx m (h : heap) tmb n, Forall byte sx -> 0 <= n <= 715827882 -> cell_get h tmb 1 = Some (VInt n) ->
  (forall s1 s2, sec_read sx = Ok (3, s1) -> read_int32 false s1 = Ok (n, s2) -> cols_nobit (Z.to_nat n) s2) ->
  exists f0, forall f, (f0 <= f)%nat -> exists st fin,
    callC prog_env f prog_sbdf_ts_read [VPtr rf fo; VCell tmb 0; VNull; VPtr rp po] m k sx h = OReturn (VInt st) fin /\ prefix_of m (inb fin) /\ ts_frame_status n sx st /\
    ((st = SBDF_OK /\ Imp.lookup "*out" (vars fin) = Some (VCell (List.length h) 0) /\
        (exists s1 s2 s', sec_read sx = Ok (3, s1) /\ read_int32 false s1 = Ok (n, s2) /\ cols_end (Z.to_nat n) s2 = Some s' /\ Imp.lookup strm_var (vars fin) = Some (VBytes s')) /\
        exists hnew, Imp.lookup cells_var (vars fin) = Some (VHeap (h ++ hnew)) /\ (2 <= List.length hnew)%nat /\
          forall k' s', exists f1, forall g, (f1 <= g)%nat -> exists fin2,
            callC prog_env g prog_sbdf_ts_destroy [VCell (List.length h) 0] (inb fin) k' s' (h ++ hnew) = ONormal fin2 /\
            inb fin2 = inb fin /\ Imp.lookup cells_var (vars fin2) = Some (VHeap (h ++ nones (List.length hnew))))
     \/ (st < 0 /\ Imp.lookup "*out" (vars fin) = Some VUndef /\ exists j, Imp.lookup cells_var (vars fin) = Some (VHeap (h ++ nones j)))).
Proof. exact ts_read_source. Qed.
Print Assumptions C12_source_ts_read.

(* the translated sbdf_ts_read run by the interpreter: a table slice of two columns (a plain int column; a plain int column
   with one property) against a table metadata struct with two columns is read; with the seventh allocation failing (the data block of the second column's values)
   everything is released again *)
Example C12_source_ts_read_runs :
  let stream := [223; 91; 3;  2;0;0;0;
                 223; 91; 4;  1; 2;  1;0;0;0;  5;0;0;0;  0;0;0;0;
                 223; 91; 4;  1; 2;  1;0;0;0;  6;0;0;0;  1;0;0;0;  1;0;0;0; 112;  1; 1;  1;0;0;0; 1;   77] in
  (match callC prog_env 3000 prog_sbdf_ts_read [tok; VCell 0 0; VNull; tok] [] (-1) stream [Some [VNull; VInt 2; VNull]] with
   | OReturn v s => (v, Imp.lookup "*out" (vars s), Imp.lookup strm_var (vars s)) = (VInt SBDF_OK, Some (VCell 1 0), Some (VBytes [77]))
   | _ => False end) /\
  (match callC prog_env 3000 prog_sbdf_ts_read [tok; VCell 0 0; VNull; tok] [] 6 stream [Some [VNull; VInt 2; VNull]] with
   | OReturn v s => (v, Imp.lookup "*out" (vars s), Imp.lookup cells_var (vars s)) =
                    (VInt SBDF_ERROR_OUT_OF_MEMORY, Some VUndef, Some (VHeap [Some [VNull; VInt 2; VNull]; None; None; None; None; None]))
   | _ => False end).
Proof. vm_compute. repeat split. Qed.

(* the same with ANY column subset (none, or a flag per column in the caller's memory: sv / flags_in): the columns the subset
   leaves out are skipped by sbdf_cs_skip and their slots stay empty; every failure - in a read or a skipped column - releases
   everything through sbdf_ts_destroy (read columns once each, empty slots as no-ops), every success is releasable by one
   sbdf_ts_destroy; colsf_nobit / colsf_end follow the model's readers and skippers along the columns; without allocation
   failures the status is ts_st (C09_source_ts_read_status_is_the_models). *)
Theorem C12_source_ts_read_subset : forall rf rp fo po k sx m (h : heap) tmb n sub, Forall byte sx -> 0 <= n <= 715827882 -> cell_get h tmb 1 = Some (VInt n) -> flags_in n sub m ->
  (forall s1 s2, sec_read sx = Ok (3, s1) -> read_int32 false s1 = Ok (n, s2) -> colsf_nobit sub (Z.to_nat n) 0 s2) ->
  exists f0, forall f, (f0 <= f)%nat -> exists st fin,
    callC prog_env f prog_sbdf_ts_read [VPtr rf fo; VCell tmb 0; sv sub; VPtr rp po] m k sx h = OReturn (VInt st) fin /\ prefix_of m (inb fin) /\ ts_frame_status n sx st /\
    ((st = SBDF_OK /\ Imp.lookup "*out" (vars fin) = Some (VCell (List.length h) 0) /\
        (exists s1 s2 s', sec_read sx = Ok (3, s1) /\ read_int32 false s1 = Ok (n, s2) /\ colsf_end sub (Z.to_nat n) 0 s2 = Some s' /\ Imp.lookup strm_var (vars fin) = Some (VBytes s')) /\
        exists hnew, Imp.lookup cells_var (vars fin) = Some (VHeap (h ++ hnew)) /\ (2 <= List.length hnew)%nat /\
          forall k' s', exists f1, forall g, (f1 <= g)%nat -> exists fin2,
            callC prog_env g prog_sbdf_ts_destroy [VCell (List.length h) 0] (inb fin) k' s' (h ++ hnew) = ONormal fin2 /\
            inb fin2 = inb fin /\ Imp.lookup cells_var (vars fin2) = Some (VHeap (h ++ nones (List.length hnew))))
     \/ (st < 0 /\ Imp.lookup "*out" (vars fin) = Some VUndef /\ exists j, Imp.lookup cells_var (vars fin) = Some (VHeap (h ++ nones j)))) /\
    (k < 0 -> st = ts_st n sub sx).
Proof. exact ts_read_sub_source. Qed.
Print Assumptions C12_source_ts_read_subset.
