(* C12 — inputs are copied, outputs are independent, everything is released exactly once.
   Over the L2 ledger model (Mem.v), which retells sbdf_obj_create_arr / sbdf_obj_copy /
   sbdf_read_objects (one skeleton), sbdf_obj_destroy, sbdf_va_create_plain, sbdf_va_get_values
   (plain) and sbdf_va_destroy with the same allocations, stores and frees on every exit path.
   A Fault (null dereference, use after free, invalid or double free, out-of-bounds cell) is a
   possible outcome of the model; the theorems say it never occurs — for every state of the failure
   oracle.  "fresh" blocks are blocks that did not exist before the call: storage that nothing
   else can reach.  The metadata / slice containers are covered by the sanitizer run only.
   Statements only; proofs in MemFacts.v. *)
From Sbdf Require Import Mem MemFacts.

(* a constructor either returns an object made of fresh blocks only, leaving every other block
   untouched, or fails, returns null and leaves the heap exactly as it found it *)
Theorem C12_construct : forall ty count s, fresh_inv s ->
  match obj_build ty count s with
  | Flt _ => False
  | Val (st, p) s' =>
    fresh_inv s' /\ mfail s' = mfail s /\
    ((st = SBDF_OK /\ exists t blocks, p = Some t /\ obj_at s' t ty count blocks /\ all_fresh s blocks /\
        (forall x, ~ In x blocks -> find x s' = find x s)) \/
     (st <> SBDF_OK /\ p = None /\ same_heap s s'))
  end.
Proof. exact obj_build_spec. Qed.
Print Assumptions C12_construct.

(* a copy shares no block with its source, and the source is unchanged: later modification or
   release of either cannot reach the other *)
Theorem C12_copy_independent : forall s src ty count blocks, fresh_inv s -> obj_at s src ty count blocks ->
  match obj_copy_m (Some src) s with
  | Flt _ => False
  | Val (st, p) s' =>
    fresh_inv s' /\
    ((st = SBDF_OK /\ exists t cblocks, p = Some t /\ obj_at s' t ty count cblocks /\ all_fresh s cblocks /\
        (forall b, In b blocks -> ~ In b cblocks) /\ obj_at s' src ty count blocks /\
        (forall x, ~ In x cblocks -> find x s' = find x s)) \/
     (st <> SBDF_OK /\ p = None /\ same_heap s s'))
  end.
Proof. exact obj_copy_spec. Qed.
Print Assumptions C12_copy_independent.

(* the documented destroy function releases exactly the blocks of the object, each once *)
Theorem C12_destroy_releases_exactly : forall s t ty count blocks, fresh_inv s -> obj_at s t ty count blocks ->
  exists s', obj_destroy (Some t) s = Val tt s' /\ released blocks s s' /\ fresh_inv s' /\ mnext s' = mnext s /\ mfail s' = mfail s.
Proof. exact obj_destroy_spec. Qed.
Print Assumptions C12_destroy_releases_exactly.

Theorem C12_construct_then_destroy : forall ty count s, fresh_inv s ->
  match obj_build ty count s with
  | Flt _ => False
  | Val (st, p) s1 =>
    match obj_destroy p s1 with
    | Flt _ => False
    | Val _ s2 => same_heap s s2 /\ (st <> SBDF_OK -> p = None /\ same_heap s s1)
    end
  end.
Proof. exact obj_build_destroy. Qed.
Print Assumptions C12_construct_then_destroy.

(* value arrays own a copy of the array they were created from; extraction returns another copy *)
Theorem C12_value_array_owns_copy : forall s src ty count blocks, fresh_inv s -> obj_at s src ty count blocks ->
  match va_create_plain_m (Some src) s with
  | Flt _ => False
  | Val (st, p) s' =>
    fresh_inv s' /\
    ((st = SBDF_OK /\ exists h vblocks, p = Some h /\ va_at s' h ty count vblocks /\ all_fresh s vblocks /\
        (forall b, In b blocks -> ~ In b vblocks) /\ obj_at s' src ty count blocks /\
        (forall x, ~ In x vblocks -> find x s' = find x s)) \/
     (st <> SBDF_OK /\ p = None /\ same_heap s s'))
  end.
Proof. exact va_create_plain_spec. Qed.
Print Assumptions C12_value_array_owns_copy.

Theorem C12_value_extraction_independent : forall s h ty count blocks, fresh_inv s -> va_at s h ty count blocks ->
  match va_get_values_plain_m (Some h) s with
  | Flt _ => False
  | Val (st, p) s' =>
    fresh_inv s' /\
    ((st = SBDF_OK /\ exists t cb, p = Some t /\ obj_at s' t ty count cb /\ all_fresh s cb /\
        (forall b, In b blocks -> ~ In b cb) /\ va_at s' h ty count blocks) \/
     (st <> SBDF_OK /\ p = None /\ same_heap s s'))
  end.
Proof. exact va_get_values_plain_spec. Qed.
Print Assumptions C12_value_extraction_independent.

Theorem C12_value_array_destroy : forall s h ty count blocks, fresh_inv s -> va_at s h ty count blocks ->
  exists s', va_destroy (Some h) s = Val tt s' /\ released blocks s s' /\ fresh_inv s'.
Proof. exact va_destroy_spec. Qed.
Print Assumptions C12_value_array_destroy.

(* the hypotheses are met by the empty heap, under every oracle *)
Example C12_nonvacuous : forall fail, fresh_inv (mst0 fail).
Proof. exact fresh_inv_init. Qed.

(* sbdf_va_create_bit (the bit-packed encoding): handle, scratch buffer, byte-array object, data block,
   bytes - five allocation attempts.  For EVERY oracle: never a fault; on success only fresh blocks
   (the scratch buffer is gone again) and nothing else touched; on any failure a non-OK status, a
   null handle and the heap exactly as before. *)
Theorem C12_bit_array_create : forall s src ty count blocks, fresh_inv s -> obj_at s src ty count blocks ->
  match va_create_bit_m (Some src) s with
  | Flt _ => False
  | Val (st, p) s' =>
    fresh_inv s' /\
    ((st = SBDF_OK /\ exists h vblocks, p = Some h /\ va_at s' h SBDF_BINARYTYPEID 1 vblocks /\ all_fresh s vblocks /\
        (forall x, ~ In x vblocks -> find x s' = find x s)) \/
     (st <> SBDF_OK /\ p = None /\ same_heap s s'))
  end.
Proof. exact va_create_bit_spec. Qed.
Print Assumptions C12_bit_array_create.
