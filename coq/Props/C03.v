(* C03 — writer emits the canonical SBDF 1.0 byte stream.
   enc_* are pure functions written from the format grammar (DESIGN.md section 1): section markers
   DF 5B id, little-endian int32, int32-length-prefixed strings, packed arrays with a total
   byte-size header and 7-bit-group element lengths, value arrays (encoding id, type id, payload),
   column slices, table slices, end marker.  wspec says the writers emit exactly these bytes
   (under any sufficient budget), so the output is a function of the logical content only.
   Statements only; proofs in the *Facts.v files. *)
From Sbdf Require Import ImpCall Gen.Prog ImpBase ImpFactsWriteStr.
From Coq Require Import List.
From Sbdf Require Import File PrimFacts SevenBit ObjFacts VaFacts SliceFacts MdFacts TmFacts FileFacts.

Theorem C03_header : wspec fh_write_cur (Ok tt) [223; 91; 1; 1; 0].
Proof. exact wspec_fh. Qed.
Print Assumptions C03_header.

Theorem C03_int32_little_endian : forall v, wspec (write_int32 false v) (Ok tt) (le32 v).
Proof. exact (wspec_int32 false). Qed.
Print Assumptions C03_int32_little_endian.

Theorem C03_string : forall swp s, wspec (write_string swp s) (Ok tt) (enc32 swp (zlen s) ++ s).
Proof. exact wspec_string. Qed.
Print Assumptions C03_string.

(* packed string/binary arrays: count, total byte size, then (7-bit length, bytes) per element;
   fixed-size arrays: count, then the elements *)
Theorem C03_object_array : forall swp o, (is_arr (oty o) = true \/ 0 < usize (oty o)) ->
  wspec (obj_write_arr swp o) (Ok tt)
        (enc32 swp (ocount o) ++
         if is_arr (oty o)
         then enc32 swp (packed_byte_size (oelems o)) ++ concat (map (fun e => enc7 (zlen e) ++ e) (oelems o))
         else concat (map (swapb swp) (oelems o))).
Proof.
  intros swp o H. eapply wspec_ext; [|now apply wspec_obj_write_arr].
  unfold enc_obj_arr, enc_objects. destruct (is_arr (oty o)); reflexivity.
Qed.
Print Assumptions C03_object_array.

Theorem C03_byte_size_header : forall swp l, (forall e, In e l -> zlen e < 2147483647) ->
  zlen (concat (map (enc_elem swp true) l)) = packed_byte_size l.
Proof. exact zlen_concat_elems_packed. Qed.
Print Assumptions C03_byte_size_header.

Theorem C03_value_array : forall swp v, wf_va v -> wspec (va_write swp v) (Ok tt) (enc_va swp v).
Proof. exact wspec_va. Qed.
Print Assumptions C03_value_array.

(* maximal runs capped at 256, stored as length-1: what the run-length constructor stores *)
Theorem C03_rle_runs : forall elems,
  let '(rs, vs) := rle_encode elems in
  rle_expand rs vs = elems /\ rle_total rs = zlen elems /\ length rs = length vs /\ runs_ok rs.
Proof. exact rle_encode_spec. Qed.
Print Assumptions C03_rle_runs.

Theorem C03_column_slice : forall swp c, wf_cs c -> wspec (cs_write swp c) (Ok tt) (enc_cs swp c).
Proof. exact wspec_cs. Qed.
Print Assumptions C03_column_slice.

Theorem C03_table_slice : forall swp cols, wf_ts cols ->
  wspec (ts_write swp {| tscols := map Some cols; tsowned := false |}) (Ok tt) (enc_ts swp cols).
Proof. exact wspec_ts. Qed.
Print Assumptions C03_table_slice.

Theorem C03_slices_and_end : forall swp sls ncols, slices_ok ncols sls ->
  wspec (wfor (map (fun cols => {| tscols := map Some cols; tsowned := false |}) sls) (ts_write swp) ;;w ts_write_end)
        (Ok tt) (enc_slices swp sls).
Proof. exact wspec_slices. Qed.
Print Assumptions C03_slices_and_end.

(* the table-metadata section: table-level entries, then the column metadata folded into one
   name/type/default list in first-appearance order followed by per-column presence flags *)
Theorem C03_table_metadata : forall swp t names, tm_ok t -> fold_columns (tcols t) = Ok names ->
  (forall n, In n names -> tentry_ok n) -> wspec (tm_write swp t) (Ok tt) (enc_tm swp t names).
Proof. exact wspec_tm. Qed.
Print Assumptions C03_table_metadata.

(* the whole file: a function of the logical content (meta, slices) only *)
Theorem C03_file : forall swp meta sls names, wf_file meta sls names ->
  wspec (write_table swp {| t_meta := meta; t_slices := map caller_ts sls |}) (Ok tt) (enc_file swp meta sls names).
Proof. exact wspec_file. Qed.
Print Assumptions C03_file.

(* MSB-first, zero-padded bit arrays *)
Example C03_bits : pack_bits 9 [true; false; true; true; false; false; false; false; true] = [176; 128].
Proof. reflexivity. Qed.

(* ---- the string writer from the source.  sbdf_write_string of src/internals.c, with
   sbdf_str_len / sbdf_get_array_length (the int length header the library keeps in front of a
   string) and its call of sbdf_write_int32, translated on every run.  For every byte string stored
   the way the library stores it (header = length + 1, bytes, terminator) and every budget of the
   output stream: the bytes accepted are the first `budget` bytes of enc_string (the four-byte
   little-endian length, then the bytes - not the terminator), OK exactly when all were accepted. *)
Theorem C03_source_write_string : forall bytes B, zlen bytes + 1 < 2147483648 -> 0 <= B ->
  exists f0, forall f, (f0 <= f)%nat -> exists fin,
    callE prog_env f prog_sbdf_write_string [tok; VPtr RIn 4] (str_mem [] bytes []) B
      = OReturn (VInt (if 4 + zlen bytes <=? B then SBDF_OK else SBDF_ERROR_IO)) fin /\
    outb fin = ztake B (enc_string false bytes).
Proof. exact write_string_source. Qed.
Print Assumptions C03_source_write_string.
