(* C10 — metadata collections behave as an insertion-ordered map with a one-way freeze.
   The model (Md.v) is the list algorithms of metadata.c; these are the laws of an insertion-ordered
   map that they satisfy.  Statements only; proofs in MdFacts.v. *)
From Sbdf Require Import Imp ImpCall Gen.Prog ImpBase ImpFactsCells ImpFactsMd ImpFactsDestroy ImpFactsMdRemove.
From Coq Require Import List.
From Sbdf Require Import Md Tm MdFacts VaFacts.

(* names are unique and values are singletons whose default has the same type: an invariant of
   every collection reachable by additions *)
Theorem C10_invariant_add : forall name v d m m', md_inv m -> md_add name v d m = Ok m' -> md_inv m' /\ mmod m' = true.
Proof. exact md_add_preserves_inv. Qed.
Print Assumptions C10_invariant_add.

Theorem C10_invariant_init : md_inv md_create.
Proof. exact md_inv_create. Qed.
Print Assumptions C10_invariant_init.

(* add: appended at the end when the name is new, refused when it exists *)
Theorem C10_add : forall name v d m, mmod m = true -> add_args_ok v d ->
  (md_find name m = None ->
     md_add name v d m = Ok {| ments := ments m ++ [{| ename := cstr name; evalue := Some v; edflt := d |}]; mmod := true |}) /\
  (md_find name m <> None -> md_add name v d m = Err SBDF_ERROR_METADATA_ALREADY_EXISTS).
Proof. exact md_add_spec. Qed.
Print Assumptions C10_add.

Theorem C10_add_refusals : forall name v d0 m, mmod m = true ->
  (oty v <> oty d0 -> md_add name v (Some d0) m = Err SBDF_ERROR_VALUETYPES_MUST_BE_EQUAL) /\
  (ocount v <> 1 -> md_add name v None m = Err SBDF_ERROR_ARRAY_LENGTH_MUST_BE_1).
Proof. intros name v d0 m Hm. split; [now apply md_add_type_mismatch|now apply md_add_not_singleton]. Qed.
Print Assumptions C10_add_refusals.

(* lookups return an equal copy; absent names are reported *)
Theorem C10_get_after_add : forall name v d m m', md_inv m -> md_add name v d m = Ok m' -> md_get name m' = Ok v.
Proof. exact md_get_after_add. Qed.
Print Assumptions C10_get_after_add.

Theorem C10_get_absent : forall name m, md_find name m = None ->
  md_get name m = Err SBDF_ERROR_METADATA_NOT_FOUND /\ md_exists name m = 0.
Proof. exact md_get_absent. Qed.
Print Assumptions C10_get_absent.

(* remove: the name is gone, every other name is untouched, order is kept, and removal is idempotent *)
Theorem C10_remove : forall name m, mmod m = true -> md_inv m ->
  exists m', md_remove name m = Ok m' /\ md_inv m' /\ mmod m' = true /\ md_find name m' = None /\
             (forall other, name_eqb name other = false -> md_find other m' = md_find other m) /\
             md_remove name m' = Ok m'.
Proof. exact md_remove_spec. Qed.
Print Assumptions C10_remove.

(* copy appends all source entries or, on any failure (name clash, frozen destination, an entry
   that cannot be copied), none *)
Theorem C10_copy_all_or_none : forall src dst,
  let '(st, dst') := md_copy src dst in
  dst' = dst \/ (st = SBDF_OK /\ exists new, ments dst' = ments dst ++ new /\ length new = length (ments src) /\ mmod dst' = mmod dst).
Proof. exact md_copy_all_or_none. Qed.
Print Assumptions C10_copy_all_or_none.

Theorem C10_copy_clash : forall src dst, mmod dst = true ->
  existsb (fun e => existsb (fun d => name_eqb (ename e) (ename d)) (ments dst)) (ments src) = true ->
  md_copy src dst = (SBDF_ERROR_METADATA_ALREADY_EXISTS, dst).
Proof. exact md_copy_clash. Qed.
Print Assumptions C10_copy_clash.

(* after freezing, every mutator fails with the read-only status and changes nothing (a failed
   call returns no new collection), and nothing unfreezes *)
Theorem C10_frozen : forall name v d sv sd iv id_ src m, mmod m = false ->
  md_add name v d m = Err SBDF_ERROR_METADATA_READONLY /\
  md_add_str name sv sd m = Err SBDF_ERROR_METADATA_READONLY /\
  md_add_int name iv id_ m = Err SBDF_ERROR_METADATA_READONLY /\
  md_remove name m = Err SBDF_ERROR_METADATA_READONLY /\
  md_copy src m = (SBDF_ERROR_METADATA_READONLY, m).
Proof.
  intros. repeat split; [now apply md_add_frozen|now apply md_add_str_frozen|now apply md_add_int_frozen|now apply md_remove_frozen|now apply md_copy_frozen].
Qed.
Print Assumptions C10_frozen.

Theorem C10_freeze : forall m, mmod (md_set_immutable m) = false /\ ments (md_set_immutable m) = ments m.
Proof. exact md_freeze_is_one_way. Qed.
Print Assumptions C10_freeze.

(* metadata held by a table-metadata object, whether built or returned by the reader, is frozen *)
Theorem C10_table_metadata_frozen :
  (forall table_md t, tm_create table_md = Ok t -> mmod (tmeta t) = false /\ tcols t = []) /\
  (forall col t t', mmod (tmeta t) = false -> Forall (fun c => mmod c = false) (tcols t) -> tm_add col t = Ok t' ->
     mmod (tmeta t') = false /\ Forall (fun c => mmod c = false) (tcols t') /\ length (tcols t') = S (length (tcols t))) /\
  (forall swp cap s t s', tm_read swp cap s = Ok (t, s') -> mmod (tmeta t) = false /\ Forall (fun c => mmod c = false) (tcols t)).
Proof. split; [exact tm_create_frozen|split; [exact tm_add_frozen|exact tm_read_frozen]]. Qed.
Print Assumptions C10_table_metadata_frozen.

Example C10_nonvacuous :
  let v := {| oty := SBDF_INTTYPEID; oelems := [[1; 0; 0; 0]] |} in
  add_args_ok v None /\ exists m, md_add [97] v None md_create = Ok m /\ md_cnt m = 1 /\ md_get [97] m = Ok v.
Proof. split; [repeat split; try (right; reflexivity)|eexists; repeat split; reflexivity]. Qed.

(* ---- the list functions from the source (src/metadata.c, translated on every run into the mini-C with a
   cell heap for structs: Imp.v, ImpFactsCells.v).  md_head h m hb names flag: block hb of the cell heap is
   a metadata head whose entries, in list order, carry the NUL-terminated names `names` (kept in the byte
   memory m) and whose modifiable flag is `flag`.  For every such heap and memory:
   sbdf_md_cnt returns the number of entries; sbdf_md_exists returns 1 exactly when the name is among
   them; sbdf_md_set_immutable clears the flag cell and nothing else; sbdf_md_create hands out a fresh
   empty, modifiable head (a failed calloc is reported - as ARGUMENT_NULL, which is what the source does).
   None of them changes the byte memory or any other block. *)
Theorem C10_source_md_cnt : forall k sx m h hb names modif, md_head h m hb names modif -> zlen names <= int_max ->
  exists f0, forall f, (f0 <= f)%nat -> exists fin,
    callC prog_env f prog_sbdf_md_cnt [VCell hb 0] m k sx h = OReturn (VInt (zlen names)) fin /\
    inb fin = m /\ Imp.lookup cells_var (vars fin) = Some (VHeap h).
Proof. exact md_cnt_source. Qed.
Print Assumptions C10_source_md_cnt.

Theorem C10_source_md_exists : forall k sx m h hb q name names modif, md_head h m hb names modif -> cstr_at m q name ->
  exists f0, forall f, (f0 <= f)%nat -> exists fin,
    callC prog_env f prog_sbdf_md_exists [VPtr RIn q; VCell hb 0] m k sx h = OReturn (VInt (if existsb (ImpFactsCells.list_eqb name) names then 1 else 0)) fin /\
    inb fin = m /\ Imp.lookup cells_var (vars fin) = Some (VHeap h).
Proof. exact md_exists_source. Qed.
Print Assumptions C10_source_md_exists.

Theorem C10_source_md_set_immutable : forall k sx m h hb first modif, nth_error h hb = Some (Some [first; VInt modif]) ->
  exists h', set_nth_v hb (Some [first; VInt 0]) h = Some h' /\
  exists f0, forall f, (f0 <= f)%nat -> exists fin,
    callC prog_env f prog_sbdf_md_set_immutable [VCell hb 0] m k sx h = OReturn (VInt SBDF_OK) fin /\
    inb fin = m /\ Imp.lookup cells_var (vars fin) = Some (VHeap h').
Proof. exact md_set_immutable_source. Qed.
Print Assumptions C10_source_md_set_immutable.

Theorem C10_source_md_create : forall k sx m h,
  exists f0, forall f, (f0 <= f)%nat -> exists fin,
    callC prog_env f prog_sbdf_md_create [tok] m k sx h =
      OReturn (VInt (if k =? 0 then SBDF_ERROR_ARGUMENT_NULL else SBDF_OK)) fin /\
    inb fin = m /\
    (if k =? 0 then Imp.lookup cells_var (vars fin) = Some (VHeap h)
     else Imp.lookup cells_var (vars fin) = Some (VHeap (h ++ [Some [VInt 0; VInt 1]])) /\ Imp.lookup "*out"%string (vars fin) = Some (VCell (List.length h) 0) /\
          md_head (h ++ [Some [VInt 0; VInt 1]]) m (List.length h) [] 1).
Proof. exact md_create_source. Qed.
Print Assumptions C10_source_md_create.

Example C10_source_nonvacuous :
  md_head [Some [VCell 1 0; VInt 1]; Some [VCell 2 0; VPtr RIn 0; VNull; VNull]; Some [VInt 0; VPtr RIn 3; VNull; VNull]] [97; 98; 0; 99; 0] 0 [[97; 98]; [99]] 1.
Proof.
  exists (VCell 1 0). split; [reflexivity|]. cbn [as_ptr md_list].
  exists 1%nat, (VCell 2 0), 0, VNull, VNull. split; [reflexivity|]. split; [reflexivity|]. split; [split; [cbn; lia|reflexivity]|].
  exists 2%nat, (VInt 0), 3, VNull, VNull. split; [reflexivity|]. split; [reflexivity|]. split; [split; [cbn; lia|reflexivity]|reflexivity].
Qed.

(* ---- sbdf_md_remove from the source (ImpFactsMdRemove.v).  md_chain h m p es: the entries es (block, name,
   name pointer, value, default, next cell) are linked from p in that order.
   - frozen collection: METADATA_READONLY, nothing written;
   - name absent (no entry carries it): OK, nothing written - so removal is idempotent;
   - name present: the FIRST entry e of that name is unlinked by ONE cell store - the next cell of its
     predecessor, or the first cell of the head when it leads the list, takes over e's successor (h1) -
     its value and default are destroyed (h2, h3: sbdf_obj_destroy's effect, or nothing for a null
     default), its name is handed to sbdf_str_destroy and its block is released: the final heap is
     kill (eb e) h3.  Entries in front of and behind e keep their blocks, names, values and order
     (C10_source_unlink_frame: a cell store and a release leave every other block as it was). *)
Theorem C10_source_md_remove_found : forall k sx m q name h hb first modif done e rest h1 h2 h3,
  nth_error h hb = Some (Some [first; VInt modif]) -> modif <> 0 -> cstr_at m q name ->
  md_chain h m (as_ptr first) (done ++ e :: rest) -> Forall (fun d => enm d <> name) done -> enm e = name ->
  4 <= enp e <= zlen m -> storable (as_ptr (enx e)) = true ->
  cell_set h (last (map eb done) hb) 0 (as_ptr (enx e)) = Some h1 ->
  nth_error h1 (eb e) = Some (Some [enx e; VPtr RIn (enp e); evv e; edv e]) ->
  destroys_opt m h1 (evv e) h2 -> nth_error h2 (eb e) = Some (Some [enx e; VPtr RIn (enp e); evv e; edv e]) ->
  destroys_opt m h2 (edv e) h3 -> nth_error h3 (eb e) = Some (Some [enx e; VPtr RIn (enp e); evv e; edv e]) ->
  exists f0, forall f, (f0 <= f)%nat -> exists fin,
    callC prog_env f prog_sbdf_md_remove [VPtr RIn q; VCell hb 0] m k sx h = OReturn (VInt SBDF_OK) fin /\
    inb fin = m /\ Imp.lookup cells_var (vars fin) = Some (VHeap (kill (eb e) h3)).
Proof. exact md_remove_found_source. Qed.
Print Assumptions C10_source_md_remove_found.

Theorem C10_source_md_remove_absent : forall k sx m q name h hb first modif es,
  nth_error h hb = Some (Some [first; VInt modif]) -> modif <> 0 -> cstr_at m q name ->
  md_chain h m (as_ptr first) es -> Forall (fun d => enm d <> name) es ->
  exists f0, forall f, (f0 <= f)%nat -> exists fin,
    callC prog_env f prog_sbdf_md_remove [VPtr RIn q; VCell hb 0] m k sx h = OReturn (VInt SBDF_OK) fin /\
    inb fin = m /\ Imp.lookup cells_var (vars fin) = Some (VHeap h).
Proof. exact md_remove_absent_source. Qed.
Print Assumptions C10_source_md_remove_absent.

Theorem C10_source_md_remove_frozen : forall k sx m q h hb first,
  nth_error h hb = Some (Some [first; VInt 0]) ->
  exists f0, forall f, (f0 <= f)%nat -> exists fin,
    callC prog_env f prog_sbdf_md_remove [VPtr RIn q; VCell hb 0] m k sx h = OReturn (VInt SBDF_ERROR_METADATA_READONLY) fin /\
    inb fin = m /\ Imp.lookup cells_var (vars fin) = Some (VHeap h).
Proof. exact md_remove_readonly_source. Qed.
Print Assumptions C10_source_md_remove_frozen.

Theorem C10_source_unlink_frame : forall h b i v h' c, cell_set h b i v = Some h' -> b <> c -> nth_error h' c = nth_error h c.
Proof. exact cell_set_other. Qed.
Print Assumptions C10_source_unlink_frame.
