(* C10 — metadata collections behave as an insertion-ordered map with a one-way freeze.
   The model (Md.v) is the list algorithms of metadata.c; these are the laws of an insertion-ordered
   map that they satisfy.  Statements only; proofs in MdFacts.v. *)
From Sbdf Require Import Md Tm MdFacts VaFacts.

(* names are unique and values are singletons whose default has the same type: an invariant of
   every collection reachable by additions *)
Theorem C10_invariant_add : forall name v d m m', md_inv m -> md_add name v d m = Ok m' -> md_inv m' /\ mmod m' = true.
Proof. exact md_add_preserves_inv. Qed.
Print Assumptions C10_invariant_add.

Theorem C10_invariant_init : md_inv md_create.
Proof. exact md_inv_create. Qed.
Print Assumptions C10_invariant_init.

(* add: appended at the end when the name is new, refused when it exists *)
Theorem C10_add : forall name v d m, mmod m = true -> add_args_ok v d ->
  (md_find name m = None ->
     md_add name v d m = Ok {| ments := ments m ++ [{| ename := cstr name; evalue := Some v; edflt := d |}]; mmod := true |}) /\
  (md_find name m <> None -> md_add name v d m = Err SBDF_ERROR_METADATA_ALREADY_EXISTS).
Proof. exact md_add_spec. Qed.
Print Assumptions C10_add.

Theorem C10_add_refusals : forall name v d0 m, mmod m = true ->
  (oty v <> oty d0 -> md_add name v (Some d0) m = Err SBDF_ERROR_VALUETYPES_MUST_BE_EQUAL) /\
  (ocount v <> 1 -> md_add name v None m = Err SBDF_ERROR_ARRAY_LENGTH_MUST_BE_1).
Proof. intros name v d0 m Hm. split; [now apply md_add_type_mismatch|now apply md_add_not_singleton]. Qed.
Print Assumptions C10_add_refusals.

(* lookups return an equal copy; absent names are reported *)
Theorem C10_get_after_add : forall name v d m m', md_inv m -> md_add name v d m = Ok m' -> md_get name m' = Ok v.
Proof. exact md_get_after_add. Qed.
Print Assumptions C10_get_after_add.

Theorem C10_get_absent : forall name m, md_find name m = None ->
  md_get name m = Err SBDF_ERROR_METADATA_NOT_FOUND /\ md_exists name m = 0.
Proof. exact md_get_absent. Qed.
Print Assumptions C10_get_absent.

(* remove: the name is gone, every other name is untouched, order is kept, and removal is idempotent *)
Theorem C10_remove : forall name m, mmod m = true -> md_inv m ->
  exists m', md_remove name m = Ok m' /\ md_inv m' /\ mmod m' = true /\ md_find name m' = None /\
             (forall other, name_eqb name other = false -> md_find other m' = md_find other m) /\
             md_remove name m' = Ok m'.
Proof. exact md_remove_spec. Qed.
Print Assumptions C10_remove.

(* copy appends all source entries or, on any failure (name clash, frozen destination, an entry
   that cannot be copied), none *)
Theorem C10_copy_all_or_none : forall src dst,
  let '(st, dst') := md_copy src dst in
  dst' = dst \/ (st = SBDF_OK /\ exists new, ments dst' = ments dst ++ new /\ length new = length (ments src) /\ mmod dst' = mmod dst).
Proof. exact md_copy_all_or_none. Qed.
Print Assumptions C10_copy_all_or_none.

Theorem C10_copy_clash : forall src dst, mmod dst = true ->
  existsb (fun e => existsb (fun d => name_eqb (ename e) (ename d)) (ments dst)) (ments src) = true ->
  md_copy src dst = (SBDF_ERROR_METADATA_ALREADY_EXISTS, dst).
Proof. exact md_copy_clash. Qed.
Print Assumptions C10_copy_clash.

(* after freezing, every mutator fails with the read-only status and changes nothing (a failed
   call returns no new collection), and nothing unfreezes *)
Theorem C10_frozen : forall name v d sv sd iv id_ src m, mmod m = false ->
  md_add name v d m = Err SBDF_ERROR_METADATA_READONLY /\
  md_add_str name sv sd m = Err SBDF_ERROR_METADATA_READONLY /\
  md_add_int name iv id_ m = Err SBDF_ERROR_METADATA_READONLY /\
  md_remove name m = Err SBDF_ERROR_METADATA_READONLY /\
  md_copy src m = (SBDF_ERROR_METADATA_READONLY, m).
Proof.
  intros. repeat split; [now apply md_add_frozen|now apply md_add_str_frozen|now apply md_add_int_frozen|now apply md_remove_frozen|now apply md_copy_frozen].
Qed.
Print Assumptions C10_frozen.

Theorem C10_freeze : forall m, mmod (md_set_immutable m) = false /\ ments (md_set_immutable m) = ments m.
Proof. exact md_freeze_is_one_way. Qed.
Print Assumptions C10_freeze.

(* metadata held by a table-metadata object, whether built or returned by the reader, is frozen *)
Theorem C10_table_metadata_frozen :
  (forall table_md t, tm_create table_md = Ok t -> mmod (tmeta t) = false /\ tcols t = []) /\
  (forall col t t', mmod (tmeta t) = false -> Forall (fun c => mmod c = false) (tcols t) -> tm_add col t = Ok t' ->
     mmod (tmeta t') = false /\ Forall (fun c => mmod c = false) (tcols t') /\ length (tcols t') = S (length (tcols t))) /\
  (forall swp cap s t s', tm_read swp cap s = Ok (t, s') -> mmod (tmeta t) = false /\ Forall (fun c => mmod c = false) (tcols t)).
Proof. split; [exact tm_create_frozen|split; [exact tm_add_frozen|exact tm_read_frozen]]. Qed.
Print Assumptions C10_table_metadata_frozen.

Example C10_nonvacuous :
  let v := {| oty := SBDF_INTTYPEID; oelems := [[1; 0; 0; 0]] |} in
  add_args_ok v None /\ exists m, md_add [97] v None md_create = Ok m /\ md_cnt m = 1 /\ md_get [97] m = Ok v.
Proof. split; [repeat split; try (right; reflexivity)|eexists; repeat split; reflexivity]. Qed.
