(* C17 — files are byte-order independent.
   The model is parameterised by swp: does sbdf_swap reverse (library compiled for a big-endian
   host)?  swp enters at exactly four places — read_int32, write_int32, the fixed-size branch of
   read_objects and of write_objects (Gen/Facts.swap_sites, regenerated from the source) — and
   every codec theorem of C01..C13 is proved for both values.  Here: the conversion is applied
   exactly once in each direction (it is an involution, and reader o writer is the identity), byte
   oriented fields are untouched, and the big-endian stream is the field-wise mirror. *)
From Coq Require Import List String.
From Sbdf Require Import Imp Gen.Prog ImpBase ImpFactsSwap.
From Sbdf Require Import File PrimFacts SevenBit ObjFacts VaFacts SliceFacts.
From Coq Require Import List.
From Sbdf.Gen Require Facts.

Theorem C17_swap_sites : Facts.swap_sites = ["sbdf_read_int32"; "sbdf_read_objects"; "sbdf_write_int32"; "sbdf_write_objects"]%string.
Proof. reflexivity. Qed.
Print Assumptions C17_swap_sites.

Theorem C17_once_each_direction : forall swp bs, swapb swp (swapb swp bs) = bs /\ zlen (swapb swp bs) = zlen bs.
Proof. intros swp bs. split; [apply swapb_involutive|apply zlen_swapb]. Qed.
Print Assumptions C17_once_each_direction.

(* numeric fields: the big-endian configuration writes the byte reverse of the little-endian one *)
Theorem C17_int32_mirror : forall v, enc32 true v = rev (enc32 false v).
Proof. reflexivity. Qed.
Print Assumptions C17_int32_mirror.

Theorem C17_fixed_elements_mirror : forall o, is_arr (oty o) = false ->
  enc_objects true o false = concat (map (@rev Z) (oelems o)) /\ enc_objects false o false = concat (oelems o).
Proof.
  intros o H. unfold enc_objects. rewrite H. split; [reflexivity|]. unfold swapb. now rewrite map_id.
Qed.
Print Assumptions C17_fixed_elements_mirror.

(* byte-oriented fields are untouched: packed lengths, string/binary content, bit arrays, run
   lengths (a byte array), ids and flags *)
Theorem C17_bytes_untouched : forall swp e n id,
  enc_elem swp true e = enc7 (zlen e) ++ e /\ enc7 n = enc7 n /\ enc_sec id = [223; 91; id mod 256].
Proof. intros. repeat split. Qed.
Print Assumptions C17_bytes_untouched.

(* reader and writer of either configuration are inverse to each other on every section *)
Theorem C17_both_configurations : forall swp v, wf_va v -> byte_ok (vty v) ->
  wspec (va_write swp v) (Ok tt) (enc_va swp v) /\ rspec (va_read swp None) (enc_va swp v) v.
Proof. intros swp v W B. split; [exact (wspec_va swp v W)|exact (rspec_va swp v W B)]. Qed.
Print Assumptions C17_both_configurations.

Theorem C17_slices_both_configurations : forall swp cols, wf_ts cols ->
  wspec (ts_write swp {| tscols := map Some cols; tsowned := false |}) (Ok tt) (enc_ts swp cols) /\
  rspec (ts_read swp None (zlen cols) None) (enc_ts swp cols) (owned_ts cols).
Proof. intros swp cols W. split; [exact (wspec_ts swp cols W)|exact (rspec_ts swp cols W)]. Qed.
Print Assumptions C17_slices_both_configurations.

(* ---- what `swp` stands for, from the source.  Gen/Prog.v holds sbdf_swap of src/bswap.c translated
   under BOTH build configurations (tools/c2imp.py: the default one, and -D__sparc which selects the
   big-endian branch).  Default: the function body is empty - the buffer is untouched (swp = false).
   Big-endian: for every element size sz and every buffer of count elements of sz bytes, every
   element is reversed in place, nothing else is written, every access stays inside the buffer
   (swp = true: `swapb true = rev` element by element). *)
Theorem C17_source_swap_default : forall args buf f, (1 <= f)%nat ->
  exists fin, call f prog_sbdf_swap_le args buf = ONormal fin /\ inb fin = buf /\ outb fin = [].
Proof. exact swap_le_correct. Qed.
Print Assumptions C17_source_swap_default.

Theorem C17_source_swap_big_endian : forall sz cs, Forall (chunk_ok sz) cs -> 0 <= sz <= int_max -> zlen cs <= int_max ->
  exists f0, forall f, (f0 <= f)%nat -> exists fin,
    call f prog_sbdf_swap_be [VPtr RIn 0; VInt sz; VInt (zlen cs)] (concat cs) = ONormal fin /\
    inb fin = concat (map (swapb true) cs) /\ outb fin = [].
Proof. exact swap_be_correct. Qed.
Print Assumptions C17_source_swap_big_endian.

Example C17_source_swap_runs :
  (match call 1000 prog_sbdf_swap_be [VPtr RIn 0; VInt 4; VInt 2] [1; 2; 3; 4; 5; 6; 7; 8] with ONormal s => Some (inb s) | _ => None end) = Some [4; 3; 2; 1; 8; 7; 6; 5] /\
  (match call 1000 prog_sbdf_swap_be [VPtr RIn 0; VInt 16; VInt 1] [0; 1; 2; 3; 4; 5; 6; 7; 8; 9; 10; 11; 12; 13; 14; 15] with ONormal s => Some (inb s) | _ => None end)
    = Some [15; 14; 13; 12; 11; 10; 9; 8; 7; 6; 5; 4; 3; 2; 1; 0].
Proof. split; vm_compute; reflexivity. Qed.
