(* C08 — re-serialising what was read reproduces the file byte for byte.
   For the sections below: the reader returns the value whose wire form is the input, and the
   writer's output is that wire form; hence write (read bs) = bs.  Statements only. *)
From Sbdf Require Import File PrimFacts SevenBit ObjFacts VaFacts SliceFacts MdFacts TmFacts NormFacts FileFacts.

Theorem C08_value_array : forall swp v tail budget, wf_va v -> byte_ok (vty v) -> zlen (enc_va swp v) <= budget ->
  exists v', va_read swp None (enc_va swp v ++ tail) = Ok (v', tail) /\ wrun (va_write swp v') budget = (SBDF_OK, enc_va swp v).
Proof.
  intros swp v tail budget W B Hb. exists v. split; [destruct (rspec_va swp v W B) as [E _]; apply E|].
  pose proof (BaseFacts.zlen_nonneg (enc_va swp v)).
  destruct (wspec_run _ _ _ budget (wspec_va swp v W) ltac:(lia)) as [H1 _]. now apply H1.
Qed.
Print Assumptions C08_value_array.

(* the owned flag set by the reader does not change what is written *)
Theorem C08_column_slice : forall swp c tail budget, wf_cs c -> zlen (enc_cs swp c) <= budget ->
  exists c', cs_read swp None (enc_cs swp c ++ tail) = Ok (c', tail) /\ wrun (cs_write swp c') budget = (SBDF_OK, enc_cs swp c).
Proof.
  intros swp c tail budget W Hb. exists (owned_cs c). split; [destruct (rspec_cs swp c W) as [E _]; apply E|].
  pose proof (BaseFacts.zlen_nonneg (enc_cs swp c)).
  assert (W' : wf_cs (owned_cs c)) by exact W.
  destruct (wspec_run _ _ _ budget (wspec_cs swp (owned_cs c) W') ltac:(lia)) as [H1 _]. now apply H1.
Qed.
Print Assumptions C08_column_slice.

(* decoding a default-encoded array and re-encoding it with the default encoding gives the same
   array (plain for everything but booleans, bit-packed for booleans that are 0/1) *)
Theorem C08_default_reencode_plain : forall o, obj_ok o -> oty o <> SBDF_BOOLTYPEID ->
  exists v, va_create_dflt o = Ok v /\ va_get_values v = Ok o /\
            forall o', va_get_values v = Ok o' -> va_create_dflt o' = Ok v.
Proof.
  intros o H Hb. unfold va_create_dflt. destruct (oty o =? SBDF_BOOLTYPEID) eqn:E; [lia|].
  destruct (va_plain_lossless o H) as (v & A & B & _). exists v. split; [exact A|split; [exact B|]].
  intros o' B'. rewrite B in B'. inversion B'. subst o'. now rewrite E.
Qed.
Print Assumptions C08_default_reencode_plain.

(* the file-wide name list is stable: folding the columns as the reader re-expands them gives the
   same names (cn n = n up to the strlen-cut of the name) in the same order *)
Theorem C08_name_list_stable : forall cols names, Forall col_ok cols -> cols_dflt_wf cols -> fold_columns cols = Ok names ->
  fold_columns (map (norm names) cols) = Ok (map cn names).
Proof. exact fold_norm. Qed.
Print Assumptions C08_name_list_stable.

(* names built through the API carry no embedded NUL (sbdf_md_add stores strlen-many bytes) *)
Theorem C08_api_names_plain : forall name v d m m', md_plain m -> md_add name v d m = Ok m' -> md_plain m'.
Proof. exact md_add_plain. Qed.
Print Assumptions C08_api_names_plain.

(* whole files: read a library-written file (header, table metadata with any column metadata, any
   number of slices in any encodings, end marker), write back what the reader returned - the
   reader-owned structures, unchanged - and the very same bytes come out *)
Theorem C08_file_rewrite : forall swp meta sls names budget, wf_file meta sls names -> names_plain (tcols meta) ->
  zlen (enc_file swp meta sls names) <= budget ->
  match read_table swp None None (enc_file swp meta sls names) with
  | (Some T, st, _) => st = SBDF_TABLEEND /\ wrun (write_table swp T) budget = (SBDF_OK, enc_file swp meta sls names)
  | _ => False
  end.
Proof. exact read_then_write_identity. Qed.
Print Assumptions C08_file_rewrite.
