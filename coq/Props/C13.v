(* C13 — write failures are never swallowed.
   wspec w r bs: on a stream that accepts `budget` more bytes, the writer w
     - returns r and has had exactly bs accepted when budget >= |bs|,
     - returns a non-OK status, has had exactly the first `budget` bytes of bs accepted and leaves
       the stream exhausted when budget < |bs| (so that every later write of >= 1 byte fails too).
   Statements only; proofs in PrimFacts, ObjFacts, VaFacts, SliceFacts, FileFacts. *)
From Sbdf Require Import ImpCall Gen.Prog ImpBase ImpFacts7W ImpFactsFrameW ImpFactsTsEnd.
From Coq Require Import List.
From Sbdf Require Import File PrimFacts SevenBit ObjFacts VaFacts SliceFacts MdFacts TmFacts FileFacts.

(* the meaning of wspec for a fresh stream *)
Theorem C13_meaning : forall (w : W unit) r bs budget, wspec w r bs -> 0 <= budget ->
  (zlen bs <= budget -> wrun w budget = (match r with Ok _ => SBDF_OK | Err e => e end, bs)) /\
  (budget < zlen bs -> exists e, wrun w budget = (e, ztake budget bs) /\ e <> SBDF_OK).
Proof. exact wspec_run. Qed.
Print Assumptions C13_meaning.

(* and for a stream that has already refused data: any writer with something to write fails *)
Theorem C13_exhausted_stream_stays_failed : forall (w : W unit) r bs s, wspec w r bs -> wbud s = 0 -> 0 < zlen bs ->
  exists e s', w s = (Err e, s') /\ e <> SBDF_OK /\ wbytes s' = wbytes s /\ wbud s' = 0.
Proof.
  intros w r bs s H Hb Hl. destruct (H s ltac:(lia)) as [_ Hf].
  destruct Hf as (e & s' & E & Ne & B & U); [lia|]. exists e, s'. repeat split; try assumption.
  rewrite B, Hb. rewrite BaseFacts.ztake_neg by lia. apply app_nil_r.
Qed.
Print Assumptions C13_exhausted_stream_stays_failed.

Theorem C13_primitives : forall swp v n s id,
  wspec (write_int8 v) (Ok tt) [v mod 256] /\ wspec (write_int32 swp v) (Ok tt) (enc32 swp v) /\
  wspec (write_7bit n) (Ok tt) (enc7 n) /\ wspec (write_string swp s) (Ok tt) (enc_string swp s) /\
  wspec (sec_write id) (Ok tt) (enc_sec id) /\ wspec fh_write_cur (Ok tt) enc_header.
Proof.
  intros. exact (conj (wspec_int8 v) (conj (wspec_int32 swp v) (conj (wspec_7bit n) (conj (wspec_string swp s) (conj (wspec_sec id) wspec_fh))))).
Qed.
Print Assumptions C13_primitives.

Theorem C13_objects : forall swp o packed, (is_arr (oty o) = true \/ 0 < usize (oty o)) ->
  wspec (write_objects swp o packed) (Ok tt) (enc_objects swp o packed) /\
  wspec (obj_write_arr swp o) (Ok tt) (enc_obj_arr swp o).
Proof. intros swp o packed H. split; [now apply wspec_write_objects|now apply wspec_obj_write_arr]. Qed.
Print Assumptions C13_objects.

Theorem C13_value_array : forall swp v, wf_va v -> wspec (va_write swp v) (Ok tt) (enc_va swp v).
Proof. exact wspec_va. Qed.
Print Assumptions C13_value_array.

Theorem C13_column_slice : forall swp c, wf_cs c -> wspec (cs_write swp c) (Ok tt) (enc_cs swp c).
Proof. exact wspec_cs. Qed.
Print Assumptions C13_column_slice.

Theorem C13_table_slice : forall swp cols, wf_ts cols ->
  wspec (ts_write swp {| tscols := map Some cols; tsowned := false |}) (Ok tt) (enc_ts swp cols).
Proof. exact wspec_ts. Qed.
Print Assumptions C13_table_slice.

(* all slices of a table followed by the end marker: one failure point anywhere fails the call in
   progress and every later one *)
Theorem C13_slices_and_end : forall swp sls ncols, slices_ok ncols sls ->
  wspec (wfor (map (fun cols => {| tscols := map Some cols; tsowned := false |}) sls) (ts_write swp) ;;w ts_write_end)
        (Ok tt) (enc_slices swp sls).
Proof. exact wspec_slices. Qed.
Print Assumptions C13_slices_and_end.

Theorem C13_table_metadata : forall swp t names, tm_ok t -> fold_columns (tcols t) = Ok names ->
  (forall n, In n names -> tentry_ok n) -> wspec (tm_write swp t) (Ok tt) (enc_tm swp t names).
Proof. exact wspec_tm. Qed.
Print Assumptions C13_table_metadata.

(* the whole file: wherever the stream starts refusing bytes, the writing session fails there and
   exactly the accepted prefix of the file has been handed over *)
Theorem C13_file : forall swp meta sls names budget, wf_file meta sls names -> 0 <= budget < zlen (enc_file swp meta sls names) ->
  exists e, wrun (write_table swp {| t_meta := meta; t_slices := map caller_ts sls |}) budget = (e, ztake budget (enc_file swp meta sls names)) /\ e <> SBDF_OK.
Proof.
  intros swp meta sls names budget W Hb.
  destruct (wspec_run _ _ _ budget (wspec_file swp meta sls names W) ltac:(lia)) as [_ H2]. apply H2. lia.
Qed.
Print Assumptions C13_file.

Example C13_nonvacuous :
  wrun (write_string false [104; 105]) 5 = (SBDF_ERROR_IO, [2; 0; 0; 0; 104]) /\ wrun (write_string false [104; 105]) 6 = (SBDF_OK, [2; 0; 0; 0; 104; 105]).
Proof. split; vm_compute; reflexivity. Qed.

(* ---- writers of the framing layer and the packed-length writer, from the source (Gen/Prog.v,
   translated on every run): under EVERY budget of the output stream the bytes accepted are the
   first `budget` bytes of the encoding and the status is OK exactly when all of them were
   accepted - a failed fwrite is returned by the function that met it and by every caller above it
   (sbdf_write_int8 <- sbdf_sec_write <- sbdf_fh_write_cur). *)
Theorem C13_source_fh_write_cur : forall B, 0 <= B ->
  exists f0, forall f, (f0 <= f)%nat -> exists fin,
    callE prog_env f prog_sbdf_fh_write_cur [tok] [] B = OReturn (VInt (if 5 <=? B then SBDF_OK else SBDF_ERROR_IO)) fin /\
    outb fin = ztake B enc_header.
Proof. exact fh_write_cur_source. Qed.
Print Assumptions C13_source_fh_write_cur.

Theorem C13_source_sec_write : forall id B, int_min <= id <= int_max -> 0 <= B ->
  exists f0, forall f, (f0 <= f)%nat -> exists fin,
    callE prog_env f prog_sbdf_sec_write [tok; VInt id] [] B = OReturn (VInt (if 3 <=? B then SBDF_OK else SBDF_ERROR_IO)) fin /\
    outb fin = ztake B [223; 91; id mod 256].
Proof. exact sec_write_source. Qed.
Print Assumptions C13_source_sec_write.

Theorem C13_source_vt_write : forall id B, int_min <= id <= int_max -> 0 <= B ->
  exists f0, forall f, (f0 <= f)%nat -> exists fin,
    callE prog_env f prog_sbdf_vt_write [tok; VInt id] [] B = OReturn (VInt (if 1 <=? B then SBDF_OK else SBDF_ERROR_IO)) fin /\
    outb fin = ztake B [id mod 256].
Proof. exact vt_write_source. Qed.
Print Assumptions C13_source_vt_write.

Theorem C13_source_write_7bit : forall v B, int_min <= v <= int_max -> 0 <= B ->
  exists f0, forall f, (f0 <= f)%nat -> exists fin,
    call_io f prog_sbdf_write_7bitpacked_int32 [VNull; VInt v] [] B = OReturn (VInt (if zlen (enc7 v) <=? B then SBDF_OK else SBDF_ERROR_IO)) fin /\
    outb fin = ztake B (enc7 v).
Proof. exact write7_correct. Qed.
Print Assumptions C13_source_write_7bit.

(* the end-of-table marker (sbdf_ts_write_end) under every budget *)
Theorem C13_source_ts_write_end : forall B, 0 <= B ->
  exists f0, forall f, (f0 <= f)%nat -> exists fin,
    callE prog_env f prog_sbdf_ts_write_end [tok] [] B = OReturn (VInt (if 3 <=? B then SBDF_OK else SBDF_ERROR_IO)) fin /\
    outb fin = ztake B [223; 91; SBDF_TABLEEND_SECTIONID].
Proof. exact ts_write_end_source. Qed.
Print Assumptions C13_source_ts_write_end.
