(* C20 — the library is passive: decided for the whole library at once from the facts that
   tools/srcfacts.py regenerates from /repo/src on every run (Gen/Facts.v). *)
From Coq Require Import List String Bool ZArith.
From Sbdf Require Import Passive.
From Sbdf.Gen Require Import Facts.
Import ListNotations.
Local Open Scope string_scope.

(* the classes of library functions a passive library may use: allocation, pure memory / string
   functions, stream I/O on a handle it was given, sorting.  Inclusion, not equality: a new pure
   function does not alarm; printf, abort, exit, getenv, time, rand, fopen, setlocale, signal, ... do. *)
Definition passive_functions : list string :=
  ["malloc"; "calloc"; "realloc"; "free";
   "memcpy"; "memmove"; "memset"; "memcmp"; "memchr"; "strlen"; "strnlen"; "strcmp"; "strncmp"; "strchr"; "strrchr"; "strcpy"; "strncpy";
   "fread"; "fwrite"; "fseek"; "ftell"; "fflush";
   "qsort"; "bsearch"].

Definition is_passive (f : string) : bool := existsb (String.eqb f) passive_functions.

Definition fname (x : string * bool * list string * nat) : string := fst (fst (fst x)).
Definition fcallees (x : string * bool * list string * nat) : list string := snd (fst x).
Definition findirect (x : string * bool * list string * nat) : nat := snd x.

Definition defined (f : string) : bool := existsb (fun x => String.eqb f (fname x)) funs.
Definition callees (f : string) : list string :=
  match find (fun x => String.eqb f (fname x)) funs with Some x => fcallees x | None => [] end.

(* (i) every function the library calls and does not define is in the passive classes *)
Theorem C20_externals_passive : forallb is_passive externals = true.
Proof. vm_compute. reflexivity. Qed.
Print Assumptions C20_externals_passive.

(* the generated list of externals is exactly what the call graph implies *)
Theorem C20_externals_complete :
  forallb (fun x => forallb (fun g => defined g || existsb (String.eqb g) externals) (fcallees x)) funs = true.
Proof. vm_compute. reflexivity. Qed.
Print Assumptions C20_externals_complete.

(* (ii) every stream call works on a FILE* that is a parameter of the calling function, and no
   standard stream, environment or other process-wide object is referenced anywhere *)
Theorem C20_streams_are_arguments : forallb (fun x => snd x) stream_calls = true /\ std_object_refs = [].
Proof. split; vm_compute; reflexivity. Qed.
Print Assumptions C20_streams_are_arguments.

(* (iii) the library itself makes no indirect call (the comparators are called by qsort only) *)
Theorem C20_no_indirect_calls : forallb (fun x => Nat.eqb (findirect x) 0) funs = true.
Proof. vm_compute. reflexivity. Qed.
Print Assumptions C20_no_indirect_calls.

(* (iv) for every execution from every entry point, to any call depth and with recursion, every
   event is a call to a function outside the library that is reachable in the call graph *)
Theorem C20_all_executions : forall f tr,
  exec callees defined f tr -> Forall (is_external defined (all_callees callees (map fname funs))) tr.
Proof.
  apply events_are_externals.
  intros f H. unfold defined in H. apply existsb_exists in H. destruct H as (x & Hx & E).
  apply String.eqb_eq in E. subst f. now apply in_map.
Qed.
Print Assumptions C20_all_executions.

(* ... and those are passive: every external reachable in the call graph is in the classes above *)
Theorem C20_reachable_externals_passive :
  forallb (fun g => defined g || is_passive g) (all_callees callees (map fname funs)) = true.
Proof. vm_compute. reflexivity. Qed.
Print Assumptions C20_reachable_externals_passive.

Example C20_nonvacuous : defined "sbdf_ts_read" = true /\ In "fread" (callees "sbdf_read_int32") /\ defined "fread" = false.
Proof. repeat split; vm_compute; auto. Qed.
