(* C18 — independent objects can be used from concurrent threads: the library keeps no mutable
   global state.  (i) generic: threads that read a shared component and update only private ones get,
   under every interleaving, the result of their sequential run; (ii) instance: every use of every
   file-scope or function-static object of the library (Gen/Facts.v, regenerated from the source
   on every run) is a read. *)
From Coq Require Import List String Bool Arith.
From Sbdf Require Import Passive.
From Sbdf.Gen Require Import Facts.
Import ListNotations.
Local Open Scope string_scope.

Theorem C18_schedule_independent : forall (Sh Pr : Type) (step : Sh -> Pr -> Pr) sh s1 s2 st i,
  count_occ Nat.eq_dec s1 i = count_occ Nat.eq_dec s2 i ->
  run_sched Sh Pr step sh s1 st i = run_sched Sh Pr step sh s2 st i.
Proof. exact same_result_under_every_interleaving. Qed.
Print Assumptions C18_schedule_independent.

Theorem C18_sequential_result : forall (Sh Pr : Type) (step : Sh -> Pr -> Pr) sh sched st i,
  run_sched Sh Pr step sh sched st i = iter (count_occ Nat.eq_dec sched i) (step sh) (st i).
Proof. exact schedule_independent. Qed.
Print Assumptions C18_sequential_result.

(* a use is harmless when it reads the object: an rvalue read, passing it by value, or letting an
   array decay into a parameter declared const; anything else (a write, ++, taking its address,
   decaying into a non-const parameter, an unclassified use) counts as a write *)
Definition readonly_use (k : string) : bool :=
  existsb (String.eqb k) ["read"; "decay-const-arg"; "by-value-arg"].

Theorem C18_no_mutable_global_state :
  forallb (fun u => readonly_use (snd u)) static_uses = true.
Proof. vm_compute. reflexivity. Qed.
Print Assumptions C18_no_mutable_global_state.

Example C18_nonvacuous : In ("nulls", "sbdf_va_create_bit", "decay-const-arg") static_uses.
Proof. vm_compute. auto 10. Qed.
