(* C01 — write-then-read round trip preserves the whole table.
   wf_file meta sls names: the table metadata is well formed (singleton values, defaults of the
   same type, names unique per collection, sizes below 2^31), the column metadata folds without a
   conflict to the file-wide name list `names`, and every slice has as many columns as the metadata.
   Statements only; proofs in TmFacts.v, SliceFacts.v, FileFacts.v. *)
From Sbdf Require Import File PrimFacts SevenBit ObjFacts VaFacts SliceFacts MdFacts TmFacts FileFacts.

(* header, table metadata, slices, end marker: the writers produce bytes from which the readers
   deliver the metadata, every slice in order, and then end-of-table exactly at the end marker *)
Theorem C01_file_roundtrip : forall swp meta sls names budget tail, wf_file meta sls names ->
  zlen (enc_file swp meta sls names) <= budget ->
  exists bs, wrun (write_table swp {| t_meta := meta; t_slices := map caller_ts sls |}) budget = (SBDF_OK, bs) /\
             read_table swp None None (bs ++ tail) = (Some (read_back meta sls names), SBDF_TABLEEND, enc_end ++ tail).
Proof.
  intros swp meta sls names budget tail W Hb. exists (enc_file swp meta sls names). split.
  - pose proof (BaseFacts.zlen_nonneg (enc_file swp meta sls names)).
    destruct (wspec_run _ _ _ budget (wspec_file swp meta sls names W) ltac:(lia)) as [H1 _]. now apply H1.
  - now apply read_file_exact.
Qed.
Print Assumptions C01_file_roundtrip.

(* what is read back: the table-level metadata as written (frozen), the slices as written (owned by
   the reader), and per column the same names with the same values and defaults — as a name-keyed
   set, in the file-wide first-appearance order *)
Theorem C01_column_metadata_content : forall cols names c name, Forall col_ok cols -> cols_dflt_wf cols ->
  fold_columns cols = Ok names -> In c cols ->
  match md_find name c, md_find name (norm names c) with
  | Some e, Some e' => evalue e' = evalue e /\ edflt e' = edflt e /\ key e' = key e
  | None, None => True
  | _, _ => False
  end.
Proof. exact norm_same_content. Qed.
Print Assumptions C01_column_metadata_content.

(* same-named column metadata with different types or different defaults: the writer returns
   INCORRECT_METADATA instead of producing a file (only the header and the head of the metadata
   section have been handed to the stream) *)
Theorem C01_conflict_refused : forall swp meta slices st, tm_ok meta -> fold_columns (tcols meta) = Err st ->
  wspec (write_table swp {| t_meta := meta; t_slices := slices |}) (Err SBDF_ERROR_INCORRECT_METADATA) (enc_header ++ enc_tm_head swp meta).
Proof. exact wspec_file_conflict. Qed.
Print Assumptions C01_conflict_refused.

(* ... and the folding fails exactly when two entries with the same name disagree: when it
   succeeds, all same-named entries agree on type and default *)
Theorem C01_fold_ok_means_consistent : forall cols names, fold_columns cols = Ok names -> cols_dflt_wf cols ->
  NoDup (map key names) /\ (forall n, In n names -> In n (concat (map ments cols))) /\
  (forall e, In e (concat (map ments cols)) -> exists n, In n names /\ same_name n e /\ agree n e).
Proof. exact fold_columns_spec. Qed.
Print Assumptions C01_fold_ok_means_consistent.


(* writer and reader meet in enc_*: for every budget that suffices the writer produces bs, and the
   reader maps bs (followed by anything) back to the value *)
Theorem C01_value_array_roundtrip : forall swp v budget tail, wf_va v -> byte_ok (vty v) -> zlen (enc_va swp v) <= budget ->
  exists bs, wrun (va_write swp v) budget = (SBDF_OK, bs) /\ va_read swp None (bs ++ tail) = Ok (v, tail).
Proof.
  intros swp v budget tail W B Hb. exists (enc_va swp v). pose proof (BaseFacts.zlen_nonneg (enc_va swp v)). split.
  - destruct (wspec_run _ _ _ budget (wspec_va swp v W) ltac:(lia)) as [H1 _]. now apply H1.
  - destruct (rspec_va swp v W B) as [E _]. apply E.
Qed.
Print Assumptions C01_value_array_roundtrip.

Theorem C01_slices_roundtrip : forall swp sls ncols budget fuel tail,
  slices_ok ncols sls -> (length sls <= length fuel)%nat -> zlen (enc_slices swp sls) <= budget ->
  let w := wfor (map (fun cols => {| tscols := map Some cols; tsowned := false |}) sls) (ts_write swp) ;;w ts_write_end in
  exists bs, wrun w budget = (SBDF_OK, bs) /\
             read_slices swp None fuel ncols None (bs ++ tail) = (map owned_ts sls, SBDF_TABLEEND, enc_end ++ tail).
Proof.
  intros swp sls ncols budget fuel tail W Hf Hb w. exists (enc_slices swp sls). split.
  - pose proof (BaseFacts.zlen_nonneg (enc_slices swp sls)).
    destruct (wspec_run _ _ _ budget (wspec_slices swp sls ncols W) ltac:(lia)) as [H1 _]. now apply H1.
  - now apply read_slices_exact.
Qed.
Print Assumptions C01_slices_roundtrip.

(* what "the same content" is: every cell bit for bit (C02) *)
Theorem C01_cells : forall o, obj_ok o ->
  (exists v, va_create_plain o = Ok v /\ va_get_values v = Ok o) /\
  (exists v, va_create_rle o = Ok v /\ va_get_values v = Ok o) /\
  (exists v, va_create_bit o = Ok v /\ va_get_values v = Ok (bools_of o)).
Proof.
  intros o H. split; [|split].
  - destruct (va_plain_lossless o H) as (v & A & B & _). eauto.
  - destruct (va_rle_lossless o H) as (v & A & B & _). eauto.
  - destruct (va_bit_lossless o H) as (v & A & B & _). eauto.
Qed.
Print Assumptions C01_cells.

(* ---- the premises are satisfiable: a concrete table (one table-metadata entry; two columns sharing
   a metadata name with a default; two slices, the first column plain, the second bit-packed with an
   IsInvalid-style property) satisfies wf_file, so the file-level theorems of C01, C03, C06, C08, C13
   say something. *)
Definition ex_int (v : Z) : obj := {| oty := SBDF_INTTYPEID; oelems := [[v; 0; 0; 0]] |}.
Definition ex_ent (name : list Z) (v : Z) (d : option Z) : mdent :=
  {| ename := name; evalue := Some (ex_int v); edflt := option_map ex_int d |}.
Definition ex_meta : tm :=
  {| tmeta := {| ments := [ex_ent [116] 7 None]; mmod := false |};
     tcols := [ {| ments := [ex_ent [97] 1 (Some 9); ex_ent [98] 2 None]; mmod := false |};
                {| ments := [ex_ent [98] 3 None; ex_ent [97] 4 (Some 9)]; mmod := false |} ] |}.
Definition ex_plain (vals : list Z) : va :=
  {| vty := SBDF_INTTYPEID; venc := SBDF_PLAINARRAYENCODINGTYPEID; value1 := 0;
     o1 := Some {| oty := SBDF_INTTYPEID; oelems := map (fun v => [v; 0; 0; 0]) vals |}; o2 := None |}.
Definition ex_bits (n : Z) (bytes : list Z) : va :=
  {| vty := SBDF_BOOLTYPEID; venc := SBDF_BITARRAYENCODINGTYPEID; value1 := n;
     o1 := Some {| oty := SBDF_BINARYTYPEID; oelems := [bytes] |}; o2 := None |}.
Definition ex_slice (a b c : Z) (bits : Z) : list (cs va) :=
  [ {| csvals := ex_plain [a; b; c]; csprops := [([73], ex_bits 3 [bits])]; csowned := false |};
    {| csvals := ex_bits 3 [bits]; csprops := []; csowned := false |} ].
Definition ex_slices : list (list (cs va)) := [ex_slice 1 2 3 160; ex_slice 4 5 6 64].

Example C01_nonvacuous : exists names, wf_file ex_meta ex_slices names /\ zlen names = 2 /\
  (forall swp, zlen (enc_file swp ex_meta ex_slices names) = 189).
Proof.
  destruct (fold_columns (tcols ex_meta)) as [names|e] eqn:F; [|vm_compute in F; discriminate].
  assert (Hn : names = [ex_ent [97] 1 (Some 9); ex_ent [98] 2 None]) by (vm_compute in F; now inversion F).
  exists names. split; [|split; [subst; reflexivity|intros [|]; subst; vm_compute; reflexivity]].
  assert (Wobj : forall v, wf_obj (ex_int v)).
  { intros v. unfold wf_obj, ex_int, ocount. cbn [oty oelems]. split; [cbn; lia|]. change (is_arr SBDF_INTTYPEID) with false. cbv iota.
    split; [vm_compute; reflexivity|]. intros e [<-|[]]. reflexivity. }
  assert (W1 : forall v, obj1_ok (ex_int v)) by (intros v; split; [apply Wobj|reflexivity]).
  assert (Went : forall nm v d, zlen nm < 2147483647 -> tentry_ok (ex_ent nm v d)).
  { intros nm v d Hl. split; [exact Hl|]. cbn [evalue ex_ent]. split; [apply W1|]. split; [unfold ex_int; cbn [oty]; unfold SBDF_INTTYPEID; lia|].
    destruct d as [d|]; cbn [edflt ex_ent option_map]; [split; [apply W1|reflexivity]|exact I]. }
  assert (Wva_p : forall vals, zlen vals < 1000 -> wf_va (ex_plain vals)).
  { intros vals Hl. apply wf_plain; [reflexivity|]. unfold wf_obj, ocount. cbn [oty oelems]. rewrite BaseFacts.zlen_map. split; [lia|].
    change (is_arr SBDF_INTTYPEID) with false. cbv iota. split; [vm_compute; reflexivity|].
    intros e He. apply in_map_iff in He. destruct He as (v & <- & _). reflexivity. }
  assert (Wva_b : forall b, wf_va (ex_bits 3 [b])) by (intros b; apply wf_bit; [lia|reflexivity]).
  assert (Wcol : forall a va da b vb db, a <> b -> zlen a < 100 -> zlen b < 100 ->
            cstr a = a -> cstr b = b -> col_ok {| ments := [ex_ent a va da; ex_ent b vb db]; mmod := false |}).
  { intros a va da b vb db Hab La Lb Ca Cb. split; cbn [ments].
    - constructor; [apply Went; lia|]. constructor; [apply Went; lia|constructor].
    - unfold key. cbn [map ename ex_ent]. rewrite Ca, Cb. constructor; [intros [E|[]]; congruence|]. constructor; [intros []|constructor]. }
  constructor.
  - split; [constructor; [apply Went; cbn; lia|constructor]|]. split; [cbn; lia|]. split; [|cbn; lia].
    constructor; [apply Wcol; [discriminate|cbn; lia|cbn; lia|reflexivity|reflexivity]|].
    constructor; [apply Wcol; [discriminate|cbn; lia|cbn; lia|reflexivity|reflexivity]|constructor].
  - unfold cols_dflt_wf. apply Forall_forall. intros e He d Hd. cbn in He.
    assert (Hwf : EqFacts.obj_wf (ex_int 9)) by (right; split; [vm_compute; reflexivity|intros x [<-|[]]; reflexivity]).
    destruct He as [<-|[<-|[<-|[<-|[]]]]]; cbn in Hd; try discriminate; inversion Hd; subst; exact Hwf.
  - exact F.
  - subst. cbn. lia.
  - intros cols Hc. assert (E : exists a b c bits, cols = ex_slice a b c bits) by (destruct Hc as [<-|[<-|[]]]; do 4 eexists; reflexivity).
    destruct E as (a & b & c & bits & ->). split; [|reflexivity]. split; [cbn; lia|].
    intros col [<-|[<-|[]]].
    + split; [apply Wva_p; cbn; lia|]. split; [unfold byte_ok; cbn; unfold SBDF_INTTYPEID, SBDF_BOOLTYPEID; lia|]. split; [cbn; lia|].
      intros p [<-|[]]. split; [cbn; lia|]. split; [apply Wva_b|unfold byte_ok; cbn; unfold SBDF_BOOLTYPEID; lia].
    + split; [apply Wva_b|]. split; [unfold byte_ok; cbn; unfold SBDF_INTTYPEID, SBDF_BOOLTYPEID; lia|]. split; [cbn; lia|intros p []].
Qed.
