(* C01 — write-then-read round trip preserves the whole table.
   Proved here for the slice part of a file (any number of slices, any columns, any encodings,
   any properties): what the writers emit is read back as the same content, and then
   end-of-table.  The table-metadata section (sbdf_tm_write / sbdf_tm_read with its
   sort/fold/re-expansion) is covered by the correspondence run only: see DESIGN.md.
   Statements only. *)
From Sbdf Require Import File PrimFacts SevenBit ObjFacts VaFacts SliceFacts FileFacts.

(* writer and reader meet in enc_*: for every budget that suffices the writer produces bs, and the
   reader maps bs (followed by anything) back to the value *)
Theorem C01_value_array_roundtrip : forall swp v budget tail, wf_va v -> byte_ok (vty v) -> zlen (enc_va swp v) <= budget ->
  exists bs, wrun (va_write swp v) budget = (SBDF_OK, bs) /\ va_read swp None (bs ++ tail) = Ok (v, tail).
Proof.
  intros swp v budget tail W B Hb. exists (enc_va swp v). pose proof (BaseFacts.zlen_nonneg (enc_va swp v)). split.
  - destruct (wspec_run _ _ _ budget (wspec_va swp v W) ltac:(lia)) as [H1 _]. now apply H1.
  - destruct (rspec_va swp v W B) as [E _]. apply E.
Qed.
Print Assumptions C01_value_array_roundtrip.

Theorem C01_slices_roundtrip : forall swp sls ncols budget fuel tail,
  slices_ok ncols sls -> (length sls <= length fuel)%nat -> zlen (enc_slices swp sls) <= budget ->
  let w := wfor (map (fun cols => {| tscols := map Some cols; tsowned := false |}) sls) (ts_write swp) ;;w ts_write_end in
  exists bs, wrun w budget = (SBDF_OK, bs) /\
             read_slices swp None fuel ncols None (bs ++ tail) = (map owned_ts sls, SBDF_TABLEEND, enc_end ++ tail).
Proof.
  intros swp sls ncols budget fuel tail W Hf Hb w. exists (enc_slices swp sls). split.
  - pose proof (BaseFacts.zlen_nonneg (enc_slices swp sls)).
    destruct (wspec_run _ _ _ budget (wspec_slices swp sls ncols W) ltac:(lia)) as [H1 _]. now apply H1.
  - now apply read_slices_exact.
Qed.
Print Assumptions C01_slices_roundtrip.

(* what "the same content" is: every cell bit for bit (C02) *)
Theorem C01_cells : forall o, obj_ok o ->
  (exists v, va_create_plain o = Ok v /\ va_get_values v = Ok o) /\
  (exists v, va_create_rle o = Ok v /\ va_get_values v = Ok o) /\
  (exists v, va_create_bit o = Ok v /\ va_get_values v = Ok (bools_of o)).
Proof.
  intros o H. split; [|split].
  - destruct (va_plain_lossless o H) as (v & A & B & _). eauto.
  - destruct (va_rle_lossless o H) as (v & A & B & _). eauto.
  - destruct (va_bit_lossless o H) as (v & A & B & _). eauto.
Qed.
Print Assumptions C01_cells.
