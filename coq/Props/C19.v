(* C19 - statements only. (grows) *)
From Sbdf Require Import Base BaseFacts.
Theorem C19_cmp_zero_iff_equal : forall a b, lex_cmp a b = 0 <-> a = b.
Proof. exact lex_cmp_eq. Qed.
Print Assumptions C19_cmp_zero_iff_equal.
