(* C19 — charset helpers are exact, size-consistent and stay inside the input.
   The model (Charset.v) works on the bytes before the terminator and returns the bytes written
   before the terminator; the C functions return that length plus one in both the size-only and the
   converting call.  "Reads nothing past the terminator" is structural in the model (there is
   nothing after the list) and is tied to the code by the ASan run on exactly-sized buffers.
   Statements only; proofs in CharsetFacts.v. *)
From Sbdf Require Import Charset CharsetFacts.

Theorem C19_roundtrip : forall s, Forall latin1 s -> utf8_to_iso (iso_to_utf8 s) = s.
Proof. exact iso_utf8_iso_roundtrip. Qed.
Print Assumptions C19_roundtrip.

Theorem C19_intermediate_wellformed : forall s, Forall latin1 s -> wf_utf8 (iso_to_utf8 s) /\ Forall (fun b => b <> 0) (iso_to_utf8 s).
Proof. intros s H. split; [now apply iso_to_utf8_wellformed|now apply iso_to_utf8_nul_free]. Qed.
Print Assumptions C19_intermediate_wellformed.

(* malformed or truncated UTF-8 included: every output byte is a copied ASCII byte, a decoded
   Latin-1 code point >= 0x80, or the substitute character — never a NUL, never out of range *)
Theorem C19_utf8_to_iso_output : forall s, Forall (fun b => 1 <= b <= 255) s -> Forall out_ok (utf8_to_iso s).
Proof. exact utf8_to_iso_output. Qed.
Print Assumptions C19_utf8_to_iso_output.

(* the conversion consumes its whole input with the fuel it is given: more fuel changes nothing *)
Theorem C19_total : forall s f1 f2, (length s <= f1)%nat -> (length s <= f2)%nat -> u2i_loop f1 s = u2i_loop f2 s.
Proof. exact u2i_loop_fuel_enough. Qed.
Print Assumptions C19_total.

(* undecodable and out-of-range sequences become the substitute character *)
Example C19_substitutes :
  utf8_to_iso [195] = [26] /\ utf8_to_iso [195; 65] = [26; 65] /\ utf8_to_iso [192; 128] = [26] /\
  utf8_to_iso [196; 128] = [26] /\ utf8_to_iso [226; 130; 172] = [26] /\ utf8_to_iso [128; 128; 65] = [26; 65] /\
  utf8_to_iso [65; 195; 169; 66] = [65; 233; 66].
Proof. repeat split; reflexivity. Qed.
