(* C19 — charset helpers are exact, size-consistent and stay inside the input.
   The model (Charset.v) works on the bytes before the terminator and returns the bytes written
   before the terminator; the C functions return that length plus one in both the size-only and the
   converting call.  "Reads nothing past the terminator" is structural in the model (there is
   nothing after the list); for the code it is part of C19_source_* below: the deep-embedded
   program faults on any read outside the NUL-terminated input, and the theorems say it returns.
   Statements only; proofs in CharsetFacts.v and ImpFacts.v. *)
From Sbdf Require Import Charset CharsetFacts Imp Gen.Prog ImpBase ImpFacts.

Theorem C19_roundtrip : forall s, Forall latin1 s -> utf8_to_iso (iso_to_utf8 s) = s.
Proof. exact iso_utf8_iso_roundtrip. Qed.
Print Assumptions C19_roundtrip.

Theorem C19_intermediate_wellformed : forall s, Forall latin1 s -> wf_utf8 (iso_to_utf8 s) /\ Forall (fun b => b <> 0) (iso_to_utf8 s).
Proof. intros s H. split; [now apply iso_to_utf8_wellformed|now apply iso_to_utf8_nul_free]. Qed.
Print Assumptions C19_intermediate_wellformed.

(* malformed or truncated UTF-8 included: every output byte is a copied ASCII byte, a decoded
   Latin-1 code point >= 0x80, or the substitute character — never a NUL, never out of range *)
Theorem C19_utf8_to_iso_output : forall s, Forall (fun b => 1 <= b <= 255) s -> Forall out_ok (utf8_to_iso s).
Proof. exact utf8_to_iso_output. Qed.
Print Assumptions C19_utf8_to_iso_output.

(* the conversion consumes its whole input with the fuel it is given: more fuel changes nothing *)
Theorem C19_total : forall (s : list Z) f1 f2, (List.length s <= f1)%nat -> (List.length s <= f2)%nat -> u2i_loop f1 s = u2i_loop f2 s.
Proof. exact u2i_loop_fuel_enough. Qed.
Print Assumptions C19_total.

(* undecodable and out-of-range sequences become the substitute character *)
Example C19_substitutes :
  utf8_to_iso [195] = [26] /\ utf8_to_iso [195; 65] = [26; 65] /\ utf8_to_iso [192; 128] = [26] /\
  utf8_to_iso [196; 128] = [26] /\ utf8_to_iso [226; 130; 172] = [26] /\ utf8_to_iso [128; 128; 65] = [26; 65] /\
  utf8_to_iso [65; 195; 169; 66] = [65; 233; 66].
Proof. repeat split; reflexivity. Qed.

(* ---- the source itself.  Gen/Prog.v is the two converters of src/sbdfstring.c translated,
   statement by statement, into the mini-C of Imp.v by tools/c2imp.py on every run.  For EVERY
   NUL-free input string s (followed by its terminator), with an output buffer (w = true) or with a
   null output pointer (w = false, the size-only call): the function terminates, returns the
   model's length plus one - the same value in both calls - has written exactly the model's bytes
   and the terminator when given a buffer and nothing otherwise, and never read outside
   s ++ [0], wrote out of sequence, overflowed an int or read an unset local (each of those is a
   fault of the interpreter, and the outcome is a return).  The only size hypothesis is that the
   result length fits an int. *)
Theorem C19_source_iso_to_utf8 : forall w s, Forall latin1 s -> zlen (iso_to_utf8 s) + 1 <= int_max ->
  exists f0, forall f, (f0 <= f)%nat ->
    exists fin, call f prog_sbdf_convert_iso88591_to_utf8 [VPtr RIn 0; ov w 0] (s ++ [0]) = OReturn (VInt (zlen (iso_to_utf8 s) + 1)) fin /\
                outb fin = app_w w [] (iso_to_utf8 s ++ [0]).
Proof. exact i2u_correct. Qed.
Print Assumptions C19_source_iso_to_utf8.

Theorem C19_source_utf8_to_iso : forall w s, Forall latin1 s -> zlen (utf8_to_iso s) + 1 <= int_max ->
  exists f0, forall f, (f0 <= f)%nat ->
    exists fin, call f prog_sbdf_convert_utf8_to_iso88591 [VPtr RIn 0; ov w 0] (s ++ [0]) = OReturn (VInt (zlen (utf8_to_iso s) + 1)) fin /\
                outb fin = app_w w [] (utf8_to_iso s ++ [0]).
Proof. exact u2i_correct. Qed.
Print Assumptions C19_source_utf8_to_iso.

(* the interpreter on concrete inputs (what the theorems say, executed): "é" "A" a 4-byte sequence, "B", a truncated lead *)
Example C19_source_runs :
  (match call 1000 prog_sbdf_convert_utf8_to_iso88591 [VPtr RIn 0; VPtr ROut 0] [195; 169; 65; 240; 159; 146; 169; 66; 194; 0] with
   | OReturn v st => Some (v, outb st) | _ => None end) = Some (VInt 6, [233; 65; 26; 66; 26; 0]) /\
  (match call 1000 prog_sbdf_convert_iso88591_to_utf8 [VPtr RIn 0; VNull] [233; 65; 255; 0] with
   | OReturn v st => Some (v, outb st) | _ => None end) = Some (VInt 6, []).
Proof. split; vm_compute; reflexivity. Qed.
