(* C07 — skipping and column-subset reads are equivalent to full reads.
   Statements only; proofs in PrimFacts, ObjFacts, VaFacts, SliceFacts.
   enc_* are the wire forms (proved in C03 to be what the writers emit); `tail` is whatever
   follows the section in the stream; both sides return Ok with the same rest of the stream,
   i.e. the same status and the same end position. *)
From Sbdf Require Import ImpCall Gen.Prog ImpBase ImpFactsSkip ImpFactsSkipObj ImpFactsSkipVa ImpFactsSkipCs ImpFactsCells ImpFactsReadArr ImpFactsReadVa.
From Coq Require Import List.
From Sbdf Require Import Slice PrimFacts ObjFacts VaFacts SliceFacts.

Theorem C07_string_skip : forall swp s tail, zlen s < 2147483647 ->
  skip_string swp (enc_string swp s ++ tail) = Ok (tt, tail) /\
  read_string swp None (enc_string swp s ++ tail) = Ok (s, tail).
Proof.
  intros swp s tail H. split; [apply skip_string_exact; lia|]. destruct (rspec_string swp s H) as [E _]. apply E.
Qed.
Print Assumptions C07_string_skip.

Theorem C07_object_array_skip : forall swp o tail, wf_obj o ->
  obj_skip_arr swp (oty o) (enc_obj_arr swp o ++ tail) = Ok (tt, tail) /\
  obj_read_arr swp None (oty o) (enc_obj_arr swp o ++ tail) = Ok (o, tail).
Proof.
  intros swp o tail W. split; [now apply obj_skip_arr_exact|]. destruct (rspec_obj_read_arr swp o W) as [E _]. apply E.
Qed.
Print Assumptions C07_object_array_skip.

(* every encoding (plain, run-length with any runs, bit), every value type *)
Theorem C07_value_array_skip : forall swp v tail, wf_va v -> byte_ok (vty v) ->
  va_skip swp (enc_va swp v ++ tail) = Ok (tt, tail) /\ va_read swp None (enc_va swp v ++ tail) = Ok (v, tail).
Proof.
  intros swp v tail W B. split; [now apply va_skip_exact|]. destruct (rspec_va swp v W B) as [E _]. apply E.
Qed.
Print Assumptions C07_value_array_skip.

Theorem C07_column_slice_skip : forall swp c tail, wf_cs c ->
  cs_skip swp (enc_cs swp c ++ tail) = Ok (tt, tail) /\ cs_read swp None (enc_cs swp c ++ tail) = Ok (owned_cs c, tail).
Proof.
  intros swp c tail W. split; [now apply cs_skip_exact|]. destruct (rspec_cs swp c W) as [E _]. apply E.
Qed.
Print Assumptions C07_column_slice_skip.

(* a subset read returns the selected columns as the full read does, leaves the others absent
   and ends at the same position, for every subset; sbdf_ts_skip likewise *)
Theorem C07_subset_read : forall swp cols subset tail, wf_ts cols ->
  ts_read swp None (zlen cols) subset (enc_ts swp cols ++ tail) = Ok ({| tscols := mask subset cols; tsowned := true |}, tail) /\
  ts_read swp None (zlen cols) None (enc_ts swp cols ++ tail) = Ok (owned_ts cols, tail) /\
  ts_skip swp None (zlen cols) (enc_ts swp cols ++ tail) = Ok (tt, tail).
Proof.
  intros swp cols subset tail W. split; [now apply ts_read_exact|]. split; [|now apply ts_skip_exact].
  destruct (rspec_ts swp cols W) as [E _]. apply E.
Qed.
Print Assumptions C07_subset_read.

(* what "selected columns identical, others absent" means *)
Theorem C07_mask_all : forall cols, mask None cols = map (fun c => Some (owned_cs c)) cols.
Proof. exact mask_none. Qed.
Print Assumptions C07_mask_all.

Example C07_mask_example : forall a b c : cs va,
  mask (Some [1; 0; 1]) [a; b; c] = [Some (owned_cs a); None; Some (owned_cs c)].
Proof. reflexivity. Qed.

(* the string skipper from the source: sbdf_skip_string of src/internals.c (translated on every run,
   with its call of sbdf_read_int32 and its fseek) returns on EVERY byte stream what the model's
   skip_string returns, and leaves the stream where the model leaves it - which is where the model's
   read_string ends (skip_string_exact above). *)
Theorem C07_source_skip_string : forall s B, Forall byte s ->
  exists f0, forall f, (f0 <= f)%nat ->
  match skip_string false s with
  | Ok (_, s') => exists fin, callE prog_env f prog_sbdf_skip_string [tok] s B = OReturn (VInt SBDF_OK) fin /\ inb fin = s' /\ outb fin = []
  | Err st => exists fin, callE prog_env f prog_sbdf_skip_string [tok] s B = OReturn (VInt st) fin /\ outb fin = []
  end.
Proof. exact skip_string_source. Qed.
Print Assumptions C07_source_skip_string.

(* the skipping side of the object, value-array and column-slice layers from the source (src/object.c, valuearray.c,
   columnslice.c, translated on every run with their calls): on EVERY byte stream - well-formed, truncated or hostile -
   each returns the status of the model's function and leaves the stream where the model leaves it.  sbdf_va_skip runs
   the function it shares with the reader, sbdf_read_valuearray_int, with a null handle; that function is translated in
   part (what it does with a handle is a fault in the translation), and the theorem shows that none of it is reached. *)
Theorem C07_source_skip_objects : forall v c pk s B, Forall byte s -> int_min <= c <= int_max ->
  exists f0, forall f, (f0 <= f)%nat ->
  match skip_objects false v c (negb (pk =? 0)) s with
  | Ok (_, s') => exists fin, callE prog_env f prog_sbdf_skip_objects [tok; VInt v; VInt c; VInt pk] s B = OReturn (VInt SBDF_OK) fin /\ inb fin = s' /\ outb fin = []
  | Err st => exists fin, callE prog_env f prog_sbdf_skip_objects [tok; VInt v; VInt c; VInt pk] s B = OReturn (VInt st) fin /\ outb fin = []
  end.
Proof. exact skip_objects_source. Qed.
Print Assumptions C07_source_skip_objects.

Theorem C07_source_obj_skip_arr : forall t s B, Forall byte s ->
  exists f0, forall f, (f0 <= f)%nat ->
  match obj_skip_arr false t s with
  | Ok (_, s') => exists fin, callE prog_env f prog_sbdf_obj_skip_arr [tok; VInt t] s B = OReturn (VInt SBDF_OK) fin /\ inb fin = s' /\ outb fin = []
  | Err st => exists fin, callE prog_env f prog_sbdf_obj_skip_arr [tok; VInt t] s B = OReturn (VInt st) fin /\ outb fin = []
  end.
Proof. exact obj_skip_arr_source. Qed.
Print Assumptions C07_source_obj_skip_arr.

Theorem C07_source_obj_skip : forall t s B, Forall byte s ->
  exists f0, forall f, (f0 <= f)%nat ->
  match obj_skip false t s with
  | Ok (_, s') => exists fin, callE prog_env f prog_sbdf_obj_skip [tok; VInt t] s B = OReturn (VInt SBDF_OK) fin /\ inb fin = s' /\ outb fin = []
  | Err st => exists fin, callE prog_env f prog_sbdf_obj_skip [tok; VInt t] s B = OReturn (VInt st) fin /\ outb fin = []
  end.
Proof. exact obj_skip_source. Qed.
Print Assumptions C07_source_obj_skip.

Theorem C07_source_va_skip : forall s B, Forall byte s ->
  exists f0, forall f, (f0 <= f)%nat ->
  match va_skip false s with
  | Ok (_, s') => exists fin, callE prog_env f prog_sbdf_va_skip [tok] s B = OReturn (VInt SBDF_OK) fin /\ inb fin = s' /\ outb fin = []
  | Err st => exists fin, callE prog_env f prog_sbdf_va_skip [tok] s B = OReturn (VInt st) fin /\ outb fin = []
  end.
Proof. exact va_skip_source. Qed.
Print Assumptions C07_source_va_skip.

Theorem C07_source_cs_skip : forall s B, Forall byte s ->
  exists f0, forall f, (f0 <= f)%nat ->
  match cs_skip false s with
  | Ok (_, s') => exists fin, callE prog_env f prog_sbdf_cs_skip [tok] s B = OReturn (VInt SBDF_OK) fin /\ inb fin = s' /\ outb fin = []
  | Err st => exists fin, callE prog_env f prog_sbdf_cs_skip [tok] s B = OReturn (VInt st) fin /\ outb fin = []
  end.
Proof. exact cs_skip_source. Qed.
Print Assumptions C07_source_cs_skip.

(* composed with the model theorem above: the source's sbdf_cs_skip, run on the bytes of any well-formed column slice
   followed by anything, returns OK with exactly the trailing bytes unread *)
Theorem C07_source_cs_skip_exact : forall c tail B, wf_cs c -> Forall byte (enc_cs false c ++ tail) ->
  exists f0, forall f, (f0 <= f)%nat ->
  exists fin, callE prog_env f prog_sbdf_cs_skip [tok] (enc_cs false c ++ tail) B = OReturn (VInt SBDF_OK) fin /\ inb fin = tail /\ outb fin = [].
Proof.
  intros c tail B W Hb. destruct (cs_skip_source (enc_cs false c ++ tail) B Hb) as (f0 & F). exists f0. intros f Hf. specialize (F f Hf).
  rewrite (cs_skip_exact false c tail W) in F. exact F.
Qed.
Print Assumptions C07_source_cs_skip_exact.

(* reading and skipping side by side, both from the source: on the bytes of any well-formed plain or run-length value array
   followed by anything, sbdf_va_read returns OK and a handle with the stream at exactly the trailing bytes - which is where
   sbdf_va_skip (C07_source_va_skip with the model's va_skip_exact) leaves it *)
Theorem C07_source_va_read_exact : forall rf rp fo po k m h v tail, k < 0 -> wf_va v -> byte_ok (vty v) -> venc v <> SBDF_BITARRAYENCODINGTYPEID ->
  Forall byte (enc_va false v ++ tail) ->
  exists f0, forall f, (f0 <= f)%nat -> exists fin,
    callC prog_env f prog_sbdf_va_read [VPtr rf fo; VPtr rp po] m k (enc_va false v ++ tail) h = OReturn (VInt SBDF_OK) fin /\
    Imp.lookup strm_var (vars fin) = Some (VBytes tail) /\ Imp.lookup "*handle" (vars fin) = Some (VCell (List.length h) 0).
Proof.
  intros rf rp fo po k m h v tail Hk W B Hne Hb.
  assert (H3 : forall t s2, enc_va false v ++ tail <> 3 :: t :: s2).
  { intros t s2 E. unfold enc_va in E. cbn [app] in E. injection E as E _. destruct W; cbn [venc] in *; try discriminate E. apply Hne. reflexivity. }
  destruct (va_read_source rf rp fo po k (enc_va false v ++ tail) m h Hb H3) as (f0 & F). exists f0. intros f Hf.
  destruct (F f Hf) as (st & fin & C & _ & MT & Out & _). specialize (MT Hk).
  destruct (rspec_va false v W B) as [E _]. rewrite (E tail) in MT. destruct MT as (-> & MS).
  exists fin. split; [exact C|]. split; [exact MS|]. destruct Out as [(_ & Hh & _)|(Hn & _)]; [exact Hh|unfold SBDF_OK in Hn; lia].
Qed.
Print Assumptions C07_source_va_read_exact.

Theorem C07_source_va_skip_exact : forall v tail B, wf_va v -> byte_ok (vty v) -> Forall byte (enc_va false v ++ tail) ->
  exists f0, forall f, (f0 <= f)%nat ->
  exists fin, callE prog_env f prog_sbdf_va_skip [tok] (enc_va false v ++ tail) B = OReturn (VInt SBDF_OK) fin /\ inb fin = tail /\ outb fin = [].
Proof.
  intros v tail B W Hty Hb. destruct (va_skip_source (enc_va false v ++ tail) B Hb) as (f0 & F). exists f0. intros f Hf. specialize (F f Hf).
  rewrite (va_skip_exact false v tail W Hty) in F. exact F.
Qed.
Print Assumptions C07_source_va_skip_exact.

Theorem C07_source_obj_skip_arr_exact : forall o tail B, wf_obj o -> Forall byte (enc_obj_arr false o ++ tail) ->
  exists f0, forall f, (f0 <= f)%nat ->
  exists fin, callE prog_env f prog_sbdf_obj_skip_arr [tok; VInt (oty o)] (enc_obj_arr false o ++ tail) B = OReturn (VInt SBDF_OK) fin /\ inb fin = tail /\ outb fin = [].
Proof.
  intros o tail B W Hb. destruct (obj_skip_arr_source (oty o) (enc_obj_arr false o ++ tail) B Hb) as (f0 & F). exists f0. intros f Hf. specialize (F f Hf).
  rewrite (obj_skip_arr_exact false o tail W) in F. exact F.
Qed.
Print Assumptions C07_source_obj_skip_arr_exact.

(* skipping and reading side by side one level up, both from the source: on the bytes of any well-formed column slice without
   properties (plain or run-length values) followed by anything, sbdf_cs_read (no allocation failing) returns OK, hands out
   the slice and leaves the stream at exactly the trailing bytes - where sbdf_cs_skip (C07_source_cs_skip_exact) leaves it *)
From Sbdf Require Import ImpFactsCsRead.
Theorem C07_source_cs_read_exact : forall rf rp fo po k m h c tail, k < 0 -> wf_cs c -> csprops c = [] -> venc (csvals c) <> SBDF_BITARRAYENCODINGTYPEID ->
  Forall byte (enc_cs false c ++ tail) ->
  exists f0, forall f, (f0 <= f)%nat -> exists fin,
    callC prog_env f prog_sbdf_cs_read [VPtr rf fo; VPtr rp po] m k (enc_cs false c ++ tail) h = OReturn (VInt SBDF_OK) fin /\
    Imp.lookup strm_var (vars fin) = Some (VBytes tail) /\ Imp.lookup "*out" (vars fin) = Some (VCell (List.length h) 0).
Proof.
  intros rf rp fo po k m h c tail Hk (Wv & Bv & _ & _) Hp Hne Hb.
  assert (ESX : enc_cs false c ++ tail = [223; 91; SBDF_COLUMNSLICE_SECTIONID] ++ (enc_va false (csvals c) ++ enc32 false 0 ++ tail)).
  { unfold enc_cs. rewrite Hp. cbn [map List.concat zlen List.length Z.of_nat]. rewrite app_nil_r, <- !app_assoc. reflexivity. }
  rewrite ESX in *.
  destruct (rspec_sec_expect SBDF_COLUMNSLICE_SECTIONID) as [E0 _].
  destruct (rspec_va false (csvals c) Wv Bv) as [EV _].
  destruct (rspec_int32 false 0 ltac:(unfold i32_range; lia)) as [E32 _].
  assert (NB : forall s1, sec_expect SBDF_COLUMNSLICE_SECTIONID ([223; 91; SBDF_COLUMNSLICE_SECTIONID] ++ enc_va false (csvals c) ++ enc32 false 0 ++ tail) = Ok (tt, s1) -> forall t s2, s1 <> 3 :: t :: s2).
  { intros s1 E. rewrite E0 in E. assert (Y : s1 = enc_va false (csvals c) ++ enc32 false 0 ++ tail) by congruence. subst s1. intros t s2 X. unfold enc_va in X. cbn [app] in X. injection X as X _. destruct Wv; cbn [venc] in *; try discriminate X. apply Hne. reflexivity. }
  assert (CNT : forall s1 va s2 v s3, sec_expect SBDF_COLUMNSLICE_SECTIONID ([223; 91; SBDF_COLUMNSLICE_SECTIONID] ++ enc_va false (csvals c) ++ enc32 false 0 ++ tail) = Ok (tt, s1) ->
                 Va.va_read false None s1 = Ok (va, s2) -> read_int32 false s2 = Ok (v, s3) -> v <= 0).
  { intros s1 va s2 v s3 E A R. rewrite E0 in E. assert (Y : s1 = enc_va false (csvals c) ++ enc32 false 0 ++ tail) by congruence. subst s1. rewrite (EV (enc32 false 0 ++ tail)) in A. assert (Y : s2 = enc32 false 0 ++ tail) by congruence. subst s2. rewrite (E32 tail) in R. assert (v = 0) by congruence. lia. }
  destruct (cs_read_source rf rp fo po k _ m h Hb NB CNT) as (f0 & F). exists f0. intros f Hf.
  destruct (F f Hf) as (st & fin & C & _ & Out & MOK).
  assert (st = SBDF_OK).
  { apply (MOK Hk). exists (enc_va false (csvals c) ++ enc32 false 0 ++ tail), (csvals c), (enc32 false 0 ++ tail), tail. split; [apply E0|split; [apply (EV (enc32 false 0 ++ tail))|apply (E32 tail)]]. }
  subst st. exists fin. split; [exact C|].
  destruct Out as [(_ & Ho & (s1 & va & s2 & s3 & A1 & A2 & A3 & A4) & _)|(Hn & _)]; [|unfold SBDF_OK in Hn; lia].
  split; [|exact Ho].
  rewrite E0 in A1. assert (Y : s1 = enc_va false (csvals c) ++ enc32 false 0 ++ tail) by congruence. subst s1. rewrite (EV (enc32 false 0 ++ tail)) in A2. assert (Y : s2 = enc32 false 0 ++ tail) by congruence. subst s2. rewrite (E32 tail) in A3. assert (Y : s3 = tail) by congruence. subst s3. exact A4.
Qed.
Print Assumptions C07_source_cs_read_exact.

(* the column subset from the source: sbdf_ts_read with ANY column subset (a flag per column in the caller's memory; none =
   all columns) on the encoding of any well-formed table slice whose SELECTED columns hold no bit arrays, against a table
   metadata struct with that many columns, followed by anything, under EVERY allocation schedule: a negative status with
   everything the call allocated released - or OK with the stream exactly behind the table slice, whatever the subset:
   the columns left out are skipped (sbdf_cs_skip) to exactly where reading them would have ended. *)
From Sbdf Require Import ImpFactsTsRead ImpFactsCsRead BaseFacts Va.
Local Open Scope Z_scope.
Theorem C07_source_ts_read_subset : forall rf rp fo po k m (h : ImpFactsCells.heap) tmb cols tail sub, wf_ts cols -> zlen cols <= 715827882 ->
  (forall j c, nth_error cols j = Some c -> sel sub (Z.of_nat j) = true -> nobit_cs c) ->
  cell_get h tmb 1 = Some (VInt (zlen cols)) -> flags_in (zlen cols) sub m -> Forall byte (enc_ts false cols ++ tail) ->
  exists f0, forall f, (f0 <= f)%nat -> exists st fin,
    callC prog_env f prog_sbdf_ts_read [VPtr rf fo; VCell tmb 0; sv sub; VPtr rp po] m k (enc_ts false cols ++ tail) h = OReturn (VInt st) fin /\
    ((st = SBDF_OK /\ Imp.lookup strm_var (vars fin) = Some (VBytes tail) /\ Imp.lookup "*out" (vars fin) = Some (VCell (List.length h) 0)) \/
     (st < 0 /\ Imp.lookup "*out" (vars fin) = Some VUndef /\ exists j, Imp.lookup cells_var (vars fin) = Some (VHeap (h ++ nones j)))).
Proof.
  intros rf rp fo po k m h tmb cols tail sub (Hn & W) Hsm Hnb Htm Fl Hb.
  pose proof (zlen_nonneg cols) as N0.
  assert (ESX : enc_ts false cols ++ tail = [223; 91; 3] ++ (enc32 false (zlen cols) ++ List.concat (map (enc_cs false) cols) ++ tail)) by (unfold enc_ts; rewrite <- !app_assoc; reflexivity).
  rewrite ESX in *. set (CT := List.concat (map (enc_cs false) cols) ++ tail) in *.
  destruct (rspec_sec_read 3) as [E0 _].
  destruct (rspec_int32 false (zlen cols) ltac:(unfold i32_range; lia)) as [E32 _].
  destruct (colsf_of_encoding sub cols 0 tail W (fun j c Hj Hs => Hnb j c Hj ltac:(rewrite Z.add_0_l in Hs; exact Hs))) as (CE & CN). fold CT in CE, CN.
  assert (Hlen : Z.to_nat (zlen cols) = List.length cols) by (unfold zlen; lia).
  assert (NBC : forall s1 s2, sec_read ([223; 91; 3] ++ enc32 false (zlen cols) ++ CT) = Ok (3, s1) -> read_int32 false s1 = Ok (zlen cols, s2) -> colsf_nobit sub (Z.to_nat (zlen cols)) 0 s2).
  { intros s1 s2 A R. rewrite E0 in A. assert (Y : s1 = enc32 false (zlen cols) ++ CT) by congruence. subst s1. rewrite (E32 CT) in R. assert (Y : s2 = CT) by congruence. subst s2. rewrite Hlen. exact CN. }
  destruct (ts_read_sub_source rf rp fo po k _ m h tmb (zlen cols) sub Hb ltac:(lia) Htm Fl NBC) as (f0 & F). exists f0. intros f Hf.
  destruct (F f Hf) as (st & fin & C & _ & _ & Out & _). exists st, fin. split; [exact C|].
  destruct Out as [(E & Ho & (s1 & s2 & s' & A1 & A2 & A3 & A4) & _)|(Hng & Ho & Hj)]; [|right; split; [exact Hng|split; [exact Ho|exact Hj]]].
  left. split; [exact E|]. split; [|exact Ho].
  rewrite E0 in A1. assert (Y : s1 = enc32 false (zlen cols) ++ CT) by congruence. subst s1. rewrite (E32 CT) in A2. assert (Y : s2 = CT) by congruence. subst s2.
  rewrite Hlen, CE in A3. assert (s' = tail) by congruence. subst s'. exact A4.
Qed.
Print Assumptions C07_source_ts_read_subset.

(* sbdf_ts_skip from the source (a zeroed flag buffer, sbdf_ts_read with that subset, sbdf_ts_destroy, free): for EVERY byte
   stream, every table metadata struct and EVERY allocation schedule the call returns with every block it allocated in the cell
   heap released again; without allocation failures its status is the status of the L1 model's ts_skip and, on success, the
   stream stands exactly where the model's ts_skip leaves it - which by the model theorem ts_skip_exact
   is where a full read of the table slice ends (C07_subset_read). *)
Theorem C07_source_ts_skip : forall rf fo k sx m (h : ImpFactsCells.heap) tmb n, Forall byte sx -> 0 <= n <= 715827882 -> cell_get h tmb 1 = Some (VInt n) ->
  exists f0, forall f, (f0 <= f)%nat -> exists st fin,
    callC prog_env f prog_sbdf_ts_skip [VPtr rf fo; VCell tmb 0] m k sx h = OReturn (VInt st) fin /\ prefix_of m (inb fin) /\
    (exists j, Imp.lookup cells_var (vars fin) = Some (VHeap (h ++ nones j))) /\
    (k < 0 -> match Slice.ts_skip false None n sx with
              | Ok (_, sM) => st = SBDF_OK /\ Imp.lookup strm_var (vars fin) = Some (VBytes sM)
              | Err e => st = e end).
Proof. exact ts_skip_source. Qed.
Print Assumptions C07_source_ts_skip.
