(* C09 — structural corruption is reported with the matching status code.
   One theorem per kind of field, for the reader that meets the corrupted field first and on any
   bytes that follow it; then (end of this file) the composition over whole files for the slice,
   column and metadata-section positions: the valid part in front is read exactly as written and
   the session ends with that status.  Deeper fields (inside a value array or a metadata entry) are
   composed by the correspondence run: every field of every generated file.
   Statements only; proofs in StatusFacts.v and CorruptFacts.v. *)
From Sbdf Require Import Imp ImpCall Gen.Prog ImpBase ImpFactsFrame ImpFactsRead.
From Coq Require Import String List.
From Sbdf Require Import File PrimFacts VaFacts SliceFacts TmFacts FileFacts StatusFacts CorruptFacts LeafTie.
From Sbdf.Gen Require Leaf.
From Sbdf.Gen Require Facts.
Local Open Scope Z_scope.

Theorem C09_marker_bytes : forall b rest,
  (b <> 223 -> sec_read (b :: rest) = Err SBDF_ERROR_MAGIC_NUMBER_MISSING) /\
  (b <> 91 -> sec_read (223 :: b :: rest) = Err SBDF_ERROR_MAGIC_NUMBER_MISSING).
Proof. intros b rest. split; [apply sec_read_bad_marker0|apply sec_read_bad_marker1]. Qed.
Print Assumptions C09_marker_bytes.

Theorem C09_section_kind : forall swp cap want got ncols subset rest,
  (got <> want -> sec_expect want (223 :: 91 :: got :: rest) = Err SBDF_ERROR_UNEXPECTED_SECTION_ID) /\
  ts_read swp cap ncols subset (223 :: 91 :: 5 :: rest) = Err SBDF_TABLEEND /\
  (got <> 5 -> got <> 3 -> ts_read swp cap ncols subset (223 :: 91 :: got :: rest) = Err SBDF_ERROR_UNEXPECTED_SECTION_ID).
Proof.
  intros. split; [apply sec_expect_wrong_id|split; [apply ts_read_end_of_table|apply ts_read_other_section]].
Qed.
Print Assumptions C09_section_kind.

Theorem C09_negative_sizes : forall swp cap v tail ty ncols subset, i32_range v -> v < 0 ->
  tm_read swp cap ([223; 91; 2] ++ enc32 swp v ++ tail) = Err SBDF_ERROR_INVALID_SIZE /\           (* entry count *)
  obj_read_arr swp cap ty (enc32 swp v ++ tail) = Err SBDF_ERROR_INVALID_SIZE /\                   (* element count *)
  ts_read swp cap ncols subset ([223; 91; 3] ++ enc32 swp v ++ tail) = Err SBDF_ERROR_INVALID_SIZE /\ (* slice column count *)
  read_string swp cap (enc32 swp v ++ tail) = Err SBDF_ERROR_INVALID_SIZE /\                       (* string length *)
  read_elem swp cap ty false (enc32 swp v ++ tail) = Err SBDF_ERROR_INVALID_SIZE.                   (* string/binary value length *)
Proof.
  intros swp cap v tail ty ncols subset R H.
  split; [now apply tm_read_negative_entry_count|]. split; [now apply obj_read_arr_negative_count|].
  split; [now apply ts_read_negative_column_count|]. split; [now apply read_string_negative_length|now apply read_elem_negative_length].
Qed.
Print Assumptions C09_negative_sizes.

Theorem C09_presence_flag : forall swp cap vt f rest, f <> 0 -> f <> 1 ->
  read_metadata_values swp cap vt (f :: rest) = Err SBDF_ERROR_ARRAY_LENGTH_MUST_BE_1.
Proof. exact read_metadata_values_bad_flag. Qed.
Print Assumptions C09_presence_flag.

Theorem C09_unknown_type_id : forall swp cap ty count packed s, 0 <= count -> is_arr ty = false -> usize ty < 0 ->
  read_objects swp cap ty count packed s = Err SBDF_ERROR_UNKNOWN_TYPEID.
Proof. intros. apply read_objects_unknown_type; try assumption. now apply usize_unknown. Qed.
Print Assumptions C09_unknown_type_id.

(* the table of known type ids is the one in the source (sbdf_get_unpacked_size, sbdf_ti_is_arr as
   translated from /repo/src/internals.c on this run), for every integer id *)
Theorem C09_type_table_is_the_source : forall id,
  Leaf.gen_sbdf_get_unpacked_size id = usize id /\ Leaf.gen_sbdf_get_packed_size id = usize id /\
  Leaf.gen_sbdf_ti_is_arr id = (if is_arr id then 1 else 0).
Proof. intros id. split; [apply tie_unpacked_size|split; [apply tie_packed_size|apply tie_is_arr]]. Qed.
Print Assumptions C09_type_table_is_the_source.

Theorem C09_unknown_encoding_id : forall swp cap e vt rest,
  e <> SBDF_PLAINARRAYENCODINGTYPEID -> e <> SBDF_RUNLENGTHENCODINGTYPEID -> e <> SBDF_BITARRAYENCODINGTYPEID ->
  va_read swp cap (e :: vt :: rest) = Err SBDF_ERROR_UNKNOWN_VALUEARRAY_ENCODING /\
  va_skip swp (e :: vt :: rest) = Err SBDF_ERROR_UNKNOWN_VALUEARRAY_ENCODING.
Proof. exact va_read_unknown_encoding. Qed.
Print Assumptions C09_unknown_encoding_id.

Theorem C09_column_count_mismatch : forall swp cols ncols subset tail, wf_ts cols -> ncols <> zlen cols ->
  ts_read swp None ncols subset (enc_ts swp cols ++ tail) = Err SBDF_ERROR_COLUMN_COUNT_MISMATCH.
Proof. exact ts_read_count_mismatch. Qed.
Print Assumptions C09_column_count_mismatch.

(* row counts: refused at read when negative, at the first decode when inconsistent with the runs *)
Theorem C09_row_counts : forall swp cap e vt v tail ty n runs vals,
  (e = SBDF_RUNLENGTHENCODINGTYPEID \/ e = SBDF_BITARRAYENCODINGTYPEID -> i32_range v -> v < 0 ->
     va_read swp cap (e :: vt :: enc32 swp v ++ tail) = Err SBDF_ERROR_INVALID_SIZE) /\
  ((is_arr ty = true \/ 0 < usize ty) -> (length runs <> length vals \/ rle_total runs <> n) ->
     va_get_values {| vty := ty; venc := SBDF_RUNLENGTHENCODINGTYPEID; value1 := n;
                      o1 := Some (byte_obj runs); o2 := Some {| oty := ty; oelems := vals |} |} = Err SBDF_ERROR_INVALID_SIZE).
Proof. intros. split; [apply va_read_negative_row_count|apply get_values_inconsistent_rows]. Qed.
Print Assumptions C09_row_counts.

(* every status macro used anywhere in the library's sources has its own textual description, over
   the table regenerated from sbdf_err_get_str on every run *)
Theorem C09_descriptions :
  forallb (fun e => negb (String.eqb (describe e) Facts.err_default)) Facts.status_uses = true /\
  forallb (fun p => forallb (fun q => Z.eqb (fst p) (fst q) || negb (String.eqb (snd p) (snd q))) Facts.err_table) Facts.err_table = true.
Proof. split; [exact every_used_status_described|exact descriptions_distinct]. Qed.
Print Assumptions C09_descriptions.

(* ---- the framing layer from the source.  sbdf_read_int8, sbdf_sec_read, sbdf_sec_expect,
   sbdf_fh_read and sbdf_vt_read (src/internals.c, fileheader.c, valuetype.c) are translated into
   Gen/Prog.v on every run, with the calls between them (ImpCall.v); on EVERY byte stream each
   returns exactly what the model function of Prim.v returns - the status (missing magic number,
   unexpected section id, I/O error at the end of the stream), the value delivered through its
   out-parameter, and the stream position.  So the theorems above about markers, section ids and
   type ids speak about these functions as they are written. *)
Theorem C09_source_sec_read : forall s B, Forall byte s ->
  exists f0, forall f, (f0 <= f)%nat ->
  match sec_read s with
  | Ok (x, s') => exists fin, callE prog_env f prog_sbdf_sec_read [tok; tok] s B = OReturn (VInt SBDF_OK) fin /\
                              lookup "*id" (vars fin) = Some (VInt x) /\ inb fin = s' /\ outb fin = []
  | Err st => exists fin, callE prog_env f prog_sbdf_sec_read [tok; tok] s B = OReturn (VInt st) fin /\ outb fin = []
  end.
Proof. exact sec_read_source. Qed.
Print Assumptions C09_source_sec_read.

Theorem C09_source_sec_expect : forall id s B, Forall byte s -> int_min <= id <= int_max ->
  exists f0, forall f, (f0 <= f)%nat ->
  match sec_expect id s with
  | Ok (_, s') => exists fin, callE prog_env f prog_sbdf_sec_expect [tok; VInt id] s B = OReturn (VInt SBDF_OK) fin /\ inb fin = s' /\ outb fin = []
  | Err st => exists fin, callE prog_env f prog_sbdf_sec_expect [tok; VInt id] s B = OReturn (VInt st) fin /\ outb fin = []
  end.
Proof. exact sec_expect_source. Qed.
Print Assumptions C09_source_sec_expect.

Theorem C09_source_fh_read : forall s B, Forall byte s ->
  exists f0, forall f, (f0 <= f)%nat ->
  match fh_read s with
  | Ok ((major, minor), s') => exists fin, callE prog_env f prog_sbdf_fh_read [tok; tok; tok] s B = OReturn (VInt SBDF_OK) fin /\
        lookup "*major" (vars fin) = Some (VInt major) /\ lookup "*minor" (vars fin) = Some (VInt minor) /\ inb fin = s' /\ outb fin = []
  | Err st => exists fin, callE prog_env f prog_sbdf_fh_read [tok; tok; tok] s B = OReturn (VInt st) fin /\ outb fin = []
  end.
Proof. exact fh_read_source. Qed.
Print Assumptions C09_source_fh_read.

Theorem C09_source_vt_read : forall s B, Forall byte s ->
  exists f0, forall f, (f0 <= f)%nat ->
  match vt_read s with
  | Ok (x, s') => exists fin, callE prog_env f prog_sbdf_vt_read [tok; tok] s B = OReturn (VInt SBDF_OK) fin /\
                              lookup "*v" (vars fin) = Some (VInt x) /\ inb fin = s' /\ outb fin = []
  | Err st => exists fin, callE prog_env f prog_sbdf_vt_read [tok; tok] s B = OReturn (VInt st) fin /\ outb fin = []
  end.
Proof. exact vt_read_source. Qed.
Print Assumptions C09_source_vt_read.

Example C09_source_runs :
  (match callE prog_env 100 prog_sbdf_fh_read [tok; tok; tok] [223; 91; 2; 1; 0] 0 with OReturn v _ => Some v | _ => None end) = Some (VInt SBDF_ERROR_UNEXPECTED_SECTION_ID) /\
  (match callE prog_env 100 prog_sbdf_fh_read [tok; tok; tok] [223; 90; 1; 1; 0] 0 with OReturn v _ => Some v | _ => None end) = Some (VInt SBDF_ERROR_MAGIC_NUMBER_MISSING) /\
  (match callE prog_env 100 prog_sbdf_fh_read [tok; tok; tok] [223; 91; 1; 1] 0 with OReturn v _ => Some v | _ => None end) = Some (VInt SBDF_ERROR_IO).
Proof. repeat split; vm_compute; reflexivity. Qed.

(* sbdf_read_string from the source (length header, allocation, bulk fread into the fresh block,
   terminator): for EVERY byte stream - hostile length headers included: negative, INT_MAX, longer than
   what follows - every memory m and every allocation oracle k, the call returns exactly the status of
   the model's read_string (negative -> invalid size; INT_MAX -> out of memory, no allocation attempted;
   short payload -> i/o error), on success the fresh block holds the length, the bytes and the
   terminator and the stream is advanced past them; the interpreter never faults, so no read or write
   falls outside the block that was allocated. *)
Theorem C09_source_read_string : forall hc sx m k, Forall byte sx ->
  exists f0, forall f, (f0 <= f)%nat -> exists fin st,
    callC prog_env f prog_sbdf_read_string [tok; tok] m k sx hc = OReturn (VInt st) fin /\
    match read_string false None sx with
    | Ok (bytes, rest) =>
        if k =? 0 then st = SBDF_ERROR_OUT_OF_MEMORY /\ inb fin = m
        else st = SBDF_OK /\ inb fin = str_mem m bytes [] /\ lookup "*s"%string (vars fin) = Some (VPtr RIn (zlen m + 4)) /\
             lookup strm_var (vars fin) = Some (VBytes rest)
    | Err e => (st = e \/ (k = 0 /\ st = SBDF_ERROR_OUT_OF_MEMORY)) /\ exists blk, inb fin = m ++ blk
    end.
Proof. exact read_string_source. Qed.
Print Assumptions C09_source_read_string.

Example C09_source_read_string_runs :
  (match callC prog_env 100 prog_sbdf_read_string [tok; tok] [7] (-1) [2; 0; 0; 0; 104; 105; 9] [] with OReturn v fin => Some (v, inb fin, lookup strm_var (vars fin)) | _ => None end)
     = Some (VInt SBDF_OK, [7; 3; 0; 0; 0; 104; 105; 0], Some (VBytes [9])) /\
  (match callC prog_env 100 prog_sbdf_read_string [tok; tok] [7] (-1) [255; 255; 255; 255; 1] [] with OReturn v _ => Some v | _ => None end) = Some (VInt SBDF_ERROR_INVALID_SIZE) /\
  (match callC prog_env 100 prog_sbdf_read_string [tok; tok] [7] (-1) [255; 255; 255; 127; 1] [] with OReturn v _ => Some v | _ => None end) = Some (VInt SBDF_ERROR_OUT_OF_MEMORY) /\
  (match callC prog_env 100 prog_sbdf_read_string [tok; tok] [7] (-1) [3; 0; 0; 0; 1; 2] [] with OReturn v _ => Some v | _ => None end) = Some (VInt SBDF_ERROR_IO).
Proof. repeat split; vm_compute; reflexivity. Qed.

(* ---- composition over whole files (CorruptFacts.v).  For every well-formed table (any metadata,
   any number of slices written before the corrupted place) and whatever bytes follow the corrupted
   field: the session delivers the table metadata and exactly the slices in front, unchanged, and ends
   with the status that names the problem.  Position 1: where slice number |sls| (or the end marker)
   begins.  Position 2: where column number |done| of that slice begins. *)
Theorem C09_file_slice_position : forall swp meta sls names rest, wf_file meta sls names ->
  let pre := enc_header ++ enc_tm swp meta names ++ concat (map (enc_ts swp) sls) in
  let run tail := read_table swp None None (enc_header ++ enc_tm swp meta names ++ concat (map (enc_ts swp) sls) ++ tail) in
  let got st tail := (Some (read_back meta sls names), st, tail) in
  (forall b, b <> 223 -> run (b :: rest) = got SBDF_ERROR_MAGIC_NUMBER_MISSING (b :: rest)) /\
  (forall b, b <> 91 -> run (223 :: b :: rest) = got SBDF_ERROR_MAGIC_NUMBER_MISSING (223 :: b :: rest)) /\
  run (223 :: 91 :: 5 :: rest) = got SBDF_TABLEEND (223 :: 91 :: 5 :: rest) /\
  (forall g, g <> 5 -> g <> 3 -> run (223 :: 91 :: g :: rest) = got SBDF_ERROR_UNEXPECTED_SECTION_ID (223 :: 91 :: g :: rest)) /\
  (forall v, i32_range v -> v < 0 -> run ([223; 91; 3] ++ enc32 swp v ++ rest) = got SBDF_ERROR_INVALID_SIZE ([223; 91; 3] ++ enc32 swp v ++ rest)) /\
  (forall v, i32_range v -> 0 <= v -> v <> zlen (tcols meta) ->
     run ([223; 91; 3] ++ enc32 swp v ++ rest) = got SBDF_ERROR_COLUMN_COUNT_MISMATCH ([223; 91; 3] ++ enc32 swp v ++ rest)).
Proof. exact file_slice_position. Qed.
Print Assumptions C09_file_slice_position.

Theorem C09_file_column_position : forall swp meta sls names done rest, wf_file meta sls names ->
  (forall c, In c done -> wf_cs c) -> zlen done < zlen (tcols meta) ->
  let run tail := read_table swp None None (enc_header ++ enc_tm swp meta names ++ concat (map (enc_ts swp) sls) ++
                    [223; 91; 3] ++ enc32 swp (zlen (tcols meta)) ++ concat (map (enc_cs swp) done) ++ tail) in
  let ends st t := fst (fst t) = Some (read_back meta sls names) /\ snd (fst t) = st in
  (forall b, b <> 223 -> ends SBDF_ERROR_MAGIC_NUMBER_MISSING (run (b :: rest))) /\
  (forall b, b <> 91 -> ends SBDF_ERROR_MAGIC_NUMBER_MISSING (run (223 :: b :: rest))) /\
  (forall g, g <> 4 -> ends SBDF_ERROR_UNEXPECTED_SECTION_ID (run (223 :: 91 :: g :: rest))) /\
  (forall e vt, e <> SBDF_PLAINARRAYENCODINGTYPEID -> e <> SBDF_RUNLENGTHENCODINGTYPEID -> e <> SBDF_BITARRAYENCODINGTYPEID ->
     ends SBDF_ERROR_UNKNOWN_VALUEARRAY_ENCODING (run ([223; 91; 4] ++ e :: vt :: rest))) /\
  (forall v n, wf_va v -> byte_ok (vty v) -> i32_range n -> n < 0 ->
     ends SBDF_ERROR_INVALID_SIZE (run ([223; 91; 4] ++ enc_va swp v ++ enc32 swp n ++ rest))).
Proof. exact file_column_position. Qed.
Print Assumptions C09_file_column_position.

Theorem C09_file_metadata_position : forall swp rest,
  (forall g, g <> 2 -> read_table swp None None (enc_header ++ 223 :: 91 :: g :: rest) = (None, SBDF_ERROR_UNEXPECTED_SECTION_ID, 223 :: 91 :: g :: rest)) /\
  (forall v, i32_range v -> v < 0 ->
     read_table swp None None (enc_header ++ [223; 91; 2] ++ enc32 swp v ++ rest) = (None, SBDF_ERROR_INVALID_SIZE, [223; 91; 2] ++ enc32 swp v ++ rest)) /\
  (forall b, b <> 223 -> read_table swp None None (b :: rest) = (None, SBDF_ERROR_MAGIC_NUMBER_MISSING, b :: rest)) /\
  (forall b, b <> 91 -> read_table swp None None (223 :: b :: rest) = (None, SBDF_ERROR_MAGIC_NUMBER_MISSING, 223 :: b :: rest)) /\
  (forall g, g <> 1 -> read_table swp None None (223 :: 91 :: g :: rest) = (None, SBDF_ERROR_UNEXPECTED_SECTION_ID, 223 :: 91 :: g :: rest)).
Proof. exact file_metadata_position. Qed.
Print Assumptions C09_file_metadata_position.

(* two of the statuses at the value-array reader, from the source (sbdf_va_read = sbdf_read_valuearray_int with a handle):
   an unknown encoding id, and a negative row count in a run-length array *)
From Sbdf Require Import ImpFactsCells ImpFactsReadArr ImpFactsReadVa.
Theorem C09_source_va_read_unknown_encoding : forall rf rp fo po k m h e t s2, k < 0 -> Forall byte (e :: t :: s2) -> e <> 1 -> e <> 2 -> e <> 3 ->
  exists f0, forall f, (f0 <= f)%nat -> exists fin,
    callC prog_env f prog_sbdf_va_read [VPtr rf fo; VPtr rp po] m k (e :: t :: s2) h = OReturn (VInt SBDF_ERROR_UNKNOWN_VALUEARRAY_ENCODING) fin /\
    Imp.lookup "*handle" (vars fin) = Some VNull.
Proof.
  intros rf rp fo po k m h e t s2 Hk Hb N1 N2 N3.
  destruct (va_read_source rf rp fo po k (e :: t :: s2) m h Hb ltac:(intros t' s' E; injection E as E _; lia)) as (f0 & F). exists f0. intros f Hf.
  destruct (F f Hf) as (st & fin & C & _ & MT & Out & _). specialize (MT Hk).
  assert (EM : Va.va_read false None (e :: t :: s2) = Err SBDF_ERROR_UNKNOWN_VALUEARRAY_ENCODING).
  { unfold Va.va_read, rd_bind, vt_read. cbn [read_int8]. unfold SBDF_PLAINARRAYENCODINGTYPEID, SBDF_RUNLENGTHENCODINGTYPEID, SBDF_BITARRAYENCODINGTYPEID.
    replace (e =? 1) with false by lia. replace (e =? 2) with false by lia. replace (e =? 3) with false by lia. reflexivity. }
  rewrite EM in MT. subst st. exists fin. split; [exact C|]. destruct Out as [(E & _)|(_ & Hh & _)]; [discriminate E|exact Hh].
Qed.
Print Assumptions C09_source_va_read_unknown_encoding.

Theorem C09_source_va_read_negative_rows : forall rf rp fo po k m h t n s3, k < 0 -> Forall byte (2 :: t :: enc32 false n ++ s3) -> i32_range n -> n < 0 ->
  exists f0, forall f, (f0 <= f)%nat -> exists fin,
    callC prog_env f prog_sbdf_va_read [VPtr rf fo; VPtr rp po] m k (2 :: t :: enc32 false n ++ s3) h = OReturn (VInt SBDF_ERROR_INVALID_SIZE) fin /\
    Imp.lookup "*handle" (vars fin) = Some VNull.
Proof.
  intros rf rp fo po k m h t n s3 Hk Hb Hr Hn.
  destruct (va_read_source rf rp fo po k (2 :: t :: enc32 false n ++ s3) m h Hb ltac:(intros t' s' E; discriminate E)) as (f0 & F). exists f0. intros f Hf.
  destruct (F f Hf) as (st & fin & C & _ & MT & Out & _). specialize (MT Hk).
  assert (EM : Va.va_read false None (2 :: t :: enc32 false n ++ s3) = Err SBDF_ERROR_INVALID_SIZE).
  { unfold Va.va_read, rd_bind, vt_read, rfail. cbn [read_int8]. change (2 =? SBDF_PLAINARRAYENCODINGTYPEID) with false. change (2 =? SBDF_RUNLENGTHENCODINGTYPEID) with true. cbv iota.
    destruct (rspec_int32 false n Hr) as [E32 _]. rewrite (E32 s3). replace (n <? 0) with true by lia. reflexivity. }
  rewrite EM in MT. subst st. exists fin. split; [exact C|]. destruct Out as [(E & _)|(_ & Hh & _)]; [discriminate E|exact Hh].
Qed.
Print Assumptions C09_source_va_read_negative_rows.

(* the statuses of the table-slice framing from the source (sbdf_ts_read, read of all columns), for EVERY byte stream without
   bit arrays, every table metadata struct and EVERY allocation schedule: a missing or broken section marker is reported with
   the status of the model's sec_read, the table-end marker as SBDF_TABLEEND, any other section as UNEXPECTED_SECTION_ID, a
   missing column count as IO, a negative one as INVALID_SIZE, one that differs from the table metadata's as
   COLUMN_COUNT_MISMATCH - each before anything is allocated (ts_frame_status spells the cases out). *)
From Sbdf Require Import ImpFactsTsRead.
Theorem C09_source_ts_read_framing_statuses : forall rf rp fo po k sx m (h : ImpFactsCells.heap) tmb n, Forall byte sx -> 0 <= n <= 715827882 -> cell_get h tmb 1 = Some (VInt n) ->
  (forall s1 s2, sec_read sx = Ok (3, s1) -> read_int32 false s1 = Ok (n, s2) -> cols_nobit (Z.to_nat n) s2) ->
  exists f0, forall f, (f0 <= f)%nat -> exists st fin,
    callC prog_env f prog_sbdf_ts_read [VPtr rf fo; VCell tmb 0; VNull; VPtr rp po] m k sx h = OReturn (VInt st) fin /\
    match sec_read sx with
    | Err e => st = e
    | Ok (x, s1) =>
      if x =? 5 then st = SBDF_TABLEEND else if negb (x =? 3) then st = SBDF_ERROR_UNEXPECTED_SECTION_ID else
      match read_int32 false s1 with
      | Err e => st = e
      | Ok (cnt, _) => if cnt <? 0 then st = SBDF_ERROR_INVALID_SIZE else if negb (cnt =? n) then st = SBDF_ERROR_COLUMN_COUNT_MISMATCH else True
      end
    end.
Proof.
  intros rf rp fo po k sx m h tmb n Hs Hn Htm NBC. destruct (ts_read_source rf rp fo po k sx m h tmb n Hs Hn Htm NBC) as (f0 & F). exists f0. intros f Hf.
  destruct (F f Hf) as (st & fin & C & _ & FS & _). exists st, fin. split; [exact C|exact FS].
Qed.
Print Assumptions C09_source_ts_read_framing_statuses.

(* the statuses of the column-slice reader from the source: for EVERY byte stream without bit arrays - well-formed, truncated,
   corrupt in any field - sbdf_cs_read (no allocation failing) returns exactly the status of the L1 model's cs_read (Slice.v):
   OK where the model accepts, and where it refuses the model's error code: MAGIC_NUMBER_MISSING, UNEXPECTED_SECTION_ID,
   UNKNOWN_VALUEARRAY_ENCODING, UNKNOWN_TYPEID, INVALID_SIZE for any negative count or length, OUT_OF_MEMORY for a property
   count or a string length that cannot be allocated, IO wherever the stream ends early - anywhere in the values, the count,
   a property's name or a property's values (cs_st_model: the status function the source theorem uses is the model's status). *)
From Sbdf Require Import Slice.
Theorem C09_source_cs_read_status_is_the_models : forall rf rp fo po k sx m h, k < 0 -> Forall byte sx -> cs_nobit sx ->
  exists f0, forall f, (f0 <= f)%nat -> exists st fin,
    callC prog_env f prog_sbdf_cs_read [VPtr rf fo; VPtr rp po] m k sx h = OReturn (VInt st) fin /\
    match Slice.cs_read false None sx with Ok _ => st = SBDF_OK | Err e => st = e end.
Proof. exact cs_read_status_is_the_models. Qed.
Print Assumptions C09_source_cs_read_status_is_the_models.

(* ... and one level up: sbdf_ts_read with ANY column subset returns - no allocation failing - exactly the status of the L1
   model's ts_read (Slice.v) with that subset, on every byte stream whose selected columns hold no bit arrays: the framing
   statuses above, then the status of the first column that cannot be read (every status of the column-slice reader) or
   skipped (those of the model's cs_skip). *)
Theorem C09_source_ts_read_status_is_the_models : forall rf rp fo po k sx m (h : ImpFactsCells.heap) tmb n sub, k < 0 -> Forall byte sx -> 0 <= n <= 715827882 ->
  cell_get h tmb 1 = Some (VInt n) -> flags_in n sub m ->
  (forall s1 s2, sec_read sx = Ok (3, s1) -> read_int32 false s1 = Ok (n, s2) -> colsf_nobit sub (Z.to_nat n) 0 s2) ->
  exists f0, forall f, (f0 <= f)%nat -> exists st fin,
    callC prog_env f prog_sbdf_ts_read [VPtr rf fo; VCell tmb 0; sv sub; VPtr rp po] m k sx h = OReturn (VInt st) fin /\
    match Slice.ts_read false None n (msub sub 0) sx with Ok _ => st = SBDF_OK | Err e => st = e end.
Proof. exact ts_read_status_is_the_models. Qed.
Print Assumptions C09_source_ts_read_status_is_the_models.
