(* C16 — packed length encoding and fixed-width integers are exact for every value.
   Statements only; proofs in SevenBit.v, BaseFacts.v, PrimFacts.v, ObjFacts.v. *)
From Sbdf Require Import ImpCall Gen.Prog ImpBase ImpFacts7 ImpFacts7W ImpFactsInt32 ImpFactsInt32W.
From Sbdf Require Import Prim BaseFacts PrimFacts SevenBit Obj ObjFacts LeafTie.
From Coq Require Import List.
From Sbdf.Gen Require Import Leaf.

(* every length 0 <= n < 2^31 is read back as n whatever follows it, and every strict prefix of
   its encoding is refused with a hard error *)
Theorem C16_read_write_7bit : forall n, len_range n ->
  wspec (write_7bit n) (Ok tt) (enc7 n) /\ rspec read_7bit (enc7 n) n.
Proof. intros n H. split; [exact (wspec_7bit n)|exact (rspec_7bit n H)]. Qed.
Print Assumptions C16_read_write_7bit.

(* it occupies exactly the number of bytes the writer accounts for in byte-size headers: 1..5 *)
Theorem C16_length_accounting : forall n, len_range n -> zlen (enc7 n) = len7 n /\ 1 <= len7 n <= 5.
Proof. intros n H. split; [exact (zlen_enc7 n H)|exact (len7_bounds n)]. Qed.
Print Assumptions C16_length_accounting.

(* ... and that accounting function is the one in the source: sbdf_get_7bitpacked_len as translated
   from /repo/src/internals.c on this run equals len7 for every integer *)
Theorem C16_length_function_is_the_source : forall v, gen_sbdf_get_7bitpacked_len v = len7 v.
Proof. exact tie_len7. Qed.
Print Assumptions C16_length_function_is_the_source.

(* least-significant group first, continuation bit on all but the last byte *)
Theorem C16_shape : forall n, len_range n -> shape7 (enc7 n).
Proof. exact enc7_shape. Qed.
Print Assumptions C16_shape.

(* the byte-size header of a packed string/binary array is the sum of (group bytes + length) *)
Theorem C16_header : forall swp l, (forall e, In e l -> zlen e < 2147483647) ->
  zlen (concat (map (enc_elem swp true) l)) = packed_byte_size l.
Proof. exact zlen_concat_elems_packed. Qed.
Print Assumptions C16_header.

(* every 32-bit integer is written as four little-endian bytes and read back unchanged *)
Theorem C16_int32 : forall v, i32_range v ->
  wspec (write_int32 false v) (Ok tt) (le32 v) /\ rspec (read_int32 false) (le32 v) v /\ zlen (le32 v) = 4.
Proof. intros v H. split; [exact (wspec_int32 false v)|]. split; [exact (rspec_int32 false v H)|reflexivity]. Qed.
Print Assumptions C16_int32.

(* the reader refuses over-long group sequences, and its only failure statuses are I/O and invalid-size *)
Theorem C16_overlong_refused : forall b0 b1 b2 b3 b4 rest,
  128 <= b0 -> 128 <= b1 -> 128 <= b2 -> 128 <= b3 -> 128 <= b4 ->
  read_7bit (b0 :: b1 :: b2 :: b3 :: b4 :: rest) = Err SBDF_ERROR_INVALID_SIZE.
Proof. exact read7_overlong. Qed.
Print Assumptions C16_overlong_refused.

Example C16_nonvacuous : len_range 16384 /\ enc7 16384 = [128; 128; 1] /\ enc7 300 = [172; 2] /\ len7 2147483647 = 5.
Proof. repeat split; vm_compute; congruence. Qed.

(* ---- the source itself.  Gen/Prog.v holds sbdf_read_7bitpacked_int32 and
   sbdf_write_7bitpacked_int32 of src/internals.c translated by tools/c2imp.py into the mini-C of
   Imp.v on every run (unsigned 32-bit arithmetic with wrap-around, fread/fwrite of one byte, break).
   READER: on EVERY byte stream - hostile ones included - the translated function returns what the
   model's read_7bit returns: the same status, and on success the same value in *v and the same
   stream position.  WRITER: for every int and every output budget the translated function emits
   the first `budget` bytes of enc7 v and returns OK exactly when all of them were accepted. *)
Theorem C16_source_reader : forall s B, Forall byte s ->
  exists f0, forall f, (f0 <= f)%nat ->
  match read_7bit s with
  | Ok (v, s') => exists fin, call_io f prog_sbdf_read_7bitpacked_int32 [VNull; VNull] s B = OReturn (VInt SBDF_OK) fin /\
                              lookup "*v" (vars fin) = Some (VInt v) /\ inb fin = s' /\ outb fin = []
  | Err e => exists fin, call_io f prog_sbdf_read_7bitpacked_int32 [VNull; VNull] s B = OReturn (VInt e) fin
  end.
Proof. exact read7_correct. Qed.
Print Assumptions C16_source_reader.

Theorem C16_source_writer : forall v B, int_min <= v <= int_max -> 0 <= B ->
  exists f0, forall f, (f0 <= f)%nat -> exists fin,
    call_io f prog_sbdf_write_7bitpacked_int32 [VNull; VInt v] [] B = OReturn (VInt (if zlen (enc7 v) <=? B then SBDF_OK else SBDF_ERROR_IO)) fin /\
    outb fin = ztake B (enc7 v).
Proof. exact write7_correct. Qed.
Print Assumptions C16_source_writer.

Example C16_source_runs :
  (match call_io 100 prog_sbdf_write_7bitpacked_int32 [VNull; VInt 300] [] 10 with OReturn v st => Some (v, outb st) | _ => None end) = Some (VInt 0, [172; 2]) /\
  (match call_io 100 prog_sbdf_read_7bitpacked_int32 [VNull; VNull] [172; 2; 9] 0 with OReturn v st => Some (v, lookup "*v" (vars st), inb st) | _ => None end)
    = Some (VInt 0, Some (VInt 300), [9]) /\
  (match call_io 100 prog_sbdf_read_7bitpacked_int32 [VNull; VNull] [255; 255; 255; 255; 255; 9] 0 with OReturn v _ => Some v | _ => None end) = Some (VInt SBDF_ERROR_INVALID_SIZE).
Proof. repeat split; vm_compute; reflexivity. Qed.

(* 32-bit integers from the source (default, little-endian configuration): sbdf_read_int32 and
   sbdf_write_int32 of src/internals.c, translated with their call of sbdf_swap (whose body is empty
   in this configuration, C17_source_swap_default).  The reader equals the model's read_int32 on
   every byte stream; the writer has the first `budget` bytes of le32 v accepted, OK iff all four. *)
Theorem C16_source_int32_reader : forall s B, Forall byte s ->
  exists f0, forall f, (f0 <= f)%nat ->
  match read_int32 false s with
  | Ok (x, s') => exists fin, callE prog_env f prog_sbdf_read_int32 [tok; tok] s B = OReturn (VInt SBDF_OK) fin /\
                              lookup "*v" (vars fin) = Some (VInt x) /\ inb fin = s' /\ outb fin = []
  | Err st => exists fin, callE prog_env f prog_sbdf_read_int32 [tok; tok] s B = OReturn (VInt st) fin /\ outb fin = []
  end.
Proof. exact read_int32_source. Qed.
Print Assumptions C16_source_int32_reader.

Theorem C16_source_int32_writer : forall v B, int_min <= v <= int_max -> 0 <= B ->
  exists f0, forall f, (f0 <= f)%nat -> exists fin,
    callE prog_env f prog_sbdf_write_int32 [tok; VInt v] [] B = OReturn (VInt (if 4 <=? B then SBDF_OK else SBDF_ERROR_IO)) fin /\
    outb fin = ztake B (le32 v).
Proof. exact write_int32_source. Qed.
Print Assumptions C16_source_int32_writer.
