(* C14 — allocation failure is reported, not crashed on.
   The ledger model (Mem.v) carries an allocation counter and a failure oracle: `mfail s = Some k`
   makes attempt number k return NULL.  The theorems below hold for EVERY state s, hence for every
   k (and for no failure at all): the call never faults; when it fails it returns a non-OK status
   and a null pointer and the heap is exactly as before (nothing leaked, nothing for the caller
   to free, objects built before untouched); when it succeeds everything outside the new blocks is
   untouched.  Covered functions: the object constructors / copy / reader skeleton, the plain
   value-array constructor and extraction.  The other API calls are covered by the fault
   enumeration (every k of every scenario on the sanitizer build) only.
   Statements only; proofs in MemFacts.v. *)
From Sbdf Require Import Imp ImpCall Gen.Prog ImpBase ImpFactsHeap ImpFactsHeap2 ImpFactsRead.
From Sbdf Require Import Base Prim.
From Coq Require Import List.
From Sbdf Require Import Mem MemFacts.

Theorem C14_object_constructors : forall ty count s, fresh_inv s ->
  match obj_build ty count s with
  | Flt _ => False
  | Val (st, p) s' =>
    fresh_inv s' /\ mfail s' = mfail s /\
    ((st = SBDF_OK /\ exists t blocks, p = Some t /\ obj_at s' t ty count blocks /\ all_fresh s blocks /\
        (forall x, ~ In x blocks -> find x s' = find x s)) \/
     (st <> SBDF_OK /\ p = None /\ same_heap s s'))
  end.
Proof. exact obj_build_spec. Qed.
Print Assumptions C14_object_constructors.

Theorem C14_object_copy : forall s src ty count blocks, fresh_inv s -> obj_at s src ty count blocks ->
  match obj_copy_m (Some src) s with
  | Flt _ => False
  | Val (st, p) s' =>
    fresh_inv s' /\
    ((st = SBDF_OK /\ exists t cblocks, p = Some t /\ obj_at s' t ty count cblocks /\ all_fresh s cblocks /\
        (forall b, In b blocks -> ~ In b cblocks) /\ obj_at s' src ty count blocks /\
        (forall x, ~ In x cblocks -> find x s' = find x s)) \/
     (st <> SBDF_OK /\ p = None /\ same_heap s s'))
  end.
Proof. exact obj_copy_spec. Qed.
Print Assumptions C14_object_copy.

Theorem C14_value_array_create : forall s src ty count blocks, fresh_inv s -> obj_at s src ty count blocks ->
  match va_create_plain_m (Some src) s with
  | Flt _ => False
  | Val (st, p) s' =>
    fresh_inv s' /\
    ((st = SBDF_OK /\ exists h vblocks, p = Some h /\ va_at s' h ty count vblocks /\ all_fresh s vblocks /\
        (forall b, In b blocks -> ~ In b vblocks) /\ obj_at s' src ty count blocks /\
        (forall x, ~ In x vblocks -> find x s' = find x s)) \/
     (st <> SBDF_OK /\ p = None /\ same_heap s s'))
  end.
Proof. exact va_create_plain_spec. Qed.
Print Assumptions C14_value_array_create.

Theorem C14_value_extraction : forall s h ty count blocks, fresh_inv s -> va_at s h ty count blocks ->
  match va_get_values_plain_m (Some h) s with
  | Flt _ => False
  | Val (st, p) s' =>
    fresh_inv s' /\
    ((st = SBDF_OK /\ exists t cb, p = Some t /\ obj_at s' t ty count cb /\ all_fresh s cb /\
        (forall b, In b blocks -> ~ In b cb) /\ va_at s' h ty count blocks) \/
     (st <> SBDF_OK /\ p = None /\ same_heap s s'))
  end.
Proof. exact va_get_values_plain_spec. Qed.
Print Assumptions C14_value_extraction.

(* the failing attempt really is reached: with the oracle set to the first attempt the call fails *)
Example C14_first_attempt_fails : forall ty count, exists s', obj_build ty count (mst0 (Some 0%nat)) = Val (SBDF_ERROR_OUT_OF_MEMORY, None) s'.
Proof. intros. eexists. reflexivity. Qed.

Example C14_third_attempt_fails_in_a_string_object :
  match obj_build SBDF_STRINGTYPEID 3 (mst0 (Some 2%nat)) with
  | Val (st, p) s' => st = SBDF_ERROR_OUT_OF_MEMORY /\ p = None /\ PM.cardinal (mlive s') = 0%nat
  | Flt _ => False
  end.
Proof. vm_compute. auto. Qed.

(* sbdf_va_create_bit (the bit-packed encoding): handle, scratch buffer, byte-array object, data block,
   bytes - five allocation attempts.  For EVERY oracle: never a fault; on success only fresh blocks
   (the scratch buffer is gone again) and nothing else touched; on any failure a non-OK status, a
   null handle and the heap exactly as before. *)
Theorem C14_bit_array_create : forall s src ty count blocks, fresh_inv s -> obj_at s src ty count blocks ->
  match va_create_bit_m (Some src) s with
  | Flt _ => False
  | Val (st, p) s' =>
    fresh_inv s' /\
    ((st = SBDF_OK /\ exists h vblocks, p = Some h /\ va_at s' h SBDF_BINARYTYPEID 1 vblocks /\ all_fresh s vblocks /\
        (forall x, ~ In x vblocks -> find x s' = find x s)) \/
     (st <> SBDF_OK /\ p = None /\ same_heap s s'))
  end.
Proof. exact va_create_bit_spec. Qed.
Print Assumptions C14_bit_array_create.

(* ---- the string / byte-array constructors and copies from the source (translated on every run):
   when the allocation fails, NULL is returned and the memory is exactly as before - no partial
   object, nothing written through the failed pointer.  (The success branch is C15_source_*.) *)
Theorem C14_source_alloc_failure : forall sx hc,
  (forall q n m, 0 <= n -> n + 1 <= int_max -> 0 <= q -> q + n <= zlen m -> fails_clean sx hc prog_sbdf_str_create_len [VPtr RIn q; VInt n] m) /\
  (forall pre bytes post, Forall (fun b => b <> 0) bytes -> zlen bytes + 1 <= int_max -> fails_clean sx hc prog_sbdf_str_create [VPtr RIn (zlen pre)] (pre ++ bytes ++ 0 :: post)) /\
  (forall pre bytes post, zlen bytes + 1 <= int_max -> fails_clean sx hc prog_sbdf_str_copy [VPtr RIn (zlen pre + 4)] (str_mem pre bytes post)) /\
  (forall q n m, 0 <= n -> n <= int_max -> 0 <= q -> q + n <= zlen m -> fails_clean sx hc prog_sbdf_ba_create [VPtr RIn q; VInt n] m) /\
  (forall pre payload post, zlen payload <= int_max -> fails_clean sx hc prog_sbdf_copy_array [VPtr RIn (zlen pre + 4)] (pre ++ le32 (zlen payload) ++ payload ++ post)).
Proof. exact alloc_failure_source. Qed.
Print Assumptions C14_source_alloc_failure.

(* sbdf_read_string from the source (bulk fread into a fresh block): for EVERY byte stream, memory and
   oracle the call returns a status - never a fault; with a failing allocation (k = 0) it reports
   out-of-memory (or the error the header already deserved) and in every failing case the caller's
   memory m is intact (a prefix of the final memory; the block that was obtained is handed to free). *)
Theorem C14_source_read_string : forall hc sx m k, Forall byte sx ->
  exists f0, forall f, (f0 <= f)%nat -> exists fin st,
    callC prog_env f prog_sbdf_read_string [tok; tok] m k sx hc = OReturn (VInt st) fin /\
    match read_string false None sx with
    | Ok (bytes, rest) =>
        if k =? 0 then st = SBDF_ERROR_OUT_OF_MEMORY /\ inb fin = m
        else st = SBDF_OK /\ inb fin = str_mem m bytes [] /\ Imp.lookup "*s"%string (vars fin) = Some (VPtr RIn (zlen m + 4)) /\
             Imp.lookup strm_var (vars fin) = Some (VBytes rest)
    | Err e => (st = e \/ (k = 0 /\ st = SBDF_ERROR_OUT_OF_MEMORY)) /\ exists blk, inb fin = m ++ blk
    end.
Proof. exact read_string_source. Qed.
Print Assumptions C14_source_read_string.

(* the reader's core under every allocation schedule: sbdf_read_objects allocates the header, then the data block (fixed-size
   elements) or the pointer array and one block per element (strings, binaries).  The oracle k lets attempt number k fail, for
   every k: the status is then OUT_OF_MEMORY (fixed_status / arr_spec say so), the output argument is null, every block of
   the cell heap that the call allocated is released again, and the caller's memory is a prefix of the memory.  (Statements
   for every k, every stream and every count; C05 cites the same theorems for the hostile-input side.) *)
From Sbdf Require Import ImpFactsCells ImpFactsReadObj ImpFactsReadArr.
Theorem C14_source_read_objects_fixed : forall rf rp fo po k sx m h v cnt pk, (int_min <= cnt <= int_max)%Z -> is_arr v = false ->
  exists f0, forall f, (f0 <= f)%nat -> exists fin,
    callC prog_env f prog_sbdf_read_objects [VPtr rf fo; VInt v; VInt cnt; VPtr rp po; VInt pk] m k sx h = OReturn (VInt (fixed_status k sx v cnt)) fin /\
    (fixed_status k sx v cnt = SBDF_OK ->
       Imp.lookup "*object" (vars fin) = Some (VCell (List.length h) 0) /\
       Imp.lookup cells_var (vars fin) = Some (VHeap (h ++ [Some [VInt v; VInt cnt; VPtr RIn (zlen m)]])) /\
       inb fin = m ++ firstn (Z.to_nat (usize v * cnt)) sx /\
       Imp.lookup strm_var (vars fin) = Some (VBytes (skipn (Z.to_nat (usize v * cnt)) sx))) /\
    (fixed_status k sx v cnt <> SBDF_OK ->
       Imp.lookup "*object" (vars fin) = Some VNull /\
       (Imp.lookup cells_var (vars fin) = Some (VHeap h) \/ Imp.lookup cells_var (vars fin) = Some (VHeap (h ++ [None]))) /\
       exists m', inb fin = m ++ m').
Proof. exact read_objects_fixed_source. Qed.
Print Assumptions C14_source_read_objects_fixed.

Example C14_fixed_status_values : forall sx, map (fun k => fixed_status k sx SBDF_INTTYPEID 3) [0; 1]%Z = [SBDF_ERROR_OUT_OF_MEMORY; SBDF_ERROR_OUT_OF_MEMORY].
Proof. intros sx. reflexivity. Qed.

Theorem C14_source_read_objects_arrays : forall rf rp fo po k sx m h v cnt pk, Forall byte sx -> (int_min <= cnt <= int_max)%Z -> is_arr v = true ->
  exists f0, forall f, (f0 <= f)%nat ->
  match arr_spec k sx m v cnt pk with
  | EOk qs k' s' m' => exists fin,
      callC prog_env f prog_sbdf_read_objects [VPtr rf fo; VInt v; VInt cnt; VPtr rp po; VInt pk] m k sx h = OReturn (VInt SBDF_OK) fin /\
      Imp.lookup "*object" (vars fin) = Some (VCell (List.length h) 0) /\ Imp.lookup cells_var (vars fin) = Some (VHeap (arr_heap h v cnt qs [])) /\ zlen qs = cnt /\
      inb fin = m' /\ Imp.lookup strm_var (vars fin) = Some (VBytes s') /\ Imp.lookup fail_var (vars fin) = Some (VInt k')
  | EErr st => exists fin,
      callC prog_env f prog_sbdf_read_objects [VPtr rf fo; VInt v; VInt cnt; VPtr rp po; VInt pk] m k sx h = OReturn (VInt st) fin /\
      Imp.lookup "*object" (vars fin) = Some VNull /\
      (Imp.lookup cells_var (vars fin) = Some (VHeap h) \/ Imp.lookup cells_var (vars fin) = Some (VHeap (h ++ [None])) \/ Imp.lookup cells_var (vars fin) = Some (VHeap (h ++ [None; None]))) /\
      prefix_of m (inb fin)
  end.
Proof. exact read_objects_arr_source. Qed.
Print Assumptions C14_source_read_objects_arrays.

(* the oracle inside the description: the k-th block of an array of two strings *)
Example C14_arr_spec_failures : map (fun k => match arr_spec k [0; 0; 0; 0; 1; 97; 1; 98]%Z [] SBDF_STRINGTYPEID 2 1 with EErr st => st | EOk _ _ _ _ => 0%Z end) [0; 1; 2; 3; 4]%Z
                                = [SBDF_ERROR_OUT_OF_MEMORY; SBDF_ERROR_OUT_OF_MEMORY; SBDF_ERROR_OUT_OF_MEMORY; SBDF_ERROR_OUT_OF_MEMORY; 0]%Z.
Proof. vm_compute. reflexivity. Qed.

(* the third allocation of a sbdf_va_read fails (handle, object header, data block): run on the translated program *)
Example C14_source_va_read_third_allocation_fails :
  match callC prog_env 2000 prog_sbdf_va_read [tok; tok] [] 2 [1;2; 2;0;0;0; 5;0;0;0; 7;0;0;0; 99] [] with
  | OReturn v s => (v, Imp.lookup "*handle" (vars s), Imp.lookup cells_var (vars s), inb s) = (VInt SBDF_ERROR_OUT_OF_MEMORY, Some VNull, Some (VHeap [None; None]), [])
  | _ => False
  end.
Proof. vm_compute. reflexivity. Qed.

(* sbdf_va_read on the encoding of a well-formed plain or run-length value array, followed by anything, under EVERY
   allocation schedule: the call returns; either it fails with a negative status, the handle null and every block it
   allocated released again - or it succeeds, and then the stream stands exactly behind the array (tail is what is left)
   and the handle points at the new value array: an allocation failure never shifts where a successful read ends. *)
From Sbdf Require Import ImpFactsReadVa Va VaFacts Obj.
Theorem C14_source_va_read_any_schedule : forall rf rp fo po k m h v tail, wf_va v -> byte_ok (vty v) -> venc v <> SBDF_BITARRAYENCODINGTYPEID ->
  Forall byte (enc_va false v ++ tail) ->
  exists f0, forall f, (f0 <= f)%nat -> exists st fin,
    callC prog_env f prog_sbdf_va_read [VPtr rf fo; VPtr rp po] m k (enc_va false v ++ tail) h = OReturn (VInt st) fin /\
    ((st = SBDF_OK /\ Imp.lookup strm_var (vars fin) = Some (VBytes tail) /\ Imp.lookup "*handle" (vars fin) = Some (VCell (List.length h) 0)) \/
     (st < 0 /\ Imp.lookup "*handle" (vars fin) = Some VNull /\ exists j, Imp.lookup cells_var (vars fin) = Some (VHeap (h ++ nones j))))%Z.
Proof.
  intros rf rp fo po k m h v tail W B Hne Hb.
  assert (H3 : forall t s2, enc_va false v ++ tail <> 3%Z :: t :: s2).
  { intros t s2 E. unfold enc_va in E. cbn [app] in E. injection E as E _. destruct W; cbn [venc] in *; try discriminate E. apply Hne. reflexivity. }
  destruct (va_read_source rf rp fo po k (enc_va false v ++ tail) m h Hb H3) as (f0 & F). exists f0. intros f Hf.
  destruct (F f Hf) as (st & fin & C & _ & _ & Out & PP). exists st, fin. split; [exact C|].
  destruct Out as [(E & Hh & _)|(Hn & Hh & Hj)]; [|right; split; [exact Hn|split; [exact Hh|exact Hj]]].
  left. split; [exact E|]. split; [|exact Hh]. specialize (PP E). destruct (rspec_va false v W B) as [EV _]. rewrite (EV tail) in PP. exact PP.
Qed.
Print Assumptions C14_source_va_read_any_schedule.

(* the same one level up: sbdf_cs_read on the encoding of a well-formed column slice WITHOUT properties (plain or run-length
   values), followed by anything, under EVERY allocation schedule: a negative status with the out-cell untouched and every
   block the call allocated released again by its own sbdf_cs_destroy - or OK with the stream exactly behind the slice. *)
From Sbdf Require Import ImpFactsCsRead Slice SliceFacts PrimFacts.
Local Open Scope Z_scope.
Theorem C14_source_cs_read_any_schedule : forall rf rp fo po k m h c tail, wf_cs c -> csprops c = [] -> venc (csvals c) <> SBDF_BITARRAYENCODINGTYPEID ->
  Forall byte (enc_cs false c ++ tail) ->
  exists f0, forall f, (f0 <= f)%nat -> exists st fin,
    callC prog_env f prog_sbdf_cs_read [VPtr rf fo; VPtr rp po] m k (enc_cs false c ++ tail) h = OReturn (VInt st) fin /\
    ((st = SBDF_OK /\ Imp.lookup strm_var (vars fin) = Some (VBytes tail) /\ Imp.lookup "*out" (vars fin) = Some (VCell (List.length h) 0)) \/
     (st < 0 /\ Imp.lookup "*out" (vars fin) = Some VUndef /\ exists j, Imp.lookup cells_var (vars fin) = Some (VHeap (h ++ nones j)))) /\
    (k < 0 -> st = SBDF_OK).
Proof.
  intros rf rp fo po k m h c tail (Wv & Bv & _ & _) Hp Hne Hb.
  assert (ESX : enc_cs false c ++ tail = [223; 91; SBDF_COLUMNSLICE_SECTIONID] ++ (enc_va false (csvals c) ++ enc32 false 0 ++ tail)).
  { unfold enc_cs. rewrite Hp. cbn [map List.concat zlen List.length Z.of_nat]. rewrite app_nil_r, <- !app_assoc. reflexivity. }
  rewrite ESX in *.
  destruct (rspec_sec_expect SBDF_COLUMNSLICE_SECTIONID) as [E0 _].
  destruct (rspec_va false (csvals c) Wv Bv) as [EV _].
  destruct (rspec_int32 false 0 ltac:(unfold i32_range; lia)) as [E32 _].
  assert (NB : forall s1, sec_expect SBDF_COLUMNSLICE_SECTIONID ([223; 91; SBDF_COLUMNSLICE_SECTIONID] ++ enc_va false (csvals c) ++ enc32 false 0 ++ tail) = Ok (tt, s1) -> forall t s2, s1 <> 3 :: t :: s2).
  { intros s1 E. rewrite E0 in E. assert (Y : s1 = enc_va false (csvals c) ++ enc32 false 0 ++ tail) by congruence. subst s1. intros t s2 X. unfold enc_va in X. cbn [app] in X. injection X as X _. destruct Wv; cbn [venc] in *; try discriminate X. apply Hne. reflexivity. }
  assert (CNT : forall s1 va s2 v s3, sec_expect SBDF_COLUMNSLICE_SECTIONID ([223; 91; SBDF_COLUMNSLICE_SECTIONID] ++ enc_va false (csvals c) ++ enc32 false 0 ++ tail) = Ok (tt, s1) ->
                 Va.va_read false None s1 = Ok (va, s2) -> read_int32 false s2 = Ok (v, s3) -> v <= 0).
  { intros s1 va s2 v s3 E A R. rewrite E0 in E. assert (Y : s1 = enc_va false (csvals c) ++ enc32 false 0 ++ tail) by congruence. subst s1. rewrite (EV (enc32 false 0 ++ tail)) in A. assert (Y : s2 = enc32 false 0 ++ tail) by congruence. subst s2. rewrite (E32 tail) in R. assert (v = 0) by congruence. lia. }
  destruct (cs_read_source rf rp fo po k _ m h Hb NB CNT) as (f0 & F). exists f0. intros f Hf.
  destruct (F f Hf) as (st & fin & C & _ & Out & MOK). exists st, fin. split; [exact C|].
  split; [|intros Hk; apply (MOK Hk); exists (enc_va false (csvals c) ++ enc32 false 0 ++ tail), (csvals c), (enc32 false 0 ++ tail), tail;
           split; [apply E0|split; [apply (EV (enc32 false 0 ++ tail))|apply (E32 tail)]]].
  destruct Out as [(E & Ho & (s1 & va & s2 & s3 & A1 & A2 & A3 & A4) & _)|(Hn & Ho & Hj)]; [|right; split; [exact Hn|split; [exact Ho|exact Hj]]].
  left. split; [exact E|]. split; [|exact Ho].
  rewrite E0 in A1. assert (Y : s1 = enc_va false (csvals c) ++ enc32 false 0 ++ tail) by congruence. subst s1. rewrite (EV (enc32 false 0 ++ tail)) in A2. assert (Y : s2 = enc32 false 0 ++ tail) by congruence. subst s2. rewrite (E32 tail) in A3. assert (Y : s3 = tail) by congruence. subst s3. exact A4.
Qed.
Print Assumptions C14_source_cs_read_any_schedule.

(* ... and with properties: sbdf_cs_read on the encoding of ANY well-formed column slice (any number of properties) whose value
   arrays are plain or run-length, followed by anything, under EVERY allocation schedule: a negative status with the out-cell
   untouched and everything the call allocated released by its own sbdf_cs_destroy - or OK with the stream exactly behind the
   slice and a result that one sbdf_cs_destroy releases completely. *)
From Sbdf Require Import ImpFactsCsReadProps BaseFacts ImpFactsTsRead.
Theorem C14_source_cs_read_with_properties_any_schedule : forall rf rp fo po k m h c tail, wf_cs c -> venc (csvals c) <> SBDF_BITARRAYENCODINGTYPEID ->
  (forall p, In p (csprops c) -> venc (snd p) <> SBDF_BITARRAYENCODINGTYPEID) ->
  Forall byte (enc_cs false c ++ tail) ->
  exists f0, forall f, (f0 <= f)%nat -> exists st fin,
    callC prog_env f prog_sbdf_cs_read [VPtr rf fo; VPtr rp po] m k (enc_cs false c ++ tail) h = OReturn (VInt st) fin /\
    ((st = SBDF_OK /\ Imp.lookup strm_var (vars fin) = Some (VBytes tail) /\ Imp.lookup "*out" (vars fin) = Some (VCell (List.length h) 0) /\
        exists hnew, Imp.lookup cells_var (vars fin) = Some (VHeap (h ++ hnew)) /\
          forall k' s', exists f1, forall g, (f1 <= g)%nat -> exists fin2,
            callC prog_env g prog_sbdf_cs_destroy [VCell (List.length h) 0] (inb fin) k' s' (h ++ hnew) = OReturn (VInt 0) fin2 /\
            Imp.lookup cells_var (vars fin2) = Some (VHeap (h ++ nones (List.length hnew)))) \/
     (st < 0 /\ Imp.lookup "*out" (vars fin) = Some VUndef /\ exists j, Imp.lookup cells_var (vars fin) = Some (VHeap (h ++ nones j)))).
Proof.
  intros rf rp fo po k m h c tail (Wv & Bv & Hn & Wp) Hne Hnp Hb.
  pose proof (zlen_nonneg (csprops c)) as N0.
  assert (ESX : enc_cs false c ++ tail = [223; 91; SBDF_COLUMNSLICE_SECTIONID] ++ (enc_va false (csvals c) ++ enc32 false (zlen (csprops c)) ++ List.concat (map (enc_prop false) (csprops c)) ++ tail)).
  { unfold enc_cs. rewrite <- !app_assoc. reflexivity. }
  rewrite ESX in *.
  set (PT := List.concat (map (enc_prop false) (csprops c)) ++ tail) in *.
  destruct (rspec_sec_expect SBDF_COLUMNSLICE_SECTIONID) as [E0 _].
  destruct (rspec_va false (csvals c) Wv Bv) as [EV _].
  destruct (rspec_int32 false (zlen (csprops c)) ltac:(unfold i32_range; lia)) as [E32 _].
  destruct (props_of_encoding (csprops c) tail (fun p Hp => conj (Wp p Hp) (Hnp p Hp))) as (PE & PN). fold PT in PE, PN.
  assert (Hlen : Z.to_nat (zlen (csprops c)) = List.length (csprops c)) by (unfold zlen; lia).
  assert (NB : forall s1, sec_expect SBDF_COLUMNSLICE_SECTIONID ([223; 91; SBDF_COLUMNSLICE_SECTIONID] ++ enc_va false (csvals c) ++ enc32 false (zlen (csprops c)) ++ PT) = Ok (tt, s1) -> forall t s2, s1 <> 3 :: t :: s2).
  { intros s1 E. rewrite E0 in E. assert (Y : s1 = enc_va false (csvals c) ++ enc32 false (zlen (csprops c)) ++ PT) by congruence. subst s1. intros t s2 X. unfold enc_va in X. cbn [app] in X. injection X as X _. destruct Wv; cbn [venc] in *; try discriminate X. apply Hne. reflexivity. }
  assert (NBP : forall s1 va s2 v s3, sec_expect SBDF_COLUMNSLICE_SECTIONID ([223; 91; SBDF_COLUMNSLICE_SECTIONID] ++ enc_va false (csvals c) ++ enc32 false (zlen (csprops c)) ++ PT) = Ok (tt, s1) ->
                 Va.va_read false None s1 = Ok (va, s2) -> read_int32 false s2 = Ok (v, s3) -> props_nobit (Z.to_nat v) s3).
  { intros s1 va s2 v s3 E A R. rewrite E0 in E. assert (Y : s1 = enc_va false (csvals c) ++ enc32 false (zlen (csprops c)) ++ PT) by congruence. subst s1.
    rewrite (EV (enc32 false (zlen (csprops c)) ++ PT)) in A. assert (Y : s2 = enc32 false (zlen (csprops c)) ++ PT) by congruence. subst s2.
    rewrite (E32 PT) in R. assert (Y : v = zlen (csprops c) /\ s3 = PT) by (split; congruence). destruct Y as (-> & ->). rewrite Hlen. exact PN. }
  destruct (cs_read_full_source rf rp fo po k _ m h Hb NB NBP) as (f0 & F). exists f0. intros f Hf.
  destruct (F f Hf) as (st & fin & C & _ & Out & _). exists st, fin. split; [exact C|].
  destruct Out as [(E & Ho & (s1 & va & s2 & v & s3 & s' & A1 & A2 & A3 & A4 & A5 & A6) & hnew & Hc & _ & D)|(Hng & Ho & Hj)]; [|right; split; [exact Hng|split; [exact Ho|exact Hj]]].
  left. split; [exact E|]. split; [|split; [exact Ho|]].
  - rewrite E0 in A1. assert (Y : s1 = enc_va false (csvals c) ++ enc32 false (zlen (csprops c)) ++ PT) by congruence. subst s1.
    rewrite (EV (enc32 false (zlen (csprops c)) ++ PT)) in A2. assert (Y : s2 = enc32 false (zlen (csprops c)) ++ PT) by congruence. subst s2.
    rewrite (E32 PT) in A3. assert (Y : v = zlen (csprops c) /\ s3 = PT) by (split; congruence). destruct Y as (-> & ->).
    rewrite Hlen, PE in A5. assert (s' = tail) by congruence. subst s'. exact A6.
  - exists hnew. split; [exact Hc|]. intros k' s2'. destruct (D k' s2') as (f1 & F1). exists f1. intros g Hg. destruct (F1 g Hg) as (fin2 & C2 & _ & H2). exists fin2. split; [exact C2|exact H2].
Qed.
Print Assumptions C14_source_cs_read_with_properties_any_schedule.

(* ... and the table-slice level: sbdf_ts_read (all columns) on the encoding of ANY well-formed table slice without bit arrays,
   against a table metadata struct with that many columns, followed by anything, under EVERY allocation schedule: a negative
   status with the out-cell untouched and everything the call allocated released - or OK with the stream exactly behind the
   table slice and a result that one sbdf_ts_destroy releases completely. *)
From Sbdf Require Import ImpFactsTsRead.
Theorem C14_source_ts_read_any_schedule : forall rf rp fo po k m (h : heap) tmb cols tail, wf_ts cols -> (forall c, In c cols -> nobit_cs c) -> zlen cols <= 715827882 ->
  cell_get h tmb 1 = Some (VInt (zlen cols)) -> Forall byte (enc_ts false cols ++ tail) ->
  exists f0, forall f, (f0 <= f)%nat -> exists st fin,
    callC prog_env f prog_sbdf_ts_read [VPtr rf fo; VCell tmb 0; VNull; VPtr rp po] m k (enc_ts false cols ++ tail) h = OReturn (VInt st) fin /\
    ((st = SBDF_OK /\ Imp.lookup strm_var (vars fin) = Some (VBytes tail) /\ Imp.lookup "*out" (vars fin) = Some (VCell (List.length h) 0) /\
        exists hnew, Imp.lookup cells_var (vars fin) = Some (VHeap (h ++ hnew)) /\
          forall k' s', exists f1, forall g, (f1 <= g)%nat -> exists fin2,
            callC prog_env g prog_sbdf_ts_destroy [VCell (List.length h) 0] (inb fin) k' s' (h ++ hnew) = ONormal fin2 /\
            Imp.lookup cells_var (vars fin2) = Some (VHeap (h ++ nones (List.length hnew)))) \/
     (st < 0 /\ Imp.lookup "*out" (vars fin) = Some VUndef /\ exists j, Imp.lookup cells_var (vars fin) = Some (VHeap (h ++ nones j)))).
Proof.
  intros rf rp fo po k m h tmb cols tail (Hn & W) Hnb Hsm Htm Hb.
  pose proof (zlen_nonneg cols) as N0.
  assert (ESX : enc_ts false cols ++ tail = [223; 91; 3] ++ (enc32 false (zlen cols) ++ List.concat (map (enc_cs false) cols) ++ tail)) by (unfold enc_ts; rewrite <- !app_assoc; reflexivity).
  rewrite ESX in *. set (CT := List.concat (map (enc_cs false) cols) ++ tail) in *.
  destruct (rspec_sec_read 3) as [E0 _].
  destruct (rspec_int32 false (zlen cols) ltac:(unfold i32_range; lia)) as [E32 _].
  destruct (cols_of_encoding cols tail (fun c Hc => conj (W c Hc) (Hnb c Hc))) as (CE & CN). fold CT in CE, CN.
  assert (Hlen : Z.to_nat (zlen cols) = List.length cols) by (unfold zlen; lia).
  assert (NBC : forall s1 s2, sec_read ([223; 91; 3] ++ enc32 false (zlen cols) ++ CT) = Ok (3, s1) -> read_int32 false s1 = Ok (zlen cols, s2) -> cols_nobit (Z.to_nat (zlen cols)) s2).
  { intros s1 s2 A R. rewrite E0 in A. assert (Y : s1 = enc32 false (zlen cols) ++ CT) by congruence. subst s1. rewrite (E32 CT) in R. assert (Y : s2 = CT) by congruence. subst s2. rewrite Hlen. exact CN. }
  destruct (ts_read_source rf rp fo po k _ m h tmb (zlen cols) Hb ltac:(lia) Htm NBC) as (f0 & F). exists f0. intros f Hf.
  destruct (F f Hf) as (st & fin & C & _ & _ & Out). exists st, fin. split; [exact C|].
  destruct Out as [(E & Ho & (s1 & s2 & s' & A1 & A2 & A3 & A4) & hnew & Hc & _ & D)|(Hng & Ho & Hj)]; [|right; split; [exact Hng|split; [exact Ho|exact Hj]]].
  left. split; [exact E|]. split; [|split; [exact Ho|]].
  - rewrite E0 in A1. assert (Y : s1 = enc32 false (zlen cols) ++ CT) by congruence. subst s1. rewrite (E32 CT) in A2. assert (Y : s2 = CT) by congruence. subst s2.
    rewrite Hlen, CE in A3. assert (s' = tail) by congruence. subst s'. exact A4.
  - exists hnew. split; [exact Hc|]. intros k' s2'. destruct (D k' s2') as (f1 & F1). exists f1. intros g Hg. destruct (F1 g Hg) as (fin2 & C2 & _ & H2). exists fin2. split; [exact C2|exact H2].
Qed.
Print Assumptions C14_source_ts_read_any_schedule.
