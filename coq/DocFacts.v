(* DocFacts.v — for EVERY byte string the readers return a value or one of the documented status
   codes (C05): no other outcome exists in the model (every function is total), and a failed read
   carries no value (its output is "unset" by construction). *)
From Sbdf Require Import File BaseFacts PrimFacts SevenBit StatusFacts.
From Coq Require Import ZifyBool.

Definition documented (e : Z) : Prop := existsb (Z.eqb e) all_status_macros = true.

Definition errs_in {A} (m : R A) : Prop := forall s e, m s = Err e -> documented e.

Lemma errs_ret {A} (a : A) : errs_in (rret a).
Proof. intros s e H. discriminate. Qed.

Lemma errs_fail {A} e : documented e -> errs_in (@rfail A e).
Proof. intros D s e' H. inversion H. now subst. Qed.

Lemma errs_bind {A B} (m : R A) (f : A -> R B) : errs_in m -> (forall a, errs_in (f a)) -> errs_in (rd_bind m f).
Proof.
  intros Hm Hf s e H. unfold rd_bind in H. destruct (m s) as [[a s']|e'] eqn:E.
  - eapply Hf. exact H.
  - inversion H. subst. eapply Hm. exact E.
Qed.

Lemma doc_io : documented SBDF_ERROR_IO. Proof. reflexivity. Qed.
Lemma doc_oom : documented SBDF_ERROR_OUT_OF_MEMORY. Proof. reflexivity. Qed.
Lemma doc_size : documented SBDF_ERROR_INVALID_SIZE. Proof. reflexivity. Qed.
Lemma doc_typeid : documented SBDF_ERROR_UNKNOWN_TYPEID. Proof. reflexivity. Qed.

Ltac errs :=
  repeat first
    [ solve [auto with errs]
    | apply errs_ret
    | apply errs_fail; reflexivity
    | apply errs_bind; [|intros ?]
    | match goal with
      | |- errs_in (if ?c then _ else _) => destruct c
      | |- errs_in (match ?x with _ => _ end) => destruct x
      | |- errs_in (fun _ => match ?x with _ => _ end) => destruct x
      end ].

Section Doc.
Variable swp : bool.
Variable cap : option Z.

Lemma errs_fread n : errs_in (fread_bytes n).
Proof. intros s e H. unfold fread_bytes in H. destruct (n <? 0); [inversion H; apply doc_io|]. destruct (take_z s n) as [[a t]|]; [discriminate|inversion H; apply doc_io]. Qed.

Lemma errs_fseek k : errs_in (fseek_cur k).
Proof. intros s e H. unfold fseek_cur in H. destruct (k <? 0); [inversion H; apply doc_io|discriminate]. Qed.

Lemma errs_int8 : errs_in read_int8.
Proof. intros s e H. destruct s; [inversion H; apply doc_io|discriminate]. Qed.

Lemma errs_ralloc n : errs_in (ralloc cap n).
Proof. intros s e H. unfold ralloc in H. destruct (alloc_ok cap n); [discriminate|inversion H; apply doc_oom]. Qed.

Hint Resolve errs_fread errs_fseek errs_int8 errs_ralloc : errs.

Lemma errs_int32 : errs_in (read_int32 swp).
Proof. unfold read_int32. errs. Qed.
Hint Resolve errs_int32 : errs.

Lemma errs_7bit : errs_in read_7bit.
Proof. intros s e H. unfold read_7bit in H. apply read7_loop_statuses in H. destruct H as [-> | ->]; reflexivity. Qed.
Hint Resolve errs_7bit : errs.

Lemma errs_rrep {A} (one : R A) : errs_in one -> forall fuel n, errs_in (rrep fuel n one).
Proof.
  intros H1 fuel. induction fuel as [|b fuel IH]; intros n s e H; cbn [rrep] in H.
  - destruct (n <=? 0); [discriminate|]. destruct (one s) as [[a s']|e'] eqn:E; [inversion H; apply doc_io|].
    inversion H. subst. eapply H1. exact E.
  - destruct (n <=? 0); [discriminate|]. destruct (one s) as [[a s']|e'] eqn:E.
    + destruct (rrep fuel (n - 1) one s') as [[l s'']|e''] eqn:E2; [discriminate|]. inversion H. subst. eapply IH. exact E2.
    + inversion H. subst. eapply H1. exact E.
Qed.

Lemma errs_rrepeat {A} (one : R A) n : errs_in one -> errs_in (rrepeat n one).
Proof. intros H s e. unfold rrepeat. now apply errs_rrep. Qed.

Lemma errs_string : errs_in (read_string swp cap).
Proof. unfold read_string. errs. Qed.
Lemma errs_skip_string : errs_in (skip_string swp).
Proof. unfold skip_string. errs. Qed.
Lemma errs_sec_read : errs_in sec_read.
Proof. unfold sec_read. errs. Qed.
Hint Resolve errs_string errs_skip_string errs_sec_read : errs.
Lemma errs_sec_expect id : errs_in (sec_expect id).
Proof. unfold sec_expect. errs. Qed.
Hint Resolve errs_sec_expect : errs.
Lemma errs_fh : errs_in fh_read.
Proof. unfold fh_read. errs. Qed.

(* objects *)
Lemma errs_usize {A} ty : usize ty <? 0 = true -> errs_in (@rfail A (usize ty)).
Proof. intros H. apply errs_fail. rewrite usize_unknown by lia. reflexivity. Qed.

Lemma errs_elem ty packed : errs_in (read_elem swp cap ty packed).
Proof. unfold read_elem. errs. Qed.
Hint Resolve errs_elem : errs.

Lemma errs_read_objects ty count packed : errs_in (read_objects swp cap ty count packed).
Proof.
  unfold read_objects. destruct (count <? 0); [errs|]. destruct (is_arr ty).
  - errs; try (apply errs_rrepeat; errs).
  - destruct (usize ty <? 0) eqn:C; [now apply errs_usize|]. errs.
Qed.
Hint Resolve errs_read_objects : errs.

Lemma errs_obj_read_arr ty : errs_in (obj_read_arr swp cap ty).
Proof. unfold obj_read_arr. errs. Qed.
Lemma errs_obj_read ty : errs_in (obj_read swp cap ty).
Proof. unfold obj_read. errs. Qed.
Hint Resolve errs_obj_read_arr errs_obj_read : errs.

Lemma errs_skip_one : errs_in (skip_one_unpacked swp).
Proof. unfold skip_one_unpacked. errs. Qed.
Hint Resolve errs_skip_one : errs.

Lemma errs_skip_objects ty c packed : errs_in (skip_objects swp ty c packed).
Proof.
  unfold skip_objects. destruct (c <? 0); [errs|]. destruct (is_arr ty).
  - destruct packed; errs; try (apply errs_rrepeat; errs).
  - destruct (usize ty <? 0) eqn:C; [now apply errs_usize|]. errs.
Qed.
Hint Resolve errs_skip_objects : errs.
Lemma errs_obj_skip_arr ty : errs_in (obj_skip_arr swp ty).
Proof. unfold obj_skip_arr. errs. Qed.
Hint Resolve errs_obj_skip_arr : errs.

(* value arrays, column slices, table slices *)
Lemma errs_va_read : errs_in (va_read swp cap).
Proof. unfold va_read, vt_read. errs. Qed.
Lemma errs_va_skip : errs_in (va_skip swp).
Proof. unfold va_skip, vt_read. errs. Qed.
Hint Resolve errs_va_read errs_va_skip : errs.

Lemma errs_cs_read : errs_in (cs_read swp cap).
Proof. unfold cs_read. errs; try (apply errs_rrepeat; unfold read_prop; errs). Qed.
Lemma errs_cs_skip : errs_in (cs_skip swp).
Proof. unfold cs_skip. errs; try (apply errs_rrepeat; unfold skip_prop; errs). Qed.
Hint Resolve errs_cs_read errs_cs_skip : errs.

Lemma errs_read_cols n : forall subset, errs_in (read_cols swp cap n subset).
Proof. induction n as [|n IH]; intros subset; cbn [read_cols]; errs; try apply IH. Qed.
Hint Resolve errs_read_cols : errs.

Theorem errs_ts_read ncols subset : errs_in (ts_read swp cap ncols subset).
Proof. unfold ts_read. errs. Qed.
Theorem errs_ts_skip ncols : errs_in (ts_skip swp cap ncols).
Proof. unfold ts_skip. errs; try apply errs_ts_read. Qed.

(* table metadata *)
Lemma md_add_documented name v d m e : md_add name v d m = Err e -> documented e.
Proof.
  unfold md_add. intros H.
  destruct (negb (mmod m)); [inversion H; reflexivity|].
  destruct (match d with Some d0 => negb (oty v - oty d0 =? 0) | None => false end); [inversion H; reflexivity|].
  destruct (negb (ocount v =? 1) || match d with Some d0 => negb (ocount d0 =? 1) | None => false end); [inversion H; reflexivity|].
  destruct (md_find name m); [inversion H; reflexivity|].
  assert (C : forall o e', obj_copy o = Err e' -> documented e').
  { intros o e' Hc. unfold obj_copy in Hc. destruct (is_arr (oty o)); [discriminate|].
    destruct (usize (oty o) <? 0) eqn:C1; [inversion Hc; rewrite usize_unknown by lia; reflexivity|].
    destruct (usize (oty o) =? 0); [inversion Hc; reflexivity|discriminate]. }
  destruct (obj_copy v) as [v'|e1] eqn:E1; cbn [rbind] in H; [|inversion H; subst; eapply C; exact E1].
  destruct d as [d0|]; cbn [rbind] in H; [|discriminate].
  destruct (obj_copy d0) as [d'|e2] eqn:E2; cbn [rbind] in H; [discriminate|inversion H; subst; eapply C; exact E2].
Qed.

Lemma errs_mdvalues vt : errs_in (read_metadata_values swp cap vt).
Proof. unfold read_metadata_values. errs. Qed.
Hint Resolve errs_mdvalues : errs.
Lemma errs_table_entry : errs_in (read_table_entry swp cap).
Proof. unfold read_table_entry, vt_read. errs. Qed.
Lemma errs_name_def : errs_in (read_name_def swp cap).
Proof. unfold read_name_def, vt_read. errs. Qed.

Lemma errs_read_column defs : forall m, errs_in (read_column swp cap defs m).
Proof.
  induction defs as [|[[name vt] d] defs IH]; intros m; cbn [read_column]; [errs|].
  apply errs_bind; [errs|]. intros v. destruct (v =? 0); [apply IH|].
  apply errs_bind; [errs|]. intros value. destruct (md_add name value d m) as [m'|e] eqn:E; [apply IH|].
  apply errs_fail. eapply md_add_documented. exact E.
Qed.

Lemma errs_read_columns n defs : errs_in (read_columns swp cap n defs).
Proof. induction n as [|n IH]; cbn [read_columns]; errs; try apply errs_read_column; try apply IH. Qed.

Lemma errs_map_err {A} e (m : R A) : documented e -> errs_in (map_err e m).
Proof. intros D s e' H. unfold map_err in H. destruct (m s) as [[a s']|e0]; [discriminate|]. inversion H. now subst. Qed.

Theorem errs_tm_read : errs_in (tm_read swp cap).
Proof.
  unfold tm_read. errs;
    try (apply errs_rrepeat; first [apply errs_table_entry | apply errs_name_def]);
    try (apply errs_map_err; reflexivity);
    try apply errs_read_columns.
Qed.

(* the session: whatever the bytes, the status that ends it is documented *)
Theorem read_slices_status_documented : forall fuel ncols subset s,
  let '(_, st, _) := read_slices swp cap fuel ncols subset s in documented st.
Proof.
  induction fuel as [|b fuel IH]; intros ncols subset s; cbn [read_slices].
  - destruct (ts_read swp cap ncols subset s) as [[t s']|e] eqn:E; [reflexivity|]. eapply errs_ts_read. exact E.
  - destruct (ts_read swp cap ncols subset s) as [[t s']|e] eqn:E; [|eapply errs_ts_read; exact E].
    specialize (IH ncols subset s'). destruct (read_slices swp cap fuel ncols subset s') as [[l st] s'']. exact IH.
Qed.

Theorem read_table_status_documented : forall subset s,
  let '(_, st, _) := read_table swp cap subset s in documented st.
Proof.
  intros subset s. unfold read_table.
  destruct (fh_read s) as [[v s1]|e] eqn:E1; [|eapply errs_fh; exact E1].
  destruct (tm_read swp cap s1) as [[m s2]|e] eqn:E2; [|eapply errs_tm_read; exact E2].
  pose proof (read_slices_status_documented s2 (zlen (tcols m)) subset s2) as H.
  destruct (read_slices swp cap s2 (zlen (tcols m)) subset s2) as [[l st] s3]. exact H.
Qed.

End Doc.
