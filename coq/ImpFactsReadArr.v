(* ImpFactsReadArr.v - sbdf_read_objects (src/object.c) from the source, string and binary elements: the pointer array,
   the optional byte-size header, then one length, one block and one read per element - on every stream, memory, heap
   and allocation oracle; whatever goes wrong half-way, everything built so far is released once. *)
From Sbdf Require Import ImpCall Gen.Prog Gen.Consts Base Prim BaseFacts LeafTie ImpBase ImpFactsCells ImpFactsGrow ImpFactsDestroy ImpFactsDestroyPartial
  ImpFactsInt32 ImpFactsRead ImpFacts7S ImpFactsHeap ImpFactsHeap2 ImpFactsReadObj ImpFactsSkipObj.
From Coq Require Import ZifyBool.
Local Open Scope Z_scope.
Ltac Zify.zify_post_hook ::= Z.div_mod_to_equations.

(* ---- what the element loop computes: a functional description with the allocation oracle ---- *)
Definition elem_block (is_str : bool) (m e : list Z) : list Z := if is_str then str_mem m e [] else ba_mem m e [].

Inductive eres := EOk (ps : list Z) (k : Z) (s m : list Z) | EErr (st : Z).

Fixpoint elems_spec (is_str packed : bool) (n : nat) (k : Z) (s m : list Z) : eres :=
  match n with
  | O => EOk [] k s m
  | S n' =>
    match (if packed then read_7bit s else read_int32 false s) with
    | Err e => EErr e
    | Ok (len, s1) =>
      if len <? 0 then EErr SBDF_ERROR_INVALID_SIZE
      else if is_str && (len =? int_max) then EErr SBDF_ERROR_OUT_OF_MEMORY
      else if k =? 0 then EErr SBDF_ERROR_OUT_OF_MEMORY
      else if zlen s1 <? len then EErr SBDF_ERROR_IO
      else match elems_spec is_str packed n' (next_fail k) (skipn (Z.to_nat len) s1) (elem_block is_str m (firstn (Z.to_nat len) s1)) with
           | EOk ps k' s' m' => EOk (zlen m + 4 :: ps) k' s' m'
           | EErr e => EErr e
           end
    end
  end.

(* the two blocks of an object under construction: the header and the pointer array, the first j slots filled *)
Definition arr_heap (h : heap) (v cnt : Z) (ps : list Z) (nulls : list val) : heap :=
  h ++ [Some [VInt v; VInt cnt; VCell (S (List.length h)) 0]; Some (map (fun p => VPtr RIn p) ps ++ nulls)].
Definition zeros (n : nat) : list val := repeat (VInt 0) n.

Lemma arr_heap_hdr h v cnt ps (n : list val) : nth_error (arr_heap h v cnt ps n) (List.length h) = Some (Some [VInt v; VInt cnt; VCell (S (List.length h)) 0]).
Proof. unfold arr_heap. rewrite nth_error_app2 by lia. rewrite Nat.sub_diag. reflexivity. Qed.
Lemma arr_heap_data h v cnt ps (n : list val) : nth_error (arr_heap h v cnt ps n) (S (List.length h)) = Some (Some (map (fun p => VPtr RIn p) ps ++ n)).
Proof. unfold arr_heap. rewrite nth_error_app2 by lia. replace (S (List.length h) - List.length h)%nat with 1%nat by lia. reflexivity. Qed.
Lemma set_second (a : heap) x y y' : set_nth_v (S (List.length a)) y' (a ++ [x; y]) = Some (a ++ [x; y']).
Proof.
  replace (a ++ [x; y]) with ((a ++ [x]) ++ y :: []) by (rewrite <- app_assoc; reflexivity).
  replace (S (List.length a)) with (List.length (a ++ [x])) by (rewrite app_length; cbn; lia).
  rewrite set_nth_v_app. rewrite <- app_assoc. reflexivity.
Qed.
Lemma kill_two (a : heap) x y : kill (List.length a) (kill (S (List.length a)) (a ++ [x; y])) = a ++ [None; None].
Proof.
  unfold kill.
  assert (E1 : set_nth_v (S (List.length a)) None (a ++ [x; y]) = Some (a ++ [x; None])).
  { replace (a ++ [x; y]) with ((a ++ [x]) ++ y :: []) by (rewrite <- app_assoc; reflexivity).
    replace (S (List.length a)) with (List.length (a ++ [x])) by (rewrite app_length; cbn; lia).
    rewrite set_nth_v_app. rewrite <- app_assoc. reflexivity. }
  rewrite E1. rewrite set_nth_v_app. reflexivity.
Qed.
Lemma arr_heap_kill h v cnt ps (n : list val) : kill (List.length h) (kill (S (List.length h)) (arr_heap h v cnt ps n)) = h ++ [None; None].
Proof. unfold arr_heap. apply kill_two. Qed.

Ltac eva := cbn [prog_env eval_args callee_init finish_call copy_in copy_out try_update update lookup combine map app String.append
                 String.eqb Ascii.eqb Bool.eqb fparams flocals vars inb outb budget_var fail_var strm_var cells_var cell_token List.length Nat.eqb eval set_var cast
                 truth binop_int b2z negb heap_of as_ptr storable fst snd leaf_call
                 prog_sbdf_obj_destroy prog_sbdf_read_int32 prog_sbdf_read_7bitpacked_int32 prog_sbdf_str_create_len prog_sbdf_ba_create].

(* releasing the object under construction from inside sbdf_read_objects *)
Lemma destroy_arr_call bv sx o fv ov v cnt pk l so k h ps nulls mm :
  o_t l = VCell (List.length h) 0 -> Leaf.gen_sbdf_ti_is_arr v <> 0 -> cnt = zlen ps + zlen nulls -> cnt <= int_max -> Forall (fun p => 4 <= p <= zlen mm) ps ->
  Forall (fun c => c = VInt 0 \/ c = VNull) nulls ->
  bsE prog_env (SCall None "sbdf_obj_destroy" [AVal (EVar "t")]) (rof fv v cnt ov pk l so bv k sx (arr_heap h v cnt ps nulls) mm o)
    (ONormal (rof fv v cnt ov pk l so bv k sx (h ++ [None; None]) mm o)).
Proof.
  intros Ht Ha Hc Hmax Hps Hnul. destruct l as [d0 e0 i0 s0 l0 z0 t0 c10 c20]. simpl in Ht. subst t0.
  assert (Hz : zlen (map (fun p => VPtr RIn p) ps ++ nulls) = cnt) by (rewrite zlen_app; unfold zlen; rewrite map_length; unfold zlen in Hc; lia).
  destruct (obj_destroy_partial_bs bv k sx mm o (arr_heap h v cnt ps nulls) (List.length h) (S (List.length h)) v (map (fun p => VPtr RIn p) ps) nulls
              (VCell (S (List.length h)) 0) VUndef VUndef) as (iv & pv & D).
  - unfold obj_block. rewrite Hz. apply arr_heap_hdr.
  - reflexivity.
  - lia.
  - exact Ha.
  - apply arr_heap_data.
  - unfold elem_ptrs. rewrite Forall_map. eapply Forall_impl; [|exact Hps]. intros p Hp. exists p. split; [reflexivity|exact Hp].
  - exact Hnul.
  - rewrite Hz. exact Hmax.
  - rewrite arr_heap_kill in D. unro.
    eapply bsE_call_void; [reflexivity|eva; reflexivity|reflexivity|exact D|unfold fr; eva; reflexivity].
Qed.

Lemma zeros_null n : Forall (fun c => c = VInt 0 \/ c = VNull) (zeros n).
Proof. apply Forall_forall. intros c Hc0. apply repeat_spec in Hc0. left. exact Hc0. Qed.
Lemma zlen_zeros n : zlen (zeros n) = Z.of_nat n.
Proof. unfold zlen, zeros. now rewrite repeat_length. Qed.

Lemma arr_heap_store h v cnt ps n p : 
  cell_set (arr_heap h v cnt ps (zeros (S n))) (S (List.length h)) (zlen ps) (VPtr RIn p) = Some (arr_heap h v cnt (ps ++ [p]) (zeros n)).
Proof.
  unfold cell_set. rewrite arr_heap_data. pose proof (zlen_nonneg ps). replace (0 <=? zlen ps) with true by lia.
  replace (Z.to_nat (zlen ps)) with (List.length (map (fun p => VPtr RIn p) ps)) by (rewrite map_length; unfold zlen; lia).
  unfold zeros. cbn [repeat]. rewrite set_nth_v_app. unfold arr_heap. rewrite set_second. rewrite map_app. cbn [map]. rewrite <- app_assoc. reflexivity.
Qed.
Lemma arr_heap_store_null h v cnt ps n : 
  cell_set (arr_heap h v cnt ps (zeros (S n))) (S (List.length h)) (zlen ps) VNull = Some (arr_heap h v cnt ps (VNull :: zeros n)).
Proof.
  unfold cell_set. rewrite arr_heap_data. pose proof (zlen_nonneg ps). replace (0 <=? zlen ps) with true by lia.
  replace (Z.to_nat (zlen ps)) with (List.length (map (fun p => VPtr RIn p) ps)) by (rewrite map_length; unfold zlen; lia).
  unfold zeros. cbn [repeat]. rewrite set_nth_v_app. unfold arr_heap. rewrite set_second. reflexivity.
Qed.

Lemma arr_heap_get h v cnt ps (n : list val) j c : nth_error (map (fun p => VPtr RIn p) ps ++ n) (Z.to_nat j) = Some c -> 0 <= j ->
  cell_get (arr_heap h v cnt ps n) (S (List.length h)) j = Some c.
Proof. intros H Hj. unfold cell_get. rewrite arr_heap_data. replace (0 <=? j) with true by lia. exact H. Qed.

(* the bytes read into a fresh element block complete it *)
Lemma fill_str (m e : list Z) : upd_range (Z.to_nat (zlen m + 4)) e (str_mem m (repeat junk (List.length e)) []) = str_mem m e [].
Proof.
  unfold str_mem. pose proof (zlen_nonneg m). rewrite BaseFacts.zlen_repeat.
  assert (L4 : forall x, List.length (le32 x) = 4%nat) by (intros; reflexivity).
  replace (Z.to_nat (zlen m + 4)) with (List.length (m ++ le32 (Z.of_nat (List.length e) + 1))) by (rewrite app_length, L4; unfold zlen; lia).
  rewrite (app_assoc m (le32 _)). rewrite (app_assoc m (le32 _) (e ++ _)).
  rewrite upd_range_at by (apply repeat_length). reflexivity.
Qed.
Lemma fill_ba (m e : list Z) : upd_range (Z.to_nat (zlen m + 4)) e (ba_mem m (repeat junk (List.length e)) []) = ba_mem m e [].
Proof.
  unfold ba_mem. pose proof (zlen_nonneg m). rewrite BaseFacts.zlen_repeat.
  assert (L4 : forall x, List.length (le32 x) = 4%nat) by (intros; reflexivity).
  replace (Z.to_nat (zlen m + 4)) with (List.length (m ++ le32 (Z.of_nat (List.length e)))) by (rewrite app_length, L4; unfold zlen; lia).
  rewrite (app_assoc m (le32 _)). rewrite (app_assoc m (le32 _) (e ++ _)).
  rewrite upd_range_at by (apply repeat_length). reflexivity.
Qed.

Lemma bsE_seq_assoc env a b r s s1 oo : bsE env (SSeq a b) s (ONormal s1) -> bsE env r s1 oo -> bsE env (SSeq a (SSeq b r)) s oo.
Proof. intros H1 H2. inversion H1; subst. eapply bsE_seq; [eassumption|]. eapply bsE_seq; eassumption. Qed.

(* ---- the element loop ---- *)
Definition loop_of (b : stmt) : stmt :=
  match body_of b with
  | SSeq (SIf _ (SSeq _ (SSeq _ (SSeq _ (SSeq _ (SSeq _ (SSeq _ (SSeq _ (SSeq _ (SSeq _ w))))))))) _) _ => w
  | _ => SSkip
  end.
Definition elem_stmt (b : stmt) : stmt := match loop_of b with SWhile _ x => x | _ => SSkip end.

Section Loop.
Variables (bv : val) (o : list Z) (rf rp : region) (fo po : Z) (h : heap) (v cnt pk : Z) (m0 : list Z).
Notation fv := (VPtr rf fo).
Notation ov := (VPtr rp po).
Hypothesis Harr : Leaf.gen_sbdf_ti_is_arr v <> 0.
Hypothesis Hcnt : 0 <= cnt <= int_max.
Let is_str := v =? SBDF_STRINGTYPEID.
Let packed := negb (pk =? 0).

(* the frame at the head of an iteration *)
Definition lst (j : Z) (ev lv c1 c2 : val) : rol :=
  Build_rol (VCell (S (List.length h)) j) ev (VInt j) (VInt (b2z is_str)) lv VUndef (VCell (List.length h) 0) c1 c2.

Lemma loop_is : loop_of (fbody prog_sbdf_read_objects) <> SSkip.
Proof. cbn. discriminate. Qed.

Definition stJ (ps : list Z) (n : nat) (k : Z) (s mm : list Z) (ev lv c1 c2 : val) : state :=
  rof fv v cnt ov pk (lst (zlen ps) ev lv c1 c2) VNull bv k s (arr_heap h v cnt ps (zeros n)) mm o.

Definition create_stmt : stmt :=
  (SIf (EVar "is_string")
     (SSeq (SCall (Some "$c1") "sbdf_str_create_len" [(AVal ENull); (AVal (EVar "length"))]) (SExpr (ECellStore (EVar "dest") (EConst 0) (EVar "$c1"))))
     (SSeq (SCall (Some "$c2") "sbdf_ba_create" [(AVal ENull); (AVal (EVar "length"))]) (SExpr (ECellStore (EVar "dest") (EConst 0) (EVar "$c2")))))%string.

(* the block of one element: refused (a string of INT_MAX bytes has no room for its terminator), failed, or fresh *)
Lemma create_bs ps n k s1 mm len c1 c2 : 0 <= len <= int_max ->
  exists c1' c2', bsE prog_env create_stmt (stJ ps (S n) k s1 mm (VInt 0) (VInt len) c1 c2)
    (ONormal (if (is_str && (len =? int_max)) || (k =? 0)
              then rof fv v cnt ov pk (lst (zlen ps) (VInt 0) (VInt len) c1' c2') VNull bv (if is_str && (len =? int_max) then k else -1) s1
                       (arr_heap h v cnt ps (VNull :: zeros n)) mm o
              else rof fv v cnt ov pk (lst (zlen ps) (VInt 0) (VInt len) c1' c2') VNull bv (next_fail k) s1
                       (arr_heap h v cnt (ps ++ [zlen mm + 4]) (zeros n)) (elem_block is_str mm (repeat junk (Z.to_nat len))) o)).
Proof.
  intros Hlen. pose proof (zlen_nonneg ps) as Pp. unfold create_stmt, stJ, lst, elem_block. destruct is_str eqn:Eis; cbn [andb b2z].
  - destruct (len =? int_max) eqn:Emax; cbn [orb].
    + pose proof (str_create_len_refused s1 (arr_heap h v cnt ps (zeros (S n))) VNull len VUndef bv k mm o ltac:(right; lia)) as C.
      do 2 eexists. unro.
      eapply bsE_if; [eva; reflexivity|reflexivity|].
      eapply bsE_seq; [eapply bsE_call; [reflexivity|eva; reflexivity|reflexivity|exact C|unfold cl; eva; reflexivity]|].
      eapply bsE_expr. eva. chk7. eva. replace (zlen ps + 0) with (zlen ps) by lia. rewrite arr_heap_store_null. eva. reflexivity.
    + pose proof (str_create_len_bs s1 (arr_heap h v cnt ps (zeros (S n))) VNull len VUndef bv k mm o (repeat junk (Z.to_nat len)) ltac:(lia) ltac:(lia) eq_refl) as C.
      destruct (k =? 0) eqn:Ek.
      * do 2 eexists. unro.
        eapply bsE_if; [eva; reflexivity|reflexivity|].
        eapply bsE_seq; [eapply bsE_call; [reflexivity|eva; reflexivity|reflexivity|exact C|unfold cl; eva; reflexivity]|].
        eapply bsE_expr. eva. chk7. eva. replace (zlen ps + 0) with (zlen ps) by lia. rewrite arr_heap_store_null. eva. reflexivity.
      * do 2 eexists. unro.
        eapply bsE_if; [eva; reflexivity|reflexivity|].
        eapply bsE_seq; [eapply bsE_call; [reflexivity|eva; reflexivity|reflexivity|exact C|unfold cl; eva; reflexivity]|].
        eapply bsE_expr. eva. chk7. eva. replace (zlen ps + 0) with (zlen ps) by lia. rewrite arr_heap_store. eva. reflexivity.
  - cbn [orb].
    destruct (ba_create_bs s1 (arr_heap h v cnt ps (zeros (S n))) VNull len VUndef VUndef bv k mm o (repeat junk (Z.to_nat len)) ltac:(lia) ltac:(lia) eq_refl) as (c' & C).
    destruct (k =? 0) eqn:Ek.
    + do 2 eexists. unro.
      eapply bsE_if; [eva; reflexivity|reflexivity|].
      eapply bsE_seq; [eapply bsE_call; [reflexivity|eva; reflexivity|reflexivity|exact C|unfold bc; eva; reflexivity]|].
      eapply bsE_expr. eva. chk7. eva. replace (zlen ps + 0) with (zlen ps) by lia. rewrite arr_heap_store_null. eva. reflexivity.
    + do 2 eexists. unro.
      eapply bsE_if; [eva; reflexivity|reflexivity|].
      eapply bsE_seq; [eapply bsE_call; [reflexivity|eva; reflexivity|reflexivity|exact C|unfold bc; eva; reflexivity]|].
      eapply bsE_expr. eva. chk7. eva. replace (zlen ps + 0) with (zlen ps) by lia. rewrite arr_heap_store. eva. reflexivity.
Qed.

Definition prefix_of (a b : list Z) : Prop := exists x, b = a ++ x.

Lemma loop_bs : forall n ps k s mm ev lv c1 c2, Forall byte s -> cnt = zlen ps + Z.of_nat n -> Forall (fun p => 4 <= p <= zlen mm) ps ->
  match elems_spec is_str packed n k s mm with
  | EOk qs k' s' m' => exists ev' lv' c1' c2', bsE prog_env (loop_of (fbody prog_sbdf_read_objects)) (stJ ps n k s mm ev lv c1 c2)
                          (ONormal (stJ (ps ++ qs) 0 k' s' m' ev' lv' c1' c2')) /\ zlen (ps ++ qs) = cnt
  | EErr st => exists l' k' s' m', bsE prog_env (loop_of (fbody prog_sbdf_read_objects)) (stJ ps n k s mm ev lv c1 c2)
                          (OReturn (VInt st) (rof fv v cnt ov pk l' VNull bv k' s' (h ++ [None; None]) m' o)) /\ prefix_of mm m'
  end.
Proof.
  induction n as [|n IH]; intros ps k s mm ev lv c1 c2 Hs Hc Hps.
  - cbn [elems_spec]. exists ev, lv, c1, c2. rewrite app_nil_r. split; [|lia].
    cbn [loop_of body_of fbody prog_sbdf_read_objects]. unfold stJ, lst. unro.
    eapply bsE_while_f; [eva; chk7; eva; replace (zlen ps <? cnt) with false by lia; reflexivity|reflexivity].
  - cbn [elems_spec]. pose proof (zlen_nonneg ps) as Pp. unfold int_max in Hcnt.
    assert (ENTER : forall oo, bsE prog_env (elem_stmt (fbody prog_sbdf_read_objects)) (stJ ps (S n) k s mm ev lv c1 c2) oo ->
              match oo with OReturn _ _ => bsE prog_env (loop_of (fbody prog_sbdf_read_objects)) (stJ ps (S n) k s mm ev lv c1 c2) oo | _ => True end).
    { intros oo B. destruct oo; try exact I. cbn [loop_of elem_stmt body_of fbody prog_sbdf_read_objects] in *. revert B. unfold stJ, lst. unro. intros B.
      eapply bsE_while_ret; [eva; chk7; eva; replace (zlen ps <? cnt) with true by lia; reflexivity|reflexivity|exact B]. }
    (* the length of the element *)
    assert (RD : match (if packed then read_7bit s else read_int32 false s) with
                 | Ok (len, s1) => bsE prog_env
                       (SSeq (SDecl "length" None) (SIf (EVar "packed_array") (SCall (Some "err") "sbdf_read_7bitpacked_int32" [(AVal (EVar "f")); (AAddr "length")]) (SCall (Some "err") "sbdf_read_int32" [(AVal (EVar "f")); (AAddr "length")])))%string
                       (stJ ps (S n) k s mm ev lv c1 c2) (ONormal (stJ ps (S n) k s1 mm (VInt 0) (VInt len) c1 c2)) /\ Forall byte s1 /\ int_min <= len <= int_max
                 | Err e => exists s1 lv', bsE prog_env
                       (SSeq (SDecl "length" None) (SIf (EVar "packed_array") (SCall (Some "err") "sbdf_read_7bitpacked_int32" [(AVal (EVar "f")); (AAddr "length")]) (SCall (Some "err") "sbdf_read_int32" [(AVal (EVar "f")); (AAddr "length")])))%string
                       (stJ ps (S n) k s mm ev lv c1 c2) (ONormal (stJ ps (S n) k s1 mm (VInt e) lv' c1 c2)) /\ e < 0
                 end).
    { unfold packed. destruct (pk =? 0) eqn:Ep; cbn [negb].
      - (* lengths as 32-bit ints *)
        pose proof (read_int32_bs2 (arr_heap h v cnt ps (zeros (S n))) fv (VPtr ROut 0) VUndef bv k s mm o I I Hs) as R.
        destruct (read_int32 false s) as [[len s1]|e] eqn:ER.
        + split; [|split; [eapply read_int32_bytes; [exact Hs|exact ER]|eapply read_int32_range; [exact Hs|exact ER]]].
          unfold stJ, lst. unro.
          eapply bsE_seq; [eapply bsE_decl0; eva; reflexivity|].
          eapply bsE_if; [eva; reflexivity|cbn [truth]; rewrite Ep; reflexivity|].
          eapply bsE_call; [reflexivity|eva; reflexivity|reflexivity|exact R|unfold ri2; eva; reflexivity].
        + destruct R as (c' & s1 & R). pose proof (read_int32_err s e ER). subst e. exists s1, c'. split; [|reflexivity].
          unfold stJ, lst. unro.
          eapply bsE_seq; [eapply bsE_decl0; eva; reflexivity|].
          eapply bsE_if; [eva; reflexivity|cbn [truth]; rewrite Ep; reflexivity|].
          eapply bsE_call; [reflexivity|eva; reflexivity|reflexivity|exact R|unfold ri2; eva; reflexivity].
      - (* lengths in the 7-bit packing *)
        pose proof (read7_bs2 fv (VPtr ROut 0) bv k (arr_heap h v cnt ps (zeros (S n))) mm o VUndef VUndef VUndef VUndef s Hs) as R.
        unfold read_7bit in *. destruct (read7_loop 6 0 0 s) as [[len s1]|e] eqn:ER.
        + destruct R as (r' & k' & u' & R & Hlen). destruct (read7_loop_shr 6 0 0 s len s1 Hs ER) as (Hb1 & _).
          split; [|split; [exact Hb1|exact Hlen]].
          unfold stJ, lst. unro.
          eapply bsE_seq; [eapply bsE_decl0; eva; reflexivity|].
          eapply bsE_if; [eva; reflexivity|cbn [truth]; rewrite Ep; reflexivity|].
          eapply bsE_call; [reflexivity|eva; reflexivity|reflexivity|exact R|unfold rst; eva; reflexivity].
        + destruct R as (r' & k' & u' & s1 & R). exists s1, VUndef. split; [|eapply read7_loop_neg; exact ER].
          unfold stJ, lst. unro.
          eapply bsE_seq; [eapply bsE_decl0; eva; reflexivity|].
          eapply bsE_if; [eva; reflexivity|cbn [truth]; rewrite Ep; reflexivity|].
          eapply bsE_call; [reflexivity|eva; reflexivity|reflexivity|exact R|unfold rst; eva; reflexivity]. }
    assert (TI : truth (VInt (b2z is_str)) = Some is_str) by (destruct is_str; reflexivity).
    destruct (if packed then read_7bit s else read_int32 false s) as [[len s1]|e].
    2: { (* the length cannot be read *)
      destruct RD as (s1 & lv' & B0 & Hneg).
      pose proof (destroy_arr_call bv s1 o fv ov v cnt pk (lst (zlen ps) (VInt e) lv' c1 c2) VNull k h ps (zeros (S n)) mm eq_refl Harr
                    ltac:(rewrite zlen_zeros; lia) ltac:(unfold int_max; lia) Hps (zeros_null _)) as D.
      eexists (Build_rol _ _ _ _ _ _ _ _ _). do 3 eexists. split; [|exists []; now rewrite app_nil_r].
      apply (ENTER (OReturn _ _)). cbn [elem_stmt loop_of body_of fbody prog_sbdf_read_objects].
      eapply bsE_seq_ret. eapply bsE_seq_assoc; [exact B0|].
      eapply bsE_seq_ret. unfold stJ, lst in *. revert D. unro. intros D.
      eapply bsE_if; [eva; reflexivity|cbn [truth]; replace (e =? 0) with false by lia; reflexivity|].
      eapply bsE_seq; [exact D|]. eapply bsE_return. eva. reflexivity. }
    destruct RD as (B0 & Hb1 & Hlen).
    destruct (len <? 0) eqn:Eneg.
    { (* a negative length *)
      pose proof (destroy_arr_call bv s1 o fv ov v cnt pk (lst (zlen ps) (VInt 0) (VInt len) c1 c2) VNull k h ps (zeros (S n)) mm eq_refl Harr
                    ltac:(rewrite zlen_zeros; lia) ltac:(unfold int_max; lia) Hps (zeros_null _)) as D.
      eexists (Build_rol _ _ _ _ _ _ _ _ _). do 3 eexists. split; [|exists []; now rewrite app_nil_r].
      apply (ENTER (OReturn _ _)). cbn [elem_stmt loop_of body_of fbody prog_sbdf_read_objects].
      eapply bsE_seq_ret. eapply bsE_seq_assoc; [exact B0|].
      unfold stJ, lst in *. revert D. unro. intros D.
      eapply bsE_seq; [eapply bsE_if; [eva; reflexivity|reflexivity|apply bsE_skip]|].
      eapply bsE_seq_ret. eapply bsE_if; [eva; chk7; eva; rewrite Eneg; reflexivity|reflexivity|].
      eapply bsE_seq; [exact D|]. eapply bsE_return. eva. chk7. reflexivity. }
    assert (Hlen0 : 0 <= len <= int_max) by lia.
    destruct (create_bs ps n k s1 mm len c1 c2 Hlen0) as (c1' & c2' & C).
    fold create_stmt in *.
    assert (NTHP : forall q nul, nth_error (map (fun p => VPtr RIn p) ps ++ q :: nul) (Z.to_nat (zlen ps)) = Some q).
    { intros q nul. replace (Z.to_nat (zlen ps)) with (List.length (map (fun p => VPtr RIn p) ps)) by (rewrite map_length; unfold zlen; lia).
      rewrite nth_error_app2 by lia. rewrite Nat.sub_diag. reflexivity. }
    destruct ((is_str && (len =? int_max)) || (k =? 0)) eqn:Efail.
    { (* no block for the element *)
      assert (Espec : (if is_str && (len =? int_max) then EErr SBDF_ERROR_OUT_OF_MEMORY else if k =? 0 then EErr SBDF_ERROR_OUT_OF_MEMORY
                       else if zlen s1 <? len then EErr SBDF_ERROR_IO else
                       match elems_spec is_str packed n (next_fail k) (skipn (Z.to_nat len) s1) (elem_block is_str mm (firstn (Z.to_nat len) s1)) with
                       | EOk ps0 k' s' m' => EOk (zlen mm + 4 :: ps0) k' s' m' | EErr e => EErr e end) = EErr SBDF_ERROR_OUT_OF_MEMORY).
      { destruct (is_str && (len =? int_max)); [reflexivity|]. cbn [orb] in Efail. rewrite Efail. reflexivity. }
      rewrite Espec. clear Espec.
      set (kk := if is_str && (len =? int_max) then k else -1) in *.
      pose proof (destroy_arr_call bv s1 o fv ov v cnt pk (lst (zlen ps) (VInt 0) (VInt len) c1' c2') VNull kk h ps (VNull :: zeros n) mm eq_refl Harr
                    ltac:(rewrite zlen_cons, zlen_zeros; lia) ltac:(unfold int_max; lia) Hps ltac:(constructor; [right; reflexivity|apply zeros_null])) as D.
      eexists (Build_rol _ _ _ _ _ _ _ _ _). do 3 eexists. split; [|exists []; now rewrite app_nil_r].
      apply (ENTER (OReturn _ _)). cbn [elem_stmt loop_of body_of fbody prog_sbdf_read_objects]. fold create_stmt.
      eapply bsE_seq_ret. eapply bsE_seq_assoc; [exact B0|].
      eapply bsE_seq; [unfold stJ, lst; unro; eapply bsE_if; [eva; reflexivity|reflexivity|apply bsE_skip]|].
      eapply bsE_seq; [unfold stJ, lst; unro; eapply bsE_if; [eva; chk7; eva; rewrite Eneg; reflexivity|reflexivity|apply bsE_skip]|].
      eapply bsE_seq; [exact C|].
      eapply bsE_seq_ret. unfold lst in *. revert D. unro. intros D.
      eapply bsE_if; [eva; chk7; eva; replace (zlen ps + 0) with (zlen ps) by lia; rewrite (arr_heap_get h v cnt ps (VNull :: zeros n) (zlen ps) VNull (NTHP _ _) Pp); eva; reflexivity|reflexivity|].
      eapply bsE_seq; [exact D|]. eapply bsE_return. eva. chk7. reflexivity. }
    apply orb_false_iff in Efail. destruct Efail as (Eref & Ek). rewrite Eref, Ek.
    set (p := zlen mm + 4) in *. set (mb := elem_block is_str mm (repeat junk (Z.to_nat len))) in *.
    pose proof (zlen_nonneg mm) as Pm.
    assert (Hmb : zlen mb = zlen mm + 4 + len + (if is_str then 1 else 0)).
    { unfold mb, elem_block, str_mem, ba_mem. destruct is_str; rewrite !zlen_app, ?BaseFacts.zlen_repeat; change (zlen (le32 _)) with 4; change (zlen [0]) with 1; change (zlen (@nil Z)) with 0; lia. }
    assert (Hpre : exists X, mb = mm ++ X) by (unfold mb, elem_block, str_mem, ba_mem; destruct is_str; eexists; reflexivity).
    destruct Hpre as (X & HX).
    assert (HEAD : forall oo, bsE prog_env
               (SSeq (SIf (EBin Ne (EReadBuf (ECellLoad (EVar "dest") (EConst 0) true) (ECast TSizeT (EVar "length"))) (ECast TSizeT (EVar "length")))
                          (SSeq (SCall None "sbdf_obj_destroy" [(AVal (EVar "t"))]) (SReturn (EBin Sub (EConst 0) (EConst (4))))) SSkip)
                     (SExpr (ECellStep "dest" (1) false)))%string
               (rof fv v cnt ov pk (lst (zlen ps) (VInt 0) (VInt len) c1' c2') VNull bv (next_fail k) s1 (arr_heap h v cnt (ps ++ [p]) (zeros n)) mb o) oo ->
             bsE prog_env (SSeq (SDecl "length" None) (SSeq (SIf (EVar "packed_array") (SCall (Some "err") "sbdf_read_7bitpacked_int32" [(AVal (EVar "f")); (AAddr "length")]) (SCall (Some "err") "sbdf_read_int32" [(AVal (EVar "f")); (AAddr "length")]))
                  (SSeq (SIf (EVar "err") (SSeq (SCall None "sbdf_obj_destroy" [(AVal (EVar "t"))]) (SReturn (EVar "err"))) SSkip)
                  (SSeq (SIf (EBin Lt (EVar "length") (EConst (0))) (SSeq (SCall None "sbdf_obj_destroy" [(AVal (EVar "t"))]) (SReturn (EBin Sub (EConst 0) (EConst (21))))) SSkip)
                  (SSeq create_stmt
                  (SSeq (SIf (EPtrEq (ECellLoad (EVar "dest") (EConst 0) true) ENull) (SSeq (SCall None "sbdf_obj_destroy" [(AVal (EVar "t"))]) (SReturn (EBin Sub (EConst 0) (EConst (2))))) SSkip)
                  (SSeq (SIf (EBin Ne (EReadBuf (ECellLoad (EVar "dest") (EConst 0) true) (ECast TSizeT (EVar "length"))) (ECast TSizeT (EVar "length")))
                          (SSeq (SCall None "sbdf_obj_destroy" [(AVal (EVar "t"))]) (SReturn (EBin Sub (EConst 0) (EConst (4))))) SSkip)
                     (SExpr (ECellStep "dest" (1) false)))))))))%string
               (stJ ps (S n) k s mm ev lv c1 c2) oo).
    { intros oo B. eapply bsE_seq_assoc; [exact B0|].
      eapply bsE_seq; [unfold stJ, lst; unro; eapply bsE_if; [eva; reflexivity|reflexivity|apply bsE_skip]|].
      eapply bsE_seq; [unfold stJ, lst; unro; eapply bsE_if; [eva; chk7; eva; rewrite Eneg; reflexivity|reflexivity|apply bsE_skip]|].
      eapply bsE_seq; [exact C|].
      eapply bsE_seq; [|exact B]. unfold lst. unro.
      eapply bsE_if; [eva; chk7; eva; replace (zlen ps + 0) with (zlen ps) by lia;
                      rewrite (arr_heap_get h v cnt (ps ++ [p]) (zeros n) (zlen ps) (VPtr RIn p)) by (try lia; rewrite map_app, <- app_assoc; apply NTHP); eva; reflexivity|reflexivity|apply bsE_skip]. }
    assert (GETP : cell_get (arr_heap h v cnt (ps ++ [p]) (zeros n)) (S (List.length h)) (zlen ps) = Some (VPtr RIn p)).
    { apply arr_heap_get; [|lia]. rewrite map_app, <- app_assoc. apply NTHP. }
    assert (Hps1 : forall mx : list Z, zlen mx = zlen mb -> Forall (fun q => 4 <= q <= zlen mx) (ps ++ [p])).
    { intros mx Hmx. apply Forall_app. split; [eapply Forall_impl; [|exact Hps]; cbv beta; intros q Hq; destruct is_str; lia|constructor; [unfold p; destruct is_str; lia|constructor]]. }
    destruct (zlen s1 <? len) eqn:Eshort.
    { (* the stream ends inside the element *)
      set (mb1 := upd_range (Z.to_nat p) s1 mb).
      assert (Hmb1 : zlen mb1 = zlen mb) by (unfold mb1, zlen; now rewrite upd_range_length).
      pose proof (destroy_arr_call bv [] o fv ov v cnt pk (lst (zlen ps) (VInt 0) (VInt len) c1' c2') VNull (next_fail k) h (ps ++ [p]) (zeros n) mb1 eq_refl Harr
                    ltac:(rewrite zlen_app, zlen_zeros; change (zlen [p]) with 1; lia) ltac:(unfold int_max; lia) (Hps1 mb1 Hmb1) (zeros_null _)) as D.
      eexists (Build_rol _ _ _ _ _ _ _ _ _). do 3 eexists. split.
      - apply (ENTER (OReturn _ _)). cbn [elem_stmt loop_of body_of fbody prog_sbdf_read_objects]. fold create_stmt.
        eapply bsE_seq_ret. apply HEAD. eapply bsE_seq_ret. unfold lst in *. revert D. unro. intros D.
        eapply bsE_if.
        + eva. chk7. eva. replace (zlen ps + 0) with (zlen ps) by lia. rewrite GETP. eva. replace (0 <=? len) with true by lia. eva.
          rewrite zlen_length. replace ((0 <=? len) && (0 <=? p) && (p + len <=? zlen mb)) with true by (unfold p; destruct is_str; lia).
          rewrite (firstn_all2 s1) by (unfold zlen in Eshort; lia). rewrite (skipn_all2 s1) by (unfold zlen in Eshort; lia). fold mb1.
          eva. replace (0 <=? len) with true by lia. eva. reflexivity.
        + cbn [truth b2z]. rewrite zlen_length. replace (zlen s1 =? len) with false by lia. reflexivity.
        + eapply bsE_seq; [exact D|]. eapply bsE_return. eva. chk7. reflexivity.
      - unfold mb1. rewrite HX. unfold p. replace (Z.to_nat (zlen mm + 4)) with (List.length mm + 4)%nat by (unfold zlen; lia).
        rewrite upd_range_app_r. eexists. reflexivity. }
    (* the element is complete: on to the next one *)
    set (e := firstn (Z.to_nat len) s1). set (s2 := skipn (Z.to_nat len) s1).
    assert (He : List.length e = Z.to_nat len) by (unfold e; rewrite firstn_length; unfold zlen in Eshort; lia).
    assert (Hfill : upd_range (Z.to_nat p) e mb = elem_block is_str mm e).
    { unfold mb, elem_block, p. rewrite <- He. destruct is_str; [apply fill_str|apply fill_ba]. }
    set (m1 := elem_block is_str mm e) in *.
    assert (Hm1 : zlen m1 = zlen mb) by (rewrite <- Hfill; unfold zlen; now rewrite upd_range_length).
    assert (Hb2 : Forall byte s2) by (unfold s2; apply Forall_skipn_byte; exact Hb1).
    assert (Hz1 : zlen (ps ++ [p]) = zlen ps + 1) by (rewrite zlen_app; reflexivity).
    specialize (IH (ps ++ [p]) (next_fail k) s2 m1 (VInt 0) (VInt len) c1' c2' Hb2 ltac:(lia) (Hps1 m1 Hm1)).
    assert (BODY : bsE prog_env (elem_stmt (fbody prog_sbdf_read_objects)) (stJ ps (S n) k s mm ev lv c1 c2)
                     (ONormal (stJ (ps ++ [p]) n (next_fail k) s2 m1 (VInt 0) (VInt len) c1' c2'))).
    { cbn [elem_stmt loop_of body_of fbody prog_sbdf_read_objects]. fold create_stmt.
      eapply bsE_seq; [apply HEAD|].
      - eapply bsE_seq.
        + unfold lst. unro. eapply bsE_if.
          * eva. chk7. eva. replace (zlen ps + 0) with (zlen ps) by lia. rewrite GETP. eva. replace (0 <=? len) with true by lia. eva.
            rewrite zlen_length. replace ((0 <=? len) && (0 <=? p) && (p + len <=? zlen mb)) with true by (unfold p; destruct is_str; lia).
            fold e. fold s2. rewrite Hfill. rewrite He, Z2Nat.id by lia.
            eva. replace (0 <=? len) with true by lia. eva. reflexivity.
          * cbn [truth b2z]. rewrite Z.eqb_refl. reflexivity.
          * apply bsE_skip.
        + eapply bsE_expr. eva. rewrite arr_heap_data. rewrite app_length, map_length, app_length. cbn [List.length].
          replace ((0 <=? zlen ps + 1) && (zlen ps + 1 <=? Z.of_nat (List.length ps + 1 + List.length (zeros n)))) with true by (unfold zlen; lia).
          eva. reflexivity.
      - unfold stJ, lst. rewrite Hz1. unro. eapply bsE_expr. eva. unfold incr. chk7. eva. reflexivity. }
    assert (STEP : forall oo, bsE prog_env (loop_of (fbody prog_sbdf_read_objects)) (stJ (ps ++ [p]) n (next_fail k) s2 m1 (VInt 0) (VInt len) c1' c2') oo ->
                     bsE prog_env (loop_of (fbody prog_sbdf_read_objects)) (stJ ps (S n) k s mm ev lv c1 c2) oo).
    { intros oo B. cbn [loop_of elem_stmt body_of fbody prog_sbdf_read_objects] in *. revert B BODY. unfold stJ, lst. unro. intros B BODY.
      eapply bsE_while_t; [eva; chk7; eva; replace (zlen ps <? cnt) with true by lia; reflexivity|reflexivity|exact BODY|exact B]. }
    fold e s2 m1.
    destruct (elems_spec is_str packed n (next_fail k) s2 m1) as [qs k' s' m'|st].
    + destruct IH as (ev' & lv' & c1'' & c2'' & B & Hz). exists ev', lv', c1'', c2''.
      replace (ps ++ p :: qs) with ((ps ++ [p]) ++ qs) by (rewrite <- app_assoc; reflexivity). split; [apply STEP; exact B|exact Hz].
    + destruct IH as (l' & k' & s' & m' & B & (Y & HY)). exists l', k', s', m'. split; [apply STEP; exact B|].
      exists (skipn (List.length mm) m1 ++ Y). rewrite HY. rewrite app_assoc. f_equal.
      unfold m1, elem_block, str_mem, ba_mem. destruct is_str; rewrite skipn_app, Nat.sub_diag, skipn_all; cbn [skipn app]; reflexivity.
Qed.
End Loop.

(* ---- the whole array branch ---- *)
Section Arr.
Variables (bv : val) (o : list Z) (rf rp : region) (fo po : Z).
Notation fv := (VPtr rf fo).
Notation ov := (VPtr rp po).

(* what the call computes for a string / binary type: status and, on success, element pointers, oracle, stream, memory *)
Definition arr_spec (k : Z) (sx m : list Z) (v cnt pk : Z) : eres :=
  if cnt <? 0 then EErr SBDF_ERROR_INVALID_SIZE
  else if k =? 0 then EErr SBDF_ERROR_OUT_OF_MEMORY
  else if dec k =? 0 then EErr SBDF_ERROR_OUT_OF_MEMORY
  else if pk =? 0 then elems_spec (v =? SBDF_STRINGTYPEID) false (Z.to_nat cnt) (dec (dec k)) sx m
  else match read_int32 false sx with
       | Err e => EErr e
       | Ok (_, s1) => elems_spec (v =? SBDF_STRINGTYPEID) true (Z.to_nat cnt) (dec (dec k)) s1 m
       end.

Lemma read_objects_arr_bs k sx h m v cnt pk so : Forall byte sx -> int_min <= cnt <= int_max -> is_arr v = true ->
  match arr_spec k sx m v cnt pk with
  | EOk qs k' s' m' => exists l', bsE prog_env (fbody prog_sbdf_read_objects) (rof fv v cnt ov pk rol0 so bv k sx h m o)
        (OReturn (VInt SBDF_OK) (rof fv v cnt ov pk l' (VCell (List.length h) 0) bv k' s' (arr_heap h v cnt qs []) m' o)) /\ zlen qs = cnt
  | EErr st => exists l' k' s' h' m', bsE prog_env (fbody prog_sbdf_read_objects) (rof fv v cnt ov pk rol0 so bv k sx h m o)
        (OReturn (VInt st) (rof fv v cnt ov pk l' VNull bv k' s' h' m' o)) /\ (h' = h \/ h' = h ++ [None] \/ h' = h ++ [None; None]) /\ prefix_of m m'
  end.
Proof.
  intros Hs Hc Ha. unfold arr_spec.
  destruct (cnt <? 0) eqn:E0.
  { eexists (Build_rol _ _ _ _ _ _ _ _ _). do 4 eexists. split; [apply (read_objects_negative bv sx m o rf rp fo po k h v cnt pk rol0 so ltac:(lia) ltac:(lia))|].
    split; [left; reflexivity|exists []; now rewrite app_nil_r]. }
  destruct (k =? 0) eqn:E1.
  { assert (k = 0) by lia. subst k. eexists (Build_rol _ _ _ _ _ _ _ _ _). do 4 eexists. split; [apply (read_objects_oom0 bv sx m o rf rp fo po h v cnt pk rol0 so ltac:(lia))|].
    split; [left; reflexivity|exists []; now rewrite app_nil_r]. }
  assert (Hk : k <> 0) by lia. assert (Hc0 : 0 <= cnt <= int_max) by lia.
  pose proof (tie_is_arr v) as TA. rewrite Ha in TA. assert (Harr : Leaf.gen_sbdf_ti_is_arr v <> 0) by lia.
  set (L := List.length h) in *.
  destruct (dec k =? 0) eqn:E2.
  { (* no room for the pointer array *)
    pose proof (obj_destroy_nodata_bs bv (-1) sx m o (h ++ [Some [VInt v; VInt cnt; VNull]]) L v cnt VNull VUndef VUndef
                ltac:(unfold obj_block; apply nth_error_app_new) eq_refl) as D. unfold L in D. rewrite kill_new in D.
    eexists (Build_rol _ _ _ _ _ _ _ _ _). do 4 eexists. split; [|split; [right; left; reflexivity|exists []; now rewrite app_nil_r]].
    apply read_objects_pre; [exact Hc0|exact Hk|]. replace (dec k) with 0 by lia.
    cbn [fbody prog_sbdf_read_objects body_of]. unro.
    eapply bsE_seq_ret. eapply bsE_if; [eva; chk7; eva; rewrite cg0; eva; rewrite TA; reflexivity|reflexivity|].
    eapply bsE_seq; [eapply bsE_decl0; eva; reflexivity|]. eapply bsE_seq; [eapply bsE_decl0; eva; reflexivity|].
    eapply bsE_seq; [eapply bsE_decl0; eva; reflexivity|]. eapply bsE_seq; [eapply bsE_decl0; eva; reflexivity|].
    eapply bsE_seq; [eapply bsE_expr; eva; chk7; eva; replace (0 <=? cnt) with true by lia; eva; replace (0 <=? cnt) with true by lia; eva; change (0 =? 0) with true; cbv iota; eva;
                     erewrite cell_set_new; [|lia|reflexivity]; eva; reflexivity|].
    eapply bsE_seq_ret. eapply bsE_if; [eva; reflexivity|reflexivity|].
    eapply bsE_seq; [eapply bsE_call_void; [reflexivity|eva; reflexivity|reflexivity|exact D|unfold fr; eva; reflexivity]|]. eapply bsE_return. eva. chk7. reflexivity. }
  assert (Hk1 : dec k <> 0) by lia. set (k2 := dec (dec k)) in *.
  set (is_str := v =? SBDF_STRINGTYPEID) in *.
  set (lA := Build_rol (VCell (S L) 0) VUndef VUndef VUndef VUndef VUndef (VCell L 0) VUndef VUndef).
  (* up to the pointer array *)
  assert (ALLOC : forall oo X, bsE prog_env X (rof fv v cnt ov pk lA VNull bv k2 sx (arr_heap h v cnt [] (zeros (Z.to_nat cnt))) m o) oo ->
     bsE prog_env (SSeq (SDecl "i" None) (SSeq (SDecl "is_string" None) (SSeq (SDecl "err" None) (SSeq (SDecl "dest" None)
        (SSeq (SExpr (EAssign "dest" (ECellStore (EVar "t") (EConst 2) (ECalloc (ECast TSizeT (EVar "count"))))))
        (SSeq (SIf (ELNot (EVar "dest")) (SSeq (SCall None "sbdf_obj_destroy" [(AVal (EVar "t"))]) (SReturn (EBin Sub (EConst 0) (EConst (2))))) SSkip) X))))))%string
       (rof fv v cnt ov pk (with_t rol0 (VCell L 0)) VNull bv (dec k) sx (h ++ [Some [VInt v; VInt cnt; VInt 0]]) m o) oo).
  { intros oo X B. unfold lA in B. revert B. unro. intros B.
    eapply bsE_seq; [eapply bsE_decl0; eva; reflexivity|]. eapply bsE_seq; [eapply bsE_decl0; eva; reflexivity|].
    eapply bsE_seq; [eapply bsE_decl0; eva; reflexivity|]. eapply bsE_seq; [eapply bsE_decl0; eva; reflexivity|].
    eapply bsE_seq.
    { eapply bsE_expr. eva. chk7. eva. replace (0 <=? cnt) with true by lia. eva. replace (0 <=? cnt) with true by lia. eva.
      replace (dec k =? 0) with false by lia. eva.
      replace (h ++ [Some [VInt v; VInt cnt; VInt 0]]) with (h ++ [Some [VInt v; VInt cnt; VInt 0]]) by reflexivity.
      rewrite app_length. cbn [List.length]. replace (List.length h + 1)%nat with (S L) by (unfold L; lia).
      assert (CS : cell_set ((h ++ [Some [VInt v; VInt cnt; VInt 0]]) ++ [Some (repeat (VInt 0) (Z.to_nat cnt))]) L (0 + 2) (VCell (S L) 0) = Some (arr_heap h v cnt [] (zeros (Z.to_nat cnt)))).
      { unfold cell_set, arr_heap, zeros. rewrite <- app_assoc. cbn [app]. unfold L. rewrite nth_error_app2 by lia. rewrite Nat.sub_diag. cbn [nth_error Z.leb Z.add Z.compare Z.to_nat Pos.to_nat Pos.iter_op Nat.add set_nth_v].
        change (Pos.to_nat 2) with 2%nat. cbn [set_nth_v]. rewrite set_nth_v_app. reflexivity. }
      rewrite CS. eva. change (if 0 <? dec k then dec k - 1 else dec k) with k2. reflexivity. }
    eapply bsE_seq; [eapply bsE_if; [eva; reflexivity|reflexivity|apply bsE_skip]|]. exact B. }
  set (n := Z.to_nat cnt) in *.
  assert (Hn : cnt = zlen (@nil Z) + Z.of_nat n) by (unfold n; change (zlen (@nil Z)) with 0; lia).
  (* the array branch inside the function *)
  assert (WRAP_RET : forall rv s', bsE prog_env (match body_of (fbody prog_sbdf_read_objects) with SSeq (SIf _ a _) _ => a | _ => SSkip end)
              (rof fv v cnt ov pk (with_t rol0 (VCell L 0)) VNull bv (dec k) sx (h ++ [Some [VInt v; VInt cnt; VInt 0]]) m o) (OReturn rv s') ->
            bsE prog_env (fbody prog_sbdf_read_objects) (rof fv v cnt ov pk rol0 so bv k sx h m o) (OReturn rv s')).
  { intros rv s' B. apply read_objects_pre; [exact Hc0|exact Hk|]. cbn [fbody prog_sbdf_read_objects body_of] in *. revert B. unro. intros B.
    eapply bsE_seq_ret. eapply bsE_if; [eva; chk7; eva; rewrite cg0; eva; rewrite TA; reflexivity|reflexivity|exact B]. }
  assert (WRAP_OK : forall qs k' s' m' ev lv c1 c2, bsE prog_env (match body_of (fbody prog_sbdf_read_objects) with SSeq (SIf _ a _) _ => a | _ => SSkip end)
              (rof fv v cnt ov pk (with_t rol0 (VCell L 0)) VNull bv (dec k) sx (h ++ [Some [VInt v; VInt cnt; VInt 0]]) m o)
              (ONormal (stJ bv o rf rp fo po h v cnt pk qs 0 k' s' m' ev lv c1 c2)) ->
            bsE prog_env (fbody prog_sbdf_read_objects) (rof fv v cnt ov pk rol0 so bv k sx h m o)
              (OReturn (VInt SBDF_OK) (rof fv v cnt ov pk (lst h v (zlen qs) ev lv c1 c2) (VCell L 0) bv k' s' (arr_heap h v cnt qs []) m' o))).
  { intros qs k' s' m' ev lv c1 c2 B. apply read_objects_pre; [exact Hc0|exact Hk|]. cbn [fbody prog_sbdf_read_objects body_of] in *. revert B. unfold stJ, lst, zeros. unro. cbn [repeat]. intros B.
    eapply bsE_seq; [eapply bsE_if; [eva; chk7; eva; rewrite cg0; eva; rewrite TA; reflexivity|reflexivity|exact B]|].
    eapply bsE_seq; [eapply bsE_expr; eva; reflexivity|]. eapply bsE_return. eva. chk7. reflexivity. }
  assert (ISS : forall sx0, eval (EAssign "is_string" (EBin Eq (ECellLoad (EVar "t") (EConst 0) false) (EConst (10))))
                  (rof fv v cnt ov pk lA VNull bv k2 sx0 (arr_heap h v cnt [] (zeros n)) m o) =
                Some (VInt (b2z is_str), rof fv v cnt ov pk (Build_rol (VCell (S L) 0) VUndef VUndef (VInt (b2z is_str)) VUndef VUndef (VCell L 0) VUndef VUndef) VNull bv k2 sx0 (arr_heap h v cnt [] (zeros n)) m o)).
  { intros sx0. unfold lA. unro. eva. chk7. eva. unfold cell_get. fold L. rewrite arr_heap_hdr. eva. chk7. reflexivity. }
  destruct (pk =? 0) eqn:Ep.
  - (* element lengths as 32-bit ints: no byte-size header *)
    pose proof (loop_bs bv o rf rp fo po h v cnt pk Harr Hc0 n [] k2 sx m VUndef VUndef VUndef VUndef Hs Hn (Forall_nil _)) as LB.
    replace (negb (pk =? 0)) with false in LB by (rewrite Ep; reflexivity). fold is_str in LB.
    assert (TO_LOOP : forall oo, bsE prog_env (loop_of (fbody prog_sbdf_read_objects)) (stJ bv o rf rp fo po h v cnt pk [] n k2 sx m VUndef VUndef VUndef VUndef) oo ->
              bsE prog_env (match body_of (fbody prog_sbdf_read_objects) with SSeq (SIf _ a _) _ => a | _ => SSkip end)
                (rof fv v cnt ov pk (with_t rol0 (VCell L 0)) VNull bv (dec k) sx (h ++ [Some [VInt v; VInt cnt; VInt 0]]) m o) oo).
    { intros oo B. cbn [fbody prog_sbdf_read_objects body_of loop_of] in *. apply ALLOC.
      eapply bsE_seq; [eapply bsE_expr; apply ISS|].
      eapply bsE_seq; [unro; eapply bsE_if; [eva; reflexivity|cbn [truth]; rewrite Ep; reflexivity|apply bsE_skip]|].
      eapply bsE_seq; [unro; eapply bsE_expr; eva; chk7; reflexivity|]. revert B. unfold stJ, lst. change (zlen (@nil Z)) with 0. fold is_str. fold L. unro. intros B. exact B. }
    destruct (elems_spec is_str false n k2 sx m) as [qs k' s' m'|st].
    + destruct LB as (ev' & lv' & c1' & c2' & B & Hz). cbn [app] in B, Hz. eexists. split; [|exact Hz].
      apply (WRAP_OK qs k' s' m' ev' lv' c1' c2'). apply TO_LOOP. exact B.
    + destruct LB as (l' & k' & s' & m' & B & Pf). exists l', k', s', (h ++ [None; None]), m'. split; [|split; [right; right; reflexivity|exact Pf]].
      apply WRAP_RET. apply TO_LOOP. exact B.
  - (* packed: the byte-size header is read and ignored, the lengths are 7-bit packed *)
    set (lB := Build_rol (VCell (S L) 0) VUndef VUndef (VInt (b2z is_str)) VUndef VUndef (VCell L 0) VUndef VUndef).
    pose proof (read_int32_bs2 (arr_heap h v cnt [] (zeros n)) fv (VPtr ROut 0) VUndef bv k2 sx m o I I Hs) as R.
    destruct (read_int32 false sx) as [[x s1]|e] eqn:ER.
    + pose proof (read_int32_bytes sx x s1 Hs ER) as Hs1.
      pose proof (loop_bs bv o rf rp fo po h v cnt pk Harr Hc0 n [] k2 s1 m (VInt 0) VUndef VUndef VUndef Hs1 Hn (Forall_nil _)) as LB.
      replace (negb (pk =? 0)) with true in LB by (rewrite Ep; reflexivity). fold is_str in LB.
      assert (TO_LOOP : forall oo, bsE prog_env (loop_of (fbody prog_sbdf_read_objects)) (stJ bv o rf rp fo po h v cnt pk [] n k2 s1 m (VInt 0) VUndef VUndef VUndef) oo ->
                bsE prog_env (match body_of (fbody prog_sbdf_read_objects) with SSeq (SIf _ a _) _ => a | _ => SSkip end)
                  (rof fv v cnt ov pk (with_t rol0 (VCell L 0)) VNull bv (dec k) sx (h ++ [Some [VInt v; VInt cnt; VInt 0]]) m o) oo).
      { intros oo B. cbn [fbody prog_sbdf_read_objects body_of loop_of] in *. apply ALLOC.
        eapply bsE_seq; [eapply bsE_expr; apply ISS|].
        eapply bsE_seq; [unro; eapply bsE_if; [eva; reflexivity|cbn [truth]; rewrite Ep; reflexivity|]|].
        { eapply bsE_seq; [eapply bsE_call; [reflexivity|eva; reflexivity|reflexivity|exact R|unfold ri2; eva; reflexivity]|].
          eapply bsE_if; [eva; reflexivity|reflexivity|apply bsE_skip]. }
        eapply bsE_seq; [eapply bsE_expr; eva; chk7; reflexivity|]. revert B. unfold stJ, lst. change (zlen (@nil Z)) with 0. fold is_str. fold L. unro. intros B. exact B. }
      destruct (elems_spec is_str true n k2 s1 m) as [qs k' s' m'|st].
      * destruct LB as (ev' & lv' & c1' & c2' & B & Hz). cbn [app] in B, Hz. eexists. split; [|exact Hz].
        apply (WRAP_OK qs k' s' m' ev' lv' c1' c2'). apply TO_LOOP. exact B.
      * destruct LB as (l' & k' & s' & m' & B & Pf). exists l', k', s', (h ++ [None; None]), m'. split; [|split; [right; right; reflexivity|exact Pf]].
        apply WRAP_RET. apply TO_LOOP. exact B.
    + destruct R as (c' & s1 & R). pose proof (read_int32_err sx e ER). subst e.
      pose proof (destroy_arr_call bv s1 o fv ov v cnt pk (Build_rol (VCell (S L) 0) (VInt SBDF_ERROR_IO) c' (VInt (b2z is_str)) VUndef VUndef (VCell L 0) VUndef VUndef) VNull k2 h [] (zeros n) m eq_refl Harr
                    ltac:(rewrite zlen_zeros; exact Hn) ltac:(lia) (Forall_nil _) (zeros_null _)) as D.
      eexists (Build_rol _ _ _ _ _ _ _ _ _). do 4 eexists. split; [|split; [right; right; reflexivity|exists []; now rewrite app_nil_r]].
      apply WRAP_RET. cbn [fbody prog_sbdf_read_objects body_of]. apply ALLOC.
      eapply bsE_seq; [eapply bsE_expr; apply ISS|].
      eapply bsE_seq_ret. unro. eapply bsE_if; [eva; reflexivity|cbn [truth]; rewrite Ep; reflexivity|].
      eapply bsE_seq; [eapply bsE_call; [reflexivity|eva; reflexivity|reflexivity|exact R|unfold ri2; eva; reflexivity]|].
      revert D. unro. intros D.
      eapply bsE_if; [eva; reflexivity|reflexivity|]. eapply bsE_seq; [exact D|]. eapply bsE_return. eva. reflexivity.
Qed.
End Arr.

(* ---- as top-level calls ---- *)
Theorem read_objects_arr_source rf rp fo po k sx m h v cnt pk : Forall byte sx -> int_min <= cnt <= int_max -> is_arr v = true ->
  exists f0, forall f, (f0 <= f)%nat ->
  match arr_spec k sx m v cnt pk with
  | EOk qs k' s' m' => exists fin,
      callC prog_env f prog_sbdf_read_objects [VPtr rf fo; VInt v; VInt cnt; VPtr rp po; VInt pk] m k sx h = OReturn (VInt SBDF_OK) fin /\
      lookup "*object" (vars fin) = Some (VCell (List.length h) 0) /\ lookup cells_var (vars fin) = Some (VHeap (arr_heap h v cnt qs [])) /\ zlen qs = cnt /\
      inb fin = m' /\ lookup strm_var (vars fin) = Some (VBytes s') /\ lookup fail_var (vars fin) = Some (VInt k')
  | EErr st => exists fin,
      callC prog_env f prog_sbdf_read_objects [VPtr rf fo; VInt v; VInt cnt; VPtr rp po; VInt pk] m k sx h = OReturn (VInt st) fin /\
      lookup "*object" (vars fin) = Some VNull /\
      (lookup cells_var (vars fin) = Some (VHeap h) \/ lookup cells_var (vars fin) = Some (VHeap (h ++ [None])) \/ lookup cells_var (vars fin) = Some (VHeap (h ++ [None; None]))) /\
      prefix_of m (inb fin)
  end.
Proof.
  intros Hs Hc Ha. pose proof (read_objects_arr_bs (VInt 0) [] rf rp fo po k sx h m v cnt pk VUndef Hs Hc Ha) as B.
  destruct (arr_spec k sx m v cnt pk) as [qs k' s' m'|st].
  - destruct B as (l' & B & Hz). destruct (bsE_sound _ _ _ _ B) as (f0 & F). exists f0. intros f Hf. eexists. split; [apply F; exact Hf|].
    destruct l'. repeat split; try reflexivity. exact Hz.
  - destruct B as (l' & k' & s' & h' & m' & B & Hh & Pf). destruct (bsE_sound _ _ _ _ B) as (f0 & F). exists f0. intros f Hf. eexists. split; [apply F; exact Hf|].
    destruct l'. split; [reflexivity|]. split; [|exact Pf]. destruct Hh as [->|[->| ->]]; [left|right; left|right; right]; reflexivity.
Qed.

(* every element pointer of a successful read points at its own fresh block: the memory is the caller's memory followed by
   one block per element, in order *)
Fixpoint blocks (is_str : bool) (m : list Z) (es : list (list Z)) : list Z :=
  match es with [] => m | e :: r => blocks is_str (elem_block is_str m e) r end.

(* ---- the same in the L1 model (Obj.v): without allocation failures the functional description above is the model's
   read_objects - same status, same stream position, and the memory has grown by exactly the model's elements ---- *)
From Sbdf Require Import Obj.

Lemma take_z_firstn (s : list Z) n : 0 <= n <= zlen s -> take_z s n = Some (firstn (Z.to_nat n) s, skipn (Z.to_nat n) s).
Proof.
  intros H. pose proof (take_z_app (firstn (Z.to_nat n) s) (skipn (Z.to_nat n) s)) as TK.
  rewrite firstn_skipn in TK. replace (zlen (firstn (Z.to_nat n) s)) with n in TK by (unfold zlen; rewrite firstn_length; unfold zlen in H; lia). exact TK.
Qed.

Lemma elems_model is_ty packed k : k < 0 ->
  forall n fuel s m, Forall byte s -> (List.length s <= List.length fuel)%nat ->
  let is_str := is_ty =? SBDF_STRINGTYPEID in
  match rrep fuel (Z.of_nat n) (read_elem false None is_ty packed) s with
  | Ok (es, s') => exists qs, elems_spec is_str packed n k s m = EOk qs k s' (blocks is_str m es) /\ List.length qs = List.length es
  | Err st => elems_spec is_str packed n k s m = EErr st
  end.
Proof.
  intros Hk. induction n as [|n IH]; intros fuel s m Hs Hl is_str.
  - destruct fuel; cbn [rrep Z.of_nat Z.leb Z.compare]; exists []; split; reflexivity.
  - assert (STEP : match read_elem false None is_ty packed s with
                   | Ok (e, s1) => exists len s0, (if packed then read_7bit s else read_int32 false s) = Ok (len, s0) /\ (len <? 0) = false /\
                                     (is_str && (len =? int_max)) = false /\ (zlen s0 <? len) = false /\ e = firstn (Z.to_nat len) s0 /\ s1 = skipn (Z.to_nat len) s0 /\
                                     (List.length s1 < List.length s)%nat
                   | Err st => match (if packed then read_7bit s else read_int32 false s) with
                               | Err e => st = e
                               | Ok (len, s0) => if len <? 0 then st = SBDF_ERROR_INVALID_SIZE else if is_str && (len =? int_max) then st = SBDF_ERROR_OUT_OF_MEMORY
                                                 else (zlen s0 <? len) = true /\ st = SBDF_ERROR_IO
                               end
                   end).
    { unfold read_elem, rd_bind, rfail, ralloc, alloc_ok, fread_bytes. fold is_str. unfold INT_MAX, int_max.
      assert (RL : forall len s0, (if packed then read_7bit s else read_int32 false s) = Ok (len, s0) -> (List.length s0 < List.length s)%nat).
      { intros len s0. destruct packed; intros E; [apply (read7_loop_shr 6 0 0 s len s0 Hs E)|apply (read_int32_range s len s0 Hs E)]. }
      assert (EQ : (if packed then read_7bit else read_int32 false) s = (if packed then read_7bit s else read_int32 false s)) by (destruct packed; reflexivity).
      rewrite EQ. clear EQ.
      destruct (if packed then read_7bit s else read_int32 false s) as [[len s0]|e] eqn:ER; [|reflexivity].
      specialize (RL len s0 eq_refl).
      destruct (len <? 0) eqn:E1; [reflexivity|]. destruct (is_str && (len =? 2147483647)) eqn:E2; [reflexivity|].
      replace (len <? 0) with false by lia.
      destruct (zlen s0 <? len) eqn:E3.
      - rewrite take_z_short by lia. split; reflexivity.
      - rewrite take_z_firstn by lia. exists len, s0. repeat split; try reflexivity; try assumption. rewrite skipn_length. lia. }
    replace (Z.of_nat (S n)) with (Z.of_nat n + 1) by lia.
    assert (Hpos : (Z.of_nat n + 1 <=? 0) = false) by lia.
    destruct fuel as [|b fuel].
    + destruct s; [|cbn [List.length] in Hl; lia]. cbn [rrep]. rewrite Hpos.
      destruct (read_elem false None is_ty packed []) as [[e s1]|st] eqn:RE.
      * destruct STEP as (len & s0 & _ & _ & _ & _ & _ & _ & Hlt). cbn [List.length] in Hlt. lia.
      * cbn [elems_spec]. fold is_str. destruct (if packed then read_7bit [] else read_int32 false []) as [[len s0]|e]; [|now subst].
        destruct (len <? 0); [now subst|]. destruct (is_str && (len =? int_max)); [now subst|]. destruct STEP as (-> & ->). replace (k =? 0) with false by lia. reflexivity.
    + cbn [rrep]. rewrite Hpos. cbn [elems_spec]. fold is_str.
      destruct (read_elem false None is_ty packed s) as [[e s1]|st] eqn:RE.
      * destruct STEP as (len & s0 & ER & E1 & E2 & E3 & -> & -> & Hlt). rewrite ER, E1, E2, E3. replace (k =? 0) with false by lia.
        replace (next_fail k) with k by (unfold next_fail; replace (0 <? k) with false by lia; reflexivity).
        replace (Z.of_nat n + 1 - 1) with (Z.of_nat n) by lia.
        assert (Hs0 : Forall byte (skipn (Z.to_nat len) s0)).
        { apply Forall_skipn_byte. destruct packed; [exact (proj1 (read7_loop_shr 6 0 0 s len s0 Hs ER))|exact (read_int32_bytes s len s0 Hs ER)]. }
        specialize (IH fuel (skipn (Z.to_nat len) s0) (elem_block is_str m (firstn (Z.to_nat len) s0)) Hs0 ltac:(cbn [List.length] in Hl; lia)).
        cbv zeta in IH. fold is_str in IH.
        destruct (rrep fuel (Z.of_nat n) (read_elem false None is_ty packed) (skipn (Z.to_nat len) s0)) as [[es s']|st].
        -- destruct IH as (qs & -> & Hq). eexists. split; [reflexivity|cbn [List.length]; lia].
        -- rewrite IH. reflexivity.
      * destruct (if packed then read_7bit s else read_int32 false s) as [[len s0]|e]; [|now subst].
        destruct (len <? 0); [now subst|]. destruct (is_str && (len =? int_max)); [now subst|]. destruct STEP as (-> & ->). replace (k =? 0) with false by lia. reflexivity.
Qed.

Theorem arr_spec_model k sx m v cnt pk : k < 0 -> is_arr v = true -> Forall byte sx ->
  match read_objects false None v cnt (negb (pk =? 0)) sx with
  | Ok (ob, s') => exists qs, arr_spec k sx m v cnt pk = EOk qs k s' (blocks (v =? SBDF_STRINGTYPEID) m (oelems ob)) /\
                               List.length qs = List.length (oelems ob) /\ oty ob = v
  | Err st => arr_spec k sx m v cnt pk = EErr st
  end.
Proof.
  intros Hk Ha Hs. unfold read_objects, arr_spec. rewrite Ha. destruct (cnt <? 0) eqn:E0; [reflexivity|].
  replace (k =? 0) with false by lia. assert (Dk : dec k = k) by (unfold dec; replace (0 <? k) with false by lia; reflexivity). rewrite !Dk.
  replace (k =? 0) with false by lia.
  unfold rd_bind, ralloc, alloc_ok, rret, rrepeat. 
  destruct (pk =? 0) eqn:Ep; cbn [negb].
  - pose proof (elems_model v false k Hk (Z.to_nat cnt) sx sx m Hs ltac:(lia)) as EM. cbv zeta in EM. rewrite Z2Nat.id in EM by lia.
    destruct (rrep sx cnt (read_elem false None v false) sx) as [[es s']|st].
    + destruct EM as (qs & -> & Hq). exists qs. repeat split; [exact Hq].
    + exact EM.
  - destruct (read_int32 false sx) as [[x s1]|e] eqn:ER; [|reflexivity].
    pose proof (read_int32_bytes sx x s1 Hs ER) as Hs1.
    pose proof (elems_model v true k Hk (Z.to_nat cnt) s1 s1 m Hs1 ltac:(lia)) as EM. cbv zeta in EM. rewrite Z2Nat.id in EM by lia.
    destruct (rrep s1 cnt (read_elem false None v true) s1) as [[es s']|st].
    + destruct EM as (qs & -> & Hq). exists qs. repeat split; [exact Hq].
    + exact EM.
Qed.

(* ================================================================== sbdf_obj_read_arr / sbdf_obj_read for string and binary types *)
Theorem obj_read_arr_arrays_source rf rp fo po k sx m h v : Forall byte sx -> is_arr v = true ->
  exists f0, forall f, (f0 <= f)%nat ->
  match read_int32 false sx with
  | Err st => exists fin, callC prog_env f prog_sbdf_obj_read_arr [VPtr rf fo; VInt v; VPtr rp po] m k sx h = OReturn (VInt st) fin /\
                inb fin = m /\ lookup cells_var (vars fin) = Some (VHeap h)
  | Ok (cnt, s1) =>
    match arr_spec k s1 m v cnt 1 with
    | EOk qs k' s' m' => exists fin,
        callC prog_env f prog_sbdf_obj_read_arr [VPtr rf fo; VInt v; VPtr rp po] m k sx h = OReturn (VInt SBDF_OK) fin /\
        lookup "*array" (vars fin) = Some (VCell (List.length h) 0) /\ lookup cells_var (vars fin) = Some (VHeap (arr_heap h v cnt qs [])) /\ zlen qs = cnt /\
        inb fin = m' /\ lookup strm_var (vars fin) = Some (VBytes s') /\ lookup fail_var (vars fin) = Some (VInt k')
    | EErr st => exists fin,
        callC prog_env f prog_sbdf_obj_read_arr [VPtr rf fo; VInt v; VPtr rp po] m k sx h = OReturn (VInt st) fin /\
        lookup "*array" (vars fin) = Some VNull /\
        (lookup cells_var (vars fin) = Some (VHeap h) \/ lookup cells_var (vars fin) = Some (VHeap (h ++ [None])) \/ lookup cells_var (vars fin) = Some (VHeap (h ++ [None; None]))) /\
        prefix_of m (inb fin)
    end
  end.
Proof.
  intros Hs Ha. pose proof (obj_read_arr_bs rf rp fo po v VUndef (VInt 0) k sx h m [] Hs) as A.
  destruct (read_int32 false sx) as [[cnt s1]|st] eqn:ER.
  - assert (Hc : int_min <= cnt <= int_max) by (eapply read_int32_range; [exact Hs|exact ER]).
    pose proof (read_int32_bytes sx cnt s1 Hs ER) as Hs1.
    pose proof (read_objects_arr_bs (VInt 0) [] rf rp fo po k s1 h m v cnt 1 VUndef Hs1 Hc Ha) as B.
    destruct (arr_spec k s1 m v cnt 1) as [qs k' s' m'|st].
    + destruct B as (l' & B & Hz). destruct (A _ _ _ _ _ _ _ B eq_refl) as (cn & e & B2).
      destruct (bsE_sound _ _ _ _ B2) as (f0 & F). exists f0. intros f Hf. eexists. split; [apply F; exact Hf|]. repeat split; try reflexivity. exact Hz.
    + destruct B as (l' & k' & s' & h' & m' & B & Hh & Pf). destruct (A _ _ _ _ _ _ _ B eq_refl) as (cn & e & B2).
      destruct (bsE_sound _ _ _ _ B2) as (f0 & F). exists f0. intros f Hf. eexists. split; [apply F; exact Hf|]. split; [reflexivity|]. split; [|exact Pf].
      destruct Hh as [->|[->| ->]]; [left|right; left|right; right]; reflexivity.
  - destruct A as (cn & e & r & sx' & B). destruct (bsE_sound _ _ _ _ B) as (f0 & F). exists f0. intros f Hf. eexists. split; [apply F; exact Hf|]. split; reflexivity.
Qed.

(* sbdf_obj_read: one element that is not packed *)
Definition ord (fv : val) (v : Z) (ovv r so bv : val) (k : Z) (sx : list Z) (h : heap) (m o : list Z) : state :=
  fr [("f", fv); ("v", VInt v); ("o", ovv); ("$ret", r); ("*o", so)]%string bv k sx h m o.

Lemma obj_read_bs rf rp fo po v sa bv k sx h m o st l' so' k' sx' h' m' :
  bsE prog_env (fbody prog_sbdf_read_objects) (rof (VPtr rf fo) v 1 (VPtr rp po) 0 rol0 sa bv k sx h m o) (OReturn (VInt st) (rof (VPtr rf fo) v 1 (VPtr rp po) 0 l' so' bv k' sx' h' m' o)) ->
  storable so' = true ->
  bsE prog_env (fbody prog_sbdf_obj_read) (ord (VPtr rf fo) v (VPtr rp po) VUndef sa bv k sx h m o)
    (OReturn (VInt st) (ord (VPtr rf fo) v (VPtr rp po) (VInt st) so' bv k' sx' h' m' o)).
Proof.
  intros B St. destruct l'. revert B. unfold ord, fr. unro. cbn [fbody prog_sbdf_obj_read app]. intros B.
  eapply bsE_seq; [eapply bsE_call; [reflexivity|evoa; chk7; evoa; chk7; reflexivity|reflexivity|exact B|evoa; destruct so'; try discriminate St; evoa; reflexivity]|].
  eapply bsE_return. evoa. reflexivity.
Qed.

Theorem obj_read_fixed_source rf rp fo po k sx m h v : is_arr v = false ->
  exists f0, forall f, (f0 <= f)%nat -> exists fin,
    callC prog_env f prog_sbdf_obj_read [VPtr rf fo; VInt v; VPtr rp po] m k sx h = OReturn (VInt (fixed_status k sx v 1)) fin /\
    (fixed_status k sx v 1 = SBDF_OK ->
       lookup "*o" (vars fin) = Some (VCell (List.length h) 0) /\
       lookup cells_var (vars fin) = Some (VHeap (h ++ [Some [VInt v; VInt 1; VPtr RIn (zlen m)]])) /\
       inb fin = m ++ firstn (Z.to_nat (usize v * 1)) sx /\ lookup strm_var (vars fin) = Some (VBytes (skipn (Z.to_nat (usize v * 1)) sx))) /\
    (fixed_status k sx v 1 <> SBDF_OK ->
       lookup "*o" (vars fin) = Some VNull /\
       (lookup cells_var (vars fin) = Some (VHeap h) \/ lookup cells_var (vars fin) = Some (VHeap (h ++ [None]))) /\ exists m', inb fin = m ++ m').
Proof.
  intros Ha. destruct (read_objects_fixed_bs (VInt 0) [] rf rp fo po k sx m h v 1 0 VUndef ltac:(unfold int_min, int_max; lia) Ha) as (l' & so' & k' & sx' & h' & m' & B & St & P1 & P2).
  pose proof (obj_read_bs rf rp fo po v VUndef (VInt 0) k sx h m [] _ _ _ _ _ _ _ B St) as B2.
  destruct (bsE_sound _ _ _ _ B2) as (f0 & F). exists f0. intros f Hf. eexists. split; [apply F; exact Hf|]. split.
  - intros E. destruct (P1 E) as (-> & -> & -> & -> & _). repeat split; reflexivity.
  - intros E. destruct (P2 E) as (-> & Hh & mm & ->). split; [reflexivity|]. split; [destruct Hh as [->| ->]; [left|right]; reflexivity|exists mm; reflexivity].
Qed.

Theorem obj_read_arrays_source rf rp fo po k sx m h v : Forall byte sx -> is_arr v = true ->
  exists f0, forall f, (f0 <= f)%nat ->
  match arr_spec k sx m v 1 0 with
  | EOk qs k' s' m' => exists fin,
      callC prog_env f prog_sbdf_obj_read [VPtr rf fo; VInt v; VPtr rp po] m k sx h = OReturn (VInt SBDF_OK) fin /\
      lookup "*o" (vars fin) = Some (VCell (List.length h) 0) /\ lookup cells_var (vars fin) = Some (VHeap (arr_heap h v 1 qs [])) /\ zlen qs = 1 /\
      inb fin = m' /\ lookup strm_var (vars fin) = Some (VBytes s') /\ lookup fail_var (vars fin) = Some (VInt k')
  | EErr st => exists fin,
      callC prog_env f prog_sbdf_obj_read [VPtr rf fo; VInt v; VPtr rp po] m k sx h = OReturn (VInt st) fin /\
      lookup "*o" (vars fin) = Some VNull /\
      (lookup cells_var (vars fin) = Some (VHeap h) \/ lookup cells_var (vars fin) = Some (VHeap (h ++ [None])) \/ lookup cells_var (vars fin) = Some (VHeap (h ++ [None; None]))) /\
      prefix_of m (inb fin)
  end.
Proof.
  intros Hs Ha. pose proof (read_objects_arr_bs (VInt 0) [] rf rp fo po k sx h m v 1 0 VUndef Hs ltac:(unfold int_min, int_max; lia) Ha) as B.
  destruct (arr_spec k sx m v 1 0) as [qs k' s' m'|st].
  - destruct B as (l' & B & Hz). pose proof (obj_read_bs rf rp fo po v VUndef (VInt 0) k sx h m [] _ _ _ _ _ _ _ B eq_refl) as B2.
    destruct (bsE_sound _ _ _ _ B2) as (f0 & F). exists f0. intros f Hf. eexists. split; [apply F; exact Hf|]. repeat split; try reflexivity. exact Hz.
  - destruct B as (l' & k' & s' & h' & m' & B & Hh & Pf). pose proof (obj_read_bs rf rp fo po v VUndef (VInt 0) k sx h m [] _ _ _ _ _ _ _ B eq_refl) as B2.
    destruct (bsE_sound _ _ _ _ B2) as (f0 & F). exists f0. intros f Hf. eexists. split; [apply F; exact Hf|]. split; [reflexivity|]. split; [|exact Pf].
    destruct Hh as [->|[->| ->]]; [left|right; left|right; right]; reflexivity.
Qed.
