(* SliceFacts.v — column and table slices on the wire: writers emit enc_cs / enc_ts under every
   budget (C13, C03), readers invert them whatever follows and refuse every strict prefix (C01,
   C06), skipping and column subsets end where the full read ends (C07). *)
From Sbdf Require Import Slice BaseFacts PrimFacts SevenBit ObjFacts VaFacts.
From Coq Require Import ZifyBool.
Ltac Zify.zify_post_hook ::= Z.div_mod_to_equations.

Section SliceFacts.
Variable swp : bool.
Notation cap0 := (@None Z).

Definition enc_prop (p : list Z * va) : list Z := enc_string swp (fst p) ++ enc_va swp (snd p).

Definition enc_cs (c : cs va) : list Z :=
  [223; 91; 4] ++ enc_va swp (csvals c) ++ enc32 swp (zlen (csprops c)) ++ concat (map enc_prop (csprops c)).

Definition wf_prop (p : list Z * va) : Prop := zlen (fst p) < 2147483647 /\ wf_va (snd p) /\ byte_ok (vty (snd p)).

Definition wf_cs (c : cs va) : Prop :=
  wf_va (csvals c) /\ byte_ok (vty (csvals c)) /\ zlen (csprops c) <= 134217727 /\ (forall p, In p (csprops c) -> wf_prop p).

Definition owned_cs (c : cs va) : cs va := {| csvals := csvals c; csprops := csprops c; csowned := true |}.

Lemma enc_va_nonempty v : enc_va swp v <> [].
Proof. unfold enc_va. discriminate. Qed.

Lemma enc_prop_nonempty p : enc_prop p <> [].
Proof.
  unfold enc_prop, enc_string, enc32. destruct p as [n v]. cbn [fst snd].
  destruct swp; cbn; discriminate.
Qed.

(* ---- column slice ---- *)
Lemma wspec_cs c : wf_cs c -> wspec (cs_write swp c) (Ok tt) (enc_cs c).
Proof.
  intros (Wv & Bv & Hn & Wp). unfold cs_write, enc_cs.
  eapply wspec_bind; [apply (wspec_sec SBDF_COLUMNSLICE_SECTIONID)|].
  eapply wspec_bind; [now apply wspec_va|].
  eapply wspec_bind; [apply wspec_int32|].
  apply wspec_wfor. intros p Hp. destruct (Wp p Hp) as (Hl & Wpv & Bp). unfold enc_prop.
  eapply wspec_bind; [apply wspec_string|now apply wspec_va].
Qed.

Lemma rspec_prop p : wf_prop p -> rspec (read_prop swp cap0) (enc_prop p) p.
Proof.
  intros (Hl & Wv & Bv). unfold read_prop, enc_prop.
  eapply rspec_bind; [now apply rspec_string|].
  eapply rspec_ext; [apply app_nil_r|]. eapply rspec_bind; [now apply rspec_va|].
  destruct p. apply rspec_ret.
Qed.

Lemma array_capacity_nonneg_small v : 0 <= v -> True.
Proof. trivial. Qed.

Lemma rspec_cs c : wf_cs c -> rspec (cs_read swp cap0) (enc_cs c) (owned_cs c).
Proof.
  intros (Wv & Bv & Hn & Wp). unfold cs_read, enc_cs. pose proof (zlen_nonneg (csprops c)) as N.
  eapply rspec_bind; [apply (rspec_sec_expect SBDF_COLUMNSLICE_SECTIONID)|].
  eapply rspec_bind; [now apply rspec_va|].
  eapply rspec_bind; [apply rspec_int32; unfold i32_range; lia|].
  destruct (zlen (csprops c) <? 0) eqn:C0; [lia|].
  change (INT_MAX / 16) with 134217727. destruct (134217727 <? zlen (csprops c)) eqn:C1; [lia|].
  eapply rspec_ext; [apply app_nil_l|]. eapply rspec_bind; [unfold ralloc, alloc_ok; apply rspec_ret|].
  eapply rspec_ext; [apply app_nil_r|]. eapply rspec_bind.
  - apply rspec_rrepeat; [intros p Hp; apply rspec_prop; now apply Wp|intros p _; apply enc_prop_nonempty].
  - apply rspec_ret.
Qed.

Lemma skip_prop_exact p tail : wf_prop p -> skip_prop swp (enc_prop p ++ tail) = Ok (tt, tail).
Proof.
  intros (Hl & Wv & Bv). unfold skip_prop, enc_prop, rd_bind. rewrite <- app_assoc.
  rewrite skip_string_exact by lia. now apply va_skip_exact.
Qed.

Lemma rrep_skip_exact (l : list (list Z * va)) : forall fuel tail,
  (forall p, In p l -> wf_prop p) -> (length l <= length fuel)%nat ->
  exists r, rrep fuel (zlen l) (skip_prop swp) (concat (map enc_prop l) ++ tail) = Ok (r, tail).
Proof.
  induction l as [|p l IH]; intros fuel tail W Hf.
  - exists []. destruct fuel; reflexivity.
  - cbn [length] in Hf. destruct fuel as [|b fuel]; [cbn in Hf; lia|].
    cbn [rrep]. rewrite zlen_cons. pose proof (zlen_nonneg l) as N.
    destruct (1 + zlen l <=? 0) eqn:C; [lia|]. cbn [map concat]. rewrite <- app_assoc.
    rewrite skip_prop_exact by (apply W; now left).
    replace (1 + zlen l - 1) with (zlen l) by lia.
    destruct (IH fuel tail) as (r & E); [intros q Hq; apply W; now right|cbn in Hf; lia|].
    rewrite E. eauto.
Qed.

(* C07: skipping a column slice ends where reading it ends, with the same status, whatever follows *)
Lemma cs_skip_exact c tail : wf_cs c -> cs_skip swp (enc_cs c ++ tail) = Ok (tt, tail).
Proof.
  intros (Wv & Bv & Hn & Wp). unfold cs_skip, enc_cs, rd_bind. pose proof (zlen_nonneg (csprops c)) as N.
  rewrite <- !app_assoc.
  destruct (rspec_sec_expect SBDF_COLUMNSLICE_SECTIONID) as [E0 _].
  change ([223; 91; 4] ++ ?x) with ([223; 91; SBDF_COLUMNSLICE_SECTIONID] ++ x). rewrite E0.
  rewrite va_skip_exact by assumption.
  destruct (rspec_int32 swp (zlen (csprops c))) as [E1 _]; [unfold i32_range; lia|]. rewrite E1.
  destruct (zlen (csprops c) <? 0) eqn:C0; [lia|].
  unfold rrepeat.
  destruct (rrep_skip_exact (csprops c) (concat (map enc_prop (csprops c)) ++ tail) tail Wp) as (r & E).
  - rewrite app_length. pose proof (length_concat_ge enc_prop (csprops c) (fun p _ => enc_prop_nonempty p)). lia.
  - rewrite E. reflexivity.
Qed.

(* ---- table slice ---- *)
Definition enc_ts (cols : list (cs va)) : list Z :=
  [223; 91; 3] ++ enc32 swp (zlen cols) ++ concat (map enc_cs cols).

Definition wf_ts (cols : list (cs va)) : Prop := zlen cols < 2147483648 /\ forall c, In c cols -> wf_cs c.

Lemma wspec_ts cols : wf_ts cols ->
  wspec (ts_write swp {| tscols := map Some cols; tsowned := false |}) (Ok tt) (enc_ts cols).
Proof.
  intros (Hn & W). unfold ts_write, enc_ts. cbn [tscols].
  eapply wspec_bind; [apply (wspec_sec SBDF_TABLESLICE_SECTIONID)|].
  eapply wspec_bind; [rewrite zlen_map; apply wspec_int32|].
  assert (G : concat (map enc_cs cols) = concat (map (fun oc : option (cs va) => match oc with Some c => enc_cs c | None => [] end) (map Some cols)))
    by (rewrite map_map; reflexivity).
  rewrite G. apply wspec_wfor. intros oc Hoc. apply in_map_iff in Hoc. destruct Hoc as (c & <- & Hc).
  apply wspec_cs. now apply W.
Qed.

(* which columns a read with a subset delivers *)
Fixpoint mask (subset : option (list Z)) (cols : list (cs va)) : list (option (cs va)) :=
  match cols with
  | [] => []
  | c :: r =>
    (match subset with None => Some (owned_cs c) | Some l => if hd 0 l =? 0 then None else Some (owned_cs c) end)
    :: mask (option_map (@tl Z) subset) r
  end.

Lemma read_cols_exact cols : forall subset tail,
  (forall c, In c cols -> wf_cs c) ->
  read_cols swp cap0 (length cols) subset (concat (map enc_cs cols) ++ tail) = Ok (mask subset cols, tail).
Proof.
  induction cols as [|c cols IH]; intros subset tail W; [reflexivity|].
  cbn [length read_cols map concat mask]. unfold rd_bind. rewrite <- app_assoc.
  assert (Wc : wf_cs c) by (apply W; now left).
  destruct (match subset with None => true | Some l => negb (hd 0 l =? 0) end) eqn:S.
  - destruct (rspec_cs c Wc) as [E _]. rewrite E. unfold rret.
    rewrite IH by (intros d Hd; apply W; now right).
    destruct subset as [l|]; [|reflexivity]. destruct (hd 0 l =? 0); [discriminate|reflexivity].
  - rewrite cs_skip_exact by exact Wc. unfold rret.
    rewrite IH by (intros d Hd; apply W; now right).
    destruct subset as [l|]; [|discriminate]. destruct (hd 0 l =? 0); [reflexivity|discriminate].
Qed.

(* C07 / C11: a slice is read against metadata with the same number of columns; with a subset the
   selected columns are those of the full read, the others are absent, and the read ends at the
   same position *)
Theorem ts_read_exact cols subset tail : wf_ts cols ->
  ts_read swp cap0 (zlen cols) subset (enc_ts cols ++ tail) = Ok ({| tscols := mask subset cols; tsowned := true |}, tail).
Proof.
  intros (Hn & W). unfold ts_read, enc_ts, rd_bind. pose proof (zlen_nonneg cols) as N.
  rewrite <- !app_assoc.
  destruct (rspec_sec_read SBDF_TABLESLICE_SECTIONID) as [E0 _].
  change ([223; 91; 3] ++ ?x) with ([223; 91; SBDF_TABLESLICE_SECTIONID] ++ x). rewrite E0.
  change (SBDF_TABLESLICE_SECTIONID =? SBDF_TABLEEND_SECTIONID) with false. cbn iota.
  rewrite Z.eqb_refl. cbn [negb].
  destruct (rspec_int32 swp (zlen cols)) as [E1 _]; [unfold i32_range; lia|]. rewrite E1.
  destruct (zlen cols <? 0) eqn:C0; [lia|]. rewrite Z.eqb_refl. cbn [negb].
  unfold ralloc, alloc_ok.
  replace (Z.to_nat (zlen cols)) with (length cols) by (unfold zlen; now rewrite Nat2Z.id).
  rewrite read_cols_exact by exact W. reflexivity.
Qed.

Lemma mask_none cols : mask None cols = map (fun c => Some (owned_cs c)) cols.
Proof. induction cols as [|c cols IH]; cbn [mask map option_map]; [reflexivity|now rewrite IH]. Qed.

(* a slice whose column count differs from the metadata is refused *)
Theorem ts_read_count_mismatch cols ncols subset tail : wf_ts cols -> ncols <> zlen cols ->
  ts_read swp cap0 ncols subset (enc_ts cols ++ tail) = Err SBDF_ERROR_COLUMN_COUNT_MISMATCH.
Proof.
  intros (Hn & W) Hne. unfold ts_read, enc_ts, rd_bind. pose proof (zlen_nonneg cols) as N.
  rewrite <- !app_assoc.
  destruct (rspec_sec_read SBDF_TABLESLICE_SECTIONID) as [E0 _].
  change ([223; 91; 3] ++ ?x) with ([223; 91; SBDF_TABLESLICE_SECTIONID] ++ x). rewrite E0.
  change (SBDF_TABLESLICE_SECTIONID =? SBDF_TABLEEND_SECTIONID) with false. cbn iota.
  rewrite Z.eqb_refl. cbn [negb].
  destruct (rspec_int32 swp (zlen cols)) as [E1 _]; [unfold i32_range; lia|]. rewrite E1.
  destruct (zlen cols <? 0) eqn:C0; [lia|].
  destruct (zlen cols =? ncols) eqn:C1; [lia|]. reflexivity.
Qed.

(* the end marker in slice position is the end-of-table indication, and it is consumed *)
Theorem ts_read_end ncols subset tail :
  ts_read swp cap0 ncols subset ([223; 91; 5] ++ tail) = Err SBDF_TABLEEND.
Proof. reflexivity. Qed.

(* full read of a slice as a codec statement: exact whatever follows, every strict prefix refused (C06) *)
Lemma rspec_read_cols_all cols :
  (forall c, In c cols -> wf_cs c) ->
  rspec (read_cols swp cap0 (length cols) None) (concat (map enc_cs cols)) (map (fun c => Some (owned_cs c)) cols).
Proof.
  induction cols as [|c cols IH]; intros W; cbn [length read_cols map concat option_map].
  - apply rspec_ret.
  - eapply rspec_bind.
    + eapply rspec_ext; [apply app_nil_r|]. eapply rspec_bind; [apply rspec_cs; apply W; now left|]. apply rspec_ret.
    + eapply rspec_ext; [apply app_nil_r|]. eapply rspec_bind; [apply IH; intros d Hd; apply W; now right|]. apply rspec_ret.
Qed.

Definition owned_ts (cols : list (cs va)) : ts (cs va) :=
  {| tscols := map (fun c => Some (owned_cs c)) cols; tsowned := true |}.

Lemma rspec_sec_read_slice :
  rspec (v <-r sec_read ;;
         if v =? SBDF_TABLEEND_SECTIONID then rfail SBDF_TABLEEND else
         if negb (v =? SBDF_TABLESLICE_SECTIONID) then rfail SBDF_ERROR_UNEXPECTED_SECTION_ID else rret tt)
        [223; 91; 3] tt.
Proof.
  eapply rspec_ext; [apply app_nil_r|]. eapply rspec_bind; [apply (rspec_sec_read SBDF_TABLESLICE_SECTIONID)|].
  change (SBDF_TABLESLICE_SECTIONID =? SBDF_TABLEEND_SECTIONID) with false. cbn iota. rewrite Z.eqb_refl. cbn [negb]. apply rspec_ret.
Qed.

Theorem rspec_ts cols : wf_ts cols -> rspec (ts_read swp cap0 (zlen cols) None) (enc_ts cols) (owned_ts cols).
Proof.
  intros (Hn & W). pose proof (zlen_nonneg cols) as N. unfold enc_ts.
  (* re-associate ts_read as: marker; count; columns *)
  assert (E : forall s, ts_read swp cap0 (zlen cols) None s =
      rd_bind (v <-r sec_read ;;
               if v =? SBDF_TABLEEND_SECTIONID then rfail SBDF_TABLEEND else
               if negb (v =? SBDF_TABLESLICE_SECTIONID) then rfail SBDF_ERROR_UNEXPECTED_SECTION_ID else rret tt)
        (fun _ => cc <-r read_int32 swp ;;
                  if cc <? 0 then rfail SBDF_ERROR_INVALID_SIZE else
                  if negb (cc =? zlen cols) then rfail SBDF_ERROR_COLUMN_COUNT_MISMATCH else
                  ralloc cap0 (array_capacity cc * 8) ;;r
                  l <-r read_cols swp cap0 (Z.to_nat cc) None ;;
                  rret {| tscols := l; tsowned := true |}) s).
  { intros s. unfold ts_read, rd_bind, rfail, rret. destruct (sec_read s) as [[v s1]|]; [|reflexivity].
    destruct (v =? SBDF_TABLEEND_SECTIONID); [reflexivity|]. destruct (negb (v =? SBDF_TABLESLICE_SECTIONID)); reflexivity. }
  split.
  - intros tail. fold (enc_ts cols). rewrite (ts_read_exact cols None tail (conj Hn W)). now rewrite mask_none.
  - intros n Hn'. rewrite E.
    assert (R : rspec (rd_bind (v <-r sec_read ;;
               if v =? SBDF_TABLEEND_SECTIONID then rfail SBDF_TABLEEND else
               if negb (v =? SBDF_TABLESLICE_SECTIONID) then rfail SBDF_ERROR_UNEXPECTED_SECTION_ID else rret tt)
        (fun _ => cc <-r read_int32 swp ;;
                  if cc <? 0 then rfail SBDF_ERROR_INVALID_SIZE else
                  if negb (cc =? zlen cols) then rfail SBDF_ERROR_COLUMN_COUNT_MISMATCH else
                  ralloc cap0 (array_capacity cc * 8) ;;r
                  l <-r read_cols swp cap0 (Z.to_nat cc) None ;;
                  rret {| tscols := l; tsowned := true |}))
        ([223; 91; 3] ++ enc32 swp (zlen cols) ++ concat (map enc_cs cols)) (owned_ts cols)).
    { eapply rspec_bind; [apply rspec_sec_read_slice|].
      eapply rspec_bind; [apply rspec_int32; unfold i32_range; lia|].
      destruct (zlen cols <? 0) eqn:C0; [lia|]. rewrite Z.eqb_refl. cbn [negb].
      eapply rspec_ext; [apply app_nil_l|]. eapply rspec_bind; [unfold ralloc, alloc_ok; apply rspec_ret|].
      eapply rspec_ext; [apply app_nil_r|]. eapply rspec_bind.
      - replace (Z.to_nat (zlen cols)) with (length cols) by (unfold zlen; now rewrite Nat2Z.id). now apply rspec_read_cols_all.
      - apply rspec_ret. }
    destruct R as [_ T]. apply T. exact Hn'.
Qed.

(* sbdf_ts_skip ends where a full read of the slice ends *)
Theorem ts_skip_exact cols tail : wf_ts cols -> ts_skip swp cap0 (zlen cols) (enc_ts cols ++ tail) = Ok (tt, tail).
Proof.
  intros W. unfold ts_skip, rd_bind, ralloc, alloc_ok, rret.
  now rewrite (ts_read_exact cols (Some (repeat 0 (Z.to_nat (zlen cols)))) tail W).
Qed.

End SliceFacts.
