(* ImpFactsCsRead.v - sbdf_cs_read from the source (translated with its "goto end" as a loop that runs once): the section
   marker, the slice struct, the values through sbdf_va_read, the property count; on every failure behind the
   allocation of the struct sbdf_cs_destroy releases what was built.  Stated here for streams whose property count is
   not positive (the property loop is not covered), under EVERY allocation schedule. *)
From Sbdf Require Import ImpCall Gen.Prog Gen.Consts Base Prim Obj Va BaseFacts LeafTie ImpBase ImpFactsCells ImpFactsGrow ImpFactsDestroy
  ImpFactsInt32 ImpFactsRead ImpFactsReadObj ImpFactsReadArr ImpFactsSkipObj SkipLaws ImpFactsFrame ImpFactsRelease ImpFactsReleaseAll ImpFactsReadVa.
From Coq Require Import ZifyBool.
Local Open Scope Z_scope.
Ltac Zify.zify_post_hook ::= Z.div_mod_to_equations.

Ltac evk := cbn [prog_env eval_args callee_init finish_call copy_in copy_out try_update update lookup combine map app String.append
                 String.eqb Ascii.eqb Bool.eqb fparams flocals vars inb outb budget_var fail_var strm_var cells_var cell_token List.length Nat.eqb eval set_var cast
                 truth binop_int b2z negb heap_of as_ptr storable fst snd stream_of set_stream
                 prog_sbdf_read_int8 prog_sbdf_sec_read prog_sbdf_sec_expect prog_sbdf_read_int32 prog_sbdf_va_read prog_sbdf_va_destroy
                 prog_sbdf_cs_destroy prog_sbdf_cs_destroy_all prog_sbdf_cs_read];
  change (0 =? 0) with true; change (1 =? 0) with false; cbn [negb b2z].

(* ================================================================== releasing a value array with more blocks behind it *)
Lemma destroys_length m h ob h' : destroys m h ob h' -> List.length h' = List.length h.
Proof. intros [(db & ty & cells & data & _ & _ & _ & _ & _ & _ & _ & ->)|(ty & cnt & dp & _ & _ & _ & ->)]; rewrite ?kill_length; reflexivity. Qed.

Lemma destroys_opt_length m h ov h' : destroys_opt m h ov h' -> List.length h' = List.length h.
Proof. intros [(_ & ->)|(ob & _ & D)]; [reflexivity|eapply destroys_length; exact D]. Qed.

Lemma destroys_opt_grow m m2 h ov hk x : destroys_opt m h ov hk -> zlen m <= zlen m2 -> destroys_opt m2 (h ++ x) ov (hk ++ x).
Proof. intros [(N & ->)|(ob & P & D)] Hm; [left; split; [exact N|reflexivity]|right; exists ob; split; [exact P|apply (destroys_grow m m2 h ob hk x D Hm)]]. Qed.

Lemma va_rel_grow m m2 h vb hf x : va_rel m h vb hf -> zlen m <= zlen m2 -> va_rel m2 (h ++ x) vb (hf ++ x).
Proof.
  intros (ty & enc & v1 & o1 & o2 & h1 & h2 & Hv & D1 & D2 & K1 & K2 & ->) Hm.
  assert (Lv : (vb < List.length h)%nat) by (apply nth_error_Some; unfold va_block in Hv; rewrite Hv; discriminate).
  pose proof (destroys_opt_length _ _ _ _ D1) as L1. pose proof (destroys_opt_length _ _ _ _ D2) as L2.
  exists ty, enc, v1, o1, o2, (h1 ++ x), (h2 ++ x).
  split; [unfold va_block in *; rewrite nth_error_app1 by lia; exact Hv|].
  split; [apply (destroys_opt_grow m m2 _ _ _ x D1 Hm)|]. split; [apply (destroys_opt_grow m m2 _ _ _ x D2 Hm)|].
  split; [rewrite !nth_error_app1 by lia; exact K1|]. split; [rewrite !nth_error_app1 by lia; exact K2|].
  rewrite kill_app by lia. reflexivity.
Qed.

Lemma va_rel_length m h vb hf : va_rel m h vb hf -> List.length hf = List.length h.
Proof.
  intros (ty & enc & v1 & o1 & o2 & h1 & h2 & _ & D1 & D2 & _ & _ & ->).
  rewrite kill_length, (destroys_opt_length _ _ _ _ D2), (destroys_opt_length _ _ _ _ D1). reflexivity.
Qed.

Section CsRead.
Variables (bv : val) (o : list Z).

(* ================================================================== section markers, the stream kept apart from the memory *)
Definition sr2 (fv pv e v r cell : val) (k : Z) (sx : list Z) (h : heap) (m : list Z) : state :=
  fr [("f", fv); ("id", pv); ("error", e); ("v", v); ("$ret", r); ("*id", cell)]%string bv k sx h m o.

Ltac call8 R := eapply bsE_call; [reflexivity|evk; reflexivity|reflexivity|exact R|unfold rd8s, fr; evk; reflexivity].
Ltac noerr := eapply bsE_if; [evk; reflexivity|reflexivity|apply bsE_skip].
Ltac reterr := eapply bsE_if; [evk; reflexivity|reflexivity|eapply bsE_return; evk; reflexivity].
Ltac decls2 := eapply bsE_seq; [eapply bsE_seq; [eapply bsE_decl0; evk; reflexivity|eapply bsE_decl0; evk; reflexivity]|].

Lemma sec_read_bs2 fv pv e v r cell k sx h m : is_ptr fv -> is_ptr pv -> Forall byte sx ->
  match sec_read sx with
  | Ok (x, s') => exists e' v' r', bsE prog_env (fbody prog_sbdf_sec_read) (sr2 fv pv e v r cell k sx h m)
                                      (OReturn (VInt SBDF_OK) (sr2 fv pv e' v' r' (VInt x) k s' h m))
  | Err st => exists e' v' r' s', bsE prog_env (fbody prog_sbdf_sec_read) (sr2 fv pv e v r cell k sx h m)
                                      (OReturn (VInt st) (sr2 fv pv e' v' r' cell k s' h m))
  end.
Proof.
  intros Hf Hp Hs. destruct fv as [| rf fo | | | | |]; try contradiction. destruct pv as [| rp po | | | | |]; try contradiction.
  cbn [fbody prog_sbdf_sec_read]. unfold sr2, fr, sec_read, rd_bind, rfail. cbn [app].
  destruct sx as [|b1 s]; cbn [read_int8].
  { pose proof (read_int8_bs2 bv k h m o (VPtr rf fo) (VPtr ROut 0) VUndef VUndef [] I I Hs) as R1. cbv iota in R1.
    do 4 eexists. decls2. eapply bsE_seq_ret. eapply bsE_seq; [call8 R1|]. reterr. }
  pose proof (read_int8_bs2 bv k h m o (VPtr rf fo) (VPtr ROut 0) VUndef VUndef (b1 :: s) I I Hs) as R1. cbv iota in R1.
  inversion Hs as [|? ? Hb1 Hs1]. subst. unfold byte in Hb1.
  destruct (b1 =? 223) eqn:E1; cbn [negb].
  2: { do 4 eexists. decls2. eapply bsE_seq; [eapply bsE_seq; [call8 R1|noerr]|].
       eapply bsE_seq_ret. eapply bsE_if; [evk; chk7; evk; rewrite E1; evk; reflexivity|reflexivity|]. eapply bsE_return. evk. chk7. reflexivity. }
  destruct s as [|b2 s]; cbn [read_int8].
  { pose proof (read_int8_bs2 bv k h m o (VPtr rf fo) (VPtr ROut 0) VUndef (VInt b1) [] I I Hs1) as R2. cbv iota in R2.
    do 4 eexists. decls2. eapply bsE_seq; [eapply bsE_seq; [call8 R1|noerr]|].
    eapply bsE_seq; [eapply bsE_if; [evk; chk7; evk; rewrite E1; evk; reflexivity|reflexivity|apply bsE_skip]|].
    eapply bsE_seq_ret. eapply bsE_seq; [call8 R2|]. reterr. }
  pose proof (read_int8_bs2 bv k h m o (VPtr rf fo) (VPtr ROut 0) VUndef (VInt b1) (b2 :: s) I I Hs1) as R2. cbv iota in R2.
  inversion Hs1 as [|? ? Hb2 Hs2]. subst. unfold byte in Hb2.
  destruct (b2 =? 91) eqn:E2; cbn [negb].
  2: { do 4 eexists. decls2. eapply bsE_seq; [eapply bsE_seq; [call8 R1|noerr]|].
       eapply bsE_seq; [eapply bsE_if; [evk; chk7; evk; rewrite E1; evk; reflexivity|reflexivity|apply bsE_skip]|].
       eapply bsE_seq; [eapply bsE_seq; [call8 R2|noerr]|].
       eapply bsE_seq_ret. eapply bsE_if; [evk; chk7; evk; rewrite E2; evk; reflexivity|reflexivity|]. eapply bsE_return. evk. chk7. reflexivity. }
  pose proof (read_int8_bs2 bv k h m o (VPtr rf fo) (VPtr rp po) VUndef cell s I I Hs2) as R3.
  destruct s as [|b3 s].
  { do 4 eexists. decls2. eapply bsE_seq; [eapply bsE_seq; [call8 R1|noerr]|].
    eapply bsE_seq; [eapply bsE_if; [evk; chk7; evk; rewrite E1; evk; reflexivity|reflexivity|apply bsE_skip]|].
    eapply bsE_seq; [eapply bsE_seq; [call8 R2|noerr]|].
    eapply bsE_seq; [eapply bsE_if; [evk; chk7; evk; rewrite E2; evk; reflexivity|reflexivity|apply bsE_skip]|].
    eapply bsE_seq; [call8 R3|]. eapply bsE_return. evk. reflexivity. }
  do 3 eexists. decls2. eapply bsE_seq; [eapply bsE_seq; [call8 R1|noerr]|].
  eapply bsE_seq; [eapply bsE_if; [evk; chk7; evk; rewrite E1; evk; reflexivity|reflexivity|apply bsE_skip]|].
  eapply bsE_seq; [eapply bsE_seq; [call8 R2|noerr]|].
  eapply bsE_seq; [eapply bsE_if; [evk; chk7; evk; rewrite E2; evk; reflexivity|reflexivity|apply bsE_skip]|].
  eapply bsE_seq; [call8 R3|]. eapply bsE_return. evk. reflexivity.
Qed.

Definition se2 (fv : val) (id : Z) (e v : val) (k : Z) (sx : list Z) (h : heap) (m : list Z) : state :=
  fr [("f", fv); ("id", VInt id); ("error", e); ("v", v)]%string bv k sx h m o.

Lemma sec_expect_bs2 fv id e v k sx h m : is_ptr fv -> Forall byte sx -> int_min <= id <= int_max ->
  match sec_expect id sx with
  | Ok (_, s') => exists e' v', bsE prog_env (fbody prog_sbdf_sec_expect) (se2 fv id e v k sx h m) (OReturn (VInt SBDF_OK) (se2 fv id e' v' k s' h m))
  | Err st => exists e' v' s', bsE prog_env (fbody prog_sbdf_sec_expect) (se2 fv id e v k sx h m) (OReturn (VInt st) (se2 fv id e' v' k s' h m))
  end.
Proof.
  intros Hf Hs Hid. pose proof (sec_read_bs2 fv (VPtr ROut 0) VUndef VUndef VUndef VUndef k sx h m Hf I Hs) as R.
  destruct fv as [| rf fo | | | | |]; try contradiction.
  cbn [fbody prog_sbdf_sec_expect]. unfold se2, fr, sec_expect, rd_bind, rfail, rret. cbn [app].
  destruct (sec_read sx) as [[x s']|st] eqn:ER.
  - destruct R as (e1 & v1 & r1 & B).
    destruct (x =? id) eqn:E; cbn [negb].
    + do 2 eexists. decls2.
      eapply bsE_seq; [eapply bsE_seq; [eapply bsE_call; [reflexivity|evk; reflexivity|reflexivity|exact B|unfold sr2, fr; evk; reflexivity]|noerr]|].
      eapply bsE_seq; [eapply bsE_if; [evk; chk7; evk; rewrite E; evk; reflexivity|reflexivity|apply bsE_skip]|].
      eapply bsE_return. evk. reflexivity.
    + do 3 eexists. decls2.
      eapply bsE_seq; [eapply bsE_seq; [eapply bsE_call; [reflexivity|evk; reflexivity|reflexivity|exact B|unfold sr2, fr; evk; reflexivity]|noerr]|].
      eapply bsE_seq_ret. eapply bsE_if; [evk; chk7; evk; rewrite E; evk; reflexivity|reflexivity|]. eapply bsE_return. evk. chk7. reflexivity.
  - destruct R as (e1 & v1 & r1 & s1 & B).
    destruct (sec_read_err sx st ER) as [-> | ->].
    all: do 3 eexists; decls2; eapply bsE_seq_ret; (eapply bsE_seq; [eapply bsE_call; [reflexivity|evk; reflexivity|reflexivity|exact B|unfold sr2, fr; evk; reflexivity]|]); reterr.
Qed.

(* ================================================================== sbdf_va_read as a callee: the frame it leaves *)
Lemma va_read_bs rf rp fo po k sx h m sh : Forall byte sx -> (forall t s2, sx <> 3 :: t :: s2) ->
  let L := List.length h in
  exists st e' sh' k' s' h' m',
    bsE prog_env (fbody prog_sbdf_va_read) (vrd (VPtr rf fo) (VPtr rp po) VUndef sh bv k sx h m o)
      (OReturn (VInt st) (vrd (VPtr rf fo) (VPtr rp po) e' sh' bv k' s' h' m' o)) /\ prefix_of m m' /\
    ((st = SBDF_OK /\ sh' = VCell L 0 /\ Forall byte s' /\ exists blk newb, h' = h ++ Some blk :: newb /\
        forall hp : heap, List.length hp = L -> va_rel m' (hp ++ Some blk :: newb) L (hp ++ None :: nones (List.length newb)))
     \/ (st < 0 /\ sh' = VNull /\ exists j, h' = h ++ nones j)) /\
    (st = SBDF_OK -> match Va.va_read false None sx with Ok (_, sM) => s' = sM | Err _ => False end) /\
    (k < 0 -> match Va.va_read false None sx with Ok (_, sM) => st = SBDF_OK | Err e => st = e end) /\
    (k < 0 -> st = SBDF_OK -> k' = k).
Proof.
  intros Hs H3 L.
  destruct (rvi_read_bs bv o rf rp fo po k sx h m VNull Hs H3) as (st & l' & sh' & k' & s' & h' & m' & B & Pf & MT & Out & PP & KK).
  assert (MT' : k < 0 -> match Va.va_read false None sx with Ok (_, sM) => st = SBDF_OK | Err e => st = e end).
  { intros Hk. specialize (MT Hk). destruct (Va.va_read false None sx) as [[va sM]|eM]; [destruct MT as (MT & _); exact MT|exact MT]. }
  clear MT.
  destruct l'. revert B. unrv. intros B.
  destruct Out as [(-> & -> & Hb' & blk & newb & -> & VR)|(Hneg & j & ->)].
  - exists SBDF_OK. do 6 eexists. split; [|split; [exact Pf|split; [left; split; [reflexivity|split; [reflexivity|split; [exact Hb'|exists blk, newb; split; [reflexivity|exact VR]]]]|split; [exact PP|split; [exact MT'|exact KK]]]]].
    cbn [fbody prog_sbdf_va_read]. unfold vrd, fr. cbn [app].
    eapply bsE_seq; [eapply bsE_decl0; evk; reflexivity|].
    eapply bsE_seq; [eapply bsE_if; [evk; reflexivity|reflexivity|apply bsE_skip]|].
    eapply bsE_seq; [eapply bsE_expr; evk; reflexivity|].
    eapply bsE_seq; [eapply bsE_call; [reflexivity|evk; reflexivity|reflexivity|exact B|evk; reflexivity]|].
    eapply bsE_seq; [eapply bsE_if; [evk; reflexivity|reflexivity|apply bsE_skip]|]. eapply bsE_return. evk. reflexivity.
  - exists st. do 6 eexists. split; [|split; [exact Pf|split; [right; split; [exact Hneg|split; [reflexivity|exists j; reflexivity]]|split; [intros X; unfold SBDF_OK in X; lia|split; [exact MT'|exact KK]]]]].
    cbn [fbody prog_sbdf_va_read]. unfold vrd, fr. cbn [app].
    eapply bsE_seq; [eapply bsE_decl0; evk; reflexivity|].
    eapply bsE_seq; [eapply bsE_if; [evk; reflexivity|reflexivity|apply bsE_skip]|].
    eapply bsE_seq; [eapply bsE_expr; evk; reflexivity|].
    eapply bsE_seq; [eapply bsE_call; [reflexivity|evk; reflexivity|reflexivity|exact B|evk; reflexivity]|].
    eapply bsE_seq; [eapply bsE_if; [evk; reflexivity|cbn [truth]; replace (st =? 0) with false by lia; reflexivity|eapply bsE_expr; evk; reflexivity]|]. eapply bsE_return. evk. reflexivity.
Qed.

(* ================================================================== sbdf_cs_destroy on what sbdf_cs_read has built before the property arrays exist:
   the slice owns its values (null, or a value array that was read), has no names and no properties *)
Lemma cs_destroy_fresh_bs k sx m h cb values h1 h3 i0 :
  cs_block h cb values 0 (VInt 0) (VInt 0) 1 ->
  va_destroys_opt m h values h1 -> nth_error h1 cb = nth_error h cb ->
  cell_set h1 cb 4 (VInt 0) = Some h3 -> cs_block h3 cb values 0 (VInt 0) (VInt 0) 0 ->
  bsE prog_env (fbody prog_sbdf_cs_destroy) (fr [("cs"%string, VCell cb 0); ("i"%string, i0)] bv k sx h m o)
    (OReturn (VInt 0) (fr [("cs"%string, VCell cb 0); ("i"%string, VUndef)] bv k sx (kill cb h3) m o)).
Proof.
  intros Hc D1 K1 E3 Hc3.
  pose proof (va_destroy_opt_bs bv k sx m o h values h1 D1) as VD. unfold fr in VD. cbn [app] in VD.
  pose proof (cs_destroy_empty_bs bv k sx m o h3 cb values VUndef Hc3) as CD. unfold fr in CD. cbn [app] in CD.
  assert (Hc1 : nth_error h1 cb = Some (Some [values; VInt 0; VInt 0; VInt 0; VInt 1])) by (rewrite K1; exact Hc).
  unfold cs_block in Hc.
  assert (ALL : bsE prog_env (fbody prog_sbdf_cs_destroy_all)
                  {| vars := [("cs"%string, VCell cb 0); ("i"%string, VUndef); (budget_var, bv); (fail_var, VInt k); (strm_var, VBytes sx); (cells_var, VHeap h)]; inb := m; outb := o |}
                  (ONormal {| vars := [("cs"%string, VCell cb 0); ("i"%string, VUndef); (budget_var, bv); (fail_var, VInt k); (strm_var, VBytes sx); (cells_var, VHeap (kill cb h3))]; inb := m; outb := o |})).
  { cbn [fbody prog_sbdf_cs_destroy_all].
    eapply bsE_seq.
    - eapply bsE_if; [eva; reflexivity|reflexivity|].
      eapply bsE_seq; [eapply bsE_decl0; eva; reflexivity|].
      eapply bsE_seq; [eapply bsE_call_void; [reflexivity|eva; chk7; eva; cellrw Hc; eva; reflexivity|reflexivity|eva; exact VD|eva; reflexivity]|].
      eapply bsE_seq; [eapply bsE_if; [eva; chk7; eva; cellrw Hc1; eva; reflexivity|reflexivity|apply bsE_skip]|].
      eapply bsE_expr. eva. chk7. eva. chk7. eva. replace (0 + 4) with 4 by lia. rewrite E3. eva. reflexivity.
    - eapply bsE_call_void; [reflexivity|eva; reflexivity|reflexivity|eva; exact CD|eva; reflexivity]. }
  cbn [fbody prog_sbdf_cs_destroy]. unfold fr. cbn [app].
  eapply bsE_if; [eva; reflexivity|reflexivity|].
  eapply bsE_seq; [eapply bsE_decl0; eva; reflexivity|].
  eapply bsE_seq_ret. eapply bsE_if; [eva; chk7; eva; cellrw Hc; eva; reflexivity|reflexivity|].
  eapply bsE_seq; [eapply bsE_call_void; [reflexivity|eva; reflexivity|reflexivity|eva; exact ALL|eva; reflexivity]|].
  eapply bsE_return. eva. chk7. reflexivity.
Qed.

(* a slice that sbdf_cs_destroy releases completely - wherever it stands in the heap (any blocks of the same number in front, any
   blocks behind) and however the memory has grown since: hnew are the slice's blocks, the struct first *)
Definition cs_sem (m : list Z) (L : nat) (hnew : heap) : Prop :=
  forall (pre x : heap) m3 kk sxx, List.length pre = L -> zlen m <= zlen m3 ->
    bsE prog_env (fbody prog_sbdf_cs_destroy) (fr [("cs"%string, VCell L 0); ("i"%string, VUndef)] bv kk sxx (pre ++ hnew ++ x) m3 o)
      (OReturn (VInt 0) (fr [("cs"%string, VCell L 0); ("i"%string, VUndef)] bv kk sxx (pre ++ nones (List.length hnew) ++ x) m3 o)).

Lemma cs_sem_fresh m2 L blk newb :
  (forall hp : heap, List.length hp = S L -> va_rel m2 (hp ++ Some blk :: newb) (S L) (hp ++ None :: nones (List.length newb))) ->
  cs_sem m2 L (Some [VCell (S L) 0; VInt 0; VInt 0; VInt 0; VInt 1] :: Some blk :: newb).
Proof.
  intros VR pre x m3 kk sxx Hpre Hm. subst L.
  assert (NTH : forall (b : list val) (rest : heap), nth_error (pre ++ Some b :: rest) (List.length pre) = Some (Some b)) by (intros; rewrite nth_error_app2 by lia; rewrite Nat.sub_diag; reflexivity).
  assert (KL : forall (b : list val) (rest : heap), kill (List.length pre) (pre ++ Some b :: rest) = pre ++ None :: rest) by (intros; unfold kill; rewrite set_nth_v_app; reflexivity).
  set (L := List.length pre) in *.
  set (slice := [VCell (S L) 0; VInt 0; VInt 0; VInt 0; VInt 1]).
  set (hpY := pre ++ [Some slice]).
  assert (HpY : List.length hpY = S L) by (unfold hpY; rewrite app_length; cbn; lia).
  set (h1 := pre ++ Some slice :: None :: nones (List.length newb) ++ x).
  set (h3 := pre ++ Some [VCell (S L) 0; VInt 0; VInt 0; VInt 0; VInt 0] :: None :: nones (List.length newb) ++ x).
  pose proof (cs_destroy_fresh_bs kk sxx m3 (pre ++ Some slice :: Some blk :: newb ++ x) L (VCell (S L) 0) h1 h3 VUndef (NTH _ _)
                ltac:(right; exists (S L); split; [reflexivity|];
                      pose proof (va_rel_grow m2 m3 _ _ _ x (VR hpY HpY) Hm) as G; unfold hpY in G; rewrite <- !app_assoc in G; cbn [app] in G; unfold h1; exact G)
                ltac:(unfold h1; rewrite !NTH; reflexivity)
                ltac:(unfold h1, h3, L, slice; erewrite cell_set_mid; [reflexivity|lia|reflexivity]) (NTH _ _)) as D.
  unfold h3 in D. rewrite KL in D. cbn [app List.length]. 
  replace (pre ++ nones (S (S (List.length newb))) ++ x) with (pre ++ None :: None :: nones (List.length newb) ++ x) by reflexivity.
  exact D.
Qed.

(* ================================================================== sbdf_cs_read *)
Record crl := { c_cap : val; c_err : val; c_i : val; c_t : val; c_v : val; c_a1 : val; c_a2 : val; c_a3 : val; c_goto : val; c_so : val }.
Definition crf (fv ov : val) (l : crl) (k : Z) (sx : list Z) (h : heap) (m : list Z) : state :=
  fr [("f", fv); ("out", ov); ("cap", c_cap l); ("error", c_err l); ("i", c_i l); ("t", c_t l); ("v", c_v l);
      ("$a1", c_a1 l); ("$a2", c_a2 l); ("$a3", c_a3 l); ("$goto", c_goto l); ("*out", c_so l)]%string bv k sx h m o.
Definition crl0 (so : val) : crl := Build_crl VUndef VUndef VUndef VUndef VUndef VUndef VUndef VUndef VUndef so.
Ltac uncr := unfold crf, fr, crl0; cbn [c_cap c_err c_i c_t c_v c_a1 c_a2 c_a3 c_goto c_so app].

Definition cs_body : stmt := match fbody prog_sbdf_cs_read with SSeq _ (SSeq (SWhile _ b) _) => b | _ => SSkip end.
Definition cs_tail : stmt := match fbody prog_sbdf_cs_read with SSeq _ (SSeq _ t) => t | _ => SSkip end.

(* the statement leaves through a return inside the run-once loop *)
Lemma cs_read_ret fv ov so k sx h m v fin :
  bsE prog_env cs_body (crf fv ov (Build_crl VUndef VUndef VUndef VUndef VUndef VUndef VUndef VUndef (VInt 0) so) k sx h m) (OReturn v fin) ->
  bsE prog_env (fbody prog_sbdf_cs_read) (crf fv ov (crl0 so) k sx h m) (OReturn v fin).
Proof.
  intros B. cbn [fbody prog_sbdf_cs_read]. revert B. unfold cs_body. cbn [fbody prog_sbdf_cs_read]. uncr. intros B.
  eapply bsE_seq; [eapply bsE_expr; evk; reflexivity|]. eapply bsE_seq_ret.
  eapply bsE_while_ret; [evk; reflexivity|reflexivity|exact B].
Qed.

(* ... or through a break (goto end), and then the clean-up *)
Lemma cs_read_brk fv ov so k sx h m s1 oo :
  bsE prog_env cs_body (crf fv ov (Build_crl VUndef VUndef VUndef VUndef VUndef VUndef VUndef VUndef (VInt 0) so) k sx h m) (OBreak s1) ->
  bsE prog_env cs_tail s1 oo ->
  bsE prog_env (fbody prog_sbdf_cs_read) (crf fv ov (crl0 so) k sx h m) oo.
Proof.
  intros B T. cbn [fbody prog_sbdf_cs_read]. revert B T. unfold cs_body, cs_tail. cbn [fbody prog_sbdf_cs_read]. uncr. intros B T.
  eapply bsE_seq; [eapply bsE_expr; evk; reflexivity|].
  eapply bsE_seq; [eapply bsE_while_brk; [evk; reflexivity|reflexivity|exact B]|exact T].
Qed.

Section Main.
Variables (rf rp : region) (fo po : Z).
Notation fv := (VPtr rf fo).
Notation ov := (VPtr rp po).

Lemma cs_read_bs so k sx h m : Forall byte sx ->
  (forall s1, sec_expect SBDF_COLUMNSLICE_SECTIONID sx = Ok (tt, s1) -> forall t s2, s1 <> 3 :: t :: s2) ->
  (forall s1 va s2 v s3, sec_expect SBDF_COLUMNSLICE_SECTIONID sx = Ok (tt, s1) -> Va.va_read false None s1 = Ok (va, s2) -> read_int32 false s2 = Ok (v, s3) -> v <= 0) ->
  let L := List.length h in
  exists st l' k' s' h' m',
    bsE prog_env (fbody prog_sbdf_cs_read) (crf fv ov (crl0 so) k sx h m) (OReturn (VInt st) (crf fv ov l' k' s' h' m')) /\ prefix_of m m' /\
    ((st = SBDF_OK /\ c_so l' = VCell L 0 /\
        exists blk newb, h' = h ++ Some [VCell (S L) 0; VInt 0; VInt 0; VInt 0; VInt 1] :: Some blk :: newb /\
          (forall hp : heap, List.length hp = S L -> va_rel m' (hp ++ Some blk :: newb) (S L) (hp ++ None :: nones (List.length newb))) /\
          exists s1 va s2, sec_expect SBDF_COLUMNSLICE_SECTIONID sx = Ok (tt, s1) /\ Va.va_read false None s1 = Ok (va, s2) /\ read_int32 false s2 = Ok (0, s'))
     \/ (st < 0 /\ c_so l' = so /\ exists j, h' = h ++ nones j)) /\
    (* without allocation failures: whenever the model's readers get through section marker, values and a zero count, the call succeeds *)
    (k < 0 -> (exists s1 va s2 s3, sec_expect SBDF_COLUMNSLICE_SECTIONID sx = Ok (tt, s1) /\ Va.va_read false None s1 = Ok (va, s2) /\ read_int32 false s2 = Ok (0, s3)) -> st = SBDF_OK).
Proof.
  intros Hs NB CNT L.
  pose proof (sec_expect_bs2 fv SBDF_COLUMNSLICE_SECTIONID VUndef VUndef k sx h m I Hs ltac:(unfold SBDF_COLUMNSLICE_SECTIONID, int_min, int_max; lia)) as SE.
  destruct (sec_expect SBDF_COLUMNSLICE_SECTIONID sx) as [[[] s1]|st0] eqn:ESE.
  2: { (* no column slice section here *)
    destruct SE as (e' & v' & s' & SE).
    assert (Hneg : st0 < 0) by (apply (neg_sec_expect SBDF_COLUMNSLICE_SECTIONID sx st0 ESE)).
    exists st0. eexists (Build_crl _ _ _ _ _ _ _ _ _ _). do 4 eexists. split; [|split; [exists []; now rewrite app_nil_r|split; [right; split; [exact Hneg|split; [reflexivity|exists 0%nat; cbn; now rewrite app_nil_r]]|intros _ (x1 & _ & _ & _ & X & _); discriminate X]]].
    apply cs_read_ret. unfold cs_body. cbn [fbody prog_sbdf_cs_read]. uncr.
    eapply bsE_seq; [eapply bsE_decl0; evk; reflexivity|].
    eapply bsE_seq; [eapply bsE_seq; [eapply bsE_decl0; evk; reflexivity|eapply bsE_seq; [eapply bsE_decl0; evk; reflexivity|eapply bsE_decl0; evk; reflexivity]]|].
    eapply bsE_seq; [eapply bsE_if; [evk; reflexivity|reflexivity|apply bsE_skip]|].
    eapply bsE_seq_ret. eapply bsE_seq; [eapply bsE_call; [reflexivity|evk; reflexivity|reflexivity|exact SE|unfold se2, fr; evk; reflexivity]|].
    eapply bsE_if; [evk; reflexivity|cbn [truth]; replace (st0 =? 0) with false by lia; reflexivity|]. eapply bsE_return. evk. reflexivity. }
  destruct SE as (e' & v' & SE).
  assert (Hs1 : Forall byte s1) by (apply (shr_sec_expect SBDF_COLUMNSLICE_SECTIONID sx tt s1 Hs ESE)).
  (* up to the allocation of the slice *)
  assert (HEAD : forall X oo, bsE prog_env X (crf fv ov (Build_crl VUndef (VInt SBDF_OK) VUndef VUndef VUndef VUndef VUndef VUndef (VInt 0) so) k s1 h m) oo ->
     bsE prog_env (SSeq (SDecl "t" None) (SSeq (SSeq (SDecl "error" None) (SSeq (SDecl "v" None) (SDecl "i" None))) (SSeq (SIf (ELNot (EVar "out")) (SReturn (EBin Sub (EConst 0) (EConst (1)))) SSkip)
        (SSeq (SSeq (SCall (Some "error") "sbdf_sec_expect" [(AVal (EVar "f")); (AVal (EConst (4)))]) (SIf (EVar "error") (SReturn (EVar "error")) SSkip)) X))))%string
       (crf fv ov (Build_crl VUndef VUndef VUndef VUndef VUndef VUndef VUndef VUndef (VInt 0) so) k sx h m) oo).
  { intros X oo B. revert B. uncr. intros B.
    eapply bsE_seq; [eapply bsE_decl0; evk; reflexivity|].
    eapply bsE_seq; [eapply bsE_seq; [eapply bsE_decl0; evk; reflexivity|eapply bsE_seq; [eapply bsE_decl0; evk; reflexivity|eapply bsE_decl0; evk; reflexivity]]|].
    eapply bsE_seq; [eapply bsE_if; [evk; reflexivity|reflexivity|apply bsE_skip]|].
    eapply bsE_seq; [eapply bsE_seq; [eapply bsE_call; [reflexivity|evk; reflexivity|reflexivity|exact SE|unfold se2, fr; evk; reflexivity]|eapply bsE_if; [evk; reflexivity|reflexivity|apply bsE_skip]]|].
    exact B. }
  destruct (k =? 0) eqn:Ek0.
  { (* the slice cannot be allocated *)
    assert (k = 0) by lia. subst k.
    exists SBDF_ERROR_OUT_OF_MEMORY. eexists (Build_crl _ _ _ _ _ _ _ _ _ _). do 4 eexists. split; [|split; [exists []; now rewrite app_nil_r|split; [right; split; [reflexivity|split; [reflexivity|exists 0%nat; cbn; now rewrite app_nil_r]]|intros X; lia]]].
    apply cs_read_ret. unfold cs_body. cbn [fbody prog_sbdf_cs_read]. apply HEAD. uncr.
    eapply bsE_seq; [eapply bsE_expr; evk; chk7; evk; reflexivity|].
    eapply bsE_seq_ret. eapply bsE_if; [evk; reflexivity|reflexivity|]. eapply bsE_return. evk. chk7. reflexivity. }
  assert (Hk : k <> 0) by lia.
  set (h0 := h ++ [Some [VInt 0; VInt 0; VInt 0; VInt 0; VInt 1]]).
  assert (HL0 : List.length h0 = S L) by (unfold h0; rewrite app_length; cbn; lia).
  destruct (va_read_bs rf ROut fo 0 (dec k) s1 h0 m VNull Hs1 (NB s1 eq_refl)) as (st1 & e1 & sh1 & k2 & s2 & h2 & m2 & BV & Pf1 & Out1 & PP1 & MT1 & KK1).
  rewrite HL0 in Out1.
  (* the allocation and the owned flag *)
  assert (PRE : forall Y oo, bsE prog_env Y (crf fv ov (Build_crl VUndef (VInt SBDF_OK) VUndef (VCell L 0) VUndef VUndef VUndef VUndef (VInt 0) so) (dec k) s1 h0 m) oo ->
     bsE prog_env (SSeq (SExpr (EAssign "t" (ECalloc (EConst 5)))) (SSeq (SIf (ELNot (EVar "t")) (SReturn (EBin Sub (EConst 0) (EConst (2)))) SSkip) (SSeq (SExpr (ECellStore (EVar "t") (EConst 4) (EConst (1)))) Y)))%string
       (crf fv ov (Build_crl VUndef (VInt SBDF_OK) VUndef VUndef VUndef VUndef VUndef VUndef (VInt 0) so) k s1 h m) oo).
  { intros Y oo B. revert B. uncr. intros B.
    eapply bsE_seq; [eapply bsE_expr; evk; chk7; evk; rewrite Ek0; evk; reflexivity|]. cbn [inb outb].
    change (repeat (VInt 0) (Z.to_nat 5)) with [VInt 0; VInt 0; VInt 0; VInt 0; VInt 0]. fold (dec k).
    eapply bsE_seq; [eapply bsE_if; [evk; reflexivity|reflexivity|apply bsE_skip]|].
    eapply bsE_seq; [eapply bsE_expr; evk; chk7; evk; erewrite cell_set_new; [|lia|reflexivity]; evk; reflexivity|].
    exact B. }
  (* the values *)
  assert (Htl : exists tl, h2 = h0 ++ tl) by (destruct Out1 as [(_ & _ & _ & blk & newb & -> & _)|(_ & _ & j & ->)]; eexists; reflexivity).
  destruct Htl as (tl & Htl).
  assert (So1 : storable sh1 = true) by (destruct Out1 as [(_ & -> & _)|(_ & -> & _)]; reflexivity).
  assert (T3 : bsE prog_env (SSeq (SExpr (EAssign "$a1" (ECellLoad (EVar "t") (EConst 0) true))) (SSeq (SCall (Some "error") "sbdf_va_read" [(AVal (EVar "f")); (AAddr "$a1")]) (SExpr (ECellStore (EVar "t") (EConst 0) (EVar "$a1")))))%string
                 (crf fv ov (Build_crl VUndef (VInt SBDF_OK) VUndef (VCell L 0) VUndef VUndef VUndef VUndef (VInt 0) so) (dec k) s1 h0 m)
                 (ONormal (crf fv ov (Build_crl VUndef (VInt st1) VUndef (VCell L 0) VUndef sh1 VUndef VUndef (VInt 0) so) k2 s2 (h ++ Some [sh1; VInt 0; VInt 0; VInt 0; VInt 1] :: tl) m2))).
  { revert BV. rewrite Htl. unfold vrd. uncr. intros BV.
    eapply bsE_seq; [eapply bsE_expr; evk; chk7; evk; unfold h0; change (h ++ [Some [VInt 0; VInt 0; VInt 0; VInt 0; VInt 1]]) with (h ++ Some [VInt 0; VInt 0; VInt 0; VInt 0; VInt 1] :: []);
                     fold L; rewrite cell_get_mid; evk; reflexivity|].
    eapply bsE_seq; [eapply bsE_call; [reflexivity|evk; reflexivity|reflexivity|exact BV|evk; reflexivity]|].
    eapply bsE_expr. evk. chk7. evk. unfold h0. rewrite <- app_assoc. cbn [app]. fold L.
    destruct sh1; try discriminate So1; evk; (erewrite cell_set_mid; [|lia|reflexivity]); evk; reflexivity. }
  assert (NTH : forall (blk : list val) (rest : heap), nth_error (h ++ Some blk :: rest) L = Some (Some blk)) by (intros; unfold L; rewrite nth_error_app2 by lia; rewrite Nat.sub_diag; reflexivity).
  assert (KL : forall (blk : list val) (rest : heap), kill L (h ++ Some blk :: rest) = h ++ None :: rest) by (intros; unfold kill, L; rewrite set_nth_v_app; reflexivity).
  destruct Out1 as [(-> & -> & Hs2 & blk & newb & Hh2 & VR)|(Hneg1 & -> & j & Hh2)].
  2: { (* the values could not be read: the slice is released again *)
    assert (tl = nones j) by (rewrite Hh2 in Htl; apply app_inv_head in Htl; congruence). subst tl.
    set (hX := h ++ Some [VNull; VInt 0; VInt 0; VInt 0; VInt 1] :: nones j) in *.
    set (h3 := h ++ Some [VNull; VInt 0; VInt 0; VInt 0; VInt 0] :: nones j).
    pose proof (cs_destroy_fresh_bs k2 s2 m2 hX L VNull hX h3 VUndef (NTH _ _) ltac:(left; split; reflexivity) eq_refl
                  ltac:(unfold hX, h3, L; erewrite cell_set_mid; [reflexivity|lia|reflexivity]) (NTH _ _)) as D.
    unfold h3 in D. rewrite KL in D. unfold fr in D. cbn [app] in D.
    exists st1. eexists (Build_crl _ _ _ _ _ _ _ _ _ _). do 4 eexists. split; [|split; [exact Pf1|split; [right; split; [exact Hneg1|split; [reflexivity|exists (S j); reflexivity]]|]]].
    2: { intros Hk0 (x1 & xva & x2 & x3 & X1 & X2 & _). assert (x1 = s1) by congruence. subst x1.
         assert (Dk : dec k < 0) by (unfold dec; replace (0 <? k) with false by lia; exact Hk0). specialize (MT1 Dk). rewrite X2 in MT1. unfold SBDF_OK in MT1. lia. }
    eapply cs_read_brk.
    - unfold cs_body. cbn [fbody prog_sbdf_cs_read]. apply HEAD. apply PRE.
      eapply bsE_seq_brk. eapply bsE_seq; [exact T3|]. uncr. eapply bsE_if; [evk; reflexivity|cbn [truth]; replace (st1 =? 0) with false by lia; reflexivity|apply bsE_break].
    - unfold cs_tail. cbn [fbody prog_sbdf_cs_read]. uncr.
      eapply bsE_seq; [eapply bsE_if; [evk; reflexivity|cbn [truth]; replace (st1 =? 0) with false by lia; reflexivity|]; eapply bsE_call; [reflexivity|evk; reflexivity|reflexivity|evk; exact D|evk; reflexivity]|].
      eapply bsE_return. evk. reflexivity. }
  assert (tl = Some blk :: newb) by (rewrite Hh2 in Htl; apply app_inv_head in Htl; congruence). subst tl. clear Htl Hh2.
  assert (MV : exists va, Va.va_read false None s1 = Ok (va, s2)) by (specialize (PP1 eq_refl); destruct (Va.va_read false None s1) as [[va sM]|]; [exists va; rewrite PP1; reflexivity|contradiction]).
  destruct MV as (va & MV).
  set (slice := [VCell (S L) 0; VInt 0; VInt 0; VInt 0; VInt 1]) in *.
  set (hY := h ++ Some slice :: Some blk :: newb) in *.
  set (hpY := h ++ [Some slice]).
  assert (HpY : List.length hpY = S L) by (unfold hpY; rewrite app_length; cbn; lia).
  assert (HYp : hY = hpY ++ Some blk :: newb) by (unfold hY, hpY; rewrite <- app_assoc; reflexivity).
  (* releasing the slice with its values *)
  assert (DY : forall kk sxx, bsE prog_env (fbody prog_sbdf_cs_destroy) (fr [("cs"%string, VCell L 0); ("i"%string, VUndef)] bv kk sxx hY m2 o)
                 (OReturn (VInt 0) (fr [("cs"%string, VCell L 0); ("i"%string, VUndef)] bv kk sxx (h ++ nones (S (S (List.length newb)))) m2 o))).
  { intros kk sxx.
    set (h1 := h ++ Some slice :: None :: nones (List.length newb)).
    set (h3 := h ++ Some [VCell (S L) 0; VInt 0; VInt 0; VInt 0; VInt 0] :: None :: nones (List.length newb)).
    pose proof (cs_destroy_fresh_bs kk sxx m2 hY L (VCell (S L) 0) h1 h3 VUndef (NTH _ _)
                  ltac:(right; exists (S L); split; [reflexivity|rewrite HYp; unfold h1; replace (h ++ Some slice :: None :: nones (List.length newb)) with (hpY ++ None :: nones (List.length newb)) by (unfold hpY; rewrite <- app_assoc; reflexivity); exact (VR hpY HpY)])
                  ltac:(unfold h1, hY; rewrite !NTH; reflexivity)
                  ltac:(unfold h1, h3, L, slice; erewrite cell_set_mid; [reflexivity|lia|reflexivity]) (NTH _ _)) as D.
    unfold h3 in D. rewrite KL in D. exact D. }
  pose proof (read_int32_bs2 hY fv (VPtr ROut 0) VUndef bv k2 s2 m2 o I I Hs2) as R.
  destruct (read_int32 false s2) as [[v s3]|e] eqn:ER.
  2: { (* the property count cannot be read *)
    destruct R as (c' & s' & R). pose proof (read_int32_err s2 e ER). subst e.
    specialize (DY k2 s'). unfold fr in DY. cbn [app] in DY.
    exists SBDF_ERROR_IO. eexists (Build_crl _ _ _ _ _ _ _ _ _ _). do 4 eexists. split; [|split; [exact Pf1|split; [right; split; [reflexivity|split; [reflexivity|eexists; reflexivity]]|]]].
    2: { intros _ (x1 & xva & x2 & x3 & X1 & X2 & X3). assert (x1 = s1) by congruence. subst x1. rewrite MV in X2. assert (x2 = s2) by congruence. subst x2. rewrite ER in X3. discriminate X3. }
    eapply cs_read_brk.
    - unfold cs_body. cbn [fbody prog_sbdf_cs_read]. apply HEAD. apply PRE.
      eapply bsE_seq; [eapply bsE_seq; [exact T3|uncr; eapply bsE_if; [evk; reflexivity|reflexivity|apply bsE_skip]]|].
      eapply bsE_seq_brk. uncr. eapply bsE_seq; [eapply bsE_call; [reflexivity|evk; reflexivity|reflexivity|exact R|unfold ri2; evk; reflexivity]|].
      eapply bsE_if; [evk; reflexivity|reflexivity|apply bsE_break].
    - unfold cs_tail. cbn [fbody prog_sbdf_cs_read]. uncr.
      eapply bsE_seq; [eapply bsE_if; [evk; reflexivity|reflexivity|]; eapply bsE_call; [reflexivity|evk; reflexivity|reflexivity|evk; exact DY|evk; reflexivity]|].
      eapply bsE_return. evk. reflexivity. }
  destruct (read_int32_range s2 v s3 Hs2 ER) as (Hv & _).
  pose proof (CNT s1 va s2 v s3 eq_refl MV ER) as Hv0.
  destruct (v <? 0) eqn:Eneg.
  { (* a negative property count *)
    specialize (DY k2 s3). unfold fr in DY. cbn [app] in DY.
    exists SBDF_ERROR_INVALID_SIZE. eexists (Build_crl _ _ _ _ _ _ _ _ _ _). do 4 eexists. split; [|split; [exact Pf1|split; [right; split; [reflexivity|split; [reflexivity|eexists; reflexivity]]|]]].
    2: { intros _ (x1 & xva & x2 & x3 & X1 & X2 & X3). assert (x1 = s1) by congruence. subst x1. rewrite MV in X2. assert (x2 = s2) by congruence. subst x2. rewrite ER in X3. assert (v = 0) by congruence. lia. }
    eapply cs_read_brk.
    - unfold cs_body. cbn [fbody prog_sbdf_cs_read]. apply HEAD. apply PRE.
      eapply bsE_seq; [eapply bsE_seq; [exact T3|uncr; eapply bsE_if; [evk; reflexivity|reflexivity|apply bsE_skip]]|].
      uncr. eapply bsE_seq; [eapply bsE_seq; [eapply bsE_call; [reflexivity|evk; reflexivity|reflexivity|exact R|unfold ri2; evk; reflexivity]|eapply bsE_if; [evk; reflexivity|reflexivity|apply bsE_skip]]|].
      eapply bsE_seq_brk. eapply bsE_if; [evk; chk7; evk; rewrite Eneg; reflexivity|reflexivity|].
      eapply bsE_seq; [eapply bsE_expr; evk; chk7; evk; reflexivity|apply bsE_break].
    - unfold cs_tail. cbn [fbody prog_sbdf_cs_read]. uncr.
      eapply bsE_seq; [eapply bsE_if; [evk; reflexivity|reflexivity|]; eapply bsE_call; [reflexivity|evk; reflexivity|reflexivity|evk; exact DY|evk; reflexivity]|].
      eapply bsE_return. evk. reflexivity. }
  (* no properties: the slice is handed out *)
  assert (v = 0) by lia. subst v.
  exists SBDF_OK. eexists (Build_crl _ _ _ _ _ _ _ _ _ _). do 4 eexists. split; [|split; [exact Pf1|split; [left; split; [reflexivity|split; [reflexivity|]]|intros _ _; reflexivity]]].
  2: { exists blk, newb. split; [reflexivity|]. split; [exact VR|]. exists s1, va, s2. split; [reflexivity|]. split; [exact MV|exact ER]. }
  eapply cs_read_brk.
  - unfold cs_body. cbn [fbody prog_sbdf_cs_read]. apply HEAD. apply PRE.
    eapply bsE_seq; [eapply bsE_seq; [exact T3|uncr; eapply bsE_if; [evk; reflexivity|reflexivity|apply bsE_skip]]|].
    uncr. eapply bsE_seq; [eapply bsE_seq; [eapply bsE_call; [reflexivity|evk; reflexivity|reflexivity|exact R|unfold ri2; evk; reflexivity]|eapply bsE_if; [evk; reflexivity|reflexivity|apply bsE_skip]]|].
    eapply bsE_seq; [eapply bsE_if; [evk; chk7; evk; reflexivity|reflexivity|apply bsE_skip]|].
    eapply bsE_seq; [eapply bsE_if; [evk; chk7; evk; reflexivity|reflexivity|apply bsE_skip]|]. apply bsE_break.
  - unfold cs_tail. cbn [fbody prog_sbdf_cs_read]. uncr.
    eapply bsE_seq; [eapply bsE_if; [evk; reflexivity|reflexivity|]; eapply bsE_expr; evk; reflexivity|].
    eapply bsE_return. evk. reflexivity.
Qed.

(* ---- the interface to the property loop (ImpFactsCsReadProps.v): what the rest of the function does behind a positive count ---- *)
Fixpoint props_nobit (n : nat) (s : list Z) : Prop :=
  match n with
  | O => True
  | S n' => match read_string false None s with
            | Ok (_, s1) => (forall t s2, s1 <> 3 :: t :: s2) /\ match Va.va_read false None s1 with Ok (_, s2) => props_nobit n' s2 | Err _ => True end
            | Err _ => True
            end
  end.
Fixpoint props_end (n : nat) (s : list Z) : option (list Z) :=
  match n with
  | O => Some s
  | S n' => match read_string false None s with
            | Ok (_, s1) => match Va.va_read false None s1 with Ok (_, s2) => props_end n' s2 | Err _ => None end
            | Err _ => None
            end
  end.
(* the status of the model's readers along the properties *)
Fixpoint props_st (n : nat) (s : list Z) : Z :=
  match n with
  | O => SBDF_OK
  | S n' => match read_string false None s with
            | Err e => e
            | Ok (_, s1) => match Va.va_read false None s1 with Err e => e | Ok (_, s2) => props_st n' s2 end
            end
  end.
Definition cs_st (sx : list Z) : Z :=
  match sec_expect SBDF_COLUMNSLICE_SECTIONID sx with
  | Err e => e
  | Ok (_, s1) => match Va.va_read false None s1 with
                  | Err e => e
                  | Ok (_, s2) => match read_int32 false s2 with
                                  | Err e => e
                                  | Ok (v, s3) => if v <? 0 then SBDF_ERROR_INVALID_SIZE else if v =? 0 then SBDF_OK
                                                  else if 134217727 <? v then SBDF_ERROR_OUT_OF_MEMORY else props_st (Z.to_nat v) s3
                                  end
                  end
  end.
(* everything behind the caller's heap is released by one sbdf_cs_destroy on the slice (which is the first new block) *)
Definition releasable (h h' : heap) (m' : list Z) : Prop :=
  exists hnew, h' = h ++ hnew /\ (1 <= List.length hnew)%nat /\ cs_sem m' (List.length h) hnew.
Definition cs_props_seq : stmt :=
  match cs_body with SSeq _ (SSeq _ (SSeq _ (SSeq _ (SSeq _ (SSeq _ (SSeq _ (SSeq _ (SSeq _ (SSeq _ x))))))))) => x | _ => SSkip end.
Definition s6 (so : val) (h : heap) (v k2 : Z) (s3 : list Z) (blk : list val) (newb : heap) (m2 : list Z) : state :=
  crf fv ov (Build_crl VUndef (VInt SBDF_OK) VUndef (VCell (List.length h) 0) (VInt v) (VCell (S (List.length h)) 0) VUndef VUndef (VInt 0) so) k2 s3
      (h ++ Some [VCell (S (List.length h)) 0; VInt 0; VInt 0; VInt 0; VInt 1] :: Some blk :: newb) m2.
Definition props_spec (so : val) (h : heap) : Prop :=
  forall k2 s3 m2 blk newb v,
    (forall hp : heap, List.length hp = S (List.length h) -> va_rel m2 (hp ++ Some blk :: newb) (S (List.length h)) (hp ++ None :: nones (List.length newb))) ->
    0 < v <= int_max -> Forall byte s3 -> props_nobit (Z.to_nat v) s3 ->
    exists st l' k' s' h' m',
      (exists sB, bsE prog_env cs_props_seq (s6 so h v k2 s3 blk newb m2) (OBreak sB) /\ bsE prog_env cs_tail sB (OReturn (VInt st) (crf fv ov l' k' s' h' m'))) /\
      prefix_of m2 m' /\
      ((st = SBDF_OK /\ c_so l' = VCell (List.length h) 0 /\ releasable h h' m' /\ props_end (Z.to_nat v) s3 = Some s' /\ Forall byte s' /\ v <= 134217727)
       \/ (st < 0 /\ c_so l' = so /\ exists j, h' = h ++ nones j)) /\
      (k2 < 0 -> st = (if 134217727 <? v then SBDF_ERROR_OUT_OF_MEMORY else props_st (Z.to_nat v) s3) /\ (st = SBDF_OK -> k' = k2)).

Lemma cs_read_gen so k sx h m : Forall byte sx ->
  (forall s1, sec_expect SBDF_COLUMNSLICE_SECTIONID sx = Ok (tt, s1) -> forall t s2, s1 <> 3 :: t :: s2) ->
  (forall s1 va s2 v s3, sec_expect SBDF_COLUMNSLICE_SECTIONID sx = Ok (tt, s1) -> Va.va_read false None s1 = Ok (va, s2) -> read_int32 false s2 = Ok (v, s3) -> props_nobit (Z.to_nat v) s3) ->
  props_spec so h ->
  let L := List.length h in
  exists st l' k' s' h' m',
    bsE prog_env (fbody prog_sbdf_cs_read) (crf fv ov (crl0 so) k sx h m) (OReturn (VInt st) (crf fv ov l' k' s' h' m')) /\ prefix_of m m' /\
    ((st = SBDF_OK /\ c_so l' = VCell L 0 /\ releasable h h' m' /\
        exists s1 va s2 v s3, sec_expect SBDF_COLUMNSLICE_SECTIONID sx = Ok (tt, s1) /\ Va.va_read false None s1 = Ok (va, s2) /\ read_int32 false s2 = Ok (v, s3) /\ 0 <= v <= 134217727 /\
                              props_end (Z.to_nat v) s3 = Some s' /\ Forall byte s')
     \/ (st < 0 /\ c_so l' = so /\ exists j, h' = h ++ nones j)) /\
    (k < 0 -> st = cs_st sx /\ (st = SBDF_OK -> k' = k)).
Proof.
  intros Hs NB NBP PROPS L. unfold cs_st.
  pose proof (sec_expect_bs2 fv SBDF_COLUMNSLICE_SECTIONID VUndef VUndef k sx h m I Hs ltac:(unfold SBDF_COLUMNSLICE_SECTIONID, int_min, int_max; lia)) as SE.
  destruct (sec_expect SBDF_COLUMNSLICE_SECTIONID sx) as [[[] s1]|st0] eqn:ESE.
  2: { (* no column slice section here *)
    destruct SE as (e' & v' & s' & SE).
    assert (Hneg : st0 < 0) by (apply (neg_sec_expect SBDF_COLUMNSLICE_SECTIONID sx st0 ESE)).
    exists st0. eexists (Build_crl _ _ _ _ _ _ _ _ _ _). do 4 eexists. split; [|split; [exists []; now rewrite app_nil_r|split; [right; split; [exact Hneg|split; [reflexivity|exists 0%nat; cbn; now rewrite app_nil_r]]|intros _; split; [reflexivity|intros X; unfold SBDF_OK in X; lia]]]].
    apply cs_read_ret. unfold cs_body. cbn [fbody prog_sbdf_cs_read]. uncr.
    eapply bsE_seq; [eapply bsE_decl0; evk; reflexivity|].
    eapply bsE_seq; [eapply bsE_seq; [eapply bsE_decl0; evk; reflexivity|eapply bsE_seq; [eapply bsE_decl0; evk; reflexivity|eapply bsE_decl0; evk; reflexivity]]|].
    eapply bsE_seq; [eapply bsE_if; [evk; reflexivity|reflexivity|apply bsE_skip]|].
    eapply bsE_seq_ret. eapply bsE_seq; [eapply bsE_call; [reflexivity|evk; reflexivity|reflexivity|exact SE|unfold se2, fr; evk; reflexivity]|].
    eapply bsE_if; [evk; reflexivity|cbn [truth]; replace (st0 =? 0) with false by lia; reflexivity|]. eapply bsE_return. evk. reflexivity. }
  destruct SE as (e' & v' & SE).
  assert (Hs1 : Forall byte s1) by (apply (shr_sec_expect SBDF_COLUMNSLICE_SECTIONID sx tt s1 Hs ESE)).
  (* up to the allocation of the slice *)
  assert (HEAD : forall X oo, bsE prog_env X (crf fv ov (Build_crl VUndef (VInt SBDF_OK) VUndef VUndef VUndef VUndef VUndef VUndef (VInt 0) so) k s1 h m) oo ->
     bsE prog_env (SSeq (SDecl "t" None) (SSeq (SSeq (SDecl "error" None) (SSeq (SDecl "v" None) (SDecl "i" None))) (SSeq (SIf (ELNot (EVar "out")) (SReturn (EBin Sub (EConst 0) (EConst (1)))) SSkip)
        (SSeq (SSeq (SCall (Some "error") "sbdf_sec_expect" [(AVal (EVar "f")); (AVal (EConst (4)))]) (SIf (EVar "error") (SReturn (EVar "error")) SSkip)) X))))%string
       (crf fv ov (Build_crl VUndef VUndef VUndef VUndef VUndef VUndef VUndef VUndef (VInt 0) so) k sx h m) oo).
  { intros X oo B. revert B. uncr. intros B.
    eapply bsE_seq; [eapply bsE_decl0; evk; reflexivity|].
    eapply bsE_seq; [eapply bsE_seq; [eapply bsE_decl0; evk; reflexivity|eapply bsE_seq; [eapply bsE_decl0; evk; reflexivity|eapply bsE_decl0; evk; reflexivity]]|].
    eapply bsE_seq; [eapply bsE_if; [evk; reflexivity|reflexivity|apply bsE_skip]|].
    eapply bsE_seq; [eapply bsE_seq; [eapply bsE_call; [reflexivity|evk; reflexivity|reflexivity|exact SE|unfold se2, fr; evk; reflexivity]|eapply bsE_if; [evk; reflexivity|reflexivity|apply bsE_skip]]|].
    exact B. }
  destruct (k =? 0) eqn:Ek0.
  { (* the slice cannot be allocated *)
    assert (k = 0) by lia. subst k.
    exists SBDF_ERROR_OUT_OF_MEMORY. eexists (Build_crl _ _ _ _ _ _ _ _ _ _). do 4 eexists. split; [|split; [exists []; now rewrite app_nil_r|split; [right; split; [reflexivity|split; [reflexivity|exists 0%nat; cbn; now rewrite app_nil_r]]|intros X; lia]]].
    apply cs_read_ret. unfold cs_body. cbn [fbody prog_sbdf_cs_read]. apply HEAD. uncr.
    eapply bsE_seq; [eapply bsE_expr; evk; chk7; evk; reflexivity|].
    eapply bsE_seq_ret. eapply bsE_if; [evk; reflexivity|reflexivity|]. eapply bsE_return. evk. chk7. reflexivity. }
  assert (Hk : k <> 0) by lia.
  set (h0 := h ++ [Some [VInt 0; VInt 0; VInt 0; VInt 0; VInt 1]]).
  assert (HL0 : List.length h0 = S L) by (unfold h0; rewrite app_length; cbn; lia).
  destruct (va_read_bs rf ROut fo 0 (dec k) s1 h0 m VNull Hs1 (NB s1 eq_refl)) as (st1 & e1 & sh1 & k2 & s2 & h2 & m2 & BV & Pf1 & Out1 & PP1 & MT1 & KK1).
  rewrite HL0 in Out1.
  (* the allocation and the owned flag *)
  assert (PRE : forall Y oo, bsE prog_env Y (crf fv ov (Build_crl VUndef (VInt SBDF_OK) VUndef (VCell L 0) VUndef VUndef VUndef VUndef (VInt 0) so) (dec k) s1 h0 m) oo ->
     bsE prog_env (SSeq (SExpr (EAssign "t" (ECalloc (EConst 5)))) (SSeq (SIf (ELNot (EVar "t")) (SReturn (EBin Sub (EConst 0) (EConst (2)))) SSkip) (SSeq (SExpr (ECellStore (EVar "t") (EConst 4) (EConst (1)))) Y)))%string
       (crf fv ov (Build_crl VUndef (VInt SBDF_OK) VUndef VUndef VUndef VUndef VUndef VUndef (VInt 0) so) k s1 h m) oo).
  { intros Y oo B. revert B. uncr. intros B.
    eapply bsE_seq; [eapply bsE_expr; evk; chk7; evk; rewrite Ek0; evk; reflexivity|]. cbn [inb outb].
    change (repeat (VInt 0) (Z.to_nat 5)) with [VInt 0; VInt 0; VInt 0; VInt 0; VInt 0]. fold (dec k).
    eapply bsE_seq; [eapply bsE_if; [evk; reflexivity|reflexivity|apply bsE_skip]|].
    eapply bsE_seq; [eapply bsE_expr; evk; chk7; evk; erewrite cell_set_new; [|lia|reflexivity]; evk; reflexivity|].
    exact B. }
  (* the values *)
  assert (Htl : exists tl, h2 = h0 ++ tl) by (destruct Out1 as [(_ & _ & _ & blk & newb & -> & _)|(_ & _ & j & ->)]; eexists; reflexivity).
  destruct Htl as (tl & Htl).
  assert (So1 : storable sh1 = true) by (destruct Out1 as [(_ & -> & _)|(_ & -> & _)]; reflexivity).
  assert (T3 : bsE prog_env (SSeq (SExpr (EAssign "$a1" (ECellLoad (EVar "t") (EConst 0) true))) (SSeq (SCall (Some "error") "sbdf_va_read" [(AVal (EVar "f")); (AAddr "$a1")]) (SExpr (ECellStore (EVar "t") (EConst 0) (EVar "$a1")))))%string
                 (crf fv ov (Build_crl VUndef (VInt SBDF_OK) VUndef (VCell L 0) VUndef VUndef VUndef VUndef (VInt 0) so) (dec k) s1 h0 m)
                 (ONormal (crf fv ov (Build_crl VUndef (VInt st1) VUndef (VCell L 0) VUndef sh1 VUndef VUndef (VInt 0) so) k2 s2 (h ++ Some [sh1; VInt 0; VInt 0; VInt 0; VInt 1] :: tl) m2))).
  { revert BV. rewrite Htl. unfold vrd. uncr. intros BV.
    eapply bsE_seq; [eapply bsE_expr; evk; chk7; evk; unfold h0; change (h ++ [Some [VInt 0; VInt 0; VInt 0; VInt 0; VInt 1]]) with (h ++ Some [VInt 0; VInt 0; VInt 0; VInt 0; VInt 1] :: []);
                     fold L; rewrite cell_get_mid; evk; reflexivity|].
    eapply bsE_seq; [eapply bsE_call; [reflexivity|evk; reflexivity|reflexivity|exact BV|evk; reflexivity]|].
    eapply bsE_expr. evk. chk7. evk. unfold h0. rewrite <- app_assoc. cbn [app]. fold L.
    destruct sh1; try discriminate So1; evk; (erewrite cell_set_mid; [|lia|reflexivity]); evk; reflexivity. }
  assert (NTH : forall (blk : list val) (rest : heap), nth_error (h ++ Some blk :: rest) L = Some (Some blk)) by (intros; unfold L; rewrite nth_error_app2 by lia; rewrite Nat.sub_diag; reflexivity).
  assert (KL : forall (blk : list val) (rest : heap), kill L (h ++ Some blk :: rest) = h ++ None :: rest) by (intros; unfold kill, L; rewrite set_nth_v_app; reflexivity).
  destruct Out1 as [(-> & -> & Hs2 & blk & newb & Hh2 & VR)|(Hneg1 & -> & j & Hh2)].
  2: { (* the values could not be read: the slice is released again *)
    assert (tl = nones j) by (rewrite Hh2 in Htl; apply app_inv_head in Htl; congruence). subst tl.
    set (hX := h ++ Some [VNull; VInt 0; VInt 0; VInt 0; VInt 1] :: nones j) in *.
    set (h3 := h ++ Some [VNull; VInt 0; VInt 0; VInt 0; VInt 0] :: nones j).
    pose proof (cs_destroy_fresh_bs k2 s2 m2 hX L VNull hX h3 VUndef (NTH _ _) ltac:(left; split; reflexivity) eq_refl
                  ltac:(unfold hX, h3, L; erewrite cell_set_mid; [reflexivity|lia|reflexivity]) (NTH _ _)) as D.
    unfold h3 in D. rewrite KL in D. unfold fr in D. cbn [app] in D.
    exists st1. eexists (Build_crl _ _ _ _ _ _ _ _ _ _). do 4 eexists. split; [|split; [exact Pf1|split; [right; split; [exact Hneg1|split; [reflexivity|exists (S j); reflexivity]]|]]].
    2: { intros Hk0. assert (Dk : dec k < 0) by (unfold dec; replace (0 <? k) with false by lia; exact Hk0). specialize (MT1 Dk). destruct (Va.va_read false None s1) as [[xva xs]|eV]; [unfold SBDF_OK in MT1; lia|split; [exact MT1|intros X; unfold SBDF_OK in X; lia]]. }
    eapply cs_read_brk.
    - unfold cs_body. cbn [fbody prog_sbdf_cs_read]. apply HEAD. apply PRE.
      eapply bsE_seq_brk. eapply bsE_seq; [exact T3|]. uncr. eapply bsE_if; [evk; reflexivity|cbn [truth]; replace (st1 =? 0) with false by lia; reflexivity|apply bsE_break].
    - unfold cs_tail. cbn [fbody prog_sbdf_cs_read]. uncr.
      eapply bsE_seq; [eapply bsE_if; [evk; reflexivity|cbn [truth]; replace (st1 =? 0) with false by lia; reflexivity|]; eapply bsE_call; [reflexivity|evk; reflexivity|reflexivity|evk; exact D|evk; reflexivity]|].
      eapply bsE_return. evk. reflexivity. }
  assert (tl = Some blk :: newb) by (rewrite Hh2 in Htl; apply app_inv_head in Htl; congruence). subst tl. clear Htl Hh2.
  assert (MV : exists va, Va.va_read false None s1 = Ok (va, s2)) by (specialize (PP1 eq_refl); destruct (Va.va_read false None s1) as [[va sM]|]; [exists va; rewrite PP1; reflexivity|contradiction]).
  destruct MV as (va & MV). rewrite MV.
  set (slice := [VCell (S L) 0; VInt 0; VInt 0; VInt 0; VInt 1]) in *.
  set (hY := h ++ Some slice :: Some blk :: newb) in *.
  set (hpY := h ++ [Some slice]).
  assert (HpY : List.length hpY = S L) by (unfold hpY; rewrite app_length; cbn; lia).
  assert (HYp : hY = hpY ++ Some blk :: newb) by (unfold hY, hpY; rewrite <- app_assoc; reflexivity).
  (* releasing the slice with its values *)
  assert (DY : forall kk sxx, bsE prog_env (fbody prog_sbdf_cs_destroy) (fr [("cs"%string, VCell L 0); ("i"%string, VUndef)] bv kk sxx hY m2 o)
                 (OReturn (VInt 0) (fr [("cs"%string, VCell L 0); ("i"%string, VUndef)] bv kk sxx (h ++ nones (S (S (List.length newb)))) m2 o))).
  { intros kk sxx.
    set (h1 := h ++ Some slice :: None :: nones (List.length newb)).
    set (h3 := h ++ Some [VCell (S L) 0; VInt 0; VInt 0; VInt 0; VInt 0] :: None :: nones (List.length newb)).
    pose proof (cs_destroy_fresh_bs kk sxx m2 hY L (VCell (S L) 0) h1 h3 VUndef (NTH _ _)
                  ltac:(right; exists (S L); split; [reflexivity|rewrite HYp; unfold h1; replace (h ++ Some slice :: None :: nones (List.length newb)) with (hpY ++ None :: nones (List.length newb)) by (unfold hpY; rewrite <- app_assoc; reflexivity); exact (VR hpY HpY)])
                  ltac:(unfold h1, hY; rewrite !NTH; reflexivity)
                  ltac:(unfold h1, h3, L, slice; erewrite cell_set_mid; [reflexivity|lia|reflexivity]) (NTH _ _)) as D.
    unfold h3 in D. rewrite KL in D. exact D. }
  pose proof (read_int32_bs2 hY fv (VPtr ROut 0) VUndef bv k2 s2 m2 o I I Hs2) as R.
  destruct (read_int32 false s2) as [[v s3]|e] eqn:ER.
  2: { (* the property count cannot be read *)
    destruct R as (c' & s' & R). pose proof (read_int32_err s2 e ER). subst e.
    specialize (DY k2 s'). unfold fr in DY. cbn [app] in DY.
    exists SBDF_ERROR_IO. eexists (Build_crl _ _ _ _ _ _ _ _ _ _). do 4 eexists. split; [|split; [exact Pf1|split; [right; split; [reflexivity|split; [reflexivity|eexists; reflexivity]]|intros _; split; [reflexivity|intros X; cbv in X; discriminate X]]]].
    eapply cs_read_brk.
    - unfold cs_body. cbn [fbody prog_sbdf_cs_read]. apply HEAD. apply PRE.
      eapply bsE_seq; [eapply bsE_seq; [exact T3|uncr; eapply bsE_if; [evk; reflexivity|reflexivity|apply bsE_skip]]|].
      eapply bsE_seq_brk. uncr. eapply bsE_seq; [eapply bsE_call; [reflexivity|evk; reflexivity|reflexivity|exact R|unfold ri2; evk; reflexivity]|].
      eapply bsE_if; [evk; reflexivity|reflexivity|apply bsE_break].
    - unfold cs_tail. cbn [fbody prog_sbdf_cs_read]. uncr.
      eapply bsE_seq; [eapply bsE_if; [evk; reflexivity|reflexivity|]; eapply bsE_call; [reflexivity|evk; reflexivity|reflexivity|evk; exact DY|evk; reflexivity]|].
      eapply bsE_return. evk. reflexivity. }
  destruct (read_int32_range s2 v s3 Hs2 ER) as (Hv & _).
  destruct (v <? 0) eqn:Eneg.
  { (* a negative property count *)
    specialize (DY k2 s3). unfold fr in DY. cbn [app] in DY.
    exists SBDF_ERROR_INVALID_SIZE. eexists (Build_crl _ _ _ _ _ _ _ _ _ _). do 4 eexists. split; [|split; [exact Pf1|split; [right; split; [reflexivity|split; [reflexivity|eexists; reflexivity]]|intros _; split; [reflexivity|intros X; cbv in X; discriminate X]]]].
    eapply cs_read_brk.
    - unfold cs_body. cbn [fbody prog_sbdf_cs_read]. apply HEAD. apply PRE.
      eapply bsE_seq; [eapply bsE_seq; [exact T3|uncr; eapply bsE_if; [evk; reflexivity|reflexivity|apply bsE_skip]]|].
      uncr. eapply bsE_seq; [eapply bsE_seq; [eapply bsE_call; [reflexivity|evk; reflexivity|reflexivity|exact R|unfold ri2; evk; reflexivity]|eapply bsE_if; [evk; reflexivity|reflexivity|apply bsE_skip]]|].
      eapply bsE_seq_brk. eapply bsE_if; [evk; chk7; evk; rewrite Eneg; reflexivity|reflexivity|].
      eapply bsE_seq; [eapply bsE_expr; evk; chk7; evk; reflexivity|apply bsE_break].
    - unfold cs_tail. cbn [fbody prog_sbdf_cs_read]. uncr.
      eapply bsE_seq; [eapply bsE_if; [evk; reflexivity|reflexivity|]; eapply bsE_call; [reflexivity|evk; reflexivity|reflexivity|evk; exact DY|evk; reflexivity]|].
      eapply bsE_return. evk. reflexivity. }
  destruct (v =? 0) eqn:Ez.
  { (* no properties: the slice is handed out *)
  assert (v = 0) by lia. subst v.
  exists SBDF_OK. eexists (Build_crl _ _ _ _ _ _ _ _ _ _). do 4 eexists. split; [|split; [exact Pf1|split; [left; split; [reflexivity|split; [reflexivity|]]|intros Hk0; split; [reflexivity|intros _; assert (Dk : dec k < 0) by (unfold dec; replace (0 <? k) with false by lia; exact Hk0); rewrite (KK1 Dk eq_refl); unfold dec; replace (0 <? k) with false by lia; reflexivity]]]].
  2: { split.
       - exists (Some slice :: Some blk :: newb). split; [reflexivity|]. split; [cbn [List.length]; lia|]. apply cs_sem_fresh. exact VR.
       - exists s1, va, s2, 0, s3. split; [reflexivity|]. split; [exact MV|]. split; [exact ER|]. split; [lia|]. split; [reflexivity|exact (read_int32_bytes s2 0 s3 Hs2 ER)]. }
  eapply cs_read_brk.
  - unfold cs_body. cbn [fbody prog_sbdf_cs_read]. apply HEAD. apply PRE.
    eapply bsE_seq; [eapply bsE_seq; [exact T3|uncr; eapply bsE_if; [evk; reflexivity|reflexivity|apply bsE_skip]]|].
    uncr. eapply bsE_seq; [eapply bsE_seq; [eapply bsE_call; [reflexivity|evk; reflexivity|reflexivity|exact R|unfold ri2; evk; reflexivity]|eapply bsE_if; [evk; reflexivity|reflexivity|apply bsE_skip]]|].
    eapply bsE_seq; [eapply bsE_if; [evk; chk7; evk; reflexivity|reflexivity|apply bsE_skip]|].
    eapply bsE_seq; [eapply bsE_if; [evk; chk7; evk; reflexivity|reflexivity|apply bsE_skip]|]. apply bsE_break.
  - unfold cs_tail. cbn [fbody prog_sbdf_cs_read]. uncr.
    eapply bsE_seq; [eapply bsE_if; [evk; reflexivity|reflexivity|]; eapply bsE_expr; evk; reflexivity|].
    eapply bsE_return. evk. reflexivity. }
  (* properties: the loop *)
  destruct (PROPS k2 s3 m2 blk newb v VR ltac:(lia) (read_int32_bytes s2 v s3 Hs2 ER) (NBP s1 va s2 v s3 eq_refl MV ER))
    as (st & l' & k' & s' & h' & m' & (sB & B1 & B2) & Pf2 & Out & PST).
  exists st, l', k', s', h', m'. split; [|split; [|split]].
  - eapply cs_read_brk; [|exact B2].
    unfold cs_body. cbn [fbody prog_sbdf_cs_read]. apply HEAD. apply PRE.
    eapply bsE_seq; [eapply bsE_seq; [exact T3|uncr; eapply bsE_if; [evk; reflexivity|reflexivity|apply bsE_skip]]|].
    uncr. eapply bsE_seq; [eapply bsE_seq; [eapply bsE_call; [reflexivity|evk; reflexivity|reflexivity|exact R|unfold ri2; evk; reflexivity]|eapply bsE_if; [evk; reflexivity|reflexivity|apply bsE_skip]]|].
    eapply bsE_seq; [eapply bsE_if; [evk; chk7; evk; rewrite Eneg; reflexivity|reflexivity|apply bsE_skip]|].
    revert B1. unfold cs_props_seq, cs_body, s6. cbn [fbody prog_sbdf_cs_read]. uncr. fold slice. fold hY. intros B1. exact B1.
  - destruct Pf1 as (x1 & ->). destruct Pf2 as (x2 & ->). exists (x1 ++ x2). now rewrite app_assoc.
  - destruct Out as [(-> & Ho & Rl & PE & PB & Hvs)|(Hn & Ho & Hj)]; [left|right; split; [exact Hn|split; [exact Ho|exact Hj]]].
    split; [reflexivity|]. split; [exact Ho|]. split; [exact Rl|]. exists s1, va, s2, v, s3. split; [reflexivity|]. split; [exact MV|]. split; [exact ER|]. split; [lia|split; [exact PE|exact PB]].
  - intros Hk0. assert (Dk : dec k < 0) by (unfold dec; replace (0 <? k) with false by lia; exact Hk0).
    assert (Hk2 : k2 = k) by (rewrite (KK1 Dk eq_refl); unfold dec; replace (0 <? k) with false by lia; reflexivity).
    destruct (PST ltac:(lia)) as (P1 & P2). split; [exact P1|intros X; rewrite (P2 X); exact Hk2].
Qed.
End Main.

(* a slice as sbdf_cs_read hands it out without properties is released by one sbdf_cs_destroy: values, then the struct *)
Lemma cs_destroy_read_bs h blk newb m2 kk sxx :
  let L := List.length h in
  (forall hp : heap, List.length hp = S L -> va_rel m2 (hp ++ Some blk :: newb) (S L) (hp ++ None :: nones (List.length newb))) ->
  bsE prog_env (fbody prog_sbdf_cs_destroy) (fr [("cs"%string, VCell L 0); ("i"%string, VUndef)] bv kk sxx (h ++ Some [VCell (S L) 0; VInt 0; VInt 0; VInt 0; VInt 1] :: Some blk :: newb) m2 o)
    (OReturn (VInt 0) (fr [("cs"%string, VCell L 0); ("i"%string, VUndef)] bv kk sxx (h ++ nones (S (S (List.length newb)))) m2 o)).
Proof.
  intros L VR.
  assert (NTH : forall (b : list val) (rest : heap), nth_error (h ++ Some b :: rest) L = Some (Some b)) by (intros; unfold L; rewrite nth_error_app2 by lia; rewrite Nat.sub_diag; reflexivity).
  assert (KL : forall (b : list val) (rest : heap), kill L (h ++ Some b :: rest) = h ++ None :: rest) by (intros; unfold kill, L; rewrite set_nth_v_app; reflexivity).
  set (slice := [VCell (S L) 0; VInt 0; VInt 0; VInt 0; VInt 1]).
  set (hpY := h ++ [Some slice]).
  assert (HpY : List.length hpY = S L) by (unfold hpY; rewrite app_length; cbn; lia).
  set (h1 := h ++ Some slice :: None :: nones (List.length newb)).
  set (h3 := h ++ Some [VCell (S L) 0; VInt 0; VInt 0; VInt 0; VInt 0] :: None :: nones (List.length newb)).
  pose proof (cs_destroy_fresh_bs kk sxx m2 (h ++ Some slice :: Some blk :: newb) L (VCell (S L) 0) h1 h3 VUndef (NTH _ _)
                ltac:(right; exists (S L); split; [reflexivity|replace (h ++ Some slice :: Some blk :: newb) with (hpY ++ Some blk :: newb) by (unfold hpY; rewrite <- app_assoc; reflexivity);
                       unfold h1; replace (h ++ Some slice :: None :: nones (List.length newb)) with (hpY ++ None :: nones (List.length newb)) by (unfold hpY; rewrite <- app_assoc; reflexivity); exact (VR hpY HpY)])
                ltac:(unfold h1; rewrite !NTH; reflexivity)
                ltac:(unfold h1, h3, L, slice; erewrite cell_set_mid; [reflexivity|lia|reflexivity]) (NTH _ _)) as D.
  unfold h3 in D. rewrite KL in D. exact D.
Qed.
End CsRead.

(* ================================================================== as top-level calls *)
Theorem cs_read_source rf rp fo po k sx m h : Forall byte sx ->
  (forall s1, sec_expect SBDF_COLUMNSLICE_SECTIONID sx = Ok (tt, s1) -> forall t s2, s1 <> 3 :: t :: s2) ->
  (forall s1 va s2 v s3, sec_expect SBDF_COLUMNSLICE_SECTIONID sx = Ok (tt, s1) -> Va.va_read false None s1 = Ok (va, s2) -> read_int32 false s2 = Ok (v, s3) -> v <= 0) ->
  exists f0, forall f, (f0 <= f)%nat -> exists st fin,
    callC prog_env f prog_sbdf_cs_read [VPtr rf fo; VPtr rp po] m k sx h = OReturn (VInt st) fin /\ prefix_of m (inb fin) /\
    ((st = SBDF_OK /\ lookup "*out" (vars fin) = Some (VCell (List.length h) 0) /\
        (exists s1 va s2 s3, sec_expect SBDF_COLUMNSLICE_SECTIONID sx = Ok (tt, s1) /\ Va.va_read false None s1 = Ok (va, s2) /\ read_int32 false s2 = Ok (0, s3) /\
                             lookup strm_var (vars fin) = Some (VBytes s3)) /\
        exists h' nb, lookup cells_var (vars fin) = Some (VHeap h') /\ List.length h' = (List.length h + S (S nb))%nat /\
          (* one sbdf_cs_destroy releases everything the read allocated *)
          forall k' s', exists f1, forall g, (f1 <= g)%nat -> exists fin2,
            callC prog_env g prog_sbdf_cs_destroy [VCell (List.length h) 0] (inb fin) k' s' h' = OReturn (VInt 0) fin2 /\
            inb fin2 = inb fin /\ lookup cells_var (vars fin2) = Some (VHeap (h ++ nones (S (S nb)))))
     \/ (st < 0 /\ lookup "*out" (vars fin) = Some VUndef /\ exists j, lookup cells_var (vars fin) = Some (VHeap (h ++ nones j)))) /\
    (k < 0 -> (exists s1 va s2 s3, sec_expect SBDF_COLUMNSLICE_SECTIONID sx = Ok (tt, s1) /\ Va.va_read false None s1 = Ok (va, s2) /\ read_int32 false s2 = Ok (0, s3)) -> st = SBDF_OK).
Proof.
  intros Hs NB CNT.
  destruct (cs_read_bs (VInt 0) [] rf rp fo po VUndef k sx h m Hs NB CNT) as (st & l' & k' & s' & h' & m' & B & Pf & Out & MOK).
  destruct (bsE_sound _ _ _ _ B) as (f0 & F). exists f0. intros f Hf. exists st. eexists. split; [apply F; exact Hf|]. split; [exact Pf|]. split; [|exact MOK].
  destruct l'. cbn [c_so] in Out.
  destruct Out as [(-> & -> & blk & newb & -> & VR & s1 & va & s2 & E1 & E2 & E3)|(Hn & -> & j & ->)].
  - left. split; [reflexivity|]. split; [reflexivity|]. split; [exists s1, va, s2, s'; repeat split; assumption|].
    eexists; exists (List.length newb). split; [reflexivity|]. split; [rewrite app_length; cbn [List.length]; lia|].
    intros k2 s2'. destruct (bsE_sound _ _ _ _ (cs_destroy_read_bs (VInt 0) [] h blk newb m' k2 s2' VR)) as (f1 & F1). exists f1. intros g Hg.
    eexists. split; [apply F1; exact Hg|]. split; reflexivity.
  - right. split; [exact Hn|]. split; [reflexivity|]. exists j. reflexivity.
Qed.
