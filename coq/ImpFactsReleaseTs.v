(* ImpFactsReleaseTs.v - a table slice that owns its columns (built by the reader), from the source: sbdf_ts_destroy
   hands every column slot to sbdf_cs_destroy exactly once, in order (empty slots of a subset read included: a
   null column is a no-op), then releases the columns array and the struct. *)
From Sbdf Require Import ImpCall Gen.Prog Gen.Consts Base BaseFacts ImpBase ImpFactsCells ImpFactsStrDestroy ImpFactsDestroy ImpFactsRelease ImpFactsReleaseAll.
From Coq Require Import ZifyBool.
Local Open Scope Z_scope.
Ltac Zify.zify_post_hook ::= Z.div_mod_to_equations.

Ltac evt := cbn [prog_env eval_args callee_init finish_call copy_in copy_out try_update update lookup combine map app String.append
                 String.eqb Ascii.eqb Bool.eqb fparams flocals fbody vars inb outb budget_var fail_var strm_var cells_var cell_token List.length Nat.eqb eval set_var cast
                 prog_sbdf_cs_destroy prog_sbdf_ts_destroy truth binop_int b2z negb heap_of as_ptr storable fst snd];
  change (0 =? 0) with true; change (1 =? 0) with false; cbn [negb b2z].

(* what sbdf_cs_destroy does to the cell heap, for the column slots of a reader-built table slice *)
Inductive cs_destroys (m : list Z) : heap -> val -> heap -> Prop :=
| csd_null h v : as_ptr v = VNull -> cs_destroys m h v h
| csd_owned h v cb values n names props owned pb pcells pused pslack h1 h2 h3 nb ncells used :
    as_ptr v = VCell cb 0 -> owned <> 0 ->
    cs_block h cb values n names props owned -> n < int_max ->
    va_destroys_opt m h values h1 -> (forall b, In b [cb; pb] -> nth_error h1 b = nth_error h b) ->
    as_ptr props = VCell pb 0 -> nth_error h pb = Some (Some pcells) -> pcells = pused ++ pslack -> zlen pused = n ->
    va_destroys_list m [cb; pb] h1 pused h2 ->
    cell_set h2 cb 4 (VInt 0) = Some h3 ->
    cs_block h3 cb values (zlen used) names props 0 -> as_ptr names = VCell nb 0 -> nth_error h3 nb = Some (Some ncells) ->
    elem_ptrs m used -> (exists slack, ncells = used ++ slack) -> zlen used < int_max ->
    nth_error h3 pb = Some (Some pcells) -> cb <> nb -> cb <> pb -> nb <> pb ->
    cs_destroys m h v (kill cb (kill pb (kill nb h3))).

Fixpoint cs_destroys_list (m : list Z) (keep : list nat) (h : heap) (cells : list val) (h' : heap) : Prop :=
  match cells with
  | [] => h' = h
  | c :: r => exists h1, cs_destroys m h c h1 /\ (forall b, In b keep -> nth_error h1 b = nth_error h b) /\ cs_destroys_list m keep h1 r h'
  end.

Section ReleaseTs.
Variables (bv : val) (k : Z) (sx : list Z) (m o : list Z).

Lemma ts_cols_loop tb colb n meta cols owned ccells slack :
  forall rest done h h', ccells = done ++ rest ++ slack -> zlen done + zlen rest = n -> n < int_max ->
  ts_block h tb meta n cols owned -> as_ptr cols = VCell colb 0 -> nth_error h colb = Some (Some ccells) ->
  cs_destroys_list m [tb; colb] h rest h' ->
  bsE prog_env
    (SWhile (EBin Lt (EVar "i") (ECellLoad (EVar "slice") (EConst 1) false))
       (SSeq (SCall None "sbdf_cs_destroy" [(AVal (ECellLoad (ECellLoad (EVar "slice") (EConst 2) true) (EVar "i") true))]) (SExpr (EPreInc "i"))))
    (fr [("slice"%string, VCell tb 0); ("i"%string, VInt (zlen done))] bv k sx h m o)
    (ONormal (fr [("slice"%string, VCell tb 0); ("i"%string, VInt n)] bv k sx h' m o)).
Proof.
  induction rest as [|c rest IH]; intros done h h' Hp Hn Hmax Ht Hcol Hcb L; unfold fr; unfold ts_block in Ht; unfold int_max in Hmax.
  - cbn [cs_destroys_list] in L. subst h'. change (zlen (@nil val)) with 0 in Hn. replace (zlen done) with n by lia.
    eapply bsE_while_f; [evt; chk7; evt; cellrw Ht; evt; rewrite Z.ltb_irrefl; reflexivity|reflexivity].
  - cbn [cs_destroys_list] in L. destruct L as (h1 & D & K & L).
    pose proof (zlen_nonneg done) as Pd. assert (Hz : zlen (c :: rest) = 1 + zlen rest) by (unfold zlen; cbn [List.length]; lia). pose proof (zlen_nonneg rest) as Pr.
    assert (Hd : zlen done < n) by lia.
    assert (Hnth : nth_error ccells (Z.to_nat (0 + zlen done)) = Some c).
    { rewrite Hp. replace (Z.to_nat (0 + zlen done)) with (List.length done) by (unfold zlen; lia). rewrite nth_error_app2 by lia. rewrite Nat.sub_diag. reflexivity. }
    assert (ARGS : eval_args [(AVal (ECellLoad (ECellLoad (EVar "slice") (EConst 2) true) (EVar "i") true))]
        {| vars := [("slice"%string, VCell tb 0); ("i"%string, VInt (zlen done)); (budget_var, bv); (fail_var, VInt k); (strm_var, VBytes sx); (cells_var, VHeap h)]; inb := m; outb := o |}
        = Some ([as_ptr c], [None], {| vars := [("slice"%string, VCell tb 0); ("i"%string, VInt (zlen done)); (budget_var, bv); (fail_var, VInt k); (strm_var, VBytes sx); (cells_var, VHeap h)]; inb := m; outb := o |})).
    { evt. chk7. evt. cellrw Ht. evt. rewrite Hcol. evt. unfold cell_get. rewrite Hcb. replace (0 <=? 0 + zlen done) with true by lia. rewrite Hnth. evt. reflexivity. }
    assert (STEP : bsE prog_env (SCall None "sbdf_cs_destroy" [(AVal (ECellLoad (ECellLoad (EVar "slice") (EConst 2) true) (EVar "i") true))])
        {| vars := [("slice"%string, VCell tb 0); ("i"%string, VInt (zlen done)); (budget_var, bv); (fail_var, VInt k); (strm_var, VBytes sx); (cells_var, VHeap h)]; inb := m; outb := o |}
        (ONormal {| vars := [("slice"%string, VCell tb 0); ("i"%string, VInt (zlen done)); (budget_var, bv); (fail_var, VInt k); (strm_var, VBytes sx); (cells_var, VHeap h1)]; inb := m; outb := o |})).
    { inversion D as [hh v N|hh v cb values n0 names props owned0 pb pcells pused pslack hh1 hh2 hh3 nb ncells used P Hown Hc Hmx D1 K1 Hpr Hpb Hsp Hnn LL E3 Hc3 Hnm Hnb3 Hel Hsl Hmx2 Hpb3 N1 N2 N3]; subst.
      - rewrite N in ARGS. eapply bsE_call_void; [reflexivity|exact ARGS|reflexivity
          |evt; cbn [fbody prog_sbdf_cs_destroy]; eapply bsE_if; [evt; reflexivity|reflexivity|apply bsE_skip]|evt; reflexivity].
      - rewrite P in ARGS.
        pose proof (cs_destroy_owned_bs bv k sx m o h cb values _ names props owned0 pb _ pused pslack hh1 hh2 hh3 nb ncells used VUndef Hown Hc Hmx D1 K1 Hpr Hpb eq_refl eq_refl LL E3 Hc3 Hnm Hnb3 Hel Hsl Hmx2 Hpb3 N1 N2 N3) as B.
        unfold fr in B. cbn [app] in B.
        eapply bsE_call; [reflexivity|exact ARGS|reflexivity|evt; exact B|evt; reflexivity]. }
    eapply bsE_while_t; [evt; chk7; evt; cellrw Ht; evt; replace (zlen done <? n) with true by lia; reflexivity|reflexivity| |].
    + eapply bsE_seq; [exact STEP|]. eapply bsE_expr. evt. unfold incr. chk7. evt. reflexivity.
    + replace (zlen done + 1) with (zlen (done ++ [c])) by (rewrite zlen_app; reflexivity).
      apply (IH (done ++ [c]) h1 h'); [rewrite <- app_assoc; exact Hp|rewrite zlen_app; change (zlen [c]) with 1; lia|unfold int_max; exact Hmax| | |  |exact L].
      * unfold ts_block. rewrite (K tb) by (left; reflexivity). exact Ht.
      * exact Hcol.
      * rewrite (K colb) by (right; left; reflexivity). exact Hcb.
Qed.


Lemma ts_destroy_owned_bs h tb meta n cols owned colb ccells cused cslack h2 i0 : owned <> 0 -> n < int_max ->
  ts_block h tb meta n cols owned -> as_ptr cols = VCell colb 0 -> nth_error h colb = Some (Some ccells) ->
  ccells = cused ++ cslack -> zlen cused = n -> cs_destroys_list m [tb; colb] h cused h2 -> tb <> colb ->
  bsE prog_env (fbody prog_sbdf_ts_destroy) (fr [("slice"%string, VCell tb 0); ("i"%string, i0)] bv k sx h m o)
    (ONormal (fr [("slice"%string, VCell tb 0); ("i"%string, VInt n)] bv k sx (kill tb (kill colb h2)) m o)).
Proof.
  intros Hown Hmax Ht Hcol Hcb Hsplit Hn L Hne.
  pose proof (ts_cols_loop tb colb n meta cols owned ccells cslack cused [] h h2 (eq_trans Hsplit eq_refl) ltac:(change (zlen (@nil val)) with 0; lia) Hmax Ht Hcol Hcb L) as LOOP.
  change (zlen (@nil val)) with 0 in LOOP. unfold fr in LOOP. cbn [app] in LOOP.
  (* the two blocks of the slice itself are still there after the columns are gone *)
  assert (KEEP : forall cells hh hh', cs_destroys_list m [tb; colb] hh cells hh' -> nth_error hh' tb = nth_error hh tb /\ nth_error hh' colb = nth_error hh colb).
  { induction cells as [|c cells IH]; intros hh hh' LL; cbn [cs_destroys_list] in LL; [subst; split; reflexivity|].
    destruct LL as (hx & _ & K & LL). destruct (IH hx hh' LL) as (A & B). rewrite A, B. split; apply K; [left|right; left]; reflexivity. }
  destruct (KEEP cused h h2 L) as (Kt & Kc).
  unfold ts_block in Ht. cbn [fbody prog_sbdf_ts_destroy]. unfold fr.
  assert (Ht2 : nth_error h2 tb = Some (Some [meta; VInt n; cols; VInt owned])) by (rewrite Kt; exact Ht).
  assert (Hcb2 : nth_error h2 colb = Some (Some ccells)) by (rewrite Kc; exact Hcb).
  destruct (set_nth_v_some h2 colb _ None Hcb2) as (h3 & E3).
  assert (Ht3 : nth_error h3 tb = Some (Some [meta; VInt n; cols; VInt owned])) by (rewrite (set_nth_v_other h2 colb tb None h3 E3) by congruence; exact Ht2).
  destruct (set_nth_v_some h3 tb _ None Ht3) as (h4 & E4).
  assert (Hfin : kill tb (kill colb h2) = h4) by (unfold kill; rewrite E3, E4; reflexivity). rewrite Hfin.
  eapply bsE_if; [evt; reflexivity|reflexivity|].
  eapply bsE_seq.
  { eapply bsE_if; [evt; chk7; evt; cellrw Ht; evt; reflexivity|cbn [truth]; destruct (owned =? 0) eqn:Z0; [lia|reflexivity]|].
    eapply bsE_if; [evt; chk7; evt; cellrw Ht; evt; rewrite Hcol; reflexivity|reflexivity|].
    eapply bsE_seq; [eapply bsE_decl0; evt; reflexivity|]. eapply bsE_seq; [eapply bsE_expr; evt; chk7; evt; reflexivity|exact LOOP]. }
  eapply bsE_seq.
  { eapply bsE_if; [evt; chk7; evt; cellrw Ht2; evt; rewrite Hcol; reflexivity|reflexivity|].
    eapply bsE_expr. evt. chk7. evt. cellrw Ht2. evt. rewrite Hcol. evt. rewrite Hcb2. evt. rewrite E3. evt. reflexivity. }
  eapply bsE_expr. evt. rewrite Ht3. evt. rewrite E4. evt. reflexivity.
Qed.

End ReleaseTs.

Theorem ts_destroy_owned_source k sx m h tb meta n cols owned colb ccells cused cslack h2 : owned <> 0 -> n < int_max ->
  ts_block h tb meta n cols owned -> as_ptr cols = VCell colb 0 -> nth_error h colb = Some (Some ccells) ->
  ccells = cused ++ cslack -> zlen cused = n -> cs_destroys_list m [tb; colb] h cused h2 -> tb <> colb ->
  exists f0, forall f, (f0 <= f)%nat -> exists fin,
    callC prog_env f prog_sbdf_ts_destroy [VCell tb 0] m k sx h = ONormal fin /\ inb fin = m /\
    lookup cells_var (vars fin) = Some (VHeap (kill tb (kill colb h2))).
Proof.
  intros. destruct (bsE_sound _ _ _ _ (ts_destroy_owned_bs (VInt 0) k sx m [] h tb meta n cols owned colb ccells cused cslack h2 VUndef H H0 H1 H2 H3 H4 H5 H6 H7)) as (f0 & F).
  exists f0. intros f Hf. eexists. split; [apply F; exact Hf|]. split; reflexivity.
Qed.
