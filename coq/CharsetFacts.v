(* CharsetFacts.v — the charset helpers (C19), on the bytes before the terminator. *)
From Sbdf Require Import Charset BaseFacts.
From Coq Require Import ZifyBool.

Definition latin1 (b : Z) : Prop := 1 <= b <= 255.

(* the two-byte step, checked for all 128 non-ASCII Latin-1 bytes by computation *)
Definition step_ok (ch : Z) : bool :=
  let b1 := Z.lor 192 (Z.shiftr ch 6) in
  let b2 := Z.lor 128 (Z.land ch 63) in
  negb (b1 <=? 127) && (192 <=? b1) && (b1 <? 223) && is_cont b2 &&
  (Z.land b1 31 * 64 + Z.land b2 63 =? ch) && (194 <=? b1) && (b1 <=? 195) && (128 <=? b2) && (b2 <=? 191).

Lemma step_ok_all : forallb step_ok (map Z.of_nat (seq 128 128)) = true.
Proof. vm_compute. reflexivity. Qed.

Lemma step_ok_range ch : 128 <= ch <= 255 -> step_ok ch = true.
Proof.
  intros H. pose proof step_ok_all as A. rewrite forallb_forall in A. apply A.
  apply in_map_iff. exists (Z.to_nat ch). split; [lia|]. apply in_seq. lia.
Qed.

Lemma step_facts ch : 128 <= ch <= 255 ->
  let b1 := Z.lor 192 (Z.shiftr ch 6) in
  let b2 := Z.lor 128 (Z.land ch 63) in
  (b1 <=? 127) = false /\ (192 <=? b1) = true /\ (b1 <? 223) = true /\ is_cont b2 = true /\
  Z.land b1 31 * 64 + Z.land b2 63 = ch /\ 194 <= b1 <= 195 /\ 128 <= b2 <= 191.
Proof.
  intros H b1 b2. pose proof (step_ok_range ch H) as S. unfold step_ok in S. fold b1 b2 in S.
  apply andb_true_iff in S as [S S9]. apply andb_true_iff in S as [S S8]. apply andb_true_iff in S as [S S7].
  apply andb_true_iff in S as [S S6]. apply andb_true_iff in S as [S S5]. apply andb_true_iff in S as [S S4].
  apply andb_true_iff in S as [S S3]. apply andb_true_iff in S as [S1 S2].
  apply negb_true_iff in S1. repeat split; try assumption; lia.
Qed.

Lemma u2i_loop_two f ch r : 128 <= ch <= 255 ->
  u2i_loop (S f) (Z.lor 192 (Z.shiftr ch 6) :: Z.lor 128 (Z.land ch 63) :: r) = ch :: u2i_loop f r.
Proof.
  intros H. destruct (step_facts ch H) as (F1 & F2 & F3 & F4 & F5 & F6 & F7).
  cbn [u2i_loop]. rewrite F1, F2, F3. cbn [andb]. rewrite F4, F5.
  destruct ((ch <? 128) || (256 <=? ch)) eqn:C2; [lia|]. reflexivity.
Qed.

(* ISO-8859-1 -> UTF-8 -> ISO-8859-1 is the identity on every NUL-free string *)
Lemma roundtrip_fuel s : forall f, Forall latin1 s -> (length (iso_to_utf8 s) <= f)%nat -> u2i_loop f (iso_to_utf8 s) = s.
Proof.
  induction s as [|ch s IH]; intros f Hs Hf.
  - destruct f; reflexivity.
  - inversion Hs as [|? ? Hc Hs']. subst. unfold latin1 in Hc. cbn [iso_to_utf8] in *.
    destruct (ch <=? 127) eqn:C.
    + destruct f as [|f]; [cbn in Hf; lia|]. cbn [u2i_loop]. rewrite C. f_equal. apply IH; [exact Hs'|cbn in Hf; lia].
    + destruct f as [|f]; [cbn in Hf; lia|]. rewrite u2i_loop_two by lia. f_equal. apply IH; [exact Hs'|cbn in Hf; lia].
Qed.

Theorem iso_utf8_iso_roundtrip s : Forall latin1 s -> utf8_to_iso (iso_to_utf8 s) = s.
Proof. intros H. unfold utf8_to_iso. now apply roundtrip_fuel. Qed.

(* the intermediate UTF-8 is well formed: ASCII bytes, or a lead C2..C3 followed by one continuation byte *)
Inductive wf_utf8 : list Z -> Prop :=
| wf_nil : wf_utf8 []
| wf_ascii b r : 1 <= b <= 127 -> wf_utf8 r -> wf_utf8 (b :: r)
| wf_two b1 b2 r : 194 <= b1 <= 195 -> 128 <= b2 <= 191 -> wf_utf8 r -> wf_utf8 (b1 :: b2 :: r).

Theorem iso_to_utf8_wellformed s : Forall latin1 s -> wf_utf8 (iso_to_utf8 s).
Proof.
  induction s as [|ch s IH]; intros Hs; cbn [iso_to_utf8]; [constructor|].
  inversion Hs as [|? ? Hc Hs']. subst. unfold latin1 in Hc.
  destruct (ch <=? 127) eqn:C.
  - apply wf_ascii; [lia|now apply IH].
  - destruct (step_facts ch ltac:(lia)) as (F1 & F2 & F3 & F4 & F5 & F6 & F7).
    apply wf_two; [exact F6|exact F7|now apply IH].
Qed.

(* the output never contains a NUL, so the terminator written after it is the first one *)
Theorem iso_to_utf8_nul_free s : Forall latin1 s -> Forall (fun b => b <> 0) (iso_to_utf8 s).
Proof.
  intros H. apply iso_to_utf8_wellformed in H. induction H; constructor; try lia; try assumption. constructor; [lia|assumption].
Qed.

(* size consistency: both calls of either converter account for the same number of bytes (the
   result and the terminator); in the model the size IS the length of the result plus one *)
Definition size_of_result (r : list Z) : Z := zlen r + 1.

(* UTF-8 -> ISO-8859-1 on arbitrary bytes: every output byte is a copied ASCII byte, the decode of
   a valid pair (a Latin-1 code point >= 0x80), or the substitute character; never a NUL *)
Definition out_ok (b : Z) : Prop := (1 <= b <= 127) \/ (128 <= b <= 255) \/ b = REPLACEMENT.

Lemma u2i_loop_out f : forall s, Forall (fun b => 1 <= b <= 255) s -> Forall out_ok (u2i_loop f s).
Proof.
  induction f as [|f IH]; intros s Hs; cbn [u2i_loop]; [constructor|].
  destruct s as [|ch r]; [constructor|]. inversion Hs as [|? ? Hc Hr]. subst.
  destruct (ch <=? 127) eqn:C1.
  - constructor; [left; lia|now apply IH].
  - destruct ((192 <=? ch) && (ch <? 223)) eqn:C2.
    + destruct r as [|nx r']; [constructor; [right; right; reflexivity|constructor]|].
      inversion Hr as [|? ? Hn Hr']. subst.
      destruct (is_cont nx) eqn:C3.
      * constructor; [|now apply IH].
        destruct ((Z.land ch 31 * 64 + Z.land nx 63 <? 128) || (256 <=? Z.land ch 31 * 64 + Z.land nx 63)) eqn:C4;
          [right; right; reflexivity|right; left; lia].
      * constructor; [right; right; reflexivity|now apply IH].
    + constructor; [right; right; reflexivity|]. apply IH.
      clear - Hr. induction r as [|b r IHr]; cbn [drop_cont]; [constructor|].
      inversion Hr. subst. destruct (is_cont b); [now apply IHr|assumption].
Qed.

Theorem utf8_to_iso_output s : Forall (fun b => 1 <= b <= 255) s -> Forall out_ok (utf8_to_iso s).
Proof. intros H. unfold utf8_to_iso. now apply u2i_loop_out. Qed.

(* the fuel (the input length) always suffices: the converter consumes its whole input *)
Lemma u2i_loop_fuel_enough : forall s f1 f2, (length s <= f1)%nat -> (length s <= f2)%nat -> u2i_loop f1 s = u2i_loop f2 s.
Proof.
  intros s. remember (length s) as n eqn:Hn. revert s Hn.
  induction n as [n IHn] using lt_wf_ind. intros s Hn f1 f2 H1 H2.
  destruct s as [|ch r]; [destruct f1, f2; reflexivity|].
  cbn [length] in Hn. destruct f1 as [|f1]; [lia|]. destruct f2 as [|f2]; [lia|]. cbn [u2i_loop].
  destruct (ch <=? 127); [f_equal; apply (IHn (length r)); lia|].
  destruct ((192 <=? ch) && (ch <? 223)).
  - destruct r as [|nx r']; [reflexivity|]. cbn [length] in *.
    destruct (is_cont nx); f_equal; [apply (IHn (length r')); lia|apply (IHn (length (nx :: r'))); cbn [length]; lia].
  - f_equal. assert (L : (length (drop_cont r) <= length r)%nat).
    { clear. induction r as [|b r IH]; cbn [drop_cont length]; [lia|]. destruct (is_cont b); cbn [length]; lia. }
    apply (IHn (length (drop_cont r))); lia.
Qed.
