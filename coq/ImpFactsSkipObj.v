(* ImpFactsSkipObj.v - skipping objects from the source: sbdf_skip_objects, sbdf_obj_skip_arr, sbdf_obj_skip equal the
   model's skip_objects / obj_skip_arr / obj_skip on every byte stream. *)
From Sbdf Require Import ImpCall Gen.Prog Gen.Consts Base Prim Obj BaseFacts LeafTie ImpBase ImpFactsInt32.
From Coq Require Import ZifyBool.
Local Open Scope Z_scope.
Ltac Zify.zify_post_hook ::= Z.div_mod_to_equations.

Definition so (fr : region) (fo v c pk : Z) (e k z bv : val) (s o : list Z) : state :=
  {| vars := [("f", VPtr fr fo); ("v", VInt v); ("c", VInt c); ("packed_array", VInt pk); ("err", e); ("skip", k); ("sz", z); (budget_var, bv)]%string;
     inb := s; outb := o |}.

(* one length-prefixed element: the three statements that appear in the packed branch and in the loop *)
Definition one_stmt : stmt :=
  (SSeq (SSeq (SCall (Some "err") "sbdf_read_int32" [(AVal (EVar "f")); (AAddr "skip")]) (SIf (EVar "err") (SReturn (EVar "err")) SSkip))
        (SSeq (SIf (EBin Lt (EVar "skip") (EConst (0))) (SReturn (EBin Sub (EConst 0) (EConst (21)))) SSkip)
              (SIf (ESeekCur (EVar "skip")) (SReturn (EBin Sub (EConst 0) (EConst (4)))) SSkip)))%string.

Lemma read_int32_range s x s' : Forall byte s -> read_int32 false s = Ok (x, s') -> int_min <= x <= int_max /\ (List.length s' < List.length s)%nat.
Proof.
  intros Hs ER. pose proof (read_int32_model s) as M. rewrite ER in M.
  destruct s as [|b0 [|b1 [|b2 [|b3 r]]]]; try discriminate. inversion M. subst. split; [|cbn [List.length]; lia].
  apply de32_range; [|reflexivity]. inversion Hs as [|? ? G0 Q0]. inversion Q0 as [|? ? G1 Q1]. inversion Q1 as [|? ? G2 Q2]. inversion Q2 as [|? ? G3 Q3].
  subst. constructor; [exact G0|]. constructor; [exact G1|]. constructor; [exact G2|]. constructor; [exact G3|constructor].
Qed.

Lemma read_int32_bytes s x s' : Forall byte s -> read_int32 false s = Ok (x, s') -> Forall byte s'.
Proof.
  intros Hs ER. pose proof (read_int32_model s) as M. rewrite ER in M.
  destruct s as [|b0 [|b1 [|b2 [|b3 r]]]]; try discriminate. inversion M. subst.
  inversion Hs as [|? ? G0 Q0]. inversion Q0 as [|? ? G1 Q1]. inversion Q1 as [|? ? G2 Q2]. inversion Q2 as [|? ? G3 Q3]. exact Q3.
Qed.

Lemma Forall_skipn_byte (l : list Z) : forall n, Forall byte l -> Forall byte (skipn n l).
Proof. induction l as [|b l IH]; intros [|n] H; cbn [skipn]; try exact H. inversion H; subst. now apply IH. Qed.

Lemma one_bs fr fo v c pk e k z bv s o : Forall byte s ->
  match skip_one_unpacked false s with
  | Ok (_, s') => exists x, bsE prog_env one_stmt (so fr fo v c pk e k z bv s o) (ONormal (so fr fo v c pk (VInt 0) (VInt x) z bv s' o)) /\ Forall byte s' /\ (List.length s' < List.length s)%nat
  | Err st => exists e' k' s', bsE prog_env one_stmt (so fr fo v c pk e k z bv s o) (OReturn (VInt st) (so fr fo v c pk e' k' z bv s' o))
  end.
Proof.
  intros Hs. unfold skip_one_unpacked, rd_bind, rfail, fseek_cur, one_stmt, so.
  pose proof (read_int32_bs fr ROut fo 0 k bv s o Hs) as R.
  destruct (read_int32 false s) as [[x s1]|st] eqn:ER.
  - destruct (read_int32_range s x s1 Hs ER) as (Hx & Hl). pose proof (read_int32_bytes s x s1 Hs ER) as Hb.
    destruct (x <? 0) eqn:Ex.
    + do 3 eexists.
      eapply bsE_seq; [eapply bsE_seq; [eapply bsE_call; [reflexivity|evci; reflexivity|reflexivity|exact R|unfold ri; evci; reflexivity]|no_err]|].
      eapply bsE_seq_ret. eapply bsE_if; [evi; chk7; evi; rewrite Ex; reflexivity|reflexivity|]. eapply bsE_return. evi. chk7. reflexivity.
    + exists x. split.
      * eapply bsE_seq; [eapply bsE_seq; [eapply bsE_call; [reflexivity|evci; reflexivity|reflexivity|exact R|unfold ri; evci; reflexivity]|no_err]|].
        eapply bsE_seq; [eapply bsE_if; [evi; chk7; evi; rewrite Ex; reflexivity|reflexivity|apply bsE_skip]|].
        eapply bsE_cast_o; [eapply bsE_if; [evi; replace (0 <=? x) with true by lia; reflexivity|reflexivity|apply bsE_skip]|].
        cbn [inb]. rewrite drop_z_skipn by lia. reflexivity.
      * rewrite drop_z_skipn by lia. split; [apply Forall_skipn_byte; exact Hb|]. rewrite skipn_length. lia.
  - destruct R as (c' & s1 & B). pose proof (read_int32_err s st ER). subst st.
    do 3 eexists. eapply bsE_seq_ret. eapply bsE_seq; [eapply bsE_call; [reflexivity|evci; reflexivity|reflexivity|exact B|unfold ri; evci; reflexivity]|]. ret_err.
Qed.

(* the loop over the elements of an array that is not packed: while (c--) one element *)
Lemma skip_loop fr fo v pk z bv o : forall fuel c s e k, Forall byte s -> 0 <= c <= int_max -> (List.length s <= List.length fuel)%nat ->
  match rrep fuel c (skip_one_unpacked false) s with
  | Ok (_, s') => exists e' k', bsE prog_env (SWhile (EPostDec "c") one_stmt) (so fr fo v c pk e k z bv s o) (ONormal (so fr fo v (-1) pk e' k' z bv s' o))
  | Err st => exists c' e' k' s', bsE prog_env (SWhile (EPostDec "c") one_stmt) (so fr fo v c pk e k z bv s o) (OReturn (VInt st) (so fr fo v c' pk e' k' z bv s' o))
  end.
Proof.
  induction fuel as [|b fuel IH]; intros c s e k Hs Hc Hl.
  - destruct s; [|cbn [List.length] in Hl; lia]. cbn [rrep]. destruct (c <=? 0) eqn:Ec.
    + assert (c = 0) by lia. subst c. do 2 eexists. eapply bsE_while_f; [unfold so; evi; unfold decr; chk7; evi; reflexivity|reflexivity].
    + pose proof (one_bs fr fo v (c - 1) pk e k z bv [] o Hs) as O. change (skip_one_unpacked false []) with (@Err (unit * ist) SBDF_ERROR_IO) in O.
      destruct O as (e' & k' & s' & B). do 4 eexists.
      eapply bsE_while_ret; [unfold so; evi; unfold decr; chk7; evi; reflexivity|cbn [truth]; replace (c =? 0) with false by lia; reflexivity|exact B].
  - cbn [rrep]. destruct (c <=? 0) eqn:Ec.
    + assert (c = 0) by lia. subst c. do 2 eexists. eapply bsE_while_f; [unfold so; evi; unfold decr; chk7; evi; reflexivity|reflexivity].
    + pose proof (one_bs fr fo v (c - 1) pk e k z bv s o Hs) as O.
      destruct (skip_one_unpacked false s) as [[u s1]|st].
      * destruct O as (x & B & Hb & Hl1).
        specialize (IH (c - 1) s1 (VInt 0) (VInt x) Hb ltac:(lia) ltac:(cbn [List.length] in Hl; lia)).
        destruct (rrep fuel (c - 1) (skip_one_unpacked false) s1) as [[l s2]|st].
        -- destruct IH as (e' & k' & B2). do 2 eexists.
           eapply bsE_while_t; [unfold so; evi; unfold decr; chk7; evi; reflexivity|cbn [truth]; replace (c =? 0) with false by lia; reflexivity|exact B|exact B2].
        -- destruct IH as (c' & e' & k' & s' & B2). do 4 eexists.
           eapply bsE_while_t; [unfold so; evi; unfold decr; chk7; evi; reflexivity|cbn [truth]; replace (c =? 0) with false by lia; reflexivity|exact B|exact B2].
      * destruct O as (e' & k' & s' & B). do 4 eexists.
        eapply bsE_while_ret; [unfold so; evi; unfold decr; chk7; evi; reflexivity|cbn [truth]; replace (c =? 0) with false by lia; reflexivity|exact B].
Qed.

Ltac evl := cbn [eval lookup update set_var String.eqb Ascii.eqb Bool.eqb vars inb outb truth cast binop_int b2z fst snd negb budget_var leaf_call].

(* sbdf_skip_objects: the model's skip_objects on every stream, for every type id, count and flag *)
Lemma skip_objects_bs fr fo v c pk e k z bv s o : Forall byte s -> int_min <= c <= int_max ->
  match skip_objects false v c (negb (pk =? 0)) s with
  | Ok (_, s') => exists c' e' k' z', bsE prog_env (fbody prog_sbdf_skip_objects) (so fr fo v c pk e k z bv s o) (OReturn (VInt SBDF_OK) (so fr fo v c' pk e' k' z' bv s' o))
  | Err st => exists c' e' k' z' s', bsE prog_env (fbody prog_sbdf_skip_objects) (so fr fo v c pk e k z bv s o) (OReturn (VInt st) (so fr fo v c' pk e' k' z' bv s' o))
  end.
Proof.
  intros Hs Hc. unfold skip_objects. cbn [fbody prog_sbdf_skip_objects]. fold one_stmt.
  assert (NF : forall X oo, bsE prog_env X (so fr fo v c pk e k z bv s o) oo ->
                bsE prog_env (SSeq (SIf (ELNot (EVar "f")) (SReturn (EBin Sub (EConst 0) (EConst (1)))) SSkip) X) (so fr fo v c pk e k z bv s o) oo).
  { intros X oo B. eapply bsE_seq; [eapply bsE_if; [unfold so; evl; reflexivity|reflexivity|apply bsE_skip]|exact B]. }
  destruct (c <? 0) eqn:Ec.
  - do 5 eexists. apply NF. eapply bsE_seq_ret. eapply bsE_if; [unfold so; evl; chk7; evl; rewrite Ec; reflexivity|reflexivity|].
    eapply bsE_return. unfold so. evl. chk7. reflexivity.
  - assert (C0 : forall X oo, bsE prog_env X (so fr fo v c pk e k z bv s o) oo ->
                bsE prog_env (SSeq (SIf (EBin Lt (EVar "c") (EConst (0))) (SReturn (EBin Sub (EConst 0) (EConst (21)))) SSkip) X) (so fr fo v c pk e k z bv s o) oo).
    { intros X oo B. eapply bsE_seq; [eapply bsE_if; [unfold so; evl; chk7; evl; rewrite Ec; reflexivity|reflexivity|apply bsE_skip]|exact B]. }
    pose proof (tie_is_arr v) as TA. destruct (is_arr v) eqn:EA.
    + destruct (pk =? 0) eqn:Ep; cbn [negb].
      * (* the loop *)
        unfold rd_bind, rrepeat, rret.
        pose proof (skip_loop fr fo v pk z bv o s c s VUndef VUndef Hs ltac:(lia) ltac:(lia)) as L.
        destruct (rrep s c (skip_one_unpacked false) s) as [[l s2]|st].
        -- destruct L as (e' & k' & B). do 4 eexists. apply NF. apply C0.
           eapply bsE_seq; [|eapply bsE_return; unfold so; evl; reflexivity].
           eapply bsE_if; [unfold so; evl; unfold Leaf.gen_sbdf_ti_is_arr in *; rewrite TA; reflexivity|reflexivity|].
           eapply bsE_seq; [eapply bsE_decl0; unfold so; evl; reflexivity|]. eapply bsE_seq; [eapply bsE_decl0; unfold so; evl; reflexivity|].
           eapply bsE_if; [unfold so; evl; reflexivity|cbn [truth]; rewrite Ep; reflexivity|exact B].
        -- destruct L as (c' & e' & k' & s' & B). do 5 eexists. apply NF. apply C0.
           eapply bsE_seq_ret.
           eapply bsE_if; [unfold so; evl; rewrite TA; reflexivity|reflexivity|].
           eapply bsE_seq; [eapply bsE_decl0; unfold so; evl; reflexivity|]. eapply bsE_seq; [eapply bsE_decl0; unfold so; evl; reflexivity|].
           eapply bsE_if; [unfold so; evl; reflexivity|cbn [truth]; rewrite Ep; reflexivity|exact B].
      * pose proof (one_bs fr fo v c pk VUndef VUndef z bv s o Hs) as O.
        destruct (skip_one_unpacked false s) as [[u s1]|st].
        -- destruct O as (x & B & _). destruct u. do 4 eexists. apply NF. apply C0.
           eapply bsE_seq; [|eapply bsE_return; unfold so; evl; reflexivity].
           eapply bsE_if; [unfold so; evl; rewrite TA; reflexivity|reflexivity|].
           eapply bsE_seq; [eapply bsE_decl0; unfold so; evl; reflexivity|]. eapply bsE_seq; [eapply bsE_decl0; unfold so; evl; reflexivity|].
           eapply bsE_if; [unfold so; evl; reflexivity|cbn [truth]; rewrite Ep; reflexivity|exact B].
        -- destruct O as (e' & k' & s' & B). do 5 eexists. apply NF. apply C0.
           eapply bsE_seq_ret.
           eapply bsE_if; [unfold so; evl; rewrite TA; reflexivity|reflexivity|].
           eapply bsE_seq; [eapply bsE_decl0; unfold so; evl; reflexivity|]. eapply bsE_seq; [eapply bsE_decl0; unfold so; evl; reflexivity|].
           eapply bsE_if; [unfold so; evl; reflexivity|cbn [truth]; rewrite Ep; reflexivity|exact B].
    + (* fixed-size elements: one seek over count * size *)
      pose proof (tie_packed_size v) as TP. cbv zeta.
      assert (SZ : -3 <= usize v <= 16). { unfold usize, SBDF_ERROR_UNKNOWN_TYPEID. repeat match goal with |- context [if ?b then _ else _] => destruct b end; lia. }
      destruct (usize v <? 0) eqn:E1; [|destruct (usize v =? 0) eqn:E2].
      * do 5 eexists. apply NF. apply C0. eapply bsE_seq_ret.
        eapply bsE_if; [unfold so; evl; rewrite TA; reflexivity|reflexivity|].
        eapply bsE_seq; [eapply bsE_decl1; [unfold so; evl; rewrite TP; reflexivity|evl; reflexivity]|].
        eapply bsE_seq_ret. eapply bsE_if; [evl; chk7; evl; rewrite E1; reflexivity|reflexivity|]. eapply bsE_return. evl. reflexivity.
      * do 5 eexists. apply NF. apply C0. eapply bsE_seq_ret.
        eapply bsE_if; [unfold so; evl; rewrite TA; reflexivity|reflexivity|].
        eapply bsE_seq; [eapply bsE_decl1; [unfold so; evl; rewrite TP; reflexivity|evl; reflexivity]|].
        eapply bsE_seq_ret. eapply bsE_if; [evl; chk7; evl; rewrite E1; reflexivity|reflexivity|].
        eapply bsE_if; [evl; chk7; evl; rewrite E2; reflexivity|reflexivity|]. eapply bsE_return. evl. chk7. reflexivity.
      * unfold fseek_cur. replace (c * usize v <? 0) with false by nia. do 4 eexists. apply NF. apply C0.
        eapply bsE_seq; [|eapply bsE_return; evl; reflexivity].
        eapply bsE_if; [unfold so; evl; rewrite TA; reflexivity|reflexivity|].
        eapply bsE_seq; [eapply bsE_decl1; [unfold so; evl; rewrite TP; reflexivity|evl; reflexivity]|].
        eapply bsE_seq; [eapply bsE_if; [evl; chk7; evl; rewrite E1; reflexivity|reflexivity|eapply bsE_if; [evl; chk7; evl; rewrite E2; reflexivity|reflexivity|apply bsE_skip]]|].
        eapply bsE_cast_o; [eapply bsE_if; [evl; unfold Imp.in_int; replace ((int_min <=? c) && (c <=? int_max)) with true by lia;
             replace ((int_min <=? usize v) && (usize v <=? int_max)) with true by (unfold int_min, int_max; lia); cbn [andb];
             replace (0 <=? c * usize v) with true by nia; reflexivity|reflexivity|apply bsE_skip]|].
        cbn [inb]. rewrite drop_z_skipn by nia. reflexivity.
Qed.

Ltac evcs := cbn [prog_env eval_args callee_init finish_call copy_in copy_out try_update update lookup combine map app String.append
                 String.eqb Ascii.eqb Bool.eqb fparams flocals vars inb outb budget_var fail_var cell_token List.length Nat.eqb eval set_var cast
                 prog_sbdf_swap_le prog_sbdf_read_int32].

Definition osa (fr : region) (fo vt : Z) (cn e r bv : val) (s o : list Z) : state :=
  {| vars := [("f", VPtr fr fo); ("vt", VInt vt); ("count", cn); ("err", e); ("$ret", r); (budget_var, bv)]%string; inb := s; outb := o |}.

(* sbdf_obj_skip_arr: the count, then the packed elements *)
Lemma obj_skip_arr_bs fr fo vt cn e r bv s o : Forall byte s ->
  match obj_skip_arr false vt s with
  | Ok (_, s') => exists cn' e' r', bsE prog_env (fbody prog_sbdf_obj_skip_arr) (osa fr fo vt cn e r bv s o) (OReturn (VInt SBDF_OK) (osa fr fo vt cn' e' r' bv s' o))
  | Err st => exists cn' e' r' s', bsE prog_env (fbody prog_sbdf_obj_skip_arr) (osa fr fo vt cn e r bv s o) (OReturn (VInt st) (osa fr fo vt cn' e' r' bv s' o))
  end.
Proof.
  intros Hs. unfold obj_skip_arr, rd_bind. cbn [fbody prog_sbdf_obj_skip_arr]. unfold osa.
  pose proof (read_int32_bs fr ROut fo 0 VUndef bv s o Hs) as R.
  destruct (read_int32 false s) as [[x s1]|st] eqn:ER.
  - destruct (read_int32_range s x s1 Hs ER) as (Hx & _). pose proof (read_int32_bytes s x s1 Hs ER) as Hb.
    pose proof (skip_objects_bs fr fo vt x 1 VUndef VUndef VUndef bv s1 o Hb Hx) as SO. change (negb (1 =? 0)) with true in SO.
    destruct (skip_objects false vt x true s1) as [[u s2]|st].
    + destruct SO as (c' & e' & k' & z' & B). do 3 eexists.
      eapply bsE_seq; [eapply bsE_seq; [eapply bsE_decl0; evi; reflexivity|eapply bsE_seq; [eapply bsE_decl0; evi; reflexivity|
        eapply bsE_call; [reflexivity|evcs; reflexivity|reflexivity|exact R|unfold ri; evcs; reflexivity]]]|].
      eapply bsE_seq; [no_err|].
      eapply bsE_seq; [eapply bsE_call; [reflexivity|evcs; reflexivity|reflexivity|exact B|unfold so; evcs; reflexivity]|].
      eapply bsE_return. evi. reflexivity.
    + destruct SO as (c' & e' & k' & z' & s' & B). do 4 eexists.
      eapply bsE_seq; [eapply bsE_seq; [eapply bsE_decl0; evi; reflexivity|eapply bsE_seq; [eapply bsE_decl0; evi; reflexivity|
        eapply bsE_call; [reflexivity|evcs; reflexivity|reflexivity|exact R|unfold ri; evcs; reflexivity]]]|].
      eapply bsE_seq; [no_err|].
      eapply bsE_seq; [eapply bsE_call; [reflexivity|evcs; reflexivity|reflexivity|exact B|unfold so; evcs; reflexivity]|].
      eapply bsE_return. evi. reflexivity.
  - destruct R as (c' & s1 & B). pose proof (read_int32_err s st ER). subst st.
    do 4 eexists.
    eapply bsE_seq; [eapply bsE_seq; [eapply bsE_decl0; evi; reflexivity|eapply bsE_seq; [eapply bsE_decl0; evi; reflexivity|
        eapply bsE_call; [reflexivity|evcs; reflexivity|reflexivity|exact B|unfold ri; evcs; reflexivity]]]|].
    eapply bsE_seq_ret. ret_err.
Qed.

Definition os1 (fr : region) (fo vt : Z) (r bv : val) (s o : list Z) : state :=
  {| vars := [("f", VPtr fr fo); ("vt", VInt vt); ("$ret", r); (budget_var, bv)]%string; inb := s; outb := o |}.

(* sbdf_obj_skip: one element that is not packed *)
Lemma obj_skip_bs fr fo vt r bv s o : Forall byte s ->
  match obj_skip false vt s with
  | Ok (_, s') => exists r', bsE prog_env (fbody prog_sbdf_obj_skip) (os1 fr fo vt r bv s o) (OReturn (VInt SBDF_OK) (os1 fr fo vt r' bv s' o))
  | Err st => exists r' s', bsE prog_env (fbody prog_sbdf_obj_skip) (os1 fr fo vt r bv s o) (OReturn (VInt st) (os1 fr fo vt r' bv s' o))
  end.
Proof.
  intros Hs. unfold obj_skip. cbn [fbody prog_sbdf_obj_skip]. unfold os1.
  pose proof (skip_objects_bs fr fo vt 1 0 VUndef VUndef VUndef bv s o Hs ltac:(unfold int_min, int_max; lia)) as SO. change (negb (0 =? 0)) with false in SO.
  destruct (skip_objects false vt 1 false s) as [[u s2]|st].
  - destruct SO as (c' & e' & k' & z' & B). eexists.
    eapply bsE_seq; [eapply bsE_call; [reflexivity|evcs; reflexivity|reflexivity|exact B|unfold so; evcs; reflexivity]|].
    eapply bsE_return. evi. reflexivity.
  - destruct SO as (c' & e' & k' & z' & s' & B). do 2 eexists.
    eapply bsE_seq; [eapply bsE_call; [reflexivity|evcs; reflexivity|reflexivity|exact B|unfold so; evcs; reflexivity]|].
    eapply bsE_return. evi. reflexivity.
Qed.

(* a failed skip reports a negative status (the callers test it with "if (err)") *)
Lemma skip_one_neg s st : skip_one_unpacked false s = Err st -> st < 0.
Proof.
  unfold skip_one_unpacked, rd_bind, rfail, fseek_cur. destruct (read_int32 false s) as [[x s1]|e] eqn:ER.
  - destruct (x <? 0); [intros [= <-]; reflexivity|]. destruct (x <? 0); [intros [= <-]; reflexivity|discriminate].
  - intros [= <-]. rewrite (read_int32_err s e ER). reflexivity.
Qed.

Lemma rrep_neg {A} (one : R A) : (forall s st, one s = Err st -> st < 0) -> forall fuel n s st, rrep fuel n one s = Err st -> st < 0.
Proof.
  intros H1. induction fuel as [|b fuel IH]; intros n s st; cbn [rrep]; destruct (n <=? 0); try discriminate.
  - destruct (one s) as [[a s1]|e] eqn:E; [intros [= <-]; reflexivity|intros [= <-]; eapply H1; exact E].
  - destruct (one s) as [[a s1]|e] eqn:E; [|intros [= <-]; eapply H1; exact E].
    destruct (rrep fuel (n - 1) one s1) as [[l s2]|e] eqn:E2; [discriminate|]. intros [= <-]. eapply IH. exact E2.
Qed.

Lemma skip_objects_neg v c pk s st : skip_objects false v c pk s = Err st -> st < 0.
Proof.
  unfold skip_objects. destruct (c <? 0) eqn:Ec; [intros [= <-]; reflexivity|]. destruct (is_arr v).
  - destruct pk; [apply skip_one_neg|]. unfold rd_bind, rrepeat, rret.
    destruct (rrep s c (skip_one_unpacked false) s) as [[l s2]|e] eqn:E; [discriminate|]. intros [= <-]. eapply rrep_neg; [|exact E]. intros s0 st0. apply skip_one_neg.
  - cbv zeta. destruct (usize v <? 0) eqn:E1; [intros [= <-]; lia|]. destruct (usize v =? 0); [intros [= <-]; reflexivity|].
    unfold fseek_cur. destruct (c * usize v <? 0); [intros [= <-]; reflexivity|discriminate].
Qed.

Lemma obj_skip_arr_neg t s st : obj_skip_arr false t s = Err st -> st < 0.
Proof.
  unfold obj_skip_arr, rd_bind. destruct (read_int32 false s) as [[x s1]|e] eqn:ER; [apply skip_objects_neg|].
  intros [= <-]. rewrite (read_int32_err s e ER). reflexivity.
Qed.

(* what is left of a stream of bytes after a successful skip is a stream of bytes *)
Lemma skip_one_bytes s u s' : Forall byte s -> skip_one_unpacked false s = Ok (u, s') -> Forall byte s'.
Proof.
  intros Hs. unfold skip_one_unpacked, rd_bind, rfail, fseek_cur. destruct (read_int32 false s) as [[x s1]|e] eqn:ER; [|discriminate].
  pose proof (read_int32_bytes s x s1 Hs ER) as Hb. destruct (x <? 0) eqn:Ex; [discriminate|]. intros [= _ <-].
  rewrite drop_z_skipn by lia. apply Forall_skipn_byte. exact Hb.
Qed.

Lemma rrep_bytes {A} (one : R A) : (forall s a s', Forall byte s -> one s = Ok (a, s') -> Forall byte s') ->
  forall fuel n s l s', Forall byte s -> rrep fuel n one s = Ok (l, s') -> Forall byte s'.
Proof.
  intros H1. induction fuel as [|b fuel IH]; intros n s l s' Hs; cbn [rrep]; destruct (n <=? 0); try (intros [= _ <-]; exact Hs).
  - destruct (one s) as [[a s1]|e]; discriminate.
  - destruct (one s) as [[a s1]|e] eqn:E; [|discriminate].
    destruct (rrep fuel (n - 1) one s1) as [[l2 s2]|e] eqn:E2; [|discriminate]. intros [= _ <-]. eapply IH; [eapply H1; [exact Hs|exact E]|exact E2].
Qed.

Lemma skip_objects_bytes v c pk s u s' : Forall byte s -> skip_objects false v c pk s = Ok (u, s') -> Forall byte s'.
Proof.
  intros Hs. unfold skip_objects. destruct (c <? 0) eqn:Ec; [discriminate|]. destruct (is_arr v).
  - destruct pk; [apply skip_one_bytes; exact Hs|]. unfold rd_bind, rrepeat, rret.
    destruct (rrep s c (skip_one_unpacked false) s) as [[l s2]|e] eqn:E; [|discriminate]. intros [= _ <-].
    eapply rrep_bytes; [|exact Hs|exact E]. intros s0 a s0' H0. apply skip_one_bytes. exact H0.
  - cbv zeta. destruct (usize v <? 0); [discriminate|]. destruct (usize v =? 0); [discriminate|].
    unfold fseek_cur. destruct (c * usize v <? 0) eqn:E; [discriminate|]. intros [= _ <-]. rewrite drop_z_skipn by lia. apply Forall_skipn_byte. exact Hs.
Qed.

Lemma obj_skip_arr_bytes t s u s' : Forall byte s -> obj_skip_arr false t s = Ok (u, s') -> Forall byte s'.
Proof.
  intros Hs. unfold obj_skip_arr, rd_bind. destruct (read_int32 false s) as [[x s1]|e] eqn:ER; [|discriminate].
  apply skip_objects_bytes. eapply read_int32_bytes; [exact Hs|exact ER].
Qed.

(* ---- as top-level calls ---- *)
Theorem skip_objects_source v c pk s B : Forall byte s -> int_min <= c <= int_max ->
  exists f0, forall f, (f0 <= f)%nat ->
  match skip_objects false v c (negb (pk =? 0)) s with
  | Ok (_, s') => exists fin, callE prog_env f prog_sbdf_skip_objects [tok; VInt v; VInt c; VInt pk] s B = OReturn (VInt SBDF_OK) fin /\ inb fin = s' /\ outb fin = []
  | Err st => exists fin, callE prog_env f prog_sbdf_skip_objects [tok; VInt v; VInt c; VInt pk] s B = OReturn (VInt st) fin /\ outb fin = []
  end.
Proof.
  intros Hs Hc. pose proof (skip_objects_bs ROut 0 v c pk VUndef VUndef VUndef (VInt B) s [] Hs Hc) as H.
  destruct (skip_objects false v c (negb (pk =? 0)) s) as [[x s']|st].
  - destruct H as (c' & e' & k' & z' & Bs). destruct (bsE_sound _ _ _ _ Bs) as (f0 & F). exists f0. intros f Hf. eexists. split; [apply F; exact Hf|]. split; reflexivity.
  - destruct H as (c' & e' & k' & z' & s1 & Bs). destruct (bsE_sound _ _ _ _ Bs) as (f0 & F). exists f0. intros f Hf. eexists. split; [apply F; exact Hf|]. reflexivity.
Qed.

Theorem obj_skip_arr_source t s B : Forall byte s ->
  exists f0, forall f, (f0 <= f)%nat ->
  match obj_skip_arr false t s with
  | Ok (_, s') => exists fin, callE prog_env f prog_sbdf_obj_skip_arr [tok; VInt t] s B = OReturn (VInt SBDF_OK) fin /\ inb fin = s' /\ outb fin = []
  | Err st => exists fin, callE prog_env f prog_sbdf_obj_skip_arr [tok; VInt t] s B = OReturn (VInt st) fin /\ outb fin = []
  end.
Proof.
  intros Hs. pose proof (obj_skip_arr_bs ROut 0 t VUndef VUndef VUndef (VInt B) s [] Hs) as H.
  destruct (obj_skip_arr false t s) as [[x s']|st].
  - destruct H as (c' & e' & r' & Bs). destruct (bsE_sound _ _ _ _ Bs) as (f0 & F). exists f0. intros f Hf. eexists. split; [apply F; exact Hf|]. split; reflexivity.
  - destruct H as (c' & e' & r' & s1 & Bs). destruct (bsE_sound _ _ _ _ Bs) as (f0 & F). exists f0. intros f Hf. eexists. split; [apply F; exact Hf|]. reflexivity.
Qed.

Theorem obj_skip_source t s B : Forall byte s ->
  exists f0, forall f, (f0 <= f)%nat ->
  match obj_skip false t s with
  | Ok (_, s') => exists fin, callE prog_env f prog_sbdf_obj_skip [tok; VInt t] s B = OReturn (VInt SBDF_OK) fin /\ inb fin = s' /\ outb fin = []
  | Err st => exists fin, callE prog_env f prog_sbdf_obj_skip [tok; VInt t] s B = OReturn (VInt st) fin /\ outb fin = []
  end.
Proof.
  intros Hs. pose proof (obj_skip_bs ROut 0 t VUndef (VInt B) s [] Hs) as H.
  destruct (obj_skip false t s) as [[x s']|st].
  - destruct H as (r' & Bs). destruct (bsE_sound _ _ _ _ Bs) as (f0 & F). exists f0. intros f Hf. eexists. split; [apply F; exact Hf|]. split; reflexivity.
  - destruct H as (r' & s1 & Bs). destruct (bsE_sound _ _ _ _ Bs) as (f0 & F). exists f0. intros f Hf. eexists. split; [apply F; exact Hf|]. reflexivity.
Qed.
