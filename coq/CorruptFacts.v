(* CorruptFacts.v - composition of the per-field corruption theorems (StatusFacts.v) over whole
   files: the session reads the valid part in front of a corrupted field exactly as written, then
   ends with the status of the reader that meets the field - whatever follows it. *)
From Sbdf Require Import File BaseFacts PrimFacts SevenBit ObjFacts VaFacts SliceFacts TmFacts FileFacts StatusFacts.
From Coq Require Import ZifyBool.
Local Open Scope Z_scope.

Section Corrupt.
Variable swp : bool.
Notation cap0 := (@None Z).

(* further per-field facts (the others are in StatusFacts.v) *)
Lemma ts_read_wrong_column_count ncols subset v tail : i32_range v -> 0 <= v -> v <> ncols ->
  ts_read swp cap0 ncols subset ([223; 91; 3] ++ enc32 swp v ++ tail) = Err SBDF_ERROR_COLUMN_COUNT_MISMATCH.
Proof.
  intros R H0 H. unfold ts_read, rd_bind. cbn [app]. rewrite sec_read_ok.
  change (3 =? SBDF_TABLEEND_SECTIONID) with false. change (3 =? SBDF_TABLESLICE_SECTIONID) with true. cbn [negb].
  rewrite read_int32_enc by exact R. destruct (v <? 0) eqn:E; [lia|]. destruct (v =? ncols) eqn:E2; [lia|reflexivity].
Qed.

Lemma cs_read_wrong_section g rest : g <> 4 -> cs_read swp cap0 (223 :: 91 :: g :: rest) = Err SBDF_ERROR_UNEXPECTED_SECTION_ID.
Proof. intros H. unfold cs_read, rd_bind. rewrite sec_expect_wrong_id by exact H. reflexivity. Qed.

Lemma cs_read_bad_marker b rest :
  (b <> 223 -> cs_read swp cap0 (b :: rest) = Err SBDF_ERROR_MAGIC_NUMBER_MISSING) /\
  (b <> 91 -> cs_read swp cap0 (223 :: b :: rest) = Err SBDF_ERROR_MAGIC_NUMBER_MISSING).
Proof.
  split; intros H; unfold cs_read, sec_expect, rd_bind; [rewrite sec_read_bad_marker0 by exact H|rewrite sec_read_bad_marker1 by exact H]; reflexivity.
Qed.

Lemma cs_read_unknown_encoding e vt rest :
  e <> SBDF_PLAINARRAYENCODINGTYPEID -> e <> SBDF_RUNLENGTHENCODINGTYPEID -> e <> SBDF_BITARRAYENCODINGTYPEID ->
  cs_read swp cap0 ([223; 91; 4] ++ e :: vt :: rest) = Err SBDF_ERROR_UNKNOWN_VALUEARRAY_ENCODING.
Proof.
  intros H1 H2 H3. unfold cs_read, sec_expect, rd_bind. cbn [app]. rewrite sec_read_ok.
  change (4 =? SBDF_COLUMNSLICE_SECTIONID) with true. cbn [negb]. unfold rret.
  destruct (va_read_unknown_encoding swp cap0 e vt rest H1 H2 H3) as [E _]. rewrite E. reflexivity.
Qed.

Lemma cs_read_negative_property_count v n tail : wf_va v -> byte_ok (vty v) -> i32_range n -> n < 0 ->
  cs_read swp cap0 ([223; 91; 4] ++ enc_va swp v ++ enc32 swp n ++ tail) = Err SBDF_ERROR_INVALID_SIZE.
Proof.
  intros W B R H. unfold cs_read, sec_expect, rd_bind. cbn [app]. rewrite sec_read_ok.
  change (4 =? SBDF_COLUMNSLICE_SECTIONID) with true. cbn [negb]. unfold rret.
  destruct (rspec_va swp v W B) as [E _]. rewrite E. rewrite read_int32_enc by exact R. destruct (n <? 0) eqn:En; [reflexivity|lia].
Qed.

Lemma tm_read_wrong_section g rest : g <> 2 -> tm_read swp cap0 (223 :: 91 :: g :: rest) = Err SBDF_ERROR_UNEXPECTED_SECTION_ID.
Proof. intros H. unfold tm_read, rd_bind. rewrite sec_expect_wrong_id by exact H. reflexivity. Qed.

(* inside a slice: the columns in front are read, the reader of the next column decides *)
Lemma read_cols_then (done : list (cs va)) : forall n tail st,
  (forall c, In c done -> wf_cs c) -> cs_read swp cap0 tail = Err st ->
  read_cols swp cap0 (length done + S n) None (concat (map (enc_cs swp) done) ++ tail) = Err st.
Proof.
  induction done as [|c done IH]; intros n tail st W Hc.
  - cbn [length Nat.add read_cols map concat app]. unfold rd_bind. rewrite Hc. reflexivity.
  - cbn [length Nat.add read_cols map concat]. unfold rd_bind. rewrite <- app_assoc.
    destruct (rspec_cs swp c (W c (or_introl eq_refl))) as [E _]. rewrite E. unfold rret. cbn [option_map].
    rewrite (IH n tail st); [reflexivity|intros d Hd; apply W; now right|exact Hc].
Qed.

Theorem ts_read_then_column (done : list (cs va)) ncols tail st :
  (forall c, In c done -> wf_cs c) -> zlen done < ncols < 2147483648 -> cs_read swp cap0 tail = Err st ->
  ts_read swp cap0 ncols None ([223; 91; 3] ++ enc32 swp ncols ++ concat (map (enc_cs swp) done) ++ tail) = Err st.
Proof.
  intros W Hn Hc. unfold ts_read, rd_bind. pose proof (zlen_nonneg done) as N.
  destruct (rspec_sec_read SBDF_TABLESLICE_SECTIONID) as [E0 _].
  change ([223; 91; 3] ++ ?x) with ([223; 91; SBDF_TABLESLICE_SECTIONID] ++ x). rewrite E0.
  change (SBDF_TABLESLICE_SECTIONID =? SBDF_TABLEEND_SECTIONID) with false. cbn iota.
  rewrite Z.eqb_refl. cbn [negb].
  destruct (rspec_int32 swp ncols) as [E1 _]; [unfold i32_range; lia|]. rewrite E1.
  destruct (ncols <? 0) eqn:C0; [lia|]. rewrite Z.eqb_refl. cbn [negb].
  unfold ralloc, alloc_ok.
  replace (Z.to_nat ncols) with (length done + S (Z.to_nat ncols - length done - 1))%nat by (unfold zlen in *; lia).
  rewrite (read_cols_then done _ tail st W Hc). reflexivity.
Qed.

(* between slices: the slices in front are delivered, the slice reader decides on what follows *)
Theorem read_slices_then sls : forall ncols fuel tail st,
  slices_ok ncols sls -> (length sls <= length fuel)%nat -> ts_read swp cap0 ncols None tail = Err st ->
  read_slices swp cap0 fuel ncols None (concat (map (enc_ts swp) sls) ++ tail) = (map owned_ts sls, st, tail).
Proof.
  induction sls as [|cols sls IH]; intros ncols fuel tail st W Hf Ht.
  - cbn [map concat app]. destruct fuel; cbn [read_slices]; now rewrite Ht.
  - destruct fuel as [|b fuel]; [cbn in Hf; lia|].
    destruct (W cols (or_introl eq_refl)) as (Wc & Hn).
    cbn [map concat]. rewrite <- !app_assoc. cbn [read_slices].
    rewrite <- Hn. rewrite (ts_read_exact swp cols None _ Wc). rewrite mask_none. rewrite Hn.
    rewrite (IH ncols fuel tail st); [reflexivity| |cbn in Hf; lia|exact Ht].
    intros c Hc. apply W. now right.
Qed.


(* whole files: header, table metadata and the first slices are delivered as written; the session
   ends with the status of the slice reader on what follows *)
Theorem read_table_then_slices meta sls names tail st : wf_file meta sls names ->
  ts_read swp cap0 (zlen (tcols meta)) None tail = Err st ->
  read_table swp cap0 None (enc_header ++ enc_tm swp meta names ++ concat (map (enc_ts swp) sls) ++ tail)
  = (Some (read_back meta sls names), st, tail).
Proof.
  intros [Wm Wd Wf Wn Ws] Ht. unfold read_table.
  destruct rspec_fh as [E0 _]. rewrite E0.
  destruct (fold_gives_names_ok (tcols meta) names) as (Hn & Hc); [destruct Wm as (_ & _ & Wc & _); exact Wc|exact Wd|exact Wf|].
  rewrite (tm_read_exact swp meta names _ Wm Hn Wn Hc).
  cbn [tcols]. rewrite zlen_map.
  rewrite (read_slices_then sls _ _ tail st Ws); [reflexivity| |exact Ht].
  rewrite app_length.
  assert (length sls <= length (concat (map (enc_ts swp) sls)))%nat; [|lia].
  apply (length_concat_ge (enc_ts swp)). intros c _. unfold enc_ts. discriminate.
Qed.

(* ... and inside slice number (length sls): the columns in front are read, the column reader decides *)
Theorem read_table_then_column meta sls names (done : list (cs va)) tail st : wf_file meta sls names ->
  (forall c, In c done -> wf_cs c) -> zlen done < zlen (tcols meta) -> cs_read swp cap0 tail = Err st ->
  read_table swp cap0 None (enc_header ++ enc_tm swp meta names ++ concat (map (enc_ts swp) sls) ++
                            [223; 91; 3] ++ enc32 swp (zlen (tcols meta)) ++ concat (map (enc_cs swp) done) ++ tail)
  = (Some (read_back meta sls names), st,
     [223; 91; 3] ++ enc32 swp (zlen (tcols meta)) ++ concat (map (enc_cs swp) done) ++ tail).
Proof.
  intros W Wd Hn Hc. apply read_table_then_slices; [exact W|].
  apply ts_read_then_column; [exact Wd| |exact Hc].
  destruct W as [Wm _ _ _ _]. destruct Wm as (_ & _ & _ & Nc). split; [exact Hn|]. lia.
Qed.

(* the table metadata section *)
Theorem read_table_bad_metadata tail st : tm_read swp cap0 tail = Err st ->
  read_table swp cap0 None (enc_header ++ tail) = (None, st, tail).
Proof. intros Ht. unfold read_table. destruct rspec_fh as [E0 _]. rewrite E0, Ht. reflexivity. Qed.

Theorem read_table_bad_header s st : fh_read s = Err st -> read_table swp cap0 None s = (None, st, s).
Proof. intros H. unfold read_table. rewrite H. reflexivity. Qed.

End Corrupt.

(* ---- the statements used by Props/C09.v ---- *)
Theorem file_slice_position swp meta sls names rest : wf_file meta sls names ->
  let pre := enc_header ++ enc_tm swp meta names ++ concat (map (enc_ts swp) sls) in
  let run tail := read_table swp None None (enc_header ++ enc_tm swp meta names ++ concat (map (enc_ts swp) sls) ++ tail) in
  let got st tail := (Some (read_back meta sls names), st, tail) in
  (forall b, b <> 223 -> run (b :: rest) = got SBDF_ERROR_MAGIC_NUMBER_MISSING (b :: rest)) /\
  (forall b, b <> 91 -> run (223 :: b :: rest) = got SBDF_ERROR_MAGIC_NUMBER_MISSING (223 :: b :: rest)) /\
  run (223 :: 91 :: 5 :: rest) = got SBDF_TABLEEND (223 :: 91 :: 5 :: rest) /\
  (forall g, g <> 5 -> g <> 3 -> run (223 :: 91 :: g :: rest) = got SBDF_ERROR_UNEXPECTED_SECTION_ID (223 :: 91 :: g :: rest)) /\
  (forall v, i32_range v -> v < 0 -> run ([223; 91; 3] ++ enc32 swp v ++ rest) = got SBDF_ERROR_INVALID_SIZE ([223; 91; 3] ++ enc32 swp v ++ rest)) /\
  (forall v, i32_range v -> 0 <= v -> v <> zlen (tcols meta) ->
     run ([223; 91; 3] ++ enc32 swp v ++ rest) = got SBDF_ERROR_COLUMN_COUNT_MISMATCH ([223; 91; 3] ++ enc32 swp v ++ rest)).
Proof.
  intros W pre run got. unfold run, got.
  split; [intros b Hb; apply read_table_then_slices; [exact W|]; unfold ts_read, rd_bind; rewrite sec_read_bad_marker0 by exact Hb; reflexivity|].
  split; [intros b Hb; apply read_table_then_slices; [exact W|]; unfold ts_read, rd_bind; rewrite sec_read_bad_marker1 by exact Hb; reflexivity|].
  split; [apply read_table_then_slices; [exact W|apply ts_read_end_of_table]|].
  split; [intros g H5 H3; apply read_table_then_slices; [exact W|now apply ts_read_other_section]|].
  split; [intros v R H; apply read_table_then_slices; [exact W|now apply ts_read_negative_column_count]|].
  intros v R H0 H; apply read_table_then_slices; [exact W|now apply ts_read_wrong_column_count].
Qed.

Theorem file_column_position swp meta sls names done rest : wf_file meta sls names ->
  (forall c, In c done -> wf_cs c) -> zlen done < zlen (tcols meta) ->
  let run tail := read_table swp None None (enc_header ++ enc_tm swp meta names ++ concat (map (enc_ts swp) sls) ++
                    [223; 91; 3] ++ enc32 swp (zlen (tcols meta)) ++ concat (map (enc_cs swp) done) ++ tail) in
  let ends st t := fst (fst t) = Some (read_back meta sls names) /\ snd (fst t) = st in
  (forall b, b <> 223 -> ends SBDF_ERROR_MAGIC_NUMBER_MISSING (run (b :: rest))) /\
  (forall b, b <> 91 -> ends SBDF_ERROR_MAGIC_NUMBER_MISSING (run (223 :: b :: rest))) /\
  (forall g, g <> 4 -> ends SBDF_ERROR_UNEXPECTED_SECTION_ID (run (223 :: 91 :: g :: rest))) /\
  (forall e vt, e <> SBDF_PLAINARRAYENCODINGTYPEID -> e <> SBDF_RUNLENGTHENCODINGTYPEID -> e <> SBDF_BITARRAYENCODINGTYPEID ->
     ends SBDF_ERROR_UNKNOWN_VALUEARRAY_ENCODING (run ([223; 91; 4] ++ e :: vt :: rest))) /\
  (forall v n, wf_va v -> byte_ok (vty v) -> i32_range n -> n < 0 ->
     ends SBDF_ERROR_INVALID_SIZE (run ([223; 91; 4] ++ enc_va swp v ++ enc32 swp n ++ rest))).
Proof.
  intros W Wd Hn run ends. unfold run, ends.
  assert (K : forall tail st, cs_read swp None tail = Err st ->
     fst (fst (read_table swp None None (enc_header ++ enc_tm swp meta names ++ concat (map (enc_ts swp) sls) ++
                    [223; 91; 3] ++ enc32 swp (zlen (tcols meta)) ++ concat (map (enc_cs swp) done) ++ tail))) = Some (read_back meta sls names) /\
     snd (fst (read_table swp None None (enc_header ++ enc_tm swp meta names ++ concat (map (enc_ts swp) sls) ++
                    [223; 91; 3] ++ enc32 swp (zlen (tcols meta)) ++ concat (map (enc_cs swp) done) ++ tail))) = st).
  { intros tail st Hc. rewrite (read_table_then_column swp meta sls names done tail st W Wd Hn Hc). split; reflexivity. }
  split; [intros b Hb; apply K; now apply (cs_read_bad_marker swp b rest)|].
  split; [intros b Hb; apply K; now apply (cs_read_bad_marker swp b rest)|].
  split; [intros g Hg; apply K; now apply cs_read_wrong_section|].
  split; [intros e vt H1 H2 H3; apply K; now apply cs_read_unknown_encoding|].
  intros v n Wv B R H; apply K; now apply cs_read_negative_property_count.
Qed.

Theorem file_metadata_position swp rest :
  (forall g, g <> 2 -> read_table swp None None (enc_header ++ 223 :: 91 :: g :: rest) = (None, SBDF_ERROR_UNEXPECTED_SECTION_ID, 223 :: 91 :: g :: rest)) /\
  (forall v, i32_range v -> v < 0 ->
     read_table swp None None (enc_header ++ [223; 91; 2] ++ enc32 swp v ++ rest) = (None, SBDF_ERROR_INVALID_SIZE, [223; 91; 2] ++ enc32 swp v ++ rest)) /\
  (forall b, b <> 223 -> read_table swp None None (b :: rest) = (None, SBDF_ERROR_MAGIC_NUMBER_MISSING, b :: rest)) /\
  (forall b, b <> 91 -> read_table swp None None (223 :: b :: rest) = (None, SBDF_ERROR_MAGIC_NUMBER_MISSING, 223 :: b :: rest)) /\
  (forall g, g <> 1 -> read_table swp None None (223 :: 91 :: g :: rest) = (None, SBDF_ERROR_UNEXPECTED_SECTION_ID, 223 :: 91 :: g :: rest)).
Proof.
  split; [intros g Hg; apply read_table_bad_metadata; now apply tm_read_wrong_section|].
  split; [intros v R H; apply read_table_bad_metadata; now apply tm_read_negative_entry_count|].
  split; [intros b Hb; apply read_table_bad_header; unfold fh_read, sec_expect, rd_bind; now rewrite sec_read_bad_marker0|].
  split; [intros b Hb; apply read_table_bad_header; unfold fh_read, sec_expect, rd_bind; now rewrite sec_read_bad_marker1|].
  intros g Hg; apply read_table_bad_header; unfold fh_read, rd_bind; now rewrite sec_expect_wrong_id.
Qed.
