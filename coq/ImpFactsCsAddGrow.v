(* ImpFactsCsAddGrow.v - sbdf_cs_add_property when both pointer arrays are full (1, 2, 4, 7, 11 ... properties): each is
   re-grown through sbdf_alloc to the next capacity with its cells kept and the old block released, then name and array go
   into the next slot; the call stops at whichever of the three allocations fails. *)
From Sbdf Require Import ImpCall Gen.Prog Gen.Consts Base Prim BaseFacts ImpBase ImpFactsCap ImpFactsCells ImpFactsSlice ImpFactsHeap ImpFactsHeap2 ImpFactsGrow ImpFactsCsAdd ImpFactsCsAddFirst.
From Coq Require Import ZifyBool.
Local Open Scope Z_scope.
Ltac Zify.zify_post_hook ::= Z.div_mod_to_equations.

Lemma kill_length_h b (a : heap) : List.length (kill b a) = List.length a.
Proof.
  unfold kill. destruct (set_nth_v b None a) eqn:E; [|reflexivity]. apply (set_nth_v_length a b None l E).
Qed.

Section Grow2.
Variables (bv : val) (k : Z) (sx : list Z) (o : list Z).

Lemma cs_add_grow_tail h cb values names props owned nb ncells pb pcells pre bytes post ab pn nc c1 c2 c3 :
  let m := pre ++ bytes ++ 0 :: post in
  let n := zlen pn in
  cs_block h cb values n names props owned ->
  as_ptr names = VCell nb 0 -> nth_error h nb = Some (Some ncells) -> names_at m ncells pn -> zlen ncells = n ->
  as_ptr props = VCell pb 0 -> nth_error h pb = Some (Some pcells) -> zlen pcells = n ->
  cb <> nb -> cb <> pb -> nb <> pb ->
  0 < n <= 715827881 -> array_capacity n = n -> array_capacity (n + 1) * 8 <= int_max ->
  Forall (fun b => b <> 0) bytes -> zlen bytes + 1 <= int_max -> find_name bytes pn 0 = None ->
  let L := List.length h in let c := Z.to_nat (array_capacity (n + 1)) in
  let k1 := next_fail k in let k2 := next_fail k1 in
  exists fin, bsE prog_env (after_rows (fbody prog_sbdf_cs_add_property)) (af bv sx o cb (zlen pre) (VCell ab 0) VUndef VUndef VUndef nc VUndef c1 c2 c3 k h m)
    (OReturn (VInt (if (k =? 0) || (k1 =? 0) || (k2 =? 0) then SBDF_ERROR_OUT_OF_MEMORY else SBDF_OK)) fin) /\
    inb fin = (if (k =? 0) || (k1 =? 0) || (k2 =? 0) then m else str_mem m bytes []) /\
    exists hf, lookup cells_var (vars fin) = Some (VHeap hf) /\
      (if k =? 0 then hf = h
       else if k1 =? 0 then nth_error hf cb = Some (Some [values; VInt n; names; VCell L 0; VInt owned]) /\ nth_error hf pb = Some None /\
                            nth_error hf L = Some (Some (pcells ++ repeat VUndef (c - List.length pcells))) /\ nth_error hf nb = Some (Some ncells)
       else if k2 =? 0 then nth_error hf cb = Some (Some [values; VInt n; VCell (S L) 0; VCell L 0; VInt owned]) /\ nth_error hf pb = Some None /\ nth_error hf nb = Some None /\
                            nth_error hf L = Some (Some (pcells ++ repeat VUndef (c - List.length pcells))) /\
                            nth_error hf (S L) = Some (Some (ncells ++ repeat VUndef (c - List.length ncells)))
       else nth_error hf cb = Some (Some [values; VInt (n + 1); VCell (S L) 0; VCell L 0; VInt owned]) /\ nth_error hf pb = Some None /\ nth_error hf nb = Some None /\
            nth_error hf L = Some (Some (pcells ++ VCell ab 0 :: repeat VUndef (c - S (List.length pcells)))) /\
            nth_error hf (S L) = Some (Some (ncells ++ VPtr RIn (zlen m + 4) :: repeat VUndef (c - S (List.length ncells))))) /\
      (forall x, x <> cb -> x <> nb -> x <> pb -> (x < L)%nat -> nth_error hf x = nth_error h x).
Proof.
  intros m n Hc Hn Hnb Hna Hln Hp Hpb Hlp N1 N2 N3 Hn0 Hcap Hsz Hnz Hbl Hf L c k1 k2. unfold cs_block in Hc.
  assert (Hn1 : n + 1 <= 715827882) by lia. pose proof (cap_loop_enough (n + 1) Hn1) as Hge. unfold int_max in Hsz.
  assert (Hz : array_capacity (n + 1) * 8 / 8 = array_capacity (n + 1)) by lia.
  assert (HcbL : (cb < L)%nat) by (apply nth_error_Some; unfold L; congruence).
  assert (HnbL : (nb < L)%nat) by (apply nth_error_Some; unfold L; congruence).
  assert (HpbL : (pb < L)%nat) by (apply nth_error_Some; unfold L; congruence).
  assert (Hcn : (Z.to_nat n < c)%nat) by (unfold c; lia).
  assert (Lp : List.length pcells = Z.to_nat n) by (unfold zlen in Hlp; lia).
  assert (Ln : List.length ncells = Z.to_nat n) by (unfold zlen in Hln; lia).
  (* the properties array *)
  set (newp := firstn c pcells ++ repeat VUndef (c - List.length pcells)).
  assert (Hnewp : newp = pcells ++ VUndef :: repeat VUndef (c - S (List.length pcells))).
  { unfold newp. rewrite firstn_all2 by lia. f_equal. replace (c - List.length pcells)%nat with (S (c - S (List.length pcells))) by lia. reflexivity. }
  set (hk1 := kill pb h). assert (Lk1 : List.length hk1 = L) by (unfold hk1; apply kill_length_h).
  set (h0 := hk1 ++ [Some newp]).
  assert (Hc0 : nth_error h0 cb = Some (Some [values; VInt n; names; props; VInt owned])).
  { unfold h0. rewrite nth_error_app1 by lia. unfold hk1. rewrite kill_other by congruence. exact Hc. }
  destruct (cell_set_ok h0 cb _ 3 (VCell L 0) props Hc0 ltac:(lia) eq_refl) as (h1 & blk1 & E1 & B1 & T1 & O1). cbn in B1. injection B1 as <-.
  destruct (alloc_grow_bs bv k sx m o h cb 3 props pb pcells (array_capacity (n + 1) * 8) VUndef ltac:(unfold cell_get; rewrite Hc; reflexivity) Hp Hpb N2 ltac:(unfold int_max; lia) ltac:(lia))
    as (h1' & E1' & AL1).
  cbv zeta in E1'. rewrite Hz in E1'. fold c newp hk1 h0 L in E1'. rewrite E1 in E1'. injection E1' as <-. fold L in AL1.
  assert (HL1 : List.length h1 = S L) by (rewrite (cell_set_length _ _ _ _ _ E1); unfold h0; rewrite app_length, Lk1; cbn; lia).
  assert (N1b : nth_error h1 nb = Some (Some ncells)).
  { rewrite O1 by congruence. unfold h0. rewrite nth_error_app1 by lia. unfold hk1. rewrite kill_other by congruence. exact Hnb. }
  assert (P1L : nth_error h1 L = Some (Some newp)) by (rewrite O1 by lia; unfold h0; rewrite <- Lk1; apply nth_error_app_new).
  assert (P1pb : nth_error h1 pb = Some None).
  { rewrite O1 by congruence. unfold h0. rewrite nth_error_app1 by lia. unfold hk1. apply (kill_same pb h _ Hpb). }
  (* the names array *)
  set (newn := firstn c ncells ++ repeat VUndef (c - List.length ncells)).
  assert (Hnewn : newn = ncells ++ VUndef :: repeat VUndef (c - S (List.length ncells))).
  { unfold newn. rewrite firstn_all2 by lia. f_equal. replace (c - List.length ncells)%nat with (S (c - S (List.length ncells))) by lia. reflexivity. }
  set (hk2 := kill nb h1). assert (Lk2 : List.length hk2 = S L) by (unfold hk2; rewrite kill_length_h; exact HL1).
  set (h1b := hk2 ++ [Some newn]).
  assert (Hc1b : nth_error h1b cb = Some (Some [values; VInt n; names; VCell L 0; VInt owned])).
  { unfold h1b. rewrite nth_error_app1 by lia. unfold hk2. rewrite kill_other by congruence. exact T1. }
  destruct (cell_set_ok h1b cb _ 2 (VCell (S L) 0) names Hc1b ltac:(lia) eq_refl) as (h2 & blk2 & E2 & B2 & T2 & O2). cbn in B2. injection B2 as <-.
  destruct (alloc_grow_bs bv k1 sx m o h1 cb 2 names nb ncells (array_capacity (n + 1) * 8) VUndef ltac:(unfold cell_get; rewrite T1; reflexivity) Hn N1b N1 ltac:(unfold int_max; lia) ltac:(lia))
    as (h2' & E2' & AL2).
  cbv zeta in E2'. rewrite Hz, HL1 in E2'. fold c newn hk2 h1b in E2'. rewrite E2 in E2'. injection E2' as <-. rewrite HL1 in AL2.
  assert (P2S : nth_error h2 (S L) = Some (Some newn)) by (rewrite O2 by lia; unfold h1b; rewrite <- Lk2; apply nth_error_app_new).
  assert (P2L : nth_error h2 L = Some (Some newp)).
  { rewrite O2 by lia. unfold h1b. rewrite nth_error_app1 by lia. unfold hk2. rewrite kill_other by lia. exact P1L. }
  assert (P2pb : nth_error h2 pb = Some None).
  { rewrite O2 by congruence. unfold h1b. rewrite nth_error_app1 by lia. unfold hk2. rewrite kill_other by congruence. exact P1pb. }
  assert (P2nb : nth_error h2 nb = Some None).
  { rewrite O2 by congruence. unfold h1b. rewrite nth_error_app1 by lia. unfold hk2. apply (kill_same nb h1 _ N1b). }
  (* the three stores *)
  assert (OldN : nth_error newn (Z.to_nat n) = Some VUndef) by (rewrite Hnewn, <- Ln; rewrite nth_error_app2 by lia; rewrite Nat.sub_diag; reflexivity).
  assert (OldP : nth_error newp (Z.to_nat n) = Some VUndef) by (rewrite Hnewp, <- Lp; rewrite nth_error_app2 by lia; rewrite Nat.sub_diag; reflexivity).
  destruct (cell_set_ok h2 (S L) _ n (VPtr RIn (zlen m + 4)) VUndef P2S ltac:(lia) OldN) as (h3 & blk3 & E3 & B3 & T3 & O3).
  assert (Hblk3 : blk3 = ncells ++ VPtr RIn (zlen m + 4) :: repeat VUndef (c - S (List.length ncells))).
  { rewrite Hnewn, <- Ln in B3. rewrite set_nth_v_app in B3. injection B3 as <-. reflexivity. }
  assert (T3c : nth_error h3 cb = Some (Some [values; VInt n; VCell (S L) 0; VCell L 0; VInt owned])) by (rewrite O3 by lia; exact T2).
  destruct (cell_set_ok h3 cb _ 1 (VInt (n + 1)) (VInt n) T3c ltac:(lia) eq_refl) as (h4 & blk4 & E4 & B4 & T4 & O4). cbn in B4. injection B4 as <-.
  assert (P4L : nth_error h4 L = Some (Some newp)) by (rewrite O4 by lia; rewrite O3 by lia; exact P2L).
  destruct (cell_set_ok h4 L _ n (VCell ab 0) VUndef P4L ltac:(lia) OldP) as (h5 & blk5 & E5 & B5 & T5 & O5).
  assert (Hblk5 : blk5 = pcells ++ VCell ab 0 :: repeat VUndef (c - S (List.length pcells))).
  { rewrite Hnewp, <- Lp in B5. rewrite set_nth_v_app in B5. injection B5 as <-. reflexivity. }
  assert (Hq : cstr_at m (zlen pre) bytes).
  { unfold m. pose proof (zlen_nonneg pre). pose proof (zlen_nonneg bytes). pose proof (zlen_nonneg post). split; [rewrite !zlen_app, zlen_cons; lia|].
    rewrite skipn_app_zlen. clear -Hnz. induction bytes as [|b bs IH]; cbn [app cstr_l]; [reflexivity|].
    inversion Hnz as [|? ? Hb Hr]. subst. destruct (b =? 0) eqn:E; [lia|]. now rewrite IH. }
  destruct (cs_add_clash_loop bv k sx m o h cb values names props owned nb ncells (zlen pre) bytes (VCell ab 0) pn VUndef VUndef nc VUndef c1 c2 c3 Hc Hn Hnb Hna Hq ltac:(unfold int_max; fold n; lia) pn [] eq_refl) as (iv & B & Hiv).
  change (zlen (@nil (list Z))) with 0 in B, Hiv. rewrite Hf in B. rewrite (Hiv Hf) in B. clear Hiv. fold n in B.
  pose proof (capacity_bs [(budget_var, bv); (fail_var, VInt k); (strm_var, VBytes sx); (cells_var, VHeap h)] m o n VUndef ltac:(unfold int_min; lia)) as CAP0.
  rewrite Hcap in CAP0. unfold cap_st in CAP0.
  pose proof (capacity_bs [(budget_var, bv); (fail_var, VInt k); (strm_var, VBytes sx); (cells_var, VHeap h)] m o (n + 1) VUndef ltac:(unfold int_min; lia)) as CAP1.
  unfold cap_st in CAP1. set (C := array_capacity (n + 1)) in *.
  pose proof (str_create_bs sx h2 pre bytes post VUndef bv k2 o Hnz Hbl) as SC. cbv zeta in SC. fold m in SC. unfold sc1 in SC.
  cbn [after_rows loop_of fbody prog_sbdf_cs_add_property] in *. unfold af, fr in *. cbn [app] in *.
  fold k1 in AL1. fold k2 in AL2.
  assert (OTH : forall hz, (forall x, x <> cb -> x <> L -> x <> S L -> nth_error hz x = nth_error h2 x) -> forall x, x <> cb -> x <> nb -> x <> pb -> (x < L)%nat -> nth_error hz x = nth_error h x).
  { intros hz Hzz x Hx1 Hx2 Hx3 Hx4. rewrite Hzz by lia. rewrite O2 by congruence. unfold h1b. rewrite nth_error_app1 by lia. unfold hk2. rewrite kill_other by congruence.
    rewrite O1 by congruence. unfold h0. rewrite nth_error_app1 by lia. unfold hk1. apply kill_other. congruence. }
  destruct (k =? 0) eqn:Ek; cbn [orb].
  { (* the first array cannot be re-grown *)
    eexists. split.
    { eapply bsE_seq; [eapply bsE_seq; [eapply bsE_expr; eva; chk7; eva; reflexivity|exact B]|].
      eapply bsE_seq; [eapply bsE_call; [reflexivity|eva; chk7; eva; cellrw1 Hc; eva; reflexivity|reflexivity|eva; exact CAP0|eva; reflexivity]|].
      eapply bsE_seq_ret. eapply bsE_if; [eva; chk7; eva; cellrw1 Hc; eva; rewrite Z.eqb_refl; reflexivity|reflexivity|].
      eapply bsE_seq; [eapply bsE_seq; [eapply bsE_call; [reflexivity|eva; chk7; eva; cellrw1 Hc; eva; chk7; reflexivity|reflexivity|eva; replace (1 + n) with (n + 1) by lia; exact CAP1|eva; reflexivity]|eapply bsE_decl1; [eva; reflexivity|eva; reflexivity]]|].
      eapply bsE_seq_ret. eapply bsE_seq; [eapply bsE_call; [reflexivity|eva; chk7; eva; cellrw1 Hc; eva; replace (0 <=? C) with true by lia; eva; chk7; eva; chk7; reflexivity|reflexivity|eva; exact AL1|eva; reflexivity]|].
      eapply bsE_if; [eva; reflexivity|reflexivity|]. eapply bsE_return. eva. reflexivity. }
    split; [reflexivity|exists h; split; [reflexivity|split; [reflexivity|intros; reflexivity]]]. }
  assert (Hk0 : k <> 0) by lia.
  destruct (k1 =? 0) eqn:Ek1; cbn [orb].
  { (* the second array cannot be re-grown: the first one is, and the old properties block is released *)
    eexists. split.
    { eapply bsE_seq; [eapply bsE_seq; [eapply bsE_expr; eva; chk7; eva; reflexivity|exact B]|].
      eapply bsE_seq; [eapply bsE_call; [reflexivity|eva; chk7; eva; cellrw1 Hc; eva; reflexivity|reflexivity|eva; exact CAP0|eva; reflexivity]|].
      eapply bsE_seq_ret. eapply bsE_if; [eva; chk7; eva; cellrw1 Hc; eva; rewrite Z.eqb_refl; reflexivity|reflexivity|].
      eapply bsE_seq; [eapply bsE_seq; [eapply bsE_call; [reflexivity|eva; chk7; eva; cellrw1 Hc; eva; chk7; reflexivity|reflexivity|eva; replace (1 + n) with (n + 1) by lia; exact CAP1|eva; reflexivity]|eapply bsE_decl1; [eva; reflexivity|eva; reflexivity]]|].
      eapply bsE_seq; [eapply bsE_seq; [eapply bsE_call; [reflexivity|eva; chk7; eva; cellrw1 Hc; eva; replace (0 <=? C) with true by lia; eva; chk7; eva; chk7; reflexivity|reflexivity|eva; exact AL1|eva; reflexivity]
                                   |eapply bsE_if; [eva; reflexivity|reflexivity|apply bsE_skip]]|].
      eapply bsE_seq; [eapply bsE_call; [reflexivity|eva; chk7; eva; cellrw1 T1; eva; replace (0 <=? C) with true by lia; eva; chk7; eva; chk7; reflexivity|reflexivity|eva; exact AL2|eva; reflexivity]|].
      eapply bsE_if; [eva; reflexivity|reflexivity|]. eapply bsE_return. eva. reflexivity. }
    split; [reflexivity|]. exists h1. split; [reflexivity|]. split.
    - split; [exact T1|]. split; [exact P1pb|]. split; [rewrite P1L; unfold newp; rewrite firstn_all2 by lia; reflexivity|exact N1b].
    - intros x Hx1 Hx2 Hx3 Hx4. rewrite O1 by congruence. unfold h0. rewrite nth_error_app1 by lia. unfold hk1. apply kill_other. congruence. }
  assert (GROWN : forall X oo,
     bsE prog_env X {| vars := [("out"%string, VCell cb 0); ("name"%string, VPtr RIn (zlen pre)); ("values"%string, VCell ab 0); ("cap"%string, VInt n); ("error"%string, VInt SBDF_OK); ("i"%string, VInt n);
                                ("new_cap"%string, VInt C); ("nm"%string, VUndef); ("$c1"%string, c1); ("$c2"%string, c2); ("$c3"%string, VInt C);
                                (budget_var, bv); (fail_var, VInt k2); (strm_var, VBytes sx); (cells_var, VHeap h2)]; inb := m; outb := o |} oo ->
     bsE prog_env (SSeq (SSeq (SExpr (EAssign "i" (EConst (0)))) (SWhile (EBin Lt (EVar "i") (ECellLoad (EVar "out") (EConst 1) false)) (SSeq (SIf (ELNot (EStrcmp (EVar "name") (ECellLoad (ECellLoad (EVar "out") (EConst 2) true) (EVar "i") true))) (SReturn (EBin Sub (EConst 0) (EConst (14)))) SSkip) (SExpr (EPreInc "i")))))
       (SSeq (SCall (Some "cap") "sbdf_calculate_array_capacity" [(AVal (ECellLoad (EVar "out") (EConst 1) false))])
       (SSeq (SIf (EBin Eq (EVar "cap") (ECellLoad (EVar "out") (EConst 1) false))
                  (SSeq (SSeq (SCall (Some "$c3") "sbdf_calculate_array_capacity" [(AVal (EBin Imp.Add (EConst (1)) (ECellLoad (EVar "out") (EConst 1) false)))]) (SDecl "new_cap" (Some (EVar "$c3"))))
                  (SSeq (SSeq (SCall (Some "error") "sbdf_alloc" [(AVal (EFieldAddr (EVar "out") (EConst 3))); (AVal (ECast TInt (EBin Mul (ECast TSizeT (EVar "new_cap")) (EConst 8))))]) (SIf (EVar "error") (SReturn (EVar "error")) SSkip))
                        (SSeq (SCall (Some "error") "sbdf_alloc" [(AVal (EFieldAddr (EVar "out") (EConst 2))); (AVal (ECast TInt (EBin Mul (ECast TSizeT (EVar "new_cap")) (EConst 8))))]) (SIf (EVar "error") (SReturn (EVar "error")) SSkip)))) SSkip) X)))%string
       {| vars := [("out"%string, VCell cb 0); ("name"%string, VPtr RIn (zlen pre)); ("values"%string, VCell ab 0); ("cap"%string, VUndef); ("error"%string, VUndef); ("i"%string, VUndef);
                   ("new_cap"%string, nc); ("nm"%string, VUndef); ("$c1"%string, c1); ("$c2"%string, c2); ("$c3"%string, c3);
                   (budget_var, bv); (fail_var, VInt k); (strm_var, VBytes sx); (cells_var, VHeap h)]; inb := m; outb := o |} oo).
  { intros X oo BX.
    eapply bsE_seq; [eapply bsE_seq; [eapply bsE_expr; eva; chk7; eva; reflexivity|exact B]|].
    eapply bsE_seq; [eapply bsE_call; [reflexivity|eva; chk7; eva; cellrw1 Hc; eva; reflexivity|reflexivity|eva; exact CAP0|eva; reflexivity]|].
    eapply bsE_seq; [|exact BX]. eapply bsE_if; [eva; chk7; eva; cellrw1 Hc; eva; rewrite Z.eqb_refl; reflexivity|reflexivity|].
    eapply bsE_seq; [eapply bsE_seq; [eapply bsE_call; [reflexivity|eva; chk7; eva; cellrw1 Hc; eva; chk7; reflexivity|reflexivity|eva; replace (1 + n) with (n + 1) by lia; exact CAP1|eva; reflexivity]|eapply bsE_decl1; [eva; reflexivity|eva; reflexivity]]|].
    eapply bsE_seq; [eapply bsE_seq; [eapply bsE_call; [reflexivity|eva; chk7; eva; cellrw1 Hc; eva; replace (0 <=? C) with true by lia; eva; chk7; eva; chk7; reflexivity|reflexivity|eva; exact AL1|eva; reflexivity]
                                 |eapply bsE_if; [eva; reflexivity|reflexivity|apply bsE_skip]]|].
    eapply bsE_seq; [eapply bsE_call; [reflexivity|eva; chk7; eva; cellrw1 T1; eva; replace (0 <=? C) with true by lia; eva; chk7; eva; chk7; reflexivity|reflexivity|eva; exact AL2|eva; reflexivity]|].
    eapply bsE_if; [eva; reflexivity|reflexivity|apply bsE_skip]. }
  destruct (k2 =? 0) eqn:Ek2.
  { (* the name cannot be copied: both arrays are re-grown, the count is unchanged *)
    eexists. split.
    { apply GROWN. eapply bsE_seq; [eapply bsE_call; [reflexivity|eva; reflexivity|reflexivity|eva; exact SC|eva; reflexivity]|].
      eapply bsE_seq_ret. eapply bsE_if; [eva; reflexivity|reflexivity|]. eapply bsE_return. eva. chk7. reflexivity. }
    split; [reflexivity|]. exists h2. split; [reflexivity|]. split.
    - split; [exact T2|]. split; [exact P2pb|]. split; [exact P2nb|]. split; [rewrite P2L; unfold newp; rewrite firstn_all2 by lia; reflexivity|rewrite P2S; unfold newn; rewrite firstn_all2 by lia; reflexivity].
    - apply OTH. intros; reflexivity. }
  (* everything is there *)
  eexists. split.
  { apply GROWN. eapply bsE_seq; [eapply bsE_call; [reflexivity|eva; reflexivity|reflexivity|eva; exact SC|eva; reflexivity]|].
    eapply bsE_seq; [eapply bsE_if; [eva; reflexivity|reflexivity|apply bsE_skip]|].
    eapply bsE_seq.
    { eapply bsE_expr. eva. chk7. eva. unfold cell_get at 1. rewrite T2. change (0 + 2) with 2. cbn [Z.leb Z.compare Z.to_nat]. change (Pos.to_nat 2) with 2%nat. cbn [nth_error]. eva. chk7. eva.
      unfold cell_get. rewrite T2. change (0 + 1) with 1. cbn [Z.leb Z.compare Z.to_nat]. change (Pos.to_nat 1) with 1%nat. cbn [nth_error]. eva.
      replace (0 + n) with n by lia. rewrite E3. eva. reflexivity. }
    eapply bsE_seq.
    { eapply bsE_expr. eva. chk7. eva. unfold cell_get at 1. rewrite T3c. change (0 + 3) with 3. cbn [Z.leb Z.compare Z.to_nat]. change (Pos.to_nat 3) with 3%nat. cbn [nth_error]. eva.
      chk7. eva. unfold cell_get. rewrite T3c. change (0 + 1) with 1. cbn [Z.leb Z.compare Z.to_nat]. change (Pos.to_nat 1) with 1%nat. cbn [nth_error]. chk7. rewrite E4. eva.
      replace (0 + n) with n by lia. rewrite E5. eva. reflexivity. }
    eapply bsE_return. eva. chk7. reflexivity. }
  split; [reflexivity|]. exists h5. split; [reflexivity|]. split.
  - split; [rewrite O5 by lia; exact T4|].
    split; [rewrite O5 by lia; rewrite O4 by congruence; rewrite O3 by lia; exact P2pb|].
    split; [rewrite O5 by lia; rewrite O4 by congruence; rewrite O3 by lia; exact P2nb|].
    split; [rewrite T5, Hblk5; reflexivity|]. rewrite O5 by lia. rewrite O4 by lia. rewrite T3, Hblk3. reflexivity.
  - apply OTH. intros x H1 H2 H3. rewrite O5 by congruence. rewrite O4 by congruence. apply O3. congruence.
Qed.
End Grow2.

(* as a top-level call: a property added to a slice whose arrays are exactly full *)
Theorem cs_add_regrow_source k sx h cb values names props owned nb ncells pb pcells vb ty1 enc1 v11 o11 o12 ob1 oty1 cnt1 data1 ab ty2 enc2 v21 o21 o22 ob2 oty2 cnt2 data2 pre bytes post pn :
  let m := pre ++ bytes ++ 0 :: post in
  let n := zlen pn in
  cs_block h cb values n names props owned ->
  as_ptr names = VCell nb 0 -> nth_error h nb = Some (Some ncells) -> names_at m ncells pn -> zlen ncells = n ->
  as_ptr props = VCell pb 0 -> nth_error h pb = Some (Some pcells) -> zlen pcells = n ->
  cb <> nb -> cb <> pb -> nb <> pb ->
  0 < n <= 715827881 -> array_capacity n = n -> array_capacity (n + 1) * 8 <= int_max ->
  as_ptr values = VCell vb 0 -> va_block h vb ty1 enc1 v11 o11 o12 -> int_min <= enc1 <= int_max ->
  (enc1 = SBDF_PLAINARRAYENCODINGTYPEID -> as_ptr o11 = VCell ob1 0 /\ obj_block h ob1 oty1 cnt1 data1) ->
  va_block h ab ty2 enc2 v21 o21 o22 -> int_min <= enc2 <= int_max ->
  (enc2 = SBDF_PLAINARRAYENCODINGTYPEID -> as_ptr o21 = VCell ob2 0 /\ obj_block h ob2 oty2 cnt2 data2) ->
  int_min <= row_cnt_of enc1 v11 cnt1 <= int_max -> int_min <= row_cnt_of enc2 v21 cnt2 <= int_max ->
  row_cnt_of enc1 v11 cnt1 = row_cnt_of enc2 v21 cnt2 ->
  Forall (fun b => b <> 0) bytes -> zlen bytes + 1 <= int_max -> find_name bytes pn 0 = None ->
  let L := List.length h in let c := Z.to_nat (array_capacity (n + 1)) in
  let k1 := next_fail k in let k2 := next_fail k1 in
  exists f0, forall f, (f0 <= f)%nat -> exists fin,
    callC prog_env f prog_sbdf_cs_add_property [VCell cb 0; VPtr RIn (zlen pre); VCell ab 0] m k sx h =
      OReturn (VInt (if (k =? 0) || (k1 =? 0) || (k2 =? 0) then SBDF_ERROR_OUT_OF_MEMORY else SBDF_OK)) fin /\
    inb fin = (if (k =? 0) || (k1 =? 0) || (k2 =? 0) then m else str_mem m bytes []) /\
    exists hf, lookup cells_var (vars fin) = Some (VHeap hf) /\
      (if k =? 0 then hf = h
       else if k1 =? 0 then nth_error hf cb = Some (Some [values; VInt n; names; VCell L 0; VInt owned]) /\ nth_error hf pb = Some None /\
                            nth_error hf L = Some (Some (pcells ++ repeat VUndef (c - List.length pcells))) /\ nth_error hf nb = Some (Some ncells)
       else if k2 =? 0 then nth_error hf cb = Some (Some [values; VInt n; VCell (S L) 0; VCell L 0; VInt owned]) /\ nth_error hf pb = Some None /\ nth_error hf nb = Some None /\
                            nth_error hf L = Some (Some (pcells ++ repeat VUndef (c - List.length pcells))) /\
                            nth_error hf (S L) = Some (Some (ncells ++ repeat VUndef (c - List.length ncells)))
       else nth_error hf cb = Some (Some [values; VInt (n + 1); VCell (S L) 0; VCell L 0; VInt owned]) /\ nth_error hf pb = Some None /\ nth_error hf nb = Some None /\
            nth_error hf L = Some (Some (pcells ++ VCell ab 0 :: repeat VUndef (c - S (List.length pcells)))) /\
            nth_error hf (S L) = Some (Some (ncells ++ VPtr RIn (zlen m + 4) :: repeat VUndef (c - S (List.length ncells))))) /\
      (forall x, x <> cb -> x <> nb -> x <> pb -> (x < L)%nat -> nth_error hf x = nth_error h x).
Proof.
  intros m n Hc Hn Hnb Hna Hln Hp Hpb Hlp N1 N2 N3 Hn0 Hcap Hsz Hvals Hv1 He1 Hp1 Hv2 He2 Hp2 Hr1 Hr2 Heq Hnz Hbl Hf L c k1 k2.
  destruct (cs_add_rows (VInt 0) k sx m [] h cb values n names props owned vb ty1 enc1 v11 o11 o12 ob1 oty1 cnt1 data1 (zlen pre) ab ty2 enc2 v21 o21 o22 ob2 oty2 cnt2 data2
              VUndef VUndef VUndef VUndef VUndef VUndef VUndef VUndef Hc Hvals Hv1 He1 Hp1 Hv2 He2 Hp2 Hr1 Hr2) as (_ & A).
  destruct (cs_add_grow_tail (VInt 0) k sx [] h cb values names props owned nb ncells pb pcells pre bytes post ab pn VUndef (VInt (row_cnt_of enc1 v11 cnt1)) (VInt (row_cnt_of enc2 v21 cnt2)) VUndef
              Hc Hn Hnb Hna Hln Hp Hpb Hlp N1 N2 N3 Hn0 Hcap Hsz Hnz Hbl Hf) as (fin & B & P1 & P2).
  destruct (bsE_sound _ _ _ _ (A Heq _ B)) as (f0 & F). exists f0. intros f Hf'. exists fin. split; [apply F; exact Hf'|]. split; [exact P1|exact P2].
Qed.
