(* Imp.v — a small deep embedding of the C subset in which the two character-set converters of
   src/sbdfstring.c are written: integer and char* locals, *p / *p++ on a read-only NUL-terminated
   input and a sequentially written output buffer, ++, compound assignment, & | << comparisons,
   && || !, if / while / return.  tools/c2imp.py regenerates the programs (Gen/Prog.v) from
   /repo's source on every run; ImpFacts.v proves, for every input, that running them yields the
   functional model of Charset.v - so C19's theorems are about what the source says now.

   Semantics choices (each makes MORE programs faulty, never fewer):
   - int arithmetic is checked: a result outside [-2^31, 2^31) is a fault (signed overflow is UB);
   - << needs a non-negative left operand, a shift count in [0,32) and a representable result;
   - reading *p needs p inside the caller's buffer (terminator included); writing *p needs p at the
     end of what has been written so far (sequential output) or inside the caller's buffer (in-place
     update: sbdf_swap); pointers stay within [start, one past the end]; a null or foreign pointer is
     a fault;
   - an uninitialised local may not be read;
   - operands are evaluated left to right (the translator refuses expressions whose value would
     depend on the order);
   - unsigned int is 32 bits and wraps; unsigned -> int conversion wraps (implementation-defined in
     C, this is what gcc and clang do); a break outside a loop is an outcome nobody handles. *)
From Coq Require Export ZArith List String Bool Lia.
From Sbdf.Gen Require Leaf.
Export ListNotations.
Local Open Scope Z_scope.

Inductive region := RIn | ROut.
Inductive val := VInt (z : Z) | VPtr (r : region) (off : Z) | VNull | VUndef
  | VBytes (l : list Z)    (* only ever the value of the pseudo-variable "$strm": the unread bytes of the FILE when the stream is separate from the memory *)
  | VCell (b : nat) (i : Z)                      (* a pointer to cell i of block b of the cell heap (structs, arrays of pointers) *)
  | VHeap (h : list (option (list val))).        (* only ever the value of the pseudo-variable "$cells": the cell heap; None = a released block *)

Inductive cty := TInt | TUChar | TChar | TUInt | TSizeT.
Inductive binop := Add | Sub | Mul | Div | Shl | Shr | BAnd | BOr | BXor | Lt | Le | Gt | Ge | Eq | Ne | Mod.

Inductive expr :=
| EConst (z : Z)
| ENull                                (* a null pointer constant *)
| EVar (x : string)
| EDeref (p : expr)
| EBin (op : binop) (a b : expr)
| ELAnd (a b : expr)
| ELOr (a b : expr)
| ELNot (a : expr)
| ECast (t : cty) (e : expr)
| EAssign (x : string) (e : expr)
| EStore (p : expr) (e : expr)
| EPostInc (x : string)
| EPreInc (x : string)
| ECond (c a b : expr)
| EBinU (op : binop) (a b : expr)      (* the operation carried out in unsigned int (32 bits, wraps) *)
| ESizeAdd (a b : expr)                (* a + b carried out in size_t (64 bits, wraps) on two non-negative operands *)
| EReadByte (x : string)               (* fread(&x, 1, 1, f) with x an unsigned char local: 1 and x set, or 0 at end of stream *)
| EWriteByte (e : expr)                (* fwrite(&x, 1, 1, f): 1 and the byte appended, or 0 when the stream refuses it *)
| EReadInt32 (x : string)              (* fread(p, sizeof(int), 1, f), p an int*: the cell x := the next four bytes, little-endian (the x86 host); 1, or 0 with the rest of the stream consumed *)
| EWriteInt32 (e : expr)               (* fwrite(&v, sizeof(int), 1, f): the four bytes of v, little-endian; 1, or 0 with as many bytes as the stream still took *)
| ELoadInt32 (p idx : expr)            (* ((int* )p)[idx]: the int stored little-endian in the four bytes at p + 4*idx of the caller's buffer *)
| EWriteBuf (p n : expr)               (* fwrite(p, 1, n, f): the n bytes at p of the caller's buffer; the number of bytes the stream took *)
| EMemcmp (p q n : expr)               (* memcmp(p, q, n) on the caller's buffer: -1 / 0 / 1 by the first differing (unsigned) byte; libc promises only the sign *)
| EMalloc (n : expr)                   (* malloc(n): a fresh block of n bytes of unspecified content at the end of the caller's memory, or NULL when the oracle "$fail" says so *)
| EFree (p : expr)                     (* free(p): accepted for NULL and for pointers into the caller's memory; release itself is the ledger model's business (Mem.v) *)
| EStoreInt32 (p e : expr)             (* *(int* )p = e: four bytes, little-endian *)
| EMemcpy (d s n : expr)               (* memcpy(d, s, n) inside the caller's memory, the two areas disjoint *)
| EStrlen (p : expr)                   (* strlen(p): bytes up to the first NUL; a fault if there is none before the end of the memory *)
| EPostAdd (x : string) (k : Z)        (* p++ / p-- on a pointer to elements of |k| bytes: the old value, x moved by k *)
| EPreAdd (x : string) (k : Z)
| EReadBuf (p n : expr)                (* fread(p, 1, n, f) into the caller's memory (stream separate from the memory): as many bytes as the stream still has, at most n; their number *)
| ECalloc (n : expr)                   (* calloc of a struct or of an array of pointers: a fresh block of n zeroed cells in the cell heap, or NULL when the oracle says so *)
| ECellLoad (p idx : expr) (isptr : bool)   (* p->field / p[idx] on the cell heap; a zeroed cell read at pointer type is the null pointer *)
| ECellStore (p idx e : expr)          (* p->field = e / p[idx] = e *)
| ECellStep (x : string) (k : Z) (post : bool)   (* p++ / ++p / p-- on a pointer into an array of pointers *)
| ECellStepF (p idx : expr) (k : Z) (post : bool)   (* p->f++ / ++p->f on an int field *)
| EFieldAddr (p idx : expr)            (* &p->f: a pointer to that cell *)
| EMallocCells (n : expr)              (* malloc(n) used for an array of pointers: n / 8 cells of unspecified content, or NULL (oracle) *)
| ERealloc (p n : expr)                (* realloc(p, n) of an array of pointers: a fresh block with the old cells (as many as fit), the old block released; or NULL and the old block untouched *)
| EPtrEq (a b : expr)                  (* a == b on pointers *)
| ELeaf (f : string) (a : expr)        (* a call of one of the pure leaf functions translated by c2gallina (Gen/Leaf.v) *)
| EStrcmp (p q : expr)                 (* strcmp on two NUL-terminated strings of the memory: -1 / 0 / 1 (libc promises only the sign) *)
| ESeekCur (e : expr)                  (* fseek(f, e, SEEK_CUR) with e >= 0 on a regular file: the position moves on (also beyond the end), 0 *)
| EPtrAdd (p e : expr)                 (* p + e on a char pointer *)
| EPostDec (x : string)
| EPreDec (x : string)
| ELongMul (a b : expr)
| ESizeMul (a b : expr)                (* a * b carried out in size_t (64 bits, wraps) on two non-negative operands *)
| EMemsetCells (p n : expr)            (* memset(p, 0, n) on an array of pointers: the n / 8 cells from p on become zero (null); the value is p *)
| ECallocBytes (n : expr)              (* calloc(n, 1) assigned to a char pointer: like malloc(n), the fresh block holding zeros *)
| EReadItems (p sz n : expr).          (* fread(p, sz, n, f) into the caller's memory (stream separate from the memory), sz > 0: as many bytes as the stream still has, at most sz * n; the number of complete items *)               (* (long)a * b on two ints: the product in 64 bits, which always holds it; only ever the offset of an fseek *)

(* an argument of a call: a value; the address of an int local (&x); or a pointer parameter p of the
   caller handed on (the cell it points to is the caller's pseudo-variable "*p") *)
Inductive carg := AVal (e : expr) | AAddr (x : string) | AFwd (p : string).

Inductive stmt :=
| SSkip
| SExpr (e : expr)
| SDecl (x : string) (init : option expr)
| SSeq (a b : stmt)
| SIf (c : expr) (a b : stmt)
| SWhile (c : expr) (body : stmt)
| SReturn (e : expr)
| SBreak
| SCall (ret : option string) (g : string) (args : list carg)    (* x = g(args): only ImpCall.execE runs it *)
| SFault (why : string).               (* a statement the translator could not express (in a function translated in part): reaching it is a fault *)

Record state := { vars : list (string * val); inb : list Z; outb : list Z }.

Fixpoint lookup (x : string) (l : list (string * val)) : option val :=
  match l with
  | [] => None
  | (y, v) :: r => if String.eqb x y then Some v else lookup x r
  end.

Fixpoint update (x : string) (v : val) (l : list (string * val)) : option (list (string * val)) :=
  match l with
  | [] => None
  | (y, w) :: r => if String.eqb x y then Some ((y, v) :: r)
                   else match update x v r with Some r' => Some ((y, w) :: r') | None => None end
  end.

Definition set_var (x : string) (v : val) (s : state) : option state :=
  match update x v (vars s) with
  | Some vs => Some {| vars := vs; inb := inb s; outb := outb s |}
  | None => None
  end.

Definition int_min : Z := -2147483648.
Definition int_max : Z := 2147483647.
Definition in_int (z : Z) : bool := (int_min <=? z) && (z <=? int_max).
Definition chk (z : Z) : option val := if in_int z then Some (VInt z) else None.
Definition b2z (b : bool) : Z := if b then 1 else 0.

Definition binop_int (op : binop) (a b : Z) : option val :=
  match op with
  | Add => chk (a + b)
  | Sub => chk (a - b)
  | Mul => chk (a * b)
  | Div => if b =? 0 then None else chk (Z.quot a b)
  | Shl => if (0 <=? a) && (0 <=? b) && (b <? 32) then chk (Z.shiftl a b) else None
  | Shr => if (0 <=? a) && (0 <=? b) && (b <? 32) then chk (Z.shiftr a b) else None
  | BAnd => chk (Z.land a b)
  | BOr => chk (Z.lor a b)
  | BXor => chk (Z.lxor a b)
  | Lt => Some (VInt (b2z (a <? b)))
  | Le => Some (VInt (b2z (a <=? b)))
  | Gt => Some (VInt (b2z (a >? b)))
  | Ge => Some (VInt (b2z (a >=? b)))
  | Eq => Some (VInt (b2z (a =? b)))
  | Ne => Some (VInt (b2z (negb (a =? b))))
  | Mod => if b =? 0 then None else chk (Z.rem a b)
  end.

Definition u32 : Z := 4294967296.

(* unsigned int arithmetic: operands in [0, 2^32), results reduced mod 2^32; a shift count must be in [0, 32) *)
Definition binop_uint (op : binop) (a b : Z) : option val :=
  match op with
  | Add => Some (VInt ((a + b) mod u32))
  | Sub => Some (VInt ((a - b) mod u32))
  | Mul => Some (VInt ((a * b) mod u32))
  | Div => if b =? 0 then None else Some (VInt (a / b))
  | Shl => if (0 <=? b) && (b <? 32) then Some (VInt (Z.shiftl a b mod u32)) else None
  | Shr => if (0 <=? b) && (b <? 32) then Some (VInt (Z.shiftr a b)) else None
  | BAnd => Some (VInt (Z.land a b))
  | BOr => Some (VInt (Z.lor a b))
  | BXor => Some (VInt (Z.lxor a b))
  | Lt => Some (VInt (b2z (a <? b)))
  | Le => Some (VInt (b2z (a <=? b)))
  | Gt => Some (VInt (b2z (a >? b)))
  | Ge => Some (VInt (b2z (a >=? b)))
  | Eq => Some (VInt (b2z (a =? b)))
  | Ne => Some (VInt (b2z (negb (a =? b))))
  | Mod => if b =? 0 then None else Some (VInt (a mod b))
  end.

Definition truth (v : val) : option bool :=
  match v with
  | VInt z => Some (negb (z =? 0))
  | VPtr _ _ => Some true
  | VNull => Some false
  | VUndef => None
  | VBytes _ => None
  | VCell _ _ => Some true
  | VHeap _ => None
  end.

Definition cast (t : cty) (v : val) : option val :=
  match v with
  | VInt z =>
    match t with
    | TInt => Some (VInt ((z + 2147483648) mod u32 - 2147483648))   (* identity on int values; unsigned -> int wraps (gcc, clang) *)
    | TUChar => Some (VInt (z mod 256))
    | TChar => Some (VInt ((z + 128) mod 256 - 128))
    | TUInt => Some (VInt (z mod u32))
    | TSizeT => if 0 <=? z then Some (VInt z) else None      (* a negative int would become a huge size: refused *)
    end
  | _ => None
  end.

(* *p : the char (signed) at p *)
Definition load (v : val) (s : state) : option val :=
  match v with
  | VPtr RIn o =>
    if (0 <=? o) && (o <? Z.of_nat (List.length (inb s))) then
      let b := nth (Z.to_nat o) (inb s) 0 in Some (VInt (if b <? 128 then b else b - 256))
    else None
  | _ => None
  end.

Fixpoint upd_nth (i : nat) (x : Z) (l : list Z) : list Z :=
  match l, i with
  | [], _ => []
  | _ :: r, O => x :: r
  | y :: r, S i' => y :: upd_nth i' x r
  end.

(* writes: sequential into the output buffer, or in place inside the caller's buffer *)
Definition store (p v : val) (s : state) : option state :=
  match p, v with
  | VPtr ROut o, VInt z =>
    if o =? Z.of_nat (List.length (outb s)) then Some {| vars := vars s; inb := inb s; outb := outb s ++ [z mod 256] |}
    else None
  | VPtr RIn o, VInt z =>
    if (0 <=? o) && (o <? Z.of_nat (List.length (inb s))) then Some {| vars := vars s; inb := upd_nth (Z.to_nat o) (z mod 256) (inb s); outb := outb s |}
    else None
  | _, _ => None
  end.

Definition incr (v : val) (s : state) : option val :=
  match v with
  | VInt z => chk (z + 1)
  | VPtr RIn o => if o <? Z.of_nat (List.length (inb s)) then Some (VPtr RIn (o + 1)) else None  (* at most one past the end *)
  | VPtr ROut o => Some (VPtr ROut (o + 1))
  | _ => None
  end.

Definition is_shift (op : binop) : bool := match op with Shl | Shr => true | _ => false end.

(* stream functions: fread takes the next byte of inb (a function uses inb either as memory or as a
   stream, never both: the translator refuses the mixture); fwrite appends to outb while the budget
   kept in the pseudo-variable "$budget" lasts *)
Definition budget_var : string := "$budget".

Definition decr (v : val) (s : state) : option val :=
  match v with
  | VInt z => chk (z - 1)
  | VPtr RIn o => if 0 <? o then Some (VPtr RIn (o - 1)) else None
  | _ => None
  end.

Definition ptr_add (p : val) (z : Z) (s : state) : option val :=
  match p with
  | VPtr RIn o => if (0 <=? o + z) && (o + z <=? Z.of_nat (List.length (inb s))) then Some (VPtr RIn (o + z)) else None
  | _ => None
  end.

Definition fail_var : string := "$fail".
(* the input stream: the pseudo-variable "$strm" when the frame has one (functions that read a stream
   INTO memory: the memory is inb then), else inb itself (pure readers) *)
Definition strm_var : string := "$strm".
Definition stream_of (s : state) : list Z :=
  match lookup strm_var (vars s) with Some (VBytes l) => l | _ => inb s end.
Definition set_stream (l : list Z) (s : state) : state :=
  match lookup strm_var (vars s) with
  | Some (VBytes _) => match set_var strm_var (VBytes l) s with Some s1 => s1 | None => s end
  | _ => {| vars := vars s; inb := l; outb := outb s |}
  end.
Definition junk : Z := 205.

Fixpoint upd_range (i : nat) (xs : list Z) (l : list Z) : list Z :=
  match xs with
  | [] => l
  | x :: r => upd_range (S i) r (upd_nth i x l)
  end.

Fixpoint strlen_l (l : list Z) : option Z :=
  match l with
  | [] => None
  | b :: r => if b =? 0 then Some 0 else match strlen_l r with Some n => Some (1 + n) | None => None end
  end.

Fixpoint memcmp_l (a b : list Z) : Z :=
  match a, b with
  | x :: a', y :: b' => if x <? y then -1 else if y <? x then 1 else memcmp_l a' b'
  | _, _ => 0
  end.

(* the cell heap: structs and arrays of pointers.  A block is a list of cells, each holding a value
   (an int or a pointer); calloc hands out zeroed cells; free marks the block released - any later
   access to it, and a second free, is a fault. *)
Definition cells_var : string := "$cells".
Definition heap_of (s : state) : option (list (option (list val))) :=
  match lookup cells_var (vars s) with Some (VHeap h) => Some h | _ => None end.
Fixpoint set_nth_v {A} (i : nat) (x : A) (l : list A) : option (list A) :=
  match l, i with
  | [], _ => None
  | _ :: r, O => Some (x :: r)
  | y :: r, S i' => match set_nth_v i' x r with Some r' => Some (y :: r') | None => None end
  end.
Definition cell_get (h : list (option (list val))) (b : nat) (i : Z) : option val :=
  match nth_error h b with
  | Some (Some blk) => if 0 <=? i then nth_error blk (Z.to_nat i) else None
  | _ => None
  end.
Definition cell_set (h : list (option (list val))) (b : nat) (i : Z) (v : val) : option (list (option (list val))) :=
  match nth_error h b with
  | Some (Some blk) =>
    if 0 <=? i then match set_nth_v (Z.to_nat i) v blk with Some blk' => set_nth_v b (Some blk') h | None => None end else None
  | _ => None
  end.
Definition as_ptr (v : val) : val := match v with VInt 0 => VNull | _ => v end.
Definition storable (v : val) : bool := match v with VInt _ | VPtr _ _ | VNull | VCell _ _ => true | _ => false end.
Definition ptr_eqb (a b : val) : option bool :=
  match as_ptr a, as_ptr b with
  | VNull, VNull => Some true
  | VNull, (VPtr _ _ | VCell _ _) | (VPtr _ _ | VCell _ _), VNull => Some false
  | VCell b1 i1, VCell b2 i2 => Some (Nat.eqb b1 b2 && (i1 =? i2))
  | VPtr RIn o1, VPtr RIn o2 => Some (o1 =? o2)
  | VPtr ROut o1, VPtr ROut o2 => Some (o1 =? o2)
  | VCell _ _, VPtr _ _ | VPtr _ _, VCell _ _ => Some false
  | _, _ => None
  end.
Definition leaf_call (f : string) (x : Z) : option Z :=
  if String.eqb f "sbdf_ti_is_arr" then Some (Leaf.gen_sbdf_ti_is_arr x)
  else if String.eqb f "sbdf_get_unpacked_size" then Some (Leaf.gen_sbdf_get_unpacked_size x)
  else if String.eqb f "sbdf_get_packed_size" then Some (Leaf.gen_sbdf_get_packed_size x)
  else None.
(* the bytes of a NUL-terminated string starting at the head of l *)
Fixpoint cstr_l (l : list Z) : option (list Z) :=
  match l with
  | [] => None
  | b :: r => if b =? 0 then Some [] else match cstr_l r with Some t => Some (b :: t) | None => None end
  end.
Fixpoint lexcmp_l (a b : list Z) : Z :=
  match a, b with
  | [], [] => 0
  | [], _ :: _ => -1
  | _ :: _, [] => 1
  | x :: a', y :: b' => if x <? y then -1 else if y <? x then 1 else lexcmp_l a' b'
  end.

Fixpoint eval (e : expr) (s : state) : option (val * state) :=
  match e with
  | EConst z => match chk z with Some v => Some (v, s) | None => None end
  | ENull => Some (VNull, s)
  | EVar x => match lookup x (vars s) with Some VUndef => None | Some (VBytes _) => None | Some (VHeap _) => None | Some v => Some (v, s) | None => None end
  | EDeref p =>
    match eval p s with
    | Some (pv, s1) => match load pv s1 with Some v => Some (v, s1) | None => None end
    | None => None
    end
  | EBin op a b =>
    match eval a s with
    | Some (VInt x, s1) =>
      match eval b s1 with
      | Some (VInt y, s2) => match binop_int op x y with Some v => Some (v, s2) | None => None end
      | _ => None
      end
    | _ => None
    end
  | ELAnd a b =>
    match eval a s with
    | Some (va, s1) =>
      match truth va with
      | Some true => match eval b s1 with
                     | Some (vb, s2) => match truth vb with Some t => Some (VInt (b2z t), s2) | None => None end
                     | None => None end
      | Some false => Some (VInt 0, s1)
      | None => None
      end
    | None => None
    end
  | ELOr a b =>
    match eval a s with
    | Some (va, s1) =>
      match truth va with
      | Some false => match eval b s1 with
                      | Some (vb, s2) => match truth vb with Some t => Some (VInt (b2z t), s2) | None => None end
                      | None => None end
      | Some true => Some (VInt 1, s1)
      | None => None
      end
    | None => None
    end
  | ELNot a =>
    match eval a s with
    | Some (va, s1) => match truth va with Some t => Some (VInt (b2z (negb t)), s1) | None => None end
    | None => None
    end
  | ECast t a =>
    match eval a s with
    | Some (va, s1) => match cast t va with Some v => Some (v, s1) | None => None end
    | None => None
    end
  | EAssign x a =>
    match eval a s with
    | Some (va, s1) => match set_var x va s1 with Some s2 => Some (va, s2) | None => None end
    | None => None
    end
  | EStore p a =>
    match eval p s with
    | Some (pv, s1) =>
      match eval a s1 with
      | Some (va, s2) => match store pv va s2 with Some s3 => Some (va, s3) | None => None end
      | None => None
      end
    | None => None
    end
  | EPostInc x =>
    match lookup x (vars s) with
    | Some v => match incr v s with
                | Some v' => match set_var x v' s with Some s1 => Some (v, s1) | None => None end
                | None => None end
    | None => None
    end
  | EPreInc x =>
    match lookup x (vars s) with
    | Some v => match incr v s with
                | Some v' => match set_var x v' s with Some s1 => Some (v', s1) | None => None end
                | None => None end
    | None => None
    end
  | ECond c a b =>
    match eval c s with
    | Some (vc, s1) => match truth vc with Some true => eval a s1 | Some false => eval b s1 | None => None end
    | None => None
    end
  | EBinU op a b =>
    match eval a s with
    | Some (VInt x, s1) =>
      match eval b s1 with
      | Some (VInt y, s2) =>
        if (0 <=? x) && (x <? u32) && ((0 <=? y) && (y <? u32) || is_shift op) then
          match binop_uint op x y with Some v => Some (v, s2) | None => None end
        else None
      | _ => None
      end
    | _ => None
    end
  | ESizeAdd a b =>
    match eval a s with
    | Some (VInt x, s1) =>
      match eval b s1 with
      | Some (VInt y, s2) => if (0 <=? x) && (0 <=? y) then Some (VInt ((x + y) mod 18446744073709551616), s2) else None
      | _ => None
      end
    | _ => None
    end
  | EReadByte x =>
    match stream_of s with
    | b :: r => match set_var x (VInt b) (set_stream r s) with
                | Some s1 => Some (VInt 1, s1) | None => None end
    | [] => Some (VInt 0, s)
    end
  | EReadInt32 x =>
    match stream_of s with
    | b0 :: b1 :: b2 :: b3 :: r =>
      match set_var x (VInt ((b0 + 256 * b1 + 65536 * b2 + 16777216 * b3 + 2147483648) mod u32 - 2147483648)) (set_stream r s) with
      | Some s1 => Some (VInt 1, s1) | None => None end
    | _ => Some (VInt 0, set_stream [] s)
    end
  | EReadBuf p n =>
    match eval p s with
    | Some (VPtr RIn o, s1) =>
      match eval n s1 with
      | Some (VInt k, s2) =>
        match lookup strm_var (vars s2) with
        | Some (VBytes l) =>
          if (0 <=? k) && (0 <=? o) && (o + k <=? Z.of_nat (List.length (inb s2))) then
            let got := firstn (Z.to_nat k) l in
            match set_var strm_var (VBytes (skipn (Z.to_nat k) l)) {| vars := vars s2; inb := upd_range (Z.to_nat o) got (inb s2); outb := outb s2 |} with
            | Some s3 => Some (VInt (Z.of_nat (List.length got)), s3) | None => None end
          else None
        | _ => None
        end
      | _ => None
      end
    | _ => None
    end
  | EWriteInt32 a =>
    match eval a s with
    | Some (VInt z, s1) =>
      match lookup budget_var (vars s1) with
      | Some (VInt k) =>
        let u := z mod u32 in
        let bytes := [u mod 256; (u / 256) mod 256; (u / 65536) mod 256; (u / 16777216) mod 256] in
        if 4 <=? k then
          match set_var budget_var (VInt (k - 4)) {| vars := vars s1; inb := inb s1; outb := outb s1 ++ bytes |} with
          | Some s2 => Some (VInt 1, s2) | None => None end
        else
          match set_var budget_var (VInt 0) {| vars := vars s1; inb := inb s1; outb := outb s1 ++ firstn (Z.to_nat k) bytes |} with
          | Some s2 => Some (VInt 0, s2) | None => None end
      | _ => None
      end
    | _ => None
    end
  | ELoadInt32 p i =>
    match eval p s with
    | Some (VPtr RIn o, s1) =>
      match eval i s1 with
      | Some (VInt k, s2) =>
        let a := o + 4 * k in
        if (0 <=? a) && (a + 4 <=? Z.of_nat (List.length (inb s2))) then
          match skipn (Z.to_nat a) (inb s2) with
          | b0 :: b1 :: b2 :: b3 :: _ => Some (VInt ((b0 + 256 * b1 + 65536 * b2 + 16777216 * b3 + 2147483648) mod u32 - 2147483648), s2)
          | _ => None
          end
        else None
      | _ => None
      end
    | _ => None
    end
  | EWriteBuf p n =>
    match eval p s with
    | Some (VPtr RIn o, s1) =>
      match eval n s1 with
      | Some (VInt k, s2) =>
        if (0 <=? o) && (0 <=? k) && (o + k <=? Z.of_nat (List.length (inb s2))) then
          match lookup budget_var (vars s2) with
          | Some (VInt b) =>
            let m := Z.min k b in
            match set_var budget_var (VInt (b - m)) {| vars := vars s2; inb := inb s2; outb := outb s2 ++ firstn (Z.to_nat m) (skipn (Z.to_nat o) (inb s2)) |} with
            | Some s3 => Some (VInt m, s3) | None => None end
          | _ => None
          end
        else None
      | _ => None
      end
    | _ => None
    end
  | EMemcmp p q n =>
    match eval p s with
    | Some (VPtr RIn o1, s1) =>
      match eval q s1 with
      | Some (VPtr RIn o2, s2) =>
        match eval n s2 with
        | Some (VInt k, s3) =>
          let len := Z.of_nat (List.length (inb s3)) in
          if (0 <=? k) && (0 <=? o1) && (o1 + k <=? len) && (0 <=? o2) && (o2 + k <=? len) then
            Some (VInt (memcmp_l (firstn (Z.to_nat k) (skipn (Z.to_nat o1) (inb s3))) (firstn (Z.to_nat k) (skipn (Z.to_nat o2) (inb s3)))), s3)
          else None
        | _ => None
        end
      | _ => None
      end
    | _ => None
    end
  | EMalloc a =>
    match eval a s with
    | Some (VInt n, s1) =>
      if 0 <=? n then
        let ok := Some (VPtr RIn (Z.of_nat (List.length (inb s1))),
                        {| vars := vars s1; inb := inb s1 ++ repeat junk (Z.to_nat n); outb := outb s1 |}) in
        match lookup fail_var (vars s1) with
        | Some (VInt k) =>
          if k =? 0 then match set_var fail_var (VInt (-1)) s1 with Some s2 => Some (VNull, s2) | None => None end
          else if 0 <? k then
            match set_var fail_var (VInt (k - 1)) {| vars := vars s1; inb := inb s1 ++ repeat junk (Z.to_nat n); outb := outb s1 |} with
            | Some s2 => Some (VPtr RIn (Z.of_nat (List.length (inb s1))), s2) | None => None end
          else ok
        | Some _ => None
        | None => ok
        end
      else None
    | _ => None
    end
  | ECallocBytes a =>
    match eval a s with
    | Some (VInt n, s1) =>
      if 0 <=? n then
        let ok := Some (VPtr RIn (Z.of_nat (List.length (inb s1))),
                        {| vars := vars s1; inb := inb s1 ++ repeat 0 (Z.to_nat n); outb := outb s1 |}) in
        match lookup fail_var (vars s1) with
        | Some (VInt k) =>
          if k =? 0 then match set_var fail_var (VInt (-1)) s1 with Some s2 => Some (VNull, s2) | None => None end
          else if 0 <? k then
            match set_var fail_var (VInt (k - 1)) {| vars := vars s1; inb := inb s1 ++ repeat 0 (Z.to_nat n); outb := outb s1 |} with
            | Some s2 => Some (VPtr RIn (Z.of_nat (List.length (inb s1))), s2) | None => None end
          else ok
        | Some _ => None
        | None => ok
        end
      else None
    | _ => None
    end
  | EFree a =>
    match eval a s with
    | Some (VNull, s1) => Some (VInt 0, s1)
    | Some (VPtr RIn o, s1) => if (0 <=? o) && (o <=? Z.of_nat (List.length (inb s1))) then Some (VInt 0, s1) else None
    | Some (VCell b i, s1) =>
      match heap_of s1 with
      | Some h =>
        match nth_error h b with
        | Some (Some _) =>
          if i =? 0 then
            match set_nth_v b None h with
            | Some h' => match set_var cells_var (VHeap h') s1 with Some s2 => Some (VInt 0, s2) | None => None end
            | None => None
            end
          else None
        | _ => None            (* not a block, or released before: a double free *)
        end
      | None => None
      end
    | _ => None
    end
  | EStoreInt32 p a =>
    match eval p s with
    | Some (VPtr RIn o, s1) =>
      match eval a s1 with
      | Some (VInt z, s2) =>
        if (0 <=? o) && (o + 4 <=? Z.of_nat (List.length (inb s2))) then
          let u := z mod u32 in
          Some (VInt z, {| vars := vars s2; inb := upd_range (Z.to_nat o) [u mod 256; (u / 256) mod 256; (u / 65536) mod 256; (u / 16777216) mod 256] (inb s2); outb := outb s2 |})
        else None
      | _ => None
      end
    | _ => None
    end
  | EMemcpy d a n =>
    match eval d s with
    | Some (VPtr RIn o1, s1) =>
      match eval a s1 with
      | Some (VPtr RIn o2, s2) =>
        match eval n s2 with
        | Some (VInt k, s3) =>
          let len := Z.of_nat (List.length (inb s3)) in
          if (0 <=? k) && (0 <=? o1) && (o1 + k <=? len) && (0 <=? o2) && (o2 + k <=? len) && ((o1 + k <=? o2) || (o2 + k <=? o1)) then
            Some (VPtr RIn o1, {| vars := vars s3; inb := upd_range (Z.to_nat o1) (firstn (Z.to_nat k) (skipn (Z.to_nat o2) (inb s3))) (inb s3); outb := outb s3 |})
          else None
        | _ => None
        end
      | _ => None
      end
    | _ => None
    end
  | EStrlen p =>
    match eval p s with
    | Some (VPtr RIn o, s1) =>
      if (0 <=? o) && (o <=? Z.of_nat (List.length (inb s1))) then
        match strlen_l (skipn (Z.to_nat o) (inb s1)) with Some n => Some (VInt n, s1) | None => None end
      else None
    | _ => None
    end
  | EPostAdd x k =>
    match lookup x (vars s) with
    | Some (VPtr RIn o) =>
      if (0 <=? o + k) && (o + k <=? Z.of_nat (List.length (inb s))) then
        match set_var x (VPtr RIn (o + k)) s with Some s1 => Some (VPtr RIn o, s1) | None => None end
      else None
    | _ => None
    end
  | EPreAdd x k =>
    match lookup x (vars s) with
    | Some (VPtr RIn o) =>
      if (0 <=? o + k) && (o + k <=? Z.of_nat (List.length (inb s))) then
        match set_var x (VPtr RIn (o + k)) s with Some s1 => Some (VPtr RIn (o + k), s1) | None => None end
      else None
    | _ => None
    end
  | ECalloc a =>
    match eval a s with
    | Some (VInt n, s1) =>
      match heap_of s1 with
      | Some h =>
        if 0 <=? n then
          let fresh := VCell (List.length h) 0 in
          let grown := h ++ [Some (repeat (VInt 0) (Z.to_nat n))] in
          match lookup fail_var (vars s1) with
          | Some (VInt k) =>
            if k =? 0 then match set_var fail_var (VInt (-1)) s1 with Some s2 => Some (VNull, s2) | None => None end
            else
              match set_var fail_var (VInt (if 0 <? k then k - 1 else k)) s1 with
              | Some s2 => match set_var cells_var (VHeap grown) s2 with Some s3 => Some (fresh, s3) | None => None end
              | None => None
              end
          | _ => None
          end
        else None
      | None => None
      end
    | _ => None
    end
  | ECellLoad p idx isptr =>
    match eval p s with
    | Some (VCell b i, s1) =>
      match eval idx s1 with
      | Some (VInt k, s2) =>
        match heap_of s2 with
        | Some h => match cell_get h b (i + k) with
                    | Some v => Some ((if isptr then as_ptr v else v), s2)
                    | None => None end
        | None => None
        end
      | _ => None
      end
    | _ => None
    end
  | ECellStore p idx a =>
    match eval p s with
    | Some (VCell b i, s1) =>
      match eval idx s1 with
      | Some (VInt k, s2) =>
        match eval a s2 with
        | Some (v, s3) =>
          if storable v then
            match heap_of s3 with
            | Some h => match cell_set h b (i + k) v with
                        | Some h' => match set_var cells_var (VHeap h') s3 with Some s4 => Some (v, s4) | None => None end
                        | None => None end
            | None => None
            end
          else None
        | None => None
        end
      | _ => None
      end
    | _ => None
    end
  | ECellStep x k post =>
    match lookup x (vars s) with
    | Some (VCell b i) =>
      match heap_of s with
      | Some h =>
        match nth_error h b with
        | Some (Some blk) =>
          if (0 <=? i + k) && (i + k <=? Z.of_nat (List.length blk)) then
            match set_var x (VCell b (i + k)) s with Some s1 => Some ((if post then VCell b i else VCell b (i + k)), s1) | None => None end
          else None
        | _ => None
        end
      | None => None
      end
    | _ => None
    end
  | ECellStepF p idx k post =>
    match eval p s with
    | Some (VCell b i, s1) =>
      match eval idx s1 with
      | Some (VInt j, s2) =>
        match heap_of s2 with
        | Some h =>
          match cell_get h b (i + j) with
          | Some (VInt z) =>
            match chk (z + k) with
            | Some (VInt z') =>
              match cell_set h b (i + j) (VInt z') with
              | Some h' => match set_var cells_var (VHeap h') s2 with Some s3 => Some (VInt (if post then z else z'), s3) | None => None end
              | None => None
              end
            | _ => None
            end
          | _ => None
          end
        | None => None
        end
      | _ => None
      end
    | _ => None
    end
  | EFieldAddr p idx =>
    match eval p s with
    | Some (VCell b i, s1) =>
      match eval idx s1 with
      | Some (VInt j, s2) =>
        match heap_of s2 with
        | Some h => match cell_get h b (i + j) with Some _ => Some (VCell b (i + j), s2) | None => None end
        | None => None
        end
      | _ => None
      end
    | _ => None
    end
  | EMallocCells a =>
    match eval a s with
    | Some (VInt n, s1) =>
      match heap_of s1 with
      | Some h =>
        if (0 <=? n) && (n mod 8 =? 0) then
          let fresh := VCell (List.length h) 0 in
          let grown := h ++ [Some (repeat VUndef (Z.to_nat (n / 8)))] in
          match lookup fail_var (vars s1) with
          | Some (VInt k) =>
            if k =? 0 then match set_var fail_var (VInt (-1)) s1 with Some s2 => Some (VNull, s2) | None => None end
            else
              match set_var fail_var (VInt (if 0 <? k then k - 1 else k)) s1 with
              | Some s2 => match set_var cells_var (VHeap grown) s2 with Some s3 => Some (fresh, s3) | None => None end
              | None => None
              end
          | _ => None
          end
        else None
      | None => None
      end
    | _ => None
    end
  | ERealloc p a =>
    match eval p s with
    | Some (VCell b i, s1) =>
      match eval a s1 with
      | Some (VInt n, s2) =>
        match heap_of s2 with
        | Some h =>
          match nth_error h b with
          | Some (Some blk) =>
            if (i =? 0) && (0 <=? n) && (n mod 8 =? 0) then
              let cnt := Z.to_nat (n / 8) in
              let fresh := VCell (List.length h) 0 in
              let newblk := firstn cnt blk ++ repeat VUndef (cnt - List.length blk) in
              match lookup fail_var (vars s2) with
              | Some (VInt k) =>
                if k =? 0 then match set_var fail_var (VInt (-1)) s2 with Some s3 => Some (VNull, s3) | None => None end
                else
                  match set_nth_v b None h with
                  | Some h1 =>
                    match set_var fail_var (VInt (if 0 <? k then k - 1 else k)) s2 with
                    | Some s3 => match set_var cells_var (VHeap (h1 ++ [Some newblk])) s3 with Some s4 => Some (fresh, s4) | None => None end
                    | None => None
                    end
                  | None => None
                  end
              | _ => None
              end
            else None
          | _ => None
          end
        | None => None
        end
      | _ => None
      end
    | _ => None
    end
  | EPtrEq a b =>
    match eval a s with
    | Some (va, s1) =>
      match eval b s1 with
      | Some (vb, s2) => match ptr_eqb va vb with Some t => Some (VInt (b2z t), s2) | None => None end
      | None => None
      end
    | None => None
    end
  | ELeaf f a =>
    match eval a s with
    | Some (VInt x, s1) => match leaf_call f x with Some r => Some (VInt r, s1) | None => None end
    | _ => None
    end
  | EStrcmp p q =>
    match eval p s with
    | Some (VPtr RIn o1, s1) =>
      match eval q s1 with
      | Some (VPtr RIn o2, s2) =>
        let len := Z.of_nat (List.length (inb s2)) in
        if (0 <=? o1) && (o1 <=? len) && (0 <=? o2) && (o2 <=? len) then
          match cstr_l (skipn (Z.to_nat o1) (inb s2)), cstr_l (skipn (Z.to_nat o2) (inb s2)) with
          | Some a, Some b => Some (VInt (lexcmp_l a b), s2)
          | _, _ => None
          end
        else None
      | _ => None
      end
    | _ => None
    end
  | ESeekCur a =>
    match eval a s with
    | Some (VInt k, s1) =>
      if 0 <=? k then Some (VInt 0, set_stream (skipn (Z.to_nat k) (stream_of s1)) s1) else None
    | _ => None
    end
  | EPtrAdd p a =>
    match eval p s with
    | Some (pv, s1) =>
      match eval a s1 with
      | Some (VInt z, s2) => match ptr_add pv z s2 with Some v => Some (v, s2) | None => None end
      | _ => None
      end
    | None => None
    end
  | EPostDec x =>
    match lookup x (vars s) with
    | Some v => match decr v s with
                | Some v' => match set_var x v' s with Some s1 => Some (v, s1) | None => None end
                | None => None end
    | None => None
    end
  | EPreDec x =>
    match lookup x (vars s) with
    | Some v => match decr v s with
                | Some v' => match set_var x v' s with Some s1 => Some (v', s1) | None => None end
                | None => None end
    | None => None
    end
  | ESizeMul a b =>
    match eval a s with
    | Some (VInt x, s1) =>
      match eval b s1 with
      | Some (VInt y, s2) => if (0 <=? x) && (0 <=? y) then Some (VInt ((x * y) mod 18446744073709551616), s2) else None
      | _ => None
      end
    | _ => None
    end
  | EMemsetCells p a =>
    match eval p s with
    | Some (VCell b i, s1) =>
      match eval a s1 with
      | Some (VInt n, s2) =>
        match heap_of s2 with
        | Some h =>
          match nth_error h b with
          | Some (Some blk) =>
            if (0 <=? i) && (0 <=? n) && (n mod 8 =? 0) && (i + n / 8 <=? Z.of_nat (List.length blk)) then
              let newblk := firstn (Z.to_nat i) blk ++ repeat (VInt 0) (Z.to_nat (n / 8)) ++ skipn (Z.to_nat (i + n / 8)) blk in
              match set_nth_v b (Some newblk) h with
              | Some h1 => match set_var cells_var (VHeap h1) s2 with Some s3 => Some (VCell b i, s3) | None => None end
              | None => None
              end
            else None
          | _ => None
          end
        | None => None
        end
      | _ => None
      end
    | _ => None
    end
  | EReadItems p sz n =>
    match eval p s with
    | Some (VPtr RIn o, s1) =>
      match eval sz s1 with
      | Some (VInt z, s2) =>
        match eval n s2 with
        | Some (VInt c, s3) =>
          match lookup strm_var (vars s3) with
          | Some (VBytes l) =>
            if (0 <? z) && (0 <=? c) && (z * c <? 18446744073709551616) && (0 <=? o) && (o + z * c <=? Z.of_nat (List.length (inb s3))) then
              let got := firstn (Z.to_nat (z * c)) l in
              match set_var strm_var (VBytes (skipn (Z.to_nat (z * c)) l)) {| vars := vars s3; inb := upd_range (Z.to_nat o) got (inb s3); outb := outb s3 |} with
              | Some s4 => Some (VInt (Z.of_nat (List.length got) / z), s4) | None => None end
            else None
          | _ => None
          end
        | _ => None
        end
      | _ => None
      end
    | _ => None
    end
  | ELongMul a b =>
    match eval a s with
    | Some (VInt x, s1) =>
      match eval b s1 with
      | Some (VInt y, s2) => if in_int x && in_int y then Some (VInt (x * y), s2) else None
      | _ => None
      end
    | _ => None
    end
  | EWriteByte a =>
    match eval a s with
    | Some (VInt z, s1) =>
      match lookup budget_var (vars s1) with
      | Some (VInt k) =>
        if 0 <? k then
          match set_var budget_var (VInt (k - 1)) {| vars := vars s1; inb := inb s1; outb := outb s1 ++ [z mod 256] |} with
          | Some s2 => Some (VInt 1, s2) | None => None end
        else Some (VInt 0, s1)
      | _ => None
      end
    | _ => None
    end
  end.

Inductive outcome := ONormal (s : state) | OReturn (v : val) (s : state) | OBreak (s : state) | OFault | OFuel.

Fixpoint exec (fuel : nat) (st : stmt) (s : state) : outcome :=
  match fuel with
  | O => OFuel
  | S f =>
    match st with
    | SSkip => ONormal s
    | SExpr e => match eval e s with Some (_, s1) => ONormal s1 | None => OFault end
    | SDecl x None => match set_var x VUndef s with Some s1 => ONormal s1 | None => OFault end
    | SDecl x (Some e) =>
      match eval e s with
      | Some (v, s1) => match set_var x v s1 with Some s2 => ONormal s2 | None => OFault end
      | None => OFault
      end
    | SSeq a b => match exec f a s with ONormal s1 => exec f b s1 | o => o end
    | SIf c a b =>
      match eval c s with
      | Some (vc, s1) => match truth vc with Some true => exec f a s1 | Some false => exec f b s1 | None => OFault end
      | None => OFault
      end
    | SWhile c body =>
      match eval c s with
      | Some (vc, s1) =>
        match truth vc with
        | Some true => match exec f body s1 with
                       | ONormal s2 => exec f (SWhile c body) s2
                       | OBreak s2 => ONormal s2
                       | o => o end
        | Some false => ONormal s1
        | None => OFault
        end
      | None => OFault
      end
    | SReturn e => match eval e s with Some (v, s1) => OReturn v s1 | None => OFault end
    | SBreak => OBreak s
    | SCall _ _ _ => OFault          (* calls need the function table: ImpCall.execE *)
    | SFault _ => OFault
    end
  end.

(* every local of the function has one slot (the translator refuses two declarations of one name);
   a declaration (re)initialises its slot, so entering a block again starts from a fresh value *)
Record func := { fparams : list string; flocals : list string; fbody : stmt }.

(* a call: the arguments bound to the parameters, the locals unset, the input buffer given,
   nothing written yet *)
Definition call (fuel : nat) (f : func) (args : list val) (input : list Z) : outcome :=
  exec fuel (fbody f) {| vars := combine (fparams f) args ++ map (fun x => (x, VUndef)) (flocals f); inb := input; outb := [] |}.

(* a call of a function that works on a stream: input = the unread bytes, budget = how many bytes the output stream accepts *)
Definition call_io (fuel : nat) (f : func) (args : list val) (input : list Z) (budget : Z) : outcome :=
  exec fuel (fbody f) {| vars := combine (fparams f) args ++ map (fun x => (x, VUndef)) (flocals f) ++ [(budget_var, VInt budget)];
                         inb := input; outb := [] |}.
