(* PrimFacts.v — the codec framework (DESIGN 3.2) and its instances for the primitives:
     wspec  : what a writer accepts under every byte budget (C13), and its bytes (C03);
     rspec  : a reader consumes exactly an encoding whatever follows (C07/C01) and fails with a
              hard error on every strict prefix of it (C06).
   All reader facts are for cap = None (allocation never fails). *)
From Sbdf Require Import Prim BaseFacts.
From Coq Require Import ZifyBool.
Ltac Zify.zify_post_hook ::= Z.div_mod_to_equations.

(* ------------------------------------------------------------------ status facts *)
Definition hard (e : Z) : Prop := e <> SBDF_OK /\ e <> SBDF_TABLEEND.

Lemma hard_io : hard SBDF_ERROR_IO. Proof. split; discriminate. Qed.
Lemma hard_invalid_size : hard SBDF_ERROR_INVALID_SIZE. Proof. split; discriminate. Qed.
Lemma hard_magic : hard SBDF_ERROR_MAGIC_NUMBER_MISSING. Proof. split; discriminate. Qed.
Lemma hard_section : hard SBDF_ERROR_UNEXPECTED_SECTION_ID. Proof. split; discriminate. Qed.
Lemma hard_oom : hard SBDF_ERROR_OUT_OF_MEMORY. Proof. split; discriminate. Qed.
#[global] Hint Resolve hard_io hard_invalid_size hard_magic hard_section hard_oom : sbdf.

(* ------------------------------------------------------------------ writers *)
Lemma wbytes_push c b b' bs :
  wbytes {| wchunks := bs :: c; wbud := b |} = wbytes {| wchunks := c; wbud := b' |} ++ bs.
Proof. unfold wbytes. cbn [wchunks rev]. rewrite concat_app. cbn. now rewrite app_nil_r. Qed.

Definition wspec {A} (w : W A) (r : res A) (bs : list Z) : Prop :=
  forall s, 0 <= wbud s ->
    (zlen bs <= wbud s ->
       exists s', w s = (r, s') /\ wbytes s' = wbytes s ++ bs /\ wbud s' = wbud s - zlen bs) /\
    (wbud s < zlen bs ->
       exists e s', w s = (Err e, s') /\ e <> SBDF_OK /\ wbytes s' = wbytes s ++ ztake (wbud s) bs /\ wbud s' = 0).

Lemma wspec_ret {A} (a : A) : wspec (wret a) (Ok a) [].
Proof.
  intros s Hs. split; intros H.
  - exists s. unfold wret. rewrite app_nil_r. cbn. repeat split. lia.
  - cbn in H. lia.
Qed.

Lemma wspec_fail {A} e : wspec (@wfail A e) (Err e) [].
Proof.
  intros s Hs. split; intros H.
  - exists s. unfold wfail. rewrite app_nil_r. cbn. repeat split. lia.
  - cbn in H. lia.
Qed.

Lemma wspec_put bs err : err <> SBDF_OK -> wspec (put bs err) (Ok tt) bs.
Proof.
  intros He s Hs. unfold put. destruct s as [c b]. cbn [wbud wchunks] in *. split; intros H.
  - destruct (zlen bs <=? b) eqn:C; [|lia].
    eexists. split; [reflexivity|]. split; [apply wbytes_push|reflexivity].
  - destruct (zlen bs <=? b) eqn:C; [lia|].
    exists err. eexists. split; [reflexivity|]. split; [exact He|]. split; [apply wbytes_push|reflexivity].
Qed.

Lemma wspec_bind {A B} (w : W A) (f : A -> W B) a r bs1 bs2 :
  wspec w (Ok a) bs1 -> wspec (f a) r bs2 -> wspec (wbind w f) r (bs1 ++ bs2).
Proof.
  intros H1 H2 s Hs. rewrite zlen_app. pose proof (zlen_nonneg bs1) as N1. pose proof (zlen_nonneg bs2) as N2.
  destruct (H1 s Hs) as [H1a H1b]. unfold wbind. split; intros H.
  - destruct H1a as (s1 & E1 & B1 & U1); [lia|]. rewrite E1.
    assert (Hs1 : 0 <= wbud s1) by lia.
    destruct (H2 s1 Hs1) as [H2a _]. destruct H2a as (s2 & E2 & B2 & U2); [lia|].
    exists s2. split; [exact E2|]. split; [rewrite B2, B1; now rewrite app_assoc | lia].
  - destruct (Z_lt_le_dec (wbud s) (zlen bs1)) as [L|L].
    + destruct H1b as (e & s1 & E1 & Ne & B1 & U1); [exact L|]. rewrite E1.
      exists e, s1. repeat split; try assumption. rewrite B1. f_equal. symmetry. apply ztake_app_le. lia.
    + destruct H1a as (s1 & E1 & B1 & U1); [lia|]. rewrite E1.
      assert (Hs1 : 0 <= wbud s1) by lia.
      destruct (H2 s1 Hs1) as [_ H2b]. destruct H2b as (e & s2 & E2 & Ne & B2 & U2); [lia|].
      exists e, s2. repeat split; try assumption. rewrite B2, B1, U1, <- app_assoc. f_equal.
      symmetry. apply ztake_app_ge. lia.
Qed.

Lemma wspec_bind_err {A B} (w : W A) (f : A -> W B) e bs :
  e <> SBDF_OK -> wspec w (Err e) bs -> wspec (wbind w f) (Err e) bs.
Proof.
  intros Ne H s Hs. destruct (H s Hs) as [Ha Hb]. unfold wbind. split; intros L.
  - destruct Ha as (s1 & E1 & B1 & U1); [exact L|]. rewrite E1. exists s1. auto.
  - destruct Hb as (e' & s1 & E1 & Ne' & B1 & U1); [exact L|]. rewrite E1. exists e', s1. auto.
Qed.

Lemma wspec_ext {A} (w : W A) r bs bs' : bs = bs' -> wspec w r bs -> wspec w r bs'.
Proof. now intros ->. Qed.

Lemma wspec_wfor {A} (l : list A) (f : A -> W unit) (enc : A -> list Z) :
  (forall x, In x l -> wspec (f x) (Ok tt) (enc x)) -> wspec (wfor l f) (Ok tt) (concat (map enc l)).
Proof.
  induction l as [|x l IH]; intros H; cbn [wfor map concat].
  - apply wspec_ret.
  - eapply wspec_bind; [apply H; now left|]. apply IH. intros y Hy. apply H. now right.
Qed.

(* the observable content of wspec for a fresh stream: C13's statement *)
Lemma wspec_run (w : W unit) r bs budget :
  wspec w r bs -> 0 <= budget ->
  (zlen bs <= budget -> wrun w budget = (match r with Ok _ => SBDF_OK | Err e => e end, bs)) /\
  (budget < zlen bs -> exists e, wrun w budget = (e, ztake budget bs) /\ e <> SBDF_OK).
Proof.
  intros H Hb. destruct (H (wstart budget) Hb) as [Ha Hc]. unfold wrun. cbn [wstart wbud] in *. split; intros L.
  - destruct Ha as (s' & E & B & _); [exact L|]. rewrite E. unfold wbytes at 2 in B. cbn in B. rewrite B.
    destruct r; reflexivity.
  - destruct Hc as (e & s' & E & Ne & B & _); [exact L|]. rewrite E. unfold wbytes at 2 in B. cbn in B. rewrite B.
    exists e. split; [reflexivity|exact Ne].
Qed.

(* ------------------------------------------------------------------ readers *)
Definition rspec {A} (m : R A) (bs : list Z) (a : A) : Prop :=
  (forall tail, m (bs ++ tail) = Ok (a, tail)) /\
  (forall n, 0 <= n < zlen bs -> exists e, m (ztake n bs) = Err e /\ hard e).

Lemma rspec_ret {A} (a : A) : rspec (rret a) [] a.
Proof. split; [reflexivity|]. intros n H. cbn in H. lia. Qed.

Lemma rspec_bind {A B} (m : R A) (f : A -> R B) bs1 bs2 a b :
  rspec m bs1 a -> rspec (f a) bs2 b -> rspec (rd_bind m f) (bs1 ++ bs2) b.
Proof.
  intros [E1 T1] [E2 T2]. split.
  - intros tail. unfold rd_bind. rewrite <- app_assoc, E1. apply E2.
  - intros n Hn. rewrite zlen_app in Hn. unfold rd_bind.
    destruct (Z_lt_le_dec n (zlen bs1)) as [L|L].
    + rewrite ztake_app_le by lia. destruct (T1 n) as (e & Ee & He); [lia|]. rewrite Ee. eauto.
    + rewrite ztake_app_ge by lia. rewrite E1. apply T2. lia.
Qed.

Lemma rspec_ext {A} (m : R A) bs bs' a : bs = bs' -> rspec m bs a -> rspec m bs' a.
Proof. now intros ->. Qed.

(* a reader that rejects what it has read: exact part only makes sense as failure; used for guards *)
Lemma rspec_guard {A} (c : bool) (e : Z) (m : R A) bs a :
  c = false -> rspec m bs a -> rspec (if c then rfail e else m) bs a.
Proof. now intros ->. Qed.

Section PrimFacts.
Variable swp : bool.
Notation cap0 := (@None Z).

Lemma swapb_involutive bs : swapb swp (swapb swp bs) = bs.
Proof. unfold swapb. destruct swp; [apply rev_involutive|reflexivity]. Qed.

Lemma zlen_swapb bs : zlen (swapb swp bs) = zlen bs.
Proof. unfold swapb. destruct swp; [apply zlen_rev|reflexivity]. Qed.

Lemma fread_bytes_exact bs tail : fread_bytes (zlen bs) (bs ++ tail) = Ok (bs, tail).
Proof.
  unfold fread_bytes. pose proof (zlen_nonneg bs). destruct (zlen bs <? 0) eqn:C; [lia|].
  rewrite take_z_app. reflexivity.
Qed.

Lemma fread_bytes_short n s : zlen s < n -> fread_bytes n s = Err SBDF_ERROR_IO.
Proof.
  intros H. unfold fread_bytes. destruct (n <? 0) eqn:C; [reflexivity|].
  rewrite take_z_short by exact H. reflexivity.
Qed.

Lemma rspec_fread bs : rspec (fread_bytes (zlen bs)) bs bs.
Proof.
  split; [apply fread_bytes_exact|]. intros n Hn. exists SBDF_ERROR_IO. split; [|apply hard_io].
  apply fread_bytes_short. rewrite zlen_ztake by lia. lia.
Qed.

Lemma rspec_int8 b : rspec read_int8 [b] b.
Proof.
  split; [reflexivity|]. intros n Hn. cbn in Hn. assert (n = 0) by lia. subst n.
  exists SBDF_ERROR_IO. split; [reflexivity|apply hard_io].
Qed.

Definition i32_range (v : Z) : Prop := -2147483648 <= v < 2147483648.

Definition enc32 (v : Z) : list Z := swapb swp (le32 v).

Lemma zlen_enc32 v : zlen (enc32 v) = 4.
Proof. unfold enc32. now rewrite zlen_swapb. Qed.

Lemma rspec_int32 v : i32_range v -> rspec (read_int32 swp) (enc32 v) v.
Proof.
  intros Hv. unfold read_int32.
  eapply rspec_ext; [apply app_nil_r|].
  eapply rspec_bind.
  - replace 4 with (zlen (enc32 v)) by apply zlen_enc32. apply rspec_fread.
  - unfold enc32. rewrite swapb_involutive, de32_le32 by exact Hv. apply rspec_ret.
Qed.

Lemma wspec_int8 v : wspec (write_int8 v) (Ok tt) [v mod 256].
Proof. apply wspec_put. discriminate. Qed.

Lemma wspec_int32 v : wspec (write_int32 swp v) (Ok tt) (enc32 v).
Proof. apply wspec_put. discriminate. Qed.

(* ---- strings ---- *)
Definition enc_string (s : list Z) : list Z := enc32 (zlen s) ++ s.

Lemma wspec_string s : wspec (write_string swp s) (Ok tt) (enc_string s).
Proof.
  unfold write_string, enc_string. eapply wspec_bind; [apply wspec_int32|]. apply wspec_put. discriminate.
Qed.

Lemma rspec_string s : zlen s < 2147483647 -> rspec (read_string swp cap0) (enc_string s) s.
Proof.
  intros Hs. pose proof (zlen_nonneg s) as N. unfold read_string, enc_string.
  eapply rspec_bind; [apply rspec_int32; unfold i32_range; lia|].
  destruct (zlen s <? 0) eqn:C; [lia|]. unfold INT_MAX. destruct (zlen s =? 2147483647) eqn:C1; [lia|].
  eapply rspec_ext; [apply app_nil_l|]. eapply rspec_bind.
  - unfold ralloc, alloc_ok. apply rspec_ret.
  - apply rspec_fread.
Qed.

Lemma skip_string_exact s tail : zlen s < 2147483648 -> skip_string swp (enc_string s ++ tail) = Ok (tt, tail).
Proof.
  intros Hs. pose proof (zlen_nonneg s) as N. unfold skip_string, enc_string, rd_bind.
  rewrite <- app_assoc. destruct (rspec_int32 (zlen s)) as [E _]; [unfold i32_range; lia|]. rewrite E.
  destruct (zlen s <? 0) eqn:C; [lia|]. unfold fseek_cur. rewrite C. now rewrite drop_z_app.
Qed.

(* ---- section markers, file header ---- *)
Definition enc_sec (id : Z) : list Z := [223; 91; id mod 256].

Lemma wspec_sec id : wspec (sec_write id) (Ok tt) (enc_sec id).
Proof.
  unfold sec_write, enc_sec.
  change [223; 91; id mod 256] with ([223 mod 256] ++ [91 mod 256] ++ [id mod 256]).
  eapply wspec_bind; [apply wspec_int8|]. eapply wspec_bind; apply wspec_int8.
Qed.

Lemma rspec_sec_read id : rspec sec_read [223; 91; id] id.
Proof.
  unfold sec_read.
  change [223; 91; id] with ([223] ++ [91] ++ [id]).
  eapply rspec_bind; [apply rspec_int8|]. cbn [negb Z.eqb Pos.eqb].
  eapply rspec_bind; [apply rspec_int8|]. cbn [negb Z.eqb Pos.eqb]. apply rspec_int8.
Qed.

Lemma rspec_sec_expect id : rspec (sec_expect id) [223; 91; id] tt.
Proof.
  unfold sec_expect. eapply rspec_ext; [apply app_nil_r|].
  eapply rspec_bind; [apply rspec_sec_read|]. rewrite Z.eqb_refl. cbn [negb]. apply rspec_ret.
Qed.

Definition enc_header : list Z := [223; 91; 1; 1; 0].

Lemma wspec_fh : wspec fh_write_cur (Ok tt) enc_header.
Proof.
  unfold fh_write_cur, enc_header.
  change [223; 91; 1; 1; 0] with (enc_sec SBDF_FILEHEADER_SECTIONID ++ [SBDF_MAJOR_VERSION mod 256] ++ [SBDF_MINOR_VERSION mod 256]).
  eapply wspec_bind; [apply wspec_sec|]. eapply wspec_bind; apply wspec_int8.
Qed.

Lemma rspec_fh : rspec fh_read enc_header (1, 0).
Proof.
  unfold fh_read, enc_header.
  change [223; 91; 1; 1; 0] with ([223; 91; SBDF_FILEHEADER_SECTIONID] ++ [1] ++ [0] ++ []).
  eapply rspec_bind; [apply rspec_sec_expect|].
  eapply rspec_bind; [apply rspec_int8|]. eapply rspec_bind; [apply rspec_int8|]. apply rspec_ret.
Qed.

End PrimFacts.
