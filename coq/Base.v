(* Base.v — result type, list helpers and byte arithmetic used by the whole model.
   Definitions only; lemmas live in BaseFacts.v so that the model still runs when a proof breaks. *)
From Coq Require Export List ZArith Bool Lia.
Export ListNotations.
#[global] Open Scope Z_scope.

Inductive res (A : Type) : Type :=
| Ok (a : A)
| Err (status : Z).
Arguments Ok {A} a.
Arguments Err {A} status.

Definition rbind {A B} (r : res A) (f : A -> res B) : res B :=
  match r with Ok a => f a | Err e => Err e end.

Definition zlen {A} (l : list A) : Z := Z.of_nat (length l).

Definition ztake {A} (n : Z) (l : list A) : list A := firstn (Z.to_nat n) l.
Definition zdrop {A} (n : Z) (l : list A) : list A := skipn (Z.to_nat n) l.

Fixpoint list_eqb {A} (eqb : A -> A -> bool) (a b : list A) : bool :=
  match a, b with
  | [], [] => true
  | x :: a', y :: b' => eqb x y && list_eqb eqb a' b'
  | _, _ => false
  end.

Definition bytes_eqb : list Z -> list Z -> bool := list_eqb Z.eqb.

(* what strcmp/strlen see of a byte string: the part before the first NUL *)
Fixpoint cstr (s : list Z) : list Z :=
  match s with
  | [] => []
  | b :: r => if b =? 0 then [] else b :: cstr r
  end.

(* unsigned little-endian value of a byte list *)
Fixpoint le_dec (bs : list Z) : Z :=
  match bs with
  | [] => 0
  | b :: r => b + 256 * le_dec r
  end.

Definition to_i32 (u : Z) : Z := if u <? 2147483648 then u else u - 4294967296.
Definition to_u32 (v : Z) : Z := v mod 4294967296.

Definition le32 (v : Z) : list Z :=
  let u := to_u32 v in
  [u mod 256; (u / 256) mod 256; (u / 65536) mod 256; (u / 16777216) mod 256].

Definition de32 (bs : list Z) : Z := to_i32 (le_dec bs).

Definition is_byte (b : Z) : bool := (0 <=? b) && (b <? 256).
Definition all_bytes (l : list Z) : bool := forallb is_byte l.

(* sign of the first difference over unsigned bytes, then of the lengths: memcmp on the common
   prefix followed by the length difference, as sbdf_str_cmp / sbdf_ba_memcmp do *)
Fixpoint lex_cmp (a b : list Z) : Z :=
  match a, b with
  | [], [] => 0
  | [], _ :: _ => -1
  | _ :: _, [] => 1
  | x :: a', y :: b' => if x <? y then -1 else if y <? x then 1 else lex_cmp a' b'
  end.

(* chunk a flat byte list into n pieces of sz bytes (sz > 0) *)
Fixpoint chunks (n : nat) (sz : Z) (l : list Z) : list (list Z) :=
  match n with
  | O => []
  | S n' => ztake sz l :: chunks n' sz (zdrop sz l)
  end.

(* the first n elements and the rest, or None when fewer than n remain *)
Fixpoint split_at {A} (n : nat) (s : list A) : option (list A * list A) :=
  match n with
  | O => Some ([], s)
  | S n' =>
    match s with
    | [] => None
    | b :: r => match split_at n' r with Some (a, t) => Some (b :: a, t) | None => None end
    end
  end.

(* the same with a binary counter (a count read from a hostile stream may be 2^31: it must never
   be turned into a unary number); None also for a negative count *)
Fixpoint take_z {A} (s : list A) (n : Z) : option (list A * list A) :=
  if n =? 0 then Some ([], s) else
  match s with
  | [] => None
  | b :: r => match take_z r (n - 1) with Some (a, t) => Some (b :: a, t) | None => None end
  end.

(* fseek forward by n >= 0: at or beyond the end every later read fails alike *)
Fixpoint drop_z {A} (s : list A) (n : Z) : list A :=
  if n <=? 0 then s else
  match s with
  | [] => []
  | _ :: r => drop_z r (n - 1)
  end.

Fixpoint find_first {A} (p : A -> bool) (l : list A) : option A :=
  match l with
  | [] => None
  | x :: r => if p x then Some x else find_first p r
  end.
