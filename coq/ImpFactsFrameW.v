(* ImpFactsFrameW.v - the writers of the framing layer from the source: sbdf_write_int8, sbdf_sec_write, sbdf_fh_write_cur, sbdf_vt_write (the readers are in ImpFactsFrame.v). *)
From Sbdf Require Import ImpCall Gen.Prog Gen.Consts Base Prim BaseFacts ImpBase.
From Coq Require Import ZifyBool.
Local Open Scope Z_scope.
Ltac Zify.zify_post_hook ::= Z.div_mod_to_equations.

(* the bookkeeping of a call: frames, cells, budget *)
Ltac evc := cbn [prog_env eval_args callee_init finish_call copy_in copy_out try_update update lookup combine map app String.append
                 String.eqb Ascii.eqb Bool.eqb fparams flocals fbody vars inb outb budget_var fail_var cell_token List.length Nat.eqb eval set_var
                 prog_sbdf_write_int8 prog_sbdf_sec_write
                 prog_sbdf_fh_write_cur prog_sbdf_vt_write].

Definition wr8 (fr : region) (fo v : Z) (c : val) (B : Z) (o : list Z) : state :=
  {| vars := [("f"%string, VPtr fr fo); ("v"%string, VInt v); ("c"%string, c); (budget_var, VInt B)]; inb := []; outb := o |}.

Lemma write_int8_bs env fr fo v c B o : int_min <= v <= int_max -> 0 <= B ->
  bsE env (fbody prog_sbdf_write_int8) (wr8 fr fo v c B o)
    (if 0 <? B then OReturn (VInt SBDF_OK) (wr8 fr fo v (VInt (v mod 256)) (B - 1) (o ++ [v mod 256]))
     else OReturn (VInt SBDF_ERROR_IO) (wr8 fr fo v (VInt (v mod 256)) B o)).
Proof.
  intros Hv HB. cbn [fbody prog_sbdf_write_int8]. unfold wr8.
  eapply bsE_seq; [eapply bsE_decl1; [evsf; reflexivity|evf; reflexivity]|].
  eapply bsE_seq; [eapply bsE_if; [evf; reflexivity|reflexivity|apply bsE_skip]|].
  destruct (0 <? B) eqn:EB.
  - eapply bsE_seq; [eapply bsE_if; [evsf; rewrite EB; evf; reflexivity|reflexivity|apply bsE_skip]|].
    eapply bsE_return. evsf. rewrite Z.mod_mod by lia. reflexivity.
  - eapply bsE_seq_ret. eapply bsE_if; [evsf; rewrite EB; evf; reflexivity|reflexivity|]. eapply bsE_return. evsf. reflexivity.
Qed.

Ltac decide_budget :=
  match goal with |- context [0 <? ?b] => first [replace (0 <? b) with true by lia | replace (0 <? b) with false by lia] end.

(* a call of sbdf_write_int8(f, e) from a frame: what the SCall step does to the caller *)
Ltac call_w8 Hv :=
  eapply bsE_call; [reflexivity | evc; chk7; evc; reflexivity | reflexivity
                   | eapply bsE_cast_o; [apply (write_int8_bs prog_env); [Hv|lia] | decide_budget; reflexivity ]
                   | unfold wr8; evc; reflexivity ].

Definition sw (fr : region) (fo id : Z) (e r : val) (B : Z) (o : list Z) : state :=
  {| vars := [("f"%string, VPtr fr fo); ("id"%string, VInt id); ("error"%string, e); ("$ret"%string, r); (budget_var, VInt B)]; inb := []; outb := o |}.

Lemma sec_write_bs fr fo id e r B o : int_min <= id <= int_max -> 0 <= B ->
  exists e' r', bsE prog_env (fbody prog_sbdf_sec_write) (sw fr fo id e r B o)
    (OReturn (VInt (if 3 <=? B then SBDF_OK else SBDF_ERROR_IO))
             (sw fr fo id e' r' (B - zlen (ztake B [223; 91; id mod 256])) (o ++ ztake B [223; 91; id mod 256]))).
Proof.
  intros Hid HB. cbn [fbody prog_sbdf_sec_write]. unfold sw.
  assert (C : B = 0 \/ B = 1 \/ B = 2 \/ 3 <= B) by lia.
  destruct C as [->|[->|[->|C]]].
  - do 2 eexists. eapply bsE_seq; [eapply bsE_decl0; evf; reflexivity|].
    eapply bsE_seq_ret. eapply bsE_seq; [call_w8 ltac:(small)|]. eapply bsE_cast_o; [ret_err|..].
    all: try (cbn [ztake Z.to_nat firstn]; rewrite app_nil_r; reflexivity).
  - do 2 eexists. eapply bsE_seq; [eapply bsE_decl0; evf; reflexivity|].
    eapply bsE_seq; [eapply bsE_seq; [call_w8 ltac:(small)|no_err]|].
    eapply bsE_seq_ret. eapply bsE_seq; [call_w8 ltac:(small)|]. eapply bsE_cast_o; [ret_err|..].
    all: try reflexivity.
  - do 2 eexists. eapply bsE_seq; [eapply bsE_decl0; evf; reflexivity|].
    eapply bsE_seq; [eapply bsE_seq; [call_w8 ltac:(small)|no_err]|].
    eapply bsE_seq; [eapply bsE_seq; [call_w8 ltac:(small)|no_err]|].
    eapply bsE_seq; [call_w8 ltac:(exact Hid)|]. eapply bsE_cast_o; [eapply bsE_return; evf; reflexivity|..].
    all: try (rewrite <- !app_assoc; reflexivity).
  - do 2 eexists. eapply bsE_seq; [eapply bsE_decl0; evf; reflexivity|].
    eapply bsE_seq; [eapply bsE_seq; [call_w8 ltac:(small)|no_err]|].
    eapply bsE_seq; [eapply bsE_seq; [call_w8 ltac:(small)|no_err]|].
    eapply bsE_seq; [call_w8 ltac:(exact Hid)|]. eapply bsE_cast_o; [eapply bsE_return; evf; reflexivity|..].
    all: replace (3 <=? B) with true by lia; rewrite (ztake_all [223; 91; id mod 256] B) by (cbn; lia); rewrite <- !app_assoc;
         change (zlen [223; 91; id mod 256]) with 3; replace (B - 1 - 1 - 1) with (B - 3) by lia; reflexivity.
Qed.

Definition fw (fr : region) (fo : Z) (e : val) (B : Z) (o : list Z) : state :=
  {| vars := [("f"%string, VPtr fr fo); ("error"%string, e); (budget_var, VInt B)]; inb := []; outb := o |}.

Definition hdr : list Z := [223; 91; 1; 1; 0].

Lemma fh_write_cur_bs fr fo e B o : 0 <= B ->
  exists e', bsE prog_env (fbody prog_sbdf_fh_write_cur) (fw fr fo e B o)
    (OReturn (VInt (if 5 <=? B then SBDF_OK else SBDF_ERROR_IO)) (fw fr fo e' (B - zlen (ztake B hdr)) (o ++ ztake B hdr))).
Proof.
  intros HB. cbn [fbody prog_sbdf_fh_write_cur]. unfold fw, hdr.
  destruct (sec_write_bs fr fo 1 VUndef VUndef B o ltac:(small) HB) as (e1 & r1 & S).
  change (1 mod 256) with 1 in S.
  assert (C : B < 3 \/ B = 3 \/ B = 4 \/ 5 <= B) by lia.
  destruct C as [C|[->|[->|C]]].
  - replace (3 <=? B) with false in S by lia.
    eexists. eapply bsE_seq; [eapply bsE_decl0; evf; reflexivity|].
    eapply bsE_seq_ret. eapply bsE_seq; [eapply bsE_call; [reflexivity|evc; chk7; evc; reflexivity|reflexivity|exact S|unfold sw; evc; reflexivity]|].
    eapply bsE_cast_o; [ret_err|..].
    all: replace (5 <=? B) with false by lia; assert (T : ztake B [223; 91; 1; 1; 0] = ztake B [223; 91; 1])
           by (assert (B = 0 \/ B = 1 \/ B = 2) as [->|[->| ->]] by lia; reflexivity); rewrite T; reflexivity.
  - change (3 <=? 3) with true in S. change (ztake 3 [223; 91; 1]) with [223; 91; 1] in S. change (3 - zlen [223; 91; 1]) with 0 in S.
    eexists. eapply bsE_seq; [eapply bsE_decl0; evf; reflexivity|].
    eapply bsE_seq; [eapply bsE_seq; [eapply bsE_call; [reflexivity|evc; chk7; evc; reflexivity|reflexivity|exact S|unfold sw; evc; reflexivity]|no_err]|].
    eapply bsE_seq_ret. eapply bsE_seq; [call_w8 ltac:(small)|]. eapply bsE_cast_o; [ret_err|..].
    all: cbn; rewrite ?app_nil_r; reflexivity.
  - change (3 <=? 4) with true in S. change (ztake 4 [223; 91; 1]) with [223; 91; 1] in S. change (4 - zlen [223; 91; 1]) with 1 in S.
    eexists. eapply bsE_seq; [eapply bsE_decl0; evf; reflexivity|].
    eapply bsE_seq; [eapply bsE_seq; [eapply bsE_call; [reflexivity|evc; chk7; evc; reflexivity|reflexivity|exact S|unfold sw; evc; reflexivity]|no_err]|].
    eapply bsE_seq; [eapply bsE_seq; [call_w8 ltac:(small)|no_err]|].
    eapply bsE_seq_ret. eapply bsE_seq; [call_w8 ltac:(small)|]. eapply bsE_cast_o; [ret_err|..].
    all: cbn; rewrite <- ?app_assoc; reflexivity.
  - replace (3 <=? B) with true in S by lia. rewrite (ztake_all [223; 91; 1] B) in S by (cbn; lia). change (zlen [223; 91; 1]) with 3 in S.
    eexists. eapply bsE_seq; [eapply bsE_decl0; evf; reflexivity|].
    eapply bsE_seq; [eapply bsE_seq; [eapply bsE_call; [reflexivity|evc; chk7; evc; reflexivity|reflexivity|exact S|unfold sw; evc; reflexivity]|no_err]|].
    eapply bsE_seq; [eapply bsE_seq; [call_w8 ltac:(small)|no_err]|].
    eapply bsE_seq; [eapply bsE_seq; [call_w8 ltac:(small)|no_err]|].
    eapply bsE_cast_o; [eapply bsE_return; evsf; reflexivity|..].
    all: replace (5 <=? B) with true by lia; rewrite (ztake_all [223; 91; 1; 1; 0] B) by (cbn; lia); change (zlen [223; 91; 1; 1; 0]) with 5;
         rewrite <- !app_assoc; replace (B - 3 - 1 - 1) with (B - 5) by lia; reflexivity.
Qed.

Definition vw (fr : region) (fo id : Z) (e : val) (B : Z) (o : list Z) : state :=
  {| vars := [("f"%string, VPtr fr fo); ("v"%string, VInt id); ("err"%string, e); (budget_var, VInt B)]; inb := []; outb := o |}.

Lemma vt_write_bs fr fo id e B o : int_min <= id <= int_max -> 0 <= B ->
  exists e', bsE prog_env (fbody prog_sbdf_vt_write) (vw fr fo id e B o)
    (OReturn (VInt (if 1 <=? B then SBDF_OK else SBDF_ERROR_IO)) (vw fr fo id e' (B - zlen (ztake B [id mod 256])) (o ++ ztake B [id mod 256]))).
Proof.
  intros Hid HB. cbn [fbody prog_sbdf_vt_write]. unfold vw.
  assert (C : B = 0 \/ 1 <= B) by lia. destruct C as [->|C].
  - eexists. eapply bsE_seq; [eapply bsE_decl0; evf; reflexivity|].
    eapply bsE_seq_ret. eapply bsE_seq; [call_w8 ltac:(exact Hid)|]. eapply bsE_cast_o; [ret_err|..].
    all: cbn; rewrite ?app_nil_r; reflexivity.
  - eexists. eapply bsE_seq; [eapply bsE_decl0; evf; reflexivity|].
    eapply bsE_seq; [eapply bsE_seq; [call_w8 ltac:(exact Hid)|no_err]|].
    eapply bsE_cast_o; [eapply bsE_return; evsf; reflexivity|..].
    all: replace (1 <=? B) with true by lia; rewrite (ztake_all [id mod 256] B) by (cbn; lia); reflexivity.
Qed.

(* writers: under every budget the bytes accepted are the first `budget` bytes of the encoding, OK iff all were *)
Theorem sec_write_source id B : int_min <= id <= int_max -> 0 <= B ->
  exists f0, forall f, (f0 <= f)%nat -> exists fin,
    callE prog_env f prog_sbdf_sec_write [tok; VInt id] [] B = OReturn (VInt (if 3 <=? B then SBDF_OK else SBDF_ERROR_IO)) fin /\
    outb fin = ztake B [223; 91; id mod 256].
Proof.
  intros Hid HB. destruct (sec_write_bs ROut 0 id VUndef VUndef B [] Hid HB) as (e' & r' & Bs).
  destruct (bsE_sound _ _ _ _ Bs) as (f0 & F). exists f0. intros f Hf. eexists. split; [apply F; exact Hf|]. reflexivity.
Qed.

Theorem fh_write_cur_source B : 0 <= B ->
  exists f0, forall f, (f0 <= f)%nat -> exists fin,
    callE prog_env f prog_sbdf_fh_write_cur [tok] [] B = OReturn (VInt (if 5 <=? B then SBDF_OK else SBDF_ERROR_IO)) fin /\
    outb fin = ztake B hdr.
Proof.
  intros HB. destruct (fh_write_cur_bs ROut 0 VUndef B [] HB) as (e' & Bs).
  destruct (bsE_sound _ _ _ _ Bs) as (f0 & F). exists f0. intros f Hf. eexists. split; [apply F; exact Hf|]. reflexivity.
Qed.

Theorem vt_write_source id B : int_min <= id <= int_max -> 0 <= B ->
  exists f0, forall f, (f0 <= f)%nat -> exists fin,
    callE prog_env f prog_sbdf_vt_write [tok; VInt id] [] B = OReturn (VInt (if 1 <=? B then SBDF_OK else SBDF_ERROR_IO)) fin /\
    outb fin = ztake B [id mod 256].
Proof.
  intros Hid HB. destruct (vt_write_bs ROut 0 id VUndef B [] Hid HB) as (e' & Bs).
  destruct (bsE_sound _ _ _ _ Bs) as (f0 & F). exists f0. intros f Hf. eexists. split; [apply F; exact Hf|]. reflexivity.
Qed.
