(* Passive.v — generic theorems over whole-program facts (C20, C18):
   (1) in the trace semantics induced by a call graph, every event of every execution from any
       entry point, at any call depth and with recursion, is a call to a function that is not
       defined in the program (an "external");
   (2) threads that only read a shared component and update private components obtain, under
       every interleaving, the result of their own sequential run. *)
From Coq Require Import List String Bool Arith Lia.
Import ListNotations.

Section CallGraph.
Variable callees : string -> list string.     (* direct callees and functions whose address is passed on *)
Variable defined : string -> bool.

(* an execution of f is a sequence of calls to its callees (any subset, order, multiplicity):
   a call to a function that is not defined in the program is an event; a call to a defined
   function contributes that function's own execution, to any depth, recursion included *)
Inductive exec : string -> list string -> Prop :=
| exec_done f : defined f = true -> exec f []
| exec_external f g tr :
    In g (callees f) -> defined g = false -> exec f tr -> exec f (g :: tr)
| exec_internal f g tr1 tr2 :
    In g (callees f) -> exec g tr1 -> exec f tr2 -> exec f (tr1 ++ tr2).

Definition is_external (universe : list string) (e : string) : Prop :=
  defined e = false /\ In e universe.

Variable functions : list string.
Hypothesis defined_listed : forall f, defined f = true -> In f functions.

Definition all_callees : list string := flat_map callees functions.

Lemma exec_defined : forall f tr, exec f tr -> defined f = true.
Proof. intros f tr H. induction H; assumption. Qed.

Theorem events_are_externals : forall f tr, exec f tr -> Forall (is_external all_callees) tr.
Proof.
  intros f tr H. induction H as [f Hd | f g tr Hin Hg Hex IH | f g tr1 tr2 Hin H1 IH1 H2 IH2].
  - constructor.
  - constructor; [|exact IH]. split; [exact Hg|].
    unfold all_callees. apply in_flat_map. exists f. split; [|exact Hin].
    apply defined_listed. eapply exec_defined; eassumption.
  - apply Forall_app. split; assumption.
Qed.
End CallGraph.

Section Interleaving.
Variables (Sh Pr : Type).
Variable step : Sh -> Pr -> Pr.           (* one step of a thread: reads the shared part, updates its own *)

Definition upd (st : nat -> Pr) (i : nat) (v : Pr) : nat -> Pr := fun j => if Nat.eqb j i then v else st j.

Definition run_sched (sh : Sh) (sched : list nat) (st : nat -> Pr) : nat -> Pr :=
  fold_left (fun st i => upd st i (step sh (st i))) sched st.

Fixpoint iter {A} (n : nat) (f : A -> A) (x : A) : A := match n with O => x | S n' => f (iter n' f x) end.

Lemma iter_shift {A} (f : A -> A) n x : iter n f (f x) = f (iter n f x).
Proof. induction n as [|n IH]; cbn [iter]; [reflexivity|now rewrite IH]. Qed.

Theorem schedule_independent : forall sh sched st i,
  run_sched sh sched st i = iter (count_occ Nat.eq_dec sched i) (step sh) (st i).
Proof.
  intros sh sched. unfold run_sched. induction sched as [|j sched IH]; intros st i; cbn [fold_left count_occ].
  - reflexivity.
  - rewrite IH. unfold upd at 1. destruct (Nat.eq_dec j i) as [->|Ne].
    + rewrite Nat.eqb_refl. cbn [iter]. apply iter_shift.
    + destruct (Nat.eqb i j) eqn:E; [apply Nat.eqb_eq in E; congruence|reflexivity].
Qed.

(* two schedules in which thread i takes the same number of steps give it the same result *)
Corollary same_result_under_every_interleaving : forall sh s1 s2 st i,
  count_occ Nat.eq_dec s1 i = count_occ Nat.eq_dec s2 i -> run_sched sh s1 st i = run_sched sh s2 st i.
Proof. intros. rewrite !schedule_independent. congruence. Qed.
End Interleaving.
