(* ImpFactsDestroy.v - sbdf_obj_destroy (src/object.c) and sbdf_va_destroy (src/valuearray.c) from the source. *)
From Sbdf Require Import ImpCall Gen.Prog Gen.Consts Base BaseFacts ImpBase ImpFactsCells.
From Coq Require Import ZifyBool.
Local Open Scope Z_scope.
Ltac Zify.zify_post_hook ::= Z.div_mod_to_equations.

Ltac evcc := cbn [prog_env eval_args callee_init finish_call copy_in copy_out try_update update lookup combine map app String.append
                 String.eqb Ascii.eqb Bool.eqb fparams flocals fbody vars inb outb budget_var fail_var strm_var cells_var cell_token List.length Nat.eqb eval set_var cast
                 prog_sbdf_obj_destroy prog_sbdf_dispose_array prog_sbdf_va_destroy truth binop_int b2z negb heap_of as_ptr storable].

(* ================================================================== sbdf_obj_destroy *)
(* an object in the two heaps: header block ob; for string / binary types the data block db holds one
   pointer per element into the byte memory (each at least 4 bytes in: the length header sits in
   front); for the other types the data pointer points into the byte memory *)
Definition elem_ptrs (m : list Z) (cells : list val) : Prop :=
  Forall (fun c => exists p, c = VPtr RIn p /\ 4 <= p <= zlen m) cells.

Section Destroy.
Variables (bv : val) (k : Z) (sx : list Z) (m o : list Z).

Lemma dispose_array_bs2 h p : 4 <= p <= zlen m ->
  bsE prog_env (fbody prog_sbdf_dispose_array) (fr [("array"%string, VPtr RIn p)] bv k sx h m o) (ONormal (fr [("array"%string, VPtr RIn p)] bv k sx h m o)).
Proof.
  intros Hp. cbn [fbody prog_sbdf_dispose_array]. unfold fr.
  eapply bsE_if; [evc; reflexivity|reflexivity|]. eapply bsE_expr. evc. chk7. evc. chk7. evc. unfold ptr_add. cbn [inb]. rewrite zlen_length.
  replace ((0 <=? p + -4 * 1) && (p + -4 * 1 <=? zlen m)) with true by lia. cbn [inb]. rewrite zlen_length.
  replace ((0 <=? p + -4 * 1) && (p + -4 * 1 <=? zlen m)) with true by lia. reflexivity.
Qed.

(* the element loop: i counts down from count-1, ptr walks up the data block; every element is handed to sbdf_dispose_array once *)
Lemma obj_destroy_loop h ob db cells : nth_error h db = Some (Some cells) -> elem_ptrs m cells ->
  forall rest done, cells = done ++ rest -> zlen cells <= int_max ->
  bsE prog_env
    (SWhile (EBin Ge (EVar "i") (EConst (0)))
       (SSeq (SIf (ECellLoad (EVar "ptr") (EConst 0) true) (SCall None "sbdf_dispose_array" [(AVal (ECellLoad (ECellStep "ptr" (1) true) (EConst 0) true))]) SSkip)
             (SExpr (EPreDec "i"))))
    (fr [("object"%string, VCell ob 0); ("i"%string, VInt (zlen rest - 1)); ("ptr"%string, VCell db (zlen done))] bv k sx h m o)
    (ONormal (fr [("object"%string, VCell ob 0); ("i"%string, VInt (-1)); ("ptr"%string, VCell db (zlen cells))] bv k sx h m o)).
Proof.
  intros Hdb Hel. induction rest as [|c rest IH]; intros done Hc Hmax; unfold fr.
  - rewrite app_nil_r in Hc. subst done. change (zlen (@nil val) - 1) with (-1).
    eapply bsE_while_f; [evc; chk7; evc; reflexivity|reflexivity].
  - assert (Hin : In c cells) by (rewrite Hc; apply in_or_app; right; left; reflexivity).
    unfold elem_ptrs in Hel. rewrite Forall_forall in Hel. destruct (Hel c Hin) as (p & -> & Hp).
    pose proof (zlen_nonneg rest) as Pr. pose proof (zlen_nonneg done) as Pd.
    assert (Hz : zlen (VPtr RIn p :: rest) = 1 + zlen rest) by (unfold zlen; cbn [List.length]; lia). rewrite Hz.
    assert (Hzc : zlen cells = zlen done + 1 + zlen rest) by (rewrite Hc, zlen_app, Hz; lia).
    assert (Hnth : nth_error cells (Z.to_nat (zlen done)) = Some (VPtr RIn p)).
    { rewrite Hc. replace (Z.to_nat (zlen done)) with (List.length done) by (unfold zlen; lia). rewrite nth_error_app2 by lia. rewrite Nat.sub_diag. reflexivity. }
    unfold int_max in Hmax.
    eapply bsE_while_t; [evc; chk7; evc; replace (1 + zlen rest - 1 >=? 0) with true by lia; reflexivity|reflexivity| |].
    + eapply bsE_seq.
      * eapply bsE_if; [evc; chk7; evc; unfold cell_get; rewrite Hdb; replace (0 <=? zlen done + 0) with true by lia; replace (zlen done + 0) with (zlen done) by lia; rewrite Hnth; evc; reflexivity|reflexivity|].
        eapply bsE_call_void; [reflexivity
          |evcc; rewrite Hdb; rewrite zlen_length; replace ((0 <=? zlen done + 1) && (zlen done + 1 <=? zlen cells)) with true by lia; evcc; chk7; evcc;
           unfold cell_get; rewrite Hdb; replace (0 <=? zlen done + 0) with true by lia; replace (zlen done + 0) with (zlen done) by lia; rewrite Hnth; evcc; reflexivity
          |reflexivity|apply (dispose_array_bs2 h p Hp)|unfold fr; evcc; reflexivity].
      * eapply bsE_expr. evc. unfold decr. chk7. evc. reflexivity.
    + replace (1 + zlen rest - 1 - 1) with (zlen rest - 1) by lia.
      replace (zlen done + 1) with (zlen (done ++ [VPtr RIn p])) by (rewrite zlen_app; reflexivity).
      apply IH; [rewrite <- app_assoc; exact Hc|exact Hmax].
Qed.


(* string / binary objects: every element, the pointer array and the header are released, each once *)
Lemma obj_destroy_arr_bs h ob db ty cells data i0 p0 : obj_block h ob ty (zlen cells) data -> as_ptr data = VCell db 0 -> ob <> db ->
  Leaf.gen_sbdf_ti_is_arr ty <> 0 -> nth_error h db = Some (Some cells) -> elem_ptrs m cells -> zlen cells <= int_max ->
  exists iv pv, bsE prog_env (fbody prog_sbdf_obj_destroy) (fr [("object"%string, VCell ob 0); ("i"%string, i0); ("ptr"%string, p0)] bv k sx h m o)
    (ONormal (fr [("object"%string, VCell ob 0); ("i"%string, iv); ("ptr"%string, pv)] bv k sx (kill ob (kill db h)) m o)).
Proof.
  intros Hob Hd Hne Harr Hdb Hel Hmax. unfold obj_block in Hob. cbn [fbody prog_sbdf_obj_destroy]. unfold fr.
  pose proof (obj_destroy_loop h ob db cells Hdb Hel cells [] eq_refl Hmax) as LOOP. change (zlen (@nil val)) with 0 in LOOP. unfold fr in LOOP. cbn [app] in LOOP.
  destruct (set_nth_v_some h db (Some cells) None Hdb) as (h1 & E1).
  assert (Hob1 : nth_error h1 ob = Some (Some [VInt ty; VInt (zlen cells); data])) by (rewrite (set_nth_v_other h db ob None h1 E1) by congruence; exact Hob).
  destruct (set_nth_v_some h1 ob _ (Some [VInt ty; VInt (zlen cells); VNull]) Hob1) as (h2 & E2).
  assert (Hob2 : nth_error h2 ob = Some (Some [VInt ty; VInt (zlen cells); VNull])) by (apply (set_nth_v_same h1 ob _ h2 E2)).
  destruct (set_nth_v_some h2 ob _ None Hob2) as (h3 & E3).
  assert (Hfin : kill ob (kill db h) = h3).
  { unfold kill. rewrite E1. rewrite <- (set_nth_v_twice h1 ob (Some [VInt ty; VInt (zlen cells); VNull]) None h2 E2). rewrite E3. reflexivity. }
  rewrite Hfin. unfold int_max in Hmax. pose proof (zlen_nonneg cells) as Pc.
  exists (VInt (-1)), (VCell db (zlen cells)).
  eapply bsE_if; [evc; reflexivity|reflexivity|].
  eapply bsE_seq.
  - eapply bsE_if; [evc; chk7; evc; cellrw Hob; evc; rewrite Hd; reflexivity|reflexivity|].
    eapply bsE_seq.
    + eapply bsE_if; [evc; chk7; evc; cellrw Hob; evc; unfold leaf_call; cbn [String.eqb Ascii.eqb Bool.eqb]; reflexivity
                     |cbn [truth]; destruct (Leaf.gen_sbdf_ti_is_arr ty =? 0) eqn:Z0; [lia|reflexivity]|].
      eapply bsE_seq; [eapply bsE_decl1; [evc; chk7; evc; cellrw Hob; evc; rewrite Hd; reflexivity|evc; reflexivity]|].
      eapply bsE_seq; [eapply bsE_decl0; evc; reflexivity|].
      eapply bsE_seq; [eapply bsE_expr; evc; chk7; evc; cellrw Hob; evc; chk7; evc; reflexivity|].
      exact LOOP.
    + eapply bsE_seq.
      * eapply bsE_expr. evc. chk7. evc. cellrw Hob. evc. rewrite Hd. evc. rewrite Hdb. evc. rewrite E1. evc. reflexivity.
      * eapply bsE_expr. evc. chk7. evc. cellrw Hob1. rewrite E2. evc. reflexivity.
  - eapply bsE_expr. evc. rewrite Hob2. evc. rewrite E3. evc. reflexivity.
Qed.

(* the other types: the data block lives in the byte memory; the header is released *)
Lemma obj_destroy_fixed_bs h ob ty cnt data dp i0 p0 : obj_block h ob ty cnt data -> data = VPtr RIn dp -> 0 <= dp <= zlen m ->
  Leaf.gen_sbdf_ti_is_arr ty = 0 ->
  bsE prog_env (fbody prog_sbdf_obj_destroy) (fr [("object"%string, VCell ob 0); ("i"%string, i0); ("ptr"%string, p0)] bv k sx h m o)
    (ONormal (fr [("object"%string, VCell ob 0); ("i"%string, i0); ("ptr"%string, p0)] bv k sx (kill ob h) m o)).
Proof.
  intros Hob -> Hdp Harr. unfold obj_block in Hob. cbn [fbody prog_sbdf_obj_destroy]. unfold fr.
  destruct (set_nth_v_some h ob _ (Some [VInt ty; VInt cnt; VNull]) Hob) as (h2 & E2).
  assert (Hob2 : nth_error h2 ob = Some (Some [VInt ty; VInt cnt; VNull])) by (apply (set_nth_v_same h ob _ h2 E2)).
  destruct (set_nth_v_some h2 ob _ None Hob2) as (h3 & E3).
  assert (Hfin : kill ob h = h3) by (unfold kill; rewrite <- (set_nth_v_twice h ob (Some [VInt ty; VInt cnt; VNull]) None h2 E2); rewrite E3; reflexivity).
  rewrite Hfin.
  eapply bsE_if; [evc; reflexivity|reflexivity|].
  eapply bsE_seq.
  - eapply bsE_if; [evc; chk7; evc; cellrw Hob; evc; reflexivity|reflexivity|].
    eapply bsE_seq.
    + eapply bsE_if; [evc; chk7; evc; cellrw Hob; evc; unfold leaf_call; cbn [String.eqb Ascii.eqb Bool.eqb]; reflexivity
                     |cbn [truth]; rewrite Harr; reflexivity|apply bsE_skip].
    + eapply bsE_seq.
      * eapply bsE_expr. evc. chk7. evc. cellrw Hob. evc. cbn [inb]. rewrite zlen_length. replace ((0 <=? dp) && (dp <=? zlen m)) with true by lia. reflexivity.
      * eapply bsE_expr. evc. chk7. evc. cellrw Hob. rewrite E2. evc. reflexivity.
  - eapply bsE_expr. evc. rewrite Hob2. evc. rewrite E3. evc. reflexivity.
Qed.

End Destroy.

(* what one sbdf_obj_destroy does to the cell heap *)
Definition destroys (m : list Z) (h : heap) (ob : nat) (h' : heap) : Prop :=
  (exists db ty cells data, obj_block h ob ty (zlen cells) data /\ as_ptr data = VCell db 0 /\ ob <> db /\ Leaf.gen_sbdf_ti_is_arr ty <> 0 /\
      nth_error h db = Some (Some cells) /\ elem_ptrs m cells /\ zlen cells <= int_max /\ h' = kill ob (kill db h)) \/
  (exists ty cnt dp, obj_block h ob ty cnt (VPtr RIn dp) /\ 0 <= dp <= zlen m /\ Leaf.gen_sbdf_ti_is_arr ty = 0 /\ h' = kill ob h).

Lemma obj_destroy_bs bv k sx m o h ob h' : destroys m h ob h' ->
  exists iv pv, bsE prog_env (fbody prog_sbdf_obj_destroy) (fr [("object"%string, VCell ob 0); ("i"%string, VUndef); ("ptr"%string, VUndef)] bv k sx h m o)
    (ONormal (fr [("object"%string, VCell ob 0); ("i"%string, iv); ("ptr"%string, pv)] bv k sx h' m o)).
Proof.
  intros [(db & ty & cells & data & H1 & H2 & H3 & H4 & H5 & H6 & H7 & ->)|(ty & cnt & dp & H1 & H2 & H3 & ->)].
  - apply (obj_destroy_arr_bs bv k sx m o h ob db ty cells data VUndef VUndef H1 H2 H3 H4 H5 H6 H7).
  - exists VUndef, VUndef. apply (obj_destroy_fixed_bs bv k sx m o h ob ty cnt (VPtr RIn dp) dp VUndef VUndef H1 eq_refl H2 H3).
Qed.

Theorem obj_destroy_source k sx m h ob h' : destroys m h ob h' ->
  exists f0, forall f, (f0 <= f)%nat -> exists fin,
    callC prog_env f prog_sbdf_obj_destroy [VCell ob 0] m k sx h = ONormal fin /\ inb fin = m /\ lookup cells_var (vars fin) = Some (VHeap h').
Proof.
  intros D. destruct (obj_destroy_bs (VInt 0) k sx m [] h ob h' D) as (iv & pv & B).
  destruct (bsE_sound _ _ _ _ B) as (f0 & F). exists f0. intros f Hf. eexists. split; [apply F; exact Hf|]. split; reflexivity.
Qed.

(* after the call the header is a released block: a second sbdf_obj_destroy (or any access) faults in this semantics *)
Lemma destroys_released m h ob h' : destroys m h ob h' -> nth_error h' ob = Some None.
Proof.
  intros [(db & ty & cells & data & H1 & H2 & H3 & H4 & H5 & H6 & H7 & ->)|(ty & cnt & dp & H1 & H2 & H3 & ->)]; unfold obj_block in H1.
  - apply (kill_same ob (kill db h) (Some [VInt ty; VInt (zlen cells); data])). rewrite kill_other by congruence. exact H1.
  - apply (kill_same ob h _ H1).
Qed.

(* ================================================================== sbdf_va_destroy *)
(* one optional sub-object: absent (null) - nothing happens; present - sbdf_obj_destroy's effect *)
Definition destroys_opt (m : list Z) (h : heap) (ov : val) (h' : heap) : Prop :=
  (as_ptr ov = VNull /\ h' = h) \/ (exists ob, as_ptr ov = VCell ob 0 /\ destroys m h ob h').

Lemma va_destroy_bs bv k sx m o h vb ty enc v1 o1 o2 h1 h2 :
  va_block h vb ty enc v1 o1 o2 -> destroys_opt m h o1 h1 -> destroys_opt m h1 o2 h2 ->
  nth_error h1 vb = nth_error h vb -> nth_error h2 vb = nth_error h vb ->
  bsE prog_env (fbody prog_sbdf_va_destroy) (fr [("handle"%string, VCell vb 0)] bv k sx h m o)
    (ONormal (fr [("handle"%string, VCell vb 0)] bv k sx (kill vb h2) m o)).
Proof.
  intros Hv D1 D2 K1 K2. unfold va_block in Hv. cbn [fbody prog_sbdf_va_destroy]. unfold fr.
  assert (Hv1 : nth_error h1 vb = Some (Some [VInt ty; VInt enc; VInt v1; o1; o2])) by (rewrite K1; exact Hv).
  assert (Hv2 : nth_error h2 vb = Some (Some [VInt ty; VInt enc; VInt v1; o1; o2])) by (rewrite K2; exact Hv).
  destruct (set_nth_v_some h2 vb _ None Hv2) as (h3 & E3).
  assert (Hfin : kill vb h2 = h3) by (unfold kill; rewrite E3; reflexivity). rewrite Hfin.
  eapply bsE_if; [evc; reflexivity|reflexivity|].
  eapply bsE_seq.
  { destruct D1 as [(N1 & ->)|(ob1 & P1 & D1)].
    - eapply bsE_if; [evc; chk7; evc; cellrw Hv; evc; rewrite N1; reflexivity|reflexivity|apply bsE_skip].
    - destruct (obj_destroy_bs bv k sx m o h ob1 h1 D1) as (iv & pv & B). unfold fr in B. cbn [app] in B.
      eapply bsE_if; [evc; chk7; evc; cellrw Hv; evc; rewrite P1; reflexivity|reflexivity|].
      eapply bsE_call_void; [reflexivity|evcc; chk7; evcc; cellrw Hv; evcc; rewrite P1; reflexivity|reflexivity|evcc; exact B|evcc; reflexivity]. }
  eapply bsE_seq.
  { destruct D2 as [(N2 & ->)|(ob2 & P2 & D2)].
    - eapply bsE_if; [evc; chk7; evc; cellrw Hv1; evc; rewrite N2; reflexivity|reflexivity|apply bsE_skip].
    - destruct (obj_destroy_bs bv k sx m o h1 ob2 h2 D2) as (iv & pv & B). unfold fr in B. cbn [app] in B.
      eapply bsE_if; [evc; chk7; evc; cellrw Hv1; evc; rewrite P2; reflexivity|reflexivity|].
      eapply bsE_call_void; [reflexivity|evcc; chk7; evcc; cellrw Hv1; evcc; rewrite P2; reflexivity|reflexivity|evcc; exact B|evcc; reflexivity]. }
  eapply bsE_expr. evc. rewrite Hv2. evc. rewrite E3. evc. reflexivity.
Qed.

Theorem va_destroy_source k sx m h vb ty enc v1 o1 o2 h1 h2 :
  va_block h vb ty enc v1 o1 o2 -> destroys_opt m h o1 h1 -> destroys_opt m h1 o2 h2 ->
  nth_error h1 vb = nth_error h vb -> nth_error h2 vb = nth_error h vb ->
  exists f0, forall f, (f0 <= f)%nat -> exists fin,
    callC prog_env f prog_sbdf_va_destroy [VCell vb 0] m k sx h = ONormal fin /\ inb fin = m /\ lookup cells_var (vars fin) = Some (VHeap (kill vb h2)).
Proof.
  intros Hv D1 D2 K1 K2. destruct (bsE_sound _ _ _ _ (va_destroy_bs (VInt 0) k sx m [] h vb ty enc v1 o1 o2 h1 h2 Hv D1 D2 K1 K2)) as (f0 & F).
  exists f0. intros f Hf. eexists. split; [apply F; exact Hf|]. split; reflexivity.
Qed.

