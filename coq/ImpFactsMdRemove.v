(* ImpFactsMdRemove.v - sbdf_md_remove of src/metadata.c from the source: the first entry of that name is
   unlinked (the predecessor's next cell, or the head's first cell, takes over its successor), its value and
   default are destroyed, its block is released; nothing else is written.  A frozen collection is refused;
   an absent name changes nothing. *)
From Sbdf Require Import ImpCall Gen.Prog Gen.Consts Base BaseFacts ImpBase ImpFactsCells ImpFactsStrDestroy ImpFactsDestroy.
From Coq Require Import ZifyBool.
Local Open Scope Z_scope.
Ltac Zify.zify_post_hook ::= Z.div_mod_to_equations.

Ltac evm := cbn [prog_env eval_args callee_init finish_call copy_in copy_out try_update update lookup combine map app String.append
                 String.eqb Ascii.eqb Bool.eqb fparams flocals fbody vars inb outb budget_var fail_var strm_var cells_var cell_token List.length Nat.eqb eval set_var cast
                 prog_sbdf_md_remove prog_sbdf_obj_destroy prog_sbdf_str_destroy truth binop_int b2z negb heap_of as_ptr storable fst snd];
  change (0 =? 0) with true; change (1 =? 0) with false; cbn [negb b2z].

Ltac getrw H := unfold cell_get; rewrite H;
  cbn [Z.add Z.leb Z.compare Z.to_nat Pos.compare Pos.compare_cont Pos.add Pos.succ];
  change (Pos.to_nat 1) with 1%nat; change (Pos.to_nat 2) with 2%nat; change (Pos.to_nat 3) with 3%nat; cbn [nth_error].

(* an entry: block, name, name pointer, value, default, raw next cell *)
Record ent := { eb : nat; enm : list Z; enp : Z; evv : val; edv : val; enx : val }.

Fixpoint md_chain (h : heap) (m : list Z) (p : val) (es : list ent) : Prop :=
  match es with
  | [] => p = VNull
  | e :: rest => p = VCell (eb e) 0 /\ nth_error h (eb e) = Some (Some [enx e; VPtr RIn (enp e); evv e; edv e]) /\ cstr_at m (enp e) (enm e) /\ md_chain h m (as_ptr (enx e)) rest
  end.

Section Remove.
Variables (bv : val) (k : Z) (sx : list Z) (m o : list Z).

(* sbdf_obj_destroy on a pointer that may be null *)
Lemma obj_destroy_opt_bs h ov h' : destroys_opt m h ov h' ->
  exists iv pv, bsE prog_env (fbody prog_sbdf_obj_destroy) (fr [("object"%string, as_ptr ov); ("i"%string, VUndef); ("ptr"%string, VUndef)] bv k sx h m o)
    (ONormal (fr [("object"%string, as_ptr ov); ("i"%string, iv); ("ptr"%string, pv)] bv k sx h' m o)).
Proof.
  intros [(N & ->)|(ob & P & D)].
  - rewrite N. exists VUndef, VUndef. cbn [fbody prog_sbdf_obj_destroy]. unfold fr. eapply bsE_if; [evm; reflexivity|reflexivity|apply bsE_skip].
  - rewrite P. apply (obj_destroy_bs bv k sx m o h ob h' D).
Qed.


Definition loop_of (st : stmt) : stmt :=
  match st with SSeq _ (SSeq _ (SSeq _ (SSeq _ (SSeq _ (SSeq w _))))) => w | _ => SSkip end.

(* the name is there: entries in front are stepped over, the entry is unlinked, emptied and released *)
Lemma md_remove_found q name hb outv e rest h1 h2 h3 : cstr_at m q name -> enm e = name -> 4 <= enp e <= zlen m ->
  storable (as_ptr (enx e)) = true -> outv = VCell hb 0 ->
  forall done h itemptr prevv loc, ((prevv = VNull /\ loc = hb) \/ prevv = VCell loc 0) ->
  md_chain h m itemptr (done ++ e :: rest) -> Forall (fun d => enm d <> name) done ->
  cell_set h (last (map eb done) loc) 0 (as_ptr (enx e)) = Some h1 ->
  nth_error h1 (eb e) = Some (Some [enx e; VPtr RIn (enp e); evv e; edv e]) ->
  destroys_opt m h1 (evv e) h2 -> nth_error h2 (eb e) = Some (Some [enx e; VPtr RIn (enp e); evv e; edv e]) ->
  destroys_opt m h2 (edv e) h3 -> nth_error h3 (eb e) = Some (Some [enx e; VPtr RIn (enp e); evv e; edv e]) ->
  exists pv, bsE prog_env (loop_of (fbody prog_sbdf_md_remove))
    (fr [("name"%string, VPtr RIn q); ("out"%string, outv); ("item"%string, itemptr); ("prev"%string, prevv)] bv k sx h m o)
    (OReturn (VInt SBDF_OK) (fr [("name"%string, VPtr RIn q); ("out"%string, outv); ("item"%string, VCell (eb e) 0); ("prev"%string, pv)] bv k sx (kill (eb e) h3) m o)).
Proof.
  intros (Hq0 & Hq1) Hnm Hnp Hst ->. induction done as [|d done IH]; intros h itemptr prevv loc Hprev Hch Hno Hset Hb1 D1 Hb2 D2 Hb3.
  - cbn [app md_chain] in Hch. destruct Hch as (-> & Hb & (Hs0 & Hs1) & _). cbn [map last] in Hset.
    destruct (obj_destroy_opt_bs h1 (evv e) h2 D1) as (iv1 & pv1 & O1). destruct (obj_destroy_opt_bs h2 (edv e) h3 D2) as (iv2 & pv2 & O2).
    pose proof (str_destroy_fr bv k sx m o h3 (enp e) Hnp) as SD. unfold fr in O1, O2, SD. cbn [app] in O1, O2, SD.
    destruct (set_nth_v_some h3 (eb e) _ None Hb3) as (h4 & E4).
    assert (Hfin : kill (eb e) h3 = h4) by (unfold kill; rewrite E4; reflexivity). rewrite Hfin.
    destruct Hprev as [(-> & ->)| ->].
    all: eexists; cbn [loop_of fbody prog_sbdf_md_remove]; unfold fr;
      (eapply bsE_while_ret; [evm; reflexivity|reflexivity|]);
      eapply bsE_seq_ret;
      (eapply bsE_if; [evm; chk7; evm; cellrw Hb; evm; cbn [inb]; rewrite zlen_length;
                        replace ((0 <=? q) && (q <=? zlen m) && (0 <=? enp e) && (enp e <=? zlen m)) with true by lia; rewrite Hq1, Hs1; reflexivity
                      |cbn [truth]; rewrite Hnm; replace (lexcmp_l name name) with 0 by (symmetry; now apply lexcmp_l_eq); reflexivity|]);
      cbn [negb];
      (eapply bsE_seq; [eapply bsE_if; [evm; reflexivity|reflexivity|]; eapply bsE_expr; evm; chk7; evm; chk7; evm; getrw Hb; evm; rewrite Hst; evm;
                        replace (0 + 0) with 0 by lia; rewrite Hset; evm; reflexivity|]);
      (eapply bsE_seq; [eapply bsE_call_void; [reflexivity|evm; chk7; evm; cellrw Hb1; evm; reflexivity|reflexivity|evm; exact O1|evm; reflexivity]|]);
      (eapply bsE_seq; [eapply bsE_call_void; [reflexivity|evm; chk7; evm; cellrw Hb2; evm; reflexivity|reflexivity|evm; exact O2|evm; reflexivity]|]);
      (eapply bsE_seq; [eapply bsE_call_void; [reflexivity|evm; chk7; evm; cellrw Hb3; evm; reflexivity|reflexivity|evm; exact SD|evm; reflexivity]|]);
      (eapply bsE_seq; [eapply bsE_expr; evm; rewrite Hb3; evm; rewrite E4; evm; reflexivity|]);
      eapply bsE_return; evm; chk7; reflexivity.
  - cbn [app md_chain] in Hch. destruct Hch as (-> & Hb & (Hs0 & Hs1) & Hrest).
    inversion Hno as [|? ? Hd Hno']. subst.
    assert (Hlast : last (map eb (d :: done)) loc = last (map eb done) (eb d)).
    { clear. cbn [map]. generalize (map eb done). intros l. revert loc. induction l as [|x l IH]; intros loc; [reflexivity|]. cbn [last]. destruct l; [reflexivity|]. apply (IH loc). }
    rewrite Hlast in Hset.
    destruct (IH h (as_ptr (enx d)) (VCell (eb d) 0) (eb d) (or_intror eq_refl) Hrest Hno' Hset Hb1 D1 Hb2 D2 Hb3) as (pv & B).
    exists pv. cbn [loop_of fbody prog_sbdf_md_remove] in *. unfold fr in *. cbn [app] in B.
    assert (Hne : lexcmp_l (enm e) (enm d) <> 0). { intros C. apply lexcmp_l_eq in C. congruence. }
    eapply bsE_while_t; [evm; reflexivity|reflexivity| |exact B].
    eapply bsE_seq.
    + eapply bsE_if.
      { evm. chk7. evm. cellrw Hb. evm. cbn [inb]. rewrite zlen_length.
        replace ((0 <=? q) && (q <=? zlen m) && (0 <=? enp d) && (enp d <=? zlen m)) with true by lia. rewrite Hq1, Hs1. reflexivity. }
      { cbn [truth]. destruct (lexcmp_l (enm e) (enm d) =? 0) eqn:Z0; [lia|reflexivity]. }
      apply bsE_skip.
    + eapply bsE_seq; [eapply bsE_expr; evm; reflexivity|]. eapply bsE_expr. evm. chk7. evm. cellrw Hb. evm. reflexivity.
Qed.


(* the name is not there: the list is walked to its end, nothing is written *)
Lemma md_remove_absent q name outv : cstr_at m q name ->
  forall es h itemptr prevv, md_chain h m itemptr es -> Forall (fun d => enm d <> name) es -> prevv <> VUndef -> (forall hh, prevv <> VHeap hh) -> (forall l, prevv <> VBytes l) ->
  exists pv, bsE prog_env (loop_of (fbody prog_sbdf_md_remove))
    (fr [("name"%string, VPtr RIn q); ("out"%string, outv); ("item"%string, itemptr); ("prev"%string, prevv)] bv k sx h m o)
    (ONormal (fr [("name"%string, VPtr RIn q); ("out"%string, outv); ("item"%string, VNull); ("prev"%string, pv)] bv k sx h m o)).
Proof.
  intros (Hq0 & Hq1). induction es as [|d es IH]; intros h itemptr prevv Hch Hno Hp1 Hp2 Hp3.
  - cbn [md_chain] in Hch. subst itemptr. exists prevv. cbn [loop_of fbody prog_sbdf_md_remove]. unfold fr.
    eapply bsE_while_f; [evm; reflexivity|reflexivity].
  - cbn [md_chain] in Hch. destruct Hch as (-> & Hb & (Hs0 & Hs1) & Hrest). inversion Hno as [|? ? Hd Hno']. subst.
    destruct (IH h (as_ptr (enx d)) (VCell (eb d) 0) Hrest Hno') as (pv & B); try discriminate.
    exists pv. cbn [loop_of fbody prog_sbdf_md_remove] in *. unfold fr in *. cbn [app] in B.
    assert (Hne : lexcmp_l name (enm d) <> 0). { intros C. apply lexcmp_l_eq in C. congruence. }
    eapply bsE_while_t; [evm; reflexivity|reflexivity| |exact B].
    eapply bsE_seq.
    + eapply bsE_if.
      { evm. chk7. evm. cellrw Hb. evm. cbn [inb]. rewrite zlen_length.
        replace ((0 <=? q) && (q <=? zlen m) && (0 <=? enp d) && (enp d <=? zlen m)) with true by lia. rewrite Hq1, Hs1. reflexivity. }
      { cbn [truth]. destruct (lexcmp_l name (enm d) =? 0) eqn:Z0; [lia|reflexivity]. }
      apply bsE_skip.
    + eapply bsE_seq; [eapply bsE_expr; evm; reflexivity|]. eapply bsE_expr. evm. chk7. evm. cellrw Hb. evm. reflexivity.
Qed.

(* ---- the whole function ---- *)
Lemma md_remove_readonly_bs q hb h first i0 p0 : nth_error h hb = Some (Some [first; VInt 0]) ->
  bsE prog_env (fbody prog_sbdf_md_remove) (fr [("name"%string, VPtr RIn q); ("out"%string, VCell hb 0); ("item"%string, i0); ("prev"%string, p0)] bv k sx h m o)
    (OReturn (VInt SBDF_ERROR_METADATA_READONLY) (fr [("name"%string, VPtr RIn q); ("out"%string, VCell hb 0); ("item"%string, VUndef); ("prev"%string, VUndef)] bv k sx h m o)).
Proof.
  intros Hh. cbn [fbody prog_sbdf_md_remove]. unfold fr.
  eapply bsE_seq; [eapply bsE_seq; [eapply bsE_decl0; evm; reflexivity|eapply bsE_decl0; evm; reflexivity]|].
  eapply bsE_seq; [eapply bsE_if; [evm; reflexivity|reflexivity|apply bsE_skip]|].
  eapply bsE_seq_ret. eapply bsE_if; [evm; chk7; evm; cellrw Hh; evm; reflexivity|reflexivity|]. eapply bsE_return. evm. chk7. reflexivity.
Qed.

Lemma md_remove_pre q hb h first modif i0 p0 rest oo : nth_error h hb = Some (Some [first; VInt modif]) -> modif <> 0 ->
  bsE prog_env (SSeq (loop_of (fbody prog_sbdf_md_remove)) rest)
      (fr [("name"%string, VPtr RIn q); ("out"%string, VCell hb 0); ("item"%string, as_ptr first); ("prev"%string, VNull)] bv k sx h m o) oo ->
  match fbody prog_sbdf_md_remove with
  | SSeq d (SSeq c1 (SSeq c2 (SSeq a1 (SSeq a2 (SSeq w r))))) =>
      r = rest -> bsE prog_env (fbody prog_sbdf_md_remove) (fr [("name"%string, VPtr RIn q); ("out"%string, VCell hb 0); ("item"%string, i0); ("prev"%string, p0)] bv k sx h m o) oo
  | _ => True
  end.
Proof.
  intros Hh Hm B. cbn [fbody prog_sbdf_md_remove]. intros <-. cbn [loop_of fbody prog_sbdf_md_remove] in B. unfold fr in *. cbn [app] in B.
  eapply bsE_seq; [eapply bsE_seq; [eapply bsE_decl0; evm; reflexivity|eapply bsE_decl0; evm; reflexivity]|].
  eapply bsE_seq; [eapply bsE_if; [evm; reflexivity|reflexivity|apply bsE_skip]|].
  eapply bsE_seq; [eapply bsE_if; [evm; chk7; evm; cellrw Hh; evm; reflexivity|cbn [truth]; destruct (modif =? 0) eqn:Z0; [lia|reflexivity]|apply bsE_skip]|].
  eapply bsE_seq; [eapply bsE_expr; evm; chk7; evm; cellrw Hh; evm; reflexivity|].
  eapply bsE_seq; [eapply bsE_expr; evm; reflexivity|].
  exact B.
Qed.

End Remove.

(* ---- as top-level calls ---- *)
Theorem md_remove_found_source k sx m q name h hb first modif done e rest h1 h2 h3 :
  nth_error h hb = Some (Some [first; VInt modif]) -> modif <> 0 -> cstr_at m q name ->
  md_chain h m (as_ptr first) (done ++ e :: rest) -> Forall (fun d => enm d <> name) done -> enm e = name ->
  4 <= enp e <= zlen m -> storable (as_ptr (enx e)) = true ->
  cell_set h (last (map eb done) hb) 0 (as_ptr (enx e)) = Some h1 ->
  nth_error h1 (eb e) = Some (Some [enx e; VPtr RIn (enp e); evv e; edv e]) ->
  destroys_opt m h1 (evv e) h2 -> nth_error h2 (eb e) = Some (Some [enx e; VPtr RIn (enp e); evv e; edv e]) ->
  destroys_opt m h2 (edv e) h3 -> nth_error h3 (eb e) = Some (Some [enx e; VPtr RIn (enp e); evv e; edv e]) ->
  exists f0, forall f, (f0 <= f)%nat -> exists fin,
    callC prog_env f prog_sbdf_md_remove [VPtr RIn q; VCell hb 0] m k sx h = OReturn (VInt SBDF_OK) fin /\
    inb fin = m /\ lookup cells_var (vars fin) = Some (VHeap (kill (eb e) h3)).
Proof.
  intros Hh Hm Hq Hch Hno Hnm Hnp Hst Hset Hb1 D1 Hb2 D2 Hb3.
  destruct (md_remove_found (VInt 0) k sx m [] q name hb (VCell hb 0) e rest h1 h2 h3 Hq Hnm Hnp Hst eq_refl done h (as_ptr first) VNull hb (or_introl (conj eq_refl eq_refl)) Hch Hno Hset Hb1 D1 Hb2 D2 Hb3) as (pv & B).
  pose proof (md_remove_pre (VInt 0) k sx m [] q hb h first modif VUndef VUndef (SReturn (EConst 0)) _ Hh Hm (bsE_seq_ret _ _ (SReturn (EConst 0)) _ _ _ B)) as P.
  cbn [fbody prog_sbdf_md_remove] in P. specialize (P eq_refl).
  destruct (bsE_sound _ _ _ _ P) as (f0 & F). exists f0. intros f Hf. eexists. split; [apply F; exact Hf|]. split; reflexivity.
Qed.

Theorem md_remove_absent_source k sx m q name h hb first modif es :
  nth_error h hb = Some (Some [first; VInt modif]) -> modif <> 0 -> cstr_at m q name ->
  md_chain h m (as_ptr first) es -> Forall (fun d => enm d <> name) es ->
  exists f0, forall f, (f0 <= f)%nat -> exists fin,
    callC prog_env f prog_sbdf_md_remove [VPtr RIn q; VCell hb 0] m k sx h = OReturn (VInt SBDF_OK) fin /\
    inb fin = m /\ lookup cells_var (vars fin) = Some (VHeap h).
Proof.
  intros Hh Hm Hq Hch Hno.
  destruct (md_remove_absent (VInt 0) k sx m [] q name (VCell hb 0) Hq es h (as_ptr first) VNull Hch Hno) as (pv & B); try discriminate.
  assert (B2 : bsE prog_env (SSeq (loop_of (fbody prog_sbdf_md_remove)) (SReturn (EConst 0)))
      (fr [("name"%string, VPtr RIn q); ("out"%string, VCell hb 0); ("item"%string, as_ptr first); ("prev"%string, VNull)] (VInt 0) k sx h m [])
      (OReturn (VInt 0) (fr [("name"%string, VPtr RIn q); ("out"%string, VCell hb 0); ("item"%string, VNull); ("prev"%string, pv)] (VInt 0) k sx h m []))).
  { eapply bsE_seq; [exact B|]. eapply bsE_return. unfold fr. evm. chk7. reflexivity. }
  pose proof (md_remove_pre (VInt 0) k sx m [] q hb h first modif VUndef VUndef (SReturn (EConst 0)) _ Hh Hm B2) as P.
  cbn [fbody prog_sbdf_md_remove] in P. specialize (P eq_refl).
  destruct (bsE_sound _ _ _ _ P) as (f0 & F). exists f0. intros f Hf. eexists. split; [apply F; exact Hf|]. split; reflexivity.
Qed.

Theorem md_remove_readonly_source k sx m q h hb first :
  nth_error h hb = Some (Some [first; VInt 0]) ->
  exists f0, forall f, (f0 <= f)%nat -> exists fin,
    callC prog_env f prog_sbdf_md_remove [VPtr RIn q; VCell hb 0] m k sx h = OReturn (VInt SBDF_ERROR_METADATA_READONLY) fin /\
    inb fin = m /\ lookup cells_var (vars fin) = Some (VHeap h).
Proof.
  intros Hh. destruct (bsE_sound _ _ _ _ (md_remove_readonly_bs (VInt 0) k sx m [] q hb h first VUndef VUndef Hh)) as (f0 & F).
  exists f0. intros f Hf. eexists. split; [apply F; exact Hf|]. split; reflexivity.
Qed.

(* the unlinking is one cell store: every block other than the predecessor (or the head) and the blocks of the
   removed entry is exactly as before *)
