(* ImpFactsTsEnd.v - sbdf_ts_write_end (src/tableslice.c) from the source: the end-of-table marker under every byte budget. *)
From Sbdf Require Import ImpCall Gen.Prog Gen.Consts Base Prim BaseFacts ImpBase ImpFactsFrameW.
From Coq Require Import ZifyBool.
Local Open Scope Z_scope.

Ltac evt := cbn [prog_env eval_args callee_init finish_call copy_in copy_out try_update update lookup combine map app String.append
                 String.eqb Ascii.eqb Bool.eqb fparams flocals vars inb outb budget_var fail_var cell_token List.length Nat.eqb eval set_var
                 prog_sbdf_sec_write].

Theorem ts_write_end_source B : 0 <= B ->
  exists f0, forall f, (f0 <= f)%nat -> exists fin,
    callE prog_env f prog_sbdf_ts_write_end [tok] [] B = OReturn (VInt (if 3 <=? B then SBDF_OK else SBDF_ERROR_IO)) fin /\
    outb fin = ztake B [223; 91; SBDF_TABLEEND_SECTIONID].
Proof.
  intros HB. destruct (sec_write_bs ROut 0 SBDF_TABLEEND_SECTIONID VUndef VUndef B [] ltac:(unfold SBDF_TABLEEND_SECTIONID, int_min, int_max; lia) HB) as (e' & r' & Bs).
  assert (BV : bsE prog_env (fbody prog_sbdf_ts_write_end)
                 {| vars := [("f"%string, tok); ("$ret"%string, VUndef); (budget_var, VInt B)]; inb := []; outb := [] |}
                 (OReturn (VInt (if 3 <=? B then SBDF_OK else SBDF_ERROR_IO))
                    {| vars := [("f"%string, tok); ("$ret"%string, VInt (if 3 <=? B then SBDF_OK else SBDF_ERROR_IO));
                                (budget_var, VInt (B - zlen (ztake B [223; 91; SBDF_TABLEEND_SECTIONID mod 256])))];
                       inb := []; outb := [] ++ ztake B [223; 91; SBDF_TABLEEND_SECTIONID mod 256] |})).
  { cbn [fbody prog_sbdf_ts_write_end].
    eapply bsE_seq; [eapply bsE_call; [reflexivity|evt; chk7; reflexivity|reflexivity|exact Bs|unfold sw; evt; reflexivity]|].
    eapply bsE_return. evt. reflexivity. }
  destruct (bsE_sound _ _ _ _ BV) as (f0 & F). exists f0. intros f Hf. eexists. split; [apply F; exact Hf|]. reflexivity.
Qed.
