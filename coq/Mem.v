(* Mem.v — L2: a resource ("ledger") re-telling of the functions whose correctness is about
   allocation, ownership and cleanup (C12, C14, the leak clause of C05).  A monad over an abstract
   heap: fresh block ids, typed blocks, pointers Null / Ptr id, explicit Fault outcomes (null
   dereference, use after free, invalid or double free, out-of-bounds cell), and an allocation
   counter with a failure oracle ("attempt k returns NULL").  Contents other than pointers are not
   modelled (the values are L1's business); every function below is the C function retold: the same
   allocations in the same order, the same pointer stores, the same frees on each exit path. *)
From Coq Require Export FMapPositive.
From Sbdf Require Export Obj.
Module PM := PositiveMap.

Definition ptr := option positive.

Inductive node :=
| NBytes                                   (* raw bytes: a string / binary element, fixed-size data, a scratch buffer *)
| NPtrs (cells : list ptr)                 (* void*[]: the element pointers of a string/binary object *)
| NObj (ty : Z) (count : nat) (data : ptr)  (* struct sbdf_object *)
| NVa (o1 o2 : ptr).                       (* struct sbdf_valuearray *)

Record mst := { mnext : positive; mlive : PM.t node; mallocs : nat; mfail : option nat }.

Inductive fault := NullDeref | UseAfterFree | BadFree | OutOfBounds.

Inductive out (A : Type) := Val (a : A) (s : mst) | Flt (f : fault).
Arguments Val {A} a s.
Arguments Flt {A} f.

Definition M (A : Type) := mst -> out A.
Definition mret {A} (a : A) : M A := fun s => Val a s.
Definition mflt {A} (f : fault) : M A := fun _ => Flt f.
Definition mbind {A B} (m : M A) (f : A -> M B) : M B :=
  fun s => match m s with Val a s' => f a s' | Flt w => Flt w end.
Notation "x <-m m ;; k" := (mbind m (fun x => k)) (at level 100, m at next level, right associativity).
Notation "m ;;m k" := (mbind m (fun _ => k)) (at level 100, right associativity).

Definition lookup (id : positive) (l : PM.t node) : option node := PM.find id l.
Definition remove (id : positive) (l : PM.t node) : PM.t node := PM.remove id l.
Definition update (id : positive) (n : node) (l : PM.t node) : PM.t node := PM.add id n l.

(* malloc / calloc: attempt number mallocs; fails when the oracle says so *)
Definition alloc (n : node) : M ptr := fun s =>
  let fails := match mfail s with Some k => Nat.eqb k (mallocs s) | None => false end in
  if fails then Val None {| mnext := mnext s; mlive := mlive s; mallocs := S (mallocs s); mfail := mfail s |}
  else Val (Some (mnext s))
           {| mnext := Pos.succ (mnext s); mlive := PM.add (mnext s) n (mlive s); mallocs := S (mallocs s); mfail := mfail s |}.

(* free(NULL) is a no-op; freeing anything that is not a live block is a fault *)
Definition mfree (p : ptr) : M unit := fun s =>
  match p with
  | None => Val tt s
  | Some id =>
    match lookup id (mlive s) with
    | Some _ => Val tt {| mnext := mnext s; mlive := remove id (mlive s); mallocs := mallocs s; mfail := mfail s |}
    | None => Flt BadFree
    end
  end.

Definition load (p : ptr) : M node := fun s =>
  match p with
  | None => Flt NullDeref
  | Some id => match lookup id (mlive s) with Some n => Val n s | None => Flt UseAfterFree end
  end.

Definition store (p : ptr) (n : node) : M unit := fun s =>
  match p with
  | None => Flt NullDeref
  | Some id =>
    match lookup id (mlive s) with
    | Some _ => Val tt {| mnext := mnext s; mlive := update id n (mlive s); mallocs := mallocs s; mfail := mfail s |}
    | None => Flt UseAfterFree
    end
  end.

Fixpoint set_nth {A} (i : nat) (x : A) (l : list A) : option (list A) :=
  match l, i with
  | [], _ => None
  | _ :: r, O => Some (x :: r)
  | y :: r, S i' => match set_nth i' x r with Some r' => Some (y :: r') | None => None end
  end.

(* ------------------------------------------------------------------ objects (object.c) *)

(* the element loop of sbdf_obj_destroy: count iterations of `if the cell under the cursor is non-null,
   dispose it and advance` - the cursor only advances past non-null cells *)
Fixpoint destroy_elems (n : nat) (cells : list ptr) : M unit :=
  match n with
  | O => mret tt
  | S n' =>
    match cells with
    | Some id :: rest => mfree (Some id) ;;m destroy_elems n' rest
    | _ => destroy_elems n' cells         (* a null cell (or the end): the cursor stays *)
    end
  end.

Definition obj_destroy (p : ptr) : M unit :=
  match p with
  | None => mret tt
  | Some _ =>
    n <-m load p ;;
    match n with
    | NObj ty count data =>
      (match data with
       | None => mret tt
       | Some _ =>
         (if is_arr ty then
            d <-m load data ;;
            match d with NPtrs cells => destroy_elems count cells | _ => mret tt end
          else mret tt) ;;m
         mfree data
       end) ;;m
      mfree p
    | _ => mflt BadFree
    end
  end.

(* fill the element cells of a string/binary object one by one (clone loop / read loop / copy loop):
   on a failed element allocation the whole object is destroyed and OUT_OF_MEMORY returned *)
Fixpoint fill_elems (t data : ptr) (i : nat) (n : nat) : M Z :=
  match n with
  | O => mret SBDF_OK
  | S n' =>
    e <-m alloc NBytes ;;
    match e with
    | None => obj_destroy t ;;m mret SBDF_ERROR_OUT_OF_MEMORY
    | Some _ =>
      d <-m load data ;;
      match d with
      | NPtrs cells =>
        match set_nth i e cells with
        | Some cells' => store data (NPtrs cells') ;;m fill_elems t data (S i) n'
        | None => mflt OutOfBounds
        end
      | _ => mflt BadFree
      end
    end
  end.

(* sbdf_init_array_int with clone_array = 1 (sbdf_obj_create_arr), sbdf_read_objects and
   sbdf_obj_copy share this allocation skeleton: the struct, the data block, then (string/binary)
   one block per element.  Returns the status and the object pointer (Null unless OK). *)
Definition obj_build (ty : Z) (count : nat) : M (Z * ptr) :=
  t <-m alloc (NObj ty count None) ;;
  match t with
  | None => mret (SBDF_ERROR_OUT_OF_MEMORY, None)
  | Some _ =>
    if is_arr ty then
      data <-m alloc (NPtrs (repeat None count)) ;;
      match data with
      | None => obj_destroy t ;;m mret (SBDF_ERROR_OUT_OF_MEMORY, None)
      | Some _ =>
        store t (NObj ty count data) ;;m
        st <-m fill_elems t data 0 count ;;
        if st =? SBDF_OK then mret (SBDF_OK, t) else mret (st, None)
      end
    else
      let sz := usize ty in
      if sz <? 0 then obj_destroy t ;;m mret (sz, None)
      else if sz =? 0 then obj_destroy t ;;m mret (SBDF_ERROR_UNKNOWN_TYPEID, None)
      else
        data <-m alloc NBytes ;;
        match data with
        | None => obj_destroy t ;;m mret (SBDF_ERROR_OUT_OF_MEMORY, None)
        | Some _ => store t (NObj ty count data) ;;m mret (SBDF_OK, t)
        end
  end.

(* sbdf_obj_copy: the source must be a live object; the copy is built from scratch *)
Definition obj_copy_m (src : ptr) : M (Z * ptr) :=
  match src with
  | None => mret (SBDF_ERROR_ARGUMENT_NULL, None)           (* if (!src || !dst) return ARGUMENT_NULL *)
  | Some _ =>
    n <-m load src ;;
    match n with
    | NObj ty count _ => obj_build ty count
    | _ => mflt BadFree
    end
  end.

(* ------------------------------------------------------------------ value arrays (valuearray.c) *)

Definition va_destroy (p : ptr) : M unit :=
  match p with
  | None => mret tt
  | Some _ =>
    n <-m load p ;;
    match n with
    | NVa a b => obj_destroy a ;;m obj_destroy b ;;m mfree p
    | _ => mflt BadFree
    end
  end.

(* sbdf_va_create_plain (after the fix): handle, then a copy of the array *)
Definition va_create_plain_m (arr : ptr) : M (Z * ptr) :=
  match arr with None => mret (SBDF_ERROR_ARGUMENT_NULL, None) | Some _ =>
  h <-m alloc (NVa None None) ;;
  match h with
  | None => mret (SBDF_ERROR_OUT_OF_MEMORY, None)
  | Some _ =>
    r <-m obj_copy_m arr ;;
    let '(st, c) := r in
    if st =? SBDF_OK then store h (NVa c None) ;;m mret (SBDF_OK, h)
    else mfree h ;;m mret (st, None)
  end end.

(* sbdf_va_get_values for the plain encoding: a copy of object1 *)
Definition va_get_values_plain_m (v : ptr) : M (Z * ptr) :=
  match v with None => mret (SBDF_ERROR_ARGUMENT_NULL, None) | Some _ =>
  n <-m load v ;;
  match n with
  | NVa a _ => obj_copy_m a
  | _ => mflt BadFree
  end end.

Definition mst0 (fail : option nat) : mst := {| mnext := 1%positive; mlive := PM.empty node; mallocs := 0; mfail := fail |}.

(* sbdf_va_create_bit: the handle, a scratch buffer for the packed bits, the byte-array object that
   becomes object1 (struct, one-cell data block, the byte array itself); the scratch buffer is
   released on every path, everything else on every failure path *)
Definition va_create_bit_m (arr : ptr) : M (Z * ptr) :=
  match arr with None => mret (SBDF_ERROR_ARGUMENT_NULL, None) | Some _ =>
  n <-m load arr ;;
  match n with
  | NObj ty count _ =>
    h <-m alloc (NVa None None) ;;
    match h with
    | None => mret (SBDF_ERROR_OUT_OF_MEMORY, None)
    | Some _ =>
      let sz := if is_arr ty then 8 else usize ty in
      if sz <? 0 then mfree h ;;m mret (sz, None)
      else if sz =? 0 then mfree h ;;m mret (SBDF_ERROR_UNKNOWN_TYPEID, None)
      else
        out <-m alloc NBytes ;;
        match out with
        | None => mfree h ;;m mret (SBDF_ERROR_OUT_OF_MEMORY, None)
        | Some _ =>
          t <-m alloc (NObj SBDF_BINARYTYPEID 0 None) ;;
          match t with
          | None => mfree out ;;m mfree h ;;m mret (SBDF_ERROR_OUT_OF_MEMORY, None)
          | Some _ =>
            d <-m alloc (NPtrs [None]) ;;
            match d with
            | None => mfree out ;;m mfree h ;;m mfree t ;;m mret (SBDF_ERROR_OUT_OF_MEMORY, None)
            | Some _ =>
              store t (NObj SBDF_BINARYTYPEID 0 d) ;;m
              ba <-m alloc NBytes ;;
              match ba with
              | None => mfree out ;;m mfree h ;;m mfree d ;;m mfree t ;;m mret (SBDF_ERROR_OUT_OF_MEMORY, None)
              | Some _ =>
                store d (NPtrs [ba]) ;;m
                mfree out ;;m
                store t (NObj SBDF_BINARYTYPEID 1 d) ;;m
                store h (NVa t None) ;;m
                mret (SBDF_OK, h)
              end
            end
          end
        end
    end
  | _ => mflt BadFree
  end end.
