(* ImpFactsSkip.v - sbdf_skip_string from the source. *)
From Sbdf Require Import ImpCall Gen.Prog Gen.Consts Base Prim BaseFacts ImpBase ImpFactsInt32.
From Coq Require Import ZifyBool.
Local Open Scope Z_scope.
Ltac Zify.zify_post_hook ::= Z.div_mod_to_equations.

(* ================================================================== skipping a string; the growth function *)

Definition sk (fr : region) (fo : Z) (e l bv : val) (s o : list Z) : state :=
  {| vars := [("f"%string, VPtr fr fo); ("error"%string, e); ("l"%string, l); (budget_var, bv)]; inb := s; outb := o |}.



Lemma skip_string_bs fr fo e l bv s o : Forall byte s ->
  match skip_string false s with
  | Ok (_, s') => exists e' l', bsE prog_env (fbody prog_sbdf_skip_string) (sk fr fo e l bv s o) (OReturn (VInt SBDF_OK) (sk fr fo e' l' bv s' o))
  | Err st => exists e' l' s', bsE prog_env (fbody prog_sbdf_skip_string) (sk fr fo e l bv s o) (OReturn (VInt st) (sk fr fo e' l' bv s' o))
  end.
Proof.
  intros Hs. unfold skip_string, rd_bind, rfail, fseek_cur. cbn [fbody prog_sbdf_skip_string]. unfold sk.
  pose proof (read_int32_bs fr ROut fo 0 VUndef bv s o Hs) as R.
  pose proof (read_int32_model s) as M.
  destruct (read_int32 false s) as [[x s1]|st] eqn:ER.
  - assert (Hx : int_min <= x <= int_max).
    { destruct s as [|b0 [|b1 [|b2 [|b3 r]]]]; try discriminate. inversion M. subst.
      apply de32_range; [|reflexivity]. inversion Hs as [|? ? G0 Q0]. inversion Q0 as [|? ? G1 Q1]. inversion Q1 as [|? ? G2 Q2]. inversion Q2 as [|? ? G3 Q3].
      subst. constructor; [exact G0|]. constructor; [exact G1|]. constructor; [exact G2|]. constructor; [exact G3|constructor]. }
    destruct (x <? 0) eqn:Ex.
    + do 3 eexists. eapply bsE_seq; [eapply bsE_seq; [eapply bsE_decl0; evi; reflexivity|eapply bsE_decl0; evi; reflexivity]|].
      eapply bsE_seq; [eapply bsE_seq; [eapply bsE_call; [reflexivity|evci; reflexivity|reflexivity|exact R|unfold ri; evci; reflexivity]|no_err]|].
      eapply bsE_seq_ret. eapply bsE_if; [evi; chk7; evi; rewrite Ex; reflexivity|reflexivity|]. eapply bsE_return. evi. chk7. reflexivity.
    + do 2 eexists. eapply bsE_seq; [eapply bsE_seq; [eapply bsE_decl0; evi; reflexivity|eapply bsE_decl0; evi; reflexivity]|].
      eapply bsE_seq; [eapply bsE_seq; [eapply bsE_call; [reflexivity|evci; reflexivity|reflexivity|exact R|unfold ri; evci; reflexivity]|no_err]|].
      eapply bsE_seq; [eapply bsE_if; [evi; chk7; evi; rewrite Ex; reflexivity|reflexivity|apply bsE_skip]|].
      eapply bsE_seq; [eapply bsE_if; [evi; replace (0 <=? x) with true by lia; reflexivity|reflexivity|apply bsE_skip]|].
      eapply bsE_cast_o; [eapply bsE_return; evi; chk7; reflexivity|]. cbn [inb]. rewrite drop_z_skipn by lia. reflexivity.
  - destruct R as (c' & s1 & B). pose proof (read_int32_err s st ER). subst st.
    do 3 eexists. eapply bsE_seq; [eapply bsE_seq; [eapply bsE_decl0; evi; reflexivity|eapply bsE_decl0; evi; reflexivity]|].
    eapply bsE_seq_ret. eapply bsE_seq; [eapply bsE_call; [reflexivity|evci; reflexivity|reflexivity|exact B|unfold ri; evci; reflexivity]|]. ret_err.
Qed.







Theorem skip_string_source s B : Forall byte s ->
  exists f0, forall f, (f0 <= f)%nat ->
  match skip_string false s with
  | Ok (_, s') => exists fin, callE prog_env f prog_sbdf_skip_string [tok] s B = OReturn (VInt SBDF_OK) fin /\ inb fin = s' /\ outb fin = []
  | Err st => exists fin, callE prog_env f prog_sbdf_skip_string [tok] s B = OReturn (VInt st) fin /\ outb fin = []
  end.
Proof.
  intros Hs. pose proof (skip_string_bs ROut 0 VUndef VUndef (VInt B) s [] Hs) as H.
  destruct (skip_string false s) as [[x s']|st].
  - destruct H as (e' & l' & Bs). destruct (bsE_sound _ _ _ _ Bs) as (f0 & F). exists f0. intros f Hf. eexists. split; [apply F; exact Hf|]. split; reflexivity.
  - destruct H as (e' & l' & s1 & Bs). destruct (bsE_sound _ _ _ _ Bs) as (f0 & F). exists f0. intros f Hf. eexists. split; [apply F; exact Hf|]. reflexivity.
Qed.
