(* Md.v — metadata.c and columnmetadata.c: the linked list as a list, in list order. *)
From Sbdf Require Export Va.

Record mdent := { ename : list Z; evalue : option obj; edflt : option obj }.
Record md := { ments : list mdent; mmod : bool }.

Definition md_create : md := {| ments := []; mmod := true |}.

Definition name_eqb (a b : list Z) : bool := bytes_eqb (cstr a) (cstr b).   (* !strcmp(a, b) *)

Definition md_find (name : list Z) (m : md) : option mdent :=
  find_first (fun e => name_eqb name (ename e)) (ments m).

Definition md_add (name : list Z) (value : obj) (dflt : option obj) (m : md) : res md :=
  if negb (mmod m) then Err SBDF_ERROR_METADATA_READONLY else
  if match dflt with Some d => negb (oty value - oty d =? 0) | None => false end
  then Err SBDF_ERROR_VALUETYPES_MUST_BE_EQUAL else
  if negb (ocount value =? 1) || match dflt with Some d => negb (ocount d =? 1) | None => false end
  then Err SBDF_ERROR_ARRAY_LENGTH_MUST_BE_1 else
  match md_find name m with
  | Some _ => Err SBDF_ERROR_METADATA_ALREADY_EXISTS
  | None =>
    v <-e obj_copy value ;;
    d <-e match dflt with Some d => (c <-e obj_copy d ;; Ok (Some c)) | None => Ok None end ;;
    Ok {| ments := ments m ++ [{| ename := cstr name; evalue := Some v; edflt := d |}]; mmod := mmod m |}
  end.

Definition str_obj (s : list Z) : obj := {| oty := SBDF_STRINGTYPEID; oelems := [cstr s] |}.
Definition int_obj (v : Z) : obj := {| oty := SBDF_INTTYPEID; oelems := [le32 v] |}.

Definition md_add_str (name value : list Z) (dflt : option (list Z)) (m : md) : res md :=
  md_add name (str_obj value) (option_map str_obj dflt) m.

Definition md_add_int (name : list Z) (value dflt : Z) (m : md) : res md :=
  md_add name (int_obj value) (Some (int_obj dflt)) m.

Fixpoint remove_first (name : list Z) (l : list mdent) : list mdent :=
  match l with
  | [] => []
  | e :: r => if name_eqb name (ename e) then r else e :: remove_first name r
  end.

Definition md_remove (name : list Z) (m : md) : res md :=
  if negb (mmod m) then Err SBDF_ERROR_METADATA_READONLY
  else Ok {| ments := remove_first name (ments m); mmod := mmod m |}.

Definition md_get (name : list Z) (m : md) : res obj :=
  match md_find name m with
  | Some e => obj_copy_opt (evalue e)
  | None => Err SBDF_ERROR_METADATA_NOT_FOUND
  end.

Definition md_get_dflt (name : list Z) (m : md) : res (option obj) :=
  match md_find name m with
  | Some e => match edflt e with Some d => (c <-e obj_copy d ;; Ok (Some c)) | None => Ok None end
  | None => Err SBDF_ERROR_METADATA_NOT_FOUND
  end.

Definition md_exists (name : list Z) (m : md) : Z :=
  match md_find name m with Some _ => 1 | None => 0 end.

Definition md_cnt (m : md) : Z := zlen (ments m).

(* copies of the source entries, stopping at the first entry that cannot be copied *)
Fixpoint copy_ents (l : list mdent) : list mdent * option Z :=
  match l with
  | [] => ([], None)
  | e :: r =>
    match obj_copy_opt (evalue e) with
    | Err st => ([], Some st)
    | Ok v =>
      match (match edflt e with Some d => (c <-e obj_copy d ;; Ok (Some c)) | None => Ok None end) with
      | Err st => ([], Some st)
      | Ok d =>
        let '(done, st) := copy_ents r in
        ({| ename := ename e; evalue := Some v; edflt := d |} :: done, st)
      end
    end
  end.

(* sbdf_md_copy: returns the status and the destination afterwards; all source entries are
   appended, or (name clash, read-only, an entry that cannot be copied) none *)
Definition md_copy (src dst : md) : Z * md :=
  if negb (mmod dst) then (SBDF_ERROR_METADATA_READONLY, dst) else
  if existsb (fun e => existsb (fun d => name_eqb (ename e) (ename d)) (ments dst)) (ments src)
  then (SBDF_ERROR_METADATA_ALREADY_EXISTS, dst) else
  match copy_ents (ments src) with
  | (new, None) => (SBDF_OK, {| ments := ments dst ++ new; mmod := mmod dst |})
  | (_, Some st) => (st, dst)
  end.

Definition md_set_immutable (m : md) : md := {| ments := ments m; mmod := false |}.

(* ---- columnmetadata.c ---- *)

(* status and the metadata afterwards (all or nothing: the name is taken back when the type cannot be added) *)
Definition cm_set_values (name : list Z) (ty : Z) (m : md) : Z * md :=
  match md_add_str SBDF_COLUMNMETADATA_NAME name None m with
  | Err st => (st, m)
  | Ok m1 =>
    match md_add SBDF_COLUMNMETADATA_DATATYPE (valuetype_to_object ty) None m1 with
    | Err st => (st, m)
    | Ok m2 => (SBDF_OK, m2)
    end
  end.

Definition cm_get_type (m : md) : res Z :=
  o <-e md_get SBDF_COLUMNMETADATA_DATATYPE m ;;
  match oelems o with
  | [e] =>
    if negb (oty o =? SBDF_BINARYTYPEID) || (negb (zlen e =? 1) && negb (zlen e =? 3))
    then Err SBDF_ERROR_INCORRECT_METADATA
    else Ok (match e with b :: _ => b | [] => 0 end)
  | _ => Err SBDF_ERROR_INCORRECT_METADATA
  end.

Definition cm_get_name (m : md) : res (list Z) :=
  o <-e md_get SBDF_COLUMNMETADATA_NAME m ;;
  if negb (oty o =? SBDF_STRINGTYPEID) then Err SBDF_ERROR_INCORRECT_METADATA
  else Ok (match oelems o with e :: _ => e | [] => [] end).
