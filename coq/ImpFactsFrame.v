(* ImpFactsFrame.v — the framing layer of the file format as written in the source (single bytes,
   section markers, the file header, value type ids: src/internals.c, fileheader.c, valuetype.c,
   translated into Gen/Prog.v on every run, calls between them included) computes the L1 model's
   functions of Prim.v: readers on EVERY byte stream, writers under EVERY output budget. *)
From Sbdf Require Import ImpCall Gen.Prog Gen.Consts Base Prim BaseFacts ImpFacts ImpFacts7.
From Coq Require Import ZifyBool.
Local Open Scope Z_scope.
Ltac Zify.zify_post_hook ::= Z.div_mod_to_equations.

Ltac evf := cbn [eval lookup update set_var String.eqb Ascii.eqb Bool.eqb vars inb outb truth cast binop_int binop_uint is_shift b2z fst snd negb budget_var];
  change (0 =? 0) with true; change (1 =? 0) with false; cbn [negb b2z].
Ltac evsf := evf; chk7; evf; chk7; evf; chk7; evf.
(* the bookkeeping of a call: frames, cells, budget *)
Ltac evc := cbn [prog_env eval_args callee_init finish_call copy_in copy_out try_update update lookup combine map app String.append
                 String.eqb Ascii.eqb Bool.eqb fparams flocals fbody vars inb outb budget_var fail_var cell_token List.length Nat.eqb eval set_var
                 prog_sbdf_read_int8 prog_sbdf_write_int8 prog_sbdf_sec_write prog_sbdf_sec_read prog_sbdf_sec_expect
                 prog_sbdf_fh_write_cur prog_sbdf_fh_read prog_sbdf_vt_write prog_sbdf_vt_read].

(* ================================================================== single bytes *)
Definition rd8 (fr pr : region) (fo po : Z) (c cell bv : val) (s o : list Z) : state :=
  {| vars := [("f"%string, VPtr fr fo); ("v"%string, VPtr pr po); ("c"%string, c); ("*v"%string, cell); (budget_var, bv)]; inb := s; outb := o |}.

Lemma read_int8_bs env fr pr fo po c cell bv s o : Forall byte s ->
  bsE env (fbody prog_sbdf_read_int8) (rd8 fr pr fo po c cell bv s o)
    (match s with
     | [] => OReturn (VInt SBDF_ERROR_IO) (rd8 fr pr fo po VUndef cell bv [] o)
     | b :: s' => OReturn (VInt SBDF_OK) (rd8 fr pr fo po (VInt b) (VInt b) bv s' o)
     end).
Proof.
  intros Hs. cbn [fbody prog_sbdf_read_int8]. unfold rd8.
  eapply bsE_seq; [eapply bsE_decl0; evf; reflexivity|].
  eapply bsE_seq; [eapply bsE_if; [evf; reflexivity|reflexivity|apply bsE_skip]|].
  destruct s as [|b s'].
  - eapply bsE_seq_ret. eapply bsE_if; [evf; reflexivity|reflexivity|]. eapply bsE_return. evsf. reflexivity.
  - inversion Hs as [|? ? Hb _]. subst. unfold byte in Hb.
    eapply bsE_seq; [eapply bsE_if; [evf; reflexivity|reflexivity|apply bsE_skip]|].
    eapply bsE_seq; [eapply bsE_expr; evsf; reflexivity|]. eapply bsE_return. evsf. reflexivity.
Qed.

Definition wr8 (fr : region) (fo v : Z) (c : val) (B : Z) (o : list Z) : state :=
  {| vars := [("f"%string, VPtr fr fo); ("v"%string, VInt v); ("c"%string, c); (budget_var, VInt B)]; inb := []; outb := o |}.

Lemma write_int8_bs env fr fo v c B o : int_min <= v <= int_max -> 0 <= B ->
  bsE env (fbody prog_sbdf_write_int8) (wr8 fr fo v c B o)
    (if 0 <? B then OReturn (VInt SBDF_OK) (wr8 fr fo v (VInt (v mod 256)) (B - 1) (o ++ [v mod 256]))
     else OReturn (VInt SBDF_ERROR_IO) (wr8 fr fo v (VInt (v mod 256)) B o)).
Proof.
  intros Hv HB. cbn [fbody prog_sbdf_write_int8]. unfold wr8.
  eapply bsE_seq; [eapply bsE_decl1; [evsf; reflexivity|evf; reflexivity]|].
  eapply bsE_seq; [eapply bsE_if; [evf; reflexivity|reflexivity|apply bsE_skip]|].
  destruct (0 <? B) eqn:EB.
  - eapply bsE_seq; [eapply bsE_if; [evsf; rewrite EB; evf; reflexivity|reflexivity|apply bsE_skip]|].
    eapply bsE_return. evsf. rewrite Z.mod_mod by lia. reflexivity.
  - eapply bsE_seq_ret. eapply bsE_if; [evsf; rewrite EB; evf; reflexivity|reflexivity|]. eapply bsE_return. evsf. reflexivity.
Qed.

Lemma bsE_cast env st s s' o o' : bsE env st s o -> s = s' -> o = o' -> bsE env st s' o'.
Proof. now intros H <- <-. Qed.
Lemma bsE_cast_o env st s o o' : bsE env st s o -> o = o' -> bsE env st s o'.
Proof. now intros H <-. Qed.

Ltac decide_budget :=
  match goal with |- context [0 <? ?b] => first [replace (0 <? b) with true by lia | replace (0 <? b) with false by lia] end.

(* a call of sbdf_write_int8(f, e) from a frame: what the SCall step does to the caller *)
Ltac call_w8 Hv :=
  eapply bsE_call; [reflexivity | evc; chk7; evc; reflexivity | reflexivity
                   | eapply bsE_cast_o; [apply (write_int8_bs prog_env); [Hv|lia] | decide_budget; reflexivity ]
                   | unfold wr8; evc; reflexivity ].
Ltac ret_err := eapply bsE_if; [evf; reflexivity | reflexivity | eapply bsE_return; evf; reflexivity].
Ltac no_err := eapply bsE_if; [evf; reflexivity | reflexivity | apply bsE_skip].
Ltac small := unfold int_min, int_max; lia.

(* ================================================================== section markers *)
Definition sw (fr : region) (fo id : Z) (e r : val) (B : Z) (o : list Z) : state :=
  {| vars := [("f"%string, VPtr fr fo); ("id"%string, VInt id); ("error"%string, e); ("$ret"%string, r); (budget_var, VInt B)]; inb := []; outb := o |}.

Lemma sec_write_bs fr fo id e r B o : int_min <= id <= int_max -> 0 <= B ->
  exists e' r', bsE prog_env (fbody prog_sbdf_sec_write) (sw fr fo id e r B o)
    (OReturn (VInt (if 3 <=? B then SBDF_OK else SBDF_ERROR_IO))
             (sw fr fo id e' r' (B - zlen (ztake B [223; 91; id mod 256])) (o ++ ztake B [223; 91; id mod 256]))).
Proof.
  intros Hid HB. cbn [fbody prog_sbdf_sec_write]. unfold sw.
  assert (C : B = 0 \/ B = 1 \/ B = 2 \/ 3 <= B) by lia.
  destruct C as [->|[->|[->|C]]].
  - do 2 eexists. eapply bsE_seq; [eapply bsE_decl0; evf; reflexivity|].
    eapply bsE_seq_ret. eapply bsE_seq; [call_w8 ltac:(small)|]. eapply bsE_cast_o; [ret_err|..].
    all: try (cbn [ztake Z.to_nat firstn]; rewrite app_nil_r; reflexivity).
  - do 2 eexists. eapply bsE_seq; [eapply bsE_decl0; evf; reflexivity|].
    eapply bsE_seq; [eapply bsE_seq; [call_w8 ltac:(small)|no_err]|].
    eapply bsE_seq_ret. eapply bsE_seq; [call_w8 ltac:(small)|]. eapply bsE_cast_o; [ret_err|..].
    all: try reflexivity.
  - do 2 eexists. eapply bsE_seq; [eapply bsE_decl0; evf; reflexivity|].
    eapply bsE_seq; [eapply bsE_seq; [call_w8 ltac:(small)|no_err]|].
    eapply bsE_seq; [eapply bsE_seq; [call_w8 ltac:(small)|no_err]|].
    eapply bsE_seq; [call_w8 ltac:(exact Hid)|]. eapply bsE_cast_o; [eapply bsE_return; evf; reflexivity|..].
    all: try (rewrite <- !app_assoc; reflexivity).
  - do 2 eexists. eapply bsE_seq; [eapply bsE_decl0; evf; reflexivity|].
    eapply bsE_seq; [eapply bsE_seq; [call_w8 ltac:(small)|no_err]|].
    eapply bsE_seq; [eapply bsE_seq; [call_w8 ltac:(small)|no_err]|].
    eapply bsE_seq; [call_w8 ltac:(exact Hid)|]. eapply bsE_cast_o; [eapply bsE_return; evf; reflexivity|..].
    all: replace (3 <=? B) with true by lia; rewrite (ztake_all [223; 91; id mod 256] B) by (cbn; lia); rewrite <- !app_assoc;
         change (zlen [223; 91; id mod 256]) with 3; replace (B - 1 - 1 - 1) with (B - 3) by lia; reflexivity.
Qed.

Ltac call_r8 Hs :=
  eapply bsE_call; [reflexivity | evc; reflexivity | reflexivity
                   | eapply bsE_cast_o; [apply (read_int8_bs prog_env); Hs | reflexivity ]
                   | unfold rd8; evc; reflexivity ].

Definition sr (fr pr : region) (fo po : Z) (e v r cell bv : val) (s o : list Z) : state :=
  {| vars := [("f"%string, VPtr fr fo); ("id"%string, VPtr pr po); ("error"%string, e); ("v"%string, v); ("$ret"%string, r);
              ("*id"%string, cell); (budget_var, bv)]; inb := s; outb := o |}.

Lemma sec_read_bs fr pr fo po e v r cell bv s o : Forall byte s ->
  match sec_read s with
  | Ok (x, s') => exists e' v' r', bsE prog_env (fbody prog_sbdf_sec_read) (sr fr pr fo po e v r cell bv s o)
                                      (OReturn (VInt SBDF_OK) (sr fr pr fo po e' v' r' (VInt x) bv s' o))
  | Err st => exists e' v' r' s', bsE prog_env (fbody prog_sbdf_sec_read) (sr fr pr fo po e v r cell bv s o)
                                      (OReturn (VInt st) (sr fr pr fo po e' v' r' cell bv s' o))
  end.
Proof.
  intros Hs. cbn [fbody prog_sbdf_sec_read]. unfold sr, sec_read, rd_bind, rfail.
  destruct s as [|b1 s]; cbn [read_int8].
  { do 4 eexists. eapply bsE_seq; [eapply bsE_seq; [eapply bsE_decl0; evf; reflexivity|eapply bsE_decl0; evf; reflexivity]|].
    eapply bsE_seq_ret. eapply bsE_seq; [call_r8 ltac:(exact Hs)|]. ret_err. }
  inversion Hs as [|? ? Hb1 Hs1]. subst. unfold byte in Hb1.
  destruct (b1 =? 223) eqn:E1; cbn [negb].
  2: { do 4 eexists. eapply bsE_seq; [eapply bsE_seq; [eapply bsE_decl0; evf; reflexivity|eapply bsE_decl0; evf; reflexivity]|].
       eapply bsE_seq; [eapply bsE_seq; [call_r8 ltac:(exact Hs)|no_err]|].
       eapply bsE_seq_ret. eapply bsE_if; [evsf; rewrite E1; evf; reflexivity|reflexivity|]. eapply bsE_return. evsf. reflexivity. }
  destruct s as [|b2 s]; cbn [read_int8].
  { do 4 eexists. eapply bsE_seq; [eapply bsE_seq; [eapply bsE_decl0; evf; reflexivity|eapply bsE_decl0; evf; reflexivity]|].
    eapply bsE_seq; [eapply bsE_seq; [call_r8 ltac:(exact Hs)|no_err]|].
    eapply bsE_seq; [eapply bsE_if; [evsf; rewrite E1; evf; reflexivity|reflexivity|apply bsE_skip]|].
    eapply bsE_seq_ret. eapply bsE_seq; [call_r8 ltac:(exact Hs1)|]. ret_err. }
  inversion Hs1 as [|? ? Hb2 Hs2]. subst. unfold byte in Hb2.
  destruct (b2 =? 91) eqn:E2; cbn [negb].
  2: { do 4 eexists. eapply bsE_seq; [eapply bsE_seq; [eapply bsE_decl0; evf; reflexivity|eapply bsE_decl0; evf; reflexivity]|].
       eapply bsE_seq; [eapply bsE_seq; [call_r8 ltac:(exact Hs)|no_err]|].
       eapply bsE_seq; [eapply bsE_if; [evsf; rewrite E1; evf; reflexivity|reflexivity|apply bsE_skip]|].
       eapply bsE_seq; [eapply bsE_seq; [call_r8 ltac:(exact Hs1)|no_err]|].
       eapply bsE_seq_ret. eapply bsE_if; [evsf; rewrite E2; evf; reflexivity|reflexivity|]. eapply bsE_return. evsf. reflexivity. }
  destruct s as [|b3 s].
  { do 4 eexists. eapply bsE_seq; [eapply bsE_seq; [eapply bsE_decl0; evf; reflexivity|eapply bsE_decl0; evf; reflexivity]|].
    eapply bsE_seq; [eapply bsE_seq; [call_r8 ltac:(exact Hs)|no_err]|].
    eapply bsE_seq; [eapply bsE_if; [evsf; rewrite E1; evf; reflexivity|reflexivity|apply bsE_skip]|].
    eapply bsE_seq; [eapply bsE_seq; [call_r8 ltac:(exact Hs1)|no_err]|].
    eapply bsE_seq; [eapply bsE_if; [evsf; rewrite E2; evf; reflexivity|reflexivity|apply bsE_skip]|].
    eapply bsE_seq; [call_r8 ltac:(exact Hs2)|]. eapply bsE_return. evf. reflexivity. }
  do 3 eexists. eapply bsE_seq; [eapply bsE_seq; [eapply bsE_decl0; evf; reflexivity|eapply bsE_decl0; evf; reflexivity]|].
  eapply bsE_seq; [eapply bsE_seq; [call_r8 ltac:(exact Hs)|no_err]|].
  eapply bsE_seq; [eapply bsE_if; [evsf; rewrite E1; evf; reflexivity|reflexivity|apply bsE_skip]|].
  eapply bsE_seq; [eapply bsE_seq; [call_r8 ltac:(exact Hs1)|no_err]|].
  eapply bsE_seq; [eapply bsE_if; [evsf; rewrite E2; evf; reflexivity|reflexivity|apply bsE_skip]|].
  eapply bsE_seq; [call_r8 ltac:(exact Hs2)|]. eapply bsE_return. evf. reflexivity.
Qed.

Lemma sec_read_err s st : sec_read s = Err st -> st = SBDF_ERROR_IO \/ st = SBDF_ERROR_MAGIC_NUMBER_MISSING.
Proof.
  unfold sec_read, rd_bind, rfail. destruct s as [|b1 s]; cbn [read_int8]; [intros H; inversion H; now left|].
  destruct (negb (b1 =? 223)); [intros H; inversion H; now right|].
  destruct s as [|b2 s]; cbn [read_int8]; [intros H; inversion H; now left|].
  destruct (negb (b2 =? 91)); [intros H; inversion H; now right|].
  destruct s as [|b3 s]; cbn [read_int8]; intros H; inversion H. now left.
Qed.

Definition se (fr : region) (fo id : Z) (e v bv : val) (s o : list Z) : state :=
  {| vars := [("f"%string, VPtr fr fo); ("id"%string, VInt id); ("error"%string, e); ("v"%string, v); (budget_var, bv)]; inb := s; outb := o |}.

Lemma sec_expect_bs fr fo id e v bv s o : Forall byte s -> int_min <= id <= int_max ->
  match sec_expect id s with
  | Ok (_, s') => exists e' v', bsE prog_env (fbody prog_sbdf_sec_expect) (se fr fo id e v bv s o) (OReturn (VInt SBDF_OK) (se fr fo id e' v' bv s' o))
  | Err st => exists e' v' s', bsE prog_env (fbody prog_sbdf_sec_expect) (se fr fo id e v bv s o) (OReturn (VInt st) (se fr fo id e' v' bv s' o))
  end.
Proof.
  intros Hs Hid. cbn [fbody prog_sbdf_sec_expect]. unfold se, sec_expect, rd_bind, rfail, rret.
  pose proof (sec_read_bs fr ROut fo 0 VUndef VUndef VUndef VUndef bv s o Hs) as R.
  destruct (sec_read s) as [[x s']|st] eqn:ER.
  - destruct R as (e1 & v1 & r1 & B).
    destruct (x =? id) eqn:E; cbn [negb].
    + do 2 eexists. eapply bsE_seq; [eapply bsE_seq; [eapply bsE_decl0; evf; reflexivity|eapply bsE_decl0; evf; reflexivity]|].
      eapply bsE_seq; [eapply bsE_seq; [eapply bsE_call; [reflexivity|evc; reflexivity|reflexivity|exact B|unfold sr; evc; reflexivity]|no_err]|].
      eapply bsE_seq; [eapply bsE_if; [evsf; rewrite E; evf; reflexivity|reflexivity|apply bsE_skip]|].
      eapply bsE_return. evsf. reflexivity.
    + do 3 eexists. eapply bsE_seq; [eapply bsE_seq; [eapply bsE_decl0; evf; reflexivity|eapply bsE_decl0; evf; reflexivity]|].
      eapply bsE_seq; [eapply bsE_seq; [eapply bsE_call; [reflexivity|evc; reflexivity|reflexivity|exact B|unfold sr; evc; reflexivity]|no_err]|].
      eapply bsE_seq_ret. eapply bsE_if; [evsf; rewrite E; evf; reflexivity|reflexivity|]. eapply bsE_return. evsf. reflexivity.
  - destruct R as (e1 & v1 & r1 & s1 & B).
    destruct (sec_read_err s st ER) as [-> | ->].
    all: do 3 eexists; (eapply bsE_seq; [eapply bsE_seq; [eapply bsE_decl0; evf; reflexivity|eapply bsE_decl0; evf; reflexivity]|]);
         eapply bsE_seq_ret; (eapply bsE_seq; [eapply bsE_call; [reflexivity|evc; reflexivity|reflexivity|exact B|unfold sr; evc; reflexivity]|]);
         ret_err.
Qed.

(* ================================================================== the file header *)
Definition fw (fr : region) (fo : Z) (e : val) (B : Z) (o : list Z) : state :=
  {| vars := [("f"%string, VPtr fr fo); ("error"%string, e); (budget_var, VInt B)]; inb := []; outb := o |}.

Definition hdr : list Z := [223; 91; 1; 1; 0].

Lemma fh_write_cur_bs fr fo e B o : 0 <= B ->
  exists e', bsE prog_env (fbody prog_sbdf_fh_write_cur) (fw fr fo e B o)
    (OReturn (VInt (if 5 <=? B then SBDF_OK else SBDF_ERROR_IO)) (fw fr fo e' (B - zlen (ztake B hdr)) (o ++ ztake B hdr))).
Proof.
  intros HB. cbn [fbody prog_sbdf_fh_write_cur]. unfold fw, hdr.
  destruct (sec_write_bs fr fo 1 VUndef VUndef B o ltac:(small) HB) as (e1 & r1 & S).
  change (1 mod 256) with 1 in S.
  assert (C : B < 3 \/ B = 3 \/ B = 4 \/ 5 <= B) by lia.
  destruct C as [C|[->|[->|C]]].
  - replace (3 <=? B) with false in S by lia.
    eexists. eapply bsE_seq; [eapply bsE_decl0; evf; reflexivity|].
    eapply bsE_seq_ret. eapply bsE_seq; [eapply bsE_call; [reflexivity|evc; chk7; evc; reflexivity|reflexivity|exact S|unfold sw; evc; reflexivity]|].
    eapply bsE_cast_o; [ret_err|..].
    all: replace (5 <=? B) with false by lia; assert (T : ztake B [223; 91; 1; 1; 0] = ztake B [223; 91; 1])
           by (assert (B = 0 \/ B = 1 \/ B = 2) as [->|[->| ->]] by lia; reflexivity); rewrite T; reflexivity.
  - change (3 <=? 3) with true in S. change (ztake 3 [223; 91; 1]) with [223; 91; 1] in S. change (3 - zlen [223; 91; 1]) with 0 in S.
    eexists. eapply bsE_seq; [eapply bsE_decl0; evf; reflexivity|].
    eapply bsE_seq; [eapply bsE_seq; [eapply bsE_call; [reflexivity|evc; chk7; evc; reflexivity|reflexivity|exact S|unfold sw; evc; reflexivity]|no_err]|].
    eapply bsE_seq_ret. eapply bsE_seq; [call_w8 ltac:(small)|]. eapply bsE_cast_o; [ret_err|..].
    all: cbn; rewrite ?app_nil_r; reflexivity.
  - change (3 <=? 4) with true in S. change (ztake 4 [223; 91; 1]) with [223; 91; 1] in S. change (4 - zlen [223; 91; 1]) with 1 in S.
    eexists. eapply bsE_seq; [eapply bsE_decl0; evf; reflexivity|].
    eapply bsE_seq; [eapply bsE_seq; [eapply bsE_call; [reflexivity|evc; chk7; evc; reflexivity|reflexivity|exact S|unfold sw; evc; reflexivity]|no_err]|].
    eapply bsE_seq; [eapply bsE_seq; [call_w8 ltac:(small)|no_err]|].
    eapply bsE_seq_ret. eapply bsE_seq; [call_w8 ltac:(small)|]. eapply bsE_cast_o; [ret_err|..].
    all: cbn; rewrite <- ?app_assoc; reflexivity.
  - replace (3 <=? B) with true in S by lia. rewrite (ztake_all [223; 91; 1] B) in S by (cbn; lia). change (zlen [223; 91; 1]) with 3 in S.
    eexists. eapply bsE_seq; [eapply bsE_decl0; evf; reflexivity|].
    eapply bsE_seq; [eapply bsE_seq; [eapply bsE_call; [reflexivity|evc; chk7; evc; reflexivity|reflexivity|exact S|unfold sw; evc; reflexivity]|no_err]|].
    eapply bsE_seq; [eapply bsE_seq; [call_w8 ltac:(small)|no_err]|].
    eapply bsE_seq; [eapply bsE_seq; [call_w8 ltac:(small)|no_err]|].
    eapply bsE_cast_o; [eapply bsE_return; evsf; reflexivity|..].
    all: replace (5 <=? B) with true by lia; rewrite (ztake_all [223; 91; 1; 1; 0] B) by (cbn; lia); change (zlen [223; 91; 1; 1; 0]) with 5;
         rewrite <- !app_assoc; replace (B - 3 - 1 - 1) with (B - 5) by lia; reflexivity.
Qed.

Definition fr_st (fr r1 r2 : region) (fo o1 o2 : Z) (e ma mi c1 c2 bv : val) (s o : list Z) : state :=
  {| vars := [("f"%string, VPtr fr fo); ("major"%string, VPtr r1 o1); ("minor"%string, VPtr r2 o2); ("error"%string, e);
              ("imajor"%string, ma); ("iminor"%string, mi); ("*major"%string, c1); ("*minor"%string, c2); (budget_var, bv)]; inb := s; outb := o |}.

Lemma sec_expect_err id s st : sec_expect id s = Err st ->
  st = SBDF_ERROR_IO \/ st = SBDF_ERROR_MAGIC_NUMBER_MISSING \/ st = SBDF_ERROR_UNEXPECTED_SECTION_ID.
Proof.
  unfold sec_expect, rd_bind, rfail, rret. destruct (sec_read s) as [[x s']|e] eqn:E.
  - destruct (negb (x =? id)); intros H; inversion H. auto.
  - intros H. inversion H. subst. destruct (sec_read_err s st E); auto.
Qed.

Lemma fh_read_bs fr r1 r2 fo o1 o2 e ma mi c1 c2 bv s o : Forall byte s ->
  match fh_read s with
  | Ok ((major, minor), s') => exists e' ma' mi', bsE prog_env (fbody prog_sbdf_fh_read) (fr_st fr r1 r2 fo o1 o2 e ma mi c1 c2 bv s o)
         (OReturn (VInt SBDF_OK) (fr_st fr r1 r2 fo o1 o2 e' ma' mi' (VInt major) (VInt minor) bv s' o))
  | Err st => exists e' ma' mi' s', bsE prog_env (fbody prog_sbdf_fh_read) (fr_st fr r1 r2 fo o1 o2 e ma mi c1 c2 bv s o)
         (OReturn (VInt st) (fr_st fr r1 r2 fo o1 o2 e' ma' mi' c1 c2 bv s' o))
  end.
Proof.
  intros Hs. cbn [fbody prog_sbdf_fh_read]. unfold fr_st, fh_read, rd_bind, rret.
  pose proof (sec_expect_bs fr fo SBDF_FILEHEADER_SECTIONID VUndef VUndef bv s o Hs ltac:(unfold SBDF_FILEHEADER_SECTIONID; small)) as X.
  assert (Hs' : forall x s', sec_expect SBDF_FILEHEADER_SECTIONID s = Ok (x, s') -> Forall byte s').
  { unfold sec_expect, sec_read, rd_bind, rfail, rret. intros x s'.
    destruct s as [|b1 s1]; cbn [read_int8]; [discriminate|]. destruct (negb (b1 =? 223)); [discriminate|].
    destruct s1 as [|b2 s2]; cbn [read_int8]; [discriminate|]. destruct (negb (b2 =? 91)); [discriminate|].
    destruct s2 as [|b3 s3]; cbn [read_int8]; [discriminate|]. destruct (negb (b3 =? SBDF_FILEHEADER_SECTIONID)); [discriminate|].
    intros H. inversion H. subst. inversion Hs as [|? ? _ Q1]. inversion Q1 as [|? ? _ Q2]. inversion Q2 as [|? ? _ Q3]. exact Q3. }
  destruct (sec_expect SBDF_FILEHEADER_SECTIONID s) as [[[] s1]|st] eqn:EX.
  2: { destruct X as (e1 & v1 & s1 & B). destruct (sec_expect_err _ _ _ EX) as [-> |[-> | ->]].
       all: do 4 eexists; (eapply bsE_seq; [eapply bsE_seq; [eapply bsE_decl0; evf; reflexivity|eapply bsE_seq; [eapply bsE_decl0; evf; reflexivity|eapply bsE_decl0; evf; reflexivity]]|]);
            (eapply bsE_seq; [eapply bsE_if; [evf; reflexivity|reflexivity|apply bsE_skip]|]);
            eapply bsE_seq_ret; (eapply bsE_seq; [eapply bsE_call; [reflexivity|evc; chk7; evc; reflexivity|reflexivity|exact B|unfold se; evc; reflexivity]|]); ret_err. }
  destruct X as (e1 & v1 & B). specialize (Hs' tt s1 eq_refl).
  destruct s1 as [|b1 s2]; cbn [read_int8].
  { do 4 eexists. eapply bsE_seq; [eapply bsE_seq; [eapply bsE_decl0; evf; reflexivity|eapply bsE_seq; [eapply bsE_decl0; evf; reflexivity|eapply bsE_decl0; evf; reflexivity]]|].
    eapply bsE_seq; [eapply bsE_if; [evf; reflexivity|reflexivity|apply bsE_skip]|].
    eapply bsE_seq; [eapply bsE_seq; [eapply bsE_call; [reflexivity|evc; chk7; evc; reflexivity|reflexivity|exact B|unfold se; evc; reflexivity]|no_err]|].
    eapply bsE_seq_ret. eapply bsE_seq; [call_r8 ltac:(exact Hs')|]. ret_err. }
  inversion Hs' as [|? ? Hb1 Hs2]. subst.
  destruct s2 as [|b2 s3]; cbn [read_int8].
  { do 4 eexists. eapply bsE_seq; [eapply bsE_seq; [eapply bsE_decl0; evf; reflexivity|eapply bsE_seq; [eapply bsE_decl0; evf; reflexivity|eapply bsE_decl0; evf; reflexivity]]|].
    eapply bsE_seq; [eapply bsE_if; [evf; reflexivity|reflexivity|apply bsE_skip]|].
    eapply bsE_seq; [eapply bsE_seq; [eapply bsE_call; [reflexivity|evc; chk7; evc; reflexivity|reflexivity|exact B|unfold se; evc; reflexivity]|no_err]|].
    eapply bsE_seq; [eapply bsE_seq; [call_r8 ltac:(exact Hs')|no_err]|].
    eapply bsE_seq_ret. eapply bsE_seq; [call_r8 ltac:(exact Hs2)|]. ret_err. }
  do 3 eexists. eapply bsE_seq; [eapply bsE_seq; [eapply bsE_decl0; evf; reflexivity|eapply bsE_seq; [eapply bsE_decl0; evf; reflexivity|eapply bsE_decl0; evf; reflexivity]]|].
  eapply bsE_seq; [eapply bsE_if; [evf; reflexivity|reflexivity|apply bsE_skip]|].
  eapply bsE_seq; [eapply bsE_seq; [eapply bsE_call; [reflexivity|evc; chk7; evc; reflexivity|reflexivity|exact B|unfold se; evc; reflexivity]|no_err]|].
  eapply bsE_seq; [eapply bsE_seq; [call_r8 ltac:(exact Hs')|no_err]|].
  eapply bsE_seq; [eapply bsE_seq; [call_r8 ltac:(exact Hs2)|no_err]|].
  eapply bsE_seq; [eapply bsE_expr; evf; reflexivity|]. eapply bsE_seq; [eapply bsE_expr; evf; reflexivity|]. eapply bsE_return. evsf. reflexivity.
Qed.

(* ================================================================== value type ids *)
Definition vw (fr : region) (fo id : Z) (e : val) (B : Z) (o : list Z) : state :=
  {| vars := [("f"%string, VPtr fr fo); ("v"%string, VInt id); ("err"%string, e); (budget_var, VInt B)]; inb := []; outb := o |}.

Lemma vt_write_bs fr fo id e B o : int_min <= id <= int_max -> 0 <= B ->
  exists e', bsE prog_env (fbody prog_sbdf_vt_write) (vw fr fo id e B o)
    (OReturn (VInt (if 1 <=? B then SBDF_OK else SBDF_ERROR_IO)) (vw fr fo id e' (B - zlen (ztake B [id mod 256])) (o ++ ztake B [id mod 256]))).
Proof.
  intros Hid HB. cbn [fbody prog_sbdf_vt_write]. unfold vw.
  assert (C : B = 0 \/ 1 <= B) by lia. destruct C as [->|C].
  - eexists. eapply bsE_seq; [eapply bsE_decl0; evf; reflexivity|].
    eapply bsE_seq_ret. eapply bsE_seq; [call_w8 ltac:(exact Hid)|]. eapply bsE_cast_o; [ret_err|..].
    all: cbn; rewrite ?app_nil_r; reflexivity.
  - eexists. eapply bsE_seq; [eapply bsE_decl0; evf; reflexivity|].
    eapply bsE_seq; [eapply bsE_seq; [call_w8 ltac:(exact Hid)|no_err]|].
    eapply bsE_cast_o; [eapply bsE_return; evsf; reflexivity|..].
    all: replace (1 <=? B) with true by lia; rewrite (ztake_all [id mod 256] B) by (cbn; lia); reflexivity.
Qed.

Definition vr (fr pr : region) (fo po : Z) (e cell bv : val) (s o : list Z) : state :=
  {| vars := [("f"%string, VPtr fr fo); ("v"%string, VPtr pr po); ("err"%string, e); ("*v"%string, cell); (budget_var, bv)]; inb := s; outb := o |}.

Lemma vt_read_bs fr pr fo po e cell bv s o : Forall byte s ->
  match vt_read s with
  | Ok (x, s') => exists e', bsE prog_env (fbody prog_sbdf_vt_read) (vr fr pr fo po e cell bv s o) (OReturn (VInt SBDF_OK) (vr fr pr fo po e' (VInt x) bv s' o))
  | Err st => exists e' c', bsE prog_env (fbody prog_sbdf_vt_read) (vr fr pr fo po e cell bv s o) (OReturn (VInt st) (vr fr pr fo po e' c' bv s o))
  end.
Proof.
  intros Hs. cbn [fbody prog_sbdf_vt_read]. unfold vr, vt_read. destruct s as [|b s']; cbn [read_int8].
  - do 2 eexists. eapply bsE_seq; [eapply bsE_decl0; evf; reflexivity|].
    eapply bsE_seq; [eapply bsE_if; [evf; reflexivity|reflexivity|apply bsE_skip]|].
    eapply bsE_seq; [eapply bsE_expr; evsf; reflexivity|].
    eapply bsE_seq_ret. eapply bsE_seq; [call_r8 ltac:(exact Hs)|]. ret_err.
  - eexists. eapply bsE_seq; [eapply bsE_decl0; evf; reflexivity|].
    eapply bsE_seq; [eapply bsE_if; [evf; reflexivity|reflexivity|apply bsE_skip]|].
    eapply bsE_seq; [eapply bsE_expr; evsf; reflexivity|].
    eapply bsE_seq; [eapply bsE_seq; [call_r8 ltac:(exact Hs)|no_err]|]. eapply bsE_return. evsf. reflexivity.
Qed.

(* ================================================================== as calls, with the interpreter's fuel *)
Definition tok : val := cell_token.

Theorem sec_read_source s B : Forall byte s ->
  exists f0, forall f, (f0 <= f)%nat ->
  match sec_read s with
  | Ok (x, s') => exists fin, callE prog_env f prog_sbdf_sec_read [tok; tok] s B = OReturn (VInt SBDF_OK) fin /\
                              lookup "*id" (vars fin) = Some (VInt x) /\ inb fin = s' /\ outb fin = []
  | Err st => exists fin, callE prog_env f prog_sbdf_sec_read [tok; tok] s B = OReturn (VInt st) fin /\ outb fin = []
  end.
Proof.
  intros Hs. pose proof (sec_read_bs ROut ROut 0 0 VUndef VUndef VUndef VUndef (VInt B) s [] Hs) as H.
  destruct (sec_read s) as [[x s']|st].
  - destruct H as (e' & v' & r' & Bs). destruct (bsE_sound _ _ _ _ Bs) as (f0 & F). exists f0. intros f Hf. eexists.
    split; [apply F; exact Hf|]. repeat split.
  - destruct H as (e' & v' & r' & s1 & Bs). destruct (bsE_sound _ _ _ _ Bs) as (f0 & F). exists f0. intros f Hf. eexists.
    split; [apply F; exact Hf|]. reflexivity.
Qed.

Theorem sec_expect_source id s B : Forall byte s -> int_min <= id <= int_max ->
  exists f0, forall f, (f0 <= f)%nat ->
  match sec_expect id s with
  | Ok (_, s') => exists fin, callE prog_env f prog_sbdf_sec_expect [tok; VInt id] s B = OReturn (VInt SBDF_OK) fin /\ inb fin = s' /\ outb fin = []
  | Err st => exists fin, callE prog_env f prog_sbdf_sec_expect [tok; VInt id] s B = OReturn (VInt st) fin /\ outb fin = []
  end.
Proof.
  intros Hs Hid. pose proof (sec_expect_bs ROut 0 id VUndef VUndef (VInt B) s [] Hs Hid) as H.
  destruct (sec_expect id s) as [[x s']|st].
  - destruct H as (e' & v' & Bs). destruct (bsE_sound _ _ _ _ Bs) as (f0 & F). exists f0. intros f Hf. eexists.
    split; [apply F; exact Hf|]. repeat split.
  - destruct H as (e' & v' & s1 & Bs). destruct (bsE_sound _ _ _ _ Bs) as (f0 & F). exists f0. intros f Hf. eexists.
    split; [apply F; exact Hf|]. reflexivity.
Qed.

Theorem fh_read_source s B : Forall byte s ->
  exists f0, forall f, (f0 <= f)%nat ->
  match fh_read s with
  | Ok ((major, minor), s') => exists fin, callE prog_env f prog_sbdf_fh_read [tok; tok; tok] s B = OReturn (VInt SBDF_OK) fin /\
        lookup "*major" (vars fin) = Some (VInt major) /\ lookup "*minor" (vars fin) = Some (VInt minor) /\ inb fin = s' /\ outb fin = []
  | Err st => exists fin, callE prog_env f prog_sbdf_fh_read [tok; tok; tok] s B = OReturn (VInt st) fin /\ outb fin = []
  end.
Proof.
  intros Hs. pose proof (fh_read_bs ROut ROut ROut 0 0 0 VUndef VUndef VUndef VUndef VUndef (VInt B) s [] Hs) as H.
  destruct (fh_read s) as [[[ma mi] s']|st].
  - destruct H as (e' & a' & i' & Bs). destruct (bsE_sound _ _ _ _ Bs) as (f0 & F). exists f0. intros f Hf. eexists.
    split; [apply F; exact Hf|]. repeat split.
  - destruct H as (e' & a' & i' & s1 & Bs). destruct (bsE_sound _ _ _ _ Bs) as (f0 & F). exists f0. intros f Hf. eexists.
    split; [apply F; exact Hf|]. reflexivity.
Qed.

Theorem vt_read_source s B : Forall byte s ->
  exists f0, forall f, (f0 <= f)%nat ->
  match vt_read s with
  | Ok (x, s') => exists fin, callE prog_env f prog_sbdf_vt_read [tok; tok] s B = OReturn (VInt SBDF_OK) fin /\
                              lookup "*v" (vars fin) = Some (VInt x) /\ inb fin = s' /\ outb fin = []
  | Err st => exists fin, callE prog_env f prog_sbdf_vt_read [tok; tok] s B = OReturn (VInt st) fin /\ outb fin = []
  end.
Proof.
  intros Hs. pose proof (vt_read_bs ROut ROut 0 0 VUndef VUndef (VInt B) s [] Hs) as H.
  destruct (vt_read s) as [[x s']|st].
  - destruct H as (e' & Bs). destruct (bsE_sound _ _ _ _ Bs) as (f0 & F). exists f0. intros f Hf. eexists.
    split; [apply F; exact Hf|]. repeat split.
  - destruct H as (e' & c' & Bs). destruct (bsE_sound _ _ _ _ Bs) as (f0 & F). exists f0. intros f Hf. eexists.
    split; [apply F; exact Hf|]. reflexivity.
Qed.

(* writers: under every budget the bytes accepted are the first `budget` bytes of the encoding, OK iff all were *)
Theorem sec_write_source id B : int_min <= id <= int_max -> 0 <= B ->
  exists f0, forall f, (f0 <= f)%nat -> exists fin,
    callE prog_env f prog_sbdf_sec_write [tok; VInt id] [] B = OReturn (VInt (if 3 <=? B then SBDF_OK else SBDF_ERROR_IO)) fin /\
    outb fin = ztake B [223; 91; id mod 256].
Proof.
  intros Hid HB. destruct (sec_write_bs ROut 0 id VUndef VUndef B [] Hid HB) as (e' & r' & Bs).
  destruct (bsE_sound _ _ _ _ Bs) as (f0 & F). exists f0. intros f Hf. eexists. split; [apply F; exact Hf|]. reflexivity.
Qed.

Theorem fh_write_cur_source B : 0 <= B ->
  exists f0, forall f, (f0 <= f)%nat -> exists fin,
    callE prog_env f prog_sbdf_fh_write_cur [tok] [] B = OReturn (VInt (if 5 <=? B then SBDF_OK else SBDF_ERROR_IO)) fin /\
    outb fin = ztake B hdr.
Proof.
  intros HB. destruct (fh_write_cur_bs ROut 0 VUndef B [] HB) as (e' & Bs).
  destruct (bsE_sound _ _ _ _ Bs) as (f0 & F). exists f0. intros f Hf. eexists. split; [apply F; exact Hf|]. reflexivity.
Qed.

Theorem vt_write_source id B : int_min <= id <= int_max -> 0 <= B ->
  exists f0, forall f, (f0 <= f)%nat -> exists fin,
    callE prog_env f prog_sbdf_vt_write [tok; VInt id] [] B = OReturn (VInt (if 1 <=? B then SBDF_OK else SBDF_ERROR_IO)) fin /\
    outb fin = ztake B [id mod 256].
Proof.
  intros Hid HB. destruct (vt_write_bs ROut 0 id VUndef B [] Hid HB) as (e' & Bs).
  destruct (bsE_sound _ _ _ _ Bs) as (f0 & F). exists f0. intros f Hf. eexists. split; [apply F; exact Hf|]. reflexivity.
Qed.

(* ================================================================== 32-bit integers (default configuration) *)
Ltac evi := cbn [eval lookup update set_var String.eqb Ascii.eqb Bool.eqb vars inb outb truth cast binop_int binop_uint is_shift b2z fst snd negb budget_var];
  change (0 =? 0) with true; change (1 =? 0) with false; cbn [negb b2z].
Ltac evci := cbn [prog_env eval_args callee_init finish_call copy_in copy_out try_update update lookup combine map app String.append
                 String.eqb Ascii.eqb Bool.eqb fparams flocals fbody vars inb outb budget_var fail_var cell_token List.length Nat.eqb eval set_var cast
                 prog_sbdf_swap_le prog_sbdf_read_int32 prog_sbdf_write_int32].

Definition ri (fr pr : region) (fo po : Z) (cell bv : val) (s o : list Z) : state :=
  {| vars := [("f"%string, VPtr fr fo); ("v"%string, VPtr pr po); ("*v"%string, cell); (budget_var, bv)]; inb := s; outb := o |}.

Lemma read_int32_model s : read_int32 false s =
  match s with
  | b0 :: b1 :: b2 :: b3 :: r => Ok (de32 [b0; b1; b2; b3], r)
  | _ => Err SBDF_ERROR_IO
  end.
Proof.
  unfold read_int32, rd_bind, fread_bytes, rret, swapb. change (4 <? 0) with false. cbv iota.
  destruct s as [|b0 [|b1 [|b2 [|b3 r]]]]; try reflexivity.
  cbn [take_z]. change (4 =? 0) with false. change (4 - 1 =? 0) with false. change (4 - 1 - 1 =? 0) with false. change (4 - 1 - 1 - 1 =? 0) with false.
  change (4 - 1 - 1 - 1 - 1 =? 0) with true. cbv iota. destruct r; reflexivity.
Qed.

Lemma swap_noop_call ret args s vals cells s1 :
  eval_args args s = Some (vals, cells, s1) -> List.length vals = 3%nat ->
  finish_call ret prog_sbdf_swap_le cells s1 (callee_init prog_sbdf_swap_le vals cells s1) VUndef = Some s1 ->
  bsE prog_env (SCall ret "sbdf_swap" args) s (ONormal s1).
Proof.
  intros Ha Hl Hf. eapply bsE_call_void; [reflexivity|exact Ha|exact Hl|apply bsE_skip|exact Hf].
Qed.

Lemma read_int32_bs fr pr fo po cell bv s o : Forall byte s ->
  match read_int32 false s with
  | Ok (x, s') => bsE prog_env (fbody prog_sbdf_read_int32) (ri fr pr fo po cell bv s o) (OReturn (VInt SBDF_OK) (ri fr pr fo po (VInt x) bv s' o))
  | Err st => exists c' s', bsE prog_env (fbody prog_sbdf_read_int32) (ri fr pr fo po cell bv s o) (OReturn (VInt st) (ri fr pr fo po c' bv s' o))
  end.
Proof.
  intros Hs. rewrite read_int32_model. cbn [fbody prog_sbdf_read_int32]. unfold ri.
  destruct s as [|b0 [|b1 [|b2 [|b3 r]]]].
  1-4: do 2 eexists; (eapply bsE_seq; [eapply bsE_if; [evi; reflexivity|reflexivity|apply bsE_skip]|]);
       eapply bsE_seq_ret; (eapply bsE_if; [evi; reflexivity|reflexivity|]); eapply bsE_return; evi; chk7; evi; reflexivity.
  assert (Hb : byte b0 /\ byte b1 /\ byte b2 /\ byte b3).
  { inversion Hs as [|? ? G0 Q0]. inversion Q0 as [|? ? G1 Q1]. inversion Q1 as [|? ? G2 Q2]. inversion Q2 as [|? ? G3 Q3]. auto. }
  destruct Hb as (G0 & G1 & G2 & G3). unfold byte in *.
  assert (Ev : (b0 + 256 * b1 + 65536 * b2 + 16777216 * b3 + 2147483648) mod u32 - 2147483648 = de32 [b0; b1; b2; b3]).
  { unfold de32, to_i32, u32. cbn [le_dec]. destruct (b0 + 256 * (b1 + 256 * (b2 + 256 * (b3 + 256 * 0))) <? 2147483648) eqn:E; lia. }
  eapply bsE_seq; [eapply bsE_if; [evi; reflexivity|reflexivity|apply bsE_skip]|].
  eapply bsE_seq; [eapply bsE_if; [evi; reflexivity|reflexivity|apply bsE_skip]|].
  eapply bsE_seq; [eapply swap_noop_call; [evci; chk7; reflexivity|reflexivity|evci; reflexivity]|].
  eapply bsE_return. evi. chk7. rewrite Ev. reflexivity.
Qed.

Definition wi (fr : region) (fo v B : Z) (m o : list Z) : state :=
  {| vars := [("f"%string, VPtr fr fo); ("v"%string, VInt v); (budget_var, VInt B)]; inb := m; outb := o |}.

Lemma write_int32_bs fr fo v B m o : int_min <= v <= int_max -> 0 <= B ->
  bsE prog_env (fbody prog_sbdf_write_int32) (wi fr fo v B m o)
    (OReturn (VInt (if 4 <=? B then SBDF_OK else SBDF_ERROR_IO)) (wi fr fo v (B - zlen (ztake B (le32 v))) m (o ++ ztake B (le32 v)))).
Proof.
  intros Hv HB. cbn [fbody prog_sbdf_write_int32]. unfold wi.
  eapply bsE_seq; [eapply bsE_if; [evi; reflexivity|reflexivity|apply bsE_skip]|].
  eapply bsE_seq; [eapply swap_noop_call; [evci; chk7; reflexivity|reflexivity|evci; reflexivity]|].
  destruct (4 <=? B) eqn:EB.
  - eapply bsE_seq; [eapply bsE_if; [evi; rewrite EB; evi; reflexivity|reflexivity|apply bsE_skip]|].
    eapply bsE_cast_o; [eapply bsE_return; evi; chk7; reflexivity|].
    rewrite (ztake_all (le32 v) B) by (cbn; lia). change (zlen (le32 v)) with 4. reflexivity.
  - eapply bsE_seq_ret. eapply bsE_if; [evi; rewrite EB; evi; reflexivity|reflexivity|].
    eapply bsE_cast_o; [eapply bsE_return; evi; chk7; reflexivity|].
    assert (C : B = 0 \/ B = 1 \/ B = 2 \/ B = 3) by lia. destruct C as [->|[->|[->| ->]]]; reflexivity.
Qed.

Theorem read_int32_source s B : Forall byte s ->
  exists f0, forall f, (f0 <= f)%nat ->
  match read_int32 false s with
  | Ok (x, s') => exists fin, callE prog_env f prog_sbdf_read_int32 [tok; tok] s B = OReturn (VInt SBDF_OK) fin /\
                              lookup "*v" (vars fin) = Some (VInt x) /\ inb fin = s' /\ outb fin = []
  | Err st => exists fin, callE prog_env f prog_sbdf_read_int32 [tok; tok] s B = OReturn (VInt st) fin /\ outb fin = []
  end.
Proof.
  intros Hs. pose proof (read_int32_bs ROut ROut 0 0 VUndef (VInt B) s [] Hs) as H.
  destruct (read_int32 false s) as [[x s']|st].
  - destruct (bsE_sound _ _ _ _ H) as (f0 & F). exists f0. intros f Hf. eexists. split; [apply F; exact Hf|]. repeat split.
  - destruct H as (c' & s1 & Bs). destruct (bsE_sound _ _ _ _ Bs) as (f0 & F). exists f0. intros f Hf. eexists. split; [apply F; exact Hf|]. reflexivity.
Qed.

Theorem write_int32_source v B : int_min <= v <= int_max -> 0 <= B ->
  exists f0, forall f, (f0 <= f)%nat -> exists fin,
    callE prog_env f prog_sbdf_write_int32 [tok; VInt v] [] B = OReturn (VInt (if 4 <=? B then SBDF_OK else SBDF_ERROR_IO)) fin /\
    outb fin = ztake B (le32 v).
Proof.
  intros Hv HB. pose proof (write_int32_bs ROut 0 v B [] [] Hv HB) as Bs.
  destruct (bsE_sound _ _ _ _ Bs) as (f0 & F). exists f0. intros f Hf. eexists. split; [apply F; exact Hf|]. reflexivity.
Qed.

(* ================================================================== skipping a string; the growth function *)
Lemma drop_z_skipn {A} (s : list A) : forall k, 0 <= k -> drop_z s k = skipn (Z.to_nat k) s.
Proof.
  induction s as [|x s IH]; intros k Hk.
  - cbn [drop_z]. destruct (k <=? 0); now rewrite skipn_nil.
  - cbn [drop_z]. destruct (k <=? 0) eqn:E.
    + assert (k = 0) by lia. subst. reflexivity.
    + rewrite IH by lia. replace (Z.to_nat k) with (S (Z.to_nat (k - 1))) by lia. reflexivity.
Qed.

Definition sk (fr : region) (fo : Z) (e l bv : val) (s o : list Z) : state :=
  {| vars := [("f"%string, VPtr fr fo); ("error"%string, e); ("l"%string, l); (budget_var, bv)]; inb := s; outb := o |}.

Lemma read_int32_err s st : read_int32 false s = Err st -> st = SBDF_ERROR_IO.
Proof. rewrite read_int32_model. destruct s as [|b0 [|b1 [|b2 [|b3 r]]]]; intros H; now inversion H. Qed.

Lemma de32_range bs : Forall byte bs -> List.length bs = 4%nat -> int_min <= de32 bs <= int_max.
Proof.
  intros Hb Hl. destruct bs as [|b0 [|b1 [|b2 [|b3 [|]]]]]; try discriminate.
  inversion Hb as [|? ? G0 Q0]. inversion Q0 as [|? ? G1 Q1]. inversion Q1 as [|? ? G2 Q2]. inversion Q2 as [|? ? G3 Q3]. unfold byte in *.
  unfold de32, to_i32, int_min, int_max. cbn [le_dec]. destruct (b0 + 256 * (b1 + 256 * (b2 + 256 * (b3 + 256 * 0))) <? 2147483648) eqn:E; lia.
Qed.

Lemma skip_string_bs fr fo e l bv s o : Forall byte s ->
  match skip_string false s with
  | Ok (_, s') => exists e' l', bsE prog_env (fbody prog_sbdf_skip_string) (sk fr fo e l bv s o) (OReturn (VInt SBDF_OK) (sk fr fo e' l' bv s' o))
  | Err st => exists e' l' s', bsE prog_env (fbody prog_sbdf_skip_string) (sk fr fo e l bv s o) (OReturn (VInt st) (sk fr fo e' l' bv s' o))
  end.
Proof.
  intros Hs. unfold skip_string, rd_bind, rfail, fseek_cur. cbn [fbody prog_sbdf_skip_string]. unfold sk.
  pose proof (read_int32_bs fr ROut fo 0 VUndef bv s o Hs) as R.
  pose proof (read_int32_model s) as M.
  destruct (read_int32 false s) as [[x s1]|st] eqn:ER.
  - assert (Hx : int_min <= x <= int_max).
    { destruct s as [|b0 [|b1 [|b2 [|b3 r]]]]; try discriminate. inversion M. subst.
      apply de32_range; [|reflexivity]. inversion Hs as [|? ? G0 Q0]. inversion Q0 as [|? ? G1 Q1]. inversion Q1 as [|? ? G2 Q2]. inversion Q2 as [|? ? G3 Q3].
      subst. constructor; [exact G0|]. constructor; [exact G1|]. constructor; [exact G2|]. constructor; [exact G3|constructor]. }
    destruct (x <? 0) eqn:Ex.
    + do 3 eexists. eapply bsE_seq; [eapply bsE_seq; [eapply bsE_decl0; evi; reflexivity|eapply bsE_decl0; evi; reflexivity]|].
      eapply bsE_seq; [eapply bsE_seq; [eapply bsE_call; [reflexivity|evci; reflexivity|reflexivity|exact R|unfold ri; evci; reflexivity]|no_err]|].
      eapply bsE_seq_ret. eapply bsE_if; [evi; chk7; evi; rewrite Ex; reflexivity|reflexivity|]. eapply bsE_return. evi. chk7. reflexivity.
    + do 2 eexists. eapply bsE_seq; [eapply bsE_seq; [eapply bsE_decl0; evi; reflexivity|eapply bsE_decl0; evi; reflexivity]|].
      eapply bsE_seq; [eapply bsE_seq; [eapply bsE_call; [reflexivity|evci; reflexivity|reflexivity|exact R|unfold ri; evci; reflexivity]|no_err]|].
      eapply bsE_seq; [eapply bsE_if; [evi; chk7; evi; rewrite Ex; reflexivity|reflexivity|apply bsE_skip]|].
      eapply bsE_seq; [eapply bsE_if; [evi; replace (0 <=? x) with true by lia; reflexivity|reflexivity|apply bsE_skip]|].
      eapply bsE_cast_o; [eapply bsE_return; evi; chk7; reflexivity|]. cbn [inb]. rewrite drop_z_skipn by lia. reflexivity.
  - destruct R as (c' & s1 & B). pose proof (read_int32_err s st ER). subst st.
    do 3 eexists. eapply bsE_seq; [eapply bsE_seq; [eapply bsE_decl0; evi; reflexivity|eapply bsE_decl0; evi; reflexivity]|].
    eapply bsE_seq_ret. eapply bsE_seq; [eapply bsE_call; [reflexivity|evci; reflexivity|reflexivity|exact B|unfold ri; evci; reflexivity]|]. ret_err.
Qed.

(* ---- sbdf_calculate_array_capacity ---- *)
Definition cap_st (size c : Z) : state :=
  {| vars := [("size"%string, VInt size); ("cap"%string, VInt c); (budget_var, VInt 0)]; inb := []; outb := [] |}.

Definition cap_step (c : Z) : Z := 1 + c * 3 / 2.
Fixpoint cap_iter (f : nat) (c : Z) : Z := match f with O => c | S f' => cap_iter f' (cap_step c) end.

Lemma cap_loop_or_iter f : forall c size, size <= cap_loop f c size \/ cap_loop f c size = cap_iter f c.
Proof.
  induction f as [|f IH]; intros c size; cbn [cap_loop cap_iter]; [now right|].
  destruct (c <? size) eqn:E; [apply IH|left; lia].
Qed.

Lemma cap_loop_enough size : size <= 715827882 -> size <= array_capacity size.
Proof.
  intros H. unfold array_capacity. destruct (cap_loop_or_iter 64 0 size) as [G|G]; [exact G|].
  rewrite G. assert (E : 715827882 <= cap_iter 64 0) by (vm_compute; discriminate). lia.
Qed.

Lemma cap_loop_prog f : forall c size, 0 <= c -> size <= 715827882 -> size <= cap_loop f c size ->
  bsE prog_env (loop2 (fbody prog_sbdf_calculate_array_capacity)) (cap_st size c) (ONormal (cap_st size (cap_loop f c size))).
Proof.
  cbn [loop2 fbody prog_sbdf_calculate_array_capacity].
  induction f as [|f IH]; intros c size Hc Hs Hen; cbn [cap_loop] in *.
  - unfold cap_st. eapply bsE_while_f; [evi; reflexivity|]. cbn [truth b2z]. replace (c <? size) with false by lia. reflexivity.
  - destruct (c <? size) eqn:E.
    + assert (Hq : Z.quot (c * 3) 2 = c * 3 / 2) by (apply Z.quot_div_nonneg; lia).
      eapply bsE_while_t.
      * unfold cap_st. evi. reflexivity.
      * cbn [truth b2z]. rewrite E. reflexivity.
      * eapply bsE_expr. unfold cap_st. evi. chk7. evi. chk7. evi. change (2 =? 0) with false. cbv iota. rewrite Hq. chk7. evi. chk7. reflexivity.
      * apply IH; [unfold cap_step; lia|exact Hs|exact Hen].
    + unfold cap_st. eapply bsE_while_f; [evi; reflexivity|]. cbn [truth b2z]. rewrite E. reflexivity.
Qed.

Theorem capacity_source size : int_min <= size <= 715827882 ->
  exists f0, forall f, (f0 <= f)%nat -> exists fin,
    callE prog_env f prog_sbdf_calculate_array_capacity [VInt size] [] 0 = OReturn (VInt (array_capacity size)) fin.
Proof.
  intros Hs. pose proof (cap_loop_enough size ltac:(lia)) as En. unfold array_capacity in *.
  pose proof (cap_loop_prog 64 0 size ltac:(lia) ltac:(lia) En) as L. cbn [loop2 fbody prog_sbdf_calculate_array_capacity] in L.
  assert (B : exists fin, bsE prog_env (fbody prog_sbdf_calculate_array_capacity)
     {| vars := [("size"%string, VInt size); ("cap"%string, VUndef); (budget_var, VInt 0)]; inb := []; outb := [] |} (OReturn (VInt (cap_loop 64 0 size)) fin)).
  { eexists. cbn [fbody prog_sbdf_calculate_array_capacity].
    eapply bsE_seq; [eapply bsE_decl1; [evi; chk7; reflexivity|evi; reflexivity]|].
    eapply bsE_seq; [exact L|]. eapply bsE_return. unfold cap_st. evi. reflexivity. }
  destruct B as (fin & B). destruct (bsE_sound _ _ _ _ B) as (f0 & F). exists f0. intros f Hf. exists fin. apply F. exact Hf.
Qed.

Theorem skip_string_source s B : Forall byte s ->
  exists f0, forall f, (f0 <= f)%nat ->
  match skip_string false s with
  | Ok (_, s') => exists fin, callE prog_env f prog_sbdf_skip_string [tok] s B = OReturn (VInt SBDF_OK) fin /\ inb fin = s' /\ outb fin = []
  | Err st => exists fin, callE prog_env f prog_sbdf_skip_string [tok] s B = OReturn (VInt st) fin /\ outb fin = []
  end.
Proof.
  intros Hs. pose proof (skip_string_bs ROut 0 VUndef VUndef (VInt B) s [] Hs) as H.
  destruct (skip_string false s) as [[x s']|st].
  - destruct H as (e' & l' & Bs). destruct (bsE_sound _ _ _ _ Bs) as (f0 & F). exists f0. intros f Hf. eexists. split; [apply F; exact Hf|]. split; reflexivity.
  - destruct H as (e' & l' & s1 & Bs). destruct (bsE_sound _ _ _ _ Bs) as (f0 & F). exists f0. intros f Hf. eexists. split; [apply F; exact Hf|]. reflexivity.
Qed.

(* ================================================================== strings as stored (length header) and their writer *)
(* an sbdf string in memory: the int header (length + 1 for the terminator, little-endian on this host),
   the bytes, the terminator; the char* the API hands around points at the first byte *)
Definition str_mem (pre bytes post : list Z) : list Z := pre ++ le32 (zlen bytes + 1) ++ bytes ++ [0] ++ post.

Ltac evs2 := cbn [prog_env eval_args callee_init finish_call copy_in copy_out try_update update lookup combine map app String.append
                 String.eqb Ascii.eqb Bool.eqb fparams flocals fbody vars inb outb budget_var fail_var cell_token List.length Nat.eqb eval set_var cast
                 prog_sbdf_get_array_length prog_sbdf_str_len prog_sbdf_write_string prog_sbdf_write_int32 truth binop_int b2z negb].

Lemma skipn_app_zlen {A} (a b : list A) : skipn (Z.to_nat (zlen a)) (a ++ b) = b.
Proof. unfold zlen. rewrite Nat2Z.id. induction a; cbn; auto. Qed.

Lemma le32_decode n : 0 <= n < 2147483648 ->
  match le32 n with
  | [b0; b1; b2; b3] => (b0 + 256 * b1 + 65536 * b2 + 16777216 * b3 + 2147483648) mod u32 - 2147483648 = n
  | _ => False
  end.
Proof. intros H. unfold le32, to_u32, u32. cbv zeta. lia. Qed.

Definition ga (p : Z) (bv : val) (m o : list Z) : state :=
  {| vars := [("array"%string, VPtr RIn p); (budget_var, bv)]; inb := m; outb := o |}.

Lemma get_array_length_bs pre bytes post bv o : zlen bytes + 1 < 2147483648 ->
  bsE prog_env (fbody prog_sbdf_get_array_length) (ga (zlen pre + 4) bv (str_mem pre bytes post) o)
      (OReturn (VInt (zlen bytes + 1)) (ga (zlen pre + 4) bv (str_mem pre bytes post) o)).
Proof.
  intros Hl. cbn [fbody prog_sbdf_get_array_length]. unfold ga. pose proof (zlen_nonneg bytes) as Pb. pose proof (zlen_nonneg pre) as Pp.
  eapply bsE_return. cbn [eval lookup String.eqb Ascii.eqb Bool.eqb vars binop_int]. chk7. cbn [inb].
  replace (zlen pre + 4 + 4 * (0 - 1)) with (zlen pre) by lia.
  unfold str_mem. rewrite skipn_app_zlen.
  assert (Hlen : (0 <=? zlen pre) && (zlen pre + 4 <=? Z.of_nat (List.length (pre ++ le32 (zlen bytes + 1) ++ bytes ++ [0] ++ post))) = true).
  { rewrite zlen_length, !zlen_app. change (zlen (le32 (zlen bytes + 1))) with 4. pose proof (zlen_nonneg (bytes ++ [0] ++ post)). rewrite <- !zlen_app. lia. }
  rewrite Hlen. pose proof (le32_decode (zlen bytes + 1) ltac:(lia)) as D.
  unfold le32 in *. cbv zeta in *. cbn [app]. rewrite D. reflexivity.
Qed.

Definition sl (p : Z) (c bv : val) (m o : list Z) : state :=
  {| vars := [("str"%string, VPtr RIn p); ("$c1"%string, c); (budget_var, bv)]; inb := m; outb := o |}.

Lemma str_len_bs pre bytes post c bv o : zlen bytes + 1 < 2147483648 ->
  bsE prog_env (fbody prog_sbdf_str_len) (sl (zlen pre + 4) c bv (str_mem pre bytes post) o)
      (OReturn (VInt (zlen bytes)) (sl (zlen pre + 4) (VInt (zlen bytes + 1)) bv (str_mem pre bytes post) o)).
Proof.
  intros Hl. cbn [fbody prog_sbdf_str_len]. unfold sl. pose proof (zlen_nonneg bytes) as Pb.
  eapply bsE_seq.
  - eapply bsE_call; [reflexivity|evs2; reflexivity|reflexivity|apply (get_array_length_bs pre bytes post bv o Hl)|unfold ga; evs2; reflexivity].
  - eapply bsE_return. evs2. chk7. replace (zlen bytes + 1 - 1) with (zlen bytes) by lia. reflexivity.
Qed.

Definition ws (fr : region) (fo p : Z) (e l : val) (B : Z) (m o : list Z) : state :=
  {| vars := [("f"%string, VPtr fr fo); ("s"%string, VPtr RIn p); ("error"%string, e); ("l"%string, l); (budget_var, VInt B)]; inb := m; outb := o |}.

Lemma write_string_bs fr fo pre bytes post e l B o : zlen bytes + 1 < 2147483648 -> 0 <= B ->
  exists e' B', bsE prog_env (fbody prog_sbdf_write_string) (ws fr fo (zlen pre + 4) e l B (str_mem pre bytes post) o)
      (OReturn (VInt (if 4 + zlen bytes <=? B then SBDF_OK else SBDF_ERROR_IO))
               (ws fr fo (zlen pre + 4) e' (VInt (zlen bytes)) B' (str_mem pre bytes post) (o ++ ztake B (le32 (zlen bytes) ++ bytes)))).
Proof.
  intros Hl HB. cbn [fbody prog_sbdf_write_string]. unfold ws. pose proof (zlen_nonneg bytes) as Pb. pose proof (zlen_nonneg pre) as Pp.
  pose proof (write_int32_bs fr fo (zlen bytes) B (str_mem pre bytes post) o ltac:(unfold int_min, int_max; lia) HB) as W.
  assert (Hskip : skipn (Z.to_nat (zlen pre + 4)) (str_mem pre bytes post) = bytes ++ [0] ++ post).
  { unfold str_mem. rewrite app_assoc. replace (zlen pre + 4) with (zlen (pre ++ le32 (zlen bytes + 1))) by (rewrite zlen_app; reflexivity).
    apply skipn_app_zlen. }
  assert (Hmem : zlen (str_mem pre bytes post) = zlen pre + 4 + zlen bytes + 1 + zlen post).
  { unfold str_mem. rewrite !zlen_app. change (zlen (le32 (zlen bytes + 1))) with 4. change (zlen [0]) with 1. lia. }
  pose proof (zlen_nonneg post) as Pq.
  set (m := Z.min (zlen bytes) (B - 4)).
  assert (Hw : 4 <= B -> eval (EBin Ne (EWriteBuf (EVar "s") (ECast TSizeT (EVar "l"))) (ECast TSizeT (EVar "l")))
        {| vars := [("f"%string, VPtr fr fo); ("s"%string, VPtr RIn (zlen pre + 4)); ("error"%string, VInt SBDF_OK); ("l"%string, VInt (zlen bytes)); (budget_var, VInt (B - 4))];
           inb := str_mem pre bytes post; outb := o ++ le32 (zlen bytes) |}
      = Some (VInt (b2z (negb (m =? zlen bytes))), {| vars := [("f"%string, VPtr fr fo); ("s"%string, VPtr RIn (zlen pre + 4)); ("error"%string, VInt SBDF_OK); ("l"%string, VInt (zlen bytes)); (budget_var, VInt (B - 4 - m))];
           inb := str_mem pre bytes post; outb := (o ++ le32 (zlen bytes)) ++ ztake m bytes |})).
  { intros H4. cbn [eval lookup String.eqb Ascii.eqb Bool.eqb vars cast inb outb budget_var].
    replace (0 <=? zlen bytes) with true by lia. cbn [inb vars].
    rewrite zlen_length, Hmem. replace ((0 <=? zlen pre + 4) && (0 <=? zlen bytes) && (zlen pre + 4 + zlen bytes <=? zlen pre + 4 + zlen bytes + 1 + zlen post)) with true by lia.
    cbn [lookup String.eqb Ascii.eqb Bool.eqb budget_var set_var update vars inb outb]. fold m. rewrite Hskip.
    assert (Hf : firstn (Z.to_nat m) (bytes ++ [0] ++ post) = ztake m bytes).
    { unfold ztake. rewrite firstn_app. replace (Z.to_nat m - List.length bytes)%nat with 0%nat by (unfold m, zlen in *; lia). cbn [firstn]. now rewrite app_nil_r. }
    rewrite Hf. cbn [lookup String.eqb Ascii.eqb Bool.eqb vars cast]. replace (0 <=? zlen bytes) with true by lia. cbn [binop_int]. reflexivity. }
  Ltac ws_prefix pre bytes post B o Hl :=
    (eapply bsE_seq; [eapply bsE_decl0; evs2; reflexivity|]); (eapply bsE_seq; [eapply bsE_decl0; evs2; reflexivity|]);
    (eapply bsE_seq; [eapply bsE_if; [evs2; reflexivity|reflexivity|apply bsE_skip]|]);
    (eapply bsE_seq; [eapply bsE_call; [reflexivity|evs2; reflexivity|reflexivity|apply (str_len_bs pre bytes post VUndef (VInt B) o Hl)|unfold sl; evs2; reflexivity]|]).
  destruct (4 <=? B) eqn:E4; [destruct (4 + zlen bytes <=? B) eqn:EA|].
  - rewrite (ztake_all (le32 (zlen bytes)) B) in W by (change (zlen (le32 (zlen bytes))) with 4; lia). change (zlen (le32 (zlen bytes))) with 4 in W.
    assert (Hm : m = zlen bytes) by (unfold m; lia). specialize (Hw ltac:(lia)).
    do 2 eexists. ws_prefix pre bytes post B o Hl.
    eapply bsE_seq; [eapply bsE_seq; [eapply bsE_call; [reflexivity|evs2; reflexivity|reflexivity|exact W|unfold wi; evs2; reflexivity]|no_err]|].
    eapply bsE_seq; [eapply bsE_if; [exact Hw|rewrite Hm, Z.eqb_refl; reflexivity|apply bsE_skip]|].
    eapply bsE_cast_o; [eapply bsE_return; evs2; chk7; reflexivity|].
    rewrite (ztake_all (le32 (zlen bytes) ++ bytes) B) by (rewrite zlen_app; change (zlen (le32 (zlen bytes))) with 4; lia).
    rewrite Hm, (ztake_all bytes (zlen bytes)) by lia. rewrite <- app_assoc. reflexivity.
  - rewrite (ztake_all (le32 (zlen bytes)) B) in W by (change (zlen (le32 (zlen bytes))) with 4; lia). change (zlen (le32 (zlen bytes))) with 4 in W.
    assert (Hm : m = B - 4) by (unfold m; lia). specialize (Hw ltac:(lia)).
    do 2 eexists. ws_prefix pre bytes post B o Hl.
    eapply bsE_seq; [eapply bsE_seq; [eapply bsE_call; [reflexivity|evs2; reflexivity|reflexivity|exact W|unfold wi; evs2; reflexivity]|no_err]|].
    eapply bsE_seq_ret. eapply bsE_if; [exact Hw|replace (m =? zlen bytes) with false by lia; reflexivity|].
    eapply bsE_cast_o; [eapply bsE_return; evs2; chk7; reflexivity|].
    rewrite ztake_app_ge by (change (zlen (le32 (zlen bytes))) with 4; lia). change (zlen (le32 (zlen bytes))) with 4. rewrite Hm, <- app_assoc. reflexivity.
  - (* the length itself did not fit *)
    do 2 eexists. ws_prefix pre bytes post B o Hl.
    eapply bsE_seq_ret. eapply bsE_seq; [eapply bsE_call; [reflexivity|evs2; reflexivity|reflexivity|exact W|unfold wi; evs2; reflexivity]|].
    eapply bsE_cast_o; [ret_err|]. replace (4 + zlen bytes <=? B) with false by lia.
    rewrite ztake_app_le by (change (zlen (le32 (zlen bytes))) with 4; lia). reflexivity.
Qed.

Theorem write_string_source bytes B : zlen bytes + 1 < 2147483648 -> 0 <= B ->
  exists f0, forall f, (f0 <= f)%nat -> exists fin,
    callE prog_env f prog_sbdf_write_string [tok; VPtr RIn 4] (str_mem [] bytes []) B
      = OReturn (VInt (if 4 + zlen bytes <=? B then SBDF_OK else SBDF_ERROR_IO)) fin /\
    outb fin = ztake B (le32 (zlen bytes) ++ bytes).
Proof.
  intros Hl HB. destruct (write_string_bs ROut 0 [] bytes [] VUndef VUndef B [] Hl HB) as (e' & B' & Bs).
  destruct (bsE_sound _ _ _ _ Bs) as (f0 & F). exists f0. intros f Hf. eexists. split; [apply F; exact Hf|]. reflexivity.
Qed.
