(* ImpFactsFrame.v — the framing layer of the file format as written in the source (single bytes,
   section markers, the file header, value type ids: src/internals.c, fileheader.c, valuetype.c,
   translated into Gen/Prog.v on every run, calls between them included) computes the L1 model's
   functions of Prim.v: readers on EVERY byte stream, writers under EVERY output budget. *)
From Sbdf Require Import ImpCall Gen.Prog Gen.Consts Base Prim BaseFacts ImpBase.
From Coq Require Import ZifyBool.
Local Open Scope Z_scope.
Ltac Zify.zify_post_hook ::= Z.div_mod_to_equations.

(* the bookkeeping of a call: frames, cells, budget *)
Ltac evc := cbn [prog_env eval_args callee_init finish_call copy_in copy_out try_update update lookup combine map app String.append
                 String.eqb Ascii.eqb Bool.eqb fparams flocals fbody vars inb outb budget_var fail_var cell_token List.length Nat.eqb eval set_var
                 prog_sbdf_read_int8 prog_sbdf_sec_read prog_sbdf_sec_expect
                 prog_sbdf_fh_read prog_sbdf_vt_read].


(* ================================================================== single bytes *)
Definition rd8 (fr pr : region) (fo po : Z) (c cell bv : val) (s o : list Z) : state :=
  {| vars := [("f"%string, VPtr fr fo); ("v"%string, VPtr pr po); ("c"%string, c); ("*v"%string, cell); (budget_var, bv)]; inb := s; outb := o |}.

Lemma read_int8_bs env fr pr fo po c cell bv s o : Forall byte s ->
  bsE env (fbody prog_sbdf_read_int8) (rd8 fr pr fo po c cell bv s o)
    (match s with
     | [] => OReturn (VInt SBDF_ERROR_IO) (rd8 fr pr fo po VUndef cell bv [] o)
     | b :: s' => OReturn (VInt SBDF_OK) (rd8 fr pr fo po (VInt b) (VInt b) bv s' o)
     end).
Proof.
  intros Hs. cbn [fbody prog_sbdf_read_int8]. unfold rd8.
  eapply bsE_seq; [eapply bsE_decl0; evf; reflexivity|].
  eapply bsE_seq; [eapply bsE_if; [evf; reflexivity|reflexivity|apply bsE_skip]|].
  destruct s as [|b s'].
  - eapply bsE_seq_ret. eapply bsE_if; [evf; reflexivity|reflexivity|]. eapply bsE_return. evsf. reflexivity.
  - inversion Hs as [|? ? Hb _]. subst. unfold byte in Hb.
    eapply bsE_seq; [eapply bsE_if; [evf; reflexivity|reflexivity|apply bsE_skip]|].
    eapply bsE_seq; [eapply bsE_expr; evsf; reflexivity|]. eapply bsE_return. evsf. reflexivity.
Qed.






(* ================================================================== section markers *)


Ltac call_r8 Hs :=
  eapply bsE_call; [reflexivity | evc; reflexivity | reflexivity
                   | eapply bsE_cast_o; [apply (read_int8_bs prog_env); Hs | reflexivity ]
                   | unfold rd8; evc; reflexivity ].

Definition sr (fr pr : region) (fo po : Z) (e v r cell bv : val) (s o : list Z) : state :=
  {| vars := [("f"%string, VPtr fr fo); ("id"%string, VPtr pr po); ("error"%string, e); ("v"%string, v); ("$ret"%string, r);
              ("*id"%string, cell); (budget_var, bv)]; inb := s; outb := o |}.

Lemma sec_read_bs fr pr fo po e v r cell bv s o : Forall byte s ->
  match sec_read s with
  | Ok (x, s') => exists e' v' r', bsE prog_env (fbody prog_sbdf_sec_read) (sr fr pr fo po e v r cell bv s o)
                                      (OReturn (VInt SBDF_OK) (sr fr pr fo po e' v' r' (VInt x) bv s' o))
  | Err st => exists e' v' r' s', bsE prog_env (fbody prog_sbdf_sec_read) (sr fr pr fo po e v r cell bv s o)
                                      (OReturn (VInt st) (sr fr pr fo po e' v' r' cell bv s' o))
  end.
Proof.
  intros Hs. cbn [fbody prog_sbdf_sec_read]. unfold sr, sec_read, rd_bind, rfail.
  destruct s as [|b1 s]; cbn [read_int8].
  { do 4 eexists. eapply bsE_seq; [eapply bsE_seq; [eapply bsE_decl0; evf; reflexivity|eapply bsE_decl0; evf; reflexivity]|].
    eapply bsE_seq_ret. eapply bsE_seq; [call_r8 ltac:(exact Hs)|]. ret_err. }
  inversion Hs as [|? ? Hb1 Hs1]. subst. unfold byte in Hb1.
  destruct (b1 =? 223) eqn:E1; cbn [negb].
  2: { do 4 eexists. eapply bsE_seq; [eapply bsE_seq; [eapply bsE_decl0; evf; reflexivity|eapply bsE_decl0; evf; reflexivity]|].
       eapply bsE_seq; [eapply bsE_seq; [call_r8 ltac:(exact Hs)|no_err]|].
       eapply bsE_seq_ret. eapply bsE_if; [evsf; rewrite E1; evf; reflexivity|reflexivity|]. eapply bsE_return. evsf. reflexivity. }
  destruct s as [|b2 s]; cbn [read_int8].
  { do 4 eexists. eapply bsE_seq; [eapply bsE_seq; [eapply bsE_decl0; evf; reflexivity|eapply bsE_decl0; evf; reflexivity]|].
    eapply bsE_seq; [eapply bsE_seq; [call_r8 ltac:(exact Hs)|no_err]|].
    eapply bsE_seq; [eapply bsE_if; [evsf; rewrite E1; evf; reflexivity|reflexivity|apply bsE_skip]|].
    eapply bsE_seq_ret. eapply bsE_seq; [call_r8 ltac:(exact Hs1)|]. ret_err. }
  inversion Hs1 as [|? ? Hb2 Hs2]. subst. unfold byte in Hb2.
  destruct (b2 =? 91) eqn:E2; cbn [negb].
  2: { do 4 eexists. eapply bsE_seq; [eapply bsE_seq; [eapply bsE_decl0; evf; reflexivity|eapply bsE_decl0; evf; reflexivity]|].
       eapply bsE_seq; [eapply bsE_seq; [call_r8 ltac:(exact Hs)|no_err]|].
       eapply bsE_seq; [eapply bsE_if; [evsf; rewrite E1; evf; reflexivity|reflexivity|apply bsE_skip]|].
       eapply bsE_seq; [eapply bsE_seq; [call_r8 ltac:(exact Hs1)|no_err]|].
       eapply bsE_seq_ret. eapply bsE_if; [evsf; rewrite E2; evf; reflexivity|reflexivity|]. eapply bsE_return. evsf. reflexivity. }
  destruct s as [|b3 s].
  { do 4 eexists. eapply bsE_seq; [eapply bsE_seq; [eapply bsE_decl0; evf; reflexivity|eapply bsE_decl0; evf; reflexivity]|].
    eapply bsE_seq; [eapply bsE_seq; [call_r8 ltac:(exact Hs)|no_err]|].
    eapply bsE_seq; [eapply bsE_if; [evsf; rewrite E1; evf; reflexivity|reflexivity|apply bsE_skip]|].
    eapply bsE_seq; [eapply bsE_seq; [call_r8 ltac:(exact Hs1)|no_err]|].
    eapply bsE_seq; [eapply bsE_if; [evsf; rewrite E2; evf; reflexivity|reflexivity|apply bsE_skip]|].
    eapply bsE_seq; [call_r8 ltac:(exact Hs2)|]. eapply bsE_return. evf. reflexivity. }
  do 3 eexists. eapply bsE_seq; [eapply bsE_seq; [eapply bsE_decl0; evf; reflexivity|eapply bsE_decl0; evf; reflexivity]|].
  eapply bsE_seq; [eapply bsE_seq; [call_r8 ltac:(exact Hs)|no_err]|].
  eapply bsE_seq; [eapply bsE_if; [evsf; rewrite E1; evf; reflexivity|reflexivity|apply bsE_skip]|].
  eapply bsE_seq; [eapply bsE_seq; [call_r8 ltac:(exact Hs1)|no_err]|].
  eapply bsE_seq; [eapply bsE_if; [evsf; rewrite E2; evf; reflexivity|reflexivity|apply bsE_skip]|].
  eapply bsE_seq; [call_r8 ltac:(exact Hs2)|]. eapply bsE_return. evf. reflexivity.
Qed.

Lemma sec_read_err s st : sec_read s = Err st -> st = SBDF_ERROR_IO \/ st = SBDF_ERROR_MAGIC_NUMBER_MISSING.
Proof.
  unfold sec_read, rd_bind, rfail. destruct s as [|b1 s]; cbn [read_int8]; [intros H; inversion H; now left|].
  destruct (negb (b1 =? 223)); [intros H; inversion H; now right|].
  destruct s as [|b2 s]; cbn [read_int8]; [intros H; inversion H; now left|].
  destruct (negb (b2 =? 91)); [intros H; inversion H; now right|].
  destruct s as [|b3 s]; cbn [read_int8]; intros H; inversion H. now left.
Qed.

Definition se (fr : region) (fo id : Z) (e v bv : val) (s o : list Z) : state :=
  {| vars := [("f"%string, VPtr fr fo); ("id"%string, VInt id); ("error"%string, e); ("v"%string, v); (budget_var, bv)]; inb := s; outb := o |}.

Lemma sec_expect_bs fr fo id e v bv s o : Forall byte s -> int_min <= id <= int_max ->
  match sec_expect id s with
  | Ok (_, s') => exists e' v', bsE prog_env (fbody prog_sbdf_sec_expect) (se fr fo id e v bv s o) (OReturn (VInt SBDF_OK) (se fr fo id e' v' bv s' o))
  | Err st => exists e' v' s', bsE prog_env (fbody prog_sbdf_sec_expect) (se fr fo id e v bv s o) (OReturn (VInt st) (se fr fo id e' v' bv s' o))
  end.
Proof.
  intros Hs Hid. cbn [fbody prog_sbdf_sec_expect]. unfold se, sec_expect, rd_bind, rfail, rret.
  pose proof (sec_read_bs fr ROut fo 0 VUndef VUndef VUndef VUndef bv s o Hs) as R.
  destruct (sec_read s) as [[x s']|st] eqn:ER.
  - destruct R as (e1 & v1 & r1 & B).
    destruct (x =? id) eqn:E; cbn [negb].
    + do 2 eexists. eapply bsE_seq; [eapply bsE_seq; [eapply bsE_decl0; evf; reflexivity|eapply bsE_decl0; evf; reflexivity]|].
      eapply bsE_seq; [eapply bsE_seq; [eapply bsE_call; [reflexivity|evc; reflexivity|reflexivity|exact B|unfold sr; evc; reflexivity]|no_err]|].
      eapply bsE_seq; [eapply bsE_if; [evsf; rewrite E; evf; reflexivity|reflexivity|apply bsE_skip]|].
      eapply bsE_return. evsf. reflexivity.
    + do 3 eexists. eapply bsE_seq; [eapply bsE_seq; [eapply bsE_decl0; evf; reflexivity|eapply bsE_decl0; evf; reflexivity]|].
      eapply bsE_seq; [eapply bsE_seq; [eapply bsE_call; [reflexivity|evc; reflexivity|reflexivity|exact B|unfold sr; evc; reflexivity]|no_err]|].
      eapply bsE_seq_ret. eapply bsE_if; [evsf; rewrite E; evf; reflexivity|reflexivity|]. eapply bsE_return. evsf. reflexivity.
  - destruct R as (e1 & v1 & r1 & s1 & B).
    destruct (sec_read_err s st ER) as [-> | ->].
    all: do 3 eexists; (eapply bsE_seq; [eapply bsE_seq; [eapply bsE_decl0; evf; reflexivity|eapply bsE_decl0; evf; reflexivity]|]);
         eapply bsE_seq_ret; (eapply bsE_seq; [eapply bsE_call; [reflexivity|evc; reflexivity|reflexivity|exact B|unfold sr; evc; reflexivity]|]);
         ret_err.
Qed.

(* ================================================================== the file header *)



Definition fr_st (fr r1 r2 : region) (fo o1 o2 : Z) (e ma mi c1 c2 bv : val) (s o : list Z) : state :=
  {| vars := [("f"%string, VPtr fr fo); ("major"%string, VPtr r1 o1); ("minor"%string, VPtr r2 o2); ("error"%string, e);
              ("imajor"%string, ma); ("iminor"%string, mi); ("*major"%string, c1); ("*minor"%string, c2); (budget_var, bv)]; inb := s; outb := o |}.

Lemma sec_expect_err id s st : sec_expect id s = Err st ->
  st = SBDF_ERROR_IO \/ st = SBDF_ERROR_MAGIC_NUMBER_MISSING \/ st = SBDF_ERROR_UNEXPECTED_SECTION_ID.
Proof.
  unfold sec_expect, rd_bind, rfail, rret. destruct (sec_read s) as [[x s']|e] eqn:E.
  - destruct (negb (x =? id)); intros H; inversion H. auto.
  - intros H. inversion H. subst. destruct (sec_read_err s st E); auto.
Qed.

Lemma fh_read_bs fr r1 r2 fo o1 o2 e ma mi c1 c2 bv s o : Forall byte s ->
  match fh_read s with
  | Ok ((major, minor), s') => exists e' ma' mi', bsE prog_env (fbody prog_sbdf_fh_read) (fr_st fr r1 r2 fo o1 o2 e ma mi c1 c2 bv s o)
         (OReturn (VInt SBDF_OK) (fr_st fr r1 r2 fo o1 o2 e' ma' mi' (VInt major) (VInt minor) bv s' o))
  | Err st => exists e' ma' mi' s', bsE prog_env (fbody prog_sbdf_fh_read) (fr_st fr r1 r2 fo o1 o2 e ma mi c1 c2 bv s o)
         (OReturn (VInt st) (fr_st fr r1 r2 fo o1 o2 e' ma' mi' c1 c2 bv s' o))
  end.
Proof.
  intros Hs. cbn [fbody prog_sbdf_fh_read]. unfold fr_st, fh_read, rd_bind, rret.
  pose proof (sec_expect_bs fr fo SBDF_FILEHEADER_SECTIONID VUndef VUndef bv s o Hs ltac:(unfold SBDF_FILEHEADER_SECTIONID; small)) as X.
  assert (Hs' : forall x s', sec_expect SBDF_FILEHEADER_SECTIONID s = Ok (x, s') -> Forall byte s').
  { unfold sec_expect, sec_read, rd_bind, rfail, rret. intros x s'.
    destruct s as [|b1 s1]; cbn [read_int8]; [discriminate|]. destruct (negb (b1 =? 223)); [discriminate|].
    destruct s1 as [|b2 s2]; cbn [read_int8]; [discriminate|]. destruct (negb (b2 =? 91)); [discriminate|].
    destruct s2 as [|b3 s3]; cbn [read_int8]; [discriminate|]. destruct (negb (b3 =? SBDF_FILEHEADER_SECTIONID)); [discriminate|].
    intros H. inversion H. subst. inversion Hs as [|? ? _ Q1]. inversion Q1 as [|? ? _ Q2]. inversion Q2 as [|? ? _ Q3]. exact Q3. }
  destruct (sec_expect SBDF_FILEHEADER_SECTIONID s) as [[[] s1]|st] eqn:EX.
  2: { destruct X as (e1 & v1 & s1 & B). destruct (sec_expect_err _ _ _ EX) as [-> |[-> | ->]].
       all: do 4 eexists; (eapply bsE_seq; [eapply bsE_seq; [eapply bsE_decl0; evf; reflexivity|eapply bsE_seq; [eapply bsE_decl0; evf; reflexivity|eapply bsE_decl0; evf; reflexivity]]|]);
            (eapply bsE_seq; [eapply bsE_if; [evf; reflexivity|reflexivity|apply bsE_skip]|]);
            eapply bsE_seq_ret; (eapply bsE_seq; [eapply bsE_call; [reflexivity|evc; chk7; evc; reflexivity|reflexivity|exact B|unfold se; evc; reflexivity]|]); ret_err. }
  destruct X as (e1 & v1 & B). specialize (Hs' tt s1 eq_refl).
  destruct s1 as [|b1 s2]; cbn [read_int8].
  { do 4 eexists. eapply bsE_seq; [eapply bsE_seq; [eapply bsE_decl0; evf; reflexivity|eapply bsE_seq; [eapply bsE_decl0; evf; reflexivity|eapply bsE_decl0; evf; reflexivity]]|].
    eapply bsE_seq; [eapply bsE_if; [evf; reflexivity|reflexivity|apply bsE_skip]|].
    eapply bsE_seq; [eapply bsE_seq; [eapply bsE_call; [reflexivity|evc; chk7; evc; reflexivity|reflexivity|exact B|unfold se; evc; reflexivity]|no_err]|].
    eapply bsE_seq_ret. eapply bsE_seq; [call_r8 ltac:(exact Hs')|]. ret_err. }
  inversion Hs' as [|? ? Hb1 Hs2]. subst.
  destruct s2 as [|b2 s3]; cbn [read_int8].
  { do 4 eexists. eapply bsE_seq; [eapply bsE_seq; [eapply bsE_decl0; evf; reflexivity|eapply bsE_seq; [eapply bsE_decl0; evf; reflexivity|eapply bsE_decl0; evf; reflexivity]]|].
    eapply bsE_seq; [eapply bsE_if; [evf; reflexivity|reflexivity|apply bsE_skip]|].
    eapply bsE_seq; [eapply bsE_seq; [eapply bsE_call; [reflexivity|evc; chk7; evc; reflexivity|reflexivity|exact B|unfold se; evc; reflexivity]|no_err]|].
    eapply bsE_seq; [eapply bsE_seq; [call_r8 ltac:(exact Hs')|no_err]|].
    eapply bsE_seq_ret. eapply bsE_seq; [call_r8 ltac:(exact Hs2)|]. ret_err. }
  do 3 eexists. eapply bsE_seq; [eapply bsE_seq; [eapply bsE_decl0; evf; reflexivity|eapply bsE_seq; [eapply bsE_decl0; evf; reflexivity|eapply bsE_decl0; evf; reflexivity]]|].
  eapply bsE_seq; [eapply bsE_if; [evf; reflexivity|reflexivity|apply bsE_skip]|].
  eapply bsE_seq; [eapply bsE_seq; [eapply bsE_call; [reflexivity|evc; chk7; evc; reflexivity|reflexivity|exact B|unfold se; evc; reflexivity]|no_err]|].
  eapply bsE_seq; [eapply bsE_seq; [call_r8 ltac:(exact Hs')|no_err]|].
  eapply bsE_seq; [eapply bsE_seq; [call_r8 ltac:(exact Hs2)|no_err]|].
  eapply bsE_seq; [eapply bsE_expr; evf; reflexivity|]. eapply bsE_seq; [eapply bsE_expr; evf; reflexivity|]. eapply bsE_return. evsf. reflexivity.
Qed.

(* ================================================================== value type ids *)


Definition vr (fr pr : region) (fo po : Z) (e cell bv : val) (s o : list Z) : state :=
  {| vars := [("f"%string, VPtr fr fo); ("v"%string, VPtr pr po); ("err"%string, e); ("*v"%string, cell); (budget_var, bv)]; inb := s; outb := o |}.

Lemma vt_read_bs fr pr fo po e cell bv s o : Forall byte s ->
  match vt_read s with
  | Ok (x, s') => exists e', bsE prog_env (fbody prog_sbdf_vt_read) (vr fr pr fo po e cell bv s o) (OReturn (VInt SBDF_OK) (vr fr pr fo po e' (VInt x) bv s' o))
  | Err st => exists e' c', bsE prog_env (fbody prog_sbdf_vt_read) (vr fr pr fo po e cell bv s o) (OReturn (VInt st) (vr fr pr fo po e' c' bv s o))
  end.
Proof.
  intros Hs. cbn [fbody prog_sbdf_vt_read]. unfold vr, vt_read. destruct s as [|b s']; cbn [read_int8].
  - do 2 eexists. eapply bsE_seq; [eapply bsE_decl0; evf; reflexivity|].
    eapply bsE_seq; [eapply bsE_if; [evf; reflexivity|reflexivity|apply bsE_skip]|].
    eapply bsE_seq; [eapply bsE_expr; evsf; reflexivity|].
    eapply bsE_seq_ret. eapply bsE_seq; [call_r8 ltac:(exact Hs)|]. ret_err.
  - eexists. eapply bsE_seq; [eapply bsE_decl0; evf; reflexivity|].
    eapply bsE_seq; [eapply bsE_if; [evf; reflexivity|reflexivity|apply bsE_skip]|].
    eapply bsE_seq; [eapply bsE_expr; evsf; reflexivity|].
    eapply bsE_seq; [eapply bsE_seq; [call_r8 ltac:(exact Hs)|no_err]|]. eapply bsE_return. evsf. reflexivity.
Qed.

(* ================================================================== as calls, with the interpreter's fuel *)

Theorem sec_read_source s B : Forall byte s ->
  exists f0, forall f, (f0 <= f)%nat ->
  match sec_read s with
  | Ok (x, s') => exists fin, callE prog_env f prog_sbdf_sec_read [tok; tok] s B = OReturn (VInt SBDF_OK) fin /\
                              lookup "*id" (vars fin) = Some (VInt x) /\ inb fin = s' /\ outb fin = []
  | Err st => exists fin, callE prog_env f prog_sbdf_sec_read [tok; tok] s B = OReturn (VInt st) fin /\ outb fin = []
  end.
Proof.
  intros Hs. pose proof (sec_read_bs ROut ROut 0 0 VUndef VUndef VUndef VUndef (VInt B) s [] Hs) as H.
  destruct (sec_read s) as [[x s']|st].
  - destruct H as (e' & v' & r' & Bs). destruct (bsE_sound _ _ _ _ Bs) as (f0 & F). exists f0. intros f Hf. eexists.
    split; [apply F; exact Hf|]. repeat split.
  - destruct H as (e' & v' & r' & s1 & Bs). destruct (bsE_sound _ _ _ _ Bs) as (f0 & F). exists f0. intros f Hf. eexists.
    split; [apply F; exact Hf|]. reflexivity.
Qed.

Theorem sec_expect_source id s B : Forall byte s -> int_min <= id <= int_max ->
  exists f0, forall f, (f0 <= f)%nat ->
  match sec_expect id s with
  | Ok (_, s') => exists fin, callE prog_env f prog_sbdf_sec_expect [tok; VInt id] s B = OReturn (VInt SBDF_OK) fin /\ inb fin = s' /\ outb fin = []
  | Err st => exists fin, callE prog_env f prog_sbdf_sec_expect [tok; VInt id] s B = OReturn (VInt st) fin /\ outb fin = []
  end.
Proof.
  intros Hs Hid. pose proof (sec_expect_bs ROut 0 id VUndef VUndef (VInt B) s [] Hs Hid) as H.
  destruct (sec_expect id s) as [[x s']|st].
  - destruct H as (e' & v' & Bs). destruct (bsE_sound _ _ _ _ Bs) as (f0 & F). exists f0. intros f Hf. eexists.
    split; [apply F; exact Hf|]. repeat split.
  - destruct H as (e' & v' & s1 & Bs). destruct (bsE_sound _ _ _ _ Bs) as (f0 & F). exists f0. intros f Hf. eexists.
    split; [apply F; exact Hf|]. reflexivity.
Qed.

Theorem fh_read_source s B : Forall byte s ->
  exists f0, forall f, (f0 <= f)%nat ->
  match fh_read s with
  | Ok ((major, minor), s') => exists fin, callE prog_env f prog_sbdf_fh_read [tok; tok; tok] s B = OReturn (VInt SBDF_OK) fin /\
        lookup "*major" (vars fin) = Some (VInt major) /\ lookup "*minor" (vars fin) = Some (VInt minor) /\ inb fin = s' /\ outb fin = []
  | Err st => exists fin, callE prog_env f prog_sbdf_fh_read [tok; tok; tok] s B = OReturn (VInt st) fin /\ outb fin = []
  end.
Proof.
  intros Hs. pose proof (fh_read_bs ROut ROut ROut 0 0 0 VUndef VUndef VUndef VUndef VUndef (VInt B) s [] Hs) as H.
  destruct (fh_read s) as [[[ma mi] s']|st].
  - destruct H as (e' & a' & i' & Bs). destruct (bsE_sound _ _ _ _ Bs) as (f0 & F). exists f0. intros f Hf. eexists.
    split; [apply F; exact Hf|]. repeat split.
  - destruct H as (e' & a' & i' & s1 & Bs). destruct (bsE_sound _ _ _ _ Bs) as (f0 & F). exists f0. intros f Hf. eexists.
    split; [apply F; exact Hf|]. reflexivity.
Qed.

Theorem vt_read_source s B : Forall byte s ->
  exists f0, forall f, (f0 <= f)%nat ->
  match vt_read s with
  | Ok (x, s') => exists fin, callE prog_env f prog_sbdf_vt_read [tok; tok] s B = OReturn (VInt SBDF_OK) fin /\
                              lookup "*v" (vars fin) = Some (VInt x) /\ inb fin = s' /\ outb fin = []
  | Err st => exists fin, callE prog_env f prog_sbdf_vt_read [tok; tok] s B = OReturn (VInt st) fin /\ outb fin = []
  end.
Proof.
  intros Hs. pose proof (vt_read_bs ROut ROut 0 0 VUndef VUndef (VInt B) s [] Hs) as H.
  destruct (vt_read s) as [[x s']|st].
  - destruct H as (e' & Bs). destruct (bsE_sound _ _ _ _ Bs) as (f0 & F). exists f0. intros f Hf. eexists.
    split; [apply F; exact Hf|]. repeat split.
  - destruct H as (e' & c' & Bs). destruct (bsE_sound _ _ _ _ Bs) as (f0 & F). exists f0. intros f Hf. eexists.
    split; [apply F; exact Hf|]. reflexivity.
Qed.



