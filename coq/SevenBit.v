(* SevenBit.v — the 7-bit group encoding of lengths (C16): enc7 / read_7bit / len7. *)
From Sbdf Require Import Prim BaseFacts PrimFacts.
From Coq Require Import ZifyBool.
Ltac Zify.zify_post_hook ::= Z.div_mod_to_equations.

Lemma pow7_step k : 0 <= k -> 2 ^ (7 * (k + 1)) = 128 * 2 ^ (7 * k).
Proof. intros Hk. replace (7 * (k + 1)) with (7 * k + 7) by lia. rewrite Z.pow_add_r by lia. change (2 ^ 7) with 128. lia. Qed.

Lemma pow128_S f : 128 ^ Z.of_nat (S f) = 128 * 128 ^ Z.of_nat f.
Proof. rewrite Nat2Z.inj_succ, Z.pow_succ_r by lia. reflexivity. Qed.

Lemma mul_lt_pow32_small val p : 128 <= val -> 0 < p -> val * p < 4294967296 -> 128 * p < 4294967296.
Proof. intros Hv Hp H. nia. Qed.

(* k <= 3 when a value >= 128 still fits below 2^32 after a shift by 7k *)
Lemma shift_room k : 0 <= k -> 128 * 2 ^ (7 * k) < 4294967296 -> k <= 3.
Proof.
  intros Hk H. destruct (Z_le_gt_dec k 3) as [L|G]; [exact L|exfalso].
  assert (2 ^ (7 * 4) <= 2 ^ (7 * k)) by (apply Z.pow_le_mono_r; lia).
  change (2 ^ (7 * 4)) with 268435456 in *. lia.
Qed.

Lemma read7_loop_spec f : forall r k val result,
  (S f <= r)%nat -> 0 <= k -> 0 <= val < 128 ^ Z.of_nat (S f) ->
  val * 2 ^ (7 * k) < 4294967296 -> 0 <= result < 2 ^ (7 * k) ->
  (forall tail, read7_loop r result (7 * k) (enc7_loop (S f) val ++ tail)
                = Ok (to_i32 (result + val * 2 ^ (7 * k)), tail)) /\
  (forall n, 0 <= n < zlen (enc7_loop (S f) val) ->
             read7_loop r result (7 * k) (ztake n (enc7_loop (S f) val)) = Err SBDF_ERROR_IO).
Proof.
  induction f as [|f IH]; intros r k val result Hr Hk Hval Hfit Hres.
  - (* one group left *)
    assert (val < 128) by (change (128 ^ Z.of_nat 1) with 128 in Hval; lia).
    cbn [enc7_loop]. destruct (127 <? val) eqn:C; [lia|].
    destruct r as [|r]; [lia|]. set (p := 2 ^ (7 * k)) in *.
    assert (Hp : 0 < p) by (subst p; apply Z.pow_pos_nonneg; lia).
    split.
    + intros tail. cbn [app read7_loop]. rewrite (Z.mod_small val 128) by lia.
      unfold to_u32. rewrite (Z.mod_small (val * p)) by nia.
      destruct (128 <=? val) eqn:C2; [lia|]. reflexivity.
    + intros n Hn. cbn in Hn. assert (n = 0) by lia. subst n. rewrite ztake_neg by lia.
      reflexivity.
  - rewrite pow128_S in Hval.
    change (enc7_loop (S (S f)) val)
      with (if 127 <? val then (val mod 128 + 128) :: enc7_loop (S f) (val / 128) else [val]).
    set (p := 2 ^ (7 * k)) in *.
    assert (Hp : 0 < p) by (subst p; apply Z.pow_pos_nonneg; lia).
    destruct (127 <? val) eqn:C.
    + (* continuation group *)
      destruct r as [|r]; [lia|].
      assert (Hk3 : k <= 3) by (apply shift_room; [lia|]; fold p; eapply mul_lt_pow32_small; [| |eassumption]; lia).
      set (q := val / 128) in *. set (m := val mod 128) in *.
      assert (Hq : val = 128 * q + m /\ 0 <= m < 128) by (subst q m; lia).
      destruct Hq as [Hq Hm].
      assert (Hmp : 0 <= m * p <= 127 * p) by nia.
      assert (Hqp : 0 <= q * p) by nia.
      assert (Hvp : val * p = 128 * (q * p) + m * p) by (rewrite Hq; ring).
      assert (IHready :
        (forall tail, read7_loop r (result + m * p) (7 * (k + 1)) (enc7_loop (S f) q ++ tail)
                      = Ok (to_i32 (result + m * p + q * 2 ^ (7 * (k + 1))), tail)) /\
        (forall n, 0 <= n < zlen (enc7_loop (S f) q) ->
                   read7_loop r (result + m * p) (7 * (k + 1)) (ztake n (enc7_loop (S f) q)) = Err SBDF_ERROR_IO)).
      { apply IH; try lia.
        - rewrite pow7_step by lia. fold p. nia.
        - rewrite pow7_step by lia. fold p. lia. }
      destruct IHready as [IHa IHb].
      assert (Hstep : forall s', read7_loop (S r) result (7 * k) ((m + 128) :: s')
                                 = read7_loop r (result + m * p) (7 * (k + 1)) s').
      { intros s'. cbn [read7_loop]. fold p.
        replace ((m + 128) mod 128) with m by lia.
        unfold to_u32. rewrite (Z.mod_small (m * p)) by lia.
        destruct (128 <=? m + 128) eqn:C2; [|lia].
        destruct (28 <? 7 * k + 7) eqn:C3; [lia|].
        replace (7 * k + 7) with (7 * (k + 1)) by lia. reflexivity. }
      split.
      * intros tail. cbn [app]. rewrite Hstep, IHa. rewrite pow7_step by lia. fold p.
        replace (result + m * p + q * (128 * p)) with (result + val * p) by (rewrite Hvp; ring). reflexivity.
      * intros n Hn. rewrite zlen_cons in Hn.
        destruct (Z.eq_dec n 0) as [->|Nz].
        -- rewrite ztake_neg by lia. destruct r; reflexivity.
        -- unfold ztake. replace (Z.to_nat n) with (S (Z.to_nat (n - 1))) by lia. cbn [firstn].
           rewrite Hstep. apply IHb. lia.
    + (* last group *)
      destruct r as [|r]; [lia|].
      split.
      * intros tail. cbn [app read7_loop]. fold p. rewrite (Z.mod_small val 128) by lia.
        unfold to_u32. rewrite (Z.mod_small (val * p)) by nia.
        destruct (128 <=? val) eqn:C2; [lia|]. reflexivity.
      * intros n Hn. cbn in Hn. assert (n = 0) by lia. subst n. rewrite ztake_neg by lia. reflexivity.
Qed.

Definition len_range (n : Z) : Prop := 0 <= n < 2147483648.

(* C16: every length is read back, whatever follows, and every strict prefix is refused *)
Lemma rspec_7bit n : len_range n -> rspec read_7bit (enc7 n) n.
Proof.
  intros Hn. unfold len_range in Hn. unfold read_7bit, enc7, to_u32. rewrite Z.mod_small by lia.
  assert (H1 : 0 <= n < 128 ^ Z.of_nat 5) by (change (128 ^ Z.of_nat 5) with 34359738368; lia).
  assert (H2 : n * 2 ^ (7 * 0) < 4294967296) by (change (2 ^ (7 * 0)) with 1; lia).
  assert (H3 : 0 <= 0 < 2 ^ (7 * 0)) by (change (2 ^ (7 * 0)) with 1; lia).
  destruct (read7_loop_spec 4 6 0 n 0 ltac:(lia) ltac:(lia) H1 H2 H3) as [Ha Hb].
  change (7 * 0) with 0 in *. change (2 ^ 0) with 1 in *. split.
  - intros tail. rewrite Ha. unfold to_i32. replace (0 + n * 1) with n by lia.
    destruct (n <? 2147483648) eqn:C; [reflexivity|lia].
  - intros k Hk. exists SBDF_ERROR_IO. split; [apply Hb; exact Hk|apply hard_io].
Qed.

Lemma wspec_7bit n : wspec (write_7bit n) (Ok tt) (enc7 n).
Proof. apply wspec_put. discriminate. Qed.

(* the byte count the writer accounts for in array byte-size headers *)
Lemma zlen_enc7 n : len_range n -> zlen (enc7 n) = len7 n.
Proof.
  intros Hn. unfold len_range in Hn. unfold enc7, to_u32, len7. rewrite Z.mod_small by lia.
  cbn [enc7_loop].
  destruct (n <? 128) eqn:C1.
  { destruct (127 <? n) eqn:D1; [lia|reflexivity]. }
  destruct (127 <? n) eqn:D1; [|lia]. rewrite zlen_cons.
  destruct (n <? 16384) eqn:C2.
  { destruct (127 <? n / 128) eqn:D2; [lia|reflexivity]. }
  destruct (127 <? n / 128) eqn:D2; [|lia]. rewrite zlen_cons.
  destruct (n <? 2097152) eqn:C3.
  { destruct (127 <? n / 128 / 128) eqn:D3; [lia|reflexivity]. }
  destruct (127 <? n / 128 / 128) eqn:D3; [|lia]. rewrite zlen_cons.
  destruct (n <? 268435456) eqn:C4.
  { destruct (127 <? n / 128 / 128 / 128) eqn:D4; [lia|reflexivity]. }
  destruct (127 <? n / 128 / 128 / 128) eqn:D4; [|lia]. rewrite zlen_cons.
  destruct (127 <? n / 128 / 128 / 128 / 128) eqn:D5; [lia|reflexivity].
Qed.

Lemma len7_bounds n : 1 <= len7 n <= 5.
Proof. unfold len7. repeat match goal with |- context [if ?c then _ else _] => destruct c end; lia. Qed.

(* shape: continuation bit on all but the last byte *)
Fixpoint shape7 (bs : list Z) : Prop :=
  match bs with
  | [] => False
  | [b] => 0 <= b < 128
  | b :: r => 128 <= b < 256 /\ shape7 r
  end.

Lemma enc7_loop_shape f : forall val, 0 <= val < 128 ^ Z.of_nat (S f) -> shape7 (enc7_loop (S f) val).
Proof.
  induction f as [|f IH]; intros val Hv.
  - change (128 ^ Z.of_nat 1) with 128 in Hv. cbn [enc7_loop]. destruct (127 <? val) eqn:C; [lia|]. cbn. lia.
  - rewrite pow128_S in Hv.
    change (enc7_loop (S (S f)) val)
      with (if 127 <? val then (val mod 128 + 128) :: enc7_loop (S f) (val / 128) else [val]).
    destruct (127 <? val) eqn:C.
    + assert (H : shape7 (enc7_loop (S f) (val / 128))) by (apply IH; lia).
      destruct (enc7_loop (S f) (val / 128)) as [|b r] eqn:E; [contradiction|].
      change (128 <= val mod 128 + 128 < 256 /\ shape7 (b :: r)). split; [lia|exact H].
    + cbn. lia.
Qed.

Lemma enc7_shape n : len_range n -> shape7 (enc7 n).
Proof.
  intros Hn. unfold len_range in Hn. unfold enc7, to_u32. rewrite Z.mod_small by lia.
  apply enc7_loop_shape. change (128 ^ Z.of_nat 5) with 34359738368. lia.
Qed.

(* the reader refuses over-long group sequences: five continuation bytes are never accepted *)
Lemma read7_overlong b0 b1 b2 b3 b4 rest :
  128 <= b0 -> 128 <= b1 -> 128 <= b2 -> 128 <= b3 -> 128 <= b4 ->
  read_7bit (b0 :: b1 :: b2 :: b3 :: b4 :: rest) = Err SBDF_ERROR_INVALID_SIZE.
Proof.
  intros H0 H1 H2 H3 H4. unfold read_7bit. cbn [read7_loop].
  destruct (128 <=? b0) eqn:C0; [|lia]. destruct (128 <=? b1) eqn:C1; [|lia].
  destruct (128 <=? b2) eqn:C2; [|lia]. destruct (128 <=? b3) eqn:C3; [|lia].
  destruct (128 <=? b4) eqn:C4; [|lia]. reflexivity.
Qed.

(* and it is total: every byte string gives a value or a status, never anything else; the only
   statuses are I/O (input exhausted) and invalid-size (over-long) *)
Lemma read7_loop_statuses f : forall result shl s e,
  read7_loop f result shl s = Err e -> e = SBDF_ERROR_IO \/ e = SBDF_ERROR_INVALID_SIZE.
Proof.
  induction f as [|f IH]; intros result shl s e; cbn [read7_loop].
  - intros H. inversion H. now right.
  - destruct s as [|uch s']; [intros H; inversion H; now left|].
    destruct (128 <=? uch); [|discriminate].
    destruct (28 <? shl + 7); [intros H; inversion H; now right|]. apply IH.
Qed.
