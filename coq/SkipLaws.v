(* SkipLaws.v - two facts about the model's skipping functions that the source-level proofs of their callers need:
   a failed skip reports a negative status (callers test "if (error)"), and what a successful skip leaves of a stream
   of bytes is a stream of bytes that is no longer (the loops over properties use the unread input as their fuel). *)
From Sbdf Require Import Base Prim Obj Va Slice BaseFacts ImpBase ImpFactsInt32.
From Coq Require Import ZifyBool.
Local Open Scope Z_scope.

Definition neg {A} (m : R A) : Prop := forall s st, m s = Err st -> st < 0.
Definition shr {A} (m : R A) : Prop := forall s a s', Forall byte s -> m s = Ok (a, s') -> Forall byte s' /\ (List.length s' <= List.length s)%nat.
Definition shr1 {A} (m : R A) : Prop := forall s a s', Forall byte s -> m s = Ok (a, s') -> Forall byte s' /\ (List.length s' < List.length s)%nat.

Lemma shr1_shr {A} (m : R A) : shr1 m -> shr m.
Proof. intros H s a s' Hs E. destruct (H s a s' Hs E). split; [assumption|lia]. Qed.

Lemma neg_bind {A B} (m : R A) (f : A -> R B) : neg m -> (forall a, neg (f a)) -> neg (rd_bind m f).
Proof. intros Hm Hf s st. unfold rd_bind. destruct (m s) as [[a s1]|e] eqn:E; [apply Hf|intros [= <-]; eapply Hm; exact E]. Qed.
Lemma shr_bind {A B} (m : R A) (f : A -> R B) : shr m -> (forall a, shr (f a)) -> shr (rd_bind m f).
Proof.
  intros Hm Hf s b s' Hs. unfold rd_bind. destruct (m s) as [[a s1]|e] eqn:E; [|discriminate]. intros E2.
  destruct (Hm s a s1 Hs E) as (B1 & L1). destruct (Hf a s1 b s' B1 E2) as (B2 & L2). split; [exact B2|lia].
Qed.
Lemma shr1_bind {A B} (m : R A) (f : A -> R B) : shr1 m -> (forall a, shr (f a)) -> shr1 (rd_bind m f).
Proof.
  intros Hm Hf s b s' Hs. unfold rd_bind. destruct (m s) as [[a s1]|e] eqn:E; [|discriminate]. intros E2.
  destruct (Hm s a s1 Hs E) as (B1 & L1). destruct (Hf a s1 b s' B1 E2) as (B2 & L2). split; [exact B2|lia].
Qed.
Lemma shr_bind1 {A B} (m : R A) (f : A -> R B) : shr m -> (forall a, shr1 (f a)) -> shr1 (rd_bind m f).
Proof.
  intros Hm Hf s b s' Hs. unfold rd_bind. destruct (m s) as [[a s1]|e] eqn:E; [|discriminate]. intros E2.
  destruct (Hm s a s1 Hs E) as (B1 & L1). destruct (Hf a s1 b s' B1 E2) as (B2 & L2). split; [exact B2|lia].
Qed.

Lemma neg_fail {A} e : e < 0 -> neg (@rfail A e).  Proof. intros H s st [= <-]. exact H. Qed.
Lemma shr_fail {A} e : shr (@rfail A e).  Proof. intros s a s' _ E. discriminate. Qed.
Lemma shr1_fail {A} e : shr1 (@rfail A e).  Proof. intros s a s' _ E. discriminate. Qed.
Lemma neg_ret {A} (a : A) : neg (rret a).  Proof. intros s st E. discriminate. Qed.
Lemma shr_ret {A} (a : A) : shr (rret a).  Proof. intros s b s' Hs [= _ <-]. split; [exact Hs|lia]. Qed.

Lemma Forall_byte_skipn (l : list Z) : forall n, Forall byte l -> Forall byte (skipn n l).
Proof. induction l as [|b l IH]; intros [|n] H; cbn [skipn]; try exact H. inversion H; subst. now apply IH. Qed.

Lemma neg_fseek k : neg (fseek_cur k).  Proof. intros s st. unfold fseek_cur. destruct (k <? 0); [intros [= <-]; reflexivity|discriminate]. Qed.
Lemma shr_fseek k : shr (fseek_cur k).
Proof.
  intros s a s' Hs. unfold fseek_cur. destruct (k <? 0) eqn:E; [discriminate|]. intros [= _ <-]. rewrite drop_z_skipn by lia.
  split; [apply Forall_byte_skipn; exact Hs|rewrite skipn_length; lia].
Qed.

Lemma neg_read_int8 : neg read_int8.  Proof. intros [|b s] st; cbn [read_int8]; [intros [= <-]; reflexivity|discriminate]. Qed.
Lemma shr1_read_int8 : shr1 read_int8.
Proof. intros [|b s] a s' Hs; cbn [read_int8]; [discriminate|]. intros [= _ <-]. inversion Hs; subst. split; [assumption|cbn [List.length]; lia]. Qed.

Lemma neg_read_int32 : neg (read_int32 false).  Proof. intros s st E. rewrite (read_int32_err s st E). reflexivity. Qed.
Lemma shr1_read_int32 : shr1 (read_int32 false).
Proof.
  intros s x s' Hs ER. pose proof (read_int32_model s) as M. rewrite ER in M.
  destruct s as [|b0 [|b1 [|b2 [|b3 r]]]]; try discriminate. inversion M. subst.
  inversion Hs as [|? ? G0 Q0]. inversion Q0 as [|? ? G1 Q1]. inversion Q1 as [|? ? G2 Q2]. inversion Q2 as [|? ? G3 Q3]. split; [exact Q3|cbn [List.length]; lia].
Qed.

Lemma neg_rrep {A} (one : R A) : neg one -> forall fuel n, neg (rrep fuel n one).
Proof.
  intros H1. induction fuel as [|b fuel IH]; intros n s st; cbn [rrep]; destruct (n <=? 0); try discriminate.
  - destruct (one s) as [[a s1]|e] eqn:E; [intros [= <-]; reflexivity|intros [= <-]; eapply H1; exact E].
  - destruct (one s) as [[a s1]|e] eqn:E; [|intros [= <-]; eapply H1; exact E].
    destruct (rrep fuel (n - 1) one s1) as [[l s2]|e] eqn:E2; [discriminate|]. intros [= <-]. eapply IH. exact E2.
Qed.
Lemma shr_rrep {A} (one : R A) : shr one -> forall fuel n, shr (rrep fuel n one).
Proof.
  intros H1. induction fuel as [|b fuel IH]; intros n s l s' Hs; cbn [rrep]; destruct (n <=? 0); try (intros [= _ <-]; split; [exact Hs|lia]).
  - destruct (one s) as [[a s1]|e]; discriminate.
  - destruct (one s) as [[a s1]|e] eqn:E; [|discriminate].
    destruct (rrep fuel (n - 1) one s1) as [[l2 s2]|e] eqn:E2; [|discriminate]. intros [= _ <-].
    destruct (H1 s a s1 Hs E) as (B1 & L1). destruct (IH (n - 1) s1 l2 s2 B1 E2) as (B2 & L2). split; [exact B2|lia].
Qed.
Lemma neg_rrepeat {A} (one : R A) n : neg one -> neg (rrepeat n one).  Proof. intros H s. apply neg_rrep. exact H. Qed.
Lemma shr_rrepeat {A} (one : R A) n : shr one -> shr (rrepeat n one).  Proof. intros H s. apply shr_rrep. exact H. Qed.

(* ---- the skipping functions ---- *)
Lemma neg_skip_string : neg (skip_string false).
Proof. apply neg_bind; [apply neg_read_int32|]. intros l. destruct (l <? 0); [apply neg_fail; reflexivity|apply neg_fseek]. Qed.
Lemma shr1_skip_string : shr1 (skip_string false).
Proof. apply shr1_bind; [apply shr1_read_int32|]. intros l. destruct (l <? 0); [apply shr_fail|apply shr_fseek]. Qed.

Lemma neg_skip_one : neg (skip_one_unpacked false).
Proof. apply neg_bind; [apply neg_read_int32|]. intros l. destruct (l <? 0); [apply neg_fail; reflexivity|apply neg_fseek]. Qed.
Lemma shr_skip_one : shr (skip_one_unpacked false).
Proof. apply shr_bind; [apply shr1_shr, shr1_read_int32|]. intros l. destruct (l <? 0); [apply shr_fail|apply shr_fseek]. Qed.

Lemma usize_range v : -3 <= usize v <= 16.
Proof. unfold usize, SBDF_ERROR_UNKNOWN_TYPEID. repeat match goal with |- context [if ?b then _ else _] => destruct b end; lia. Qed.

Lemma neg_skip_objects v c pk : neg (skip_objects false v c pk).
Proof.
  unfold skip_objects. destruct (c <? 0); [apply neg_fail; reflexivity|]. destruct (is_arr v).
  - destruct pk; [apply neg_skip_one|]. apply neg_bind; [apply neg_rrepeat, neg_skip_one|intros; apply neg_ret].
  - cbv zeta. destruct (usize v <? 0) eqn:E; [apply neg_fail; lia|]. destruct (usize v =? 0); [apply neg_fail; reflexivity|apply neg_fseek].
Qed.
Lemma shr_skip_objects v c pk : shr (skip_objects false v c pk).
Proof.
  unfold skip_objects. destruct (c <? 0); [apply shr_fail|]. destruct (is_arr v).
  - destruct pk; [apply shr_skip_one|]. apply shr_bind; [apply shr_rrepeat, shr_skip_one|intros; apply shr_ret].
  - cbv zeta. destruct (usize v <? 0); [apply shr_fail|]. destruct (usize v =? 0); [apply shr_fail|apply shr_fseek].
Qed.

Lemma neg_obj_skip_arr t : neg (obj_skip_arr false t).
Proof. apply neg_bind; [apply neg_read_int32|intros; apply neg_skip_objects]. Qed.
Lemma shr1_obj_skip_arr t : shr1 (obj_skip_arr false t).
Proof. apply shr1_bind; [apply shr1_read_int32|intros; apply shr_skip_objects]. Qed.

Lemma neg_va_skip : neg (va_skip false).
Proof.
  unfold va_skip, vt_read. apply neg_bind; [apply neg_read_int8|]. intros e. apply neg_bind; [apply neg_read_int8|]. intros t.
  destruct (e =? _); [apply neg_obj_skip_arr|]. destruct (e =? _).
  { apply neg_bind; [apply neg_read_int32|]. intros x. destruct (x <? 0); [apply neg_fail; reflexivity|]. apply neg_bind; [apply neg_obj_skip_arr|intros; apply neg_obj_skip_arr]. }
  destruct (e =? _); [|apply neg_fail; reflexivity].
  apply neg_bind; [apply neg_read_int32|]. intros x. destruct (x <? 0); [apply neg_fail; reflexivity|apply neg_fseek].
Qed.
Lemma shr_va_skip : shr (va_skip false).
Proof.
  unfold va_skip, vt_read. apply shr_bind; [apply shr1_shr, shr1_read_int8|]. intros e. apply shr_bind; [apply shr1_shr, shr1_read_int8|]. intros t.
  destruct (e =? _); [apply shr1_shr, shr1_obj_skip_arr|]. destruct (e =? _).
  { apply shr_bind; [apply shr1_shr, shr1_read_int32|]. intros x. destruct (x <? 0); [apply shr_fail|]. apply shr_bind; [apply shr1_shr, shr1_obj_skip_arr|intros; apply shr1_shr, shr1_obj_skip_arr]. }
  destruct (e =? _); [|apply shr_fail].
  apply shr_bind; [apply shr1_shr, shr1_read_int32|]. intros x. destruct (x <? 0); [apply shr_fail|apply shr_fseek].
Qed.

Lemma neg_skip_prop : neg (skip_prop false).
Proof. apply neg_bind; [apply neg_skip_string|intros; apply neg_va_skip]. Qed.
Lemma shr1_skip_prop : shr1 (skip_prop false).
Proof. apply shr1_bind; [apply shr1_skip_string|intros; apply shr_va_skip]. Qed.

Lemma neg_sec_expect id : neg (sec_expect id).
Proof.
  unfold sec_expect, sec_read. apply neg_bind.
  - apply neg_bind; [apply neg_read_int8|]. intros v. destruct (negb _); [apply neg_fail; reflexivity|].
    apply neg_bind; [apply neg_read_int8|]. intros v2. destruct (negb _); [apply neg_fail; reflexivity|apply neg_read_int8].
  - intros v. destruct (negb _); [apply neg_fail; reflexivity|apply neg_ret].
Qed.
Lemma shr_sec_expect id : shr (sec_expect id).
Proof.
  unfold sec_expect, sec_read. apply shr_bind.
  - apply shr_bind; [apply shr1_shr, shr1_read_int8|]. intros v. destruct (negb _); [apply shr_fail|].
    apply shr_bind; [apply shr1_shr, shr1_read_int8|]. intros v2. destruct (negb _); [apply shr_fail|apply shr1_shr, shr1_read_int8].
  - intros v. destruct (negb _); [apply shr_fail|apply shr_ret].
Qed.
