(* Tm.v — tablemetadata.c *)
From Sbdf Require Export Md.

Record tm := { tmeta : md; tcols : list md }.

(* sbdf_tm_create *)
Definition tm_create (table_md : md) : res tm :=
  match md_copy table_md md_create with
  | (st, m) => if st =? SBDF_OK then Ok {| tmeta := md_set_immutable m; tcols := [] |} else Err st
  end.

(* sbdf_tm_add *)
Definition tm_add (col : md) (t : tm) : res tm :=
  match md_copy col md_create with
  | (st, m) =>
    if st =? SBDF_OK then Ok {| tmeta := tmeta t; tcols := tcols t ++ [md_set_immutable m] |} else Err st
  end.

Definition ent_type (e : mdent) : Z := match evalue e with Some v => oty v | None => 0 end.

(* the sort / fold / sort of sbdf_tm_write on the flattened column entries: for every entry that
   has an earlier entry with the same name, the closest such entry (its neighbour once sorted by
   name and then by position) must have the same value type and an equal default; the survivors
   are the first occurrences, in order.  `seen` maps a name to the latest entry carrying it. *)
Fixpoint fold_loop (es : list mdent) (seen : list mdent) (keep : list mdent) : res (list mdent) :=
  match es with
  | [] => Ok (rev keep)
  | e :: r =>
    match find_first (fun p => name_eqb (ename p) (ename e)) seen with
    | None => fold_loop r (e :: seen) (e :: keep)
    | Some p =>
      if negb (ent_type p - ent_type e =? 0) then Err SBDF_ERROR_INCORRECT_METADATA
      else if obj_eq_opt (edflt p) (edflt e) =? 0 then Err SBDF_ERROR_INCORRECT_METADATA
      else fold_loop r (e :: seen) keep
    end
  end.
Definition fold_columns (cols : list md) : res (list mdent) :=
  fold_loop (concat (map ments cols)) [] [].

Section TmIO.
Variable swp : bool.
Variable cap : option Z.

Definition write_flag_obj (o : option obj) : W unit :=
  match o with
  | Some o => write_int8 1 ;;w obj_write swp o
  | None => write_int8 0
  end.

Definition tm_write (t : tm) : W unit :=
  sec_write SBDF_TABLEMETADATA_SECTIONID ;;w
  write_int32 swp (md_cnt (tmeta t)) ;;w
  wfor (ments (tmeta t)) (fun e =>
    write_string swp (ename e) ;;w
    match evalue e with
    | None => wfail SBDF_ERROR_INCORRECT_METADATA
    | Some v =>
      vt_write (oty v) ;;w
      write_int8 1 ;;w obj_write swp v ;;w
      write_flag_obj (edflt e)
    end) ;;w
  write_int32 swp (zlen (tcols t)) ;;w
  match fold_columns (tcols t) with
  | Err st => wfail st
  | Ok names =>
    write_int32 swp (zlen names) ;;w
    wfor names (fun e =>
      write_string swp (ename e) ;;w
      vt_write (ent_type e) ;;w
      write_flag_obj (edflt e)) ;;w
    wfor (tcols t) (fun c =>
      wfor names (fun n =>
        match md_find (ename n) c with
        | Some e => write_int8 1 ;;w
                    match evalue e with Some v => obj_write swp v | None => wfail SBDF_ERROR_ARGUMENT_NULL end
        | None => write_int8 0
        end))
  end.

(* sbdf_read_metadata_values *)
Definition read_metadata_values (vt : Z) : R (option obj * option obj) :=
  v <-r read_int8 ;;
  value <-r (if v =? 0 then rret None
             else if negb (v =? 1) then rfail SBDF_ERROR_ARRAY_LENGTH_MUST_BE_1
             else (o <-r obj_read swp cap vt ;; rret (Some o))) ;;
  v <-r read_int8 ;;
  dflt <-r (if v =? 0 then rret None
            else if negb (v =? 1) then rfail SBDF_ERROR_ARRAY_LENGTH_MUST_BE_1
            else (o <-r obj_read swp cap vt ;; rret (Some o))) ;;
  rret (value, dflt).

Definition read_table_entry : R mdent :=
  name <-r read_string swp cap ;;
  vt <-r vt_read ;;
  vd <-r read_metadata_values vt ;;
  rret {| ename := name; evalue := fst vd; edflt := snd vd |}.

(* one element of the file-wide column metadata name list *)
Definition read_name_def : R (list Z * Z * option obj) :=
  name <-r read_string swp cap ;;
  vt <-r vt_read ;;
  v <-r read_int8 ;;
  d <-r (if v =? 0 then rret None else (o <-r obj_read swp cap vt ;; rret (Some o))) ;;
  rret (name, vt, d).

(* the values of one column: one flag (and value) per name, added in name-list order *)
Fixpoint read_column (defs : list (list Z * Z * option obj)) (m : md) : R md :=
  match defs with
  | [] => rret m
  | (name, vt, d) :: r =>
    v <-r read_int8 ;;
    if v =? 0 then read_column r m
    else
      value <-r obj_read swp cap vt ;;
      match md_add name value d m with
      | Err st => rfail st
      | Ok m' => read_column r m'
      end
  end.

Fixpoint read_columns (n : nat) (defs : list (list Z * Z * option obj)) : R (list md) :=
  match n with
  | O => rret []
  | S n' =>
    c <-r read_column defs md_create ;;
    rest <-r read_columns n' defs ;;
    rret (c :: rest)
  end.

Definition map_err {A} (e : Z) (m : R A) : R A :=
  fun s => match m s with Err _ => Err e | ok => ok end.

Definition tm_read : R tm :=
  sec_expect SBDF_TABLEMETADATA_SECTIONID ;;r
  count <-r read_int32 swp ;;
  if count <? 0 then rfail SBDF_ERROR_INVALID_SIZE else
  ents <-r rrepeat count read_table_entry ;;
  column_cnt <-r read_int32 swp ;;
  if (column_cnt <? 0) || (INT_MAX / 16 <? column_cnt) then rfail SBDF_ERROR_OUT_OF_MEMORY else
  ralloc cap (array_capacity column_cnt * 8) ;;r
  mdcount <-r map_err SBDF_ERROR_OUT_OF_MEMORY (read_int32 swp) ;;
  if mdcount <? 0 then rfail SBDF_ERROR_OUT_OF_MEMORY else
  ralloc cap (mdcount * 8) ;;r
  defs <-r rrepeat mdcount read_name_def ;;
  cols <-r read_columns (Z.to_nat column_cnt) defs ;;
  rret {| tmeta := {| ments := ents; mmod := false |};
          tcols := map md_set_immutable cols |}.

End TmIO.
