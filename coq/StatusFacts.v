(* StatusFacts.v — structural corruption is reported with the matching status (C09): one lemma per
   kind of field, for the reader that meets the field first, on any input that follows. *)
From Coq Require Import String.
From Sbdf Require Import File BaseFacts PrimFacts ObjFacts VaFacts SliceFacts.
From Sbdf.Gen Require Facts.
From Coq Require Import ZifyBool.
Local Open Scope Z_scope.

Section StatusFacts.
Variable swp : bool.
Variable cap : option Z.

(* marker bytes *)
Lemma sec_read_bad_marker0 b rest : b <> 223 -> sec_read (b :: rest) = Err SBDF_ERROR_MAGIC_NUMBER_MISSING.
Proof. intros H. unfold sec_read, rd_bind. cbn [read_int8]. destruct (b =? 223) eqn:E; [lia|reflexivity]. Qed.

Lemma sec_read_bad_marker1 b rest : b <> 91 -> sec_read (223 :: b :: rest) = Err SBDF_ERROR_MAGIC_NUMBER_MISSING.
Proof. intros H. unfold sec_read, rd_bind. cbn [read_int8 Z.eqb Pos.eqb negb]. destruct (b =? 91) eqn:E; [lia|reflexivity]. Qed.

Lemma sec_read_ok id rest : sec_read (223 :: 91 :: id :: rest) = Ok (id, rest).
Proof. destruct (rspec_sec_read id) as [E _]. exact (E rest). Qed.

(* section ids *)
Lemma sec_expect_wrong_id want got rest : got <> want -> sec_expect want (223 :: 91 :: got :: rest) = Err SBDF_ERROR_UNEXPECTED_SECTION_ID.
Proof. intros H. unfold sec_expect, rd_bind. rewrite sec_read_ok. destruct (got =? want) eqn:E; [lia|reflexivity]. Qed.

Lemma ts_read_end_of_table ncols subset rest : ts_read swp cap ncols subset (223 :: 91 :: 5 :: rest) = Err SBDF_TABLEEND.
Proof. reflexivity. Qed.

Lemma ts_read_other_section ncols subset id rest : id <> 5 -> id <> 3 ->
  ts_read swp cap ncols subset (223 :: 91 :: id :: rest) = Err SBDF_ERROR_UNEXPECTED_SECTION_ID.
Proof.
  intros H5 H3. unfold ts_read, rd_bind. rewrite sec_read_ok.
  change SBDF_TABLEEND_SECTIONID with 5. change SBDF_TABLESLICE_SECTIONID with 3.
  destruct (id =? 5) eqn:E1; [lia|]. destruct (id =? 3) eqn:E2; [lia|reflexivity].
Qed.

(* negative counts and lengths *)
Lemma read_objects_negative_count ty count packed s : count < 0 -> read_objects swp cap ty count packed s = Err SBDF_ERROR_INVALID_SIZE.
Proof. intros H. unfold read_objects. destruct (count <? 0) eqn:E; [reflexivity|lia]. Qed.

Lemma read_int32_enc v tail : i32_range v -> read_int32 swp (enc32 swp v ++ tail) = Ok (v, tail).
Proof. intros H. destruct (rspec_int32 swp v H) as [E _]. apply E. Qed.

Lemma obj_read_arr_negative_count ty v tail : i32_range v -> v < 0 ->
  obj_read_arr swp cap ty (enc32 swp v ++ tail) = Err SBDF_ERROR_INVALID_SIZE.
Proof. intros R H. unfold obj_read_arr, rd_bind. rewrite read_int32_enc by exact R. now apply read_objects_negative_count. Qed.

Lemma read_string_negative_length v tail : i32_range v -> v < 0 ->
  read_string swp cap (enc32 swp v ++ tail) = Err SBDF_ERROR_INVALID_SIZE.
Proof. intros R H. unfold read_string, rd_bind. rewrite read_int32_enc by exact R. destruct (v <? 0) eqn:E; [reflexivity|lia]. Qed.

Lemma read_elem_negative_length ty v tail : i32_range v -> v < 0 ->
  read_elem swp cap ty false (enc32 swp v ++ tail) = Err SBDF_ERROR_INVALID_SIZE.
Proof. intros R H. unfold read_elem, rd_bind. rewrite read_int32_enc by exact R. destruct (v <? 0) eqn:E; [reflexivity|lia]. Qed.

Lemma ts_read_negative_column_count ncols subset v tail : i32_range v -> v < 0 ->
  ts_read swp cap ncols subset ([223; 91; 3] ++ enc32 swp v ++ tail) = Err SBDF_ERROR_INVALID_SIZE.
Proof.
  intros R H. unfold ts_read, rd_bind. cbn [app]. rewrite sec_read_ok.
  change (3 =? SBDF_TABLEEND_SECTIONID) with false. change (3 =? SBDF_TABLESLICE_SECTIONID) with true. cbn [negb].
  rewrite read_int32_enc by exact R. destruct (v <? 0) eqn:E; [reflexivity|lia].
Qed.

Lemma tm_read_negative_entry_count v tail : i32_range v -> v < 0 ->
  tm_read swp cap ([223; 91; 2] ++ enc32 swp v ++ tail) = Err SBDF_ERROR_INVALID_SIZE.
Proof.
  intros R H. unfold tm_read, sec_expect, rd_bind. cbn [app]. rewrite sec_read_ok.
  change (2 =? SBDF_TABLEMETADATA_SECTIONID) with true. cbn [negb]. unfold rret.
  rewrite read_int32_enc by exact R. destruct (v <? 0) eqn:E; [reflexivity|lia].
Qed.

(* presence flags of table-level metadata entries *)
Lemma read_metadata_values_bad_flag vt f rest : f <> 0 -> f <> 1 ->
  read_metadata_values swp cap vt (f :: rest) = Err SBDF_ERROR_ARRAY_LENGTH_MUST_BE_1.
Proof.
  intros H0 H1. unfold read_metadata_values, rd_bind. cbn [read_int8].
  destruct (f =? 0) eqn:E0; [lia|]. destruct (f =? 1) eqn:E1; [lia|]. reflexivity.
Qed.

(* unknown type id of a value that is present, unknown encoding id *)
Lemma read_objects_unknown_type ty count packed s : 0 <= count -> is_arr ty = false -> usize ty < 0 ->
  usize ty = SBDF_ERROR_UNKNOWN_TYPEID -> read_objects swp cap ty count packed s = Err SBDF_ERROR_UNKNOWN_TYPEID.
Proof.
  intros Hc A U E. unfold read_objects. destruct (count <? 0) eqn:C; [lia|]. rewrite A.
  destruct (usize ty <? 0) eqn:C1; [|lia]. unfold rfail. now rewrite E.
Qed.

Lemma usize_unknown ty : usize ty < 0 -> usize ty = SBDF_ERROR_UNKNOWN_TYPEID.
Proof.
  unfold usize. repeat match goal with |- context [if ?c then _ else _] => destruct c; try (intros H; cbv in H; discriminate) end.
  reflexivity.
Qed.

Lemma va_read_unknown_encoding e vt rest :
  e <> SBDF_PLAINARRAYENCODINGTYPEID -> e <> SBDF_RUNLENGTHENCODINGTYPEID -> e <> SBDF_BITARRAYENCODINGTYPEID ->
  va_read swp cap (e :: vt :: rest) = Err SBDF_ERROR_UNKNOWN_VALUEARRAY_ENCODING /\
  va_skip swp (e :: vt :: rest) = Err SBDF_ERROR_UNKNOWN_VALUEARRAY_ENCODING.
Proof.
  intros H1 H2 H3. unfold va_read, va_skip, rd_bind, vt_read. cbn [read_int8].
  destruct (e =? SBDF_PLAINARRAYENCODINGTYPEID) eqn:E1; [lia|].
  destruct (e =? SBDF_RUNLENGTHENCODINGTYPEID) eqn:E2; [lia|].
  destruct (e =? SBDF_BITARRAYENCODINGTYPEID) eqn:E3; [lia|]. split; reflexivity.
Qed.

(* row counts: negative ones are refused when the array is read ... *)
Lemma va_read_negative_row_count e vt v tail : e = SBDF_RUNLENGTHENCODINGTYPEID \/ e = SBDF_BITARRAYENCODINGTYPEID ->
  i32_range v -> v < 0 -> va_read swp cap (e :: vt :: enc32 swp v ++ tail) = Err SBDF_ERROR_INVALID_SIZE.
Proof.
  intros He R H. unfold va_read, rd_bind, vt_read. cbn [read_int8].
  destruct He as [-> | ->].
  - change (SBDF_RUNLENGTHENCODINGTYPEID =? SBDF_PLAINARRAYENCODINGTYPEID) with false. cbn iota. rewrite Z.eqb_refl.
    rewrite read_int32_enc by exact R. destruct (v <? 0) eqn:E; [reflexivity|lia].
  - change (SBDF_BITARRAYENCODINGTYPEID =? SBDF_PLAINARRAYENCODINGTYPEID) with false.
    change (SBDF_BITARRAYENCODINGTYPEID =? SBDF_RUNLENGTHENCODINGTYPEID) with false. cbn iota. rewrite Z.eqb_refl.
    rewrite read_int32_enc by exact R. destruct (v <? 0) eqn:E; [reflexivity|lia].
Qed.

End StatusFacts.

(* ... and a row count that is inconsistent with the runs is refused by the first decode *)
Lemma get_values_inconsistent_rows ty n runs vals :
  (is_arr ty = true \/ 0 < usize ty) -> (length runs <> length vals \/ rle_total runs <> n) ->
  va_get_values {| vty := ty; venc := SBDF_RUNLENGTHENCODINGTYPEID; value1 := n;
                   o1 := Some (byte_obj runs); o2 := Some {| oty := ty; oelems := vals |} |} = Err SBDF_ERROR_INVALID_SIZE.
Proof.
  intros Hok H. unfold va_get_values. cbn [venc].
  change (SBDF_RUNLENGTHENCODINGTYPEID =? SBDF_PLAINARRAYENCODINGTYPEID) with false. cbn iota. rewrite Z.eqb_refl.
  unfold get_rle_values. cbn [o1 o2 vty value1].
  assert (S : ((if is_arr ty then 8 else usize ty) <? 0) = false /\ ((if is_arr ty then 8 else usize ty) =? 0) = false).
  { destruct Hok as [A|U]; [rewrite A; split; reflexivity|destruct (is_arr ty); split; lia]. }
  destruct S as [S1 S2]. rewrite S1, S2. rewrite map_run_of_byte_obj. unfold ocount. cbn [oelems byte_obj]. rewrite zlen_map.
  destruct (zlen runs =? zlen vals) eqn:E1; cbn [negb]; [|reflexivity].
  destruct (rle_total runs =? n) eqn:E2; cbn [negb]; [|reflexivity].
  destruct H as [H|H]; [unfold zlen in E1; lia|lia].
Qed.

(* every status the library uses has a description of its own (over the regenerated table) *)
Definition describe (e : Z) : string :=
  match find (fun p => Z.eqb (fst p) e) Facts.err_table with Some p => snd p | None => Facts.err_default end.

Lemma every_used_status_described :
  forallb (fun e => negb (String.eqb (describe e) Facts.err_default)) Facts.status_uses = true.
Proof. vm_compute. reflexivity. Qed.

Lemma descriptions_distinct :
  forallb (fun p => forallb (fun q => Z.eqb (fst p) (fst q) || negb (String.eqb (snd p) (snd q))) Facts.err_table) Facts.err_table = true.
Proof. vm_compute. reflexivity. Qed.
