(* ImpFactsEq.v - sbdf_obj_eq of src/object.c from the source.  The comparison helpers are re-proved
   for strings / byte arrays stored anywhere in the memory and for frames that carry the cell heap. *)
From Sbdf Require Import ImpCall Gen.Prog Gen.Consts Base Prim BaseFacts ImpBase ImpFactsCells.
From Coq Require Import ZifyBool.
Local Open Scope Z_scope.
Ltac Zify.zify_post_hook ::= Z.div_mod_to_equations.

Ltac eve := cbn [prog_env eval_args callee_init finish_call copy_in copy_out try_update update lookup combine map app String.append
                 String.eqb Ascii.eqb Bool.eqb fparams flocals fbody vars inb outb budget_var fail_var strm_var cells_var cell_token List.length Nat.eqb eval set_var cast
                 prog_sbdf_get_array_length prog_sbdf_str_len prog_sbdf_ba_get_len prog_sbdf_str_cmp prog_sbdf_ba_memcmp prog_sbdf_obj_eq
                 truth binop_int b2z negb heap_of as_ptr storable fst snd];
  change (0 =? 0) with true; change (1 =? 0) with false; cbn [negb b2z].

(* a stored array (length header n in front) at pointer p of the memory *)
Definition stored (m : list Z) (p n : Z) (payload : list Z) : Prop :=
  exists pre post, m = pre ++ le32 n ++ payload ++ post /\ p = zlen pre + 4.
Definition stored_str (m : list Z) (p : Z) (bytes : list Z) : Prop := stored m p (zlen bytes + 1) (bytes ++ [0]).
Definition stored_ba (m : list Z) (p : Z) (bytes : list Z) : Prop := stored m p (zlen bytes) bytes.

Lemma stored_bytes m p n payload : stored m p n payload ->
  0 <= p /\ p + zlen payload <= zlen m /\ skipn (Z.to_nat p) m = payload ++ (skipn (Z.to_nat (p + zlen payload)) m).
Proof.
  intros (pre & post & -> & ->). pose proof (zlen_nonneg pre). pose proof (zlen_nonneg payload). pose proof (zlen_nonneg post).
  split; [lia|]. split; [rewrite !zlen_app; change (zlen (le32 n)) with 4; lia|].
  rewrite (app_assoc pre (le32 n)).
  replace (zlen pre + 4) with (zlen (pre ++ le32 n)) by (rewrite zlen_app; reflexivity). rewrite skipn_app_zlen.
  rewrite (app_assoc (pre ++ le32 n) payload). replace (zlen (pre ++ le32 n) + zlen payload) with (zlen ((pre ++ le32 n) ++ payload)) by (rewrite !zlen_app; reflexivity).
  rewrite skipn_app_zlen. reflexivity.
Qed.

Section Eq.
Variables (bv : val) (k : Z) (sx : list Z) (h : heap) (m o : list Z).

Lemma get_array_length_fr p n payload : stored m p n payload -> 0 <= n < 2147483648 ->
  bsE prog_env (fbody prog_sbdf_get_array_length) (fr [("array"%string, VPtr RIn p)] bv k sx h m o) (OReturn (VInt n) (fr [("array"%string, VPtr RIn p)] bv k sx h m o)).
Proof.
  intros (pre & post & Hm & ->) Hn. cbn [fbody prog_sbdf_get_array_length]. unfold fr. pose proof (zlen_nonneg pre) as Pp.
  eapply bsE_return. cbn [eval lookup String.eqb Ascii.eqb Bool.eqb vars binop_int app]. chk7. cbn [inb]. rewrite Hm.
  replace (zlen pre + 4 + 4 * (0 - 1)) with (zlen pre) by lia. rewrite skipn_app_zlen.
  assert (Hlen : (0 <=? zlen pre) && (zlen pre + 4 <=? Z.of_nat (List.length (pre ++ le32 n ++ payload ++ post))) = true).
  { rewrite zlen_length, !zlen_app. change (zlen (le32 n)) with 4. pose proof (zlen_nonneg payload). pose proof (zlen_nonneg post). lia. }
  rewrite Hlen. pose proof (le32_decode n Hn) as D. unfold le32 in *. cbv zeta in *. cbn [app]. rewrite D. reflexivity.
Qed.

Lemma str_len_fr p bytes c0 : stored_str m p bytes -> zlen bytes + 1 < 2147483648 ->
  bsE prog_env (fbody prog_sbdf_str_len) (fr [("str"%string, VPtr RIn p); ("$c1"%string, c0)] bv k sx h m o)
      (OReturn (VInt (zlen bytes)) (fr [("str"%string, VPtr RIn p); ("$c1"%string, VInt (zlen bytes + 1))] bv k sx h m o)).
Proof.
  intros Hs Hl. cbn [fbody prog_sbdf_str_len]. unfold fr. pose proof (zlen_nonneg bytes) as Pb.
  pose proof (get_array_length_fr p (zlen bytes + 1) (bytes ++ [0]) Hs ltac:(lia)) as G. unfold fr in G. cbn [app] in G.
  eapply bsE_seq.
  - eapply bsE_call; [reflexivity|eve; reflexivity|reflexivity|eve; exact G|eve; reflexivity].
  - eapply bsE_return. eve. chk7. replace (zlen bytes + 1 - 1) with (zlen bytes) by lia. reflexivity.
Qed.

Lemma ba_get_len_fr p bytes c0 : stored_ba m p bytes -> zlen bytes < 2147483648 ->
  bsE prog_env (fbody prog_sbdf_ba_get_len) (fr [("str"%string, VPtr RIn p); ("$ret"%string, c0)] bv k sx h m o)
      (OReturn (VInt (zlen bytes)) (fr [("str"%string, VPtr RIn p); ("$ret"%string, VInt (zlen bytes))] bv k sx h m o)).
Proof.
  intros Hs Hl. cbn [fbody prog_sbdf_ba_get_len]. unfold fr. pose proof (zlen_nonneg bytes) as Pb.
  pose proof (get_array_length_fr p (zlen bytes) bytes Hs ltac:(lia)) as G. unfold fr in G. cbn [app] in G.
  eapply bsE_seq.
  - eapply bsE_call; [reflexivity|eve; reflexivity|reflexivity|eve; exact G|eve; reflexivity].
  - eapply bsE_return. eve. reflexivity.
Qed.


(* the common tail of sbdf_str_cmp and sbdf_ba_memcmp: memcmp over the common prefix, then the lengths *)
Lemma cmp_core pa pb a b resta restb mn r : 0 <= pa -> pa + zlen a <= zlen m -> skipn (Z.to_nat pa) m = a ++ resta ->
  0 <= pb -> pb + zlen b <= zlen m -> skipn (Z.to_nat pb) m = b ++ restb -> zlen a < 2147483648 -> zlen b < 2147483648 ->
  let kk := Z.min (zlen a) (zlen b) in let c := memcmp_l (ztake kk a) (ztake kk b) in
  exists v, bsE prog_env
    (SSeq (SExpr (EAssign "min" (ECond (EBin Lt (EVar "ll") (EVar "rl")) (EVar "ll") (EVar "rl"))))
       (SSeq (SExpr (EAssign "r" (EMemcmp (EVar "lhs") (EVar "rhs") (ECast TSizeT (EVar "min")))))
          (SSeq (SIf (EVar "r") (SReturn (EVar "r")) SSkip) (SReturn (EBin Sub (EVar "ll") (EVar "rl"))))))
    (fr [("lhs"%string, VPtr RIn pa); ("rhs"%string, VPtr RIn pb); ("ll"%string, VInt (zlen a)); ("min"%string, mn); ("r"%string, r); ("rl"%string, VInt (zlen b))] bv k sx h m o)
    (OReturn (VInt v) (fr [("lhs"%string, VPtr RIn pa); ("rhs"%string, VPtr RIn pb); ("ll"%string, VInt (zlen a)); ("min"%string, VInt kk); ("r"%string, VInt c); ("rl"%string, VInt (zlen b))] bv k sx h m o))
    /\ Z.sgn v = lex_cmp a b.
Proof.
  intros Hpa Hla Sa Hpb Hlb Sb Ha Hb kk c. unfold fr. pose proof (zlen_nonneg a) as Pa. pose proof (zlen_nonneg b) as Pb.
  assert (Fa : firstn (Z.to_nat kk) (a ++ resta) = ztake kk a).
  { unfold ztake. rewrite firstn_app. replace (Z.to_nat kk - List.length a)%nat with 0%nat by (unfold kk, zlen in *; lia). cbn [firstn]. now rewrite app_nil_r. }
  assert (Fb : firstn (Z.to_nat kk) (b ++ restb) = ztake kk b).
  { unfold ztake. rewrite firstn_app. replace (Z.to_nat kk - List.length b)%nat with 0%nat by (unfold kk, zlen in *; lia). cbn [firstn]. now rewrite app_nil_r. }
  assert (Hmin : (if zlen a <? zlen b then zlen a else zlen b) = kk) by (unfold kk; destruct (zlen a <? zlen b) eqn:E; lia).
  pose proof (memcmp_l_range (ztake kk a) (ztake kk b)) as Rc. fold c in Rc.
  pose proof (lex_cmp_memcmp a b) as LC. cbn zeta in LC. fold kk c in LC.
  exists (if c =? 0 then zlen a - zlen b else c). split.
  - assert (EM : eval (EAssign "min" (ECond (EBin Lt (EVar "ll") (EVar "rl")) (EVar "ll") (EVar "rl")))
        {| vars := [("lhs"%string, VPtr RIn pa); ("rhs"%string, VPtr RIn pb); ("ll"%string, VInt (zlen a)); ("min"%string, mn); ("r"%string, r); ("rl"%string, VInt (zlen b));
                    (budget_var, bv); (fail_var, VInt k); (strm_var, VBytes sx); (cells_var, VHeap h)]; inb := m; outb := o |}
        = Some (VInt kk, {| vars := [("lhs"%string, VPtr RIn pa); ("rhs"%string, VPtr RIn pb); ("ll"%string, VInt (zlen a)); ("min"%string, VInt kk); ("r"%string, r); ("rl"%string, VInt (zlen b));
                    (budget_var, bv); (fail_var, VInt k); (strm_var, VBytes sx); (cells_var, VHeap h)]; inb := m; outb := o |})).
    { rewrite <- Hmin. eve. destruct (zlen a <? zlen b) eqn:E; eve; reflexivity. }
    eapply bsE_seq; [eapply bsE_expr; cbn [app]; exact EM|].
    eapply bsE_seq.
    { eapply bsE_expr. eve. replace (0 <=? kk) with true by (unfold kk; lia). eve. cbn [inb]. rewrite zlen_length.
      replace ((0 <=? kk) && (0 <=? pa) && (pa + kk <=? zlen m) && (0 <=? pb) && (pb + kk <=? zlen m)) with true by (unfold kk; lia).
      rewrite Sa, Sb, Fa, Fb. fold c. eve. reflexivity. }
    destruct (c =? 0) eqn:Ec.
    + eapply bsE_seq; [eapply bsE_if; [eve; reflexivity|cbn [truth]; rewrite Ec; reflexivity|apply bsE_skip]|].
      eapply bsE_return. eve. chk7. reflexivity.
    + eapply bsE_seq_ret. eapply bsE_if; [eve; reflexivity|cbn [truth]; rewrite Ec; reflexivity|]. eapply bsE_return. eve. reflexivity.
  - rewrite LC. destruct (c =? 0) eqn:Ec; [reflexivity|]. assert (c = -1 \/ c = 1) as [-> | ->] by lia; reflexivity.
Qed.

Lemma str_cmp_fr pa pb a b ll0 mn0 r0 rl0 : stored_str m pa a -> stored_str m pb b -> zlen a + 1 < 2147483648 -> zlen b + 1 < 2147483648 ->
  exists v, bsE prog_env (fbody prog_sbdf_str_cmp)
    (fr [("lhs"%string, VPtr RIn pa); ("rhs"%string, VPtr RIn pb); ("ll"%string, ll0); ("min"%string, mn0); ("r"%string, r0); ("rl"%string, rl0)] bv k sx h m o)
    (OReturn (VInt v) (fr [("lhs"%string, VPtr RIn pa); ("rhs"%string, VPtr RIn pb); ("ll"%string, VInt (zlen a)); ("min"%string, VInt (Z.min (zlen a) (zlen b)));
                           ("r"%string, VInt (memcmp_l (ztake (Z.min (zlen a) (zlen b)) a) (ztake (Z.min (zlen a) (zlen b)) b))); ("rl"%string, VInt (zlen b))] bv k sx h m o))
    /\ Z.sgn v = lex_cmp a b.
Proof.
  intros Sa Sb Ha Hb. cbn [fbody prog_sbdf_str_cmp]. unfold fr.
  pose proof (str_len_fr pa a VUndef Sa Ha) as La. pose proof (str_len_fr pb b VUndef Sb Hb) as Lb. unfold fr in La, Lb. cbn [app] in La, Lb.
  destruct (stored_bytes m pa _ _ Sa) as (A0 & A1 & A2). destruct (stored_bytes m pb _ _ Sb) as (B0 & B1 & B2).
  rewrite <- app_assoc in A2, B2. rewrite zlen_app in A1, B1. change (zlen [0]) with 1 in A1, B1.
  destruct (cmp_core pa pb a b _ _ VUndef VUndef A0 ltac:(lia) A2 B0 ltac:(lia) B2 ltac:(lia) ltac:(lia)) as (v & C & Hv). unfold fr in C. cbn [app] in C.
  exists v. split; [|exact Hv].
  - eapply bsE_seq; [eapply bsE_decl0; eve; reflexivity|]. eapply bsE_seq; [eapply bsE_decl0; eve; reflexivity|].
    eapply bsE_seq; [eapply bsE_decl0; eve; reflexivity|]. eapply bsE_seq; [eapply bsE_decl0; eve; reflexivity|].
    eapply bsE_seq; [eapply bsE_call; [reflexivity|eve; reflexivity|reflexivity|eve; exact La|eve; reflexivity]|].
    eapply bsE_seq; [eapply bsE_call; [reflexivity|eve; reflexivity|reflexivity|eve; exact Lb|eve; reflexivity]|].
    exact C.
Qed.

Lemma ba_memcmp_fr pa pb a b ll0 mn0 r0 rl0 : stored_ba m pa a -> stored_ba m pb b -> zlen a < 2147483648 -> zlen b < 2147483648 ->
  exists v, bsE prog_env (fbody prog_sbdf_ba_memcmp)
    (fr [("lhs"%string, VPtr RIn pa); ("rhs"%string, VPtr RIn pb); ("ll"%string, ll0); ("min"%string, mn0); ("r"%string, r0); ("rl"%string, rl0)] bv k sx h m o)
    (OReturn (VInt v) (fr [("lhs"%string, VPtr RIn pa); ("rhs"%string, VPtr RIn pb); ("ll"%string, VInt (zlen a)); ("min"%string, VInt (Z.min (zlen a) (zlen b)));
                           ("r"%string, VInt (memcmp_l (ztake (Z.min (zlen a) (zlen b)) a) (ztake (Z.min (zlen a) (zlen b)) b))); ("rl"%string, VInt (zlen b))] bv k sx h m o))
    /\ Z.sgn v = lex_cmp a b.
Proof.
  intros Sa Sb Ha Hb. cbn [fbody prog_sbdf_ba_memcmp]. unfold fr.
  pose proof (ba_get_len_fr pa a VUndef Sa Ha) as La. pose proof (ba_get_len_fr pb b VUndef Sb Hb) as Lb. unfold fr in La, Lb. cbn [app] in La, Lb.
  destruct (stored_bytes m pa _ _ Sa) as (A0 & A1 & A2). destruct (stored_bytes m pb _ _ Sb) as (B0 & B1 & B2).
  destruct (cmp_core pa pb a b _ _ VUndef VUndef A0 A1 A2 B0 B1 B2 Ha Hb) as (v & C & Hv). unfold fr in C. cbn [app] in C.
  exists v. split; [|exact Hv].
  - eapply bsE_seq; [eapply bsE_decl0; eve; reflexivity|]. eapply bsE_seq; [eapply bsE_decl0; eve; reflexivity|].
    eapply bsE_seq; [eapply bsE_decl0; eve; reflexivity|]. eapply bsE_seq; [eapply bsE_decl0; eve; reflexivity|].
    eapply bsE_seq; [eapply bsE_call; [reflexivity|eve; reflexivity|reflexivity|eve; exact La|eve; reflexivity]|].
    eapply bsE_seq; [eapply bsE_call; [reflexivity|eve; reflexivity|reflexivity|eve; exact Lb|eve; reflexivity]|].
    exact C.
Qed.


(* ---- sbdf_obj_eq: string / binary objects ---- *)
(* cell j of the pointer array points at the stored j-th element *)
Definition elems_at (is_str : bool) (cells : list val) (es : list (list Z)) : Prop :=
  forall j e, nth_error es j = Some e -> exists p, nth_error cells j = Some (VPtr RIn p) /\
    (if is_str then stored_str m p e /\ zlen e + 1 < 2147483648 else stored_ba m p e /\ zlen e < 2147483648).

Fixpoint all_eq (la lb : list (list Z)) : bool :=
  match la, lb with
  | [], [] => true
  | a :: la', b :: lb' => list_eqb a b && all_eq la' lb'
  | _, _ => false
  end.

Lemma obj_eq_loop lo ro ldb rdb lcells rcells ty la lb ldata rdata (is_str : bool) :
  obj_block h lo ty (zlen la) ldata -> as_ptr ldata = VCell ldb 0 -> nth_error h ldb = Some (Some lcells) ->
  obj_block h ro ty (zlen la) rdata -> as_ptr rdata = VCell rdb 0 -> nth_error h rdb = Some (Some rcells) ->
  elems_at is_str lcells la -> elems_at is_str rcells lb -> zlen la = zlen lb -> zlen la < int_max ->
  forall resta restb donea doneb c0 sz0, la = donea ++ resta -> lb = doneb ++ restb -> zlen donea = zlen doneb ->
  exists iv cv, bsE prog_env
    (SWhile (EBin Lt (EVar "i") (ECellLoad (EVar "lhs") (EConst 1) false))
       (SSeq (SSeq (SDecl "cmp" (Some (EConst (0))))
                (SSeq (SIf (EVar "is_string")
                         (SCall (Some "cmp"%string) "sbdf_str_cmp" [(AVal (ECellLoad (ECellLoad (EVar "lhs") (EConst 2) true) (EVar "i") true)); (AVal (ECellLoad (ECellLoad (EVar "rhs") (EConst 2) true) (EVar "i") true))])
                         (SCall (Some "cmp"%string) "sbdf_ba_memcmp" [(AVal (ECellLoad (ECellLoad (EVar "lhs") (EConst 2) true) (EVar "i") true)); (AVal (ECellLoad (ECellLoad (EVar "rhs") (EConst 2) true) (EVar "i") true))]))
                      (SIf (EVar "cmp") (SReturn (EConst (0))) SSkip)))
             (SExpr (EPreInc "i"))))
    (fr [("lhs"%string, VCell lo 0); ("rhs"%string, VCell ro 0); ("cmp"%string, c0); ("i"%string, VInt (zlen donea)); ("is_string"%string, VInt (b2z is_str)); ("sz"%string, sz0)] bv k sx h m o)
    (if all_eq resta restb
     then ONormal (fr [("lhs"%string, VCell lo 0); ("rhs"%string, VCell ro 0); ("cmp"%string, cv); ("i"%string, iv); ("is_string"%string, VInt (b2z is_str)); ("sz"%string, sz0)] bv k sx h m o)
     else OReturn (VInt 0) (fr [("lhs"%string, VCell lo 0); ("rhs"%string, VCell ro 0); ("cmp"%string, cv); ("i"%string, iv); ("is_string"%string, VInt (b2z is_str)); ("sz"%string, sz0)] bv k sx h m o)).
Proof.
  intros Hlo Hld Hldb Hro Hrd Hrdb Hea Heb Hlen Hmax. unfold obj_block in Hlo, Hro. unfold int_max in Hmax.
  induction resta as [|a resta IH]; intros restb donea doneb c0 sz0 Hla Hlb Hd; unfold fr.
  - rewrite app_nil_r in Hla. subst donea.
    assert (restb = []).
    { destruct restb as [|b restb]; [reflexivity|]. exfalso. rewrite Hlb, zlen_app in Hlen. unfold zlen in *. cbn [List.length] in Hlen. lia. }
    subst restb. cbn [all_eq]. exists (VInt (zlen la)), c0.
    eapply bsE_while_f; [eve; chk7; eve; cellrw Hlo; eve; rewrite Z.ltb_irrefl; reflexivity|reflexivity].
  - destruct restb as [|b restb].
    { exfalso. rewrite app_nil_r in Hlb. subst doneb. rewrite Hla, zlen_app in Hlen. unfold zlen in *. cbn [List.length] in *. lia. }
    cbn [all_eq].
    pose proof (zlen_nonneg donea) as Pd.
    assert (Hja : nth_error la (List.length donea) = Some a) by (rewrite Hla, nth_error_app2 by lia; rewrite Nat.sub_diag; reflexivity).
    assert (Hjb : nth_error lb (List.length donea) = Some b).
    { rewrite Hlb. replace (List.length donea) with (List.length doneb) by (unfold zlen in Hd; lia). rewrite nth_error_app2 by lia. rewrite Nat.sub_diag. reflexivity. }
    destruct (Hea _ _ Hja) as (pa & Hca & Sa). destruct (Heb _ _ Hjb) as (pb & Hcb & Sb).
    assert (Hi : zlen donea < zlen la) by (rewrite Hla, zlen_app; unfold zlen; cbn [List.length]; lia).
    assert (Hidx : Z.to_nat (0 + zlen donea) = List.length donea) by (unfold zlen; lia).
    assert (Hi0 : 0 <=? 0 + zlen donea = true) by lia.
    assert (COND : forall cc ii, ii = VInt (zlen donea) -> eval (EBin Lt (EVar "i") (ECellLoad (EVar "lhs") (EConst 1) false))
         {| vars := [("lhs"%string, VCell lo 0); ("rhs"%string, VCell ro 0); ("cmp"%string, cc); ("i"%string, ii); ("is_string"%string, VInt (b2z is_str)); ("sz"%string, sz0);
                     (budget_var, bv); (fail_var, VInt k); (strm_var, VBytes sx); (cells_var, VHeap h)]; inb := m; outb := o |}
         = Some (VInt 1, {| vars := [("lhs"%string, VCell lo 0); ("rhs"%string, VCell ro 0); ("cmp"%string, cc); ("i"%string, ii); ("is_string"%string, VInt (b2z is_str)); ("sz"%string, sz0);
                     (budget_var, bv); (fail_var, VInt k); (strm_var, VBytes sx); (cells_var, VHeap h)]; inb := m; outb := o |})).
    { intros cc ii ->. eve. chk7. eve. cellrw Hlo. eve. replace (zlen donea <? zlen la) with true by lia. reflexivity. }
    assert (ARGS : eval_args [(AVal (ECellLoad (ECellLoad (EVar "lhs") (EConst 2) true) (EVar "i") true)); (AVal (ECellLoad (ECellLoad (EVar "rhs") (EConst 2) true) (EVar "i") true))]
         {| vars := [("lhs"%string, VCell lo 0); ("rhs"%string, VCell ro 0); ("cmp"%string, VInt 0); ("i"%string, VInt (zlen donea)); ("is_string"%string, VInt (b2z is_str)); ("sz"%string, sz0);
                     (budget_var, bv); (fail_var, VInt k); (strm_var, VBytes sx); (cells_var, VHeap h)]; inb := m; outb := o |}
         = Some ([VPtr RIn pa; VPtr RIn pb], [None; None],
                 {| vars := [("lhs"%string, VCell lo 0); ("rhs"%string, VCell ro 0); ("cmp"%string, VInt 0); ("i"%string, VInt (zlen donea)); ("is_string"%string, VInt (b2z is_str)); ("sz"%string, sz0);
                     (budget_var, bv); (fail_var, VInt k); (strm_var, VBytes sx); (cells_var, VHeap h)]; inb := m; outb := o |})).
    { eve. chk7. eve. cellrw Hlo. eve. rewrite Hld. eve. unfold cell_get. rewrite Hldb, Hi0, Hidx, Hca. eve.
      chk7. eve. rewrite Hro. cbn [Z.add Z.leb Z.compare Z.to_nat]. change (Pos.to_nat 2) with 2%nat. cbn [nth_error]. eve. rewrite Hrd. eve. rewrite Hrdb, Hi0, Hidx, Hcb. eve. reflexivity. }
    (* the comparison of this pair *)
    assert (CALL : exists v, Z.sgn v = lex_cmp a b /\
       bsE prog_env (SIf (EVar "is_string")
                         (SCall (Some "cmp"%string) "sbdf_str_cmp" [(AVal (ECellLoad (ECellLoad (EVar "lhs") (EConst 2) true) (EVar "i") true)); (AVal (ECellLoad (ECellLoad (EVar "rhs") (EConst 2) true) (EVar "i") true))])
                         (SCall (Some "cmp"%string) "sbdf_ba_memcmp" [(AVal (ECellLoad (ECellLoad (EVar "lhs") (EConst 2) true) (EVar "i") true)); (AVal (ECellLoad (ECellLoad (EVar "rhs") (EConst 2) true) (EVar "i") true))]))
         {| vars := [("lhs"%string, VCell lo 0); ("rhs"%string, VCell ro 0); ("cmp"%string, VInt 0); ("i"%string, VInt (zlen donea)); ("is_string"%string, VInt (b2z is_str)); ("sz"%string, sz0);
                     (budget_var, bv); (fail_var, VInt k); (strm_var, VBytes sx); (cells_var, VHeap h)]; inb := m; outb := o |}
         (ONormal {| vars := [("lhs"%string, VCell lo 0); ("rhs"%string, VCell ro 0); ("cmp"%string, VInt v); ("i"%string, VInt (zlen donea)); ("is_string"%string, VInt (b2z is_str)); ("sz"%string, sz0);
                     (budget_var, bv); (fail_var, VInt k); (strm_var, VBytes sx); (cells_var, VHeap h)]; inb := m; outb := o |})).
    { destruct is_str.
      - destruct Sa as (Sa & La). destruct Sb as (Sb & Lb).
        destruct (str_cmp_fr pa pb a b VUndef VUndef VUndef VUndef Sa Sb La Lb) as (v & B & Hv). unfold fr in B. cbn [app] in B.
        exists v. split; [exact Hv|]. eapply bsE_if; [eve; reflexivity|reflexivity|].
        eapply bsE_call; [reflexivity|exact ARGS|reflexivity|eve; exact B|eve; reflexivity].
      - destruct Sa as (Sa & La). destruct Sb as (Sb & Lb).
        destruct (ba_memcmp_fr pa pb a b VUndef VUndef VUndef VUndef Sa Sb La Lb) as (v & B & Hv). unfold fr in B. cbn [app] in B.
        exists v. split; [exact Hv|]. eapply bsE_if; [eve; reflexivity|reflexivity|].
        eapply bsE_call; [reflexivity|exact ARGS|reflexivity|eve; exact B|eve; reflexivity]. }
    destruct CALL as (v & Hv & CALL).
    destruct (list_eqb a b) eqn:E; cbn [andb].
    + apply list_eqb_spec in E. subst b.
      assert (v = 0). { assert (lex_cmp a a = 0) by (now apply lex_cmp_eq). destruct v; cbn in Hv; lia. } subst v.
      destruct (IH restb (donea ++ [a]) (doneb ++ [a]) (VInt 0) sz0) as (iv & cv & B); [rewrite <- app_assoc; exact Hla|rewrite <- app_assoc; exact Hlb|rewrite !zlen_app; lia|].
      assert (Hz : zlen (donea ++ [a]) = zlen donea + 1) by (rewrite zlen_app; reflexivity). rewrite Hz in B. unfold fr in B. cbn [app] in B.
      exists iv, cv.
      assert (STEP : bsE prog_env (SSeq (SSeq (SDecl "cmp" (Some (EConst (0))))
                (SSeq (SIf (EVar "is_string")
                         (SCall (Some "cmp"%string) "sbdf_str_cmp" [(AVal (ECellLoad (ECellLoad (EVar "lhs") (EConst 2) true) (EVar "i") true)); (AVal (ECellLoad (ECellLoad (EVar "rhs") (EConst 2) true) (EVar "i") true))])
                         (SCall (Some "cmp"%string) "sbdf_ba_memcmp" [(AVal (ECellLoad (ECellLoad (EVar "lhs") (EConst 2) true) (EVar "i") true)); (AVal (ECellLoad (ECellLoad (EVar "rhs") (EConst 2) true) (EVar "i") true))]))
                      (SIf (EVar "cmp") (SReturn (EConst (0))) SSkip)))
             (SExpr (EPreInc "i")))
         {| vars := [("lhs"%string, VCell lo 0); ("rhs"%string, VCell ro 0); ("cmp"%string, c0); ("i"%string, VInt (zlen donea)); ("is_string"%string, VInt (b2z is_str)); ("sz"%string, sz0);
                     (budget_var, bv); (fail_var, VInt k); (strm_var, VBytes sx); (cells_var, VHeap h)]; inb := m; outb := o |}
         (ONormal {| vars := [("lhs"%string, VCell lo 0); ("rhs"%string, VCell ro 0); ("cmp"%string, VInt 0); ("i"%string, VInt (zlen donea + 1)); ("is_string"%string, VInt (b2z is_str)); ("sz"%string, sz0);
                     (budget_var, bv); (fail_var, VInt k); (strm_var, VBytes sx); (cells_var, VHeap h)]; inb := m; outb := o |})).
      { eapply bsE_seq.
        - eapply bsE_seq; [eapply bsE_decl1; [eve; chk7; reflexivity|eve; reflexivity]|].
          eapply bsE_seq; [exact CALL|]. eapply bsE_if; [eve; reflexivity|reflexivity|apply bsE_skip].
        - eapply bsE_expr. eve. unfold incr. chk7. eve. reflexivity. }
      destruct (all_eq resta restb); (eapply bsE_while_t; [apply COND; reflexivity|reflexivity|exact STEP|exact B]).
    + assert (Hne : v <> 0).
      { intros ->. cbn in Hv. symmetry in Hv. apply lex_cmp_eq in Hv. subst b. assert (list_eqb a a = true) by now apply list_eqb_spec. congruence. }
      exists (VInt (zlen donea)), (VInt v).
      eapply bsE_while_ret; [apply COND; reflexivity|reflexivity|].
      eapply bsE_seq_ret. eapply bsE_seq; [eapply bsE_decl1; [eve; chk7; reflexivity|eve; reflexivity]|].
      eapply bsE_seq; [exact CALL|]. eapply bsE_if; [eve; reflexivity|cbn [truth]; destruct (v =? 0) eqn:Z0; [lia|reflexivity]|].
      eapply bsE_return. eve. chk7. reflexivity.
Qed.


Lemma obj_eq_arr_bs lo ro ldb rdb lcells rcells ty la lb ldata rdata c0 i0 s0 z0 : lo <> ro ->
  obj_block h lo ty (zlen la) ldata -> as_ptr ldata = VCell ldb 0 -> nth_error h ldb = Some (Some lcells) ->
  obj_block h ro ty (zlen la) rdata -> as_ptr rdata = VCell rdb 0 -> nth_error h rdb = Some (Some rcells) ->
  elems_at (ty =? 10) lcells la -> elems_at (ty =? 10) rcells lb -> zlen la = zlen lb -> zlen la < int_max ->
  Leaf.gen_sbdf_ti_is_arr ty <> 0 -> int_min <= ty <= int_max ->
  exists fin, bsE prog_env (fbody prog_sbdf_obj_eq)
    (fr [("lhs"%string, VCell lo 0); ("rhs"%string, VCell ro 0); ("cmp"%string, c0); ("i"%string, i0); ("is_string"%string, s0); ("sz"%string, z0)] bv k sx h m o)
    (OReturn (VInt (b2z (all_eq la lb))) fin) /\ inb fin = m /\ lookup cells_var (vars fin) = Some (VHeap h).
Proof.
  intros Hne Hlo Hld Hldb Hro Hrd Hrdb Hea Heb Hlen Hmax Harr Hty.
  destruct (obj_eq_loop lo ro ldb rdb lcells rcells ty la lb ldata rdata (ty =? 10) Hlo Hld Hldb Hro Hrd Hrdb Hea Heb Hlen Hmax la lb [] [] c0 z0 eq_refl eq_refl eq_refl) as (iv & cv & LOOP).
  change (zlen (@nil (list Z))) with 0 in LOOP. unfold fr in LOOP. cbn [app] in LOOP.
  unfold obj_block in Hlo, Hro. cbn [fbody prog_sbdf_obj_eq]. unfold fr. unfold int_min, int_max in Hty.
  assert (PRE : forall rest oo,
    bsE prog_env rest {| vars := [("lhs"%string, VCell lo 0); ("rhs"%string, VCell ro 0); ("cmp"%string, c0); ("i"%string, i0); ("is_string"%string, s0); ("sz"%string, z0);
                                   (budget_var, bv); (fail_var, VInt k); (strm_var, VBytes sx); (cells_var, VHeap h)]; inb := m; outb := o |} oo ->
    bsE prog_env (SSeq (SIf (EPtrEq (EVar "lhs") (EVar "rhs")) (SReturn (EConst (1))) SSkip) (SSeq (SIf (ELOr (ELNot (EVar "lhs")) (ELNot (EVar "rhs"))) (SReturn (EConst (0))) SSkip)
       (SSeq (SIf (EBin Ne (ECellLoad (EVar "lhs") (EConst 0) false) (ECellLoad (EVar "rhs") (EConst 0) false)) (SReturn (EConst (0))) SSkip)
       (SSeq (SIf (EBin Ne (ECellLoad (EVar "lhs") (EConst 1) false) (ECellLoad (EVar "rhs") (EConst 1) false)) (SReturn (EConst (0))) SSkip) rest))))
      {| vars := [("lhs"%string, VCell lo 0); ("rhs"%string, VCell ro 0); ("cmp"%string, c0); ("i"%string, i0); ("is_string"%string, s0); ("sz"%string, z0);
                                   (budget_var, bv); (fail_var, VInt k); (strm_var, VBytes sx); (cells_var, VHeap h)]; inb := m; outb := o |} oo).
  { intros rest oo R.
    eapply bsE_seq; [eapply bsE_if; [eve; unfold ptr_eqb; cbn [as_ptr]; replace (Nat.eqb lo ro) with false by (symmetry; apply Nat.eqb_neq; exact Hne); reflexivity|reflexivity|apply bsE_skip]|].
    eapply bsE_seq; [eapply bsE_if; [eve; reflexivity|reflexivity|apply bsE_skip]|].
    eapply bsE_seq; [eapply bsE_if; [eve; chk7; eve; cellrw Hlo; eve; chk7; eve; rewrite Hro; cbn [Z.add Z.leb Z.compare Z.to_nat nth_error]; eve; rewrite Z.eqb_refl; reflexivity|reflexivity|apply bsE_skip]|].
    eapply bsE_seq; [eapply bsE_if; [eve; chk7; eve; cellrw Hlo; eve; chk7; eve; rewrite Hro; cbn [Z.add Z.leb Z.compare Z.to_nat]; change (Pos.to_nat 1) with 1%nat; cbn [nth_error]; eve; rewrite Z.eqb_refl; reflexivity|reflexivity|apply bsE_skip]|].
    exact R. }
  destruct (all_eq la lb).
  - eexists. split; [apply PRE; eapply bsE_seq;
      [eapply bsE_if; [eve; chk7; eve; cellrw Hlo; eve; unfold leaf_call; cbn [String.eqb Ascii.eqb Bool.eqb]; reflexivity
                     |cbn [truth]; destruct (Leaf.gen_sbdf_ti_is_arr ty =? 0) eqn:Z0; [lia|reflexivity]|];
       (eapply bsE_seq; [eapply bsE_decl1; [eve; chk7; eve; cellrw Hlo; eve; chk7; reflexivity|eve; reflexivity]|]);
       (eapply bsE_seq; [eapply bsE_decl0; eve; reflexivity|]);
       (eapply bsE_seq; [eapply bsE_expr; eve; chk7; eve; reflexivity|]); exact LOOP
      |eapply bsE_return; eve; chk7; reflexivity]
    |split; reflexivity].
  - eexists. split; [apply PRE; eapply bsE_seq_ret;
      (eapply bsE_if; [eve; chk7; eve; cellrw Hlo; eve; unfold leaf_call; cbn [String.eqb Ascii.eqb Bool.eqb]; reflexivity
                     |cbn [truth]; destruct (Leaf.gen_sbdf_ti_is_arr ty =? 0) eqn:Z0; [lia|reflexivity]|]);
      (eapply bsE_seq; [eapply bsE_decl1; [eve; chk7; eve; cellrw Hlo; eve; chk7; reflexivity|eve; reflexivity]|]);
      (eapply bsE_seq; [eapply bsE_decl0; eve; reflexivity|]);
      (eapply bsE_seq; [eapply bsE_expr; eve; chk7; eve; reflexivity|]); exact LOOP
    |split; reflexivity].
Qed.


(* ---- the other value types: one memcmp over count * size bytes ---- *)
Lemma memcmp_l_eqb a : forall b, List.length a = List.length b -> (memcmp_l a b =? 0) = list_eqb a b.
Proof.
  induction a as [|x a IH]; intros [|y b] Hl; cbn [memcmp_l list_eqb]; try discriminate; [reflexivity|].
  destruct (x <? y) eqn:E1; [replace (x =? y) with false by lia; reflexivity|].
  destruct (y <? x) eqn:E2; [replace (x =? y) with false by lia; reflexivity|].
  replace (x =? y) with true by lia. cbn [andb]. apply IH. cbn [List.length] in Hl. lia.
Qed.

Lemma obj_eq_fixed_bs lo ro ty n pa pb c0 i0 s0 z0 : lo <> ro ->
  obj_block h lo ty n (VPtr RIn pa) -> obj_block h ro ty n (VPtr RIn pb) ->
  Leaf.gen_sbdf_ti_is_arr ty = 0 -> let sz := Leaf.gen_sbdf_get_unpacked_size ty in
  0 <= sz -> 0 <= n -> sz * n <= int_max -> 0 <= pa -> pa + sz * n <= zlen m -> 0 <= pb -> pb + sz * n <= zlen m -> int_min <= sz <= int_max ->
  bsE prog_env (fbody prog_sbdf_obj_eq)
    (fr [("lhs"%string, VCell lo 0); ("rhs"%string, VCell ro 0); ("cmp"%string, c0); ("i"%string, i0); ("is_string"%string, s0); ("sz"%string, z0)] bv k sx h m o)
    (OReturn (VInt (b2z (list_eqb (firstn (Z.to_nat (sz * n)) (skipn (Z.to_nat pa) m)) (firstn (Z.to_nat (sz * n)) (skipn (Z.to_nat pb) m)))))
       (fr [("lhs"%string, VCell lo 0); ("rhs"%string, VCell ro 0); ("cmp"%string, c0); ("i"%string, i0); ("is_string"%string, s0); ("sz"%string, VInt sz)] bv k sx h m o)).
Proof.
  intros Hne Hlo Hro Harr sz Hsz Hn Hmul Hpa Hla Hpb Hlb Hszr. unfold obj_block in Hlo, Hro. cbn [fbody prog_sbdf_obj_eq]. unfold fr. unfold int_min, int_max in *.
  eapply bsE_seq; [eapply bsE_if; [eve; unfold ptr_eqb; cbn [as_ptr]; replace (Nat.eqb lo ro) with false by (symmetry; apply Nat.eqb_neq; exact Hne); reflexivity|reflexivity|apply bsE_skip]|].
  eapply bsE_seq; [eapply bsE_if; [eve; reflexivity|reflexivity|apply bsE_skip]|].
  eapply bsE_seq; [eapply bsE_if; [eve; chk7; eve; cellrw Hlo; eve; chk7; eve; rewrite Hro; cbn [Z.add Z.leb Z.compare Z.to_nat nth_error]; eve; rewrite Z.eqb_refl; reflexivity|reflexivity|apply bsE_skip]|].
  eapply bsE_seq; [eapply bsE_if; [eve; chk7; eve; cellrw Hlo; eve; chk7; eve; rewrite Hro; cbn [Z.add Z.leb Z.compare Z.to_nat]; change (Pos.to_nat 1) with 1%nat; cbn [nth_error]; eve; rewrite Z.eqb_refl; reflexivity|reflexivity|apply bsE_skip]|].
  eapply bsE_seq_ret.
  eapply bsE_if; [eve; chk7; eve; cellrw Hlo; eve; unfold leaf_call; cbn [String.eqb Ascii.eqb Bool.eqb]; reflexivity|cbn [truth]; rewrite Harr; reflexivity|].
  eapply bsE_seq; [eapply bsE_decl1; [eve; chk7; eve; cellrw Hlo; eve; unfold leaf_call; cbn [String.eqb Ascii.eqb Bool.eqb]; reflexivity|eve; reflexivity]|]. fold sz.
  eapply bsE_seq; [eapply bsE_if; [eve; chk7; eve; replace (sz <? 0) with false by lia; reflexivity|reflexivity|apply bsE_skip]|].
  eapply bsE_return. eve. chk7. eve. cellrw Hlo. eve. chk7. eve. rewrite Hro. cbn [Z.add Z.leb Z.compare Z.to_nat]. change (Pos.to_nat 2) with 2%nat. cbn [nth_error]. eve.
  chk7. eve. rewrite Hlo. cbn [Z.add Z.leb Z.compare Z.to_nat]. change (Pos.to_nat 1) with 1%nat. cbn [nth_error]. eve. chk7. eve.
  replace (0 <=? sz * n) with true by lia. eve. cbn [inb]. rewrite zlen_length.
  replace ((0 <=? sz * n) && (0 <=? pa) && (pa + sz * n <=? zlen m) && (0 <=? pb) && (pb + sz * n <=? zlen m)) with true by lia.
  cbn [truth]. rewrite memcmp_l_eqb.
  - destruct (list_eqb _ _); reflexivity.
  - rewrite !firstn_length, !skipn_length. unfold zlen in *. lia.
Qed.

End Eq.

(* ---- as top-level calls ---- *)
Theorem obj_eq_arrays_source k sx m h lo ro ldb rdb lcells rcells ty la lb ldata rdata : lo <> ro ->
  obj_block h lo ty (zlen la) ldata -> as_ptr ldata = VCell ldb 0 -> nth_error h ldb = Some (Some lcells) ->
  obj_block h ro ty (zlen la) rdata -> as_ptr rdata = VCell rdb 0 -> nth_error h rdb = Some (Some rcells) ->
  elems_at m (ty =? 10) lcells la -> elems_at m (ty =? 10) rcells lb -> zlen la = zlen lb -> zlen la < int_max ->
  Leaf.gen_sbdf_ti_is_arr ty <> 0 -> int_min <= ty <= int_max ->
  exists f0, forall f, (f0 <= f)%nat -> exists fin,
    callC prog_env f prog_sbdf_obj_eq [VCell lo 0; VCell ro 0] m k sx h = OReturn (VInt (b2z (all_eq la lb))) fin /\
    inb fin = m /\ lookup cells_var (vars fin) = Some (VHeap h).
Proof.
  intros. destruct (obj_eq_arr_bs (VInt 0) k sx h m [] lo ro ldb rdb lcells rcells ty la lb ldata rdata VUndef VUndef VUndef VUndef) as (fin & B & P1 & P2); try assumption.
  destruct (bsE_sound _ _ _ _ B) as (f0 & F). exists f0. intros f Hf. exists fin. split; [apply F; exact Hf|]. split; assumption.
Qed.

Lemma all_eq_spec la : forall lb, all_eq la lb = true <-> la = lb.
Proof.
  induction la as [|a la IH]; intros [|b lb]; cbn [all_eq]; try (split; discriminate); [split; reflexivity|].
  rewrite andb_true_iff, list_eqb_spec, IH. split; [intros [-> ->]; reflexivity|intros [= -> ->]; split; reflexivity].
Qed.

Theorem obj_eq_fixed_source k sx m h lo ro ty n pa pb : lo <> ro ->
  obj_block h lo ty n (VPtr RIn pa) -> obj_block h ro ty n (VPtr RIn pb) ->
  Leaf.gen_sbdf_ti_is_arr ty = 0 -> let sz := Leaf.gen_sbdf_get_unpacked_size ty in
  0 <= sz -> 0 <= n -> sz * n <= int_max -> 0 <= pa -> pa + sz * n <= zlen m -> 0 <= pb -> pb + sz * n <= zlen m -> int_min <= sz <= int_max ->
  exists f0, forall f, (f0 <= f)%nat -> exists fin,
    callC prog_env f prog_sbdf_obj_eq [VCell lo 0; VCell ro 0] m k sx h =
      OReturn (VInt (b2z (list_eqb (firstn (Z.to_nat (sz * n)) (skipn (Z.to_nat pa) m)) (firstn (Z.to_nat (sz * n)) (skipn (Z.to_nat pb) m))))) fin /\
    inb fin = m /\ lookup cells_var (vars fin) = Some (VHeap h).
Proof.
  intros Hne Hlo Hro Harr sz H1 H2 H3 H4 H5 H6 H7 H8.
  destruct (bsE_sound _ _ _ _ (obj_eq_fixed_bs (VInt 0) k sx h m [] lo ro ty n pa pb VUndef VUndef VUndef VUndef Hne Hlo Hro Harr H1 H2 H3 H4 H5 H6 H7 H8)) as (f0 & F).
  exists f0. intros f Hf. eexists. split; [apply F; exact Hf|]. split; reflexivity.
Qed.
