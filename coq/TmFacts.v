(* TmFacts.v — the table-metadata section: what sbdf_tm_write emits (also when it refuses), and
   that sbdf_tm_read inverts it up to the file-wide name order (C01, C03, C08). *)
From Sbdf Require Import Tm BaseFacts PrimFacts SevenBit ObjFacts VaFacts EqFacts MdFacts.
From Coq Require Import ZifyBool.

Section TmFacts.
Variable swp : bool.
Notation cap0 := (@None Z).

(* ---- single objects (unpacked form) ---- *)
Definition enc_obj1 (o : obj) : list Z := enc_objects swp o false.

Definition enc_flag_obj (o : option obj) : list Z :=
  match o with Some o => [1] ++ enc_obj1 o | None => [0] end.

Definition obj1_ok (o : obj) : Prop := wf_obj o /\ ocount o = 1.

Lemma wspec_flag_obj o : (forall x, o = Some x -> obj_ok x) -> wspec (write_flag_obj swp o) (Ok tt) (enc_flag_obj o).
Proof.
  intros H. unfold write_flag_obj, enc_flag_obj. destruct o as [x|].
  - eapply wspec_bind; [apply (wspec_int8 1)|]. apply wspec_write_objects. now apply H.
  - apply (wspec_int8 0).
Qed.

Lemma rspec_obj1 o : obj1_ok o -> rspec (obj_read swp cap0 (oty o)) (enc_obj1 o) o.
Proof. intros (W & C). unfold obj_read, enc_obj1. rewrite <- C. now apply rspec_read_objects. Qed.

Lemma rspec_flag_obj vt (o : option obj) :
  (forall x, o = Some x -> obj1_ok x /\ oty x = vt) ->
  rspec (v <-r read_int8 ;;
         if v =? 0 then rret None
         else if negb (v =? 1) then rfail SBDF_ERROR_ARRAY_LENGTH_MUST_BE_1
         else (x <-r obj_read swp cap0 vt ;; rret (Some x))) (enc_flag_obj o) o.
Proof.
  intros H. unfold enc_flag_obj. destruct o as [x|].
  - destruct (H x eq_refl) as (Hx & <-). eapply rspec_bind; [apply rspec_int8|]. cbn [Z.eqb negb Pos.eqb].
    eapply rspec_ext; [apply app_nil_r|]. eapply rspec_bind; [now apply rspec_obj1|apply rspec_ret].
  - eapply rspec_ext; [apply app_nil_r|]. eapply rspec_bind; [apply rspec_int8|]. cbn [Z.eqb]. apply rspec_ret.
Qed.

(* the default flag of the name list accepts any non-zero value *)
Lemma rspec_flag_obj_loose vt (o : option obj) :
  (forall x, o = Some x -> obj1_ok x /\ oty x = vt) ->
  rspec (v <-r read_int8 ;; if v =? 0 then rret None else (x <-r obj_read swp cap0 vt ;; rret (Some x))) (enc_flag_obj o) o.
Proof.
  intros H. unfold enc_flag_obj. destruct o as [x|].
  - destruct (H x eq_refl) as (Hx & <-). eapply rspec_bind; [apply rspec_int8|]. cbn [Z.eqb].
    eapply rspec_ext; [apply app_nil_r|]. eapply rspec_bind; [now apply rspec_obj1|apply rspec_ret].
  - eapply rspec_ext; [apply app_nil_r|]. eapply rspec_bind; [apply rspec_int8|]. cbn [Z.eqb]. apply rspec_ret.
Qed.

(* ---- table-level entries ---- *)
Definition tentry_ok (e : mdent) : Prop :=
  zlen (ename e) < 2147483647 /\
  match evalue e with
  | Some v => obj1_ok v /\ 0 <= oty v < 256 /\ match edflt e with Some d => obj1_ok d /\ oty d = oty v | None => True end
  | None => False
  end.

Definition enc_tentry (e : mdent) : list Z :=
  enc_string swp (ename e) ++ [ent_type e mod 256] ++ [1] ++ match evalue e with Some v => enc_obj1 v | None => [] end ++ enc_flag_obj (edflt e).

Lemma wf_obj_ok' o : wf_obj o -> obj_ok o.
Proof. intros [_ W]. unfold obj_ok. destruct (is_arr (oty o)); [now left|right; tauto]. Qed.

Lemma wspec_tentry e : tentry_ok e ->
  wspec (write_string swp (ename e) ;;w
         match evalue e with
         | None => wfail SBDF_ERROR_INCORRECT_METADATA
         | Some v => vt_write (oty v) ;;w write_int8 1 ;;w obj_write swp v ;;w write_flag_obj swp (edflt e)
         end) (Ok tt) (enc_tentry e).
Proof.
  intros (Hn & Hv). unfold enc_tentry, ent_type. destruct (evalue e) as [v|]; [|contradiction].
  destruct Hv as ((Wv & Cv) & Bt & Hd).
  eapply wspec_bind; [apply wspec_string|]. eapply wspec_bind; [apply wspec_int8|].
  eapply wspec_bind; [apply (wspec_int8 1)|]. eapply wspec_bind; [apply wspec_write_objects; now apply wf_obj_ok'|].
  apply wspec_flag_obj. intros x Hx. rewrite Hx in Hd. destruct Hd as ((Wd & _) & _). now apply wf_obj_ok'.
Qed.

Definition read_flag_obj (vt : Z) : R (option obj) :=
  v <-r read_int8 ;;
  if v =? 0 then rret None
  else if negb (v =? 1) then rfail SBDF_ERROR_ARRAY_LENGTH_MUST_BE_1
  else (x <-r obj_read swp cap0 vt ;; rret (Some x)).

Lemma rspec_fun_ext {A} (m m' : R A) bs a : (forall s, m s = m' s) -> rspec m bs a -> rspec m' bs a.
Proof.
  intros E [H1 H2]. split; [intros tail; rewrite <- E; apply H1|].
  intros n Hn. destruct (H2 n Hn) as (e & He & Hh). exists e. split; [rewrite <- E; exact He|exact Hh].
Qed.

Lemma read_metadata_values_alt vt s :
  (x <-r read_flag_obj vt ;; y <-r read_flag_obj vt ;; rret (x, y)) s = read_metadata_values swp cap0 vt s.
Proof.
  unfold read_metadata_values, read_flag_obj, rd_bind, rret, rfail.
  destruct (read_int8 s) as [[v s1]|]; [|reflexivity].
  destruct (v =? 0).
  - destruct (read_int8 s1) as [[v2 s2]|]; [|reflexivity]. destruct (v2 =? 0); [reflexivity|].
    destruct (negb (v2 =? 1)); [reflexivity|]. destruct (obj_read swp cap0 vt s2) as [[o s3]|]; reflexivity.
  - destruct (negb (v =? 1)); [reflexivity|]. destruct (obj_read swp cap0 vt s1) as [[o s2]|]; [|reflexivity].
    destruct (read_int8 s2) as [[v2 s3]|]; [|reflexivity]. destruct (v2 =? 0); [reflexivity|].
    destruct (negb (v2 =? 1)); [reflexivity|]. destruct (obj_read swp cap0 vt s3) as [[o2 s4]|]; reflexivity.
Qed.

Lemma enc_string_nonempty s : enc_string swp s <> [].
Proof. unfold enc_string, enc32. destruct swp; cbn; discriminate. Qed.

Lemma enc_tentry_nonempty e : enc_tentry e <> [].
Proof. unfold enc_tentry. intros H. apply app_eq_nil in H. destruct H as [H _]. now apply enc_string_nonempty in H. Qed.

Lemma rspec_tentry e : tentry_ok e -> rspec (read_table_entry swp cap0) (enc_tentry e) e.
Proof.
  intros (Hn & Hv). unfold read_table_entry, enc_tentry, ent_type, vt_read.
  destruct (evalue e) as [v|] eqn:Ev; [|contradiction]. destruct Hv as (Hv1 & Bt & Hd).
  eapply rspec_bind; [now apply rspec_string|]. eapply rspec_bind; [apply rspec_int8|].
  rewrite Z.mod_small by lia.
  eapply rspec_ext; [apply app_nil_r|]. eapply rspec_bind.
  - eapply rspec_fun_ext; [apply read_metadata_values_alt|].
    change ([1] ++ enc_obj1 v ++ enc_flag_obj (edflt e)) with (enc_flag_obj (Some v) ++ enc_flag_obj (edflt e)).
    eapply rspec_bind; [apply rspec_flag_obj; intros x Hx; inversion Hx; subst; split; [exact Hv1|reflexivity]|].
    eapply rspec_ext; [apply app_nil_r|]. eapply rspec_bind.
    + apply rspec_flag_obj. intros x Hx. rewrite Hx in Hd. exact Hd.
    + apply rspec_ret.
  - cbn [fst snd]. destruct e as [n ev ed]. cbn [ename evalue edflt] in *. subst ev. apply rspec_ret.
Qed.

(* ---- the folding of column metadata ---- *)

(* the entries of `es` are consistent with the representative list `names` *)
Definition repr_ok (names : list mdent) (e : mdent) : Prop :=
  exists n, In n names /\ name_eqb (ename n) (ename e) = true /\ ent_type n = ent_type e /\ obj_eq_opt (edflt n) (edflt e) <> 0.

Lemma find_first_ext {A} (p q : A -> bool) l : (forall x, In x l -> p x = q x) -> find_first p l = find_first q l.
Proof.
  induction l as [|x l IH]; intros H; cbn [find_first]; [reflexivity|].
  rewrite (H x (or_introl eq_refl)). destruct (q x); [reflexivity|]. apply IH. intros y Hy. apply H. now right.
Qed.

(* what fold_loop computes: with `seen` = the entries met so far (latest first) and `keep` = the
   first occurrences among them (latest first), the result extends rev keep by the first
   occurrences of the remaining entries; its names are unique when those of keep are and keep
   covers the names of seen *)
Lemma fold_loop_spec es : forall seen keep names,
  fold_loop es seen keep = Ok names ->
  (forall s, In s seen -> exists k, In k keep /\ name_eqb (ename k) (ename s) = true) ->
  (forall k, In k keep -> In k seen) ->
  NoDup (map key keep) ->
  exists extra, names = rev keep ++ extra /\ NoDup (map key names) /\
    (forall e, In e es -> exists n, In n names /\ name_eqb (ename n) (ename e) = true) /\
    (forall x, In x extra -> In x es).
Proof.
  induction es as [|e es IH]; intros seen keep names H Hcov Hsub Hnd; cbn [fold_loop] in H.
  - inversion H. subst. exists []. rewrite app_nil_r. split; [reflexivity|]. split.
    + rewrite map_rev. apply NoDup_rev. exact Hnd.
    + split; [intros e []|intros x []].
  - destruct (find_first (fun p => name_eqb (ename p) (ename e)) seen) as [p|] eqn:F.
    + destruct (negb (ent_type p - ent_type e =? 0)); [discriminate|].
      destruct (obj_eq_opt (edflt p) (edflt e) =? 0); [discriminate|].
      destruct (IH (e :: seen) keep names H) as (extra & E1 & E2 & E3 & E4).
      * intros s [<-|Hs]; [|now apply Hcov].
        apply find_first_some in F. destruct F as (Hp & Np). destruct (Hcov p Hp) as (k & Hk & Nk).
        exists k. split; [exact Hk|]. apply name_eqb_true in Nk. apply name_eqb_true in Np. apply name_eqb_true. congruence.
      * intros k Hk. right. now apply Hsub.
      * exact Hnd.
      * exists extra. split; [exact E1|]. split; [exact E2|]. split.
        -- intros x [<-|Hx]; [|now apply E3].
           apply find_first_some in F. destruct F as (Hp & Np). destruct (Hcov p Hp) as (k & Hk & Nk).
           exists k. split; [rewrite E1; apply in_or_app; left; apply in_rev in Hk; exact Hk|].
           apply name_eqb_true in Nk. apply name_eqb_true in Np. apply name_eqb_true. congruence.
        -- intros x Hx. right. now apply E4.
    + destruct (IH (e :: seen) (e :: keep) names H) as (extra & E1 & E2 & E3 & E4).
      * intros s [<-|Hs]; [exists e; split; [now left|apply name_eqb_refl]|].
        destruct (Hcov s Hs) as (k & Hk & Nk). exists k. split; [now right|exact Nk].
      * intros k [<-|Hk]; [now left|right; now apply Hsub].
      * cbn [map]. constructor; [|exact Hnd]. intros Hin. apply in_map_iff in Hin. destruct Hin as (k & Ek & Hk).
        rewrite find_first_none in F. specialize (F k (Hsub k Hk)).
        assert (name_eqb (ename k) (ename e) = true) by (apply name_eqb_true; exact Ek). congruence.
      * cbn [rev] in E1. rewrite <- app_assoc in E1. exists ([e] ++ extra). split; [exact E1|]. split; [exact E2|]. split.
        -- intros x [<-|Hx]; [|now apply E3]. exists e. split; [|apply name_eqb_refl].
           rewrite E1. apply in_or_app. right. now left.
        -- intros x [<-|Hx]; [now left|right; now apply E4].
Qed.

(* ---- agreement: entries with the same name have the same type and the same default ---- *)
Definition dflt_wf (e : mdent) : Prop := forall d, edflt e = Some d -> obj_wf d.
Definition agree (a b : mdent) : Prop := ent_type a = ent_type b /\ edflt a = edflt b.
Definition same_name (a b : mdent) : Prop := name_eqb (ename a) (ename b) = true.

Lemma same_name_sym a b : same_name a b -> same_name b a.
Proof. unfold same_name. now rewrite name_eqb_sym. Qed.

Lemma same_name_trans a b c : same_name a b -> same_name b c -> same_name a c.
Proof. unfold same_name. rewrite !name_eqb_true. congruence. Qed.

Lemma obj_eq_opt_equal a b : (forall d, a = Some d -> obj_wf d) -> (forall d, b = Some d -> obj_wf d) ->
  obj_eq_opt a b <> 0 -> a = b.
Proof.
  intros Wa Wb H. destruct a as [x|], b as [y|]; cbn [obj_eq_opt] in H; try reflexivity; try congruence.
  f_equal. apply obj_eq_iff; [now apply Wa|now apply Wb|].
  destruct (obj_eq_boolean x y (Wa x eq_refl)) as [E|E]; [congruence|exact E].
Qed.

Definition pairwise_agree (l : list mdent) : Prop := forall a b, In a l -> In b l -> same_name a b -> agree a b.

Lemma fold_loop_agree es : forall seen keep names,
  fold_loop es seen keep = Ok names ->
  Forall dflt_wf es -> Forall dflt_wf seen -> pairwise_agree seen -> pairwise_agree (seen ++ es).
Proof.
  induction es as [|e es IH]; intros seen keep names H Wes Wseen Hp; [now rewrite app_nil_r|].
  inversion Wes as [|? ? We Wes']. subst. cbn [fold_loop] in H.
  assert (Step : pairwise_agree (e :: seen) /\ exists keep', fold_loop es (e :: seen) keep' = Ok names).
  { destruct (find_first (fun p => name_eqb (ename p) (ename e)) seen) as [p|] eqn:F.
    - destruct (negb (ent_type p - ent_type e =? 0)) eqn:T; [discriminate|].
      destruct (obj_eq_opt (edflt p) (edflt e) =? 0) eqn:D; [discriminate|].
      split; [|eauto].
      apply find_first_some in F. destruct F as (Hin & Np).
      assert (Ape : agree p e).
      { split; [apply negb_false_iff in T; lia|].
        apply obj_eq_opt_equal; [rewrite Forall_forall in Wseen; exact (Wseen p Hin)|exact We|lia]. }
      intros a b [<-|Ha] [<-|Hb] Sab.
      + split; reflexivity.
      + assert (Apb : agree p b) by (apply Hp; try assumption; eapply same_name_trans; [exact Np|exact Sab]).
        destruct Ape as [E1 E2], Apb as [E3 E4]. split; congruence.
      + assert (Apa : agree p a) by (apply Hp; try assumption; eapply same_name_trans; [exact Np|apply same_name_sym; exact Sab]).
        destruct Ape as [E1 E2], Apa as [E3 E4]. split; congruence.
      + now apply Hp.
    - split; [|eauto].
      rewrite find_first_none in F.
      intros a b [<-|Ha] [<-|Hb] Sab.
      + split; reflexivity.
      + specialize (F b Hb). apply same_name_sym in Sab. unfold same_name in Sab. congruence.
      + specialize (F a Ha). unfold same_name in Sab. congruence.
      + now apply Hp. }
  destruct Step as (Hp' & keep' & H').
  assert (G : pairwise_agree ((e :: seen) ++ es)) by (eapply IH; [exact H'|exact Wes'|constructor; assumption|exact Hp']).
  assert (M : forall a, In a (seen ++ e :: es) -> In a ((e :: seen) ++ es)).
  { intros a Ha. apply in_app_or in Ha. cbn [app]. destruct Ha as [Ha|[<-|Ha]];
      [right; apply in_or_app; now left|now left|right; apply in_or_app; now right]. }
  intros a b Ha Hb. apply G; now apply M.
Qed.

(* fold_columns: the survivors are entries of the columns, with unique names, covering every name,
   and every column entry agrees with the survivor of its name *)
Theorem fold_columns_spec cols names :
  fold_columns cols = Ok names -> Forall dflt_wf (concat (map ments cols)) ->
  NoDup (map key names) /\
  (forall n, In n names -> In n (concat (map ments cols))) /\
  (forall e, In e (concat (map ments cols)) -> exists n, In n names /\ same_name n e /\ agree n e).
Proof.
  intros H W. unfold fold_columns in H.
  destruct (fold_loop_spec (concat (map ments cols)) [] [] names H) as (extra & E1 & E2 & E3 & E4);
    [intros s []|intros k []|constructor|].
  cbn [rev app] in E1. subst extra.
  pose proof (fold_loop_agree _ [] [] names H W (Forall_nil _) (fun a b Ha => match Ha with end)) as P. cbn [app] in P.
  split; [exact E2|]. split; [exact E4|].
  intros e He. destruct (E3 e He) as (n & Hn & Nn). exists n. split; [exact Hn|]. split; [exact Nn|].
  apply P; [now apply E4|exact He|exact Nn].
Qed.


(* ---- the column part on the wire ---- *)
Definition def_of (n : mdent) : list Z * Z * option obj := (ename n, ent_type n, edflt n).

Definition enc_namedef (n : mdent) : list Z := enc_string swp (ename n) ++ [ent_type n mod 256] ++ enc_flag_obj (edflt n).

Definition enc_colval (c : md) (n : mdent) : list Z :=
  match md_find (ename n) c with
  | Some e => [1] ++ match evalue e with Some v => enc_obj1 v | None => [] end
  | None => [0]
  end.
Definition enc_colvals (names : list mdent) (c : md) : list Z := concat (map (enc_colval c) names).

Definition enc_tm (t : tm) (names : list mdent) : list Z :=
  [223; 91; 2] ++ enc32 swp (md_cnt (tmeta t)) ++ concat (map enc_tentry (ments (tmeta t))) ++
  enc32 swp (zlen (tcols t)) ++ enc32 swp (zlen names) ++ concat (map enc_namedef names) ++
  concat (map (enc_colvals names) (tcols t)).

Definition col_ok (c : md) : Prop := Forall tentry_ok (ments c) /\ NoDup (map key (ments c)).

Definition tm_ok (t : tm) : Prop :=
  Forall tentry_ok (ments (tmeta t)) /\ zlen (ments (tmeta t)) < 2147483648 /\
  Forall col_ok (tcols t) /\ zlen (tcols t) <= 134217727.

Lemma md_find_in name c e : md_find name c = Some e -> In e (ments c) /\ name_eqb name (ename e) = true.
Proof. unfold md_find. intros H. apply (find_first_some (fun e0 => name_eqb name (ename e0))) in H. exact H. Qed.

Lemma fold_loop_err es : forall seen keep st, fold_loop es seen keep = Err st -> st = SBDF_ERROR_INCORRECT_METADATA.
Proof.
  induction es as [|e es IH]; intros seen keep st H; cbn [fold_loop] in H; [discriminate|].
  destruct (find_first _ seen) as [p|].
  - destruct (negb (ent_type p - ent_type e =? 0)); [now inversion H|].
    destruct (obj_eq_opt (edflt p) (edflt e) =? 0); [now inversion H|]. eapply IH. exact H.
  - eapply IH. exact H.
Qed.

(* the writer: the first part (section, table-level entries, column count) is written in any case *)
Definition enc_tm_head (t : tm) : list Z :=
  [223; 91; 2] ++ enc32 swp (md_cnt (tmeta t)) ++ concat (map enc_tentry (ments (tmeta t))) ++ enc32 swp (zlen (tcols t)).

Lemma wspec_tm_head t : Forall tentry_ok (ments (tmeta t)) ->
  wspec (sec_write SBDF_TABLEMETADATA_SECTIONID ;;w
         write_int32 swp (md_cnt (tmeta t)) ;;w
         wfor (ments (tmeta t)) (fun e =>
           write_string swp (ename e) ;;w
           match evalue e with
           | None => wfail SBDF_ERROR_INCORRECT_METADATA
           | Some v => vt_write (oty v) ;;w write_int8 1 ;;w obj_write swp v ;;w write_flag_obj swp (edflt e)
           end) ;;w
         write_int32 swp (zlen (tcols t))) (Ok tt) (enc_tm_head t).
Proof.
  intros W. unfold enc_tm_head.
  eapply wspec_bind; [apply (wspec_sec SBDF_TABLEMETADATA_SECTIONID)|].
  eapply wspec_bind; [apply wspec_int32|].
  eapply wspec_bind; [|apply wspec_int32].
  apply wspec_wfor. intros e He. apply wspec_tentry. rewrite Forall_forall in W. now apply W.
Qed.

Lemma wspec_colval c n : col_ok c ->
  wspec (match md_find (ename n) c with
         | Some e => write_int8 1 ;;w match evalue e with Some v => obj_write swp v | None => wfail SBDF_ERROR_ARGUMENT_NULL end
         | None => write_int8 0
         end) (Ok tt) (enc_colval c n).
Proof.
  intros (W & _). unfold enc_colval. destruct (md_find (ename n) c) as [e|] eqn:F; [|apply (wspec_int8 0)].
  apply md_find_in in F. destruct F as (Hin & _). rewrite Forall_forall in W. destruct (W e Hin) as (_ & Hv).
  destruct (evalue e) as [v|]; [|contradiction]. destruct Hv as ((Wv & _) & _).
  eapply wspec_bind; [apply (wspec_int8 1)|]. apply wspec_write_objects. now apply wf_obj_ok'.
Qed.

Theorem wspec_tm t names : tm_ok t -> fold_columns (tcols t) = Ok names ->
  (forall n, In n names -> tentry_ok n) ->
  wspec (tm_write swp t) (Ok tt) (enc_tm t names).
Proof.
  intros (Wt & _ & Wc & _) F Wn. unfold tm_write. rewrite F. unfold enc_tm.
  assert (A : forall (a b c d rest : list Z), a ++ b ++ c ++ d ++ rest = (a ++ b ++ c ++ d) ++ rest)
    by (intros; now rewrite <- !app_assoc).
  rewrite A. fold (enc_tm_head t).
  pose proof (wspec_tm_head t Wt) as H.
  (* re-associate the binds: head ;; rest *)
  assert (E : forall (k : W unit) s,
    (sec_write SBDF_TABLEMETADATA_SECTIONID ;;w write_int32 swp (md_cnt (tmeta t)) ;;w
     wfor (ments (tmeta t)) (fun e => write_string swp (ename e) ;;w
        match evalue e with None => wfail SBDF_ERROR_INCORRECT_METADATA
        | Some v => vt_write (oty v) ;;w write_int8 1 ;;w obj_write swp v ;;w write_flag_obj swp (edflt e) end) ;;w
     write_int32 swp (zlen (tcols t)) ;;w k) s =
    ((sec_write SBDF_TABLEMETADATA_SECTIONID ;;w write_int32 swp (md_cnt (tmeta t)) ;;w
     wfor (ments (tmeta t)) (fun e => write_string swp (ename e) ;;w
        match evalue e with None => wfail SBDF_ERROR_INCORRECT_METADATA
        | Some v => vt_write (oty v) ;;w write_int8 1 ;;w obj_write swp v ;;w write_flag_obj swp (edflt e) end) ;;w
     write_int32 swp (zlen (tcols t))) ;;w k) s).
  { intros k s. unfold wbind.
    destruct (sec_write SBDF_TABLEMETADATA_SECTIONID s) as [[u|e] s1]; [|reflexivity].
    destruct (write_int32 swp (md_cnt (tmeta t)) s1) as [[u2|e] s2]; [|reflexivity].
    destruct (wfor (ments (tmeta t)) _ s2) as [[u3|e] s3]; [|reflexivity].
    destruct (write_int32 swp (zlen (tcols t)) s3) as [[u4|e] s4]; reflexivity. }
  intros s Hs. rewrite E. revert s Hs.
  change (wspec ((sec_write SBDF_TABLEMETADATA_SECTIONID ;;w write_int32 swp (md_cnt (tmeta t)) ;;w
     wfor (ments (tmeta t)) (fun e => write_string swp (ename e) ;;w
        match evalue e with None => wfail SBDF_ERROR_INCORRECT_METADATA
        | Some v => vt_write (oty v) ;;w write_int8 1 ;;w obj_write swp v ;;w write_flag_obj swp (edflt e) end) ;;w
     write_int32 swp (zlen (tcols t))) ;;w
     (write_int32 swp (zlen names) ;;w
      wfor names (fun e => write_string swp (ename e) ;;w vt_write (ent_type e) ;;w write_flag_obj swp (edflt e)) ;;w
      wfor (tcols t) (fun c => wfor names (fun n =>
        match md_find (ename n) c with
        | Some e => write_int8 1 ;;w match evalue e with Some v => obj_write swp v | None => wfail SBDF_ERROR_ARGUMENT_NULL end
        | None => write_int8 0 end)))) (Ok tt)
     (enc_tm_head t ++ enc32 swp (zlen names) ++ concat (map enc_namedef names) ++ concat (map (enc_colvals names) (tcols t)))).
  eapply wspec_bind; [exact H|].
  eapply wspec_bind; [apply wspec_int32|].
  eapply wspec_bind.
  - apply wspec_wfor. intros n Hn. unfold enc_namedef.
    eapply wspec_bind; [apply wspec_string|]. eapply wspec_bind; [apply wspec_int8|].
    apply wspec_flag_obj. intros x Hx. destruct (Wn n Hn) as (_ & Hv). destruct (evalue n); [|contradiction].
    destruct Hv as (_ & _ & Hd). rewrite Hx in Hd. destruct Hd as ((Wd & _) & _). now apply wf_obj_ok'.
  - apply wspec_wfor. intros c Hc. unfold enc_colvals. apply wspec_wfor. intros n Hn.
    apply wspec_colval. rewrite Forall_forall in Wc. now apply Wc.
Qed.

(* C01: conflicting column metadata is refused with INCORRECT_METADATA (after the head was written) *)
Theorem wspec_tm_conflict t st : tm_ok t -> fold_columns (tcols t) = Err st ->
  st = SBDF_ERROR_INCORRECT_METADATA /\ wspec (tm_write swp t) (Err SBDF_ERROR_INCORRECT_METADATA) (enc_tm_head t).
Proof.
  intros (Wt & _) F. assert (st = SBDF_ERROR_INCORRECT_METADATA) by (unfold fold_columns in F; eapply fold_loop_err; exact F).
  subst st. split; [reflexivity|]. unfold tm_write. rewrite F.
  pose proof (wspec_tm_head t Wt) as H.
  intros s Hs. destruct (H s Hs) as [Ha Hb]. unfold wbind in *.
  split; intros L.
  - destruct Ha as (s' & E & B & U); [exact L|].
    destruct (sec_write SBDF_TABLEMETADATA_SECTIONID s) as [[u|e] s1]; [|discriminate].
    destruct (write_int32 swp (md_cnt (tmeta t)) s1) as [[u2|e] s2]; [|discriminate].
    destruct (wfor (ments (tmeta t)) _ s2) as [[u3|e] s3]; [|discriminate].
    destruct (write_int32 swp (zlen (tcols t)) s3) as [[u4|e] s4]; [|discriminate].
    inversion E. subst. exists s'. unfold wfail. auto.
  - destruct Hb as (e & s' & E & Ne & B & U); [exact L|].
    destruct (sec_write SBDF_TABLEMETADATA_SECTIONID s) as [[u|e1] s1]; [|inversion E; subst; eauto 6].
    destruct (write_int32 swp (md_cnt (tmeta t)) s1) as [[u2|e1] s2]; [|inversion E; subst; eauto 6].
    destruct (wfor (ments (tmeta t)) _ s2) as [[u3|e1] s3]; [|inversion E; subst; eauto 6].
    destruct (write_int32 swp (zlen (tcols t)) s3) as [[u4|e1] s4]; [discriminate|inversion E; subst; eauto 6].
Qed.


(* ---- the reader ---- *)
Definition read_dflt_loose (vt : Z) : R (option obj) :=
  v <-r read_int8 ;; if v =? 0 then rret None else (x <-r obj_read swp cap0 vt ;; rret (Some x)).

Lemma read_name_def_alt s :
  (name <-r read_string swp cap0 ;; vt <-r vt_read ;; d <-r read_dflt_loose vt ;; rret (name, vt, d)) s = read_name_def swp cap0 s.
Proof.
  unfold read_name_def, read_dflt_loose, rd_bind, rret, vt_read.
  destruct (read_string swp cap0 s) as [[name s1]|]; [|reflexivity].
  destruct (read_int8 s1) as [[vt s2]|]; [|reflexivity].
  destruct (read_int8 s2) as [[v s3]|]; [|reflexivity].
  destruct (v =? 0); [reflexivity|]. destruct (obj_read swp cap0 vt s3) as [[o s4]|]; reflexivity.
Qed.

Lemma tentry_type_byte n : tentry_ok n -> 0 <= ent_type n < 256.
Proof. intros (_ & H). unfold ent_type. destruct (evalue n); [tauto|contradiction]. Qed.

Lemma tentry_dflt n x : tentry_ok n -> edflt n = Some x -> obj1_ok x /\ oty x = ent_type n.
Proof. intros (_ & H) E. unfold ent_type. destruct (evalue n); [|contradiction]. destruct H as (_ & _ & Hd). rewrite E in Hd. exact Hd. Qed.

Lemma rspec_namedef n : tentry_ok n -> rspec (read_name_def swp cap0) (enc_namedef n) (def_of n).
Proof.
  intros W. eapply rspec_fun_ext; [apply read_name_def_alt|]. unfold enc_namedef, def_of, vt_read.
  pose proof W as (Hn & Hv).
  eapply rspec_bind; [now apply rspec_string|]. eapply rspec_bind; [apply rspec_int8|].
  rewrite Z.mod_small by (now apply tentry_type_byte).
  eapply rspec_ext; [apply app_nil_r|]. eapply rspec_bind.
  - apply rspec_flag_obj_loose. intros x Hx. now apply tentry_dflt.
  - apply rspec_ret.
Qed.

Lemma enc_namedef_nonempty n : enc_namedef n <> [].
Proof. unfold enc_namedef. intros H. apply app_eq_nil in H. destruct H as [H _]. now apply enc_string_nonempty in H. Qed.

(* the entries a column gets back: one per name of the file-wide list that the column has, in the
   order of that list, with the column's own value and the list's default *)
Definition picked (names : list mdent) (c : md) : list mdent :=
  flat_map (fun n => match md_find (ename n) c with
                     | Some e => [{| ename := cstr (ename n); evalue := evalue e; edflt := edflt n |}]
                     | None => []
                     end) names.

Definition norm (names : list mdent) (c : md) : md := {| ments := picked names c; mmod := false |}.

(* what the column part needs of the name list: unique names, well-formed, and for every column
   entry under that name the same type *)
Definition names_ok (names : list mdent) (c : md) : Prop :=
  NoDup (map key names) /\ (forall n, In n names -> tentry_ok n) /\
  (forall n e, In n names -> md_find (ename n) c = Some e -> ent_type e = ent_type n).

Lemma md_find_app_none name m x : md_find name m = None -> name_eqb name (ename x) = false ->
  md_find name {| ments := ments m ++ [x]; mmod := mmod m |} = None.
Proof.
  unfold md_find. cbn [ments]. intros F Hx. apply find_first_none. intros y Hy. apply in_app_or in Hy.
  destruct Hy as [Hy|[<-|[]]]; [|exact Hx]. rewrite find_first_none in F. now apply F.
Qed.

Lemma read_column_exact c : col_ok c -> forall names m tail,
  names_ok names c -> mmod m = true -> (forall n, In n names -> md_find (ename n) m = None) ->
  read_column swp cap0 (map def_of names) m (enc_colvals names c ++ tail)
  = Ok ({| ments := ments m ++ picked names c; mmod := true |}, tail).
Proof.
  intros (Wc & Nc). induction names as [|n names IH]; intros m tail (Hnd & Hw & Ht) Hm Hfree.
  - cbn [map read_column enc_colvals concat app picked flat_map]. rewrite app_nil_r. unfold rret.
    destruct m as [es md]. cbn [mmod ments] in *. now rewrite Hm.
  - cbn [map def_of read_column]. unfold enc_colvals. cbn [map concat]. fold (enc_colvals names c). rewrite <- app_assoc.
    cbn [map] in Hnd. inversion Hnd as [|k ks Hnin Hnd']. subst.
    assert (Hok' : names_ok names c).
    { split; [exact Hnd'|]. split; [intros x Hx; apply Hw; now right|intros x e Hx; apply Ht; now right]. }
    unfold enc_colval at 1. cbn [picked flat_map]. fold (picked names c).
    destruct (md_find (ename n) c) as [e|] eqn:F.
    + destruct (md_find_in _ _ _ F) as (Hin & Ne). rewrite Forall_forall in Wc. destruct (Wc e Hin) as (_ & Hv).
      destruct (evalue e) as [v|] eqn:Ev; [|contradiction]. destruct Hv as (Hv1 & Bt & Hd).
      unfold rd_bind. cbn [app read_int8 Z.eqb].
      assert (Ety : oty v = ent_type n) by (rewrite <- (Ht n e (or_introl eq_refl) F); unfold ent_type; now rewrite Ev).
      destruct (rspec_obj1 v Hv1) as [Eo _]. rewrite <- Ety, Eo.
      (* the addition succeeds *)
      assert (Wn : tentry_ok n) by (apply Hw; now left).
      assert (Args : add_args_ok v (edflt n)).
      { destruct Hv1 as (Wv & Cv). split; [now apply wf_obj_ok'|]. split; [exact Cv|].
        destruct (edflt n) as [d|] eqn:Ed; [|exact I]. destruct (tentry_dflt n d Wn Ed) as ((Wd & Cd) & Td).
        split; [now apply wf_obj_ok'|]. split; [exact Cd|congruence]. }
      destruct (md_add_spec (ename n) v (edflt n) m Hm Args) as [Hadd _].
      rewrite (Hadd (Hfree n (or_introl eq_refl))).
      rewrite IH; [cbn [ments]; now rewrite <- app_assoc|exact Hok'|reflexivity|].
      intros x Hx. apply md_find_app_none; [apply Hfree; now right|]. cbn [ename]. rewrite name_eqb_cstr_r.
      destruct (name_eqb (ename x) (ename n)) eqn:E; [|reflexivity]. exfalso. apply Hnin.
      apply name_eqb_true in E. apply in_map_iff. exists x. split; [unfold key; exact E|exact Hx].
    + unfold rd_bind. cbn [app read_int8 Z.eqb].
      rewrite IH; [reflexivity|exact Hok'|exact Hm|]. intros x Hx. apply Hfree. now right.
Qed.

Lemma read_columns_exact names : forall cols tail,
  (forall c, In c cols -> col_ok c /\ names_ok names c) ->
  read_columns swp cap0 (length cols) (map def_of names) (concat (map (enc_colvals names) cols) ++ tail)
  = Ok (map (fun c => {| ments := picked names c; mmod := true |}) cols, tail).
Proof.
  induction cols as [|c cols IH]; intros tail W; [reflexivity|].
  cbn [length read_columns map concat]. unfold rd_bind. rewrite <- app_assoc.
  destruct (W c (or_introl eq_refl)) as (Wc & Wn).
  rewrite (read_column_exact c Wc names md_create _ Wn eq_refl); [|intros n _; reflexivity].
  cbn [ments md_create app]. rewrite IH by (intros d Hd; apply W; now right). reflexivity.
Qed.

Lemma rrep_namedefs names : forall fuel tl, (forall n, In n names -> tentry_ok n) -> (length names <= length fuel)%nat ->
  rrep fuel (zlen names) (read_name_def swp cap0) (concat (map enc_namedef names) ++ tl) = Ok (map def_of names, tl).
Proof.
  induction names as [|n ns IHn]; intros fuel tl W Hf.
  - destruct fuel; reflexivity.
  - destruct fuel as [|b fuel]; [cbn in Hf; lia|]. cbn [rrep]. rewrite zlen_cons. pose proof (zlen_nonneg ns).
    destruct (1 + zlen ns <=? 0) eqn:Cn; [lia|]. cbn [map concat]. rewrite <- app_assoc.
    destruct (rspec_namedef n (W n (or_introl eq_refl))) as [En _]. rewrite En.
    replace (1 + zlen ns - 1) with (zlen ns) by lia.
    rewrite IHn; [reflexivity| |cbn in Hf; lia]. intros x Hx. apply W. now right.
Qed.

(* C01/C08: the reader inverts the table-metadata section up to the file-wide name order *)
Theorem tm_read_exact t names tail : tm_ok t ->
  (forall n, In n names -> tentry_ok n) -> zlen names < 2147483648 ->
  (forall c, In c (tcols t) -> names_ok names c) ->
  tm_read swp cap0 (enc_tm t names ++ tail)
  = Ok ({| tmeta := {| ments := ments (tmeta t); mmod := false |}; tcols := map (norm names) (tcols t) |}, tail).
Proof.
  intros (Wt & Nt & Wc & Nc) Wn Nn Hn. unfold tm_read, enc_tm, rd_bind.
  pose proof (zlen_nonneg (ments (tmeta t))) as P1. pose proof (zlen_nonneg (tcols t)) as P2. pose proof (zlen_nonneg names) as P3.
  rewrite <- !app_assoc.
  destruct (rspec_sec_expect SBDF_TABLEMETADATA_SECTIONID) as [E0 _].
  change ([223; 91; 2] ++ ?x) with ([223; 91; SBDF_TABLEMETADATA_SECTIONID] ++ x). rewrite E0.
  unfold md_cnt. destruct (rspec_int32 swp (zlen (ments (tmeta t)))) as [E1 _]; [unfold i32_range; lia|]. rewrite E1.
  destruct (zlen (ments (tmeta t)) <? 0) eqn:C0; [lia|].
  destruct (rspec_rrepeat (read_table_entry swp cap0) enc_tentry (ments (tmeta t))) as [E2 _].
  { intros e He. apply rspec_tentry. rewrite Forall_forall in Wt. now apply Wt. }
  { intros e _. apply enc_tentry_nonempty. }
  rewrite E2.
  destruct (rspec_int32 swp (zlen (tcols t))) as [E3 _]; [unfold i32_range; lia|]. rewrite E3.
  change (INT_MAX / 16) with 134217727.
  destruct ((zlen (tcols t) <? 0) || (134217727 <? zlen (tcols t))) eqn:C1; [lia|].
  unfold ralloc, alloc_ok, map_err.
  destruct (rspec_int32 swp (zlen names)) as [E4 _]; [unfold i32_range; lia|]. rewrite E4.
  destruct (zlen names <? 0) eqn:C2; [lia|].
  assert (E5' : forall tl, rrepeat (zlen names) (read_name_def swp cap0) (concat (map enc_namedef names) ++ tl) = Ok (map def_of names, tl)).
  { intros tl. unfold rrepeat. apply rrep_namedefs; [exact Wn|].
    rewrite app_length. pose proof (length_concat_ge enc_namedef names (fun n _ => enc_namedef_nonempty n)). lia. }
  rewrite E5'.
  replace (Z.to_nat (zlen (tcols t))) with (length (tcols t)) by (unfold zlen; now rewrite Nat2Z.id).
  rewrite read_columns_exact.
  - unfold rret. f_equal. f_equal. f_equal. rewrite map_map. apply map_ext. intros c. reflexivity.
  - intros c Hc. split; [rewrite Forall_forall in Wc; now apply Wc|now apply Hn].
Qed.

(* ---- the reader as a codec statement: exact whatever follows, and every strict prefix of the
   table-metadata section is refused with a hard error (C06) ---- *)

Lemma rspec_map_err {A} e (m : R A) bs a : hard e -> rspec m bs a -> rspec (map_err e m) bs a.
Proof.
  intros He [E T]. split.
  - intros tail. unfold map_err. now rewrite E.
  - intros n Hn. destruct (T n Hn) as (e' & Ee & _). exists e. unfold map_err. rewrite Ee. split; [reflexivity|exact He].
Qed.

Lemma rspec_read_column c : col_ok c -> forall names m,
  names_ok names c -> mmod m = true -> (forall n, In n names -> md_find (ename n) m = None) ->
  rspec (read_column swp cap0 (map def_of names) m) (enc_colvals names c)
        {| ments := ments m ++ picked names c; mmod := true |}.
Proof.
  intros (Wc & Nc). induction names as [|n names IH]; intros m (Hnd & Hw & Ht) Hm Hfree.
  - cbn [map read_column enc_colvals concat picked flat_map]. rewrite app_nil_r.
    destruct m as [es md]. cbn [mmod ments] in *. subst md. apply rspec_ret.
  - cbn [map def_of read_column]. unfold enc_colvals. cbn [map concat]. fold (enc_colvals names c).
    cbn [map] in Hnd. inversion Hnd as [|k ks Hnin Hnd']. subst.
    assert (Hok' : names_ok names c).
    { split; [exact Hnd'|]. split; [intros x Hx; apply Hw; now right|intros x e Hx; apply Ht; now right]. }
    unfold enc_colval at 1. cbn [picked flat_map]. fold (picked names c).
    destruct (md_find (ename n) c) as [e|] eqn:F.
    + destruct (md_find_in _ _ _ F) as (Hin & Ne). rewrite Forall_forall in Wc. destruct (Wc e Hin) as (_ & Hv).
      destruct (evalue e) as [v|] eqn:Ev; [|contradiction]. destruct Hv as (Hv1 & Bt & Hd).
      assert (Ety : oty v = ent_type n) by (rewrite <- (Ht n e (or_introl eq_refl) F); unfold ent_type; now rewrite Ev).
      rewrite <- app_assoc. eapply rspec_bind; [apply (rspec_int8 1)|]. cbn [Z.eqb].
      eapply rspec_bind; [rewrite <- Ety; now apply rspec_obj1|].
      assert (Wn : tentry_ok n) by (apply Hw; now left).
      assert (Args : add_args_ok v (edflt n)).
      { destruct Hv1 as (Wv & Cv). split; [now apply wf_obj_ok'|]. split; [exact Cv|].
        destruct (edflt n) as [d|] eqn:Ed; [|exact I]. destruct (tentry_dflt n d Wn Ed) as ((Wd & Cd) & Td).
        split; [now apply wf_obj_ok'|]. split; [exact Cd|congruence]. }
      destruct (md_add_spec (ename n) v (edflt n) m Hm Args) as [Hadd _].
      rewrite (Hadd (Hfree n (or_introl eq_refl))).
      assert (Hfree' : forall x, In x names ->
                md_find (ename x) {| ments := ments m ++ [{| ename := cstr (ename n); evalue := Some v; edflt := edflt n |}]; mmod := true |} = None).
      { intros x Hx. rewrite <- Hm. apply md_find_app_none; [apply Hfree; now right|]. cbn [ename]. rewrite name_eqb_cstr_r.
        destruct (name_eqb (ename x) (ename n)) eqn:E; [|reflexivity]. exfalso. apply Hnin.
        apply name_eqb_true in E. apply in_map_iff. exists x. split; [unfold key; exact E|exact Hx]. }
      pose proof (IH {| ments := ments m ++ [{| ename := cstr (ename n); evalue := Some v; edflt := edflt n |}]; mmod := true |} Hok' eq_refl Hfree') as H. cbn [ments] in H. rewrite <- app_assoc in H. exact H.
    + eapply rspec_bind; [apply (rspec_int8 0)|]. cbn [Z.eqb]. rewrite app_nil_l.
      apply IH; [exact Hok'|exact Hm|]. intros x Hx. apply Hfree. now right.
Qed.

Lemma rspec_read_columns names : forall cols,
  (forall c, In c cols -> col_ok c /\ names_ok names c) ->
  rspec (read_columns swp cap0 (length cols) (map def_of names)) (concat (map (enc_colvals names) cols))
        (map (fun c => {| ments := picked names c; mmod := true |}) cols).
Proof.
  induction cols as [|c cols IH]; intros W; cbn [length read_columns map concat]; [apply rspec_ret|].
  destruct (W c (or_introl eq_refl)) as (Wc & Wn).
  eapply rspec_bind.
  - pose proof (rspec_read_column c Wc names md_create Wn eq_refl (fun n _ => eq_refl)) as H. cbn [ments md_create app] in H. exact H.
  - eapply rspec_ext; [apply app_nil_r|]. eapply rspec_bind; [apply IH; intros d Hd; apply W; now right|]. apply rspec_ret.
Qed.

Theorem rspec_tm t names : tm_ok t ->
  (forall n, In n names -> tentry_ok n) -> zlen names < 2147483648 ->
  (forall c, In c (tcols t) -> names_ok names c) ->
  rspec (tm_read swp cap0) (enc_tm t names)
        {| tmeta := {| ments := ments (tmeta t); mmod := false |}; tcols := map (norm names) (tcols t) |}.
Proof.
  intros (Wt & Nt & Wc & Nc) Wn Nn Hn. unfold tm_read, enc_tm.
  pose proof (zlen_nonneg (ments (tmeta t))) as P1. pose proof (zlen_nonneg (tcols t)) as P2. pose proof (zlen_nonneg names) as P3.
  change ([223; 91; 2] ++ ?x) with ([223; 91; SBDF_TABLEMETADATA_SECTIONID] ++ x).
  eapply rspec_bind; [apply rspec_sec_expect|].
  unfold md_cnt. eapply rspec_bind; [apply rspec_int32; unfold i32_range; lia|].
  destruct (zlen (ments (tmeta t)) <? 0) eqn:C0; [lia|].
  eapply rspec_bind.
  { apply rspec_rrepeat; [intros e He; apply rspec_tentry; rewrite Forall_forall in Wt; now apply Wt|intros e _; apply enc_tentry_nonempty]. }
  eapply rspec_bind; [apply rspec_int32; unfold i32_range; lia|].
  change (INT_MAX / 16) with 134217727.
  destruct ((zlen (tcols t) <? 0) || (134217727 <? zlen (tcols t))) eqn:C1; [lia|].
  eapply rspec_ext; [apply app_nil_l|]. eapply rspec_bind; [unfold ralloc, alloc_ok; apply rspec_ret|].
  eapply rspec_bind; [apply rspec_map_err; [apply hard_oom|apply rspec_int32; unfold i32_range; lia]|].
  destruct (zlen names <? 0) eqn:C2; [lia|].
  eapply rspec_ext; [apply app_nil_l|]. eapply rspec_bind; [unfold ralloc, alloc_ok; apply rspec_ret|].
  eapply rspec_bind.
  { apply (rspec_rrepeat_view (read_name_def swp cap0) (enc_namedef) def_of names);
      [intros n Hin; apply rspec_namedef; now apply Wn|intros n _; apply enc_namedef_nonempty]. }
  eapply rspec_ext; [apply app_nil_r|]. eapply rspec_bind.
  - replace (Z.to_nat (zlen (tcols t))) with (length (tcols t)) by (unfold zlen; now rewrite Nat2Z.id).
    apply rspec_read_columns. intros c Hc. split; [rewrite Forall_forall in Wc; now apply Wc|now apply Hn].
  - rewrite map_map.
    replace (map (fun x => md_set_immutable {| ments := picked names x; mmod := true |}) (tcols t)) with (map (norm names) (tcols t))
      by (apply map_ext; intros c; reflexivity).
    apply rspec_ret.
Qed.



End TmFacts.

(* ---- from the writer's folding to the reader's hypotheses, and the logical content ---- *)
Section TmLink.
Variable swp : bool.

Lemma NoDup_map_inj {A B} (f : A -> B) (l : list A) a b : NoDup (map f l) -> In a l -> In b l -> f a = f b -> a = b.
Proof.
  induction l as [|x l IH]; intros Hnd Ha Hb E; [contradiction|].
  cbn [map] in Hnd. inversion Hnd as [|? ? Hnin Hnd']. subst.
  destruct Ha as [<-|Ha], Hb as [<-|Hb]; try reflexivity.
  - exfalso. apply Hnin. rewrite E. now apply in_map.
  - exfalso. apply Hnin. rewrite <- E. now apply in_map.
  - now apply IH.
Qed.

Definition cols_dflt_wf (cols : list md) : Prop := Forall dflt_wf (concat (map ments cols)).

Lemma in_concat_ments cols c e : In c cols -> In e (ments c) -> In e (concat (map ments cols)).
Proof. intros Hc He. apply in_concat. exists (ments c). split; [now apply in_map|exact He]. Qed.

Theorem fold_gives_names_ok cols names : Forall col_ok cols -> cols_dflt_wf cols -> fold_columns cols = Ok names ->
  (forall n, In n names -> tentry_ok n) /\ (forall c, In c cols -> names_ok names c).
Proof.
  intros Wc Wd F. destruct (fold_columns_spec cols names F Wd) as (Hnd & Hsub & Hcov).
  assert (Hn : forall n, In n names -> tentry_ok n).
  { intros n Hin. apply Hsub in Hin. apply in_concat in Hin. destruct Hin as (l & Hl & Hn). apply in_map_iff in Hl.
    destruct Hl as (c & <- & Hc). rewrite Forall_forall in Wc. destruct (Wc c Hc) as (We & _). rewrite Forall_forall in We. now apply We. }
  split; [exact Hn|]. intros c Hc. split; [exact Hnd|]. split; [exact Hn|].
  intros n e Hin F2. destruct (md_find_in _ _ _ F2) as (He & Ne).
  destruct (Hcov e (in_concat_ments cols c e Hc He)) as (n' & Hn' & Sn & (At & Ad)).
  assert (n' = n).
  { apply (NoDup_map_inj key names); try assumption. unfold key. unfold same_name in Sn.
    apply name_eqb_true in Sn. apply name_eqb_true in Ne. congruence. }
  subst n'. symmetry. exact At.
Qed.

(* the logical content of a column is unchanged by the re-expansion: the same names carry the same
   values and the same defaults (compared as a name-keyed set: only the order may differ) *)
Theorem norm_same_content cols names c name : Forall col_ok cols -> cols_dflt_wf cols -> fold_columns cols = Ok names -> In c cols ->
  match md_find name c, md_find name (norm names c) with
  | Some e, Some e' => evalue e' = evalue e /\ edflt e' = edflt e /\ key e' = key e
  | None, None => True
  | _, _ => False
  end.
Proof.
  intros Wc Wd F Hc. destruct (fold_columns_spec cols names F Wd) as (Hnd & Hsub & Hcov).
  rewrite Forall_forall in Wc. destruct (Wc c Hc) as (We & Ndc).
  change (md_find name (norm names c)) with (find_first (fun e' => name_eqb name (ename e')) (picked names c)).
  (* the first picked entry under `name` *)
  assert (P : forall ns, (forall n, In n ns -> In n names) -> NoDup (map key ns) ->
            match find_first (fun e' => name_eqb name (ename e')) (picked ns c) with
            | Some e' => exists n e, In n ns /\ name_eqb name (ename n) = true /\ md_find (ename n) c = Some e /\
                                    e' = {| ename := cstr (ename n); evalue := evalue e; edflt := edflt n |}
            | None => forall n e, In n ns -> name_eqb name (ename n) = true -> md_find (ename n) c = Some e -> False
            end).
  { induction ns as [|n ns IH]; intros Hs Hd; cbn [picked flat_map find_first]; [intros n e []|].
    fold (picked ns c). cbn [map] in Hd. inversion Hd as [|? ? Hnin Hd']. subst.
    specialize (IH (fun x Hx => Hs x (or_intror Hx)) Hd').
    destruct (md_find (ename n) c) as [e|] eqn:Fn; cbn [app find_first].
    - cbn [ename]. rewrite name_eqb_cstr_r. destruct (name_eqb name (ename n)) eqn:En.
      + exists n, e. repeat split; try assumption; now left.
      + destruct (find_first _ (picked ns c)) as [e'|].
        * destruct IH as (n2 & e2 & H1 & H2 & H3 & H4). exists n2, e2. repeat split; try assumption. now right.
        * intros n2 e2 [<-|H2] H3 H4; [congruence|eapply IH; eassumption].
    - destruct (find_first _ (picked ns c)) as [e'|].
      + destruct IH as (n2 & e2 & H1 & H2 & H3 & H4). exists n2, e2. repeat split; try assumption. now right.
      + intros n2 e2 [<-|H2] H3 H4; [congruence|eapply IH; eassumption]. }
  specialize (P names (fun n H => H) Hnd).
  destruct (md_find name c) as [e|] eqn:Fc.
  - destruct (md_find_in _ _ _ Fc) as (He & Ne).
    destruct (Hcov e (in_concat_ments cols c e Hc He)) as (n & Hn & Sn & (At & Ad)).
    destruct (find_first _ (picked names c)) as [e'|].
    + destruct P as (n2 & e2 & H1 & H2 & H3 & ->). cbn [evalue edflt key ename].
      (* n2 carries the name `name`, so does e; e2 is the entry of c under that name: e2 = e *)
      assert (E2 : e2 = e).
      { destruct (md_find_in _ _ _ H3) as (He2 & Ne2). apply (NoDup_map_inj key (ments c)); try assumption.
        unfold key. apply name_eqb_true in Ne. apply name_eqb_true in Ne2. apply name_eqb_true in H2. congruence. }
      subst e2.
      assert (n2 = n).
      { apply (NoDup_map_inj key names); try assumption. unfold key. unfold same_name in Sn.
        apply name_eqb_true in Sn. apply name_eqb_true in H2. apply name_eqb_true in Ne. congruence. }
      subst n2. split; [reflexivity|]. split; [exact Ad|]. unfold key. cbn [ename]. rewrite cstr_idem.
      unfold same_name in Sn. now apply name_eqb_true in Sn.
    + (* impossible: n is in names, carries the name, and c has an entry under it *)
      assert (Fn : exists e3, md_find (ename n) c = Some e3).
      { destruct (md_find (ename n) c) as [e3|] eqn:F3; [eauto|]. exfalso.
        unfold md_find in F3. rewrite find_first_none in F3. specialize (F3 e He). unfold same_name in Sn. congruence. }
      destruct Fn as (e3 & F3). eapply P; [exact Hn| |exact F3].
      unfold same_name in Sn. apply name_eqb_true in Sn. apply name_eqb_true in Ne. apply name_eqb_true. congruence.
  - destruct (find_first _ (picked names c)) as [e'|]; [|exact I].
    destruct P as (n2 & e2 & H1 & H2 & H3 & _).
    destruct (md_find_in _ _ _ H3) as (He2 & Ne2).
    unfold md_find in Fc. rewrite find_first_none in Fc. specialize (Fc e2 He2).
    apply name_eqb_true in H2. apply name_eqb_true in Ne2. assert (name_eqb name (ename e2) = true) by (apply name_eqb_true; congruence). congruence.
Qed.

End TmLink.
