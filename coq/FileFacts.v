(* FileFacts.v — the slice stream of a file: slices until the end marker (C01, C04), and what a
   reading session makes of every strict prefix of it (C06). *)
From Sbdf Require Import File BaseFacts PrimFacts ObjFacts VaFacts SliceFacts.
From Coq Require Import ZifyBool.

Section FileFacts.
Variable swp : bool.
Notation cap0 := (@None Z).

Definition enc_end : list Z := [223; 91; 5].
Definition enc_slices (sls : list (list (cs va))) : list Z := concat (map (enc_ts swp) sls) ++ enc_end.

Definition slices_ok (ncols : Z) (sls : list (list (cs va))) : Prop :=
  forall cols, In cols sls -> wf_ts cols /\ zlen cols = ncols.

Lemma wspec_end : wspec ts_write_end (Ok tt) enc_end.
Proof. apply (wspec_sec SBDF_TABLEEND_SECTIONID). Qed.

(* the writer side: slices followed by the end marker, under every budget *)
Theorem wspec_slices sls ncols : slices_ok ncols sls ->
  wspec (wfor (map (fun cols => {| tscols := map Some cols; tsowned := false |}) sls) (ts_write swp) ;;w ts_write_end)
        (Ok tt) (enc_slices sls).
Proof.
  intros W. unfold enc_slices. eapply wspec_bind; [|apply wspec_end].
  induction sls as [|cols sls IH]; cbn [map wfor concat]; [apply wspec_ret|].
  eapply wspec_bind; [apply wspec_ts; apply W; now left|].
  apply IH. intros c Hc. apply W. now right.
Qed.

Lemma ts_read_end_marker ncols subset tail : ts_read swp cap0 ncols subset (enc_end ++ tail) = Err SBDF_TABLEEND.
Proof. reflexivity. Qed.

(* C01/C04: a session reads exactly the slices that were written, in order, and then reports
   end-of-table exactly at the end marker *)
Theorem read_slices_exact sls : forall ncols fuel tail,
  slices_ok ncols sls -> (length sls <= length fuel)%nat ->
  read_slices swp cap0 fuel ncols None (enc_slices sls ++ tail)
  = (map (owned_ts) sls, SBDF_TABLEEND, enc_end ++ tail).
Proof.
  induction sls as [|cols sls IH]; intros ncols fuel tail W Hf.
  - unfold enc_slices. cbn [map concat app]. destruct fuel; cbn [read_slices]; now rewrite ts_read_end_marker.
  - destruct fuel as [|b fuel]; [cbn in Hf; lia|].
    destruct (W cols (or_introl eq_refl)) as (Wc & Hn).
    unfold enc_slices. cbn [map concat]. rewrite <- !app_assoc. cbn [read_slices].
    rewrite <- Hn. rewrite (ts_read_exact swp cols None _ Wc). rewrite mask_none.
    rewrite Hn. fold (enc_slices sls). rewrite app_assoc.
    change ((concat (map (enc_ts swp) sls) ++ enc_end) ++ tail) with (enc_slices sls ++ tail).
    rewrite IH; [reflexivity| |cbn in Hf; lia].
    intros c Hc. apply W. now right.
Qed.

(* C06: on every strict prefix of the slice stream the session ends with a hard error (never OK,
   never end-of-table), and the slices delivered before it are the first slices of the full stream *)
Theorem read_slices_truncated sls : forall ncols fuel n,
  slices_ok ncols sls -> 0 <= n < zlen (enc_slices sls) ->
  let '(l, st, _) := read_slices swp cap0 fuel ncols None (ztake n (enc_slices sls)) in
  hard st /\ exists k, l = map owned_ts (firstn k sls).
Proof.
  induction sls as [|cols sls IH]; intros ncols fuel n W Hn.
  - unfold enc_slices in *. cbn [map concat app] in *.
    assert (E : exists e, ts_read swp cap0 ncols None (ztake n enc_end) = Err e /\ hard e).
    { destruct (rspec_sec_read SBDF_TABLEEND_SECTIONID) as [_ T]. destruct (T n Hn) as (e & Ee & He).
      exists e. split; [|exact He]. unfold ts_read, rd_bind.
      change enc_end with [223; 91; SBDF_TABLEEND_SECTIONID]. now rewrite Ee. }
    destruct E as (e & Ee & He). destruct fuel; cbn [read_slices]; rewrite Ee; (split; [exact He|exists 0%nat; reflexivity]).
  - destruct (W cols (or_introl eq_refl)) as (Wc & Hc).
    unfold enc_slices in *. cbn [map concat] in *. rewrite <- app_assoc in *. rewrite zlen_app in Hn.
    destruct (Z_lt_le_dec n (zlen (enc_ts swp cols))) as [L|L].
    + rewrite ztake_app_le by lia. destruct (rspec_ts swp cols Wc) as [_ T]. rewrite Hc in T.
      destruct (T n) as (e & Ee & He); [lia|].
      destruct fuel; cbn [read_slices]; rewrite Ee; (split; [exact He|exists 0%nat; reflexivity]).
    + rewrite ztake_app_ge by lia.
      destruct fuel as [|b fuel]; cbn [read_slices]; rewrite <- Hc; rewrite (ts_read_exact swp cols None _ Wc); rewrite mask_none.
      * split; [apply hard_io|]. exists 1%nat. reflexivity.
      * rewrite Hc. specialize (IH ncols fuel (n - zlen (enc_ts swp cols))).
        fold (enc_slices sls) in *.
        destruct (read_slices swp cap0 fuel ncols None (ztake (n - zlen (enc_ts swp cols)) (enc_slices sls))) as [[l st] s'].
        destruct IH as (Hs & k & Hl); [intros c Hin; apply W; now right|lia|].
        split; [exact Hs|]. exists (S k). cbn [firstn map]. now rewrite Hl.
Qed.

End FileFacts.
